//go:build verif

package server

// C18 oracle harness (package server, no model side): "API and native representations convert
// losslessly".  Three model-independent oracles on the real BgpServer (no sockets: ListenPort -1,
// passive neighbours):
//   (1) AddPath -> ListPath -> DeletePath read-back, plus the gRPC-layer converters
//       apiutil.NewPath / api2apiutilPath / toPathApi / apiutil.GetNative*;
//   (2) AddPeer -> ListPeer (and peer groups, Global) read-back, plus the pure converters
//       newNeighborFromAPIStruct <-> oc.NewPeerFromConfigStruct etc.;
//   (3) AddDefinedSet / AddStatement / AddPolicy -> List* read-back.
// Every allowed difference is a named, commented normal-form helper (vC18SNorm*).

import (
	"context"
	"encoding/hex"
	"fmt"
	"io"
	"log/slog"
	"net/netip"
	"sort"
	"strings"
	"testing"
	"time"

	"google.golang.org/protobuf/encoding/protojson"
	"google.golang.org/protobuf/proto"
	"google.golang.org/protobuf/reflect/protoreflect"

	"github.com/osrg/gobgp/v4/api"
	"github.com/osrg/gobgp/v4/pkg/apiutil"
	"github.com/osrg/gobgp/v4/pkg/config/oc"
	"github.com/osrg/gobgp/v4/pkg/packet/bgp"
)

// ---------------------------------------------------------------------------------------------
// small helpers
// ---------------------------------------------------------------------------------------------

type vC18SSer interface {
	Serialize(options ...*bgp.MarshallingOption) ([]byte, error)
}

func vC18SHex(x vC18SSer) string {
	if x == nil {
		return "nil"
	}
	b, err := x.Serialize()
	if err != nil {
		return "err:" + err.Error()
	}
	return hex.EncodeToString(b)
}

func vC18SJSON(m proto.Message) string {
	if m == nil {
		return "null"
	}
	b, err := protojson.Marshal(m)
	if err != nil {
		return "err:" + err.Error()
	}
	// protojson inserts random whitespace on purpose; strip it so details are stable.
	return strings.ReplaceAll(strings.ReplaceAll(string(b), ": ", ":"), ", ", ",")
}

func vC18SAddr(s string) netip.Addr { return netip.MustParseAddr(s) }

var vC18SAsnBoundary = []uint32{0, 1, 65535, 65536, 23456, 4294967295, 65001, 64512}

func vC18SPickU32(r *vRand, xs []uint32) uint32 { return xs[r.intn(len(xs))] }

func vC18SRecover(f func()) (panicked string) {
	defer func() {
		if e := recover(); e != nil {
			panicked = fmt.Sprint(e)
		}
	}()
	f()
	return ""
}

// ---------------------------------------------------------------------------------------------
// Oracle 1: routes
// ---------------------------------------------------------------------------------------------

type vC18SRoute struct {
	fam      string
	family   bgp.Family
	nlri     bgp.NLRI
	attrs    []bgp.PathAttributeInterface
	nexthop  netip.Addr // the next hop carried by NEXT_HOP or MP_REACH (invalid for flowspec)
	llNh     netip.Addr // link-local next hop given in MP_REACH (invalid if none)
	remoteID uint32
	age      int64
	external bool
	noImpl   bool
	peerASN  uint32
	peerID   netip.Addr
	peerAddr netip.Addr
}

func (rt *vC18SRoute) detail() map[string]any {
	as := make([]string, 0, len(rt.attrs))
	for _, a := range rt.attrs {
		as = append(as, vC18SHex(a))
	}
	return map[string]any{"family": rt.fam, "nlri": rt.nlri.String(), "nlri_hex": vC18SHex(rt.nlri),
		"attrs_hex": as, "remote_id": rt.remoteID, "age": rt.age, "external": rt.external,
		"no_implicit_withdraw": rt.noImpl, "peer_asn": rt.peerASN}
}

func (rt *vC18SRoute) native() *apiutil.Path {
	return &apiutil.Path{Family: rt.family, Nlri: rt.nlri, Attrs: rt.attrs, Age: rt.age,
		RemoteID: rt.remoteID, IsFromExternal: rt.external, NoImplicitWithdraw: rt.noImpl,
		PeerASN: rt.peerASN, PeerID: rt.peerID, PeerAddress: rt.peerAddr}
}

var vC18SFamilies = []string{"ipv4", "ipv6", "ipv4-mpls", "vpnv4", "vpnv6", "evpn2", "evpn3", "evpn5", "fs4", "rtc", "opaque"}

func vC18SRD(r *vRand, n int) bgp.RouteDistinguisherInterface {
	switch r.intn(3) {
	case 0:
		return bgp.NewRouteDistinguisherTwoOctetAS(uint16(vC18SPickU32(r, []uint32{0, 1, 65535, 64512})), uint32(n))
	case 1:
		rd, _ := bgp.NewRouteDistinguisherIPAddressAS(vC18SAddr("192.0.2.1"), uint16(n))
		return rd
	}
	return bgp.NewRouteDistinguisherFourOctetAS(vC18SPickU32(r, []uint32{65536, 4294967295, 1}), uint16(n))
}

func vC18SLabels(r *vRand) bgp.MPLSLabelStack {
	ls := []uint32{uint32(16 + r.intn(1000))}
	if r.chance(25) {
		ls = append(ls, vC18SPickU32(r, []uint32{17, 1048575, 100000}))
	}
	return *bgp.NewMPLSLabelStack(ls...)
}

func vC18SV4Prefix(r *vRand, n int) netip.Prefix {
	bits := r.pick(24, 24, 25, 30, 32)
	return netip.PrefixFrom(netip.AddrFrom4([4]byte{10, byte(n >> 8), byte(n), 0}), bits)
}

func vC18SV6Prefix(r *vRand, n int) netip.Prefix {
	bits := r.pick(48, 56, 64, 128)
	a := [16]byte{0x20, 0x01, 0x0d, 0xb8, byte(n >> 8), byte(n)}
	return netip.PrefixFrom(netip.AddrFrom16(a), bits)
}

// vC18SGenNLRI builds the NLRI of case number n (distinct per n so that cases never interfere).
func vC18SGenNLRI(r *vRand, fam string, n int) (bgp.Family, bgp.NLRI) {
	esi := bgp.EthernetSegmentIdentifier{Type: bgp.ESI_ARBITRARY, Value: make([]byte, 9)}
	switch fam {
	case "ipv4":
		x, _ := bgp.NewIPAddrPrefix(vC18SV4Prefix(r, n))
		return bgp.RF_IPv4_UC, x
	case "ipv6":
		x, _ := bgp.NewIPAddrPrefix(vC18SV6Prefix(r, n))
		return bgp.RF_IPv6_UC, x
	case "ipv4-mpls":
		x, _ := bgp.NewLabeledIPAddrPrefix(vC18SV4Prefix(r, n), vC18SLabels(r))
		return bgp.RF_IPv4_MPLS, x
	case "vpnv4":
		x, _ := bgp.NewLabeledVPNIPAddrPrefix(vC18SV4Prefix(r, n), vC18SLabels(r), vC18SRD(r, n))
		return bgp.RF_IPv4_VPN, x
	case "vpnv6":
		x, _ := bgp.NewLabeledVPNIPAddrPrefix(vC18SV6Prefix(r, n), vC18SLabels(r), vC18SRD(r, n))
		return bgp.RF_IPv6_VPN, x
	case "evpn2":
		mac := fmt.Sprintf("02:00:%02x:%02x:%02x:01", byte(n>>16), byte(n>>8), byte(n))
		ip := netip.Addr{}
		switch r.intn(3) {
		case 1:
			ip = netip.AddrFrom4([4]byte{172, 16, byte(n >> 8), byte(n)})
		case 2:
			ip = vC18SV6Prefix(r, n).Addr()
		}
		labels := []uint32{uint32(100 + r.intn(100))}
		if r.chance(30) {
			labels = append(labels, 5000)
		}
		x, _ := bgp.NewEVPNMacIPAdvertisementRoute(vC18SRD(r, n), esi, vC18SPickU32(r, []uint32{0, 100, 4294967295}), mac, ip, labels)
		return bgp.RF_EVPN, x
	case "evpn3":
		x, _ := bgp.NewEVPNMulticastEthernetTagRoute(vC18SRD(r, n), uint32(n), netip.AddrFrom4([4]byte{172, 17, byte(n >> 8), byte(n)}))
		return bgp.RF_EVPN, x
	case "evpn5":
		if r.chance(50) {
			p := vC18SV4Prefix(r, n)
			x, _ := bgp.NewEVPNIPPrefixRoute(vC18SRD(r, n), esi, uint32(r.intn(3)), uint8(p.Bits()), p.Addr(), vC18SAddr("192.0.2.254"), uint32(r.intn(2)*7000))
			return bgp.RF_EVPN, x
		}
		p := vC18SV6Prefix(r, n)
		x, _ := bgp.NewEVPNIPPrefixRoute(vC18SRD(r, n), esi, uint32(r.intn(3)), uint8(p.Bits()), p.Addr(), vC18SAddr("2001:db8:ffff::1"), uint32(r.intn(2)*7000))
		return bgp.RF_EVPN, x
	case "fs4":
		dp, _ := bgp.NewIPAddrPrefix(vC18SV4Prefix(r, n))
		comps := []bgp.FlowSpecComponentInterface{bgp.NewFlowSpecDestinationPrefix(dp)}
		if r.chance(50) {
			sp, _ := bgp.NewIPAddrPrefix(netip.MustParsePrefix("198.51.100.0/24"))
			comps = append(comps, bgp.NewFlowSpecSourcePrefix(sp))
		}
		if r.chance(60) {
			comps = append(comps, bgp.NewFlowSpecComponent(bgp.FLOW_SPEC_TYPE_IP_PROTO, []*bgp.FlowSpecComponentItem{bgp.NewFlowSpecComponentItem(uint8(bgp.DEC_NUM_OP_EQ), uint64(r.pick(6, 17, 1)))}))
		}
		if r.chance(40) {
			comps = append(comps, bgp.NewFlowSpecComponent(bgp.FLOW_SPEC_TYPE_DST_PORT, []*bgp.FlowSpecComponentItem{
				bgp.NewFlowSpecComponentItem(uint8(bgp.DEC_NUM_OP_EQ), uint64(r.pick(80, 443, 65535))),
				bgp.NewFlowSpecComponentItem(uint8(bgp.DEC_NUM_OP_EQ), uint64(r.pick(8080, 300)))}))
		}
		x, _ := bgp.NewFlowSpecUnicast(bgp.RF_FS_IPv4_UC, comps)
		return bgp.RF_FS_IPv4_UC, x
	case "rtc":
		var rtv bgp.ExtendedCommunityInterface
		switch r.intn(3) {
		case 0:
			rtv = bgp.NewTwoOctetAsSpecificExtended(bgp.EC_SUBTYPE_ROUTE_TARGET, uint16(64512+n%1000), uint32(n), true)
		case 1:
			rtv = bgp.NewFourOctetAsSpecificExtended(bgp.EC_SUBTYPE_ROUTE_TARGET, 65536+uint32(n), uint16(n), true)
		default:
			rtv, _ = bgp.NewIPv4AddressSpecificExtended(bgp.EC_SUBTYPE_ROUTE_TARGET, netip.AddrFrom4([4]byte{192, 0, byte(n >> 8), byte(n)}), uint16(n), true)
		}
		return bgp.RF_RTC_UC, bgp.NewRouteTargetMembershipNLRI(vC18SPickU32(r, []uint32{65001, 65536, 4294967295, 1}), rtv)
	default: // opaque
		val := []byte(fmt.Sprintf("value-%d", n))
		if r.chance(20) {
			val = []byte{}
		}
		return bgp.RF_OPAQUE, bgp.NewOpaqueNLRI([]byte(fmt.Sprintf("key-%d", n)), val)
	}
}

func vC18SGenAsPath(r *vRand) *bgp.PathAttributeAsPath {
	nseg := r.pick(0, 1, 1, 2, 3)
	segs := make([]bgp.AsPathParamInterface, 0, nseg)
	for i := 0; i < nseg; i++ {
		typ := uint8(bgp.BGP_ASPATH_ATTR_TYPE_SEQ)
		if i > 0 && r.chance(40) {
			typ = uint8(r.pick(bgp.BGP_ASPATH_ATTR_TYPE_SET, bgp.BGP_ASPATH_ATTR_TYPE_CONFED_SEQ, bgp.BGP_ASPATH_ATTR_TYPE_SEQ))
		}
		n := r.pick(1, 1, 2, 5, 255) // never 0: a zero-length segment is malformed (RFC 7606), not a conversion case
		as := make([]uint32, n)
		for j := range as {
			as[j] = vC18SPickU32(r, vC18SAsnBoundary)
		}
		segs = append(segs, bgp.NewAs4PathParam(typ, as))
	}
	return bgp.NewPathAttributeAsPath(segs)
}

func vC18SGenExtComms(r *vRand) *bgp.PathAttributeExtendedCommunities {
	n := r.pick(1, 1, 2, 4, 8)
	l := make([]bgp.ExtendedCommunityInterface, 0, n)
	for i := 0; i < n; i++ {
		switch r.intn(9) {
		case 0:
			l = append(l, bgp.NewTwoOctetAsSpecificExtended(bgp.EC_SUBTYPE_ROUTE_TARGET, uint16(vC18SPickU32(r, []uint32{0, 65535, 64512})), vC18SPickU32(r, vC18SAsnBoundary), true))
		case 1:
			e, _ := bgp.NewIPv4AddressSpecificExtended(bgp.EC_SUBTYPE_ROUTE_ORIGIN, vC18SAddr("192.0.2.9"), uint16(r.intn(65536)), true)
			l = append(l, e)
		case 2:
			l = append(l, bgp.NewFourOctetAsSpecificExtended(bgp.EC_SUBTYPE_ROUTE_TARGET, vC18SPickU32(r, vC18SAsnBoundary), uint16(r.intn(65536)), true))
		case 3:
			l = append(l, bgp.NewColorExtended(vC18SPickU32(r, vC18SAsnBoundary)))
		case 4:
			l = append(l, bgp.NewEncapExtended(bgp.TUNNEL_TYPE_VXLAN))
		case 5:
			l = append(l, bgp.NewTwoOctetAsSpecificExtended(bgp.EC_SUBTYPE_ROUTE_TARGET, 65000, uint32(r.intn(100)), false)) // non-transitive
		case 6:
			l = append(l, bgp.NewOpaqueExtended(true, []byte{0x55, 1, 2, 3, 4, 5, byte(r.intn(256))}))
		case 7:
			l = append(l, bgp.NewUnknownExtended(bgp.ExtendedCommunityAttrType(0x88), []byte{9, 1, 2, 3, 4, 5, byte(r.intn(256))}))
		default:
			l = append(l, bgp.NewLinkBandwidthExtended(uint16(65000), float32(r.pick(0, 125000, 1000000))))
		}
	}
	return bgp.NewPathAttributeExtendedCommunities(l)
}

// vC18SGenRoute: family nlri + an attribute set in ascending type order (as a BGP speaker sends it).
func vC18SGenRoute(r *vRand, fam string, n int) *vC18SRoute {
	rt := &vC18SRoute{fam: fam}
	rt.family, rt.nlri = vC18SGenNLRI(r, fam, n)
	rt.age = int64(r.pick(0, 1, 1700000000, 2000000000))
	if r.chance(40) {
		rt.remoteID = vC18SPickU32(r, []uint32{1, 2, 7, 65536, 4294967295})
	}
	rt.external = r.chance(15)
	rt.noImpl = r.chance(10)
	if r.chance(15) {
		rt.peerASN = vC18SPickU32(r, []uint32{1, 65002, 65536, 4294967295})
		rt.peerID = vC18SAddr("198.51.100.7")
		if r.chance(70) {
			rt.peerAddr = vC18SAddr(fmt.Sprintf("198.51.100.%d", 1+r.intn(200)))
		}
	}

	// next hop: how it is given
	v4nh := netip.AddrFrom4([4]byte{192, 0, 2, byte(1 + r.intn(250))})
	v6nh := vC18SAddr(fmt.Sprintf("2001:db8:aaaa::%x", 1+r.intn(60000)))
	useV6 := fam == "ipv6" || fam == "vpnv6"
	if !useV6 && fam != "fs4" && r.chance(15) {
		useV6 = true // RFC 8950 style v6 next hop for a v4 family
	}
	nhAsAttr3 := r.chance(50) // NEXT_HOP (type 3) vs MP_REACH (type 14)
	if fam == "ipv4" && !useV6 {
		nhAsAttr3 = r.chance(85)
	}
	if fam == "fs4" {
		nhAsAttr3 = false
	}
	if fam != "fs4" {
		rt.nexthop = v4nh
		if useV6 {
			rt.nexthop = v6nh
			if !nhAsAttr3 && r.chance(30) {
				rt.llNh = vC18SAddr(fmt.Sprintf("fe80::%x", 1+r.intn(60000)))
			}
		}
	}

	var a []bgp.PathAttributeInterface
	a = append(a, bgp.NewPathAttributeOrigin(uint8(r.intn(3))))
	if r.chance(85) {
		a = append(a, vC18SGenAsPath(r))
	}
	if nhAsAttr3 {
		x, _ := bgp.NewPathAttributeNextHop(rt.nexthop)
		a = append(a, x)
	}
	if r.chance(50) {
		a = append(a, bgp.NewPathAttributeMultiExitDisc(vC18SPickU32(r, vC18SAsnBoundary)))
	}
	if r.chance(50) {
		a = append(a, bgp.NewPathAttributeLocalPref(vC18SPickU32(r, []uint32{0, 100, 4294967295})))
	}
	if r.chance(20) {
		a = append(a, bgp.NewPathAttributeAtomicAggregate())
	}
	if r.chance(25) {
		x, _ := bgp.NewPathAttributeAggregator(vC18SPickU32(r, vC18SAsnBoundary), vC18SAddr("203.0.113.5"))
		a = append(a, x)
	}
	if r.chance(50) {
		n := r.pick(0, 1, 3, 3, 60)
		cs := make([]uint32, n)
		for i := range cs {
			cs[i] = vC18SPickU32(r, []uint32{0xFFFFFF01, 0xFFFFFF02, 65000<<16 | 100, 0, 0xFFFFFFFF, uint32(i)})
		}
		a = append(a, bgp.NewPathAttributeCommunities(cs))
	}
	if r.chance(20) {
		x, _ := bgp.NewPathAttributeOriginatorId(vC18SAddr("10.255.0.1"))
		a = append(a, x)
	}
	if r.chance(20) {
		n := r.pick(1, 2, 5)
		cl := make([]netip.Addr, n)
		for i := range cl {
			cl[i] = netip.AddrFrom4([4]byte{10, 254, 0, byte(i + 1)})
		}
		x, _ := bgp.NewPathAttributeClusterList(cl)
		a = append(a, x)
	}
	if !nhAsAttr3 {
		var x *bgp.PathAttributeMpReachNLRI
		switch {
		case fam == "fs4":
			x, _ = bgp.NewPathAttributeMpReachNLRI(rt.family, []bgp.PathNLRI{{NLRI: rt.nlri}})
		case rt.llNh.IsValid():
			x, _ = bgp.NewPathAttributeMpReachNLRI(rt.family, []bgp.PathNLRI{{NLRI: rt.nlri}}, rt.nexthop, rt.llNh)
		default:
			x, _ = bgp.NewPathAttributeMpReachNLRI(rt.family, []bgp.PathNLRI{{NLRI: rt.nlri}}, rt.nexthop)
		}
		a = append(a, x)
	}
	if r.chance(50) {
		a = append(a, vC18SGenExtComms(r))
	}
	if r.chance(20) {
		a = append(a, bgp.NewPathAttributeAigp([]bgp.AigpTLVInterface{bgp.NewAigpTLVIgpMetric(uint64(r.next() >> uint(r.pick(0, 32, 60))))}))
	}
	if r.chance(35) {
		n := r.pick(1, 2, 10)
		ls := make([]*bgp.LargeCommunity, n)
		for i := range ls {
			ls[i] = bgp.NewLargeCommunity(vC18SPickU32(r, vC18SAsnBoundary), vC18SPickU32(r, vC18SAsnBoundary), uint32(i))
		}
		a = append(a, bgp.NewPathAttributeLargeCommunities(ls))
	}
	if r.chance(20) {
		val := make([]byte, r.pick(0, 1, 4, 300))
		for i := range val {
			val[i] = byte(r.next())
		}
		a = append(a, bgp.NewPathAttributeUnknown(bgp.BGP_ATTR_FLAG_OPTIONAL|bgp.BGP_ATTR_FLAG_TRANSITIVE, bgp.BGPAttrType(250), val))
	}
	rt.attrs = a
	return rt
}

// vC18SCheckAttrs compares the attribute set that came back with the one given.
//
// The ONLY normalisations allowed (server.go apiutil2Path, l.2494-2550):
//
//	N1 "nexthop-carrier": NEXT_HOP (type 3) and MP_REACH_NLRI (type 14) are both consumed and ONE of
//	   them is re-created: NEXT_HOP iff the family is IPv4 unicast and the next hop is IPv4
//	   (server.go:2536), MP_REACH_NLRI{family, [nlri], nexthop} otherwise.  So the carrier type may
//	   change and MP_REACH is rebuilt; what must survive is the next hop address(es).
//	N2 "attr-order": the rebuilt carrier is appended last, so order is not compared (by type only).
//
// Everything else must come back with byte-identical Serialize().
func vC18SCheckAttrs(o *vOut, cls string, rt *vC18SRoute, got []bgp.PathAttributeInterface, d map[string]any) {
	gotBy := map[bgp.BGPAttrType]bgp.PathAttributeInterface{}
	for _, g := range got {
		if _, dup := gotBy[g.GetType()]; dup {
			o.fail(cls+":duplicate-attr", d)
		}
		gotBy[g.GetType()] = g
	}
	sentTypes := map[bgp.BGPAttrType]bool{}
	for _, a := range rt.attrs {
		t := a.GetType()
		sentTypes[t] = true
		if t == bgp.BGP_ATTR_TYPE_NEXT_HOP || t == bgp.BGP_ATTR_TYPE_MP_REACH_NLRI {
			continue // N1, checked below
		}
		g, ok := gotBy[t]
		if !ok {
			dd := vC18SWith(d, "attr_type", int(t))
			o.fail(fmt.Sprintf("%s:attr-lost:%d", cls, t), dd)
			continue
		}
		if vC18SHex(a) != vC18SHex(g) {
			dd := vC18SWith(d, "attr_type", int(t))
			dd["sent_attr"], dd["got_attr"] = vC18SHex(a), vC18SHex(g)
			o.fail(fmt.Sprintf("%s:attr-changed:%d", cls, t), dd)
		}
	}
	for t, g := range gotBy {
		if t == bgp.BGP_ATTR_TYPE_NEXT_HOP || t == bgp.BGP_ATTR_TYPE_MP_REACH_NLRI {
			continue
		}
		if !sentTypes[t] {
			dd := vC18SWith(d, "attr_type", int(t))
			dd["got_attr"] = vC18SHex(g)
			o.fail(fmt.Sprintf("%s:attr-added:%d", cls, t), dd)
		}
	}
	// N1: exactly one carrier, of the documented type, holding the same next hop(s) and the NLRI.
	nh3, has3 := gotBy[bgp.BGP_ATTR_TYPE_NEXT_HOP]
	mp14, has14 := gotBy[bgp.BGP_ATTR_TYPE_MP_REACH_NLRI]
	want3 := rt.family == bgp.RF_IPv4_UC && rt.nexthop.Is4()
	switch {
	case has3 && has14:
		o.fail(cls+":nexthop-both-carriers", d)
	case want3 && !has3, !want3 && !has14:
		o.fail(cls+":nexthop-carrier", d)
	case want3:
		if nh3.(*bgp.PathAttributeNextHop).Value != rt.nexthop {
			o.fail(cls+":nexthop-value", vC18SWith(d, "got_nexthop", nh3.(*bgp.PathAttributeNextHop).Value.String()))
		}
	default:
		mp := mp14.(*bgp.PathAttributeMpReachNLRI)
		if bgp.NewFamily(mp.AFI, mp.SAFI) != rt.family {
			o.fail(cls+":mpreach-family", d)
		}
		if mp.Nexthop != rt.nexthop && (mp.Nexthop.IsValid() || rt.nexthop.IsValid()) {
			o.fail(cls+":nexthop-value", vC18SWith(d, "got_nexthop", mp.Nexthop.String()))
		}
		if mp.LinkLocalNexthop != rt.llNh && (mp.LinkLocalNexthop.IsValid() || rt.llNh.IsValid()) {
			dd := vC18SWith(d, "sent_linklocal", rt.llNh.String())
			dd["got_linklocal"] = mp.LinkLocalNexthop.String()
			o.fail(cls+":mpreach-linklocal-nexthop", dd)
		}
		if len(mp.Value) != 1 || vC18SHex(mp.Value[0].NLRI) != vC18SHex(rt.nlri) {
			o.fail(cls+":mpreach-nlri", d)
		}
	}
}

func vC18SWith(d map[string]any, k string, v any) map[string]any {
	n := make(map[string]any, len(d)+2)
	for kk, vv := range d {
		n[kk] = vv
	}
	n[k] = v
	return n
}

// vC18SCheckPathFields: everything of an apiutil.Path except the attributes.
func vC18SCheckPathFields(o *vOut, cls string, rt *vC18SRoute, p *apiutil.Path, d map[string]any) {
	chk := func(field string, sent, got any) {
		if fmt.Sprint(sent) != fmt.Sprint(got) {
			dd := vC18SWith(d, "sent", fmt.Sprint(sent))
			dd["got"] = fmt.Sprint(got)
			o.fail(cls+":"+field, dd)
		}
	}
	chk("family", rt.family, p.Family)
	if p.Nlri == nil {
		o.fail(cls+":nlri-nil", d)
	} else {
		chk("nlri-bytes", vC18SHex(rt.nlri), vC18SHex(p.Nlri))
		chk("nlri-string", rt.nlri.String(), p.Nlri.String())
	}
	// the identifier a client gives for a locally originated route is the ADD-PATH "remote" id
	// (apiutil2Path: PathNLRI{ID: path.RemoteID}); the local id is assigned by the destination.
	chk("remote-id", rt.remoteID, p.RemoteID)
	chk("age", rt.age, p.Age)
	chk("withdrawal", false, p.Withdrawal)
	chk("is-from-external", rt.external, p.IsFromExternal)
	chk("no-implicit-withdraw", rt.noImpl, p.NoImplicitWithdraw)
	chk("peer-asn", rt.peerASN, p.PeerASN)
	if rt.peerASN != 0 { // apiutil2Path only builds a source when PeerASN != 0 (documented: "source is optional")
		chk("peer-id", rt.peerID, p.PeerID)
		chk("peer-address", rt.peerAddr, p.PeerAddress)
	}
}

func vC18SFind(s *BgpServer, rt *vC18SRoute) (found []*apiutil.Path, err error) {
	want, wantS := vC18SHex(rt.nlri), rt.nlri.String()
	err = s.ListPath(apiutil.ListPathRequest{TableType: api.TableType_TABLE_TYPE_GLOBAL, Family: rt.family},
		func(prefix bgp.NLRI, paths []*apiutil.Path) {
			if prefix.String() != wantS && vC18SHex(prefix) != want {
				return
			}
			for _, p := range paths {
				if p.RemoteID == rt.remoteID {
					found = append(found, p)
				}
			}
		})
	return found, err
}

// vC18SGrpcRoundTrip: api.Path -> apiutil.Path (api2apiutilPath) and apiutil.Path -> api.Path
// (toPathApi, the three encodings ListPath offers) -> native again.
func vC18SGrpcIn(o *vOut, rt *vC18SRoute) *apiutil.Path {
	d := rt.detail()
	ap, err := apiutil.NewPath(rt.family, rt.nlri, false, rt.attrs, time.Unix(rt.age, 0))
	if err != nil {
		o.fail("grpc-path-in:newpath-error", vC18SWith(d, "err", err.Error()))
		return nil
	}
	ap.Identifier = rt.remoteID
	ap.IsFromExternal = rt.external
	ap.NoImplicitWithdraw = rt.noImpl
	ap.SourceAsn = rt.peerASN
	if rt.peerID.IsValid() {
		ap.SourceId = rt.peerID.String()
	}
	if rt.peerAddr.IsValid() {
		ap.NeighborIp = rt.peerAddr.String()
	}
	var np *apiutil.Path
	if pn := vC18SRecover(func() { np, err = api2apiutilPath(ap) }); pn != "" {
		o.fail("grpc-path-in:panic", vC18SWith(d, "panic", pn))
		return nil
	}
	if err != nil {
		o.fail("grpc-path-in:error", vC18SWith(d, "err", err.Error()))
		return nil
	}
	vC18SCheckPathFields(o, "grpc-path-in", rt, np, d)
	// the api -> native direction must keep every attribute byte-identical, carriers included
	if len(np.Attrs) != len(rt.attrs) {
		o.fail("grpc-path-in:attr-count", d)
	} else {
		for i, a := range rt.attrs {
			if vC18SHex(a) != vC18SHex(np.Attrs[i]) {
				dd := vC18SWith(d, "attr_type", int(a.GetType()))
				dd["sent_attr"], dd["got_attr"] = vC18SHex(a), vC18SHex(np.Attrs[i])
				o.fail(fmt.Sprintf("grpc-path-in:attr-changed:%d", a.GetType()), dd)
			}
		}
	}
	return np
}

func vC18SGrpcOut(o *vOut, r *vRand, rt *vC18SRoute, listed *apiutil.Path) {
	d := rt.detail()
	mode := r.intn(3)
	d["out_mode"] = mode
	var ap *api.Path
	if pn := vC18SRecover(func() {
		switch mode {
		case 0:
			ap = toPathApi(listed, false, false, false)
		case 1:
			ap = toPathApi(listed, true, false, false)
		default:
			ap = toPathApi(listed, false, true, true)
		}
	}); pn != "" {
		o.fail("grpc-path-out:panic", vC18SWith(d, "panic", pn))
		return
	}
	chk := func(field string, sent, got any) {
		if fmt.Sprint(sent) != fmt.Sprint(got) {
			dd := vC18SWith(d, "sent", fmt.Sprint(sent))
			dd["got"] = fmt.Sprint(got)
			o.fail("grpc-path-out:"+field, dd)
		}
	}
	chk("family", listed.Family, apiutil.ToFamily(ap.Family))
	chk("age", listed.Age, ap.Age.GetSeconds())
	chk("best", listed.Best, ap.Best)
	chk("stale", listed.Stale, ap.Stale)
	chk("is-withdraw", listed.Withdrawal, ap.IsWithdraw)
	chk("identifier", listed.RemoteID, ap.Identifier)
	chk("local-identifier", listed.LocalID, ap.LocalIdentifier)
	chk("is-from-external", listed.IsFromExternal, ap.IsFromExternal)
	chk("no-implicit-withdraw", listed.NoImplicitWithdraw, ap.NoImplicitWithdraw)
	chk("is-nexthop-invalid", listed.IsNexthopInvalid, ap.IsNexthopInvalid)
	chk("source-asn", listed.PeerASN, ap.SourceAsn)
	if listed.PeerID.IsValid() {
		chk("source-id", listed.PeerID.String(), ap.SourceId)
	}
	if listed.PeerAddress.IsValid() {
		chk("neighbor-ip", listed.PeerAddress.String(), ap.NeighborIp)
	}
	n, err := apiutil.GetNativeNlri(ap)
	if err != nil {
		o.fail("grpc-path-out:nlri-error", vC18SWith(d, "err", err.Error()))
	} else {
		chk("nlri-bytes", vC18SHex(listed.Nlri), vC18SHex(n))
		chk("nlri-string", listed.Nlri.String(), n.String())
	}
	as, err := apiutil.GetNativePathAttributes(ap)
	if err != nil {
		o.fail("grpc-path-out:attrs-error", vC18SWith(d, "err", err.Error()))
		return
	}
	if len(as) != len(listed.Attrs) {
		dd := vC18SWith(d, "sent", len(listed.Attrs))
		dd["got"] = len(as)
		o.fail("grpc-path-out:attr-count", dd)
		return
	}
	for i, a := range listed.Attrs {
		if vC18SHex(a) != vC18SHex(as[i]) {
			dd := vC18SWith(d, "attr_type", int(a.GetType()))
			dd["sent_attr"], dd["got_attr"] = vC18SHex(a), vC18SHex(as[i])
			o.fail(fmt.Sprintf("grpc-path-out:attr-changed:%d", a.GetType()), dd)
		}
	}
}

// vC18SRouteCase: one full add / list / convert / delete cycle.
func vC18SRouteCase(o *vOut, r *vRand, s *BgpServer, rt *vC18SRoute, viaGrpc bool) {
	d := rt.detail()
	d["via_grpc"] = viaGrpc
	o.stat("route_cases", 1)
	o.stat("route_family_"+rt.fam, 1)
	if rt.remoteID != 0 {
		o.stat("route_with_path_id", 1)
	}
	in := rt.native()
	if viaGrpc {
		o.stat("route_via_grpc_converter", 1)
		if in = vC18SGrpcIn(o, rt); in == nil {
			return
		}
	}
	var resp []apiutil.AddPathResponse
	var err error
	if pn := vC18SRecover(func() { resp, err = s.AddPath(apiutil.AddPathRequest{Paths: []*apiutil.Path{in}}) }); pn != "" {
		o.fail("path-readback:add-panic", vC18SWith(d, "panic", pn))
		return
	}
	if err != nil || len(resp) != 1 || resp[0].Error != nil {
		o.fail("path-readback:add-rejected", vC18SWith(d, "err", fmt.Sprint(err)))
		return
	}
	found, err := vC18SFind(s, rt)
	if err != nil {
		o.fail("path-readback:list-error", vC18SWith(d, "err", err.Error()))
	}
	switch len(found) {
	case 0:
		o.fail("path-readback:not-listed", d)
	case 1:
		p := found[0]
		vC18SCheckPathFields(o, "path-readback", rt, p, d)
		vC18SCheckAttrs(o, "path-readback", rt, p.Attrs, d)
		if p.LocalID == 0 {
			o.fail("path-readback:local-id-unassigned", d)
		}
		if !p.Best {
			o.fail("path-readback:sole-path-not-best", d)
		}
		vC18SGrpcOut(o, r, rt, p)
	default:
		o.fail("path-readback:listed-twice", vC18SWith(d, "n", len(found)))
	}

	// a second path to the same NLRI with another identifier must coexist and be deletable alone
	var rt2 *vC18SRoute
	if r.chance(15) && !rt.noImpl {
		o.stat("route_second_path_id", 1)
		c := *rt
		rt2 = &c
		rt2.remoteID = rt.remoteID + 1000
		if _, err := s.AddPath(apiutil.AddPathRequest{Paths: []*apiutil.Path{rt2.native()}}); err != nil {
			o.fail("path-readback:add-rejected", vC18SWith(rt2.detail(), "err", err.Error()))
			rt2 = nil
		} else {
			f1, _ := vC18SFind(s, rt)
			f2, _ := vC18SFind(s, rt2)
			if len(f1) != 1 || len(f2) != 1 {
				dd := vC18SWith(d, "n_first", len(f1))
				dd["n_second"] = len(f2)
				o.fail("path-readback:path-id-not-distinguished", dd)
			}
		}
	}

	// withdraw direction
	del := rt.native()
	if r.chance(50) { // withdraw by the same NLRI + identifier with only ORIGIN and the next-hop carrier
		o.stat("route_delete_minimal_attrs", 1)
		var min []bgp.PathAttributeInterface
		for _, a := range rt.attrs {
			switch a.GetType() {
			case bgp.BGP_ATTR_TYPE_ORIGIN, bgp.BGP_ATTR_TYPE_NEXT_HOP, bgp.BGP_ATTR_TYPE_MP_REACH_NLRI:
				min = append(min, a)
			}
		}
		del.Attrs = min
		del.Withdrawal = r.chance(50)
	}
	if err := s.DeletePath(apiutil.DeletePathRequest{Paths: []*apiutil.Path{del}}); err != nil {
		o.fail("path-readback:delete-error", vC18SWith(d, "err", err.Error()))
	}
	if f, _ := vC18SFind(s, rt); len(f) != 0 {
		o.fail("path-readback:delete-left-route", d)
	}
	if rt2 != nil {
		if f, _ := vC18SFind(s, rt2); len(f) != 1 {
			o.fail("path-readback:delete-removed-other-path-id", d)
		}
		if err := s.DeletePath(apiutil.DeletePathRequest{Paths: []*apiutil.Path{rt2.native()}}); err != nil {
			o.fail("path-readback:delete-error", vC18SWith(d, "err", err.Error()))
		}
		if f, _ := vC18SFind(s, rt2); len(f) != 0 {
			o.fail("path-readback:delete-left-route", rt2.detail())
		}
	}
}

// ---------------------------------------------------------------------------------------------
// main
// ---------------------------------------------------------------------------------------------

func vC18SGlobal() *api.Global {
	return &api.Global{Asn: 65001, RouterId: "10.0.0.1", ListenPort: -1,
		RouteSelectionOptions: &api.RouteSelectionOptionsConfig{ExternalCompareRouterId: true},
		DefaultRouteDistance:  &api.DefaultRouteDistance{ExternalRouteDistance: 20, InternalRouteDistance: 200},
		GracefulRestart:       &api.GracefulRestart{Enabled: true, RestartTime: 120, StaleRoutesTime: 300, LonglivedEnabled: true},
	}
}

func TestVerifC18Server(t *testing.T) {
	o := vOpen(t)
	defer o.close()
	r := &vRand{s: o.seed*7919 + 11}

	s := NewBgpServer(LoggerOption(slog.New(slog.NewTextHandler(io.Discard, nil)), &slog.LevelVar{}))
	go s.Serve()
	if err := s.StartBgp(context.Background(), &api.StartBgpRequest{Global: vC18SGlobal()}); err != nil {
		t.Fatal(err)
	}
	defer s.Stop()
	defer s.StopBgp(context.Background(), &api.StopBgpRequest{})

	vC18SPolicySetup(t, s)
	vC18SCorpus(o, s)

	nRoutes := 1500
	if o.thorough {
		nRoutes = 8000
	}
	for i := 0; i < nRoutes; i++ {
		fam := vC18SFamilies[i%len(vC18SFamilies)]
		rt := vC18SGenRoute(r, fam, 1000+i)
		vC18SRouteCase(o, r, s, rt, r.chance(50))
	}

	// policies the generated neighbours refer to
	for _, name := range []string{"vc18-pol-a", "vc18-pol-b"} {
		if err := s.AddPolicy(context.Background(), &api.AddPolicyRequest{Policy: &api.Policy{Name: name}}); err != nil {
			t.Fatal(err)
		}
	}
	nPeerSrv, nPeerPure, nPG, nGlobal := 300, 3000, 400, 300
	if o.thorough {
		nPeerSrv, nPeerPure, nPG, nGlobal = 1500, 20000, 3000, 2000
	}
	for i := 0; i < nPeerSrv; i++ {
		vC18SPeerServer(o, r, s, i)
	}
	for i := 0; i < nPeerPure; i++ {
		vC18SPeerPure(o, r, i)
	}
	for i := 0; i < nPG; i++ {
		vC18SPeerGroupCase(o, r, s, i)
	}
	for i := 0; i < nGlobal; i++ {
		vC18SGlobalPure(o, r)
	}

	nDS, nSt, nPol := 800, 1500, 600
	if o.thorough {
		nDS, nSt, nPol = 6000, 12000, 5000
	}
	for i := 0; i < nDS; i++ {
		vC18SDefinedSetCase(o, s, vC18SGenDefinedSet(r, i))
	}
	for i := 0; i < nSt; i++ {
		vC18SStatementCase(o, s, vC18SGenStatement(r, fmt.Sprintf("vc18-st-%d", i)))
	}
	for i := 0; i < nPol; i++ {
		p := &api.Policy{Name: fmt.Sprintf("vc18-p-%d", i)}
		for j, k := 0, r.pick(0, 1, 2, 3); j < k; j++ {
			p.Statements = append(p.Statements, vC18SGenStatement(r, fmt.Sprintf("vc18-p-%d-s%d", i, j)))
		}
		vC18SPolicyCase(o, s, p)
	}
}

// vC18SCorpus: minimised deterministic reproductions of the genuine losses found (run on every seed).
func vC18SCorpus(o *vOut, s *BgpServer) {
	r := &vRand{s: 18} // fixed: the corpus does not depend on VERIF_SEED
	ctx := context.Background()
	v4uc := &api.Family{Afi: api.Family_AFI_IP, Safi: api.Family_SAFI_UNICAST}

	// (a) link-local next hop of MP_REACH_NLRI dropped by apiutil2Path (server.go:2540 passes only `nexthop`)
	{
		n, _ := bgp.NewIPAddrPrefix(netip.MustParsePrefix("2001:db8:c18::/48"))
		rt := &vC18SRoute{fam: "ipv6", family: bgp.RF_IPv6_UC, nlri: n, nexthop: vC18SAddr("2001:db8::1"), llNh: vC18SAddr("fe80::1")}
		mp, _ := bgp.NewPathAttributeMpReachNLRI(rt.family, []bgp.PathNLRI{{NLRI: n}}, rt.nexthop, rt.llNh)
		rt.attrs = []bgp.PathAttributeInterface{bgp.NewPathAttributeOrigin(0), mp}
		vC18SRouteCase(o, r, s, rt, false)
	}

	// (b) GetBgp returns a hand-built partial Global
	vC18SGlobalServer(o, s)

	// (c) neighbour fields never carried / not read back, through the server
	{
		p := &api.Peer{
			Conf:           &api.PeerConf{NeighborAddress: "10.8.0.1", PeerAsn: 65002, SendCommunity: 3},
			Timers:         &api.Timers{Config: &api.TimersConfig{MinimumAdvertisementInterval: 30}},
			RouteReflector: &api.RouteReflector{RouteReflectorClient: false, RouteReflectorClusterId: "192.0.2.77"},
			Transport:      &api.Transport{PassiveMode: true},
		}
		sent := proto.Clone(p).(*api.Peer)
		if err := s.AddPeer(ctx, &api.AddPeerRequest{Peer: p}); err == nil {
			_ = s.ListPeer(ctx, &api.ListPeerRequest{Address: "10.8.0.1"}, func(x *api.Peer) {
				vC18SComparePeer(o, "peer-readback", sent, x, "", "AddPeer/ListPeer", vC18SPeerSkip)
			})
			_ = s.DeletePeer(ctx, &api.DeletePeerRequest{Address: "10.8.0.1"})
		} else {
			o.fail("peer-readback:add-rejected", map[string]any{"err": err.Error(), "peer": vC18SJSON(sent)})
		}
		// out-of-range values silently truncated by uintN() casts (converter level)
		for _, q := range []struct {
			field string
			peer  *api.Peer
		}{
			{"PeerConf.allow_own_asn", &api.Peer{Conf: &api.PeerConf{NeighborAddress: "10.8.0.2", PeerAsn: 65002, AllowOwnAsn: 256}}},
			{"Transport.remote_port", &api.Peer{Conf: &api.PeerConf{NeighborAddress: "10.8.0.2", PeerAsn: 65002}, Transport: &api.Transport{RemotePort: 65536 + 179}}},
			{"GracefulRestart.restart_time", &api.Peer{Conf: &api.PeerConf{NeighborAddress: "10.8.0.2", PeerAsn: 65002}, GracefulRestart: &api.GracefulRestart{Enabled: true, RestartTime: 65536 + 120}}},
		} {
			if nb, err := newNeighborFromAPIStruct(q.peer); err == nil {
				vC18SComparePeer(o, "peer-readback", q.peer, oc.NewPeerFromConfigStruct(nb), q.field, "newNeighborFromAPIStruct/NewPeerFromConfigStruct", vC18SPeerSkipRaw)
			}
		}
	}

	// (d) peer group: per-family add-paths overwritten, remove-private / local-port / send-community /
	//     min-advertisement-interval not carried
	{
		g := &api.PeerGroup{
			Conf:      &api.PeerGroupConf{PeerGroupName: "vc18-corpus-pg", PeerAsn: 65002, RemovePrivate: api.RemovePrivate_REMOVE_PRIVATE_ALL, SendCommunity: 3},
			Timers:    &api.Timers{Config: &api.TimersConfig{MinimumAdvertisementInterval: 30}},
			Transport: &api.Transport{LocalPort: 1790},
			AfiSafis: []*api.AfiSafi{{Config: &api.AfiSafiConfig{Family: v4uc, Enabled: true},
				AddPaths: &api.AddPaths{Config: &api.AddPathsConfig{Receive: true, SendMax: 8}}}},
		}
		sent := proto.Clone(g).(*api.PeerGroup)
		if err := s.AddPeerGroup(ctx, &api.AddPeerGroupRequest{PeerGroup: g}); err == nil {
			_ = s.ListPeerGroup(ctx, &api.ListPeerGroupRequest{PeerGroupName: "vc18-corpus-pg"}, func(x *api.PeerGroup) {
				var diffs []vC18SDiffEntry
				vC18SDiff(sent.ProtoReflect(), x.ProtoReflect(), false, vC18SPeerSkip, &diffs)
				vC18SReport(o, "peergroup-readback", diffs, "peer_group", sent, map[string]any{"via": "AddPeerGroup/ListPeerGroup"})
			})
			_ = s.DeletePeerGroup(ctx, &api.DeletePeerGroupRequest{Name: "vc18-corpus-pg"})
		}
	}

	// (e) policy statements
	//  - ext/large community action type shifted by one in ListStatement (grpc_server.go:1720,1729)
	vC18SStatementCase(o, s, &api.Statement{Name: "vc18-corpus-ext", Actions: &api.Actions{ExtCommunity: &api.CommunityAction{Type: api.CommunityAction_TYPE_ADD, Communities: []string{"rt:65000:100"}}}})
	vC18SStatementCase(o, s, &api.Statement{Name: "vc18-corpus-large", Actions: &api.Actions{LargeCommunity: &api.CommunityAction{Type: api.CommunityAction_TYPE_REPLACE, Communities: []string{"65000:1:2"}}}})
	//  - origin condition: not written by ListStatement; ListPolicy reads the origin ACTION instead (policy.go:4864)
	org := &api.Statement{Name: "vc18-corpus-origin", Conditions: &api.Conditions{Origin: api.OriginType_ORIGIN_TYPE_EGP}, Actions: &api.Actions{OriginAction: &api.OriginAction{Origin: api.OriginType_ORIGIN_TYPE_IGP}}}
	vC18SStatementCase(o, s, proto.Clone(org).(*api.Statement))
	vC18SPolicyCase(o, s, &api.Policy{Name: "vc18-corpus-origin-pol", Statements: []*api.Statement{org}})
	//  - next-hop-in-list prefix loses its mask length in Statement.ToConfig (policy.go:3566)
	vC18SStatementCase(o, s, &api.Statement{Name: "vc18-corpus-nh", Conditions: &api.Conditions{NextHopInList: []string{"192.0.2.0/24"}}})
	//  - probes of values the API accepts but cannot represent / silently drops
	{
		// an unparsable next-hop list is swallowed: NewNextHopCondition returns (nil, nil) on the parse
		// error (policy.go:2005-2008), so the statement is accepted WITHOUT the condition (matches all)
		bad := &api.Statement{Name: "vc18-corpus-nh-bad", Conditions: &api.Conditions{NextHopInList: []string{"not-an-address"}}, Actions: &api.Actions{RouteAction: api.RouteAction_ROUTE_ACTION_REJECT}}
		if err := s.AddStatement(ctx, &api.AddStatementRequest{Statement: bad}); err == nil {
			_ = s.ListStatement(ctx, &api.ListStatementRequest{Name: bad.Name}, func(x *api.Statement) {
				if len(x.Conditions.GetNextHopInList()) == 0 {
					o.fail("policy-readback:invalid-next-hop-list-accepted-and-dropped", map[string]any{"statement": vC18SJSON(bad), "got": vC18SJSON(x)})
				}
			})
			_ = s.DeleteStatement(ctx, &api.DeleteStatementRequest{Statement: bad, All: true})
		}
	}
	vC18SStatementCase(o, s, &api.Statement{Name: "vc18-corpus-zero", Conditions: &api.Conditions{LocalPrefEq: &api.LocalPrefEq{Value: 0}, MedEq: &api.MedEq{Value: 0}}, Actions: &api.Actions{LocalPref: &api.LocalPrefAction{Value: 0}}})
	vC18SStatementCase(o, s, &api.Statement{Name: "vc18-corpus-empty-replace", Actions: &api.Actions{Community: &api.CommunityAction{Type: api.CommunityAction_TYPE_REPLACE}}})
	vC18SStatementCase(o, s, &api.Statement{Name: "vc18-corpus-repeat", Actions: &api.Actions{AsPrepend: &api.AsPrependAction{Asn: 65001, Repeat: 256 + 3}}})
	vC18SStatementCase(o, s, &api.Statement{Name: "vc18-corpus-med0", Actions: &api.Actions{Med: &api.MedAction{Type: api.MedAction_TYPE_MOD, Value: 0}}})
	vC18SDefinedSetCase(o, s, &api.DefinedSet{DefinedType: api.DefinedType_DEFINED_TYPE_PREFIX, Name: "vc18-corpus-mask", Prefixes: []*api.Prefix{{IpPrefix: "10.0.0.0/8", MaskLengthMin: 256 + 8, MaskLengthMax: 256 + 24}}})
	vC18SPolicyCase(o, s, &api.Policy{Name: "vc18-corpus-empty-replace-pol", Statements: []*api.Statement{{Name: "vc18-corpus-empty-replace2", Actions: &api.Actions{Community: &api.CommunityAction{Type: api.CommunityAction_TYPE_REPLACE}}}}})
}

// ---------------------------------------------------------------------------------------------
// generic protobuf read-back comparison
// ---------------------------------------------------------------------------------------------

type vC18SDiffEntry struct {
	path string // "<Message>.<field>"
	sent string
	got  string
}

func vC18SValStr(fd protoreflect.FieldDescriptor, v protoreflect.Value) string {
	switch {
	case fd.IsList():
		l := v.List()
		parts := make([]string, l.Len())
		for i := 0; i < l.Len(); i++ {
			if fd.Kind() == protoreflect.MessageKind {
				parts[i] = vC18SJSON(l.Get(i).Message().Interface())
			} else {
				parts[i] = fmt.Sprint(l.Get(i).Interface())
			}
		}
		return "[" + strings.Join(parts, " ") + "]"
	case fd.Kind() == protoreflect.MessageKind:
		if !v.Message().IsValid() {
			return "<absent>"
		}
		return vC18SJSON(v.Message().Interface())
	case fd.Kind() == protoreflect.EnumKind:
		if ev := fd.Enum().Values().ByNumber(v.Enum()); ev != nil {
			return string(ev.Name())
		}
		return fmt.Sprint(v.Enum())
	}
	return fmt.Sprint(v.Interface())
}

// vC18SDiff walks `sent` and reports every field whose value in `got` differs.
// exact=false ("subset" rule for configs with server-side defaults): only fields POPULATED in
// `sent` are compared - "a field set to a non-default value must come back with that value; a field
// left zero may come back defaulted".  exact=true additionally reports fields populated only in got.
func vC18SDiff(sent, got protoreflect.Message, exact bool, skip map[string]bool, out *[]vC18SDiffEntry) {
	vC18SDiffAt("", sent, got, exact, skip, out)
}

// message types used by several fields of one parent: the class names the parent field too,
// e.g. "CommunityAction(ext_community).type", so that one class is one root cause.
var vC18SAmbiguous = map[string]bool{"CommunityAction": true, "MatchSet": true, "PolicyAssignment": true}

func vC18SDiffAt(parentField string, sent, got protoreflect.Message, exact bool, skip map[string]bool, out *[]vC18SDiffEntry) {
	name := string(sent.Descriptor().Name())
	if vC18SAmbiguous[name] && parentField != "" {
		name += "(" + parentField + ")"
	}
	visit := func(fd protoreflect.FieldDescriptor, sv protoreflect.Value) {
		path := name + "." + string(fd.Name())
		if skip[path] {
			return
		}
		gv := got.Get(fd)
		add := func() {
			g := "<absent>"
			if got.Has(fd) {
				g = vC18SValStr(fd, gv)
			}
			s := "<absent>"
			if sent.Has(fd) {
				s = vC18SValStr(fd, sv)
			}
			*out = append(*out, vC18SDiffEntry{path, s, g})
		}
		switch {
		case fd.IsMap():
			if vC18SValStr(fd, sv) != vC18SValStr(fd, gv) {
				add()
			}
		case fd.IsList():
			sl, gl := sv.List(), gv.List()
			if sl.Len() != gl.Len() {
				add()
				return
			}
			for i := 0; i < sl.Len(); i++ {
				if fd.Kind() == protoreflect.MessageKind {
					vC18SDiffAt(string(fd.Name()), sl.Get(i).Message(), gl.Get(i).Message(), exact, skip, out)
				} else if fmt.Sprint(sl.Get(i).Interface()) != fmt.Sprint(gl.Get(i).Interface()) {
					add()
					return
				}
			}
		case fd.Kind() == protoreflect.MessageKind:
			if !sent.Has(fd) {
				if exact && got.Has(fd) {
					add()
				}
				return
			}
			if !got.Has(fd) {
				// a dropped sub-message only matters if it carried something
				var sub []vC18SDiffEntry
				vC18SDiffAt(string(fd.Name()), sv.Message(), sv.Message().New(), exact, skip, &sub)
				if len(sub) > 0 || exact {
					add()
				}
				return
			}
			vC18SDiffAt(string(fd.Name()), sv.Message(), gv.Message(), exact, skip, out)
		default:
			if vC18SValStr(fd, sv) != vC18SValStr(fd, gv) {
				add()
			}
		}
	}
	if exact {
		fds := sent.Descriptor().Fields()
		for i := 0; i < fds.Len(); i++ {
			fd := fds.Get(i)
			if sent.Has(fd) || got.Has(fd) {
				visit(fd, sent.Get(fd))
			}
		}
		return
	}
	sent.Range(func(fd protoreflect.FieldDescriptor, v protoreflect.Value) bool {
		visit(fd, v)
		return true
	})
}

// Fields whose only way to differ (generators stay in range) is an out-of-range value cut by an
// unchecked uint8() cast in the from-API converter: one root cause, one class.
var vC18SClassRewrite = map[string]string{
	"AsPrependAction.repeat@ListStatement":  "out-of-range-value-truncated",
	"Prefix.mask_length_min@ListDefinedSet": "out-of-range-value-truncated",
	"Prefix.mask_length_max@ListDefinedSet": "out-of-range-value-truncated",
}

// vC18SReport turns diff entries into oracle failures "<prefix>:<Message>.<field>".
func vC18SReport(o *vOut, prefix string, diffs []vC18SDiffEntry, ctxKey string, ctx proto.Message, extra map[string]any) {
	sort.Slice(diffs, func(i, j int) bool { return diffs[i].path < diffs[j].path })
	seen := map[string]bool{}
	for _, d := range diffs {
		if seen[d.path] {
			continue
		}
		seen[d.path] = true
		det := map[string]any{"sent": d.sent, "got": d.got, ctxKey: vC18SJSON(ctx)}
		for k, v := range extra {
			det[k] = v
		}
		if rw, ok := vC18SClassRewrite[d.path]; ok {
			det["field"] = d.path
			o.fail(prefix+":"+rw, det)
			continue
		}
		o.fail(prefix+":"+d.path, det)
	}
}

// ---------------------------------------------------------------------------------------------
// Oracle 2: neighbours, peer groups, global
// ---------------------------------------------------------------------------------------------

// Fields of api.Peer that are not configuration carried by AddPeer, or are derived:
//
//	PeerConf.type            derived from the AS numbers (oc/default.go:85 getConfigPeerType), the
//	                         value given is documented as ignored ("uninitialized PeerType" comment,
//	                         grpc_server.go:965);
//	Peer.state, Timers.state, AfiSafi.state, *.state of GR: operational state, never sent here.
var vC18SPeerSkip = map[string]bool{"PeerConf.type": true, "PeerGroupConf.type": true}

// Raw converter pair only (no SetDefaultNeighborConfigValues): the cluster id is read back from
// RouteReflector.State, which only the defaults step fills (oc/default.go:242-247), so it cannot be
// judged there; it is judged in the defaults variant and on the server.
var vC18SPeerSkipRaw = map[string]bool{"PeerConf.type": true, "RouteReflector.route_reflector_cluster_id": true}

type vC18SFam struct {
	afi  api.Family_Afi
	safi api.Family_Safi
}

var vC18SPeerFams = []vC18SFam{
	{api.Family_AFI_IP, api.Family_SAFI_UNICAST}, {api.Family_AFI_IP6, api.Family_SAFI_UNICAST},
	{api.Family_AFI_IP, api.Family_SAFI_MPLS_VPN}, {api.Family_AFI_IP6, api.Family_SAFI_MPLS_VPN},
	{api.Family_AFI_L2VPN, api.Family_SAFI_EVPN}, {api.Family_AFI_IP, api.Family_SAFI_ROUTE_TARGET_CONSTRAINTS},
	{api.Family_AFI_IP, api.Family_SAFI_FLOW_SPEC_UNICAST}, {api.Family_AFI_IP, api.Family_SAFI_MPLS_LABEL},
}

func vC18SGenApplyPolicy(r *vRand, withPolicies bool) *api.ApplyPolicy {
	act := func() api.RouteAction {
		return api.RouteAction(r.pick(int(api.RouteAction_ROUTE_ACTION_UNSPECIFIED), int(api.RouteAction_ROUTE_ACTION_ACCEPT), int(api.RouteAction_ROUTE_ACTION_REJECT)))
	}
	pols := func() []*api.Policy {
		if !withPolicies || r.chance(50) {
			return nil
		}
		l := []*api.Policy{{Name: "vc18-pol-a"}}
		if r.chance(50) {
			l = append(l, &api.Policy{Name: "vc18-pol-b"})
		}
		return l
	}
	ap := &api.ApplyPolicy{}
	if r.chance(80) {
		ap.ImportPolicy = &api.PolicyAssignment{DefaultAction: act(), Policies: pols()}
	}
	if r.chance(80) {
		ap.ExportPolicy = &api.PolicyAssignment{DefaultAction: act(), Policies: pols()}
	}
	return ap
}

func vC18SGenAfiSafis(r *vRand, withPolicies bool) []*api.AfiSafi {
	n := r.pick(0, 1, 2, 3, 5)
	perm := r.perm(len(vC18SPeerFams))
	var l []*api.AfiSafi
	for i := 0; i < n; i++ {
		f := vC18SPeerFams[perm[i]]
		fam := &api.Family{Afi: f.afi, Safi: f.safi}
		a := &api.AfiSafi{Config: &api.AfiSafiConfig{Family: fam, Enabled: true}}
		if r.chance(40) {
			a.MpGracefulRestart = &api.MpGracefulRestart{Config: &api.MpGracefulRestartConfig{Enabled: r.chance(70)}}
		}
		if r.chance(40) {
			a.LongLivedGracefulRestart = &api.LongLivedGracefulRestart{Config: &api.LongLivedGracefulRestartConfig{Enabled: r.chance(70), RestartTime: vC18SPickU32(r, []uint32{0, 1, 3600, 16777215})}}
		}
		if r.chance(50) {
			a.AddPaths = &api.AddPaths{Config: &api.AddPathsConfig{Receive: r.chance(50), SendMax: uint32(r.pick(0, 1, 8, 255))}}
		}
		if r.chance(40) {
			a.PrefixLimits = &api.PrefixLimit{Family: fam, MaxPrefixes: vC18SPickU32(r, []uint32{1, 1000, 4294967295}), ShutdownThresholdPct: uint32(r.pick(0, 1, 75, 100))}
		}
		if f.safi == api.Family_SAFI_ROUTE_TARGET_CONSTRAINTS && r.chance(70) {
			a.RouteTargetMembership = &api.RouteTargetMembership{Config: &api.RouteTargetMembershipConfig{DeferralTime: uint32(r.pick(0, 1, 360, 65535))}}
		}
		if r.chance(25) {
			a.ApplyPolicy = vC18SGenApplyPolicy(r, false)
		}
		if r.chance(25) {
			a.RouteSelectionOptions = &api.RouteSelectionOptions{Config: &api.RouteSelectionOptionsConfig{
				AlwaysCompareMed: r.chance(50), IgnoreAsPathLength: r.chance(50), ExternalCompareRouterId: r.chance(50),
				AdvertiseInactiveRoutes: r.chance(50), EnableAigp: r.chance(50), IgnoreNextHopIgpMetric: r.chance(50)}}
		}
		if r.chance(25) {
			a.UseMultiplePaths = &api.UseMultiplePaths{Config: &api.UseMultiplePathsConfig{Enabled: r.chance(60)},
				Ebgp: &api.Ebgp{Config: &api.EbgpConfig{AllowMultipleAsn: r.chance(50), MaximumPaths: uint32(r.pick(0, 1, 64))}},
				Ibgp: &api.Ibgp{Config: &api.IbgpConfig{MaximumPaths: uint32(r.pick(0, 1, 64))}}}
		}
		l = append(l, a)
	}
	return l
}

// vC18SGenPeer builds a neighbour config the server accepts (exclusions enforced by
// oc/default.go setDefaultNeighborConfigValuesWithViper and server.go addNeighbor are respected).
// forServer: passive, no BFD, no interface binding (nothing may touch the network).
func vC18SGenPeer(r *vRand, n int, forServer bool) *api.Peer {
	const globalAS = 65001
	p := &api.Peer{Conf: &api.PeerConf{}}
	c := p.Conf
	if r.chance(70) {
		c.NeighborAddress = netip.AddrFrom4([4]byte{10, 9, byte(n >> 8), byte(n)}).String()
	} else {
		c.NeighborAddress = fmt.Sprintf("2001:db8:9::%x", n+1)
	}
	c.PeerAsn = vC18SPickU32(r, []uint32{1, globalAS, globalAS, 65535, 65536, 23456, 4294967295, 4200000000})
	c.LocalAsn = vC18SPickU32(r, []uint32{0, 0, 0, globalAS, 64999, 4200000000, 4294967295})
	local := c.LocalAsn
	if local == 0 {
		local = globalAS
	}
	ibgp := c.PeerAsn == local
	if r.chance(60) {
		c.Description = fmt.Sprintf("peer %d \"quoted\" ünï", n)
	}
	if r.chance(30) {
		c.AuthPassword = "s3cret"
	}
	c.RouteFlapDamping = r.chance(20)
	if r.chance(30) {
		c.SendCommunity = uint32(r.pick(1, 2, 3))
	}
	if r.chance(30) {
		c.AllowOwnAsn = uint32(r.pick(1, 3, 255))
	}
	c.AllowAspathLoopLocal = r.chance(15)
	c.SendSoftwareVersion = r.chance(20)
	c.AdminDown = r.chance(30)
	if !ibgp {
		c.ReplacePeerAsn = r.chance(30)
		if r.chance(40) {
			c.RemovePrivate = api.RemovePrivate(r.pick(int(api.RemovePrivate_REMOVE_PRIVATE_ALL), int(api.RemovePrivate_REMOVE_PRIVATE_REPLACE)))
		}
	}
	c.Type = api.PeerType(r.pick(int(api.PeerType_PEER_TYPE_INTERNAL), int(api.PeerType_PEER_TYPE_EXTERNAL)))
	p.AfiSafis = vC18SGenAfiSafis(r, false)
	if r.chance(70) {
		tc := &api.TimersConfig{}
		if r.chance(70) {
			tc.HoldTime = uint64(r.pick(3, 30, 90, 65535))
			if r.chance(60) {
				tc.KeepaliveInterval = uint64(r.pick(1, 10, 30))
			}
		}
		if r.chance(50) {
			tc.ConnectRetry = uint64(r.pick(1, 120, 65535))
		}
		if r.chance(50) {
			tc.MinimumAdvertisementInterval = uint64(r.pick(1, 30, 600))
		}
		if r.chance(40) {
			tc.IdleHoldTimeAfterReset = uint64(r.pick(1, 30, 3600))
		}
		p.Timers = &api.Timers{Config: tc}
	}
	rs := r.chance(20)
	if r.chance(40) && !rs {
		p.RouteReflector = &api.RouteReflector{RouteReflectorClient: r.chance(70)}
		if r.chance(60) {
			p.RouteReflector.RouteReflectorClusterId = []string{"10.0.0.1", "0.0.0.1", "255.255.255.254", "192.0.2.77"}[r.intn(4)]
		}
	}
	if rs {
		p.RouteServer = &api.RouteServer{RouteServerClient: true, SecondaryRoute: r.chance(40)}
	} else if r.chance(10) {
		p.RouteServer = &api.RouteServer{SecondaryRoute: true}
	}
	if r.chance(50) {
		p.GracefulRestart = &api.GracefulRestart{Enabled: r.chance(80), RestartTime: uint32(r.pick(0, 1, 120, 4095)),
			HelperOnly: r.chance(30), DeferralTime: uint32(r.pick(0, 1, 360, 65535)), NotificationEnabled: r.chance(40), LonglivedEnabled: r.chance(40)}
	}
	switch r.intn(4) {
	case 0:
		p.EbgpMultihop = &api.EbgpMultihop{Enabled: r.chance(80), MultihopTtl: uint32(r.pick(0, 1, 2, 255))}
	case 1:
		p.TtlSecurity = &api.TtlSecurity{Enabled: r.chance(80), TtlMin: uint32(r.pick(0, 1, 254, 255))}
	}
	if r.chance(60) {
		p.ApplyPolicy = vC18SGenApplyPolicy(r, forServer)
	}
	tr := &api.Transport{PassiveMode: true}
	if !forServer {
		tr.PassiveMode = r.chance(50)
		if r.chance(30) {
			tr.BindInterface = "eth7"
		}
	}
	if r.chance(50) {
		if strings.Contains(c.NeighborAddress, ":") {
			tr.LocalAddress = "2001:db8:9::ffff"
		} else {
			tr.LocalAddress = "10.9.255.254"
		}
	}
	if r.chance(40) {
		tr.RemotePort = uint32(r.pick(1, 179, 1790, 65535))
	}
	if r.chance(30) {
		tr.LocalPort = uint32(r.pick(1, 1024, 65535))
	}
	if r.chance(30) {
		tr.TcpMss = uint32(r.pick(1, 1400, 65535))
	}
	if r.chance(30) {
		tr.IpTos = uint32(r.pick(1, 0xc0, 255))
	}
	p.Transport = tr
	if !forServer && r.chance(40) {
		p.Bfd = &api.BfdPeerConfig{Enabled: r.chance(50), Port: uint32(r.pick(0, 3784, 65535)), DesiredMinimumTxInterval: uint32(r.pick(0, 1, 300000)),
			RequiredMinimumReceive: uint32(r.pick(0, 1, 300000)), DetectionMultiplier: uint32(r.pick(0, 1, 3, 255))}
	}
	return p
}

// vC18SOversize sets exactly one numeric field beyond the width of its native type.
func vC18SOversize(r *vRand, p *api.Peer) string {
	switch r.intn(6) {
	case 0:
		p.Conf.AllowOwnAsn = 256
		return "PeerConf.allow_own_asn"
	case 1:
		p.GracefulRestart = &api.GracefulRestart{Enabled: true, RestartTime: 65536 + 120}
		return "GracefulRestart.restart_time"
	case 2:
		p.Transport.RemotePort = 65536 + 179
		return "Transport.remote_port"
	case 3:
		p.TtlSecurity = nil
		p.EbgpMultihop = &api.EbgpMultihop{Enabled: true, MultihopTtl: 256 + 5}
		return "EbgpMultihop.multihop_ttl"
	case 4:
		p.EbgpMultihop = nil
		p.TtlSecurity = &api.TtlSecurity{Enabled: true, TtlMin: 256 + 254}
		return "TtlSecurity.ttl_min"
	}
	p.AfiSafis = []*api.AfiSafi{{Config: &api.AfiSafiConfig{Family: &api.Family{Afi: api.Family_AFI_IP, Safi: api.Family_SAFI_UNICAST}, Enabled: true},
		AddPaths: &api.AddPaths{Config: &api.AddPathsConfig{SendMax: 256 + 2}}}}
	return "AddPathsConfig.send_max"
}

func vC18SComparePeer(o *vOut, prefix string, sent, got *api.Peer, oversize string, via string, skip map[string]bool) {
	var diffs []vC18SDiffEntry
	vC18SDiff(sent.ProtoReflect(), got.ProtoReflect(), false, skip, &diffs)
	if oversize != "" {
		// one root cause for all of them: uintN(a.X) casts without a range check in
		// newNeighborFromAPIStruct / readAddPathsFromAPIStruct
		var rest []vC18SDiffEntry
		for _, d := range diffs {
			if d.path == oversize {
				o.fail(prefix+":out-of-range-value-truncated", map[string]any{"field": d.path, "sent": d.sent, "got": d.got, "peer": vC18SJSON(sent), "via": via})
			} else {
				rest = append(rest, d)
			}
		}
		diffs = rest
	}
	vC18SReport(o, prefix, diffs, "peer", sent, map[string]any{"via": via})
}

func vC18SPeerPure(o *vOut, r *vRand, n int) {
	o.stat("peer_pure_cases", 1)
	p := vC18SGenPeer(r, n, false)
	oversize := ""
	if r.chance(8) {
		oversize = vC18SOversize(r, p)
		o.stat("peer_oversize_cases", 1)
	}
	nb, err := newNeighborFromAPIStruct(p)
	if err != nil {
		if oversize == "" {
			o.fail("peer-readback:converter-rejected", map[string]any{"err": err.Error(), "peer": vC18SJSON(p)})
		}
		return
	}
	// variant A: raw converters; variant B: with the defaults the server applies before storing
	via, skip := "newNeighborFromAPIStruct/NewPeerFromConfigStruct", vC18SPeerSkipRaw
	if r.chance(50) {
		via, skip = via+"+SetDefaultNeighborConfigValues", vC18SPeerSkip
		o.stat("peer_pure_with_defaults", 1)
		g := newGlobalFromAPIStruct(vC18SGlobal())
		if err := oc.SetDefaultNeighborConfigValues(nb, nil, g); err != nil {
			o.stat("peer_pure_defaults_rejected", 1)
			o.sample("pure defaults rejected: " + err.Error())
			return
		}
	}
	got := oc.NewPeerFromConfigStruct(nb)
	if got == nil {
		o.fail("peer-readback:converter-nil", map[string]any{"peer": vC18SJSON(p)})
		return
	}
	vC18SComparePeer(o, "peer-readback", p, got, oversize, via, skip)
}

func vC18SPeerServer(o *vOut, r *vRand, s *BgpServer, n int) {
	o.stat("peer_server_cases", 1)
	ctx := context.Background()
	p := vC18SGenPeer(r, n, true)
	oversize := ""
	if r.chance(8) {
		oversize = vC18SOversize(r, p)
		o.stat("peer_oversize_cases", 1)
	}
	sent := proto.Clone(p).(*api.Peer)
	if err := s.AddPeer(ctx, &api.AddPeerRequest{Peer: p}); err != nil {
		o.stat("peer_server_add_rejected", 1)
		o.sample("AddPeer rejected: " + err.Error())
		if oversize == "" {
			o.fail("peer-readback:add-rejected", map[string]any{"err": err.Error(), "peer": vC18SJSON(sent)})
		}
		return
	}
	var got []*api.Peer
	if err := s.ListPeer(ctx, &api.ListPeerRequest{Address: sent.Conf.NeighborAddress}, func(x *api.Peer) { got = append(got, x) }); err != nil || len(got) != 1 {
		o.fail("peer-readback:not-listed", map[string]any{"err": fmt.Sprint(err), "n": len(got), "peer": vC18SJSON(sent)})
	} else {
		vC18SComparePeer(o, "peer-readback", sent, got[0], oversize, "AddPeer/ListPeer", vC18SPeerSkip)
		// no socket: a passive neighbour must sit in ACTIVE or IDLE, never CONNECT/OPENSENT
		if st := got[0].State.GetSessionState(); st != api.PeerState_SESSION_STATE_IDLE && st != api.PeerState_SESSION_STATE_ACTIVE {
			o.fail("peer-readback:passive-peer-dialled", map[string]any{"state": st.String(), "peer": vC18SJSON(sent)})
		}
	}
	if err := s.DeletePeer(ctx, &api.DeletePeerRequest{Address: sent.Conf.NeighborAddress}); err != nil {
		o.fail("peer-readback:delete-error", map[string]any{"err": err.Error(), "peer": vC18SJSON(sent)})
	}
}

// --- peer groups ---

func vC18SGenPeerGroup(r *vRand, n int) *api.PeerGroup {
	p := vC18SGenPeer(r, n, false)
	g := &api.PeerGroup{
		Conf: &api.PeerGroupConf{AuthPassword: p.Conf.AuthPassword, Description: p.Conf.Description, LocalAsn: p.Conf.LocalAsn,
			PeerAsn: p.Conf.PeerAsn, PeerGroupName: fmt.Sprintf("vc18-pg-%d", n), Type: p.Conf.Type, RemovePrivate: p.Conf.RemovePrivate,
			RouteFlapDamping: p.Conf.RouteFlapDamping, SendCommunity: p.Conf.SendCommunity, SendSoftwareVersion: p.Conf.SendSoftwareVersion,
			AllowOwnAsn: p.Conf.AllowOwnAsn, ReplacePeerAsn: p.Conf.ReplacePeerAsn, AllowAspathLoopLocal: p.Conf.AllowAspathLoopLocal},
		EbgpMultihop: p.EbgpMultihop, RouteReflector: p.RouteReflector, Timers: p.Timers, Transport: p.Transport, RouteServer: p.RouteServer,
		GracefulRestart: p.GracefulRestart, AfiSafis: p.AfiSafis, TtlSecurity: p.TtlSecurity, Bfd: p.Bfd, ApplyPolicy: p.ApplyPolicy,
	}
	return g
}

func vC18SPeerGroupCase(o *vOut, r *vRand, s *BgpServer, n int) {
	ctx := context.Background()
	g := vC18SGenPeerGroup(r, n)
	sent := proto.Clone(g).(*api.PeerGroup)
	report := func(prefix, via string, got *api.PeerGroup) {
		var diffs []vC18SDiffEntry
		vC18SDiff(sent.ProtoReflect(), got.ProtoReflect(), false, vC18SPeerSkip, &diffs)
		vC18SReport(o, prefix, diffs, "peer_group", sent, map[string]any{"via": via})
	}
	if r.chance(50) {
		o.stat("peergroup_pure_cases", 1)
		c, err := newPeerGroupFromAPIStruct(g)
		if err != nil {
			o.fail("peergroup-readback:converter-rejected", map[string]any{"err": err.Error(), "peer_group": vC18SJSON(sent)})
			return
		}
		report("peergroup-readback", "newPeerGroupFromAPIStruct/NewPeerGroupFromConfigStruct", oc.NewPeerGroupFromConfigStruct(c))
		return
	}
	o.stat("peergroup_server_cases", 1)
	if err := s.AddPeerGroup(ctx, &api.AddPeerGroupRequest{PeerGroup: g}); err != nil {
		o.fail("peergroup-readback:add-rejected", map[string]any{"err": err.Error(), "peer_group": vC18SJSON(sent)})
		return
	}
	var got []*api.PeerGroup
	if err := s.ListPeerGroup(ctx, &api.ListPeerGroupRequest{PeerGroupName: sent.Conf.PeerGroupName}, func(x *api.PeerGroup) { got = append(got, x) }); err != nil || len(got) != 1 {
		o.fail("peergroup-readback:not-listed", map[string]any{"err": fmt.Sprint(err), "n": len(got), "peer_group": vC18SJSON(sent)})
	} else {
		report("peergroup-readback", "AddPeerGroup/ListPeerGroup", got[0])
	}
	if err := s.DeletePeerGroup(ctx, &api.DeletePeerGroupRequest{Name: sent.Conf.PeerGroupName}); err != nil {
		o.fail("peergroup-readback:delete-error", map[string]any{"err": err.Error()})
	}
}

// --- global ---

func vC18SGenGlobal(r *vRand) *api.Global {
	g := &api.Global{Asn: vC18SPickU32(r, []uint32{1, 65001, 65536, 4294967295}), RouterId: []string{"10.0.0.1", "0.0.0.1", "255.255.255.254"}[r.intn(3)],
		ListenPort: int32(r.pick(-1, 179, 1790, 65535)), UseMultiplePaths: r.chance(40)}
	if r.chance(50) {
		g.ListenAddresses = []string{"127.0.0.1", "::1"}[:1+r.intn(2)]
	}
	if r.chance(60) {
		// api.Global.families are indices of the oc AfiSafiType enumeration (grpc_server.go:2437
		// oc.IntToAfiSafiTypeMap), not AFI<<16|SAFI values
		for _, i := range r.perm(len(oc.IntToAfiSafiTypeMap))[:1+r.intn(4)] {
			g.Families = append(g.Families, uint32(i))
		}
	}
	if r.chance(30) {
		g.BindToDevice = "vrf-blue"
	}
	if r.chance(60) {
		g.RouteSelectionOptions = &api.RouteSelectionOptionsConfig{AlwaysCompareMed: r.chance(50), IgnoreAsPathLength: r.chance(50), ExternalCompareRouterId: r.chance(50),
			AdvertiseInactiveRoutes: r.chance(50), EnableAigp: r.chance(50), IgnoreNextHopIgpMetric: r.chance(50), DisableBestPathSelection: r.chance(50)}
	}
	if r.chance(50) {
		g.DefaultRouteDistance = &api.DefaultRouteDistance{ExternalRouteDistance: uint32(r.pick(1, 20, 255)), InternalRouteDistance: uint32(r.pick(1, 200, 255))}
	}
	if r.chance(50) {
		g.Confederation = &api.Confederation{Enabled: r.chance(80), Identifier: vC18SPickU32(r, []uint32{1, 65000, 4294967295}), MemberAsList: []uint32{65001, 65002, 4294967295}[:r.intn(4)]}
	}
	if r.chance(50) {
		g.GracefulRestart = &api.GracefulRestart{Enabled: r.chance(80), RestartTime: uint32(r.pick(1, 120, 4095)), StaleRoutesTime: uint32(r.pick(1, 300, 65535)),
			HelperOnly: r.chance(30), DeferralTime: uint32(r.pick(1, 360, 65535)), NotificationEnabled: r.chance(40), LonglivedEnabled: r.chance(40)}
	}
	return g
}

func vC18SGlobalPure(o *vOut, r *vRand) {
	o.stat("global_pure_cases", 1)
	g := vC18SGenGlobal(r)
	got := oc.NewGlobalFromConfigStruct(newGlobalFromAPIStruct(g))
	var diffs []vC18SDiffEntry
	vC18SDiff(g.ProtoReflect(), got.ProtoReflect(), false, nil, &diffs)
	vC18SReport(o, "global-readback", diffs, "global", g, map[string]any{"via": "newGlobalFromAPIStruct/NewGlobalFromConfigStruct"})
}

// vC18SGlobalServer: what StartBgp was given must be what GetBgp shows.
func vC18SGlobalServer(o *vOut, s *BgpServer) {
	o.stat("global_server_cases", 1)
	sent := vC18SGlobal()
	rsp, err := s.GetBgp(context.Background(), &api.GetBgpRequest{})
	if err != nil || rsp.Global == nil {
		o.fail("global-readback:getbgp-error", map[string]any{"err": fmt.Sprint(err)})
		return
	}
	var diffs []vC18SDiffEntry
	vC18SDiff(sent.ProtoReflect(), rsp.Global.ProtoReflect(), false, nil, &diffs)
	// one root cause (GetBgp hand-builds a partial api.Global): one class, fields in the detail
	var lost []string
	for _, d := range diffs {
		lost = append(lost, d.path)
	}
	if len(lost) > 0 {
		sort.Strings(lost)
		o.fail("global-readback:getbgp-omits-fields", map[string]any{"lost": lost, "global": vC18SJSON(sent), "got": vC18SJSON(rsp.Global)})
	}
}

// ---------------------------------------------------------------------------------------------
// Oracle 3: policy objects
// ---------------------------------------------------------------------------------------------

// --- read-back normal forms (each one a known, intended canonicalisation of the policy engine) ---

// vC18SNormAnchor: community / ext-community / large-community patterns are compiled as anchored
// regular expressions and listed in that form ("65000:100" -> "^65000:100$"; table/policy.go
// ParseCommunityRegexp / ParseExtCommunityRegexp / ParseLargeCommunityRegexp).
func vC18SNormAnchor(x string) string {
	if !strings.HasPrefix(x, "^") {
		x = "^" + x
	}
	if !strings.HasSuffix(x, "$") {
		x += "$"
	}
	return x
}

// vC18SNormExtAnchor: as vC18SNormAnchor, but the sub-type keyword ("rt:", "soo:", ...) stays in front.
func vC18SNormExtAnchor(x string) string {
	i := strings.Index(x, ":")
	if i < 0 {
		return x
	}
	return x[:i+1] + vC18SNormAnchor(x[i+1:])
}

// vC18SNormAsPathUnderscore: in an as-path pattern `_` is expanded to the delimiter class
// `(^|[,{}() ]|$)` before compiling (table/policy.go NewAsPathSet) and listed expanded.
func vC18SNormAsPathUnderscore(x string) string {
	return strings.ReplaceAll(x, "_", "(^|[,{}() ]|$)")
}

// vC18SNormSetOrder: a defined set is a set - members are listed in the engine's order (prefix
// trie order; single-AS as-path members first), so members are compared as a sorted multiset.
func vC18SNormSetOrder(l []string) []string {
	c := append([]string{}, l...)
	sort.Strings(c)
	return c
}

// vC18SNormMaskRange: an omitted mask-length range (0..0) may be listed explicitly as len..len.
func vC18SNormMaskRange(p *api.Prefix) {
	if p.MaskLengthMin == 0 && p.MaskLengthMax == 0 && p.IpPrefix != "" {
		if pp, err := netip.ParsePrefix(p.IpPrefix); err == nil {
			p.MaskLengthMin, p.MaskLengthMax = uint32(pp.Bits()), uint32(pp.Bits())
		}
	}
}

// vC18SNormComparison: COMPARISON_UNSPECIFIED means "eq" (grpc_server.go toOcAttributeComparison default).
func vC18SNormComparison(c api.Comparison) api.Comparison {
	if c == api.Comparison_COMPARISON_UNSPECIFIED {
		return api.Comparison_COMPARISON_EQ
	}
	return c
}

// vC18SNormRpkiNone: rpki result NONE is the explicit spelling of "no rpki condition"
// (table/policy.go:2661 NewRpkiValidationCondition returns no condition for it).
func vC18SNormRpkiNone(v api.ValidationState) api.ValidationState {
	if v == api.ValidationState_VALIDATION_STATE_NONE {
		return api.ValidationState_VALIDATION_STATE_UNSPECIFIED
	}
	return v
}

func vC18SNormDefinedSet(in *api.DefinedSet) *api.DefinedSet {
	d := proto.Clone(in).(*api.DefinedSet)
	for i, x := range d.List {
		switch d.DefinedType {
		case api.DefinedType_DEFINED_TYPE_COMMUNITY, api.DefinedType_DEFINED_TYPE_LARGE_COMMUNITY:
			d.List[i] = vC18SNormAnchor(x)
		case api.DefinedType_DEFINED_TYPE_EXT_COMMUNITY:
			d.List[i] = vC18SNormExtAnchor(x)
		case api.DefinedType_DEFINED_TYPE_AS_PATH:
			d.List[i] = vC18SNormAsPathUnderscore(x)
		}
	}
	d.List = vC18SNormSetOrder(d.List)
	if len(d.List) == 0 {
		d.List = nil
	}
	for _, p := range d.Prefixes {
		vC18SNormMaskRange(p)
	}
	sort.Slice(d.Prefixes, func(i, j int) bool { return vC18SJSON(d.Prefixes[i]) < vC18SJSON(d.Prefixes[j]) }) // vC18SNormSetOrder for prefixes
	if len(d.Prefixes) == 0 {
		d.Prefixes = nil
	}
	return d
}

// vC18SNormStatement: an absent Conditions / Actions message is listed as an empty one (both mean
// "nothing set"); comparison operators are canonicalised by vC18SNormComparison.
func vC18SNormStatement(in *api.Statement) *api.Statement {
	s := proto.Clone(in).(*api.Statement)
	if s.Conditions == nil {
		s.Conditions = &api.Conditions{}
	}
	if s.Actions == nil {
		s.Actions = &api.Actions{}
	}
	if s.Conditions.AsPathLength != nil {
		s.Conditions.AsPathLength.Type = vC18SNormComparison(s.Conditions.AsPathLength.Type)
	}
	s.Conditions.RpkiResult = vC18SNormRpkiNone(s.Conditions.RpkiResult)
	// vC18SNormZeroIsUnset: for local-pref-eq, med-eq and the local-pref action the value 0 is the
	// documented "unset" sentinel (grpc_server.go:1866, 1873, 2090: `a == nil || a.Value == 0`), so a
	// present message carrying 0 equals an absent one.  (Consequence, by design: "MED == 0" and
	// "set local-pref 0" cannot be expressed through the API.)
	if s.Conditions.LocalPrefEq.GetValue() == 0 {
		s.Conditions.LocalPrefEq = nil
	}
	if s.Conditions.MedEq.GetValue() == 0 {
		s.Conditions.MedEq = nil
	}
	if s.Actions.LocalPref.GetValue() == 0 {
		s.Actions.LocalPref = nil
	}
	// vC18SNormAnchor also applies to the community lists of set-community actions (they are kept as
	// compiled patterns because REMOVE matches by regexp; table/policy.go NewCommunityAction)
	if a := s.Actions.Community; a != nil {
		for i, x := range a.Communities {
			a.Communities[i] = vC18SNormAnchor(x)
		}
	}
	if a := s.Actions.LargeCommunity; a != nil {
		for i, x := range a.Communities {
			a.Communities[i] = vC18SNormAnchor(x)
		}
	}
	if a := s.Actions.ExtCommunity; a != nil {
		for i, x := range a.Communities {
			a.Communities[i] = vC18SNormExtAnchor(x)
		}
	}
	if s.Conditions.CommunityCount != nil {
		s.Conditions.CommunityCount.Type = vC18SNormComparison(s.Conditions.CommunityCount.Type)
	}
	return s
}

// --- generators ---

func vC18SGenDefinedSet(r *vRand, n int) *api.DefinedSet {
	d := &api.DefinedSet{Name: fmt.Sprintf("vc18-ds-%d", n)}
	pickN := func(pool []string) []string {
		k := 1 + r.intn(len(pool))
		var l []string
		for _, i := range r.perm(len(pool))[:k] {
			l = append(l, pool[i])
		}
		return l
	}
	switch r.intn(6) {
	case 0:
		d.DefinedType = api.DefinedType_DEFINED_TYPE_PREFIX
		v6 := r.chance(30)
		k := r.pick(1, 2, 4)
		for i := 0; i < k; i++ {
			var pf netip.Prefix
			if v6 {
				pf = netip.PrefixFrom(netip.AddrFrom16([16]byte{0x20, 0x01, 0x0d, 0xb8, byte(i), byte(n)}), r.pick(32, 48))
			} else {
				pf = netip.PrefixFrom(netip.AddrFrom4([4]byte{10, byte(i), 0, 0}), r.pick(16, 16, 8)).Masked()
			}
			p := &api.Prefix{IpPrefix: pf.String()}
			maxb := uint32(32)
			if v6 {
				maxb = 128
			}
			switch r.intn(4) {
			case 0: // omitted
			case 1:
				p.MaskLengthMin, p.MaskLengthMax = uint32(pf.Bits()), uint32(pf.Bits())
			case 2:
				p.MaskLengthMin, p.MaskLengthMax = uint32(pf.Bits()), maxb
			default:
				p.MaskLengthMin, p.MaskLengthMax = uint32(pf.Bits())+4, uint32(pf.Bits())+8
			}
			d.Prefixes = append(d.Prefixes, p)
		}
	case 1:
		d.DefinedType = api.DefinedType_DEFINED_TYPE_NEIGHBOR
		d.List = pickN([]string{"10.0.0.1/32", "10.1.0.0/16", "2001:db8::1/128", "192.0.2.0/24", "2001:db8:1::/48"})
	case 2:
		d.DefinedType = api.DefinedType_DEFINED_TYPE_AS_PATH
		d.List = pickN([]string{"^65001_", "_65002$", "_65100_", "^65003$", "^(65001|65002)_", "_6500[0-9]_", "^65001_65002_", "4294967295", "^$"})
	case 3:
		d.DefinedType = api.DefinedType_DEFINED_TYPE_COMMUNITY
		d.List = pickN([]string{"65000:100", "^65000:.*$", "0:0", "65535:65535", "^6500[0-9]:1$", "^.*:100$", "65001:(1|2)"})
	case 4:
		d.DefinedType = api.DefinedType_DEFINED_TYPE_EXT_COMMUNITY
		d.List = pickN([]string{"rt:65000:100", "soo:10.0.0.1:5", "rt:^65000:.*$", "rt:4294967295:1", "soo:65000:200"})
	default:
		d.DefinedType = api.DefinedType_DEFINED_TYPE_LARGE_COMMUNITY
		d.List = pickN([]string{"65000:1:2", "^65000:.*:.*$", "4294967295:4294967295:4294967295", "0:0:0", "^65001:[0-9]+:3$"})
	}
	return d
}

var vC18SFixedSets = []*api.DefinedSet{
	{DefinedType: api.DefinedType_DEFINED_TYPE_PREFIX, Name: "vc18-ps4", Prefixes: []*api.Prefix{{IpPrefix: "10.0.0.0/8", MaskLengthMin: 8, MaskLengthMax: 24}}},
	{DefinedType: api.DefinedType_DEFINED_TYPE_PREFIX, Name: "vc18-ps6", Prefixes: []*api.Prefix{{IpPrefix: "2001:db8::/32", MaskLengthMin: 32, MaskLengthMax: 64}}},
	{DefinedType: api.DefinedType_DEFINED_TYPE_NEIGHBOR, Name: "vc18-ns", List: []string{"10.0.0.2/32"}},
	{DefinedType: api.DefinedType_DEFINED_TYPE_AS_PATH, Name: "vc18-as", List: []string{"^65001_"}},
	{DefinedType: api.DefinedType_DEFINED_TYPE_COMMUNITY, Name: "vc18-cs", List: []string{"65000:100"}},
	{DefinedType: api.DefinedType_DEFINED_TYPE_EXT_COMMUNITY, Name: "vc18-es", List: []string{"rt:65000:100"}},
	{DefinedType: api.DefinedType_DEFINED_TYPE_LARGE_COMMUNITY, Name: "vc18-ls", List: []string{"65000:1:2"}},
}

func vC18SGenStatement(r *vRand, name string) *api.Statement {
	st := &api.Statement{Name: name}
	full := func() api.MatchSet_Type {
		return api.MatchSet_Type(r.pick(int(api.MatchSet_TYPE_ANY), int(api.MatchSet_TYPE_ALL), int(api.MatchSet_TYPE_INVERT)))
	}
	restricted := func() api.MatchSet_Type {
		return api.MatchSet_Type(r.pick(int(api.MatchSet_TYPE_ANY), int(api.MatchSet_TYPE_INVERT)))
	}
	cmp := func() api.Comparison {
		return api.Comparison(r.pick(int(api.Comparison_COMPARISON_EQ), int(api.Comparison_COMPARISON_GE), int(api.Comparison_COMPARISON_LE)))
	}
	if r.chance(90) {
		c := &api.Conditions{}
		if r.chance(35) {
			c.PrefixSet = &api.MatchSet{Type: restricted(), Name: []string{"vc18-ps4", "vc18-ps6"}[r.intn(2)]}
		}
		if r.chance(30) {
			c.NeighborSet = &api.MatchSet{Type: restricted(), Name: "vc18-ns"}
		}
		if r.chance(30) {
			c.AsPathLength = &api.AsPathLength{Type: cmp(), Length: uint32(r.pick(0, 1, 10, 255, 65536))}
		}
		if r.chance(25) {
			c.CommunityCount = &api.CommunityCount{Type: cmp(), Count: uint32(r.pick(0, 1, 10, 65536))}
		}
		if r.chance(30) {
			c.AsPathSet = &api.MatchSet{Type: full(), Name: "vc18-as"}
		}
		if r.chance(30) {
			c.CommunitySet = &api.MatchSet{Type: full(), Name: "vc18-cs"}
		}
		if r.chance(30) {
			c.ExtCommunitySet = &api.MatchSet{Type: full(), Name: "vc18-es"}
		}
		if r.chance(30) {
			c.LargeCommunitySet = &api.MatchSet{Type: full(), Name: "vc18-ls"}
		}
		if r.chance(30) {
			c.RpkiResult = api.ValidationState(r.pick(int(api.ValidationState_VALIDATION_STATE_NONE), int(api.ValidationState_VALIDATION_STATE_NOT_FOUND),
				int(api.ValidationState_VALIDATION_STATE_VALID), int(api.ValidationState_VALIDATION_STATE_INVALID)))
		}
		if r.chance(30) {
			c.RouteType = api.Conditions_RouteType(r.pick(int(api.Conditions_ROUTE_TYPE_INTERNAL), int(api.Conditions_ROUTE_TYPE_EXTERNAL), int(api.Conditions_ROUTE_TYPE_LOCAL)))
		}
		if r.chance(25) {
			c.NextHopInList = [][]string{{"10.0.0.1"}, {"10.0.0.1", "2001:db8::1"}, {"192.0.2.0/24"}, {"10.0.0.9", "10.0.0.1"}}[r.intn(4)]
		}
		if r.chance(25) {
			for _, i := range r.perm(len(vC18SPeerFams))[:1+r.intn(3)] {
				c.AfiSafiIn = append(c.AfiSafiIn, &api.Family{Afi: vC18SPeerFams[i].afi, Safi: vC18SPeerFams[i].safi})
			}
		}
		if r.chance(25) {
			c.Origin = api.OriginType(r.pick(int(api.OriginType_ORIGIN_TYPE_IGP), int(api.OriginType_ORIGIN_TYPE_EGP), int(api.OriginType_ORIGIN_TYPE_INCOMPLETE)))
		}
		if r.chance(25) {
			c.LocalPrefEq = &api.LocalPrefEq{Value: vC18SPickU32(r, []uint32{1, 100, 4294967295})}
		}
		if r.chance(25) {
			c.MedEq = &api.MedEq{Value: vC18SPickU32(r, []uint32{1, 100, 4294967295})}
		}
		st.Conditions = c
	}
	if r.chance(90) {
		a := &api.Actions{RouteAction: api.RouteAction(r.pick(int(api.RouteAction_ROUTE_ACTION_UNSPECIFIED), int(api.RouteAction_ROUTE_ACTION_ACCEPT), int(api.RouteAction_ROUTE_ACTION_REJECT)))}
		ctype := func() api.CommunityAction_Type {
			return api.CommunityAction_Type(r.pick(int(api.CommunityAction_TYPE_ADD), int(api.CommunityAction_TYPE_REMOVE), int(api.CommunityAction_TYPE_REPLACE)))
		}
		if r.chance(35) {
			a.Community = &api.CommunityAction{Type: ctype(), Communities: [][]string{{"65000:100"}, {"65000:100", "0:0", "65535:65535"}, {"65001:1"}}[r.intn(3)]}
		}
		if r.chance(30) {
			a.ExtCommunity = &api.CommunityAction{Type: ctype(), Communities: [][]string{{"rt:65000:100"}, {"soo:10.0.0.1:5", "rt:65000:1"}}[r.intn(2)]}
		}
		if r.chance(30) {
			a.LargeCommunity = &api.CommunityAction{Type: ctype(), Communities: [][]string{{"65000:1:2"}, {"4294967295:0:1", "1:2:3"}}[r.intn(2)]}
		}
		if r.chance(35) {
			if r.chance(50) {
				a.Med = &api.MedAction{Type: api.MedAction_TYPE_MOD, Value: int64(r.pick(-100, -1, 0, 1, 100, 4294967295))}
			} else {
				a.Med = &api.MedAction{Type: api.MedAction_TYPE_REPLACE, Value: int64(r.pick(0, 1, 100, 4294967295))}
			}
		}
		if r.chance(35) {
			if r.chance(30) {
				a.AsPrepend = &api.AsPrependAction{UseLeftMost: true, Repeat: uint32(r.pick(1, 3, 255))}
			} else {
				a.AsPrepend = &api.AsPrependAction{Asn: vC18SPickU32(r, []uint32{1, 65001, 65536, 4294967295}), Repeat: uint32(r.pick(1, 3, 255))}
			}
		}
		if r.chance(35) {
			switch r.intn(5) {
			case 0:
				a.Nexthop = &api.NexthopAction{Self: true}
			case 1:
				a.Nexthop = &api.NexthopAction{Unchanged: true}
			case 2:
				a.Nexthop = &api.NexthopAction{PeerAddress: true}
			case 3:
				a.Nexthop = &api.NexthopAction{Address: "192.0.2.1"}
			default:
				a.Nexthop = &api.NexthopAction{Address: "2001:db8::1"}
			}
		}
		if r.chance(30) {
			a.LocalPref = &api.LocalPrefAction{Value: vC18SPickU32(r, []uint32{1, 100, 4294967295})}
		}
		if r.chance(30) {
			a.OriginAction = &api.OriginAction{Origin: api.OriginType(r.pick(int(api.OriginType_ORIGIN_TYPE_IGP), int(api.OriginType_ORIGIN_TYPE_EGP), int(api.OriginType_ORIGIN_TYPE_INCOMPLETE)))}
		}
		st.Actions = a
	}
	return st
}

// --- cases ---

func vC18SCompareExact(o *vOut, prefix, via string, sent, got proto.Message, ctxKey string, ctx proto.Message) {
	if proto.Equal(sent, got) {
		return
	}
	var diffs []vC18SDiffEntry
	vC18SDiff(sent.ProtoReflect(), got.ProtoReflect(), true, nil, &diffs)
	if len(diffs) == 0 {
		diffs = []vC18SDiffEntry{{path: "unequal", sent: vC18SJSON(sent), got: vC18SJSON(got)}}
	}
	// ListStatement (grpc_server.go toStatementApi) and ListPolicy (table/policy.go toStatementApi)
	// are two separate converters: a class is "<Message>.<field>@<reader>"
	for i := range diffs {
		diffs[i].path += "@" + via
	}
	vC18SReport(o, prefix, diffs, ctxKey, ctx, map[string]any{"via": via})
}

func vC18SDefinedSetCase(o *vOut, s *BgpServer, d *api.DefinedSet) {
	ctx := context.Background()
	o.stat("policy_definedset_cases", 1)
	o.stat("policy_definedset_"+d.DefinedType.String(), 1)
	sent := proto.Clone(d).(*api.DefinedSet)
	if err := s.AddDefinedSet(ctx, &api.AddDefinedSetRequest{DefinedSet: d}); err != nil {
		o.fail("policy-readback:DefinedSet.add-rejected", map[string]any{"err": err.Error(), "set": vC18SJSON(sent)})
		return
	}
	var got []*api.DefinedSet
	if err := s.ListDefinedSet(ctx, &api.ListDefinedSetRequest{DefinedType: sent.DefinedType, Name: sent.Name}, func(x *api.DefinedSet) { got = append(got, x) }); err != nil || len(got) != 1 {
		o.fail("policy-readback:DefinedSet.not-listed", map[string]any{"err": fmt.Sprint(err), "n": len(got), "set": vC18SJSON(sent)})
	} else {
		vC18SCompareExact(o, "policy-readback", "ListDefinedSet", vC18SNormDefinedSet(sent), vC18SNormDefinedSet(got[0]), "set", sent)
	}
	if err := s.DeleteDefinedSet(ctx, &api.DeleteDefinedSetRequest{DefinedSet: sent, All: true}); err != nil {
		o.fail("policy-readback:DefinedSet.delete-error", map[string]any{"err": err.Error(), "set": vC18SJSON(sent)})
	}
}

func vC18SStatementCase(o *vOut, s *BgpServer, st *api.Statement) {
	ctx := context.Background()
	o.stat("policy_statement_cases", 1)
	sent := proto.Clone(st).(*api.Statement)
	if err := s.AddStatement(ctx, &api.AddStatementRequest{Statement: st}); err != nil {
		o.fail("policy-readback:Statement.add-rejected", map[string]any{"err": err.Error(), "statement": vC18SJSON(sent)})
		return
	}
	var got []*api.Statement
	if err := s.ListStatement(ctx, &api.ListStatementRequest{Name: sent.Name}, func(x *api.Statement) { got = append(got, x) }); err != nil || len(got) != 1 {
		o.fail("policy-readback:Statement.not-listed", map[string]any{"err": fmt.Sprint(err), "n": len(got), "statement": vC18SJSON(sent)})
	} else {
		vC18SCompareExact(o, "policy-readback", "ListStatement", vC18SNormStatement(sent), vC18SNormStatement(got[0]), "statement", sent)
	}
	if err := s.DeleteStatement(ctx, &api.DeleteStatementRequest{Statement: sent, All: true}); err != nil {
		o.fail("policy-readback:Statement.delete-error", map[string]any{"err": err.Error(), "statement": vC18SJSON(sent)})
	}
}

func vC18SPolicyCase(o *vOut, s *BgpServer, p *api.Policy) {
	ctx := context.Background()
	o.stat("policy_policy_cases", 1)
	sent := proto.Clone(p).(*api.Policy)
	if err := s.AddPolicy(ctx, &api.AddPolicyRequest{Policy: p}); err != nil {
		o.fail("policy-readback:Policy.add-rejected", map[string]any{"err": err.Error(), "policy": vC18SJSON(sent)})
		return
	}
	var got []*api.Policy
	if err := s.ListPolicy(ctx, &api.ListPolicyRequest{Name: sent.Name}, func(x *api.Policy) { got = append(got, x) }); err != nil || len(got) != 1 {
		o.fail("policy-readback:Policy.not-listed", map[string]any{"err": fmt.Sprint(err), "n": len(got), "policy": vC18SJSON(sent)})
	} else if len(got[0].Statements) != len(sent.Statements) || got[0].Name != sent.Name {
		o.fail("policy-readback:Policy.statements", map[string]any{"got": vC18SJSON(got[0]), "policy": vC18SJSON(sent)})
	} else {
		for i := range sent.Statements {
			vC18SCompareExact(o, "policy-readback", "ListPolicy", vC18SNormStatement(sent.Statements[i]), vC18SNormStatement(got[0].Statements[i]), "statement", sent.Statements[i])
		}
	}
	if err := s.DeletePolicy(ctx, &api.DeletePolicyRequest{Policy: sent, All: true, PreserveStatements: false}); err != nil {
		o.fail("policy-readback:Policy.delete-error", map[string]any{"err": err.Error(), "policy": vC18SJSON(sent)})
	}
}

func vC18SPolicySetup(t *testing.T, s *BgpServer) {
	for _, d := range vC18SFixedSets {
		if err := s.AddDefinedSet(context.Background(), &api.AddDefinedSetRequest{DefinedSet: proto.Clone(d).(*api.DefinedSet)}); err != nil {
			t.Fatal(err)
		}
	}
}
