//go:build verif

package server

// C20 "stopping the server or deleting a peer terminates all of its goroutines and closes its
// connections, after any history" — the STOP MATRIX (exploration, oracle only).
//
// A real BgpServer with ONE peer whose REAL FSM goroutine is brought, over an in-memory connection handed
// in through passConnToPeer and a scripted remote speaker, into each session state
//     idle (admin down) · active · opensent · openconfirm · established · established with graceful restart
//     negotiated · restarting (GR session lost, restart timer running)
// and then every variant of the stop / delete / disable calls is applied:
//     StopBgp{} · StopBgp{AllowGracefulRestart} · DeletePeer · DisablePeer · ShutdownPeer ·
//     ResetPeer(hard) · ResetPeer(soft)            (the peer-level ones are followed by a StopBgp)
// Oracles (model independent): the process does not crash (the case runs in a child process; a panic in a
// bare FSM goroutine kills it and is reported as crash:<first line> with the case that was running), every
// call returns (20 s watchdog → api-call-hang), the connection is closed towards the remote speaker when
// the call promises it (→ connection-left-open), no goroutine is left after Stop (→ goroutine-leak).

import (
	"context"
	"errors"
	"fmt"
	"io"
	"net"
	"net/netip"
	"os"
	"runtime"
	"strconv"
	"sync/atomic"
	"syscall"
	"time"

	"github.com/osrg/gobgp/v4/api"
	"github.com/osrg/gobgp/v4/pkg/packet/bgp"
)

type c20StopConn struct {
	net.Conn
	closed atomic.Bool
	// slowEstablished: established() starts with conn.SetWriteDeadline(time.Time{}); holding that call
	// back keeps the FSM goroutine between "the peer is shown as ESTABLISHED" and "established() selects
	// on its channels" — the window in which an operator's request must not get lost (deterministic
	// replay of the lost ShutdownPeer/ResetPeer, see known_findings.json "fixed: property=C20 … lost-operator-notification")
	slowEstablished time.Duration
}

func (c *c20StopConn) SetWriteDeadline(t time.Time) error {
	if t.IsZero() && c.slowEstablished > 0 {
		time.Sleep(c.slowEstablished)
	}
	return c.Conn.SetWriteDeadline(t)
}

func (c *c20StopConn) RemoteAddr() net.Addr {
	return &net.TCPAddr{IP: net.IPv4(10, 9, 0, 2).To4(), Port: 179}
}
func (c *c20StopConn) LocalAddr() net.Addr {
	return &net.TCPAddr{IP: net.IPv4(10, 9, 0, 1).To4(), Port: 30000}
}

// SyscallConn: the FSM sets socket options (TTL, MSS, TOS) on accepted connections; there is no socket
func (c *c20StopConn) SyscallConn() (syscall.RawConn, error) {
	return nil, errors.New("verif: in-memory connection")
}

func (c *c20StopConn) Close() error {
	c.closed.Store(true)
	return c.Conn.Close()
}

var c20StopStates = []string{"idle", "active", "opensent", "openconfirm", "established", "established-gr", "restarting"}
var c20StopVariants = []string{"StopBgp", "StopBgp-AllowGracefulRestart", "DeletePeer", "DisablePeer", "ShutdownPeer", "ResetPeer-hard", "ResetPeer-soft"}

func c20RemoteOpen(gr bool) []byte {
	caps := []bgp.ParameterCapabilityInterface{bgp.NewCapMultiProtocol(bgp.RF_IPv4_UC), bgp.NewCapRouteRefresh(), bgp.NewCapFourOctetASNumber(65002)}
	if gr {
		caps = append(caps, bgp.NewCapGracefulRestart(false, true, 30, []*bgp.CapGracefulRestartTuple{bgp.NewCapGracefulRestartTuple(bgp.RF_IPv4_UC, true)}))
	}
	m, _ := bgp.NewBGPOpenMessage(65002, 90, netip.MustParseAddr("10.9.0.2"),
		[]bgp.OptionParameterInterface{bgp.NewOptionParameterCapability(caps)})
	b, _ := m.Serialize()
	return b
}

func (r *c20Run) stopCase(idx int, state, variant string) {
	name := state + "/" + variant
	fmt.Fprintf(os.Stdout, "C20-STOP-CASE %d %s\n", idx, name) // the parent quotes the last one when the child dies
	r.o.stat("stop_case_"+name, 1)
	time.Sleep(20 * time.Millisecond)
	before := len(c20Goroutines())
	ctx := context.Background()
	s := NewBgpServer()
	go s.Serve()
	r.do("StartBgp", func() error {
		return s.StartBgp(ctx, &api.StartBgpRequest{Global: &api.Global{Asn: 65001, RouterId: "10.9.0.1", ListenPort: -1}})
	})
	gr := state == "established-gr" || state == "restarting"
	addr := netip.MustParseAddr("10.9.0.2")
	peerReq := &api.AddPeerRequest{Peer: &api.Peer{
		Conf:      &api.PeerConf{NeighborAddress: addr.String(), PeerAsn: 65002, AdminDown: state == "idle"},
		Transport: &api.Transport{PassiveMode: true},
		Timers:    &api.Timers{Config: &api.TimersConfig{HoldTime: 90, KeepaliveInterval: 30}},
		AfiSafis: []*api.AfiSafi{{
			Config:            &api.AfiSafiConfig{Family: c20Family(), Enabled: true},
			MpGracefulRestart: &api.MpGracefulRestart{Config: &api.MpGracefulRestartConfig{Enabled: gr}},
		}},
	}}
	if gr {
		peerReq.Peer.GracefulRestart = &api.GracefulRestart{Enabled: true, RestartTime: 30, NotificationEnabled: true}
	}
	r.do("AddPeer", func() error { return s.AddPeer(ctx, peerReq) })
	var p *peer
	r.do("lookup", func() error { return s.mgmtOperation(func() error { p = s.neighborMap[addr]; return nil }, true) })
	if p == nil {
		r.fail("setup-failed", "stop matrix: peer not created for "+name)
		return
	}
	waitState := func(want bgp.FSMState, d time.Duration) bool {
		for end := time.Now().Add(d); time.Now().Before(end); time.Sleep(5 * time.Millisecond) {
			if p.fsm.state.Load() == want {
				return true
			}
		}
		return false
	}
	// the scripted remote speaker: drains whatever the server writes and notices the close
	var remote net.Conn
	var conn *c20StopConn
	remoteClosed := make(chan struct{})
	connect := func() {
		local, rem := net.Pipe()
		remote = rem
		conn = &c20StopConn{Conn: local}
		if state == "established" || state == "established-gr" {
			conn.slowEstablished = 300 * time.Millisecond
		}
		go func() {
			_, _ = io.Copy(io.Discard, rem)
			close(remoteClosed)
		}()
		r.do("passConn", func() error { return s.mgmtOperation(func() error { s.passConnToPeer(conn); return nil }, false) })
	}
	write := func(b []byte) {
		_ = remote.SetWriteDeadline(time.Now().Add(3 * time.Second))
		_, _ = remote.Write(b)
	}
	reached := true
	switch state {
	case "idle":
		reached = waitState(bgp.BGP_FSM_IDLE, time.Second)
	case "active":
		reached = waitState(bgp.BGP_FSM_ACTIVE, 3*time.Second)
	default:
		if !waitState(bgp.BGP_FSM_ACTIVE, 3*time.Second) {
			reached = false
			break
		}
		connect()
		reached = waitState(bgp.BGP_FSM_OPENSENT, 3*time.Second)
		if state == "opensent" || !reached {
			break
		}
		write(c20RemoteOpen(gr))
		reached = waitState(bgp.BGP_FSM_OPENCONFIRM, 3*time.Second)
		if state == "openconfirm" || !reached {
			break
		}
		write(c20PeerMsg("keepalive"))
		reached = waitState(bgp.BGP_FSM_ESTABLISHED, 3*time.Second)
		if state == "restarting" && reached {
			remote.Close() // the session is lost: read failure → graceful restart, the peer is "restarting"
			reached = waitState(bgp.BGP_FSM_ACTIVE, 3*time.Second) || waitState(bgp.BGP_FSM_IDLE, time.Second)
			if reached && !p.fsm.pConf.ReadOnly().GracefulRestart.State.PeerRestarting {
				r.o.stat("stop_state_restarting_without_flag", 1)
			}
		}
	}
	if !reached {
		r.o.stat("stop_state_not_reached_"+state, 1)
		r.fail("setup-failed", fmt.Sprintf("stop matrix %s: the peer did not reach the state (now %s)", name, p.fsm.state.Load()))
	}
	hadConn := conn != nil && state != "restarting"
	// ---- the call under test
	a := addr.String()
	expectClose := true
	switch variant {
	case "StopBgp":
		r.do(variant, func() error { return s.StopBgp(ctx, &api.StopBgpRequest{}) })
	case "StopBgp-AllowGracefulRestart":
		r.do(variant, func() error { return s.StopBgp(ctx, &api.StopBgpRequest{AllowGracefulRestart: true}) })
	case "DeletePeer":
		r.do(variant, func() error { return s.DeletePeer(ctx, &api.DeletePeerRequest{Address: a}) })
	case "DisablePeer":
		r.do(variant, func() error { return s.DisablePeer(ctx, &api.DisablePeerRequest{Address: a, Communication: "verif"}) })
	case "ShutdownPeer":
		// ShutdownPeer / ResetPeer queue a Cease that only an ESTABLISHED session sends (by design a
		// session that is still coming up is left alone): the close is promised for established only
		expectClose = state == "established" || state == "established-gr"
		r.do(variant, func() error { return s.ShutdownPeer(ctx, &api.ShutdownPeerRequest{Address: a, Communication: "verif"}) })
	case "ResetPeer-hard":
		expectClose = state == "established" || state == "established-gr"
		r.do(variant, func() error { return s.ResetPeer(ctx, &api.ResetPeerRequest{Address: a, Communication: "verif"}) })
	case "ResetPeer-soft":
		expectClose = false
		r.do(variant, func() error {
			return s.ResetPeer(ctx, &api.ResetPeerRequest{Address: a, Soft: true, Direction: api.ResetPeerRequest_DIRECTION_BOTH})
		})
	}
	if r.wedged.Load() {
		return
	}
	closedInTime := func() bool {
		select {
		case <-remoteClosed:
			return true
		case <-time.After(4 * time.Second):
			return false
		}
	}
	if hadConn && expectClose && !closedInTime() {
		r.fail("connection-left-open", map[string]any{"case": name, "after": variant, "state_now": p.fsm.state.Load().String()})
	}
	// ---- and the server is stopped afterwards, alternating the two flavours
	if variant != "StopBgp" && variant != "StopBgp-AllowGracefulRestart" {
		allow := len(name)%2 == 0
		r.do("StopBgp-after", func() error { return s.StopBgp(ctx, &api.StopBgpRequest{AllowGracefulRestart: allow}) })
	}
	r.do("Stop", func() error { s.Stop(); return nil })
	if r.wedged.Load() {
		return
	}
	if hadConn && !closedInTime() {
		r.fail("connection-left-open", map[string]any{"case": name, "after": "StopBgp", "state_now": p.fsm.state.Load().String()})
	}
	if remote != nil {
		remote.Close()
	}
	var after []string
	for i := 0; i < 60; i++ {
		after = c20Goroutines()
		if len(after) <= before {
			break
		}
		time.Sleep(50 * time.Millisecond)
	}
	if len(after) > before {
		extra := after
		if len(extra) > 4 {
			extra = extra[:4]
		}
		for i := range extra {
			extra[i] = c20Trunc(extra[i], 1200)
		}
		r.fail("goroutine-leak", map[string]any{"case": name, "before": before, "after": len(after), "stacks": extra})
	}
}

func c20StopMatrix(r *c20Run) {
	runtime.GOMAXPROCS(4)
	from, _ := strconv.Atoi(os.Getenv("C20_STOP_FROM"))
	idx := -1
	for _, st := range c20StopStates {
		for _, v := range c20StopVariants {
			peerLevel := v != "StopBgp" && v != "StopBgp-AllowGracefulRestart"
			if !r.o.thorough && peerLevel && st != "established" && st != "established-gr" {
				continue // quick tier: both StopBgp flavours in every state, every call in the two established states
			}
			idx++
			if idx < from {
				continue
			}
			if r.wedged.Load() {
				return
			}
			r.stopCase(idx, st, v)
		}
	}
}
