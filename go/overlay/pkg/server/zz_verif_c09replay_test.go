//go:build verif

package server

// C09 correspondence harness, part 3 (package server): the inbound loop checks over TIME.
//
// A real BgpServer (StartBgp, AddPeer through the API, no sockets: passive peers, ListenPort -1)
// receives generated histories of UPDATEs per peer through the very code the server runs for a
// received UPDATE (handleUpdate, then propagateUpdate — what handleFSMMessage does), interleaved
// with every way the stored Adj-RIB-In is replayed into the Loc-RIB later:
//   soft reset in of one peer / of all peers (ResetPeer API), an import-policy change followed by a
//   soft reset in (SetPolicyAssignment REJECT -> ACCEPT), and StaleAll + propagateUpdate (what
//   handleFSMMessage does when a peer goes down under graceful restart).
// After every step the Adj-RIB-In of the peer (accepted / rejected listing, accepted counter) and,
// after every replay, what the Loc-RIB holds from each peer are compared with the Lean model
// (Model/ExportReplay.lean: recvAnnounce, recvWithdraw, replayList, acceptedCount).
// Independently of the model the property is restated on the implementation: a route that fails a
// loop check (own AS / confederation identifier beyond allow-own-as in whatever segment types; own
// router id as ORIGINATOR_ID on an iBGP session) is stored as rejected, is not counted as
// accepted, is not in the Loc-RIB now, and is not in the Loc-RIB after any replay.

import (
	"context"
	"fmt"
	"net/netip"
	"slices"
	"sort"
	"strings"
	"testing"
	"time"

	"github.com/osrg/gobgp/v4/api"
	"github.com/osrg/gobgp/v4/internal/pkg/table"
	"github.com/osrg/gobgp/v4/pkg/config/oc"
	"github.com/osrg/gobgp/v4/pkg/packet/bgp"
)

type c09rLatest struct {
	marker uint32 // MED of the announcement: identifies which version is where
	check  string // "" = passes the loop checks, else the check it fails
}

type c09rPeer struct {
	id     int
	addr   netip.Addr
	kind   string
	p      *peer
	latest map[int]c09rLatest // per prefix key: the latest un-withdrawn announcement
}

type c09rWorld struct {
	t     *testing.T
	o     *vOut
	r     *vRand
	s     *BgpServer
	g     *oc.Global
	peers []*c09rPeer
	seq   uint32
	hist  []string // the events so far, for replay by hand
}

var c09rFams = []bgp.Family{bgp.RF_IPv4_UC}

func c09rPrefix(key int) netip.Prefix {
	return netip.MustParsePrefix(fmt.Sprintf("10.%d.0.0/16", 100+key))
}

func c09rKey(p *table.Path) int {
	var a, b int
	fmt.Sscanf(p.GetNlri().String(), "%d.%d.", &a, &b)
	return b - 100
}

func (w *c09rWorld) mgmt(f func()) {
	if err := w.s.mgmtOperation(func() error { f(); return nil }, false); err != nil {
		w.t.Fatal(err)
	}
}

func c09rNewWorld(t *testing.T, o *vOut, r *vRand) *c09rWorld {
	w := &c09rWorld{t: t, o: o, r: r}
	w.s = NewBgpServer()
	go w.s.Serve()
	glob := &api.Global{Asn: uint32(r.pick(65000, 65000, 100)), RouterId: fmt.Sprintf("10.255.0.%d", 1+r.intn(3)), ListenPort: -1}
	if r.chance(35) {
		glob.Confederation = &api.Confederation{Enabled: true, Identifier: uint32(r.pick(500, 500, int(glob.Asn))), MemberAsList: []uint32{65001, 65002}}
	}
	if err := w.s.StartBgp(context.Background(), &api.StartBgpRequest{Global: glob}); err != nil {
		t.Fatal(err)
	}
	n := 3 + r.intn(3)
	for i := 0; i < n; i++ {
		rp := &c09rPeer{id: i, addr: c09IP(10, 0, 0, 10+i), latest: map[int]c09rLatest{}}
		pr := &api.Peer{
			Conf:      &api.PeerConf{NeighborAddress: rp.addr.String(), AllowOwnAsn: uint32(r.pick(0, 0, 1, 2))},
			Transport: &api.Transport{PassiveMode: true},
		}
		switch k := r.intn(10); {
		case k < 4:
			rp.kind = "ebgp"
			pr.Conf.PeerAsn = uint32(r.pick(65010, 65011, 200))
		case k < 5 && glob.Confederation != nil:
			rp.kind = "ebgp-confed-member"
			pr.Conf.PeerAsn = 65001
			if glob.Asn == 65001 {
				pr.Conf.PeerAsn = 65002
			}
		case k < 8:
			rp.kind = "ibgp"
			pr.Conf.PeerAsn = glob.Asn
		default:
			rp.kind = "rr-client"
			pr.Conf.PeerAsn = glob.Asn
			pr.RouteReflector = &api.RouteReflector{RouteReflectorClient: true}
		}
		// the session's local AS and the peer's AS / type in both of the ways the code can learn them:
		// a per-neighbor local-as override, and a neighbor without configured peer-as whose AS and
		// type are set when the session is established (what fsm.stateChange(ESTABLISHED) does)
		if rp.kind == "ebgp" && r.chance(25) {
			pr.Conf.LocalAsn = 65020
			rp.kind += "+local-as"
		}
		remoteAS := pr.Conf.PeerAsn
		learned := (strings.HasPrefix(rp.kind, "ebgp") && rp.kind != "ebgp-confed-member" || rp.kind == "ibgp") && r.chance(30)
		if learned {
			pr.Conf.PeerAsn = 0
			rp.kind += "+as-from-open"
		}
		if err := w.s.AddPeer(context.Background(), &api.AddPeerRequest{Peer: pr}); err != nil {
			t.Fatalf("AddPeer: %v", err)
		}
		w.mgmt(func() {
			rp.p = w.s.neighborMap[rp.addr]
			if learned {
				rp.p.fsm.lock.Lock()
				c := rp.p.fsm.pConf.ReadCopy()
				c.State.PeerAs = remoteAS
				c.State.PeerType = oc.PEER_TYPE_EXTERNAL
				if c.Config.LocalAs == remoteAS {
					c.State.PeerType = oc.PEER_TYPE_INTERNAL
				}
				rp.p.fsm.pConf.Update(&c)
				rp.p.fsm.lock.Unlock()
			}
			conf := rp.p.fsm.pConf.ReadOnly()
			w.g = rp.p.fsm.gConf
			rp.p.peerInfo.Store(table.NewPeerInfo(w.g, conf, conf.State.PeerAs, conf.Config.LocalAs,
				c09IP(10, 1, 0, 10+i), w.g.Config.RouterId, rp.addr, c09IP(10, 0, 0, 1)))
		})
		w.peers = append(w.peers, rp)
		o.stat("replay_peer_"+rp.kind, 1)
	}
	o.op("%s", c09GlobalDef(w.g))
	o.op("inreset")
	return w
}

func (w *c09rWorld) stop() {
	w.s.StopBgp(context.Background(), &api.StopBgpRequest{})
	w.s.Stop()
}

// the check a route from this peer fails, restated from the property (not from the code)
func (w *c09rWorld) expect(rp *c09rPeer, attrs []bgp.PathAttributeInterface) string {
	conf := rp.p.fsm.pConf.ReadOnly()
	var aspath *bgp.PathAttributeAsPath
	if a := c09FindAttr(attrs, bgp.BGP_ATTR_TYPE_AS_PATH); a != nil {
		aspath = a.(*bgp.PathAttributeAsPath)
	}
	cnt := 0
	for _, as := range append(c09AllAS(aspath, false), c09AllAS(aspath, true)...) {
		if as == conf.Config.LocalAs || (w.g.Confederation.Config.Enabled && as == w.g.Confederation.Config.Identifier) {
			cnt++
		}
	}
	if cnt > int(conf.AsPathOptions.Config.AllowOwnAs) {
		return "own-as"
	}
	if a := c09FindAttr(attrs, bgp.BGP_ATTR_TYPE_ORIGINATOR_ID); a != nil && conf.State.PeerType == oc.PEER_TYPE_INTERNAL &&
		a.(*bgp.PathAttributeOriginatorId).Value == w.g.Config.RouterId {
		return "originator-id"
	}
	return ""
}

// a generated announcement: clean, or looping through the own AS / confederation identifier in
// any mix of segment types, or carrying the own router id as ORIGINATOR_ID
func (w *c09rWorld) attrs(rp *c09rPeer) []bgp.PathAttributeInterface {
	r := w.r
	conf := rp.p.fsm.pConf.ReadOnly()
	w.seq++
	others := []uint32{300, 400, 64512, 70000, 23456}
	pick := func() uint32 { return others[r.intn(len(others))] }
	params := []bgp.AsPathParamInterface{}
	if conf.State.PeerType == oc.PEER_TYPE_EXTERNAL || r.chance(60) {
		first := []uint32{}
		if conf.State.PeerType == oc.PEER_TYPE_EXTERNAL {
			first = append(first, conf.State.PeerAs)
		}
		for i := r.intn(3); i > 0; i-- {
			first = append(first, pick())
		}
		if len(first) > 0 {
			st := uint8(bgp.BGP_ASPATH_ATTR_TYPE_SEQ)
			if rp.kind == "ebgp-confed-member" {
				st = bgp.BGP_ASPATH_ATTR_TYPE_CONFED_SEQ
			}
			params = append(params, bgp.NewAs4PathParam(st, first))
		}
	}
	loop := r.chance(50)
	if loop {
		own := conf.Config.LocalAs
		if w.g.Confederation.Config.Enabled && r.chance(35) {
			own = w.g.Confederation.Config.Identifier
		}
		c := r.pick(1, 1, 2, 2, 3)
		nseg := r.pick(1, 1, 2)
		for sgi := 0; sgi < nseg; sgi++ {
			typ := uint8(r.pick(2, 2, 1, 3, 4))
			as := []uint32{}
			k := c / nseg
			if sgi == 0 {
				k += c % nseg
			}
			for i := 0; i < k; i++ {
				as = append(as, own)
				if r.chance(40) {
					as = append(as, pick())
				}
			}
			if len(as) == 0 {
				as = append(as, pick())
			}
			if r.chance(50) {
				as = append([]uint32{pick()}, as...)
			}
			params = append(params, bgp.NewAs4PathParam(typ, as))
		}
	}
	if r.chance(40) {
		params = append(params, bgp.NewAs4PathParam(uint8(r.pick(2, 1)), []uint32{pick(), pick()}))
	}
	nh, _ := bgp.NewPathAttributeNextHop(rp.addr)
	attrs := []bgp.PathAttributeInterface{bgp.NewPathAttributeOrigin(uint8(r.intn(3))), bgp.NewPathAttributeAsPath(params), nh,
		bgp.NewPathAttributeMultiExitDisc(w.seq)}
	if conf.State.PeerType == oc.PEER_TYPE_INTERNAL {
		attrs = append(attrs, bgp.NewPathAttributeLocalPref(100))
	}
	if r.chance(30) {
		id := c09IP(10, 1, 0, 77)
		if r.chance(60) {
			id = w.g.Config.RouterId
		}
		a, _ := bgp.NewPathAttributeOriginatorId(id)
		attrs = append(attrs, a)
		cl, _ := bgp.NewPathAttributeClusterList([]netip.Addr{c09IP(10, 253, 0, 9)})
		attrs = append(attrs, cl)
	}
	return attrs
}

func c09rList(l []int) string {
	sort.Ints(l)
	s := make([]string, len(l))
	for i, v := range l {
		s[i] = fmt.Sprint(v)
	}
	return strings.Join(s, ",")
}

// the peer's Adj-RIB-In as the model renders it, plus oracle (a)
func (w *c09rWorld) adjDump(rp *c09rPeer, where string) string {
	var acc, rej []int
	n := 0
	flags := map[int]bool{}
	w.mgmt(func() {
		for _, p := range rp.p.adjRibIn.PathList(c09rFams, false) {
			k := c09rKey(p)
			flags[k] = p.IsRejected()
			if p.IsRejected() {
				rej = append(rej, k)
			} else {
				acc = append(acc, k)
			}
		}
		n = rp.p.adjRibIn.Accepted(c09rFams)
	})
	want := 0
	for k, l := range rp.latest {
		if l.check == "" {
			want++
		}
		f, stored := flags[k]
		switch {
		case !stored:
			w.o.fail("inbound:received-route-not-stored", w.detail(rp, where, k))
		case l.check != "" && !f:
			w.o.fail("inbound:loop-rejected-route-stored-as-accepted:"+l.check, w.detail(rp, where, k))
		case l.check == "" && f:
			w.o.fail("inbound:clean-route-stored-as-rejected", w.detail(rp, where, k))
		}
	}
	if n != want {
		d := w.detail(rp, where, -1)
		d["accepted_counter"], d["routes_passing_the_checks"] = n, want
		w.o.fail("inbound:accepted-count-includes-loop-rejected", d)
	}
	return fmt.Sprintf("acc[%s] rej[%s] n=%d", c09rList(acc), c09rList(rej), n)
}

func (w *c09rWorld) detail(rp *c09rPeer, where string, key int) map[string]any {
	h := w.hist
	if len(h) > 60 {
		h = h[len(h)-60:]
	}
	return map[string]any{"global": c09GlobalDef(w.g), "peer": rp.id, "peer_kind": rp.kind, "after": where, "prefix_key": key,
		"history": slices.Clone(h)}
}

// what the Loc-RIB holds from the peer: prefix key -> marker
func (w *c09rWorld) locRibFrom(rp *c09rPeer) map[int]uint32 {
	m := map[int]uint32{}
	w.mgmt(func() {
		for _, p := range w.s.globalRib.GetPathList(table.GLOBAL_RIB_NAME, 0, c09rFams) {
			if p.GetSource().Address == rp.addr {
				med, _ := p.GetMed()
				m[c09rKey(p)] = med
			}
		}
	})
	return m
}

// oracle (b) (and its "now" form): the Loc-RIB holds from every peer exactly the latest
// announcements that pass the loop checks. importRejectAll: the import policy rejects everything.
func (w *c09rWorld) checkLocRib(where string, replay bool, importRejectAll bool) {
	for _, rp := range w.peers {
		got := w.locRibFrom(rp)
		keys := []int{}
		for k := range got {
			keys = append(keys, k)
		}
		if replay {
			w.o.ask("used["+c09rList(keys)+"]", "inreplay %d", rp.id)
		}
		for k, l := range rp.latest {
			med, in := got[k]
			switch {
			case l.check != "" && in && med == l.marker:
				cls := "inbound:loop-rejected-route-used:" + l.check
				if replay {
					cls = "inbound:loop-rejected-route-used-after-replay:" + l.check
				}
				w.o.fail(cls, w.detail(rp, where, k))
			case l.check == "" && !importRejectAll && (!in || med != l.marker):
				w.o.fail("inbound:accepted-route-not-in-loc-rib", w.detail(rp, where, k))
			}
		}
		for k, med := range got {
			if l, ok := rp.latest[k]; !ok || l.marker != med {
				w.o.fail("inbound:loc-rib-holds-replaced-or-withdrawn-route", w.detail(rp, where, k))
			}
		}
	}
}

func (w *c09rWorld) receive(rp *c09rPeer, msg *bgp.BGPMessage) (handed string) {
	w.mgmt(func() {
		pathList, _, isLimit := rp.p.handleUpdate(&fsmMsg{MsgType: fsmMsgBGPMessage, MsgData: msg, timestamp: time.Unix(int64(100000+w.seq), 0)})
		if isLimit {
			w.t.Fatal("prefix limit")
		}
		handed = "none"
		if len(pathList) == 1 {
			handed = "announce"
			if pathList[0].IsWithdraw {
				handed = "withdraw"
			}
		}
		if len(pathList) > 0 {
			w.s.propagateUpdate(rp.p, pathList)
		}
	})
	return handed
}

func (w *c09rWorld) announce(rp *c09rPeer, key int) { w.announceWith(rp, key, w.attrs(rp)) }

// fixed-shape AS_PATH announcement for the corpus: `own` occurrences of the session's local AS
func (w *c09rWorld) corpusAttrs(rp *c09rPeer, own int) []bgp.PathAttributeInterface {
	conf := rp.p.fsm.pConf.ReadOnly()
	w.seq++
	as := []uint32{}
	if conf.State.PeerType == oc.PEER_TYPE_EXTERNAL {
		as = append(as, conf.State.PeerAs)
	}
	for i := 0; i < own; i++ {
		as = append(as, conf.Config.LocalAs)
	}
	as = append(as, 64999)
	nh, _ := bgp.NewPathAttributeNextHop(rp.addr)
	return []bgp.PathAttributeInterface{bgp.NewPathAttributeOrigin(0),
		bgp.NewPathAttributeAsPath([]bgp.AsPathParamInterface{bgp.NewAs4PathParam(bgp.BGP_ASPATH_ATTR_TYPE_SEQ, as)}), nh,
		bgp.NewPathAttributeMultiExitDisc(w.seq), bgp.NewPathAttributeLocalPref(100)}
}

func (w *c09rWorld) announceWith(rp *c09rPeer, key int, attrs []bgp.PathAttributeInterface) {
	conf := rp.p.fsm.pConf.ReadOnly()
	nl, _ := bgp.NewIPAddrPrefix(c09rPrefix(key))
	rt := &c09Route{attrs: attrs, nlri: nl}
	rt.path = table.NewPath(bgp.RF_IPv4_UC, rp.p.peerInfo.Load(), bgp.PathNLRI{NLRI: nl}, false, attrs, time.Unix(1, 0), false)
	def := rt.def()
	w.o.op("path %s", def)
	check := w.expect(rp, attrs)
	rp.latest[key] = c09rLatest{marker: w.seq, check: check}
	ev := fmt.Sprintf("peer %d (%s, local-as %d, allow-own-as %d) announces key %d: %s", rp.id, rp.kind, conf.Config.LocalAs,
		conf.AsPathOptions.Config.AllowOwnAs, key, c09AttrsR(attrs))
	w.hist = append(w.hist, ev)
	handed := w.receive(rp, bgp.NewBGPUpdateMessage(nil, attrs, []bgp.PathNLRI{{NLRI: nl}}))
	if check == "" {
		w.o.stat("replay_recv_clean", 1)
	} else {
		w.o.stat("replay_recv_loop_"+check, 1)
	}
	w.o.ask(handed+" "+w.adjDump(rp, ev), "inrecv %d %d %d %d %d", rp.id, key, conf.Config.LocalAs, conf.AsPathOptions.Config.AllowOwnAs,
		c09B(conf.State.PeerType == oc.PEER_TYPE_INTERNAL))
	if check != "" && handed == "announce" {
		w.o.fail("inbound:loop-rejected-route-handed-on:"+check, w.detail(rp, ev, key))
	}
	w.checkLocRib(ev, false, false)
}

func (w *c09rWorld) withdraw(rp *c09rPeer, key int) {
	nl, _ := bgp.NewIPAddrPrefix(c09rPrefix(key))
	delete(rp.latest, key)
	w.seq++
	ev := fmt.Sprintf("peer %d withdraws key %d", rp.id, key)
	w.hist = append(w.hist, ev)
	w.receive(rp, bgp.NewBGPUpdateMessage([]bgp.PathNLRI{{NLRI: nl}}, nil, nil))
	w.o.stat("replay_recv_withdraw", 1)
	w.o.ask(w.adjDump(rp, ev), "inwd %d %d", rp.id, key)
	w.checkLocRib(ev, false, false)
}

func (w *c09rWorld) softIn(addr string) {
	if err := w.s.ResetPeer(context.Background(), &api.ResetPeerRequest{Address: addr, Soft: true, Direction: api.ResetPeerRequest_DIRECTION_IN}); err != nil {
		w.t.Fatalf("ResetPeer: %v", err)
	}
}

func (w *c09rWorld) importDefault(a api.RouteAction) {
	if err := w.s.SetPolicyAssignment(context.Background(), &api.SetPolicyAssignmentRequest{Assignment: &api.PolicyAssignment{
		Name: table.GLOBAL_RIB_NAME, Direction: api.PolicyDirection_POLICY_DIRECTION_IMPORT, DefaultAction: a}}); err != nil {
		w.t.Fatalf("SetPolicyAssignment: %v", err)
	}
}

func (w *c09rWorld) replay(kind int) {
	rp := w.peers[w.r.intn(len(w.peers))]
	switch kind {
	case 0:
		ev := fmt.Sprintf("REPLAY soft reset in of peer %d", rp.id)
		w.hist = append(w.hist, ev)
		w.softIn(rp.addr.String())
		w.o.stat("replay_soft_in_peer", 1)
		w.checkLocRib(ev, true, false)
	case 1:
		ev := "REPLAY soft reset in of all peers"
		w.hist = append(w.hist, ev)
		w.softIn("all")
		w.o.stat("replay_soft_in_all", 1)
		w.checkLocRib(ev, true, false)
	case 2:
		ev := "REPLAY import policy default REJECT + soft reset in"
		w.hist = append(w.hist, ev)
		w.importDefault(api.RouteAction_ROUTE_ACTION_REJECT)
		w.softIn("all")
		w.checkLocRib(ev, false, true)
		ev = "REPLAY import policy default ACCEPT + soft reset in"
		w.hist = append(w.hist, ev)
		w.importDefault(api.RouteAction_ROUTE_ACTION_ACCEPT)
		w.softIn("all")
		w.o.stat("replay_policy_change_soft_in", 1)
		w.checkLocRib(ev, true, false)
	case 3:
		ev := fmt.Sprintf("REPLAY StaleAll of peer %d + propagateUpdate (peer down under graceful restart)", rp.id)
		w.hist = append(w.hist, ev)
		w.mgmt(func() { w.s.propagateUpdate(rp.p, rp.p.StaleAll(c09rFams)) })
		w.o.stat("replay_stale_all", 1)
		w.o.ask(w.adjDump(rp, ev), "indump %d", rp.id) // the stored flags survive the stale clones
		w.checkLocRib(ev, true, false)
	}
}

func TestVerifC09Replay(t *testing.T) {
	o := vOpen(t)
	defer o.close()
	r := &vRand{s: o.seed*15485863 + 5}
	nWorlds, nEvents := 30, 40
	if o.thorough {
		nWorlds = 250
	}
	for wi := 0; wi < nWorlds; wi++ {
		w := c09rNewWorld(t, o, r)
		if wi == 0 {
			// corpus: the order of events of the seeded change C09-J — a clean announcement, a looped
			// one replacing it, then a soft reset in
			for _, rp := range w.peers {
				allow := int(rp.p.fsm.pConf.ReadOnly().AsPathOptions.Config.AllowOwnAs)
				w.announceWith(rp, 0, w.corpusAttrs(rp, 0))
				w.announceWith(rp, 0, w.corpusAttrs(rp, allow+1))
				w.announceWith(rp, 1, w.corpusAttrs(rp, allow))
				w.announceWith(rp, 2, w.corpusAttrs(rp, allow+2))
			}
			for k := 0; k < 4; k++ {
				w.replay(1)
				w.replay(k)
			}
		}
		for e := 0; e < nEvents; e++ {
			rp := w.peers[r.intn(len(w.peers))]
			key := r.intn(4)
			if _, has := rp.latest[key]; has && r.chance(20) {
				w.withdraw(rp, key)
			} else {
				w.announce(rp, key)
			}
			if r.chance(25) {
				w.replay(r.intn(4))
			}
		}
		for k := 0; k < 4; k++ {
			w.replay(k)
		}
		if wi < 2 {
			o.sample(strings.Join(w.hist[:min(len(w.hist), 4)], " ; "))
		}
		w.stop()
	}
}
