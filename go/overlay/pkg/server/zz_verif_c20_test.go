//go:build verif

package server

// C20 part (i)/(ii): lock-order and lockset facts extracted from the SOURCE of pkg/server and
// internal/pkg/table on every run (T-gen, trusted translator) and compared with the table the Lean
// theorems are about (lean/Model/LockEdges.lean).
//
// The extractor is an abstract interpreter over the Go AST (go/parser + go/types with a stub importer):
// it walks every function top-down from the entry points, carrying the set of lock classes that MAY be
// held and the set that MUST be held, descends into callees (static calls, interface calls by method
// name, closures bound to parameters / locals / struct fields, deferred calls), and records
//   * an edge (held class/mode -> acquired class/mode) at every Lock/RLock reached with a lock held,
//   * the must-set at every access to a guarded field and at every call of a function whose comment
//     demands a lock,
//   * functions that may return while still holding a lock they acquired.
// Everything it cannot resolve that could matter is reported loudly ("extractor-unknown-shape").

import (
	"fmt"
	"go/ast"
	"go/build"
	"go/parser"
	"go/token"
	"go/types"
	"os"
	"path/filepath"
	"regexp"
	"sort"
	"strings"
	"testing"
)

// ---------------------------------------------------------------------------------------------
// configuration of the translator (explicit, small)

// lock classes: "Struct.field" of every sync.Mutex / sync.RWMutex field found in the two packages.
// Short names used in the protocol (anything not listed keeps its Struct.field name).
var c20Short = map[string]string{
	"sharedData.mu":               "shared",
	"sharedData.propagateBuckets": "bucket",
	"peer.routeRefreshInProgress": "refresh",
	"fsm.lock":                    "fsm",
	"BgpServer.watcherMu":         "watcher",
	"zebraClient.cacheLock":       "zcache",
	"zebraClient.pathVrfMu":       "zpathvrf",
	"bfdServer.peersMutex":        "bfdpeers",
	"destinationShard.mu":         "shard",
	"TableManager.mu":             "tm",
	"RoutingPolicy.mu":            "policy",
	"VPNPathIndex.mu":             "vpnidx",
	"rtmSet.mu":                   "rtmset",
	"EVPNMacNLRIs.mu":             "evpnmac",
}

// channel hand-offs that behave like a lock acquisition for the caller: mgmtOperation(f) blocks until
// the Serve goroutine has taken shared.mu (write) and run f.  (f itself is reached through the
// mgmtOp.f field from handleMGMTOp, under the lock Serve takes.)
var c20Handoff = map[string]string{"BgpServer.mgmtOperation": "sharedData.mu"}

// callees whose function-typed argument runs later on another goroutine (not under the caller's locks)
var c20Async = map[string]bool{"time.AfterFunc": true}

// function values the translator cannot trace that are called with a lock held, each with the reason
// it is harmless; anything else of that shape is reported loudly.
var c20UntracedOK = map[string]bool{
	// event filters of a watcher: closures created by the WatchOption functions, also analysed where they are created
	"BgpServer.notifyWatcher calls f": true,
	// WatchOption functions given by the API user (or the in-package constructors watchXxx): set fields of watchOptions
	"BgpServer.watch calls opt": true,
}

// guarded fields (ii): accesses are recorded with the must-held set
var c20Guarded = map[string]string{
	"peer.sentPaths":            "sentPaths",
	"peer.prefixLimitWarned":    "prefixLimitWarned",
	"peer.llgrEndChs":           "llgrEndChs",
	"destination.knownPathList": "knownPathList",
}

// functions whose doc comment demands a lock: calls are recorded with the must-held set
var c20Requires = map[string]string{
	"pConfAccess.Update":           "pconfUpdate",
	"peer.isPrefixLimit":           "isPrefixLimit",
	"peer.updatePrefixLimitConfig": "updatePrefixLimitConfig",
	"Table.getOrCreateDest":        "getOrCreateDest",
	"Table.deleteDest":             "deleteDest",
	"TableManager.getTables":       "getTables",
}

// ---------------------------------------------------------------------------------------------

type c20Fn struct {
	name string // "Recv.Method" or "func"
	pkg  *c20Pkg
	decl *ast.FuncDecl
	obj  *types.Func
}

type c20Pkg struct {
	defs  map[types.Object]*c20Def
	name  string
	fset  *token.FileSet
	files []*ast.File
	info  *types.Info
	tpkg  *types.Package
}

// a function value: a closure (literal + environment) or a declared function
type c20Val struct {
	creatorMust uint64 // literal: locks known to be held by the CALLER of the declared function that created it
	lit         *ast.FuncLit
	env         *c20Env
	fn          *c20Fn
	pkg         *c20Pkg
}

func (v *c20Val) id() string {
	if v.fn != nil {
		return "F" + v.fn.name
	}
	return fmt.Sprintf("L%d{%s}", v.lit.Pos(), v.env.key())
}

// environment: constant booleans and function values bound to parameters / locals
type c20Env struct {
	bools     map[types.Object]bool
	funcs     map[types.Object][]*c20Val
	outerMust uint64 // for the body of a literal: entry must-set of the declared function that created it
	hasOuter  bool
	priv      map[types.Object]bool // variables known to denote an object created in this call chain and not yet shared
}

func newC20Env() *c20Env {
	return &c20Env{bools: map[types.Object]bool{}, funcs: map[types.Object][]*c20Val{}, priv: map[types.Object]bool{}}
}
func (e *c20Env) clone() *c20Env {
	n := newC20Env()
	if e == nil {
		return n
	}
	for k, v := range e.bools {
		n.bools[k] = v
	}
	for k, v := range e.funcs {
		n.funcs[k] = v
	}
	for k, v := range e.priv {
		n.priv[k] = v
	}
	n.outerMust, n.hasOuter = e.outerMust, e.hasOuter
	return n
}
func (e *c20Env) key() string {
	if e == nil {
		return ""
	}
	var parts []string
	for k, v := range e.bools {
		parts = append(parts, fmt.Sprintf("%d=%v", k.Pos(), v))
	}
	for k := range e.priv {
		parts = append(parts, fmt.Sprintf("%d=priv", k.Pos()))
	}
	if e.hasOuter {
		parts = append(parts, fmt.Sprintf("outer=%x", e.outerMust))
	}
	for k, vs := range e.funcs {
		ids := []string{}
		for _, v := range vs {
			if v.fn != nil {
				ids = append(ids, v.fn.name)
			} else {
				ids = append(ids, fmt.Sprint(v.lit.Pos()))
			}
		}
		sort.Strings(ids)
		parts = append(parts, fmt.Sprintf("%d=%s", k.Pos(), strings.Join(ids, ",")))
	}
	sort.Strings(parts)
	return strings.Join(parts, ";")
}

type c20Defer struct {
	pos  token.Pos
	call *ast.CallExpr
	env  *c20Env
	pkg  *c20Pkg
}

// path state
type c20State struct {
	may, must uint64
	own       uint64 // locks acquired in the current frame (for the leak check)
	defers    []*c20Defer
	dead      bool
}

func (s c20State) merge(o c20State) c20State {
	if s.dead {
		return o
	}
	if o.dead {
		return s
	}
	r := c20State{may: s.may | o.may, must: s.must & o.must, own: s.own | o.own}
	seen := map[token.Pos]bool{}
	for _, d := range append(append([]*c20Defer{}, s.defers...), o.defers...) {
		if !seen[d.pos] {
			seen[d.pos] = true
			r.defers = append(r.defers, d)
		}
	}
	sort.Slice(r.defers, func(i, j int) bool { return r.defers[i].pos < r.defers[j].pos })
	return r
}

type c20Edge struct{ held, acq int }

type c20Access struct {
	what  string // guarded field or required-lock function
	fn    string // function containing the access
	write bool
	must  uint64
	root  string
}

type c20X struct {
	pkgs           []*c20Pkg
	fns            map[*types.Func]*c20Fn
	byName         map[string][]*c20Fn // method name -> declared methods (interface dispatch)
	owner          map[*types.Var]string
	extField       map[types.Object]bool // fields / parameters whose declared type names an imported package
	mutex          map[string]bool       // class -> isRW
	lockNames      []string              // index/2 -> class
	lockIdx        map[string]int
	edges          map[c20Edge][]string // witnesses (call stacks)
	access         map[string]*c20Access
	leaks          map[string]string
	unknown        map[string]string
	fieldFns       map[*types.Var][]*c20Val
	memo           map[string]c20State
	inprog         map[string]bool
	stack          []string
	visited        map[*c20Fn]bool
	called         map[*c20Fn]bool
	asyncLits      []*c20Val
	asyncSeen      map[string]bool
	curRoot        string
	recording      bool
	stats          map[string]int
	changed        bool
	heldSite       map[int]string
	pendingUnbound string
	litOwner       map[token.Pos]string  // body position of a literal -> enclosing declared function
	liveParams     map[types.Object]bool // parameters of callbacks given to iterateAllDestinations
	aliasSum       map[*c20Fn]map[int]bool
	userCb         map[string]bool
}

func (x *c20X) bit(class string, mode byte) int {
	i, ok := x.lockIdx[class]
	if !ok {
		i = len(x.lockNames)
		x.lockIdx[class] = i
		x.lockNames = append(x.lockNames, class)
	}
	b := 2 * i
	if mode == 'R' {
		b++
	}
	return b
}

func (x *c20X) bitName(b int) string {
	c := x.lockNames[b/2]
	if s, ok := c20Short[c]; ok {
		c = s
	}
	if b%2 == 1 {
		return c + ":R"
	}
	return c + ":W"
}

func (x *c20X) setNames(m uint64) []string {
	out := []string{}
	for b := 0; b < 64; b++ {
		if m&(1<<uint(b)) != 0 {
			out = append(out, x.bitName(b))
		}
	}
	sort.Strings(out)
	return out
}

func (x *c20X) loud(kind, detail string) {
	k := kind + " " + detail
	if _, ok := x.unknown[k]; !ok {
		x.unknown[k] = strings.Join(x.stack, ">")
	}
}

// ---------------------------------------------------------------------------------------------
// loading

type c20Importer struct{ known map[string]*types.Package }

func (im *c20Importer) Import(path string) (*types.Package, error) {
	if p, ok := im.known[path]; ok {
		return p, nil
	}
	name := path[strings.LastIndex(path, "/")+1:]
	if m := regexp.MustCompile(`^v[0-9]+$`); m.MatchString(name) {
		rest := path[:strings.LastIndex(path, "/")]
		name = rest[strings.LastIndex(rest, "/")+1:]
	}
	name = strings.TrimPrefix(name, "go-")
	name = strings.ReplaceAll(name, "-", "_")
	p := types.NewPackage(path, name)
	p.MarkComplete()
	im.known[path] = p
	return p, nil
}

func c20Load(dir, importPath string, im *c20Importer) (*c20Pkg, error) {
	fset := token.NewFileSet()
	ents, err := os.ReadDir(dir)
	if err != nil {
		return nil, err
	}
	p := &c20Pkg{fset: fset}
	ctx := build.Default
	for _, e := range ents {
		n := e.Name()
		if !strings.HasSuffix(n, ".go") || strings.HasSuffix(n, "_test.go") {
			continue
		}
		if ok, _ := ctx.MatchFile(dir, n); !ok {
			continue
		}
		f, err := parser.ParseFile(fset, filepath.Join(dir, n), nil, parser.ParseComments)
		if err != nil {
			return nil, err
		}
		p.files = append(p.files, f)
	}
	if len(p.files) == 0 {
		return nil, fmt.Errorf("no source files in %s", dir)
	}
	p.name = p.files[0].Name.Name
	p.info = &types.Info{Types: map[ast.Expr]types.TypeAndValue{}, Defs: map[*ast.Ident]types.Object{},
		Uses: map[*ast.Ident]types.Object{}, Selections: map[*ast.SelectorExpr]*types.Selection{}}
	conf := types.Config{Importer: im, Error: func(error) {}, FakeImportC: true}
	p.tpkg, _ = conf.Check(importPath, fset, p.files, p.info)
	if p.tpkg == nil {
		return nil, fmt.Errorf("type check of %s produced no package", dir)
	}
	im.known[importPath] = p.tpkg
	return p, nil
}

var c20MutexRe = regexp.MustCompile(`^(\[[^\]]*\])?\*?sync\.(RW)?Mutex$`)

func (x *c20X) index(p *c20Pkg) {
	x.pkgs = append(x.pkgs, p)
	for _, f := range p.files {
		for _, d := range f.Decls {
			switch d := d.(type) {
			case *ast.FuncDecl:
				obj, _ := p.info.Defs[d.Name].(*types.Func)
				if obj == nil || d.Body == nil {
					continue
				}
				name := d.Name.Name
				if d.Recv != nil && len(d.Recv.List) > 0 {
					name = c20RecvName(d.Recv.List[0].Type) + "." + name
					x.byName[d.Name.Name] = append(x.byName[d.Name.Name], nil)
				}
				fn := &c20Fn{name: name, pkg: p, decl: d, obj: obj}
				x.fns[obj] = fn
				ast.Inspect(d, func(nd ast.Node) bool {
					if l, ok := nd.(*ast.FuncLit); ok {
						x.litOwner[l.Body.Pos()] = name
					}
					if c, ok := nd.(*ast.CallExpr); ok {
						if sel, ok := c.Fun.(*ast.SelectorExpr); ok && sel.Sel.Name == "iterateAllDestinations" {
							for _, a := range c.Args {
								if l, ok := a.(*ast.FuncLit); ok && l.Type.Params != nil {
									for _, fld := range l.Type.Params.List {
										for _, nm := range fld.Names {
											if o := p.info.Defs[nm]; o != nil {
												x.liveParams[o] = true
											}
										}
									}
								}
							}
						}
					}
					if ft, ok := nd.(*ast.FuncType); ok && ft.Params != nil {
						for _, fld := range ft.Params.List {
							if c20Qualified(p, fld.Type) {
								for _, nm := range fld.Names {
									if o := p.info.Defs[nm]; o != nil {
										x.extField[o] = true
									}
								}
							}
						}
					}
					return true
				})
				if d.Recv != nil {
					l := x.byName[d.Name.Name]
					l[len(l)-1] = fn
				}
			case *ast.GenDecl:
				for _, s := range d.Specs {
					ts, ok := s.(*ast.TypeSpec)
					if !ok {
						continue
					}
					st, ok := ts.Type.(*ast.StructType)
					if !ok {
						continue
					}
					for _, fld := range st.Fields.List {
						tstr := types.ExprString(fld.Type)
						isMu := c20MutexRe.MatchString(tstr)
						if isMu && len(fld.Names) == 0 {
							x.loud("embedded-mutex", ts.Name.Name)
						}
						for _, nm := range fld.Names {
							if v, ok := p.info.Defs[nm].(*types.Var); ok {
								if c20Qualified(p, fld.Type) {
									x.extField[v] = true
								}
								x.owner[v] = ts.Name.Name + "." + nm.Name
								if isMu {
									x.mutex[ts.Name.Name+"."+nm.Name] = strings.Contains(tstr, "RWMutex")
								}
							}
						}
					}
				}
			}
		}
	}
}

// c20Qualified: the type expression is (a pointer/slice/map of) pkg.T with pkg an imported package other than sync
func c20Qualified(p *c20Pkg, t ast.Expr) bool {
	switch t := t.(type) {
	case *ast.StarExpr:
		return c20Qualified(p, t.X)
	case *ast.IndexExpr:
		return c20Qualified(p, t.X)
	case *ast.IndexListExpr:
		return c20Qualified(p, t.X)
	case *ast.ArrayType:
		return c20Qualified(p, t.Elt)
	case *ast.MapType:
		return c20Qualified(p, t.Value)
	case *ast.ChanType:
		return c20Qualified(p, t.Value)
	case *ast.Ellipsis:
		return c20Qualified(p, t.Elt)
	case *ast.SelectorExpr:
		if id, ok := t.X.(*ast.Ident); ok {
			if pn, isPkg := p.info.Uses[id].(*types.PkgName); isPkg {
				return pn.Imported().Name() != "table" || p.name == "table"
			}
		}
	}
	return false
}

func c20RecvName(e ast.Expr) string {
	switch e := e.(type) {
	case *ast.StarExpr:
		return c20RecvName(e.X)
	case *ast.Ident:
		return e.Name
	case *ast.IndexExpr:
		return c20RecvName(e.X)
	case *ast.IndexListExpr:
		return c20RecvName(e.X)
	}
	return "?"
}

// ---------------------------------------------------------------------------------------------
// the interpreter

type c20Frame struct {
	entryMust uint64 // locks the caller is known to hold at entry
	decl      string // enclosing declared function
	pkg       *c20Pkg
	env       *c20Env
	exit      c20State // merge of the states at every return
	brk       []*c20State
	cont      []*c20State
	fnName    string
	results   *ast.FieldList
	retFuncs  []*c20Val // function values returned
}

// outerMust: the must-set at entry of the enclosing DECLARED function (a literal inherits its creator's)
func (fr *c20Frame) outerMust() uint64 {
	if fr.env != nil && fr.env.hasOuter {
		return fr.env.outerMust
	}
	return fr.entryMust
}

func (x *c20X) posStr(p *c20Pkg, pos token.Pos) string {
	ps := p.fset.Position(pos)
	return fmt.Sprintf("%s:%d", filepath.Base(ps.Filename), ps.Line)
}

// resolveLock maps the receiver expression of a Lock/Unlock call to a lock class.
func (x *c20X) resolveLock(fr *c20Frame, e ast.Expr, depth int) (string, bool) {
	if depth > 6 {
		return "", false
	}
	switch e := e.(type) {
	case *ast.ParenExpr:
		return x.resolveLock(fr, e.X, depth+1)
	case *ast.StarExpr:
		return x.resolveLock(fr, e.X, depth+1)
	case *ast.UnaryExpr:
		return x.resolveLock(fr, e.X, depth+1)
	case *ast.IndexExpr:
		return x.resolveLock(fr, e.X, depth+1)
	case *ast.SelectorExpr:
		if sel, ok := fr.pkg.info.Selections[e]; ok {
			if v, ok := sel.Obj().(*types.Var); ok {
				if c, ok := x.owner[v]; ok {
					if _, isMu := x.mutex[c]; isMu {
						return c, true
					}
				}
			}
		}
		return "", false
	case *ast.Ident:
		obj := fr.pkg.info.Uses[e]
		if obj == nil {
			obj = fr.pkg.info.Defs[e]
		}
		if obj == nil {
			return "", false
		}
		rhs, isRange, ok := x.defOf(fr.pkg, obj)
		if !ok || isRange {
			return "", false
		}
		return x.resolveLock(fr, rhs, depth+1)
	case *ast.CallExpr:
		// a function returning a lock: every return expression must resolve to the same class
		callee := x.staticCallee(fr, e)
		if callee == nil {
			return "", false
		}
		cls := ""
		ok := true
		cfr := &c20Frame{pkg: callee.pkg, env: newC20Env()}
		c20InspectNoLits(callee.decl.Body, func(nd ast.Node) {
			if r, isRet := nd.(*ast.ReturnStmt); isRet && len(r.Results) == 1 {
				c, rok := x.resolveLock(cfr, r.Results[0], depth+1)
				if !rok || (cls != "" && c != cls) {
					ok = false
				}
				cls = c
			}
		})
		return cls, ok && cls != ""
	}
	return "", false
}

// defOf returns the right-hand side of the single definition of a local variable (assignment, var
// declaration or range clause); ok=false when there is none or more than one.
func (x *c20X) defOf(p *c20Pkg, obj types.Object) (rhs ast.Expr, isRange bool, ok bool) {
	if p.defs == nil {
		p.defs = map[types.Object]*c20Def{}
		note := func(id *ast.Ident, rhs ast.Expr, isRange bool) {
			o := p.info.Defs[id]
			if o == nil {
				o = p.info.Uses[id]
			}
			if o == nil {
				return
			}
			d := p.defs[o]
			if d == nil {
				d = &c20Def{}
				p.defs[o] = d
			}
			d.n++
			d.rhs, d.isRange = rhs, isRange
		}
		for _, f := range p.files {
			ast.Inspect(f, func(nd ast.Node) bool {
				switch nd := nd.(type) {
				case *ast.AssignStmt:
					for i, l := range nd.Lhs {
						if id, isId := l.(*ast.Ident); isId {
							if len(nd.Lhs) == len(nd.Rhs) {
								note(id, nd.Rhs[i], false)
							} else {
								note(id, nd.Rhs[0], false)
							}
						}
					}
				case *ast.ValueSpec:
					for i, id := range nd.Names {
						if i < len(nd.Values) {
							note(id, nd.Values[i], false)
						} else {
							note(id, nd.Type, false)
						}
						if o := p.info.Defs[id]; o != nil && nd.Type != nil {
							p.defs[o].declType = nd.Type
							p.defs[o].zeroDecl = i >= len(nd.Values)
						}
					}
				case *ast.RangeStmt:
					for _, kv := range []ast.Expr{nd.Key, nd.Value} {
						if id, isId := kv.(*ast.Ident); isId {
							note(id, nd.X, true)
						}
					}
				}
				return true
			})
		}
	}
	d := p.defs[obj]
	if d == nil || d.n != 1 || d.rhs == nil {
		return nil, false, false
	}
	return d.rhs, d.isRange, true
}

type c20Def struct {
	zeroDecl bool // `var x T` without a value: starts as the zero value (nil for pointers)
	declType ast.Expr
	rhs      ast.Expr
	isRange  bool
	n        int
}

// constructors of detached table objects (explicit list): a local initialised by one of these is
// private to the call until it is returned
var c20CtorRe = regexp.MustCompile(`^(NewTable|NewAdjRib)$`)

// isPriv: the expression denotes (a part of) an object created in this call chain that no other
// goroutine can reach yet: a local initialised by a constructor call / composite literal, the receiver
// of a method invoked on such an object, or something selected / derived by a method from those.
func (x *c20X) isPriv(fr *c20Frame, e ast.Expr, depth int) bool {
	if depth > 8 {
		return false
	}
	switch e := e.(type) {
	case *ast.ParenExpr:
		return x.isPriv(fr, e.X, depth+1)
	case *ast.StarExpr:
		return x.isPriv(fr, e.X, depth+1)
	case *ast.UnaryExpr:
		return x.isPriv(fr, e.X, depth+1)
	case *ast.IndexExpr:
		return x.isPriv(fr, e.X, depth+1)
	case *ast.SelectorExpr:
		return x.isPriv(fr, e.X, depth+1)
	case *ast.CompositeLit:
		return true
	case *ast.CallExpr:
		switch f := ast.Unparen(e.Fun).(type) {
		case *ast.Ident:
			return c20CtorRe.MatchString(f.Name)
		case *ast.SelectorExpr:
			if id, ok := f.X.(*ast.Ident); ok {
				if _, isPkg := fr.pkg.info.Uses[id].(*types.PkgName); isPkg {
					return c20CtorRe.MatchString(f.Sel.Name)
				}
			}
			return x.isPriv(fr, f.X, depth+1) // method of a private object: result derived from it
		}
	case *ast.Ident:
		obj := fr.pkg.info.Uses[e]
		if obj == nil {
			obj = fr.pkg.info.Defs[e]
		}
		if obj == nil {
			return false
		}
		if fr.env.priv[obj] {
			return true
		}
		if v, ok := obj.(*types.Var); !ok || v.IsField() || v.Parent() == nil || v.Parent() == fr.pkg.tpkg.Scope() {
			return false
		}
		if rhs, _, ok := x.defOf(fr.pkg, obj); ok {
			if _, isType := fr.pkg.info.Types[rhs]; isType && fr.pkg.info.Types[rhs].IsType() {
				return false
			}
			return x.isPriv(fr, rhs, depth+1)
		}
	}
	return false
}

// externalTyped: the expression's static type comes from a stubbed-out imported package (so a method
// called on it cannot be one of ours)
func (x *c20X) externalTyped(fr *c20Frame, e ast.Expr, depth int) bool {
	if depth > 6 {
		return false
	}
	qualified := func(t ast.Expr) bool {
		found := false
		if t == nil {
			return false
		}
		ast.Inspect(t, func(nd ast.Node) bool {
			if s, ok := nd.(*ast.SelectorExpr); ok {
				if id, ok := s.X.(*ast.Ident); ok {
					if _, isPkg := fr.pkg.info.Uses[id].(*types.PkgName); isPkg {
						found = true
					}
				}
			}
			return !found
		})
		return found
	}
	switch e := ast.Unparen(e).(type) {
	case *ast.SelectorExpr:
		if sel, ok := fr.pkg.info.Selections[e]; ok {
			if v, ok := sel.Obj().(*types.Var); ok {
				return x.extField[v]
			}
			return false
		}
		if id, ok := e.X.(*ast.Ident); ok {
			if _, isPkg := fr.pkg.info.Uses[id].(*types.PkgName); isPkg {
				return true // pkg.Var
			}
		}
		return x.externalTyped(fr, e.X, depth+1) // field/method of an external value
	case *ast.CallExpr:
		if id, ok := e.Fun.(*ast.Ident); ok && (id.Name == "new" || id.Name == "make") && len(e.Args) > 0 {
			return qualified(e.Args[0])
		}
		var res *ast.FieldList
		if lit, ok := ast.Unparen(e.Fun).(*ast.FuncLit); ok {
			res = lit.Type.Results
		} else if fn := x.staticCallee(fr, e); fn != nil {
			if fn.pkg != fr.pkg {
				return false
			}
			res = fn.decl.Type.Results
		}
		if res != nil && len(res.List) > 0 {
			return c20Qualified(fr.pkg, res.List[0].Type)
		}
		return x.externalTyped(fr, e.Fun, depth+1)
	case *ast.IndexExpr:
		return x.externalTyped(fr, e.X, depth+1)
	case *ast.StarExpr:
		return x.externalTyped(fr, e.X, depth+1)
	case *ast.TypeAssertExpr:
		return qualified(e.Type)
	case *ast.Ident:
		obj := fr.pkg.info.Uses[e]
		if obj == nil {
			return false
		}
		if x.extField[obj] {
			return true
		}
		x.defOf(fr.pkg, obj)
		if d := fr.pkg.defs[obj]; d != nil && d.declType != nil {
			return c20Qualified(fr.pkg, d.declType)
		}
		if rhs, _, ok := x.defOf(fr.pkg, obj); ok {
			if tv, isT := fr.pkg.info.Types[rhs]; isT && tv.IsType() {
				return qualified(rhs)
			}
			return x.externalTyped(fr, rhs, depth+1)
		}
	}
	return false
}

// ---- datum rule "what leaves a shard lock is a copy" -------------------------------------------------
// Live shard state = a *destination taken out of destinationShard.mp (range / index, directly or through
// a local), the parameter of a callback given to iterateAllDestinations, or the knownPathList slice of
// such a destination.  It ESCAPES when it is returned to — or collected for — a caller that does not hold
// the shard lock (the frame was entered without it): the caller will read it after the lock is released,
// concurrently with Table.update → destination.Calculate on the same prefix.

var c20ShardState = map[string]bool{"destinationShard.mp": true}

func (x *c20X) mentionsShardState(fr *c20Frame, e ast.Expr, depth int) bool {
	if e == nil || depth > 4 {
		return false
	}
	found := false
	ast.Inspect(e, func(nd ast.Node) bool {
		if found {
			return false
		}
		switch nd := nd.(type) {
		case *ast.FuncLit:
			return false
		case *ast.SelectorExpr:
			if sel, ok := fr.pkg.info.Selections[nd]; ok {
				if v, ok := sel.Obj().(*types.Var); ok && c20ShardState[x.owner[v]] {
					found = true
				}
			}
		case *ast.Ident:
			obj := fr.pkg.info.Uses[nd]
			if v, ok := obj.(*types.Var); ok && !v.IsField() {
				if rhs, _, ok := x.defOf(fr.pkg, obj); ok && rhs != e {
					if _, isType := fr.pkg.info.Types[rhs]; !isType || !fr.pkg.info.Types[rhs].IsType() {
						if x.mentionsShardState(fr, rhs, depth+1) {
							found = true
						}
					}
				}
			}
		}
		return !found
	})
	return found
}

func c20IsDestPtr(t types.Type) bool {
	p, ok := t.(*types.Pointer)
	if !ok {
		return false
	}
	n, ok := p.Elem().(*types.Named)
	return ok && n.Obj().Name() == "destination"
}

// aliasSummary: which inputs of a single-result function its result may alias — receiver (-1) or
// parameter i: the result is that input itself, a (sub-)slice of it, its knownPathList field, or what a
// callee with such a summary returns for it.  (getMultiBestPath returns pathList[:n]; GetMultiBestPath
// passes dd.knownPathList to it, so its result aliases the receiver's list.)
func (x *c20X) aliasSummary(fn *c20Fn, depth int) map[int]bool {
	if s, ok := x.aliasSum[fn]; ok {
		return s
	}
	res := map[int]bool{}
	x.aliasSum[fn] = res
	if depth > 4 || fn.decl.Type.Results == nil || len(fn.decl.Type.Results.List) != 1 {
		return res
	}
	inputs := map[types.Object]int{}
	if fn.decl.Recv != nil {
		for _, nm := range fn.decl.Recv.List[0].Names {
			inputs[fn.pkg.info.Defs[nm]] = -1
		}
	}
	i := 0
	for _, fld := range fn.decl.Type.Params.List {
		if len(fld.Names) == 0 {
			i++
		}
		for _, nm := range fld.Names {
			inputs[fn.pkg.info.Defs[nm]] = i
			i++
		}
	}
	var of func(e ast.Expr, d int) []int
	of = func(e ast.Expr, d int) []int {
		if d > 4 {
			return nil
		}
		switch e := ast.Unparen(e).(type) {
		case *ast.Ident:
			if k, ok := inputs[fn.pkg.info.Uses[e]]; ok {
				return []int{k}
			}
		case *ast.SliceExpr:
			return of(e.X, d+1)
		case *ast.SelectorExpr:
			if sel, ok := fn.pkg.info.Selections[e]; ok {
				if v, ok := sel.Obj().(*types.Var); ok && x.owner[v] == "destination.knownPathList" {
					return of(e.X, d+1)
				}
			}
		case *ast.CallExpr:
			cfr := &c20Frame{pkg: fn.pkg, env: newC20Env()}
			if g := x.staticCallee(cfr, e); g != nil && g != fn {
				var out []int
				for j := range x.aliasSummary(g, depth+1) {
					if j == -1 {
						if sel, ok := ast.Unparen(e.Fun).(*ast.SelectorExpr); ok {
							out = append(out, of(sel.X, d+1)...)
						}
					} else if j < len(e.Args) {
						out = append(out, of(e.Args[j], d+1)...)
					}
				}
				return out
			}
		}
		return nil
	}
	c20InspectNoLits(fn.decl.Body, func(nd ast.Node) {
		if r, ok := nd.(*ast.ReturnStmt); ok && len(r.Results) == 1 {
			for _, k := range of(r.Results[0], 0) {
				res[k] = true
			}
		}
	})
	return res
}

// liveShardState: e denotes live shard state (see above); the second result says what kind
func (x *c20X) liveShardState(fr *c20Frame, e ast.Expr) (bool, string) {
	return x.liveShardStateD(fr, e, 0)
}

func (x *c20X) liveShardStateD(fr *c20Frame, e ast.Expr, depth int) (bool, string) {
	if depth > 5 {
		return false, ""
	}
	e = ast.Unparen(e)
	switch e := e.(type) {
	case *ast.Ident:
		obj := fr.pkg.info.Uses[e]
		v, ok := obj.(*types.Var)
		if !ok || v.IsField() || fr.env.priv[obj] {
			return false, ""
		}
		if x.liveParams[obj] {
			return true, "destination passed to an iterateAllDestinations callback"
		}
		if rhs, _, ok := x.defOf(fr.pkg, obj); ok {
			if tv, isT := fr.pkg.info.Types[rhs]; isT && tv.IsType() {
				return false, ""
			}
			if _, isCall := ast.Unparen(rhs).(*ast.CallExpr); isCall {
				return x.liveShardStateD(fr, rhs, depth+1)
			}
			if c20IsDestPtr(v.Type()) && x.mentionsShardState(fr, rhs, 0) {
				return true, "destination taken out of destinationShard.mp"
			}
			if _, isSel := ast.Unparen(rhs).(*ast.SelectorExpr); isSel {
				return x.liveShardStateD(fr, rhs, depth+1)
			}
		}
	case *ast.SliceExpr:
		return x.liveShardStateD(fr, e.X, depth+1)
	case *ast.SelectorExpr:
		if sel, ok := fr.pkg.info.Selections[e]; ok {
			if v, ok := sel.Obj().(*types.Var); ok && x.owner[v] == "destination.knownPathList" {
				if live, _ := x.liveShardStateD(fr, e.X, depth+1); live {
					return true, "knownPathList slice of a live destination"
				}
			}
		}
	case *ast.CallExpr:
		// result of a call: live only if the callee hands back an alias of a live input
		g := x.staticCallee(fr, e)
		if g == nil {
			return false, "" // snapshot()/copies through append, slices.Clone, make+copy end up here or below
		}
		for j := range x.aliasSummary(g, 0) {
			var in ast.Expr
			if j == -1 {
				if sel, ok := ast.Unparen(e.Fun).(*ast.SelectorExpr); ok {
					in = sel.X
				}
			} else if j < len(e.Args) {
				in = e.Args[j]
			}
			if in != nil {
				if live, kind := x.liveShardStateD(fr, in, depth+1); live {
					return true, "alias of [" + kind + "] returned by " + g.name
				}
			}
		}
	}
	return false, ""
}

func (x *c20X) noteEscape(fr *c20Frame, st c20State, e ast.Expr, how string) {
	if !x.recording || fr.pkg.name != "table" {
		return
	}
	live, kind := x.liveShardState(fr, e)
	if !live || x.isPriv(fr, e, 0) {
		return // not shard state, or the state of a table private to this call chain
	}
	// the caller holds the shard lock (getOrCreateDest & co. under Table.update): not an escape.  Inside a
	// literal (e.g. the callback of iterateAllDestinations, entered under the lock) what is collected into
	// a captured variable leaves with the enclosing function: its caller's locks count.
	must := fr.entryMust
	if fr.env != nil && fr.env.hasOuter && strings.HasPrefix(how, "appended") {
		must = fr.env.outerMust
	}
	for b := 0; b < 64; b++ {
		if must&(1<<uint(b)) != 0 && x.lockNames[b/2] == "destinationShard.mu" {
			return
		}
	}
	x.stats["live_shard_state_flows_checked"]++
	k := "shardEscape|" + fr.decl + "|" + how
	if _, ok := x.access[k]; !ok {
		x.access[k] = &c20Access{what: "shardEscape", fn: fr.decl, must: 0,
			root: kind + " " + how + " in " + fr.fnName + " @" + x.posStr(fr.pkg, e.Pos()) + " reached via " + x.curRoot + ">" + strings.Join(x.stack, ">")}
	}
}

func c20InspectNoLits(n ast.Node, f func(ast.Node)) {
	ast.Inspect(n, func(nd ast.Node) bool {
		if _, ok := nd.(*ast.FuncLit); ok {
			return false
		}
		if nd != nil {
			f(nd)
		}
		return true
	})
}

func (x *c20X) staticCallee(fr *c20Frame, call *ast.CallExpr) *c20Fn {
	var obj types.Object
	switch f := ast.Unparen(call.Fun).(type) {
	case *ast.Ident:
		obj = fr.pkg.info.Uses[f]
	case *ast.SelectorExpr:
		if sel, ok := fr.pkg.info.Selections[f]; ok {
			obj = sel.Obj()
		} else {
			obj = fr.pkg.info.Uses[f.Sel]
		}
	case *ast.IndexExpr: // generic instantiation f[T](...)
		if id, ok := f.X.(*ast.Ident); ok {
			obj = fr.pkg.info.Uses[id]
		}
	}
	if fo, ok := obj.(*types.Func); ok {
		if fn, ok := x.fns[fo.Origin()]; ok {
			return fn
		}
	}
	return nil
}

// funcVals evaluates an expression that denotes a function value
func (x *c20X) funcVals(fr *c20Frame, e ast.Expr) []*c20Val {
	switch e := ast.Unparen(e).(type) {
	case *ast.FuncLit:
		return []*c20Val{{lit: e, env: fr.env, pkg: fr.pkg, creatorMust: fr.outerMust()}}
	case *ast.Ident:
		obj := fr.pkg.info.Uses[e]
		if obj == nil {
			return nil
		}
		if vs, ok := fr.env.funcs[obj]; ok {
			return vs
		}
		if fo, ok := obj.(*types.Func); ok {
			if fn, ok := x.fns[fo.Origin()]; ok {
				return []*c20Val{{fn: fn, pkg: fn.pkg}}
			}
		}
	case *ast.SelectorExpr:
		if sel, ok := fr.pkg.info.Selections[e]; ok {
			switch o := sel.Obj().(type) {
			case *types.Func:
				if fn, ok := x.fns[o.Origin()]; ok {
					return []*c20Val{{fn: fn, pkg: fn.pkg}}
				}
			case *types.Var:
				return x.fieldFns[o]
			}
		} else if fo, ok := fr.pkg.info.Uses[e.Sel].(*types.Func); ok {
			if fn, ok := x.fns[fo.Origin()]; ok {
				return []*c20Val{{fn: fn, pkg: fn.pkg}}
			}
		}
	case *ast.CallExpr:
		// a call that returns a function value: closures returned by a local literal or a declared function
		var out []*c20Val
		for _, cv := range x.calleeVals(fr, e) {
			out = append(out, x.returnedFuncs(fr, cv, e)...)
		}
		return out
	}
	return nil
}

// returnedFuncs: the function literals in `return` statements of cv's body (closure factories)
func (x *c20X) returnedFuncs(fr *c20Frame, cv *c20Val, call *ast.CallExpr) []*c20Val {
	var body *ast.BlockStmt
	var ftype *ast.FuncType
	env := newC20Env()
	pkg := cv.pkg
	if cv.fn != nil {
		body, ftype = cv.fn.decl.Body, cv.fn.decl.Type
	} else {
		body, ftype = cv.lit.Body, cv.lit.Type
		env = cv.env.clone()
	}
	x.bindParams(fr, env, pkg, ftype, call)
	var out []*c20Val
	c20InspectNoLits(body, func(nd ast.Node) {})
	ast.Inspect(body, func(nd ast.Node) bool {
		switch nd := nd.(type) {
		case *ast.FuncLit:
			return false
		case *ast.ReturnStmt:
			for _, r := range nd.Results {
				if lit, ok := ast.Unparen(r).(*ast.FuncLit); ok {
					out = append(out, &c20Val{lit: lit, env: env, pkg: pkg})
				}
			}
		}
		return true
	})
	return out
}

func (x *c20X) isFuncTyped(p *c20Pkg, e ast.Expr) bool {
	if tv, ok := p.info.Types[e]; ok && tv.Type != nil {
		_, isSig := tv.Type.Underlying().(*types.Signature)
		return isSig
	}
	return false
}

// bindParams binds constant booleans and function values passed at `call` to the parameters in ftype
func (x *c20X) bindParams(fr *c20Frame, env *c20Env, pkg *c20Pkg, ftype *ast.FuncType, call *ast.CallExpr) {
	if ftype.Params == nil {
		return
	}
	i := 0
	for _, fld := range ftype.Params.List {
		names := fld.Names
		if len(names) == 0 {
			i++
			continue
		}
		for _, nm := range names {
			if i >= len(call.Args) {
				return
			}
			arg := call.Args[i]
			i++
			pobj := pkg.info.Defs[nm]
			if pobj == nil {
				continue
			}
			if _, variadic := fld.Type.(*ast.Ellipsis); variadic {
				return
			}
			if x.isPriv(fr, arg, 0) {
				env.priv[pobj] = true
			}
			if id, ok := ast.Unparen(arg).(*ast.Ident); ok && (id.Name == "true" || id.Name == "false") {
				env.bools[pobj] = id.Name == "true"
				continue
			}
			if id, ok := ast.Unparen(arg).(*ast.Ident); ok {
				if b, ok := fr.env.bools[fr.pkg.info.Uses[id]]; ok {
					env.bools[pobj] = b
					continue
				}
			}
			if _, isFn := fld.Type.(*ast.FuncType); isFn || x.isFuncTyped(pkg, fld.Type) {
				if vs := x.funcVals(fr, arg); len(vs) > 0 {
					env.funcs[pobj] = vs
				}
			}
		}
	}
}

// calleeVals: possible targets of a call expression inside the analysed packages
func (x *c20X) calleeVals(fr *c20Frame, call *ast.CallExpr) []*c20Val {
	fun := ast.Unparen(call.Fun)
	if lit, ok := fun.(*ast.FuncLit); ok {
		return []*c20Val{{lit: lit, env: fr.env, pkg: fr.pkg, creatorMust: fr.outerMust()}}
	}
	if fn := x.staticCallee(fr, call); fn != nil {
		return []*c20Val{{fn: fn, pkg: fn.pkg}}
	}
	switch f := fun.(type) {
	case *ast.Ident:
		if obj := fr.pkg.info.Uses[f]; obj != nil {
			if vs, ok := fr.env.funcs[obj]; ok {
				return vs
			}
			if v, ok := obj.(*types.Var); ok {
				if _, isSig := v.Type().Underlying().(*types.Signature); isSig {
					if fr.pkg.info.Defs[f] == nil {
						x.pendingUnbound = fr.decl + " calls " + f.Name
					}
				}
			}
		}
	case *ast.SelectorExpr:
		if sel, ok := fr.pkg.info.Selections[f]; ok {
			switch o := sel.Obj().(type) {
			case *types.Var: // call through a function-typed struct field
				if vs := x.fieldFns[o]; len(vs) > 0 {
					return vs
				}
				if _, isSig := o.Type().Underlying().(*types.Signature); isSig {
					x.loud("field-func-unresolved", x.owner[o]+" at "+x.posStr(fr.pkg, f.Pos()))
				}
			case *types.Func: // interface method: every declared method of that name
				if _, isIface := sel.Recv().Underlying().(*types.Interface); isIface {
					var out []*c20Val
					iface := sel.Recv().Underlying().(*types.Interface)
					for _, fn := range x.byName[o.Name()] {
						if x.hasMethods(fn, iface) {
							out = append(out, &c20Val{fn: fn, pkg: fn.pkg})
						}
					}
					x.stats["interface_calls"]++
					return out
				}
			}
		} else {
			// receiver type unknown (imported package stubbed out) or package-qualified call
			if id, ok := f.X.(*ast.Ident); ok {
				if _, isPkg := fr.pkg.info.Uses[id].(*types.PkgName); isPkg {
					return nil // external package function: no locks of ours inside
				}
			}
			if tv, ok := fr.pkg.info.Types[f.X]; ok && tv.Type != nil && tv.Type != types.Typ[types.Invalid] {
				return nil
			}
			if x.externalTyped(fr, f.X, 0) {
				x.stats["calls_on_external_values"]++
				return nil
			}
			// untyped receiver: if a declared method of that name touches locks, be loud
			for _, fn := range x.byName[f.Sel.Name] {
				if x.touchesLocks(fn) {
					x.loud("unresolved-receiver", fr.fnName+" calls ."+f.Sel.Name+" at "+x.posStr(fr.pkg, f.Pos()))
					break
				}
			}
		}
	}
	return nil
}

// hasMethods: the receiver type of fn declares every method name of the interface (by name: signatures
// may mention stubbed-out imported types)
func (x *c20X) hasMethods(fn *c20Fn, iface *types.Interface) bool {
	sig, ok := fn.obj.Type().(*types.Signature)
	if !ok || sig.Recv() == nil {
		return false
	}
	t := sig.Recv().Type()
	if p, ok := t.(*types.Pointer); ok {
		t = p.Elem()
	}
	ms := types.NewMethodSet(types.NewPointer(t))
	for i := 0; i < iface.NumMethods(); i++ {
		if ms.Lookup(iface.Method(i).Pkg(), iface.Method(i).Name()) == nil {
			return false
		}
	}
	return true
}

var c20Touch map[*c20Fn]bool

// touchesLocks: syntactic over-approximation "body contains a Lock call or calls something"
func (x *c20X) touchesLocks(fn *c20Fn) bool {
	if v, ok := c20Touch[fn]; ok {
		return v
	}
	r := false
	ast.Inspect(fn.decl.Body, func(nd ast.Node) bool {
		if c, ok := nd.(*ast.CallExpr); ok {
			if s, ok := c.Fun.(*ast.SelectorExpr); ok {
				switch s.Sel.Name {
				case "Lock", "RLock":
					r = true
				}
			}
		}
		return !r
	})
	c20Touch[fn] = r
	return r
}

func (x *c20X) acquire(fr *c20Frame, st c20State, class string, mode byte, site string, pseudo bool) c20State {
	b := x.bit(class, mode)
	for h := 0; h < 64; h++ {
		if st.may&(1<<uint(h)) != 0 {
			k := c20Edge{h, b}
			if len(x.edges[k]) < 3 {
				w := x.heldSite[h] + " => " + strings.Join(x.stack, ">") + " @" + site
				dup := false
				for _, o := range x.edges[k] {
					dup = dup || o == w
				}
				if !dup {
					if len(x.edges[k]) == 0 {
						x.changed = true
					}
					x.edges[k] = append(x.edges[k], w)
				}
			}
		}
	}
	if pseudo {
		return st
	}
	if _, ok := x.heldSite[b]; !ok {
		x.heldSite[b] = ""
	}
	x.heldSite[b] = fr.fnName + "@" + site
	st.may |= 1 << uint(b)
	st.must |= 1 << uint(b)
	st.own |= 1 << uint(b)
	return st
}

func (x *c20X) release(fr *c20Frame, st c20State, class string, mode byte, site string) c20State {
	b := x.bit(class, mode)
	if st.may&(1<<uint(b)) == 0 {
		x.stats["unlock_of_lock_not_held_in_frame"]++
		if x.recording {
			x.loud("unlock-not-held", fr.fnName+" "+x.bitName(b)+" @"+site)
		}
	}
	st.may &^= 1 << uint(b)
	st.must &^= 1 << uint(b)
	st.own &^= 1 << uint(b)
	return st
}

func (x *c20X) lockOp(fr *c20Frame, call *ast.CallExpr) (class string, op string, ok bool) {
	sel, isSel := call.Fun.(*ast.SelectorExpr)
	if !isSel || len(call.Args) != 0 {
		return
	}
	switch sel.Sel.Name {
	case "Lock", "RLock", "Unlock", "RUnlock", "TryLock", "TryRLock":
	default:
		return
	}
	c, rok := x.resolveLock(fr, sel.X, 0)
	if rok && x.isPriv(fr, sel.X, 0) {
		x.stats["lock_ops_on_call_private_objects"]++
		return "", "", false
	}
	if !rok {
		// a Lock-named method on something that is not one of our mutexes: is it a declared method?
		if x.staticCallee(fr, call) != nil {
			return
		}
		x.loud("lock-receiver-unresolved", fr.fnName+" "+types.ExprString(call.Fun)+" at "+x.posStr(fr.pkg, call.Pos()))
		return
	}
	return c, sel.Sel.Name, true
}

func (x *c20X) expr(fr *c20Frame, st c20State, e ast.Node) c20State {
	if e == nil || st.dead {
		return st
	}
	switch e := e.(type) {
	case *ast.FuncLit:
		// a literal that is not called here: it may run later on another goroutine -> analysed as a root
		// and, conservatively, as if it were called right here under the locks now held (slices of
		// closures called in the same function, filters registered and called under the same lock)
		v := &c20Val{lit: e, env: fr.env, pkg: fr.pkg, creatorMust: fr.outerMust()}
		x.addAsync(v)
		x.invoke(fr, st, v, nil)
		return st
	case *ast.CallExpr:
		return x.call(fr, st, e, false)
	case *ast.SelectorExpr:
		st = x.expr(fr, st, e.X)
		x.noteAccess(fr, st, e, false)
		return st
	case *ast.CompositeLit:
		for _, el := range e.Elts {
			if kv, ok := el.(*ast.KeyValueExpr); ok {
				if id, ok := kv.Key.(*ast.Ident); ok {
					if fv, ok := fr.pkg.info.Uses[id].(*types.Var); ok && fv.IsField() {
						if vs := x.funcVals(fr, kv.Value); len(vs) > 0 {
							x.addFieldFns(fv, vs)
							continue
						}
					}
				}
				st = x.expr(fr, st, kv.Value)
			} else {
				st = x.expr(fr, st, el)
			}
		}
		return st
	}
	// generic: visit children in source order
	var kids []ast.Node
	ast.Inspect(e, func(nd ast.Node) bool {
		if nd == nil || nd == e {
			return nd == e
		}
		kids = append(kids, nd)
		return false
	})
	for _, k := range kids {
		switch k.(type) {
		case ast.Expr, *ast.KeyValueExpr, *ast.FieldList, *ast.Field:
			st = x.expr(fr, st, k)
		}
	}
	return st
}

func (x *c20X) addFieldFns(fv *types.Var, vs []*c20Val) {
	for _, v := range vs {
		dup := false
		for _, o := range x.fieldFns[fv] {
			// literals are identified by position only (first environment wins): guarantees termination
			dup = dup || (o.fn != nil && o.fn == v.fn) || (o.lit != nil && o.lit == v.lit)
		}
		if !dup {
			x.fieldFns[fv] = append(x.fieldFns[fv], v)
			x.changed = true
		}
	}
}

func (x *c20X) addAsync(v *c20Val) {
	id := v.id()
	if !x.asyncSeen[id] {
		x.asyncSeen[id] = true
		x.asyncLits = append(x.asyncLits, v)
		x.changed = true
	}
}

func (x *c20X) noteAccess(fr *c20Frame, st c20State, e *ast.SelectorExpr, write bool) {
	sel, ok := fr.pkg.info.Selections[e]
	if !ok {
		return
	}
	v, ok := sel.Obj().(*types.Var)
	if !ok {
		return
	}
	g, ok := c20Guarded[x.owner[v]]
	if !ok || !x.recording {
		return
	}
	if x.isPriv(fr, e.X, 0) {
		x.stats["guarded_accesses_on_call_private_objects"]++
		return
	}
	x.recordAccess(g, fr.fnName, write, st)
}

func (x *c20X) recordAccess(what, fn string, write bool, st c20State) {
	k := fmt.Sprintf("%s|%s|%v|%x", what, fn, write, st.must)
	if _, ok := x.access[k]; !ok {
		x.access[k] = &c20Access{what: what, fn: fn, write: write, must: st.must, root: x.curRoot + " via " + strings.Join(x.stack, ">")}
	}
}

func c20CalleeName(call *ast.CallExpr) string {
	switch f := ast.Unparen(call.Fun).(type) {
	case *ast.Ident:
		return f.Name
	case *ast.SelectorExpr:
		if id, ok := f.X.(*ast.Ident); ok {
			return id.Name + "." + f.Sel.Name
		}
		return "." + f.Sel.Name
	}
	return ""
}

func (x *c20X) call(fr *c20Frame, st c20State, call *ast.CallExpr, isGo bool) c20State {
	site := x.posStr(fr.pkg, call.Pos())
	// lock operations
	if class, op, ok := x.lockOp(fr, call); ok {
		switch op {
		case "Lock":
			return x.acquire(fr, st, class, 'W', site, false)
		case "RLock":
			return x.acquire(fr, st, class, 'R', site, false)
		case "Unlock":
			return x.release(fr, st, class, 'W', site)
		case "RUnlock":
			return x.release(fr, st, class, 'R', site)
		default:
			x.loud("trylock", fr.fnName+" at "+site)
			return st
		}
	}
	if id, ok := call.Fun.(*ast.Ident); ok && id.Name == "append" && fr.pkg.info.Uses[id] == types.Universe.Lookup("append") && len(call.Args) > 1 {
		// collecting live shard state into a slice that is not the shard's own map entry
		if !x.mentionsShardState(fr, call.Args[0], 0) {
			for _, a := range call.Args[1:] {
				x.noteEscape(fr, st, a, "appended to "+types.ExprString(call.Args[0]))
			}
		}
	}
	if id, ok := call.Fun.(*ast.Ident); ok && id.Name == "panic" && fr.pkg.info.Uses[id] == types.Universe.Lookup("panic") {
		for _, a := range call.Args {
			st = x.expr(fr, st, a)
		}
		st.dead = true
		return st
	}
	// receiver expression and arguments are evaluated first
	if sel, ok := ast.Unparen(call.Fun).(*ast.SelectorExpr); ok {
		st = x.expr(fr, st, sel.X)
	}
	x.pendingUnbound = ""
	targets := x.calleeVals(fr, call)
	if x.pendingUnbound != "" {
		// a function value we cannot trace (API user callback, option function, map of filters)
		x.stats["untraced_func_value_calls"]++
		if st.may != 0 && x.recording && !c20UntracedOK[x.pendingUnbound] {
			x.loud("untraced-func-value-called-under-lock", x.pendingUnbound+" holding "+strings.Join(x.setNames(st.may), ","))
		}
		if st.may != 0 && x.recording {
			x.userCb[x.pendingUnbound+" holding "+strings.Join(x.setNames(st.may), ",")] = true
		}
	}
	async := isGo || c20Async[c20CalleeName(call)]
	for _, a := range call.Args {
		if lit, ok := ast.Unparen(a).(*ast.FuncLit); ok {
			v := &c20Val{lit: lit, env: fr.env, pkg: fr.pkg, creatorMust: fr.outerMust()}
			if async && len(targets) == 0 {
				x.addAsync(v)
			} else if len(targets) == 0 {
				// synchronous callback of an external function (sort.Slice, sync.Map.Range, …): runs here
				x.stats["external_callback_literals"]++
				st = x.invoke(fr, st, v, nil)
			}
			continue // bound to the callee's parameter below when the callee is ours
		}
		if async && len(targets) == 0 {
			for _, v := range x.funcVals(fr, a) {
				x.addAsync(v)
			}
		}
		st = x.expr(fr, st, a)
	}
	if isGo {
		for _, v := range targets {
			x.goRoot(fr, v, call)
		}
		return st
	}
	if len(targets) == 0 {
		return st
	}
	out := c20State{dead: true}
	for _, v := range targets {
		s2 := st
		if v.fn != nil {
			x.called[v.fn] = true
			if cls, ok := c20Handoff[v.fn.name]; ok {
				s2 = x.acquire(fr, s2, cls, 'W', site+"(mgmtCh hand-off)", true)
			}
			if req, ok := c20Requires[v.fn.name]; ok && x.recording {
				if sel, isSel := ast.Unparen(call.Fun).(*ast.SelectorExpr); isSel && x.isPriv(fr, sel.X, 0) {
					x.stats["guarded_accesses_on_call_private_objects"]++
				} else {
					x.recordAccess(req, fr.fnName, false, s2)
				}
			}
		}
		out = out.merge(x.invoke(fr, s2, v, call))
	}
	if out.dead {
		return st
	}
	out.defers, out.own = st.defers, st.own|(out.may&^st.may)
	return out
}

// goRoot: `go f(args)` — f runs with no lock held, parameters bound from the call
func (x *c20X) goRoot(fr *c20Frame, v *c20Val, call *ast.CallExpr) {
	if v.fn != nil {
		x.called[v.fn] = true
		env := newC20Env()
		x.bindParams(fr, env, v.pkg, v.fn.decl.Type, call)
		x.addAsyncEnv(v, env)
		return
	}
	env := v.env.clone()
	x.bindParams(fr, env, v.pkg, v.lit.Type, call)
	x.addAsync(&c20Val{lit: v.lit, env: env, pkg: v.pkg})
}

type c20AsyncFn struct {
	v   *c20Val
	env *c20Env
}

var c20AsyncFns []c20AsyncFn

func (x *c20X) addAsyncEnv(v *c20Val, env *c20Env) {
	id := v.id() + "|" + env.key()
	if !x.asyncSeen[id] {
		x.asyncSeen[id] = true
		c20AsyncFns = append(c20AsyncFns, c20AsyncFn{v, env})
		x.changed = true
	}
}

// invoke interprets the body of v with the caller's lock state; call == nil means "no argument binding"
func (x *c20X) invoke(fr *c20Frame, st c20State, v *c20Val, call *ast.CallExpr) c20State {
	var body *ast.BlockStmt
	var ftype *ast.FuncType
	var env *c20Env
	name := ""
	if v.fn != nil {
		body, ftype, env = v.fn.decl.Body, v.fn.decl.Type, newC20Env()
		name = v.fn.name
		x.visited[v.fn] = true
	} else {
		body, ftype, env = v.lit.Body, v.lit.Type, v.env.clone()
		env.outerMust, env.hasOuter = v.creatorMust, true
		name = "lit@" + x.posStr(v.pkg, v.lit.Pos())
	}
	if call != nil {
		x.bindParams(fr, env, v.pkg, ftype, call)
		if sel, ok := ast.Unparen(call.Fun).(*ast.SelectorExpr); ok && v.fn != nil && v.fn.decl.Recv != nil && x.isPriv(fr, sel.X, 0) {
			for _, nm := range v.fn.decl.Recv.List[0].Names {
				if o := v.pkg.info.Defs[nm]; o != nil {
					env.priv[o] = true
				}
			}
		}
	}
	return x.run(v.pkg, name, body, ftype, env, st)
}

func (x *c20X) run(pkg *c20Pkg, name string, body *ast.BlockStmt, ftype *ast.FuncType, env *c20Env, st c20State) c20State {
	key := fmt.Sprintf("%d|%s|%x|%x|%v|%s", body.Pos(), env.key(), st.may, st.must, x.recording, pkg.name)
	if x.recording {
		// accesses are attributed per root only in their witness text; the key does not need the root
	}
	if r, ok := x.memo[key]; ok {
		return c20State{may: r.may, must: r.must}
	}
	if x.inprog[key] || len(x.stack) > 60 {
		x.stats["recursion_cut"]++
		return c20State{may: st.may, must: st.must}
	}
	x.inprog[key] = true
	x.stack = append(x.stack, name)
	nfr := &c20Frame{pkg: pkg, env: env, fnName: name, decl: name, exit: c20State{dead: true}, entryMust: st.must}
	if o, ok := x.litOwner[body.Pos()]; ok {
		nfr.decl = o
	}
	s := c20State{may: st.may, must: st.must}
	s = x.block(nfr, s, body.List)
	if !s.dead {
		nfr.exit = nfr.exit.merge(x.runDefers(nfr, s))
	}
	res := nfr.exit
	if res.dead { // every path panics / never returns
		res = c20State{may: st.may, must: st.must}
	}
	if leaked := res.may &^ st.may; leaked != 0 && x.recording {
		x.leaks[name] = strings.Join(x.setNames(leaked), ",")
	}
	x.stack = x.stack[:len(x.stack)-1]
	delete(x.inprog, key)
	x.memo[key] = c20State{may: res.may, must: res.must}
	return c20State{may: res.may, must: res.must}
}

func (x *c20X) runDefers(fr *c20Frame, st c20State) c20State {
	ds := st.defers
	st.defers = nil
	for i := len(ds) - 1; i >= 0; i-- {
		d := ds[i]
		dfr := &c20Frame{pkg: d.pkg, env: d.env, fnName: fr.fnName, exit: c20State{dead: true}}
		if class, op, ok := x.lockOp(dfr, d.call); ok && (op == "Unlock" || op == "RUnlock") {
			mode := byte('W')
			if op == "RUnlock" {
				mode = 'R'
			}
			b := x.bit(class, mode)
			if st.may&(1<<uint(b)) != 0 { // registered on another branch otherwise
				st = x.release(dfr, st, class, mode, x.posStr(d.pkg, d.call.Pos()))
			}
			continue
		}
		wasDead := st.dead
		st.dead = false
		st = x.call(dfr, st, d.call, false)
		st.dead = wasDead
	}
	return st
}

func (x *c20X) block(fr *c20Frame, st c20State, list []ast.Stmt) c20State {
	for _, s := range list {
		if st.dead {
			break
		}
		st = x.stmt(fr, st, s)
	}
	return st
}

func (x *c20X) constCond(fr *c20Frame, e ast.Expr) (bool, bool) {
	switch e := ast.Unparen(e).(type) {
	case *ast.Ident:
		if b, ok := fr.env.bools[fr.pkg.info.Uses[e]]; ok {
			return b, true
		}
	case *ast.UnaryExpr:
		if e.Op == token.NOT {
			if b, ok := x.constCond(fr, e.X); ok {
				return !b, true
			}
		}
	}
	return false, false
}

func (x *c20X) stmt(fr *c20Frame, st c20State, s ast.Stmt) c20State {
	switch s := s.(type) {
	case nil:
		return st
	case *ast.BlockStmt:
		return x.block(fr, st, s.List)
	case *ast.ExprStmt:
		return x.expr(fr, st, s.X)
	case *ast.SendStmt:
		return x.expr(fr, x.expr(fr, st, s.Chan), s.Value)
	case *ast.IncDecStmt:
		return x.expr(fr, st, s.X)
	case *ast.DeclStmt:
		if gd, ok := s.Decl.(*ast.GenDecl); ok {
			for _, sp := range gd.Specs {
				if vs, ok := sp.(*ast.ValueSpec); ok {
					for i, v := range vs.Values {
						if i < len(vs.Names) {
							if fv := x.funcVals(fr, v); len(fv) > 0 && x.isFuncTyped(fr.pkg, v) {
								fr.env.funcs[fr.pkg.info.Defs[vs.Names[i]]] = fv
								continue
							}
						}
						st = x.expr(fr, st, v)
					}
				}
			}
		}
		return st
	case *ast.AssignStmt:
		for i, r := range s.Rhs {
			if len(s.Lhs) == len(s.Rhs) && x.isFuncTyped(fr.pkg, r) {
				if fv := x.funcVals(fr, r); len(fv) > 0 {
					switch l := ast.Unparen(s.Lhs[i]).(type) {
					case *ast.Ident:
						obj := fr.pkg.info.Defs[l]
						if obj == nil {
							obj = fr.pkg.info.Uses[l]
						}
						if obj != nil {
							fr.env.funcs[obj] = append(append([]*c20Val{}, fr.env.funcs[obj]...), fv...)
							if _, isCall := ast.Unparen(r).(*ast.CallExpr); isCall {
								st = x.expr(fr, st, r)
							}
							continue
						}
					case *ast.SelectorExpr:
						if sel, ok := fr.pkg.info.Selections[l]; ok {
							if v, ok := sel.Obj().(*types.Var); ok {
								x.addFieldFns(v, fv)
								continue
							}
						}
					}
				}
			}
			st = x.expr(fr, st, r)
		}
		for _, l := range s.Lhs {
			// writes to guarded fields
			root := ast.Unparen(l)
			for {
				switch r := root.(type) {
				case *ast.IndexExpr:
					st = x.expr(fr, st, r.Index)
					root = ast.Unparen(r.X)
					continue
				case *ast.SliceExpr:
					root = ast.Unparen(r.X)
					continue
				case *ast.StarExpr:
					root = ast.Unparen(r.X)
					continue
				}
				break
			}
			if sel, ok := root.(*ast.SelectorExpr); ok {
				st = x.expr(fr, st, sel.X)
				x.noteAccess(fr, st, sel, true)
			}
		}
		return st
	case *ast.GoStmt:
		return x.call(fr, st, s.Call, true)
	case *ast.DeferStmt:
		// arguments are evaluated now, the call runs at exit
		for _, a := range s.Call.Args {
			if _, isLit := a.(*ast.FuncLit); !isLit {
				st = x.expr(fr, st, a)
			}
		}
		st.defers = append(append([]*c20Defer{}, st.defers...), &c20Defer{pos: s.Pos(), call: s.Call, env: fr.env, pkg: fr.pkg})
		return st
	case *ast.ReturnStmt:
		for _, r := range s.Results {
			if lit, ok := ast.Unparen(r).(*ast.FuncLit); ok {
				_ = lit // returned closure: picked up by returnedFuncs at the call site; also a root
				x.addAsync(&c20Val{lit: lit, env: fr.env, pkg: fr.pkg, creatorMust: fr.outerMust()})
				continue
			}
			st = x.expr(fr, st, r)
			x.noteEscape(fr, st, r, "returned")
		}
		fr.exit = fr.exit.merge(x.runDefers(fr, st))
		st.dead = true
		return st
	case *ast.BranchStmt:
		switch s.Tok {
		case token.BREAK:
			if n := len(fr.brk); n > 0 {
				*fr.brk[n-1] = fr.brk[n-1].merge(st)
			}
		case token.CONTINUE:
			if n := len(fr.cont); n > 0 {
				*fr.cont[n-1] = fr.cont[n-1].merge(st)
			}
		case token.GOTO:
			x.loud("goto", fr.fnName)
		case token.FALLTHROUGH:
			return st
		}
		st.dead = true
		return st
	case *ast.LabeledStmt:
		return x.stmt(fr, st, s.Stmt)
	case *ast.IfStmt:
		st = x.stmt(fr, st, s.Init)
		if b, ok := x.constCond(fr, s.Cond); ok {
			if b {
				return x.block(fr, st, s.Body.List)
			}
			return x.stmt(fr, st, s.Else)
		}
		st = x.expr(fr, st, s.Cond)
		a := x.block(fr, st, s.Body.List)
		b := st
		if s.Else != nil {
			b = x.stmt(fr, st, s.Else)
		}
		if a.dead && b.dead {
			return a
		}
		return a.merge(b)
	case *ast.ForStmt:
		st = x.stmt(fr, st, s.Init)
		return x.loop(fr, st, func(in c20State) c20State {
			in = x.expr(fr, in, s.Cond)
			in = x.block(fr, in, s.Body.List)
			return in
		}, func(in c20State) c20State { return x.stmt(fr, in, s.Post) }, s.Cond == nil)
	case *ast.RangeStmt:
		if vid, ok := s.Value.(*ast.Ident); ok && s.Tok == token.DEFINE {
			// ranging over a slice literal of function literals binds the loop variable to them
			src := ast.Unparen(s.X)
			if id, ok := src.(*ast.Ident); ok {
				if obj := fr.pkg.info.Uses[id]; obj != nil {
					if rhs, _, ok := x.defOf(fr.pkg, obj); ok {
						src = ast.Unparen(rhs)
					}
				}
			}
			if cl, ok := src.(*ast.CompositeLit); ok {
				var vs []*c20Val
				for _, el := range cl.Elts {
					if lit, ok := ast.Unparen(el).(*ast.FuncLit); ok {
						vs = append(vs, &c20Val{lit: lit, env: fr.env, pkg: fr.pkg, creatorMust: fr.outerMust()})
					}
				}
				if len(vs) > 0 && len(vs) == len(cl.Elts) {
					fr.env.funcs[fr.pkg.info.Defs[vid]] = vs
				}
			}
		}
		st = x.expr(fr, st, s.X)
		return x.loop(fr, st, func(in c20State) c20State { return x.block(fr, in, s.Body.List) }, nil, false)
	case *ast.SwitchStmt:
		st = x.stmt(fr, st, s.Init)
		st = x.expr(fr, st, s.Tag)
		return x.clauses(fr, st, s.Body.List, false)
	case *ast.TypeSwitchStmt:
		st = x.stmt(fr, st, s.Init)
		st = x.stmt(fr, st, s.Assign)
		return x.clauses(fr, st, s.Body.List, false)
	case *ast.SelectStmt:
		return x.clauses(fr, st, s.Body.List, true)
	case *ast.EmptyStmt:
		return st
	}
	x.loud("statement-kind", fmt.Sprintf("%T in %s", s, fr.fnName))
	return st
}

func (x *c20X) loop(fr *c20Frame, st c20State, body func(c20State) c20State, post func(c20State) c20State, forever bool) c20State {
	brk := c20State{dead: true}
	in := st
	for iter := 0; iter < 3; iter++ {
		cont := c20State{dead: true}
		fr.brk = append(fr.brk, &brk)
		fr.cont = append(fr.cont, &cont)
		out := body(in)
		fr.brk = fr.brk[:len(fr.brk)-1]
		fr.cont = fr.cont[:len(fr.cont)-1]
		out = out.merge(cont)
		if post != nil && !out.dead {
			out = post(out)
		}
		next := in.merge(out)
		if next.may == in.may && next.must == in.must {
			in = next
			break
		}
		in = next
	}
	if forever { // `for { … }` leaves only through break / return
		return brk
	}
	return in.merge(brk)
}

func (x *c20X) clauses(fr *c20Frame, st c20State, list []ast.Stmt, isSelect bool) c20State {
	out := c20State{dead: true}
	brk := c20State{dead: true}
	hasDefault := false
	fr.brk = append(fr.brk, &brk)
	for _, c := range list {
		in := st
		var body []ast.Stmt
		switch c := c.(type) {
		case *ast.CaseClause:
			if c.List == nil {
				hasDefault = true
			}
			for _, e := range c.List {
				in = x.expr(fr, in, e)
			}
			body = c.Body
		case *ast.CommClause:
			if c.Comm == nil {
				hasDefault = true
			}
			in = x.stmt(fr, in, c.Comm)
			body = c.Body
		}
		out = out.merge(x.block(fr, in, body))
	}
	fr.brk = fr.brk[:len(fr.brk)-1]
	out = out.merge(brk)
	if !hasDefault && !isSelect {
		out = out.merge(st)
	}
	if isSelect && len(list) == 0 {
		return c20State{dead: true} // select {} blocks forever
	}
	return out
}

// ---------------------------------------------------------------------------------------------
// driver of the extraction

type c20Result struct {
	x        *c20X
	edges    []string            // "held:M acq:M"
	witness  map[string][]string // edge -> call stacks
	accesses []*c20Access
}

func c20Extract(serverDir, tableDir string) (*c20Result, error) {
	c20Touch = map[*c20Fn]bool{}
	c20AsyncFns = nil
	x := &c20X{fns: map[*types.Func]*c20Fn{}, byName: map[string][]*c20Fn{}, owner: map[*types.Var]string{}, extField: map[types.Object]bool{},
		mutex: map[string]bool{}, lockIdx: map[string]int{}, edges: map[c20Edge][]string{}, access: map[string]*c20Access{},
		leaks: map[string]string{}, unknown: map[string]string{}, fieldFns: map[*types.Var][]*c20Val{},
		asyncSeen: map[string]bool{}, stats: map[string]int{}, heldSite: map[int]string{},
		visited: map[*c20Fn]bool{}, called: map[*c20Fn]bool{}, litOwner: map[token.Pos]string{}, liveParams: map[types.Object]bool{}, aliasSum: map[*c20Fn]map[int]bool{}, userCb: map[string]bool{}}
	im := &c20Importer{known: map[string]*types.Package{}}
	tp, err := c20Load(tableDir, "github.com/osrg/gobgp/v4/internal/pkg/table", im)
	if err != nil {
		return nil, err
	}
	sp, err := c20Load(serverDir, "github.com/osrg/gobgp/v4/pkg/server", im)
	if err != nil {
		return nil, err
	}
	x.index(tp)
	x.index(sp)
	var all []*c20Fn
	for _, fn := range x.fns {
		all = append(all, fn)
	}
	sort.Slice(all, func(i, j int) bool {
		if all[i].pkg != all[j].pkg {
			return all[i].pkg.name < all[j].pkg.name
		}
		return all[i].decl.Pos() < all[j].decl.Pos()
	})
	runRoot := func(v *c20Val, env *c20Env, name string) {
		x.curRoot = name
		x.stack = x.stack[:0]
		fr := &c20Frame{pkg: v.pkg, env: newC20Env(), fnName: "<root>"}
		if env != nil {
			if v.fn != nil {
				x.visited[v.fn] = true
				x.run(v.pkg, v.fn.name, v.fn.decl.Body, v.fn.decl.Type, env, c20State{})
			} else {
				x.run(v.pkg, name, v.lit.Body, v.lit.Type, env, c20State{})
			}
			return
		}
		x.invoke(fr, c20State{}, v, nil)
	}
	runAsync := func(v *c20Val) {
		if v.fn != nil {
			x.called[v.fn] = true
			runRoot(v, nil, "async "+v.fn.name)
			return
		}
		runRoot(v, v.env.clone(), "async-lit@"+x.posStr(v.pkg, v.lit.Pos()))
	}
	// rounds: the sets of field-stored function values, asynchronous literals and the "has a caller"
	// relation grow; iterate until nothing changes.  Round structure: (a) discovery pass over every
	// function as a root (edges only), (b) recording pass from the entry points.
	for round := 0; round < 8; round++ {
		x.changed = false
		x.memo, x.inprog = map[string]c20State{}, map[string]bool{}
		x.unknown = map[string]string{}
		x.recording = false
		for _, fn := range all {
			runRoot(&c20Val{fn: fn, pkg: fn.pkg}, nil, fn.name)
		}
		for i := 0; i < len(x.asyncLits); i++ {
			runAsync(x.asyncLits[i])
		}
		for i := 0; i < len(c20AsyncFns); i++ {
			a := c20AsyncFns[i]
			runRoot(a.v, a.env.clone(), "go "+a.v.fn.name)
		}
		x.stats["rounds"] = round + 1
		if !x.changed {
			break
		}
	}
	// recording pass: entry points = declared functions nobody in the two packages calls, plus
	// everything that runs on its own goroutine.
	x.recording = true
	x.memo, x.inprog = map[string]c20State{}, map[string]bool{}
	x.unknown = map[string]string{}
	x.access, x.leaks = map[string]*c20Access{}, map[string]string{}
	fieldStored := map[*c20Fn]bool{}
	for _, vs := range x.fieldFns {
		for _, v := range vs {
			if v.fn != nil {
				fieldStored[v.fn] = true
			}
		}
	}
	entries := 0
	for _, fn := range all {
		if !x.called[fn] && !fieldStored[fn] {
			entries++
			runRoot(&c20Val{fn: fn, pkg: fn.pkg}, nil, fn.name)
		}
	}
	for i := 0; i < len(x.asyncLits); i++ {
		runAsync(x.asyncLits[i])
	}
	for i := 0; i < len(c20AsyncFns); i++ {
		a := c20AsyncFns[i]
		runRoot(a.v, a.env.clone(), "go "+a.v.fn.name)
	}
	x.stats["functions"] = len(all)
	x.stats["entry_functions"] = entries
	x.stats["async_roots"] = len(x.asyncLits) + len(c20AsyncFns)
	x.stats["lock_classes"] = len(x.mutex)
	res := &c20Result{x: x, witness: map[string][]string{}}
	for k, w := range x.edges {
		s := x.bitName(k.held) + " " + x.bitName(k.acq)
		res.edges = append(res.edges, s)
		res.witness[s] = w
	}
	sort.Strings(res.edges)
	for _, a := range x.access {
		res.accesses = append(res.accesses, a)
	}
	sort.Slice(res.accesses, func(i, j int) bool {
		a, b := res.accesses[i], res.accesses[j]
		return fmt.Sprint(a.what, a.fn, a.write, a.must) < fmt.Sprint(b.what, b.fn, b.write, b.must)
	})
	return res, nil
}

// c20Cycle finds a cycle in the class graph (modes dropped); returns the classes on it
func c20Cycle(edges []string) []string {
	adj := map[string][]string{}
	for _, e := range edges {
		f := strings.Fields(e)
		h, a := strings.Split(f[0], ":")[0], strings.Split(f[1], ":")[0]
		adj[h] = append(adj[h], a)
	}
	color := map[string]int{}
	var stack []string
	var found []string
	var dfs func(n string) bool
	dfs = func(n string) bool {
		color[n] = 1
		stack = append(stack, n)
		for _, m := range adj[n] {
			if color[m] == 1 {
				for i, s := range stack {
					if s == m {
						found = append(append([]string{}, stack[i:]...), m)
						return true
					}
				}
			}
			if color[m] == 0 && dfs(m) {
				return true
			}
		}
		stack = stack[:len(stack)-1]
		color[n] = 2
		return false
	}
	keys := []string{}
	for k := range adj {
		keys = append(keys, k)
	}
	sort.Strings(keys)
	for _, k := range keys {
		if color[k] == 0 && dfs(k) {
			return found
		}
	}
	return nil
}

func TestVerifC20(t *testing.T) {
	o := vOpen(t)
	defer o.close()
	res, err := c20Extract(".", "../../internal/pkg/table")
	if err != nil {
		o.fail("extractor-failed", err.Error())
		t.Fatal(err)
	}
	c20Report(o, res)
}

func c20Report(o *vOut, res *c20Result) {
	x := res.x
	// --- loud part: shapes the translator does not understand
	keys := []string{}
	for k := range x.unknown {
		keys = append(keys, k)
	}
	sort.Strings(keys)
	for _, k := range keys {
		o.fail("extractor-unknown-shape", map[string]string{"shape": k, "reached_via": x.unknown[k]})
	}
	// --- lock classes
	classes := []string{}
	for c := range x.mutex {
		s := c
		if v, ok := c20Short[c]; ok {
			s = v
		}
		classes = append(classes, s)
	}
	sort.Strings(classes)
	for _, c := range classes {
		o.ask("1", "class %s", c)
	}
	o.ask(fmt.Sprint(len(classes)), "classes")
	// --- (i) lock-order edges
	for _, e := range res.edges {
		o.ask("1", "edge %s", e)
		o.stat("edge_"+strings.ReplaceAll(e, " ", "->"), 1)
		f := strings.Fields(e)
		if strings.Split(f[0], ":")[0] == strings.Split(f[1], ":")[0] {
			o.fail("same-class-nesting", map[string]any{"edge": e, "sites": res.witness[e]})
		}
	}
	o.ask(fmt.Sprint(len(res.edges)), "edges")
	if cyc := c20Cycle(res.edges); cyc != nil {
		sites := map[string][]string{}
		for i := 0; i+1 < len(cyc); i++ {
			for _, e := range res.edges {
				f := strings.Fields(e)
				if strings.Split(f[0], ":")[0] == cyc[i] && strings.Split(f[1], ":")[0] == cyc[i+1] {
					sites[e] = res.witness[e]
				}
			}
		}
		o.fail("lock-order-cycle", map[string]any{"cycle": cyc, "edges": sites})
	}
	// --- lock leaks
	lk := []string{}
	for fn, l := range x.leaks {
		lk = append(lk, fn+" "+l)
	}
	sort.Strings(lk)
	for _, l := range lk {
		o.fail("lock-held-on-return", l)
	}
	// --- (ii) lockset discipline
	for _, a := range res.accesses {
		names := x.setNames(a.must)
		w := "r"
		if a.write {
			w = "w"
		}
		line := fmt.Sprintf("access %s %s %s %d %s", a.what, a.fn, w, len(names), strings.Join(names, " "))
		o.ask("ok", "%s", strings.TrimSpace(line))
		o.stat("access_"+a.what, 1)
		if a.what == "shardEscape" {
			o.fail("live-shard-state-escapes-lock", map[string]any{"in": a.fn, "flow": a.root,
				"rule": "what leaves a shard lock must be a copy (snapshot()/GetAllKnownPathList()): the caller reads it after the lock is released while Table.update -> destination.Calculate rewrites the same destination"})
		} else if !c20GuardOK(a.what, a.fn, a.write, names) {
			o.fail("lockset-violation", map[string]any{"what": a.what, "in": a.fn, "write": a.write, "must_hold": names, "reached": a.root})
		}
	}
	// --- difference from the documented hierarchy shared -> refresh -> bucket -> shard -> fsm (printed, not failed)
	doc := map[string]int{"shared": 0, "refresh": 1, "bucket": 2, "shard": 3, "fsm": 4}
	for _, e := range res.edges {
		f := strings.Fields(e)
		i, ok1 := doc[strings.Split(f[0], ":")[0]]
		j, ok2 := doc[strings.Split(f[1], ":")[0]]
		if ok1 && ok2 && j < i {
			o.stat("against_documented_hierarchy_"+strings.ReplaceAll(e, " ", "->"), 1)
			if len(res.witness[e]) > 0 {
				o.sample("against documented hierarchy: " + e + "  e.g. " + res.witness[e][0])
			}
		}
	}
	ucb := []string{}
	for k := range x.userCb {
		ucb = append(ucb, k)
	}
	sort.Strings(ucb)
	for _, k := range ucb {
		o.stat("untraced_callback_under_lock: "+k, 1)
	}
	// --- (iii) joined goroutine hand-offs
	c20ReportHandoffs(o, x)
	// --- (iv) totality of what the shutdown paths format for logs / events
	c20ReportTotality(o, x)
	for k, v := range x.stats {
		o.stat(k, v)
	}
	for i, e := range res.edges {
		if i%7 == 0 && len(res.witness[e]) > 0 {
			o.sample(e + "  e.g. " + res.witness[e][0])
		}
	}
}

// c20GuardOK is the Go-side restatement of the lockset rules (independent of the Lean table).
func c20GuardOK(what, fn string, write bool, must []string) bool {
	has := func(s string) bool {
		for _, m := range must {
			if m == s {
				return true
			}
		}
		return false
	}
	any := func(c string) bool { return has(c+":W") || has(c+":R") }
	switch what {
	case "sentPaths":
		return (has("bucket:W") && any("refresh")) || has("refresh:W")
	case "prefixLimitWarned", "llgrEndChs", "pconfUpdate", "isPrefixLimit", "updatePrefixLimitConfig":
		return has("fsm:W")
	case "knownPathList":
		return !write || has("shard:W")
	case "getOrCreateDest", "deleteDest":
		return has("shard:W")
	case "getTables":
		return any("tm")
	case "shardEscape":
		return false // live shard state must never reach a caller that does not hold the shard lock
	}
	return false
}
