//go:build verif

package server

// C10 server-context harness: export policies evaluated where the daemon evaluates them — after the real
// prePolicyFilterpath toward eBGP / iBGP / route-server-client peers — with conditions and actions that
// depend on PolicyOptions (next-hop-in-list, neighbor set, set next-hop self / peer-address / unchanged /
// address).  The path handed to the policy (after the export rewriting) is rendered and sent to the Lean
// model together with the DOCUMENTED options (the condition sees the route's ORIGINAL next hop, `unchanged`
// restores it, `self` is the local address of the session, the neighbour is the peer the route is exported
// to); the model predicts verdict and attributes of the real ApplyPolicy call made with the options the
// server built (correspondence).  Model-independent oracles: the same policy evaluated with hand-built
// documented options must give the same result (export-policy-context-differs:<peer type>), and the
// effective attribute list of the result must agree with the accessors.

import (
	"fmt"
	"io"
	"log/slog"
	"math/big"
	"net/netip"
	"strings"
	"testing"
	"time"

	"github.com/osrg/gobgp/v4/internal/pkg/table"
	"github.com/osrg/gobgp/v4/pkg/config/oc"
	"github.com/osrg/gobgp/v4/pkg/packet/bgp"
)

func c10sNum(a netip.Addr) string {
	if !a.IsValid() {
		return "0"
	}
	return new(big.Int).SetBytes(a.AsSlice()).String()
}

func c10sB(b bool) string {
	if b {
		return "1"
	}
	return "0"
}

func c10sAddr(a netip.Addr) string { return c10sB(a.Is6()) + " " + c10sNum(a) }

func c10sOptAddr(a netip.Addr) string {
	if !a.IsValid() {
		return "0 0 0"
	}
	return "1 " + c10sAddr(a)
}

// accessor rendering of a path, the format of the table harness / Lean driver
func c10sShow(p *table.Path) string {
	var b strings.Builder
	if o, err := p.GetOrigin(); err == nil {
		fmt.Fprintf(&b, "o %d", o)
	} else {
		b.WriteString("o -")
	}
	if ap := p.GetAsPath(); ap != nil {
		fmt.Fprintf(&b, " p %d", len(ap.Value))
		for _, s := range ap.Value {
			fmt.Fprintf(&b, " %d %d", s.GetType(), len(s.GetAS()))
			for _, a := range s.GetAS() {
				fmt.Fprintf(&b, " %d", a)
			}
		}
	} else {
		b.WriteString(" p 0")
	}
	if nh := p.GetNexthop(); nh.IsValid() {
		fmt.Fprintf(&b, " nh %d:%s", map[bool]int{false: 4, true: 6}[nh.Is6()], c10sNum(nh))
	} else {
		b.WriteString(" nh -")
	}
	if m, err := p.GetMed(); err == nil {
		fmt.Fprintf(&b, " med %d", m)
	} else {
		b.WriteString(" med -")
	}
	lp := "-"
	for _, a := range p.GetPathAttrs() {
		if a.GetType() == bgp.BGP_ATTR_TYPE_LOCAL_PREF {
			lp = fmt.Sprint(a.(*bgp.PathAttributeLocalPref).Value)
		}
	}
	fmt.Fprintf(&b, " lp %s", lp)
	cs := p.GetCommunities()
	fmt.Fprintf(&b, " c %d", len(cs))
	for _, c := range cs {
		fmt.Fprintf(&b, " %d", c)
	}
	b.WriteString(" e 0 l 0")
	return b.String()
}

// the same from the effective attribute list
func c10sShowAttrs(p *table.Path) string {
	by := map[bgp.BGPAttrType]bgp.PathAttributeInterface{}
	for _, a := range p.GetPathAttrs() {
		by[a.GetType()] = a
	}
	var b strings.Builder
	if a, ok := by[bgp.BGP_ATTR_TYPE_ORIGIN]; ok {
		fmt.Fprintf(&b, "o %d", a.(*bgp.PathAttributeOrigin).Value)
	} else {
		b.WriteString("o -")
	}
	if a, ok := by[bgp.BGP_ATTR_TYPE_AS_PATH]; ok {
		ap := a.(*bgp.PathAttributeAsPath)
		fmt.Fprintf(&b, " p %d", len(ap.Value))
		for _, s := range ap.Value {
			fmt.Fprintf(&b, " %d %d", s.GetType(), len(s.GetAS()))
			for _, x := range s.GetAS() {
				fmt.Fprintf(&b, " %d", x)
			}
		}
	} else {
		b.WriteString(" p 0")
	}
	nh := netip.Addr{}
	if a, ok := by[bgp.BGP_ATTR_TYPE_NEXT_HOP]; ok {
		nh = a.(*bgp.PathAttributeNextHop).Value
	} else if a, ok := by[bgp.BGP_ATTR_TYPE_MP_REACH_NLRI]; ok {
		nh = a.(*bgp.PathAttributeMpReachNLRI).Nexthop
	}
	if nh.IsValid() {
		fmt.Fprintf(&b, " nh %d:%s", map[bool]int{false: 4, true: 6}[nh.Is6()], c10sNum(nh))
	} else {
		b.WriteString(" nh -")
	}
	if a, ok := by[bgp.BGP_ATTR_TYPE_MULTI_EXIT_DISC]; ok {
		fmt.Fprintf(&b, " med %d", a.(*bgp.PathAttributeMultiExitDisc).Value)
	} else {
		b.WriteString(" med -")
	}
	if a, ok := by[bgp.BGP_ATTR_TYPE_LOCAL_PREF]; ok {
		fmt.Fprintf(&b, " lp %d", a.(*bgp.PathAttributeLocalPref).Value)
	} else {
		b.WriteString(" lp -")
	}
	var cs []uint32
	if a, ok := by[bgp.BGP_ATTR_TYPE_COMMUNITIES]; ok {
		cs = a.(*bgp.PathAttributeCommunities).Value
	}
	fmt.Fprintf(&b, " c %d", len(cs))
	for _, c := range cs {
		fmt.Fprintf(&b, " %d", c)
	}
	b.WriteString(" e 0 l 0")
	return b.String()
}

// `route` protocol line of the path as the policy sees it
func c10sRouteLine(id int, p *table.Path) string {
	var b strings.Builder
	nl := p.GetNlri().(*bgp.IPAddrPrefix).Prefix
	src := p.GetSource()
	fmt.Fprintf(&b, "route %d %s %s %s %d", id, c10sB(p.IsWithdraw), c10sB(p.GetFamily() == bgp.RF_IPv6_UC), c10sAddr(nl.Addr()), nl.Bits())
	fmt.Fprintf(&b, " %s %d %d", c10sOptAddr(src.Address), src.AS, src.LocalAS)
	if o, err := p.GetOrigin(); err == nil {
		fmt.Fprintf(&b, " 1 %d", o)
	} else {
		b.WriteString(" 0 0")
	}
	if ap := p.GetAsPath(); ap != nil {
		fmt.Fprintf(&b, " %d", len(ap.Value))
		for _, s := range ap.Value {
			fmt.Fprintf(&b, " %d %d", s.GetType(), len(s.GetAS()))
			for _, a := range s.GetAS() {
				fmt.Fprintf(&b, " %d", a)
			}
		}
	} else {
		b.WriteString(" 0")
	}
	fmt.Fprintf(&b, " %s", c10sOptAddr(p.GetNexthop()))
	if m, err := p.GetMed(); err == nil {
		fmt.Fprintf(&b, " 1 %d", m)
	} else {
		b.WriteString(" 0 0")
	}
	lp := " 0 0"
	for _, a := range p.GetPathAttrs() {
		if a.GetType() == bgp.BGP_ATTR_TYPE_LOCAL_PREF {
			lp = fmt.Sprintf(" 1 %d", a.(*bgp.PathAttributeLocalPref).Value)
		}
	}
	b.WriteString(lp)
	cs := p.GetCommunities()
	fmt.Fprintf(&b, " %d", len(cs))
	for _, c := range cs {
		fmt.Fprintf(&b, " %d", c)
	}
	b.WriteString(" 0 0")
	return b.String()
}

type c10sPeer struct {
	name string
	kind string // ebgp / ibgp / rs-client
	peer *peer
	info *table.PeerInfo
}

type c10sStmt struct {
	id   int
	line string // conditions and actions part of the `stmt` protocol line
	cfg  oc.Statement
}

var c10sAddrs = []string{"10.0.0.21", "10.0.0.99", "10.0.0.1", "10.0.1.1", "10.0.0.50", "10.0.0.11", "10.0.0.12", "10.0.0.13", "10.0.0.22"}

func TestVerifC10Server(t *testing.T) {
	o := vOpen(t)
	defer o.close()
	r := &vRand{s: o.seed*15485863 + 10}
	logger := slog.New(slog.NewTextHandler(io.Discard, nil))
	s := NewBgpServer()
	g := &oc.Global{}
	g.Config.As = 65000
	g.Config.RouterId = netip.MustParseAddr("10.255.0.1")
	rib := table.NewTableManager(logger, []bgp.Family{bgp.RF_IPv4_UC})
	policy := table.NewRoutingPolicy(logger)

	mkPeer := func(name, kind, addr string, as uint32, local string, rs bool) *c10sPeer {
		n := &oc.Neighbor{}
		n.Config.NeighborAddress = netip.MustParseAddr(addr)
		n.Config.PeerAs = as
		n.RouteServer.Config.RouteServerClient = rs
		n.AfiSafis = []oc.AfiSafi{{Config: oc.AfiSafiConfig{AfiSafiName: oc.AFI_SAFI_TYPE_IPV4_UNICAST, Enabled: true}}}
		if err := oc.SetDefaultNeighborConfigValues(n, nil, g); err != nil {
			t.Fatal(err)
		}
		n.State.RemoteRouterId = netip.MustParseAddr(addr)
		p := newPeer(g, n, bgp.BGP_FSM_IDLE, rib, policy, logger)
		p.fsm.familyMap.Store(map[bgp.Family]bgp.BGPAddPathMode{bgp.RF_IPv4_UC: bgp.BGP_ADD_PATH_NONE})
		info := table.NewPeerInfo(g, n, n.State.PeerAs, n.Config.LocalAs, n.State.RemoteRouterId, g.Config.RouterId, netip.MustParseAddr(addr), netip.MustParseAddr(local))
		p.peerInfo.Store(info)
		return &c10sPeer{name, kind, p, info}
	}
	peers := []*c10sPeer{
		mkPeer("e1", "ebgp", "10.0.0.11", 65011, "10.0.0.1", false),
		mkPeer("i1", "ibgp", "10.0.0.12", 65000, "10.0.0.1", false),
		mkPeer("rs1", "rs-client", "10.0.0.13", 65013, "10.0.0.1", true),
		mkPeer("e2", "ebgp", "10.0.1.11", 65012, "10.0.1.1", false),
	}
	sources := []*table.PeerInfo{
		{PeerType: oc.PEER_TYPE_EXTERNAL, AS: 65021, LocalAS: 65000, Address: netip.MustParseAddr("10.0.0.21"), ID: netip.MustParseAddr("10.0.0.21"), LocalID: g.Config.RouterId},
		{PeerType: oc.PEER_TYPE_INTERNAL, AS: 65000, LocalAS: 65000, Address: netip.MustParseAddr("10.0.0.22"), ID: netip.MustParseAddr("10.0.0.22"), LocalID: g.Config.RouterId},
		{PeerType: oc.PEER_TYPE_EXTERNAL, AS: 65023, LocalAS: 65000, Address: netip.MustParseAddr("10.0.0.23"), ID: netip.MustParseAddr("10.0.0.23"), LocalID: g.Config.RouterId, RouteServerClient: true},
		{}, // locally originated
		// a confederation member neighbor in another member AS: an eBGP session as far as route-type is concerned
		{PeerType: oc.PEER_TYPE_EXTERNAL, AS: 65101, LocalAS: 65000, Confederation: true, Address: netip.MustParseAddr("10.0.0.24"), ID: netip.MustParseAddr("10.0.0.24"), LocalID: g.Config.RouterId},
	}
	addr := func() netip.Addr { return netip.MustParseAddr(c10sAddrs[r.intn(len(c10sAddrs))]) }

	nextSt, nextPol := 0, 0
	newStmt := func() *c10sStmt {
		st := &c10sStmt{id: nextSt}
		nextSt++
		st.cfg.Name = fmt.Sprintf("st%d", st.id)
		var conds, acts []string
		// conditions in NewStatement order: prefix(0) neighbor(1) as-path-length(3) route-type(5) next-hop(11) med-eq(14)
		if r.chance(30) {
			opt := r.pick(0, 2)
			conds = append(conds, fmt.Sprintf("0 0 %d", opt))
			st.cfg.Conditions.MatchPrefixSet = oc.MatchPrefixSet{PrefixSet: "ps0", MatchSetOptions: []oc.MatchSetOptionsRestrictedType{"any", "", "invert"}[opt]}
			o.stat("cond_prefix", 1)
		}
		if r.chance(40) {
			opt := r.pick(0, 2)
			conds = append(conds, fmt.Sprintf("1 1 %d", opt))
			st.cfg.Conditions.MatchNeighborSet = oc.MatchNeighborSet{NeighborSet: "ns1", MatchSetOptions: []oc.MatchSetOptionsRestrictedType{"any", "", "invert"}[opt]}
			o.stat("cond_neighbor", 1)
		}
		if r.chance(20) {
			op, v := r.intn(3), r.pick(1, 2, 3)
			conds = append(conds, fmt.Sprintf("3 %d %d", op, v))
			st.cfg.Conditions.BgpConditions.AsPathLength = oc.AsPathLength{Operator: []oc.AttributeComparison{"attribute-eq", "attribute-ge", "attribute-le"}[op], Value: uint32(v)}
		}
		if r.chance(15) {
			v := 1 + r.intn(3)
			conds = append(conds, fmt.Sprintf("5 %d", v))
			st.cfg.Conditions.BgpConditions.RouteType = []oc.RouteType{"", oc.ROUTE_TYPE_INTERNAL, oc.ROUTE_TYPE_EXTERNAL, oc.ROUTE_TYPE_LOCAL}[v]
		}
		if r.chance(55) {
			n := 1 + r.intn(2)
			l := fmt.Sprintf("11 %d", n)
			for i := 0; i < n; i++ {
				a := addr()
				l += fmt.Sprintf(" %s 32", c10sAddr(a))
				st.cfg.Conditions.BgpConditions.NextHopInList = append(st.cfg.Conditions.BgpConditions.NextHopInList, a)
			}
			conds = append(conds, l)
			o.stat("cond_next_hop", 1)
		}
		if r.chance(10) {
			v := r.pick(10, 100)
			conds = append(conds, fmt.Sprintf("14 %d", v))
			st.cfg.Conditions.BgpConditions.MedEq = uint32(v)
		}
		route := r.pick(0, 0, 1, 1, 2)
		st.cfg.Actions.RouteDisposition = []oc.RouteDisposition{oc.ROUTE_DISPOSITION_NONE, oc.ROUTE_DISPOSITION_ACCEPT_ROUTE, oc.ROUTE_DISPOSITION_REJECT_ROUTE}[route]
		// actions in NewStatement order: community(0) med(3) local-pref(4) next-hop(6)
		if r.chance(20) {
			c := uint32(65000<<16 | r.pick(1, 2))
			acts = append(acts, fmt.Sprintf("0 0 1 %d", c))
			st.cfg.Actions.BgpActions.SetCommunity = oc.SetCommunity{Options: "add", SetCommunityMethod: oc.SetCommunityMethod{CommunitiesList: []string{fmt.Sprintf("%d:%d", c>>16, c&0xffff)}}}
		}
		if r.chance(25) {
			v := r.pick(7, 10, 100)
			acts = append(acts, fmt.Sprintf("3 1 0 %d", v))
			st.cfg.Actions.BgpActions.SetMed = oc.BgpSetMedType(fmt.Sprint(v))
		}
		if r.chance(15) {
			v := r.pick(50, 200)
			acts = append(acts, fmt.Sprintf("4 %d", v))
			st.cfg.Actions.BgpActions.SetLocalPref = uint32(v)
		}
		if r.chance(55) {
			kind := r.pick(0, 1, 2, 3, 3)
			switch kind {
			case 0:
				a := addr()
				acts = append(acts, "6 0 "+c10sAddr(a))
				st.cfg.Actions.BgpActions.SetNextHop = oc.BgpNextHopType(a.String())
			default:
				acts = append(acts, fmt.Sprintf("6 %d 0 0", kind))
				st.cfg.Actions.BgpActions.SetNextHop = []oc.BgpNextHopType{"", "self", "peer-address", "unchanged"}[kind]
			}
			o.stat(fmt.Sprintf("act_next_hop_%d", kind), 1)
		}
		st.line = fmt.Sprintf("%d", len(conds))
		for _, c := range conds {
			st.line += " " + c
		}
		st.line += fmt.Sprintf(" %d %d", route, len(acts))
		for _, a := range acts {
			st.line += " " + a
		}
		return st
	}

	nWorlds := 600
	if o.thorough {
		nWorlds = 3000
	}
	routeID := 0
	for wi := 0; wi < nWorlds; wi++ {
		// defined sets: ps0 (prefixes), ns1 (neighbours = a subset of the peers' addresses)
		cfg := &oc.RoutingPolicy{}
		pfx := []string{"10.100.0.0/16", "10.0.0.0/8", "10.101.0.0/16"}[r.intn(3)]
		pp := netip.MustParsePrefix(pfx)
		cfg.DefinedSets.PrefixSets = []oc.PrefixSet{{PrefixSetName: "ps0", PrefixList: []oc.Prefix{{IpPrefix: pp, MasklengthRange: fmt.Sprintf("%d..32", pp.Bits())}}}}
		var nsList []string
		nsLine := ""
		for _, p := range peers {
			if r.chance(40) {
				nsList = append(nsList, p.info.Address.String())
				nsLine += fmt.Sprintf(" %s 32", c10sAddr(p.info.Address))
			}
		}
		cfg.DefinedSets.NeighborSets = []oc.NeighborSet{{NeighborSetName: "ns1", NeighborInfoList: nsList}}
		o.op("reset")
		o.op("defset prefix 0 1 1 %s %d %d 32", c10sAddr(pp.Addr()), pp.Bits(), pp.Bits())
		o.op("defset neighbor 1 %d%s", len(nsList), nsLine)
		var polNames []string
		var polIDs []int
		for i, np := 0, 1+r.intn(2); i < np; i++ {
			pd := oc.PolicyDefinition{Name: fmt.Sprintf("pol%d", nextPol)}
			line := ""
			ns := 1 + r.intn(3)
			for j := 0; j < ns; j++ {
				st := newStmt()
				o.op("stmt %d %s", st.id, st.line)
				pd.Statements = append(pd.Statements, st.cfg)
				line += fmt.Sprintf(" %d", st.id)
			}
			o.op("policy %d %d%s", nextPol, ns, line)
			cfg.PolicyDefinitions = append(cfg.PolicyDefinitions, pd)
			polNames = append(polNames, pd.Name)
			polIDs = append(polIDs, nextPol)
			nextPol++
		}
		// slot 0: the global export policy; slot 1: the route-server client's export policy
		ap := map[string]oc.ApplyPolicy{}
		defs := [2]int{r.pick(1, 1, 2), r.pick(1, 1, 2)}
		for slot, id := range []string{table.GLOBAL_RIB_NAME, "10.0.0.13"} {
			a := oc.ApplyPolicy{}
			a.Config.ExportPolicyList = polNames
			a.Config.DefaultExportPolicy = []oc.DefaultPolicyType{"", oc.DEFAULT_POLICY_TYPE_ACCEPT_ROUTE, oc.DEFAULT_POLICY_TYPE_REJECT_ROUTE}[defs[slot]]
			ap[id] = a
			line := fmt.Sprintf("assign %d %d %d", slot, defs[slot], len(polIDs))
			for _, x := range polIDs {
				line += fmt.Sprintf(" %d", x)
			}
			o.op("%s", line)
		}
		if err := policy.Reset(cfg, ap); err != nil {
			t.Fatalf("C10 server: configuration rejected: %v", err)
		}
		for ri := 0; ri < 6; ri++ {
			src := sources[r.pick(0, 1, 2, 3, 3, 4)]
			nlri, _ := bgp.NewIPAddrPrefix(netip.MustParsePrefix(fmt.Sprintf("10.%d.%d.0/24", 100+r.intn(3), r.intn(2))))
			orig := addr()
			if src.Address.IsValid() && r.chance(60) {
				orig = src.Address
			}
			if !src.Address.IsValid() && r.chance(30) {
				orig = netip.MustParseAddr("0.0.0.0")
			}
			attrs := []bgp.PathAttributeInterface{bgp.NewPathAttributeOrigin(uint8(r.intn(3)))}
			asl := []uint32{}
			if src.AS != 0 && src.AS != 65000 {
				asl = append(asl, src.AS)
			}
			for i, n := 0, r.intn(3); i < n; i++ {
				asl = append(asl, uint32(r.pick(65031, 65032, 200)))
			}
			params := []bgp.AsPathParamInterface{}
			if len(asl) > 0 {
				params = append(params, bgp.NewAs4PathParam(bgp.BGP_ASPATH_ATTR_TYPE_SEQ, asl))
			}
			attrs = append(attrs, bgp.NewPathAttributeAsPath(params))
			nh, _ := bgp.NewPathAttributeNextHop(orig)
			attrs = append(attrs, nh)
			if r.chance(50) {
				attrs = append(attrs, bgp.NewPathAttributeMultiExitDisc(uint32(r.pick(10, 100, 5))))
			}
			if r.chance(40) {
				attrs = append(attrs, bgp.NewPathAttributeLocalPref(uint32(r.pick(100, 200))))
			}
			if r.chance(30) {
				attrs = append(attrs, bgp.NewPathAttributeCommunities([]uint32{65000<<16 | uint32(r.pick(1, 3))}))
			}
			path := table.NewPath(bgp.RF_IPv4_UC, src, bgp.PathNLRI{NLRI: nlri}, false, attrs, time.Unix(1700000000, 0), false)
			for _, tp := range peers {
				p2, opts, stop := s.prePolicyFilterpath(tp.peer, path, nil)
				if stop || p2 == nil {
					o.stat("stopped_before_policy_"+tp.kind, 1)
					continue
				}
				// the documented context
				docOld := orig
				if !src.Address.IsValid() && orig.IsUnspecified() {
					docOld = tp.info.LocalAddress // "the OldNextHop option should be set to the local address"
				}
				routeID++
				o.op("%s", c10sRouteLine(routeID, p2))
				o.op("opts %d %s %s %s %s 0 0", routeID, c10sOptAddr(tp.info.Address), c10sOptAddr(tp.info.LocalAddress), c10sB(tp.info.Confederation), c10sOptAddr(docOld))
				slot := 0
				if tp.kind == "rs-client" {
					slot = 1
				}
				show := func(p *table.Path) string {
					if p == nil {
						return "reject"
					}
					return "accept " + c10sShow(p)
				}
				res := tp.peer.policy.ApplyPolicy(tp.peer.TableID(), table.POLICY_DIRECTION_EXPORT, p2, opts)
				got := show(res)
				o.ask(got, "eval %d %d %d", slot, routeID, routeID)
				o.stat("export_eval_"+tp.kind+"_"+strings.Fields(got)[0], 1)
				if path.GetNexthop() != p2.GetNexthop() {
					o.stat("next_hop_rewritten_"+tp.kind, 1)
				}
				// model-independent: the documented options give the same result as the options the server built
				doc := &table.PolicyOptions{Info: tp.info, OldNextHop: docOld}
				if want := show(tp.peer.policy.ApplyPolicy(tp.peer.TableID(), table.POLICY_DIRECTION_EXPORT, p2, doc)); want != got {
					o.fail("export-policy-context-differs:"+tp.kind, map[string]any{"peer": tp.info.Address.String(), "route": c10sRouteLine(routeID, path),
						"original_next_hop": orig.String(), "options_old_next_hop": opts.OldNextHop.String(), "options_info_address": opts.Info.Address.String(),
						"policy": cfg.PolicyDefinitions, "with_server_options": got, "with_documented_options": want})
				}
				if res != nil {
					if a, e := c10sShow(res), c10sShowAttrs(res); a != e {
						o.fail("effective-attrs-differ-from-accessors:export:"+tp.kind, map[string]any{"route": c10sRouteLine(routeID, path), "accessors": a, "GetPathAttrs": e})
					}
				}
			}
		}
		o.stat("worlds", 1)
		if wi < 2 {
			o.sample(fmt.Sprintf("world %d: policies %v", wi, polNames))
		}
	}
}
