//go:build verif

package server

// C10 server-context harness: export policies evaluated where the daemon evaluates them — after the real
// prePolicyFilterpath toward eBGP / iBGP / route-server-client peers — with conditions and actions that
// depend on PolicyOptions (next-hop-in-list, neighbor set, set next-hop self / peer-address / unchanged /
// address).  The path handed to the policy (after the export rewriting) is rendered and sent to the Lean
// model together with the DOCUMENTED options (the condition sees the route's ORIGINAL next hop, `unchanged`
// restores it, `self` is the local address of the session, the neighbour is the peer the route is exported
// to); the model predicts verdict and attributes of the real ApplyPolicy call made with the options the
// server built (correspondence).  Model-independent oracles: the same policy evaluated with hand-built
// documented options must give the same result (export-policy-context-differs:<peer type>), and the
// effective attribute list of the result must agree with the accessors.

import (
	"fmt"
	"go/ast"
	"go/parser"
	"go/token"
	"io"
	"log/slog"
	"math/big"
	"net/netip"
	"os"
	"strings"
	"testing"
	"time"

	"github.com/osrg/gobgp/v4/internal/pkg/table"
	"github.com/osrg/gobgp/v4/pkg/config/oc"
	"github.com/osrg/gobgp/v4/pkg/packet/bgp"
)

func c10sNum(a netip.Addr) string {
	if !a.IsValid() {
		return "0"
	}
	return new(big.Int).SetBytes(a.AsSlice()).String()
}

func c10sB(b bool) string {
	if b {
		return "1"
	}
	return "0"
}

func c10sAddr(a netip.Addr) string { return c10sB(a.Is6()) + " " + c10sNum(a) }

func c10sOptAddr(a netip.Addr) string {
	if !a.IsValid() {
		return "0 0 0"
	}
	return "1 " + c10sAddr(a)
}

// accessor rendering of a path, the format of the table harness / Lean driver
func c10sShow(p *table.Path) string {
	var b strings.Builder
	if o, err := p.GetOrigin(); err == nil {
		fmt.Fprintf(&b, "o %d", o)
	} else {
		b.WriteString("o -")
	}
	if ap := p.GetAsPath(); ap != nil {
		fmt.Fprintf(&b, " p %d", len(ap.Value))
		for _, s := range ap.Value {
			fmt.Fprintf(&b, " %d %d", s.GetType(), len(s.GetAS()))
			for _, a := range s.GetAS() {
				fmt.Fprintf(&b, " %d", a)
			}
		}
	} else {
		b.WriteString(" p 0")
	}
	if nh := p.GetNexthop(); nh.IsValid() {
		fmt.Fprintf(&b, " nh %d:%s", map[bool]int{false: 4, true: 6}[nh.Is6()], c10sNum(nh))
	} else {
		b.WriteString(" nh -")
	}
	if m, err := p.GetMed(); err == nil {
		fmt.Fprintf(&b, " med %d", m)
	} else {
		b.WriteString(" med -")
	}
	lp := "-"
	for _, a := range p.GetPathAttrs() {
		if a.GetType() == bgp.BGP_ATTR_TYPE_LOCAL_PREF {
			lp = fmt.Sprint(a.(*bgp.PathAttributeLocalPref).Value)
		}
	}
	fmt.Fprintf(&b, " lp %s", lp)
	cs := p.GetCommunities()
	fmt.Fprintf(&b, " c %d", len(cs))
	for _, c := range cs {
		fmt.Fprintf(&b, " %d", c)
	}
	b.WriteString(" e 0 l 0")
	return b.String()
}

// the same from the effective attribute list
func c10sShowAttrs(p *table.Path) string {
	by := map[bgp.BGPAttrType]bgp.PathAttributeInterface{}
	for _, a := range p.GetPathAttrs() {
		by[a.GetType()] = a
	}
	var b strings.Builder
	if a, ok := by[bgp.BGP_ATTR_TYPE_ORIGIN]; ok {
		fmt.Fprintf(&b, "o %d", a.(*bgp.PathAttributeOrigin).Value)
	} else {
		b.WriteString("o -")
	}
	if a, ok := by[bgp.BGP_ATTR_TYPE_AS_PATH]; ok {
		ap := a.(*bgp.PathAttributeAsPath)
		fmt.Fprintf(&b, " p %d", len(ap.Value))
		for _, s := range ap.Value {
			fmt.Fprintf(&b, " %d %d", s.GetType(), len(s.GetAS()))
			for _, x := range s.GetAS() {
				fmt.Fprintf(&b, " %d", x)
			}
		}
	} else {
		b.WriteString(" p 0")
	}
	nh := netip.Addr{}
	if a, ok := by[bgp.BGP_ATTR_TYPE_NEXT_HOP]; ok {
		nh = a.(*bgp.PathAttributeNextHop).Value
	} else if a, ok := by[bgp.BGP_ATTR_TYPE_MP_REACH_NLRI]; ok {
		nh = a.(*bgp.PathAttributeMpReachNLRI).Nexthop
	}
	if nh.IsValid() {
		fmt.Fprintf(&b, " nh %d:%s", map[bool]int{false: 4, true: 6}[nh.Is6()], c10sNum(nh))
	} else {
		b.WriteString(" nh -")
	}
	if a, ok := by[bgp.BGP_ATTR_TYPE_MULTI_EXIT_DISC]; ok {
		fmt.Fprintf(&b, " med %d", a.(*bgp.PathAttributeMultiExitDisc).Value)
	} else {
		b.WriteString(" med -")
	}
	if a, ok := by[bgp.BGP_ATTR_TYPE_LOCAL_PREF]; ok {
		fmt.Fprintf(&b, " lp %d", a.(*bgp.PathAttributeLocalPref).Value)
	} else {
		b.WriteString(" lp -")
	}
	var cs []uint32
	if a, ok := by[bgp.BGP_ATTR_TYPE_COMMUNITIES]; ok {
		cs = a.(*bgp.PathAttributeCommunities).Value
	}
	fmt.Fprintf(&b, " c %d", len(cs))
	for _, c := range cs {
		fmt.Fprintf(&b, " %d", c)
	}
	b.WriteString(" e 0 l 0")
	return b.String()
}

// `route` protocol line of the path as the policy sees it
func c10sRouteLine(id int, p *table.Path) string {
	var b strings.Builder
	nl := p.GetNlri().(*bgp.IPAddrPrefix).Prefix
	src := p.GetSource()
	fmt.Fprintf(&b, "route %d %s %s %s %d", id, c10sB(p.IsWithdraw), c10sB(p.GetFamily() == bgp.RF_IPv6_UC), c10sAddr(nl.Addr()), nl.Bits())
	fmt.Fprintf(&b, " %s %d %d", c10sOptAddr(src.Address), src.AS, src.LocalAS)
	if o, err := p.GetOrigin(); err == nil {
		fmt.Fprintf(&b, " 1 %d", o)
	} else {
		b.WriteString(" 0 0")
	}
	if ap := p.GetAsPath(); ap != nil {
		fmt.Fprintf(&b, " %d", len(ap.Value))
		for _, s := range ap.Value {
			fmt.Fprintf(&b, " %d %d", s.GetType(), len(s.GetAS()))
			for _, a := range s.GetAS() {
				fmt.Fprintf(&b, " %d", a)
			}
		}
	} else {
		b.WriteString(" 0")
	}
	fmt.Fprintf(&b, " %s", c10sOptAddr(p.GetNexthop()))
	if m, err := p.GetMed(); err == nil {
		fmt.Fprintf(&b, " 1 %d", m)
	} else {
		b.WriteString(" 0 0")
	}
	lp := " 0 0"
	for _, a := range p.GetPathAttrs() {
		if a.GetType() == bgp.BGP_ATTR_TYPE_LOCAL_PREF {
			lp = fmt.Sprintf(" 1 %d", a.(*bgp.PathAttributeLocalPref).Value)
		}
	}
	b.WriteString(lp)
	cs := p.GetCommunities()
	fmt.Fprintf(&b, " %d", len(cs))
	for _, c := range cs {
		fmt.Fprintf(&b, " %d", c)
	}
	b.WriteString(" 0 0")
	return b.String()
}

type c10sPeer struct {
	name string
	kind string // ebgp / ibgp / rs-client
	peer *peer
	info *table.PeerInfo
}

type c10sStmt struct {
	id   int
	line string // conditions and actions part of the `stmt` protocol line
	cfg  oc.Statement
}

var c10sAddrs = []string{"10.0.0.21", "10.0.0.99", "10.0.0.1", "10.0.1.1", "10.0.0.50", "10.0.0.11", "10.0.0.12", "10.0.0.13", "10.0.0.22"}

func TestVerifC10Server(t *testing.T) {
	o := vOpen(t)
	defer o.close()
	r := &vRand{s: o.seed*15485863 + 10}
	logger := slog.New(slog.NewTextHandler(io.Discard, nil))
	s := NewBgpServer()
	g := &oc.Global{}
	g.Config.As = 65000
	g.Config.RouterId = netip.MustParseAddr("10.255.0.1")
	rib := table.NewTableManager(logger, []bgp.Family{bgp.RF_IPv4_UC})
	policy := table.NewRoutingPolicy(logger)

	mkPeer := func(name, kind, addr string, as uint32, local string, rs bool) *c10sPeer {
		n := &oc.Neighbor{}
		n.Config.NeighborAddress = netip.MustParseAddr(addr)
		n.Config.PeerAs = as
		n.RouteServer.Config.RouteServerClient = rs
		n.AfiSafis = []oc.AfiSafi{{Config: oc.AfiSafiConfig{AfiSafiName: oc.AFI_SAFI_TYPE_IPV4_UNICAST, Enabled: true}}}
		if err := oc.SetDefaultNeighborConfigValues(n, nil, g); err != nil {
			t.Fatal(err)
		}
		n.State.RemoteRouterId = netip.MustParseAddr(addr)
		p := newPeer(g, n, bgp.BGP_FSM_IDLE, rib, policy, logger)
		p.fsm.familyMap.Store(map[bgp.Family]bgp.BGPAddPathMode{bgp.RF_IPv4_UC: bgp.BGP_ADD_PATH_NONE})
		info := table.NewPeerInfo(g, n, n.State.PeerAs, n.Config.LocalAs, n.State.RemoteRouterId, g.Config.RouterId, netip.MustParseAddr(addr), netip.MustParseAddr(local))
		p.peerInfo.Store(info)
		return &c10sPeer{name, kind, p, info}
	}
	peers := []*c10sPeer{
		mkPeer("e1", "ebgp", "10.0.0.11", 65011, "10.0.0.1", false),
		mkPeer("i1", "ibgp", "10.0.0.12", 65000, "10.0.0.1", false),
		mkPeer("rs1", "rs-client", "10.0.0.13", 65013, "10.0.0.1", true),
		mkPeer("e2", "ebgp", "10.0.1.11", 65012, "10.0.1.1", false),
	}
	sources := []*table.PeerInfo{
		{PeerType: oc.PEER_TYPE_EXTERNAL, AS: 65021, LocalAS: 65000, Address: netip.MustParseAddr("10.0.0.21"), ID: netip.MustParseAddr("10.0.0.21"), LocalID: g.Config.RouterId},
		{PeerType: oc.PEER_TYPE_INTERNAL, AS: 65000, LocalAS: 65000, Address: netip.MustParseAddr("10.0.0.22"), ID: netip.MustParseAddr("10.0.0.22"), LocalID: g.Config.RouterId},
		{PeerType: oc.PEER_TYPE_EXTERNAL, AS: 65023, LocalAS: 65000, Address: netip.MustParseAddr("10.0.0.23"), ID: netip.MustParseAddr("10.0.0.23"), LocalID: g.Config.RouterId, RouteServerClient: true},
		{}, // locally originated
		// a confederation member neighbor in another member AS: an eBGP session as far as route-type is concerned
		{PeerType: oc.PEER_TYPE_EXTERNAL, AS: 65101, LocalAS: 65000, Confederation: true, Address: netip.MustParseAddr("10.0.0.24"), ID: netip.MustParseAddr("10.0.0.24"), LocalID: g.Config.RouterId},
	}
	addr := func() netip.Addr { return netip.MustParseAddr(c10sAddrs[r.intn(len(c10sAddrs))]) }

	nextSt, nextPol := 0, 0
	newStmt := func() *c10sStmt {
		st := &c10sStmt{id: nextSt}
		nextSt++
		st.cfg.Name = fmt.Sprintf("st%d", st.id)
		var conds, acts []string
		// conditions in NewStatement order: prefix(0) neighbor(1) as-path-length(3) route-type(5) next-hop(11) med-eq(14)
		if r.chance(30) {
			opt := r.pick(0, 2)
			conds = append(conds, fmt.Sprintf("0 0 %d", opt))
			st.cfg.Conditions.MatchPrefixSet = oc.MatchPrefixSet{PrefixSet: "ps0", MatchSetOptions: []oc.MatchSetOptionsRestrictedType{"any", "", "invert"}[opt]}
			o.stat("cond_prefix", 1)
		}
		if r.chance(40) {
			opt := r.pick(0, 2)
			conds = append(conds, fmt.Sprintf("1 1 %d", opt))
			st.cfg.Conditions.MatchNeighborSet = oc.MatchNeighborSet{NeighborSet: "ns1", MatchSetOptions: []oc.MatchSetOptionsRestrictedType{"any", "", "invert"}[opt]}
			o.stat("cond_neighbor", 1)
		}
		if r.chance(20) {
			op, v := r.intn(3), r.pick(1, 2, 3)
			conds = append(conds, fmt.Sprintf("3 %d %d", op, v))
			st.cfg.Conditions.BgpConditions.AsPathLength = oc.AsPathLength{Operator: []oc.AttributeComparison{"attribute-eq", "attribute-ge", "attribute-le"}[op], Value: uint32(v)}
		}
		if r.chance(15) {
			v := 1 + r.intn(3)
			conds = append(conds, fmt.Sprintf("5 %d", v))
			st.cfg.Conditions.BgpConditions.RouteType = []oc.RouteType{"", oc.ROUTE_TYPE_INTERNAL, oc.ROUTE_TYPE_EXTERNAL, oc.ROUTE_TYPE_LOCAL}[v]
		}
		if r.chance(55) {
			n := 1 + r.intn(2)
			l := fmt.Sprintf("11 %d", n)
			for i := 0; i < n; i++ {
				a := addr()
				l += fmt.Sprintf(" %s 32", c10sAddr(a))
				st.cfg.Conditions.BgpConditions.NextHopInList = append(st.cfg.Conditions.BgpConditions.NextHopInList, a)
			}
			conds = append(conds, l)
			o.stat("cond_next_hop", 1)
		}
		if r.chance(10) {
			v := r.pick(10, 100)
			conds = append(conds, fmt.Sprintf("14 %d", v))
			st.cfg.Conditions.BgpConditions.MedEq = uint32(v)
		}
		route := r.pick(0, 0, 1, 1, 2)
		st.cfg.Actions.RouteDisposition = []oc.RouteDisposition{oc.ROUTE_DISPOSITION_NONE, oc.ROUTE_DISPOSITION_ACCEPT_ROUTE, oc.ROUTE_DISPOSITION_REJECT_ROUTE}[route]
		// actions in NewStatement order: community(0) med(3) local-pref(4) next-hop(6)
		if r.chance(20) {
			c := uint32(65000<<16 | r.pick(1, 2))
			acts = append(acts, fmt.Sprintf("0 0 1 %d", c))
			st.cfg.Actions.BgpActions.SetCommunity = oc.SetCommunity{Options: "add", SetCommunityMethod: oc.SetCommunityMethod{CommunitiesList: []string{fmt.Sprintf("%d:%d", c>>16, c&0xffff)}}}
		}
		if r.chance(25) {
			v := r.pick(7, 10, 100)
			acts = append(acts, fmt.Sprintf("3 1 0 %d", v))
			st.cfg.Actions.BgpActions.SetMed = oc.BgpSetMedType(fmt.Sprint(v))
		}
		if r.chance(15) {
			v := r.pick(50, 200)
			acts = append(acts, fmt.Sprintf("4 %d", v))
			st.cfg.Actions.BgpActions.SetLocalPref = uint32(v)
		}
		if r.chance(55) {
			kind := r.pick(0, 1, 2, 3, 3)
			switch kind {
			case 0:
				a := addr()
				acts = append(acts, "6 0 "+c10sAddr(a))
				st.cfg.Actions.BgpActions.SetNextHop = oc.BgpNextHopType(a.String())
			default:
				acts = append(acts, fmt.Sprintf("6 %d 0 0", kind))
				st.cfg.Actions.BgpActions.SetNextHop = []oc.BgpNextHopType{"", "self", "peer-address", "unchanged"}[kind]
			}
			o.stat(fmt.Sprintf("act_next_hop_%d", kind), 1)
		}
		st.line = fmt.Sprintf("%d", len(conds))
		for _, c := range conds {
			st.line += " " + c
		}
		st.line += fmt.Sprintf(" %d %d", route, len(acts))
		for _, a := range acts {
			st.line += " " + a
		}
		return st
	}

	nWorlds := 600
	if o.thorough {
		nWorlds = 3000
	}
	routeID := 0
	for wi := 0; wi < nWorlds; wi++ {
		// defined sets: ps0 (prefixes), ns1 (neighbours = a subset of the peers' addresses)
		cfg := &oc.RoutingPolicy{}
		pfx := []string{"10.100.0.0/16", "10.0.0.0/8", "10.101.0.0/16"}[r.intn(3)]
		pp := netip.MustParsePrefix(pfx)
		cfg.DefinedSets.PrefixSets = []oc.PrefixSet{{PrefixSetName: "ps0", PrefixList: []oc.Prefix{{IpPrefix: pp, MasklengthRange: fmt.Sprintf("%d..32", pp.Bits())}}}}
		var nsList []string
		nsLine := ""
		for _, p := range peers {
			if r.chance(40) {
				nsList = append(nsList, p.info.Address.String())
				nsLine += fmt.Sprintf(" %s 32", c10sAddr(p.info.Address))
			}
		}
		cfg.DefinedSets.NeighborSets = []oc.NeighborSet{{NeighborSetName: "ns1", NeighborInfoList: nsList}}
		o.op("reset")
		o.op("defset prefix 0 1 1 %s %d %d 32", c10sAddr(pp.Addr()), pp.Bits(), pp.Bits())
		o.op("defset neighbor 1 %d%s", len(nsList), nsLine)
		var polNames []string
		var polIDs []int
		for i, np := 0, 1+r.intn(2); i < np; i++ {
			pd := oc.PolicyDefinition{Name: fmt.Sprintf("pol%d", nextPol)}
			line := ""
			ns := 1 + r.intn(3)
			for j := 0; j < ns; j++ {
				st := newStmt()
				o.op("stmt %d %s", st.id, st.line)
				pd.Statements = append(pd.Statements, st.cfg)
				line += fmt.Sprintf(" %d", st.id)
			}
			o.op("policy %d %d%s", nextPol, ns, line)
			cfg.PolicyDefinitions = append(cfg.PolicyDefinitions, pd)
			polNames = append(polNames, pd.Name)
			polIDs = append(polIDs, nextPol)
			nextPol++
		}
		// slot 0: the global export policy; slot 1: the route-server client's export policy
		ap := map[string]oc.ApplyPolicy{}
		defs := [2]int{r.pick(1, 1, 2), r.pick(1, 1, 2)}
		for slot, id := range []string{table.GLOBAL_RIB_NAME, "10.0.0.13"} {
			a := oc.ApplyPolicy{}
			a.Config.ExportPolicyList = polNames
			a.Config.DefaultExportPolicy = []oc.DefaultPolicyType{"", oc.DEFAULT_POLICY_TYPE_ACCEPT_ROUTE, oc.DEFAULT_POLICY_TYPE_REJECT_ROUTE}[defs[slot]]
			ap[id] = a
			line := fmt.Sprintf("assign %d %d %d", slot, defs[slot], len(polIDs))
			for _, x := range polIDs {
				line += fmt.Sprintf(" %d", x)
			}
			o.op("%s", line)
		}
		if err := policy.Reset(cfg, ap); err != nil {
			t.Fatalf("C10 server: configuration rejected: %v", err)
		}
		for ri := 0; ri < 6; ri++ {
			src := sources[r.pick(0, 1, 2, 3, 3, 4)]
			nlri, _ := bgp.NewIPAddrPrefix(netip.MustParsePrefix(fmt.Sprintf("10.%d.%d.0/24", 100+r.intn(3), r.intn(2))))
			orig := addr()
			if src.Address.IsValid() && r.chance(60) {
				orig = src.Address
			}
			if !src.Address.IsValid() && r.chance(30) {
				orig = netip.MustParseAddr("0.0.0.0")
			}
			attrs := []bgp.PathAttributeInterface{bgp.NewPathAttributeOrigin(uint8(r.intn(3)))}
			asl := []uint32{}
			if src.AS != 0 && src.AS != 65000 {
				asl = append(asl, src.AS)
			}
			for i, n := 0, r.intn(3); i < n; i++ {
				asl = append(asl, uint32(r.pick(65031, 65032, 200)))
			}
			params := []bgp.AsPathParamInterface{}
			if len(asl) > 0 {
				params = append(params, bgp.NewAs4PathParam(bgp.BGP_ASPATH_ATTR_TYPE_SEQ, asl))
			}
			attrs = append(attrs, bgp.NewPathAttributeAsPath(params))
			nh, _ := bgp.NewPathAttributeNextHop(orig)
			attrs = append(attrs, nh)
			if r.chance(50) {
				attrs = append(attrs, bgp.NewPathAttributeMultiExitDisc(uint32(r.pick(10, 100, 5))))
			}
			if r.chance(40) {
				attrs = append(attrs, bgp.NewPathAttributeLocalPref(uint32(r.pick(100, 200))))
			}
			if r.chance(30) {
				attrs = append(attrs, bgp.NewPathAttributeCommunities([]uint32{65000<<16 | uint32(r.pick(1, 3))}))
			}
			path := table.NewPath(bgp.RF_IPv4_UC, src, bgp.PathNLRI{NLRI: nlri}, false, attrs, time.Unix(1700000000, 0), false)
			for _, tp := range peers {
				p2, opts, stop := s.prePolicyFilterpath(tp.peer, path, nil)
				if stop || p2 == nil {
					o.stat("stopped_before_policy_"+tp.kind, 1)
					continue
				}
				// the documented context
				docOld := orig
				if !src.Address.IsValid() && orig.IsUnspecified() {
					docOld = tp.info.LocalAddress // "the OldNextHop option should be set to the local address"
				}
				routeID++
				o.op("%s", c10sRouteLine(routeID, p2))
				o.op("opts %d %s %s %s %s 0 0", routeID, c10sOptAddr(tp.info.Address), c10sOptAddr(tp.info.LocalAddress), c10sB(tp.info.Confederation), c10sOptAddr(docOld))
				slot := 0
				if tp.kind == "rs-client" {
					slot = 1
				}
				show := func(p *table.Path) string {
					if p == nil {
						return "reject"
					}
					return "accept " + c10sShow(p)
				}
				res := tp.peer.policy.ApplyPolicy(tp.peer.TableID(), table.POLICY_DIRECTION_EXPORT, p2, opts)
				got := show(res)
				o.ask(got, "eval %d %d %d", slot, routeID, routeID)
				o.stat("export_eval_"+tp.kind+"_"+strings.Fields(got)[0], 1)
				if path.GetNexthop() != p2.GetNexthop() {
					o.stat("next_hop_rewritten_"+tp.kind, 1)
				}
				// model-independent: the documented options give the same result as the options the server built
				doc := &table.PolicyOptions{Info: tp.info, OldNextHop: docOld}
				if want := show(tp.peer.policy.ApplyPolicy(tp.peer.TableID(), table.POLICY_DIRECTION_EXPORT, p2, doc)); want != got {
					o.fail("export-policy-context-differs:"+tp.kind, map[string]any{"peer": tp.info.Address.String(), "route": c10sRouteLine(routeID, path),
						"original_next_hop": orig.String(), "options_old_next_hop": opts.OldNextHop.String(), "options_info_address": opts.Info.Address.String(),
						"policy": cfg.PolicyDefinitions, "with_server_options": got, "with_documented_options": want})
				}
				if res != nil {
					if a, e := c10sShow(res), c10sShowAttrs(res); a != e {
						o.fail("effective-attrs-differ-from-accessors:export:"+tp.kind, map[string]any{"route": c10sRouteLine(routeID, path), "accessors": a, "GetPathAttrs": e})
					}
				}
			}
		}
		o.stat("worlds", 1)
		if wi < 2 {
			o.sample(fmt.Sprintf("world %d: policies %v", wi, polNames))
		}
	}
}

// ---------- every call site that evaluates a policy hands it the same complete PolicyOptions ----------
//
// Sites: filterpath, sendSecondaryRoutes (route-server client with secondary-route),
// policyEvaluatedAdjRibOutPaths (ListPath adj-out with policy evaluation), the import in propagateUpdate
// (peer.handleUpdate, soft reset in, and — with a nil peer — paths added through the API),
// policyAcceptedAdjRibInPaths (ListPath adj-in with policy evaluation).  Policies depend on each option
// field: rpki-validation-result against a ROA table holding valid / invalid / not-found prefixes, next-hop
// conditions and `set next-hop unchanged|self|peer-address`, neighbour sets.  The outcome of the real
// site is compared with ApplyPolicy under hand-built DOCUMENTED options; a difference is classified by
// the option field whose omission reproduces the site's outcome: policy-context-differs:<site>:<field>.

type c10sDoc struct {
	dir  table.PolicyDirection
	id   string
	opts *table.PolicyOptions
}

func c10sSiteShow(p *table.Path) string {
	if p == nil || p.IsWithdraw {
		return "reject"
	}
	return "accept " + c10sShow(p)
}

// static premise, re-extracted from the source on every run: every call of ApplyPolicy in pkg/server
// passes options whose Validate field was assigned earlier in the same function (an assignment
// `x.Validate = …` or a composite literal with a Validate key bound to x, textually before the call —
// position order inside the enclosing top-level function stands in for dominance).
func c10sValidatePremise(t *testing.T, o *vOut) {
	fset := token.NewFileSet()
	ents, err := os.ReadDir(".")
	if err != nil {
		t.Fatal(err)
	}
	calls := 0
	for _, e := range ents {
		name := e.Name()
		if !strings.HasSuffix(name, ".go") || strings.HasSuffix(name, "_test.go") {
			continue
		}
		f, err := parser.ParseFile(fset, name, nil, 0)
		if err != nil {
			t.Fatalf("C10 premise: %v", err)
		}
		for _, d := range f.Decls {
			fd, ok := d.(*ast.FuncDecl)
			if !ok || fd.Body == nil {
				continue
			}
			// positions at which an identifier receives a Validate
			assigned := map[string][]token.Pos{}
			ast.Inspect(fd.Body, func(n ast.Node) bool {
				as, ok := n.(*ast.AssignStmt)
				if !ok {
					return true
				}
				for i, lhs := range as.Lhs {
					if sel, ok := lhs.(*ast.SelectorExpr); ok && sel.Sel.Name == "Validate" {
						if id, ok := sel.X.(*ast.Ident); ok {
							assigned[id.Name] = append(assigned[id.Name], as.Pos())
						}
					}
					if id, ok := lhs.(*ast.Ident); ok && i < len(as.Rhs) {
						rhs := as.Rhs[i]
						if u, ok := rhs.(*ast.UnaryExpr); ok {
							rhs = u.X
						}
						if cl, ok := rhs.(*ast.CompositeLit); ok {
							for _, el := range cl.Elts {
								if kv, ok := el.(*ast.KeyValueExpr); ok {
									if k, ok := kv.Key.(*ast.Ident); ok && k.Name == "Validate" {
										assigned[id.Name] = append(assigned[id.Name], as.Pos())
									}
								}
							}
						}
					}
				}
				return true
			})
			ast.Inspect(fd.Body, func(n ast.Node) bool {
				call, ok := n.(*ast.CallExpr)
				if !ok {
					return true
				}
				sel, ok := call.Fun.(*ast.SelectorExpr)
				if !ok || sel.Sel.Name != "ApplyPolicy" || len(call.Args) != 4 {
					return true
				}
				calls++
				arg := "?"
				if id, ok := call.Args[3].(*ast.Ident); ok {
					arg = id.Name
				}
				found := false
				for _, p := range assigned[arg] {
					if p < call.Pos() {
						found = true
					}
				}
				o.stat("premise_apply_policy_calls", 1)
				if !found {
					o.fail("policy-call-site-without-validate:"+fd.Name.Name, map[string]any{"function": fd.Name.Name, "options_argument": arg,
						"position": fset.Position(call.Pos()).String(),
						"premise": "every ApplyPolicy call in pkg/server passes options whose Validate was assigned earlier in the function"})
				}
				return true
			})
		}
	}
	if calls < 5 {
		o.fail("policy-call-site-premise-extraction-broken", fmt.Sprintf("only %d ApplyPolicy calls found in pkg/server", calls))
	}
}

// ListStatement renders statements with pkg/server's own toStatementApi, ListPolicy and
// ListPolicyAssignment with internal/pkg/table's (which the table harness compares, field by field, with
// what was configured): the two listings of one statement must be the same message.  Every match option
// and every field is drawn independently.
func c10sListingCrossCheck(o *vOut, r *vRand) {
	n := 3000
	if o.thorough {
		n = 20000
	}
	optsR := []oc.MatchSetOptionsRestrictedType{"", "any", "invert"}
	opts := []oc.MatchSetOptionsType{"", "any", "all", "invert"}
	cmp := []oc.AttributeComparison{"attribute-eq", "attribute-ge", "attribute-le", "eq", "ge", "le"}
	for i := 0; i < n; i++ {
		st := oc.Statement{Name: fmt.Sprintf("s%d", i)}
		c, bc, a := &st.Conditions, &st.Conditions.BgpConditions, &st.Actions.BgpActions
		if r.chance(50) {
			c.MatchPrefixSet = oc.MatchPrefixSet{PrefixSet: "ps", MatchSetOptions: optsR[r.intn(3)]}
		}
		if r.chance(50) {
			c.MatchNeighborSet = oc.MatchNeighborSet{NeighborSet: "ns", MatchSetOptions: optsR[r.intn(3)]}
		}
		if r.chance(40) {
			bc.MatchAsPathSet = oc.MatchAsPathSet{AsPathSet: "as", MatchSetOptions: opts[r.intn(4)]}
		}
		if r.chance(40) {
			bc.MatchCommunitySet = oc.MatchCommunitySet{CommunitySet: "cs", MatchSetOptions: opts[r.intn(4)]}
		}
		if r.chance(40) {
			bc.MatchExtCommunitySet = oc.MatchExtCommunitySet{ExtCommunitySet: "es", MatchSetOptions: opts[r.intn(4)]}
		}
		if r.chance(40) {
			bc.MatchLargeCommunitySet = oc.MatchLargeCommunitySet{LargeCommunitySet: "ls", MatchSetOptions: opts[r.intn(4)]}
		}
		if r.chance(30) {
			bc.CommunityCount = oc.CommunityCount{Operator: cmp[r.intn(6)], Value: uint32(r.intn(4))}
		}
		if r.chance(30) {
			bc.AsPathLength = oc.AsPathLength{Operator: cmp[r.intn(6)], Value: uint32(r.intn(4))}
		}
		if r.chance(30) {
			bc.RpkiValidationResult = []oc.RpkiValidationResultType{"valid", "invalid", "not-found", "none"}[r.intn(4)]
		}
		if r.chance(30) {
			bc.RouteType = []oc.RouteType{"internal", "external", "local"}[r.intn(3)]
		}
		if r.chance(30) {
			bc.OriginEq = []oc.BgpOriginAttrType{"igp", "egp", "incomplete"}[r.intn(3)]
		}
		if r.chance(30) {
			bc.NextHopInList = []netip.Addr{netip.MustParseAddr("10.0.0.1"), netip.MustParseAddr("2001:db8::1")}[:1+r.intn(2)]
		}
		if r.chance(30) {
			bc.AfiSafiInList = []oc.AfiSafiType{"ipv4-unicast", "ipv6-unicast", "l3vpn-ipv4-unicast"}[:r.intn(4)]
		}
		if r.chance(30) {
			bc.LocalPrefEq = uint32(r.pick(100, 200))
		}
		if r.chance(30) {
			bc.MedEq = uint32(r.pick(10, 100))
		}
		st.Actions.RouteDisposition = []oc.RouteDisposition{"none", "accept-route", "reject-route", ""}[r.intn(4)]
		setop := []string{"add", "remove", "replace", "add"} // as Statement.ToConfig writes them
		if r.chance(35) {
			a.SetCommunity = oc.SetCommunity{Options: setop[r.intn(4)], SetCommunityMethod: oc.SetCommunityMethod{CommunitiesList: []string{"65000:1", "65000:2"}[:r.intn(3)]}}
		}
		if r.chance(35) {
			a.SetExtCommunity = oc.SetExtCommunity{Options: setop[r.intn(4)], SetExtCommunityMethod: oc.SetExtCommunityMethod{CommunitiesList: []string{"rt:65000:1", "soo:65000:2"}[:r.intn(3)]}}
		}
		if r.chance(35) {
			a.SetLargeCommunity = oc.SetLargeCommunity{Options: oc.BgpSetCommunityOptionType(setop[r.intn(3)]), SetLargeCommunityMethod: oc.SetLargeCommunityMethod{CommunitiesList: []string{"1:2:3", "4:5:6"}[:r.intn(3)]}}
		}
		if r.chance(35) {
			a.SetMed = []oc.BgpSetMedType{"100", "+10", "-10", "+0", "0"}[r.intn(5)]
		}
		if r.chance(30) {
			a.SetLocalPref = uint32(r.pick(50, 200))
		}
		if r.chance(30) {
			a.SetAsPathPrepend = oc.SetAsPathPrepend{As: []string{"65001", "last-as", "4200000001"}[r.intn(3)], RepeatN: uint8(r.pick(0, 1, 5, 255))}
		}
		if r.chance(30) {
			a.SetNextHop = []oc.BgpNextHopType{"self", "peer-address", "unchanged", "10.0.0.9", "2001:db8::9"}[r.intn(5)]
		}
		if r.chance(30) {
			a.SetRouteOrigin = []oc.BgpOriginAttrType{"igp", "egp", "incomplete"}[r.intn(3)]
		}
		viaStatement := toStatementApi(&st)
		viaPolicy := table.ToPolicyApi(&oc.PolicyDefinition{Name: "p", Statements: []oc.Statement{st}}).Statements[0]
		o.stat("listing_cross_checks", 1)
		if a, b := viaStatement.String(), viaPolicy.String(); a != b {
			i := 0
			for i < len(a) && i < len(b) && a[i] == b[i] {
				i++
			}
			lo := i - 80
			if lo < 0 {
				lo = 0
			}
			o.fail("listing-differs:ListStatement-vs-ListPolicy", map[string]any{"configured": st, "ListStatement": a[lo:min(len(a), i+120)], "ListPolicy": b[lo:min(len(b), i+120)]})
		}
	}
}

func TestVerifC10Sites(t *testing.T) {
	o := vOpen(t)
	defer o.close()
	c10sValidatePremise(t, o)
	c10sListingCrossCheck(o, &vRand{s: o.seed*49979687 + 10})
	r := &vRand{s: o.seed*32452843 + 10}
	logger := slog.New(slog.NewTextHandler(io.Discard, nil))
	g := &oc.Global{}
	g.Config.As = 65000
	g.Config.RouterId = netip.MustParseAddr("10.255.0.1")
	fams := []bgp.Family{bgp.RF_IPv4_UC}

	nWorlds := 250
	if o.thorough {
		nWorlds = 2000
	}
	for wi := 0; wi < nWorlds; wi++ {
		s := NewBgpServer()
		s.globalRib = table.NewTableManager(logger, fams)
		s.rsRib = table.NewTableManager(logger, fams)
		// ROAs: 10.100.0.0/16-24 AS 65031 (valid for that origin, invalid for another), 10.101.0.0/16-16 AS 65031
		// (a /24 inside is invalid by length), nothing for 10.102.0.0/16 (not found)
		s.roaTable.Add(table.NewROA(bgp.AFI_IP, []byte{10, 100, 0, 0}, 16, 24, 65031, "rpki"))
		s.roaTable.Add(table.NewROA(bgp.AFI_IP, []byte{10, 101, 0, 0}, 16, 16, 65031, "rpki"))

		mkPeer := func(kind, addr string, as uint32, local string, rs bool) *c10sPeer {
			n := &oc.Neighbor{}
			n.Config.NeighborAddress = netip.MustParseAddr(addr)
			n.Config.PeerAs = as
			n.RouteServer.Config.RouteServerClient = rs
			n.RouteServer.Config.SecondaryRoute = rs
			n.AfiSafis = []oc.AfiSafi{{Config: oc.AfiSafiConfig{AfiSafiName: oc.AFI_SAFI_TYPE_IPV4_UNICAST, Enabled: true}}}
			if err := oc.SetDefaultNeighborConfigValues(n, nil, g); err != nil {
				t.Fatal(err)
			}
			n.State.RemoteRouterId = netip.MustParseAddr(addr)
			rib := s.globalRib
			if rs {
				rib = s.rsRib
			}
			p := newPeer(g, n, bgp.BGP_FSM_ESTABLISHED, rib, s.policy, logger)
			p.fsm.familyMap.Store(map[bgp.Family]bgp.BGPAddPathMode{bgp.RF_IPv4_UC: bgp.BGP_ADD_PATH_NONE})
			info := table.NewPeerInfo(g, n, n.State.PeerAs, n.Config.LocalAs, n.State.RemoteRouterId, g.Config.RouterId, netip.MustParseAddr(addr), netip.MustParseAddr(local))
			p.peerInfo.Store(info)
			return &c10sPeer{kind, kind, p, info}
		}
		peers := []*c10sPeer{
			mkPeer("ebgp", "10.0.0.11", 65011, "10.0.0.1", false),
			mkPeer("ibgp", "10.0.0.12", 65000, "10.0.0.1", false),
			mkPeer("rs-client", "10.0.0.13", 65013, "10.0.0.1", true),
		}
		// the policy: 1-3 statements, each depending on option fields
		cfg := &oc.RoutingPolicy{}
		var nsList []string
		for _, p := range peers {
			if r.chance(45) {
				nsList = append(nsList, p.info.Address.String())
			}
		}
		nsList = append(nsList, "10.0.0.21")
		cfg.DefinedSets.NeighborSets = []oc.NeighborSet{{NeighborSetName: "ns1", NeighborInfoList: nsList}}
		pd := oc.PolicyDefinition{Name: "pol"}
		addr := func() netip.Addr { return netip.MustParseAddr(c10sAddrs[r.intn(len(c10sAddrs))]) }
		for j, ns := 0, 1+r.intn(3); j < ns; j++ {
			st := oc.Statement{Name: fmt.Sprintf("st%d", j)}
			focus := r.intn(3)
			if focus == 0 || r.chance(25) {
				st.Conditions.BgpConditions.RpkiValidationResult = []oc.RpkiValidationResultType{oc.RPKI_VALIDATION_RESULT_TYPE_VALID, oc.RPKI_VALIDATION_RESULT_TYPE_INVALID, oc.RPKI_VALIDATION_RESULT_TYPE_NOT_FOUND}[r.intn(3)]
				o.stat("cond_rpki", 1)
			}
			if focus == 1 || r.chance(20) {
				if r.chance(60) {
					st.Conditions.BgpConditions.NextHopInList = []netip.Addr{addr(), addr()}
					o.stat("cond_next_hop", 1)
				}
				if r.chance(60) {
					st.Actions.BgpActions.SetNextHop = []oc.BgpNextHopType{"self", "peer-address", "unchanged", "unchanged"}[r.intn(4)]
					o.stat("act_next_hop", 1)
				}
			}
			if focus == 2 || r.chance(20) {
				st.Conditions.MatchNeighborSet = oc.MatchNeighborSet{NeighborSet: "ns1", MatchSetOptions: []oc.MatchSetOptionsRestrictedType{"any", "invert"}[r.intn(2)]}
				o.stat("cond_neighbor", 1)
			}
			if r.chance(25) {
				st.Actions.BgpActions.SetMed = oc.BgpSetMedType(fmt.Sprint(r.pick(7, 77)))
			}
			st.Actions.RouteDisposition = []oc.RouteDisposition{oc.ROUTE_DISPOSITION_NONE, oc.ROUTE_DISPOSITION_ACCEPT_ROUTE, oc.ROUTE_DISPOSITION_REJECT_ROUTE, oc.ROUTE_DISPOSITION_REJECT_ROUTE}[r.intn(4)]
			pd.Statements = append(pd.Statements, st)
		}
		cfg.PolicyDefinitions = []oc.PolicyDefinition{pd}
		ap := map[string]oc.ApplyPolicy{}
		for _, id := range []string{table.GLOBAL_RIB_NAME, "10.0.0.13"} {
			a := oc.ApplyPolicy{}
			a.Config.ExportPolicyList, a.Config.ImportPolicyList = []string{"pol"}, []string{"pol"}
			d := []oc.DefaultPolicyType{oc.DEFAULT_POLICY_TYPE_ACCEPT_ROUTE, oc.DEFAULT_POLICY_TYPE_ACCEPT_ROUTE, oc.DEFAULT_POLICY_TYPE_REJECT_ROUTE}[r.intn(3)]
			a.Config.DefaultExportPolicy, a.Config.DefaultImportPolicy = d, d
			ap[id] = a
		}
		if err := s.policy.Reset(cfg, ap); err != nil {
			t.Fatalf("C10 sites: %v", err)
		}

		sources := []*table.PeerInfo{
			{PeerType: oc.PEER_TYPE_EXTERNAL, AS: 65021, LocalAS: 65000, Address: netip.MustParseAddr("10.0.0.21"), ID: netip.MustParseAddr("10.0.0.21"), LocalID: g.Config.RouterId},
			{PeerType: oc.PEER_TYPE_EXTERNAL, AS: 65023, LocalAS: 65000, Address: netip.MustParseAddr("10.0.0.23"), ID: netip.MustParseAddr("10.0.0.23"), LocalID: g.Config.RouterId, RouteServerClient: true},
			{PeerType: oc.PEER_TYPE_INTERNAL, AS: 65000, LocalAS: 65000, Address: netip.MustParseAddr("10.0.0.22"), ID: netip.MustParseAddr("10.0.0.22"), LocalID: g.Config.RouterId},
		}
		npfx := 0
		mkPath := func(src *table.PeerInfo) (*table.Path, netip.Addr) {
			npfx++
			// rpki state by construction: third octet 100 valid-or-invalid by origin AS, 101 invalid by length, 102 not found
			net3 := r.pick(100, 100, 101, 102)
			nlri, _ := bgp.NewIPAddrPrefix(netip.MustParsePrefix(fmt.Sprintf("10.%d.%d.0/24", net3, npfx%250)))
			origin := uint32(r.pick(65031, 65031, 65032))
			asl := []uint32{}
			if src.AS != 65000 {
				asl = append(asl, src.AS)
			}
			asl = append(asl, origin)
			orig := addr()
			if r.chance(60) && src.Address.IsValid() {
				orig = src.Address
			}
			nh, _ := bgp.NewPathAttributeNextHop(orig)
			attrs := []bgp.PathAttributeInterface{bgp.NewPathAttributeOrigin(0),
				bgp.NewPathAttributeAsPath([]bgp.AsPathParamInterface{bgp.NewAs4PathParam(bgp.BGP_ASPATH_ATTR_TYPE_SEQ, asl)}), nh}
			if r.chance(40) {
				attrs = append(attrs, bgp.NewPathAttributeMultiExitDisc(uint32(r.pick(10, 100))))
			}
			return table.NewPath(bgp.RF_IPv4_UC, src, bgp.PathNLRI{NLRI: nlri}, false, attrs, time.Unix(1700000000, 0), false), orig
		}
		// documented evaluation, and the field whose omission explains a differing site outcome
		docEval := func(d c10sDoc, p *table.Path, post func(*table.Path) *table.Path) string {
			return c10sSiteShow(post(s.policy.ApplyPolicy(d.id, d.dir, p, d.opts)))
		}
		judge := func(site string, tp *c10sPeer, d c10sDoc, p *table.Path, post func(*table.Path) *table.Path, got string, what string) {
			want := docEval(d, p, post)
			o.stat("site_"+site+"_"+strings.Fields(want)[0], 1)
			if got == want {
				return
			}
			var fields []string
			for _, f := range []string{"validate", "old-next-hop", "info"} {
				v := *d.opts
				switch f {
				case "validate":
					v.Validate = nil
				case "old-next-hop":
					v.OldNextHop = netip.Addr{}
				case "info":
					v.Info = nil
				}
				if docEval(c10sDoc{d.dir, d.id, &v}, p, post) == got {
					fields = append(fields, f)
				}
			}
			field := "unknown"
			if len(fields) > 0 {
				field = strings.Join(fields, "+")
			}
			kindOf := "api"
			if tp != nil {
				kindOf = tp.kind
			}
			o.fail("policy-context-differs:"+site+":"+field, map[string]any{"site": site, "peer": kindOf, "route": what, "policy": cfg.PolicyDefinitions,
				"site_outcome": got, "documented_outcome": want})
		}
		ident := func(p *table.Path) *table.Path { return p }
		exportDoc := func(tp *c10sPeer, path *table.Path, orig netip.Addr) c10sDoc {
			return c10sDoc{table.POLICY_DIRECTION_EXPORT, tp.peer.TableID(), &table.PolicyOptions{Info: tp.info, OldNextHop: orig, Validate: s.roaTable.Validate}}
		}
		importDoc := func(tp *c10sPeer) c10sDoc {
			d := c10sDoc{table.POLICY_DIRECTION_IMPORT, table.GLOBAL_RIB_NAME, &table.PolicyOptions{Validate: s.roaTable.Validate}}
			if tp != nil {
				d.id = tp.peer.TableID()
				if tp.kind != "rs-client" {
					d.opts.Info = tp.info
				}
			}
			return d
		}

		for _, tp := range peers {
			post := func(p *table.Path) *table.Path { return s.postFilterpath(tp.peer, p) }
			// A. filterpath
			for k := 0; k < 3; k++ {
				path, orig := mkPath(sources[r.intn(len(sources))])
				pre, _, stop := s.prePolicyFilterpath(tp.peer, path, nil)
				if stop {
					continue
				}
				got := c10sSiteShow(s.filterpath(tp.peer, path, nil))
				judge("filterpath", tp, exportDoc(tp, path, orig), pre, post, got, c10sRouteLine(k, path))
			}
			// B. sendSecondaryRoutes: the first acceptable path of the destination's list
			if tp.kind == "rs-client" {
				for k := 0; k < 3; k++ {
					var known []*table.Path
					var origs []netip.Addr
					base, o0 := mkPath(sources[0])
					known, origs = append(known, base), append(origs, o0)
					for _, src := range sources[1:] {
						if r.chance(70) {
							// another path for the same prefix
							p2, o2 := mkPath(src)
							p2 = table.NewPath(bgp.RF_IPv4_UC, src, bgp.PathNLRI{NLRI: base.GetNlri()}, false, p2.GetPathAttrs(), time.Unix(1700000000, 0), false)
							known, origs = append(known, p2), append(origs, o2)
						}
					}
					paths, _ := s.sendSecondaryRoutes(tp.peer, nil, []*table.Update{{KnownPathList: known}})
					got := "reject"
					if len(paths) > 0 {
						got = c10sSiteShow(paths[0])
					}
					// documented: the first path of the list the export policy accepts
					want, wi2 := "reject", -1
					for i, kp := range known {
						pre, _, stop := s.prePolicyFilterpath(tp.peer, kp, nil)
						if stop {
							continue
						}
						if w := docEval(exportDoc(tp, kp, origs[i]), pre, post); w != "reject" {
							want, wi2 = w, i
							break
						}
					}
					o.stat("site_secondary_"+strings.Fields(want)[0], 1)
					if wi2 > 0 {
						o.stat("site_secondary_fallback_chosen", 1)
					}
					if got != want {
						// name the field on the first path of the list
						field := "unknown"
						if pre, _, stop := s.prePolicyFilterpath(tp.peer, known[0], nil); !stop {
							d := exportDoc(tp, known[0], origs[0])
							first := "reject"
							if len(paths) > 0 && paths[0].GetSource() == known[0].GetSource() {
								first = got
							}
							for _, f := range []string{"validate", "old-next-hop", "info"} {
								v := *d.opts
								switch f {
								case "validate":
									v.Validate = nil
								case "old-next-hop":
									v.OldNextHop = netip.Addr{}
								case "info":
									v.Info = nil
								}
								if docEval(c10sDoc{d.dir, d.id, &v}, pre, post) == first && docEval(d, pre, post) != first {
									field = f
									break
								}
							}
						}
						o.fail("policy-context-differs:sendSecondaryRoutes:"+field, map[string]any{"peer": tp.kind, "known_paths": len(known),
							"first_route": c10sRouteLine(0, known[0]), "policy": cfg.PolicyDefinitions, "site_outcome": got, "documented_outcome": want,
							"documented_choice_index": wi2})
					}
				}
			}
			// C. policyEvaluatedAdjRibOutPaths over the best paths of the peer's table
			{
				type ent struct {
					p    *table.Path
					orig netip.Addr
				}
				var installed []ent
				for k := 0; k < 4; k++ {
					p, og := mkPath(sources[r.intn(len(sources))])
					tp.peer.localRib.Update(p)
					installed = append(installed, ent{p, og})
				}
				filtered := map[table.PathLocalKey]table.FilteredType{}
				s.policyEvaluatedAdjRibOutPaths(tp.peer, bgp.RF_IPv4_UC, filtered)
				best := map[table.PathLocalKey]bool{}
				for _, bp := range s.getPossibleBest(tp.peer, bgp.RF_IPv4_UC) {
					best[bp.GetLocalKey()] = true
				}
				for _, e := range installed {
					if !best[e.p.GetLocalKey()] {
						continue
					}
					pre, _, stop := s.prePolicyFilterpath(tp.peer, e.p, nil)
					if stop {
						continue
					}
					got := "accept"
					if filtered[e.p.GetLocalKey()]&table.PolicyFiltered != 0 {
						got = "reject"
					}
					verdictOnly := func(p *table.Path) *table.Path { return p }
					d := exportDoc(tp, e.p, e.orig)
					want := strings.Fields(docEval(d, pre, verdictOnly))[0]
					o.stat("site_adj_out_list_"+want, 1)
					if got != want {
						field := "unknown"
						for _, f := range []string{"validate", "old-next-hop", "info"} {
							v := *d.opts
							switch f {
							case "validate":
								v.Validate = nil
							case "old-next-hop":
								v.OldNextHop = netip.Addr{}
							case "info":
								v.Info = nil
							}
							if strings.Fields(docEval(c10sDoc{d.dir, d.id, &v}, pre, verdictOnly))[0] == got {
								field = f
								break
							}
						}
						o.fail("policy-context-differs:policyEvaluatedAdjRibOutPaths:"+field, map[string]any{"peer": tp.kind, "route": c10sRouteLine(0, e.p),
							"policy": cfg.PolicyDefinitions, "site_outcome": got, "documented_outcome": want})
					}
				}
			}
			// D. import (propagateUpdate) of routes received from this peer, and E. the adj-in listing with policy
			{
				var recv []*table.Path
				for k := 0; k < 3; k++ {
					p, _ := mkPath(tp.info)
					recv = append(recv, p)
				}
				tp.peer.adjRibIn.Update(recv)
				s.propagateUpdate(tp.peer, recv)
				rib := s.globalRib
				if tp.kind == "rs-client" {
					rib = s.rsRib
				}
				for k, p := range recv {
					var inRib *table.Path
					for _, x := range rib.GetPathListWithSource(table.GLOBAL_RIB_NAME, fams, tp.info) {
						if x.GetNlri().String() == p.GetNlri().String() {
							inRib = x
						}
					}
					judge("import", tp, importDoc(tp), p, ident, c10sSiteShow(inRib), c10sRouteLine(k, p))
				}
				filtered := map[table.PathLocalKey]table.FilteredType{}
				acc := s.policyAcceptedAdjRibInPaths(tp.peer, bgp.RF_IPv4_UC, filtered)
				for k, p := range recv {
					var out *table.Path
					for _, x := range acc {
						if x.GetNlri().String() == p.GetNlri().String() {
							out = x
						}
					}
					got := c10sSiteShow(out)
					if filtered[p.GetLocalKey()]&table.PolicyFiltered != 0 {
						got = "reject"
					}
					judge("policyAcceptedAdjRibInPaths", tp, importDoc(tp), p, ident, got, c10sRouteLine(k, p))
				}
			}
		}
		// F. paths added through the API: propagateUpdate with a nil peer
		{
			local := &table.PeerInfo{AS: 65000, LocalAS: 65000, LocalID: g.Config.RouterId}
			var added []*table.Path
			for k := 0; k < 3; k++ {
				p, _ := mkPath(local)
				added = append(added, p)
			}
			s.propagateUpdate(nil, added)
			for k, p := range added {
				var inRib *table.Path
				for _, x := range s.globalRib.GetPathListWithSource(table.GLOBAL_RIB_NAME, fams, local) {
					if x.GetNlri().String() == p.GetNlri().String() {
						inRib = x
					}
				}
				judge("import-api-path", nil, importDoc(nil), p, ident, c10sSiteShow(inRib), c10sRouteLine(k, p))
			}
		}
		o.stat("worlds", 1)
	}
	o.sample("sites: filterpath, sendSecondaryRoutes, policyEvaluatedAdjRibOutPaths, import, policyAcceptedAdjRibInPaths, import-api-path")
}
