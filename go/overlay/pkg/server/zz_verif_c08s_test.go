//go:build verif

package server

// C08 session-level harness: a whole BgpServer (real Serve loop, real fsm goroutines, the real
// configuration layer oc.SetDefaultNeighborConfigValues through AddPeer) inside a testing/synctest
// bubble, talking to a scripted peer over an in-memory connection.  Observed: the bytes of the
// OPEN the server sends, acceptance / refusal of the peer's OPEN, the negotiated state after
// ESTABLISHED (compared with the Lean model, the same `est` answer as the core harness), the
// keepalive period and the hold-timer expiry in virtual time, the AS_PATH / path-id encoding of
// the UPDATE the server sends, and acceptance of a 5000-octet UPDATE.

import (
	"context"
	"encoding/binary"
	"errors"
	"fmt"
	"io"
	"net"
	"net/netip"
	"slices"
	"strings"
	"syscall"
	"testing"
	"testing/synctest"
	"time"

	"github.com/osrg/gobgp/v4/api"
	"github.com/osrg/gobgp/v4/pkg/apiutil"
	"github.com/osrg/gobgp/v4/pkg/config/oc"
	"github.com/osrg/gobgp/v4/pkg/packet/bgp"
)

// the boundary sweep of c08Session: c08SweepN routes with padding c08SweepL0, c08SweepL0+1, …
const (
	c08SweepL0 = 4024
	c08SweepN  = 50
)

type c08PipeConn struct {
	net.Conn
}

func (c *c08PipeConn) SyscallConn() (syscall.RawConn, error) { return nil, errors.New("in-memory connection") }
func (c *c08PipeConn) RemoteAddr() net.Addr {
	return &net.TCPAddr{IP: net.ParseIP("10.9.9.9").To4(), Port: 40000}
}
func (c *c08PipeConn) LocalAddr() net.Addr {
	return &net.TCPAddr{IP: net.ParseIP("10.9.9.1").To4(), Port: 179}
}

// c08ReadMsg reads one BGP message from the peer's end, giving up after `wait` of virtual time.
func c08ReadMsg(c net.Conn, wait time.Duration) ([]byte, error) {
	c.SetReadDeadline(time.Now().Add(wait))
	hd := make([]byte, 19)
	if _, err := io.ReadFull(c, hd); err != nil {
		return nil, err
	}
	l := int(binary.BigEndian.Uint16(hd[16:18]))
	if l < 19 {
		return nil, fmt.Errorf("short length %d", l)
	}
	body := make([]byte, l-19)
	if _, err := io.ReadFull(c, body); err != nil {
		return nil, err
	}
	return append(hd, body...), nil
}

// neighbour configuration as an operator would write it; defaults are filled in by the server
func (c *c08Cfg) neighbor() *oc.Neighbor {
	n := &oc.Neighbor{}
	n.Config.NeighborAddress = netip.MustParseAddr("10.9.9.9")
	n.Config.PeerAs = c.peerAs
	n.Config.LocalAs = c.cfgLocalAs // 0 = not configured: the server derives it
	n.Config.SendSoftwareVersion = c.sendSw
	n.Transport.Config.PassiveMode = true
	n.Timers.Config.HoldTime = float64(c.hold)
	n.Timers.Config.KeepaliveInterval = float64(c.ka3) / 3
	n.GracefulRestart.Config.Enabled = c.grEn
	n.GracefulRestart.Config.HelperOnly = c.grHelper
	n.GracefulRestart.Config.NotificationEnabled = c.grNotif
	n.GracefulRestart.Config.LongLivedEnabled = c.grLlgr
	n.GracefulRestart.Config.RestartTime = c.grTime
	for _, a := range c.afs {
		af := oc.AfiSafi{}
		af.Config.AfiSafiName = oc.AfiSafiType(bgp.AddressFamilyNameMap[a.fam])
		af.Config.Enabled = true
		af.AddPaths.Config.Receive = a.recv
		af.AddPaths.Config.SendMax = a.sendMax
		af.MpGracefulRestart.Config.Enabled = a.mpGr
		af.LongLivedGracefulRestart.Config.Enabled = a.llgr
		af.LongLivedGracefulRestart.Config.RestartTime = a.llgrTime
		n.AfiSafis = append(n.AfiSafis, af)
	}
	return n
}

// c08StopServer stops the server and then drains every peer's outgoing queue: fsmHandler.loop ends
// with cleanInfiniteChannel, whose non-blocking drain can leave queued items behind, and the
// InfiniteChannel's pump goroutine then never exits (a leak at shutdown that is C20's business,
// but a synctest bubble refuses to end with it).
func c08StopServer(s *BgpServer) {
	peers := []*peer{}
	for _, p := range s.neighborMap {
		peers = append(peers, p)
	}
	s.Stop()
	for _, p := range peers {
		for range p.fsm.outgoingCh.Out() {
		}
	}
}

// c08PeerAnnounce: the UPDATE of the scripted peer for 10.99.7.0/24, written octet by octet
func c08PeerAnnounce(rm *c08Remote, c *c08Cfg, withID bool) []byte {
	attrs := c08Attr(0x40, 1, []byte{0})
	seg := []byte{}
	if rm.realAS != c.localAs { // eBGP: our AS first
		seg = []byte{2, 1}
		if rm.as4 {
			seg = binary.BigEndian.AppendUint32(seg, rm.realAS)
		} else {
			seg = binary.BigEndian.AppendUint16(seg, uint16(rm.realAS))
		}
	}
	attrs = append(attrs, c08Attr(0x40, 2, seg)...)
	attrs = append(attrs, c08Attr(0x40, 3, []byte{10, 9, 9, 9})...)
	if rm.realAS == c.localAs {
		attrs = append(attrs, c08Attr(0x40, 5, []byte{0, 0, 0, 100})...)
	}
	nlri := []byte{24, 10, 99, 7}
	if withID {
		nlri = append([]byte{0, 0, 0, 77}, nlri...)
	}
	body := []byte{0, 0}
	body = binary.BigEndian.AppendUint16(body, uint16(len(attrs)))
	body = append(append(body, attrs...), nlri...)
	msg := make([]byte, 16, 19+len(body))
	for i := range msg {
		msg[i] = 0xff
	}
	msg = binary.BigEndian.AppendUint16(msg, uint16(19+len(body)))
	msg = append(msg, bgp.BGP_MSG_UPDATE)
	return append(msg, body...)
}

func c08SessionCfg(r *vRand) *c08Cfg {
	c := c08GenCfg(r, false)
	c.localRestarting = false
	c.treatAsWd = true // the configuration layer's default
	c.confed = nil
	c.confedEn = false
	if r.chance(15) { // a confederation whose identifier we speak towards outsiders; no member peers here (export rewriting is C09's)
		c.confedEn, c.confedID, c.confed = true, 64999, []uint32{65300}
	}
	// what the configuration layer would otherwise replace by defaults, or what makes the scripted
	// peer read thousands of keepalives
	c.hold = r.pick(3, 9, 30, 90, 90, 180, 240)
	if r.chance(60) {
		c.ka3 = c.hold
	} else {
		c.ka3 = 3 * r.pick(1, 3, 10, 30)
	}
	if c.grTime == 0 {
		c.grTime = 120
	}
	seen := map[bgp.Family]bool{}
	afs := []c08Af{}
	for _, a := range c.afs {
		if a.fam == bgp.RF_RTC_UC {
			continue // with RT Constraint negotiated other families wait for the peer's RT membership (C17)
		}
		if !seen[a.fam] {
			seen[a.fam] = true
			afs = append(afs, a)
		}
	}
	if len(afs) == 0 || !r.chance(30) {
		if !seen[bgp.RF_IPv4_UC] {
			afs = append([]c08Af{{fam: bgp.RF_IPv4_UC, recv: r.chance(40), sendMax: uint8(r.pick(0, 0, 1, 4))}}, afs...)
		}
	}
	c.afs = afs
	return c
}

func c08Session(t *testing.T, o *vOut, r *vRand, c *c08Cfg, spec *c08OpenSpec, sweep bool) {
	ctx := context.Background()
	s := NewBgpServer()
	go s.Serve()
	defer c08StopServer(s)
	if err := s.StartBgp(ctx, &api.StartBgpRequest{Global: &api.Global{Asn: c.globalAs, RouterId: c08U32Addr(c.routerID).String(), ListenPort: -1,
		Confederation: &api.Confederation{Enabled: c.confedEn, Identifier: c.confedID, MemberAsList: c.confed}}}); err != nil {
		t.Fatal(err)
	}
	// a local route with a 4-octet AS in its AS_PATH, to see how UPDATEs are encoded later
	nlri, _ := bgp.NewIPAddrPrefix(netip.MustParsePrefix("10.77.0.0/24"))
	nh, _ := bgp.NewPathAttributeNextHop(netip.MustParseAddr("10.9.9.1"))
	if _, err := s.AddPath(apiutil.AddPathRequest{Paths: []*apiutil.Path{{Family: bgp.RF_IPv4_UC, Nlri: nlri, Attrs: []bgp.PathAttributeInterface{
		bgp.NewPathAttributeOrigin(0), bgp.NewPathAttributeAsPath([]bgp.AsPathParamInterface{bgp.NewAs4PathParam(2, []uint32{80000, 65011})}), nh}}}}); err != nil {
		t.Fatal(err)
	}
	// boundary sweep: routes whose UPDATEs differ by one octet each and straddle 4096 octets whatever
	// the export adds (AS prepend, LOCAL_PREF, AS4_PATH, path identifier: 51..62 octets around the padding)
	if sweep {
		paths := []*apiutil.Path{}
		for i := 0; i < c08SweepN; i++ {
			n, _ := bgp.NewIPAddrPrefix(netip.MustParsePrefix(fmt.Sprintf("10.78.%d.0/24", i)))
			paths = append(paths, &apiutil.Path{Family: bgp.RF_IPv4_UC, Nlri: n, Attrs: []bgp.PathAttributeInterface{
				bgp.NewPathAttributeOrigin(0), bgp.NewPathAttributeAsPath(nil), nh,
				bgp.NewPathAttributeUnknown(bgp.BGP_ATTR_FLAG_OPTIONAL|bgp.BGP_ATTR_FLAG_TRANSITIVE, 250, make([]byte, c08SweepL0+i))}})
		}
		if _, err := s.AddPath(apiutil.AddPathRequest{Paths: paths}); err != nil {
			t.Fatal(err)
		}
	}
	if err := s.AddPeer(ctx, &api.AddPeerRequest{Peer: oc.NewPeerFromConfigStruct(c.neighbor())}); err != nil {
		o.stat("session_addpeer_refused", 1)
		return
	}
	synctest.Wait()
	peer := s.neighborMap[netip.MustParseAddr("10.9.9.9")]
	if peer == nil {
		t.Fatal("no peer")
	}
	// the configuration the server really runs with decides what the model is told
	{
		conf := peer.fsm.pConf.ReadOnly()
		c.localAs = conf.Config.LocalAs
		c.dflInternal, c.resolved = conf.Config.PeerType == oc.PEER_TYPE_INTERNAL, true
		c.ka3 = int(conf.Timers.Config.KeepaliveInterval*3 + 0.5)
		c.hold = int(conf.Timers.Config.HoldTime)
		c.grTime = conf.GracefulRestart.Config.RestartTime
		c.treatAsWd = conf.ErrorHandling.Config.TreatAsWithdraw
		if len(conf.AfiSafis) != len(c.afs) {
			t.Fatalf("afi-safis %d vs %d", len(conf.AfiSafis), len(c.afs))
		}
		for i, a := range conf.AfiSafis {
			c.afs[i].fam = a.State.Family
			c.afs[i].recv = a.AddPaths.State.Receive
			c.afs[i].sendMax = a.AddPaths.State.SendMax
			c.afs[i].mpGr = a.MpGracefulRestart.Config.Enabled
			c.afs[i].llgr = a.LongLivedGracefulRestart.Config.Enabled
			c.afs[i].llgrTime = a.LongLivedGracefulRestart.Config.RestartTime
		}
		c.sendSw = conf.Config.SendSoftwareVersion
		c.grEn = conf.GracefulRestart.Config.Enabled
		c.grHelper = conf.GracefulRestart.Config.HelperOnly
		c.grNotif = conf.GracefulRestart.Config.NotificationEnabled
		c.grLlgr = conf.GracefulRestart.Config.LongLivedEnabled
		c.localRestarting = conf.GracefulRestart.State.LocalRestarting
	}
	c08Defaults(o, c)

	srv, cli := net.Pipe()
	defer cli.Close()
	t0 := time.Now()
	_ = s.mgmtOperation(func() error { s.passConnToPeer(&c08PipeConn{Conn: srv}); return nil }, false)

	// 1. the OPEN the server sends
	raw, err := c08ReadMsg(cli, 30*time.Second)
	if err != nil {
		o.fail("session-no-open-sent", c08Detail(c, nil, err.Error()))
		return
	}
	sent, err := bgp.ParseBGPMessage(raw)
	if err != nil || sent.Header.Type != bgp.BGP_MSG_OPEN {
		o.fail("open-sent-undecodable", c08Detail(c, nil, fmt.Sprint(err)))
		return
	}
	o.ask(c08OpenStr(sent.Body.(*bgp.BGPOpen)), "buildopen")
	c08CheckOpenSent(o, c, sent.Body.(*bgp.BGPOpen))
	c.announcedAs = c08Analyse(sent.Body.(*bgp.BGPOpen)).realAS
	o.stat("session_open_sent", 1)

	// 2. our OPEN; the answer is a KEEPALIVE or a NOTIFICATION
	msg, err := c08Roundtrip(spec.message())
	if err != nil {
		return
	}
	body := msg.Body.(*bgp.BGPOpen)
	line := c08OpenLine(body)
	opens := []string{line}
	o.op("%s", line)
	rm := c08Analyse(body)
	wire, _ := msg.Serialize()
	if _, err := cli.Write(wire); err != nil {
		t.Fatal(err)
	}
	raw, err = c08ReadMsg(cli, 30*time.Second)
	if err != nil {
		o.fail("session-no-answer-to-open", c08Detail(c, opens, err.Error()))
		return
	}
	switch raw[18] {
	case bgp.BGP_MSG_NOTIFICATION:
		name := map[uint8]string{bgp.BGP_ERROR_SUB_UNSUPPORTED_VERSION_NUMBER: "version", bgp.BGP_ERROR_SUB_BAD_BGP_IDENTIFIER: "badId",
			bgp.BGP_ERROR_SUB_BAD_PEER_AS: "badPeerAs", bgp.BGP_ERROR_SUB_UNACCEPTABLE_HOLD_TIME: "holdTime"}[raw[20]]
		o.ask("err "+name, "validate")
		o.stat("session_refused_"+name, 1)
		if body.Version == 4 && c08AddrU32(body.ID) != 0 && (c.peerAs == 0 || rm.realAS == c.peerAs) &&
			!(rm.realAS == c.localAs && c08AddrU32(body.ID) == c.routerID) && (body.HoldTime == 0 || body.HoldTime >= 3) {
			o.fail("open-refused-wrongly", c08Detail(c, opens, name))
		}
		return
	case bgp.BGP_MSG_KEEPALIVE:
		o.ask(fmt.Sprintf("ok %d", rm.realAS), "validate")
		if body.HoldTime == 1 || body.HoldTime == 2 {
			o.fail("hold-1-2-accepted", c08Detail(c, opens, "hold time 1 or 2 accepted"))
		}
	default:
		o.fail("session-unexpected-answer-to-open", c08Detail(c, opens, fmt.Sprint(raw[18])))
		return
	}
	ka, _ := bgp.NewBGPKeepAliveMessage().Serialize()
	cli.Write(ka)
	tEst := time.Now()
	synctest.Wait()
	if peer.fsm.state.Load() != bgp.BGP_FSM_ESTABLISHED {
		o.fail("session-not-established", c08Detail(c, opens, peer.fsm.state.String()))
		return
	}
	o.stat("session_established", 1)
	peer.fsm.lock.Lock()
	st := c08StateStr(peer.fsm)
	peer.fsm.lock.Unlock()
	o.ask(st, "est")
	o.sample("session: " + c.line() + " ; " + line + " => " + st)

	// internal / external as the running fsm sees it: against the AS OUR OPEN announced on this session
	if peer.fsm.isEBGP != (rm.realAS != c.announcedAs) {
		o.fail("isebgp-not-real-as", c08Detail(c, opens, fmt.Sprintf("fsm.isEBGP %v, peer's OPEN says AS %d, our OPEN announced AS %d (global AS %d, configured local-as %d, peer-as %d)",
			peer.fsm.isEBGP, rm.realAS, c.announcedAs, c.globalAs, c.cfgLocalAs, c.peerAs)))
	}
	if rm.realAS == c.announcedAs {
		o.stat("session_internal", 1)
	}

	// ListPeer shows the same negotiated values
	var shown *api.Peer
	_ = s.ListPeer(ctx, &api.ListPeerRequest{Address: "10.9.9.9"}, func(p *api.Peer) { shown = p })
	wantHold := min(c.hold, int(body.HoldTime))
	if shown == nil || int(shown.Timers.State.NegotiatedHoldTime) != wantHold || shown.State.PeerAsn != rm.realAS ||
		(shown.State.Type == api.PeerType_PEER_TYPE_INTERNAL) != (rm.realAS == c.announcedAs) {
		o.fail("listpeer-negotiated-values", c08Detail(c, opens, fmt.Sprint(shown.GetTimers().GetState(), shown.GetState().GetPeerAsn(), shown.GetState().GetType())))
	}

	// 2b. the peer announces 10.99.7.0/24, hand-encoded the way the PROPERTY prescribes for this session
	// (path identifier iff we are configured to receive and the peer announced send; AS numbers 4
	// octets wide iff the peer announced the capability): the route must be installed.
	_, v4neg := c08FamilyMap(peer.fsm)[bgp.RF_IPv4_UC]
	inject := v4neg && !rm.apConfl[bgp.RF_IPv4_UC]
	injectWithID := false
	if inject {
		for _, a := range c.afs {
			if a.fam == bgp.RF_IPv4_UC && a.recv && rm.apAny[bgp.RF_IPv4_UC]&2 != 0 {
				injectWithID = true
			}
		}
		go cli.Write(c08PeerAnnounce(rm, c, injectWithID))
	}
	injectChecked, diedEarly := false, false
	checkInjected := func() {
		if !inject || injectChecked {
			return
		}
		injectChecked = true
		n := peer.adjRibIn.Count([]bgp.Family{bgp.RF_IPv4_UC})
		o.stat(fmt.Sprintf("session_route_received_pathid_%d_as4_%d", c08B(injectWithID), c08B(rm.as4)), 1)
		if n != 1 || peer.fsm.state.Load() != bgp.BGP_FSM_ESTABLISHED {
			o.fail("addpath-not-consumed-on-receive", c08Detail(c, opens, fmt.Sprintf("the peer announced 10.99.7.0/24 %s path identifier, %d-octet AS numbers: %d routes in the Adj-RIB-In, session %s",
				map[bool]string{true: "with", false: "without"}[injectWithID], map[bool]int{true: 4, false: 2}[rm.as4], n, peer.fsm.state.String())))
		}
	}

	// 3. what the server sends now: the UPDATE for 10.77.0.0/24 (if IPv4 unicast is active), then
	// keepalives at the negotiated period, then – we stay silent – the hold-timer NOTIFICATION.
	fm := c08FamilyMap(peer.fsm)
	_, v4 := fm[bgp.RF_IPv4_UC]
	sendAP := false
	for _, a := range c.afs {
		if a.fam == bgp.RF_IPv4_UC && a.sendMax > 0 && rm.mp[bgp.RF_IPv4_UC] && rm.apAny[bgp.RF_IPv4_UC]&1 != 0 && !rm.apConfl[bgp.RF_IPv4_UC] {
			sendAP = true
		}
	}
	confl := rm.apConfl[bgp.RF_IPv4_UC]
	gotUpdate := false
	sweepLens := map[int]bool{}
	var kaTimes []time.Duration
	var holdAt time.Duration = -1
	for n := 0; n < 500; n++ {
		raw, err = c08ReadMsg(cli, 70000*time.Second)
		if err != nil {
			break
		}
		switch raw[18] {
		case bgp.BGP_MSG_UPDATE:
			if len(raw) > 4096 && !rm.ext {
				o.fail("sent-oversized-message", c08Detail(c, opens, fmt.Sprintf("the server sent a %d-octet UPDATE to a peer that did not announce Extended Message", len(raw))))
			}
			// decode under the options the PROPERTY prescribes; a wrong encoding does not decode to the route
			opt := &bgp.MarshallingOption{Use2ByteAS: !rm.as4}
			if sendAP {
				opt.AddPath = map[bgp.Family]bgp.BGPAddPathMode{bgp.RF_IPv4_UC: bgp.BGP_ADD_PATH_RECEIVE}
			}
			u, perr := bgp.ParseBGPMessage(raw, opt)
			if perr != nil {
				if !confl {
					o.fail("update-not-encoded-as-negotiated", c08Detail(c, opens, perr.Error()))
				}
				continue
			}
			up := u.Body.(*bgp.BGPUpdate)
			if len(up.NLRI) == 0 {
				continue // end-of-rib
			}
			if len(up.NLRI) == 1 && strings.HasPrefix(up.NLRI[0].NLRI.String(), "10.78.") {
				sweepLens[len(raw)] = true
				continue
			}
			gotUpdate = true
			ok := len(up.NLRI) == 1 && up.NLRI[0].NLRI.String() == "10.77.0.0/24"
			has70000, has23456, as4path := false, false, false
			for _, a := range up.PathAttributes {
				switch p := a.(type) {
				case *bgp.PathAttributeAsPath:
					for _, seg := range p.Value {
						for _, as := range seg.GetAS() {
							if as == 80000 {
								has70000 = true
							}
							if as == bgp.AS_TRANS {
								has23456 = true
							}
						}
					}
				case *bgp.PathAttributeAs4Path:
					as4path = true
				}
			}
			if rm.as4 && !(has70000 && !as4path) || !rm.as4 && !(has23456 && as4path && !has70000) {
				ok = false
			}
			if !ok && !confl {
				o.fail("update-not-encoded-as-negotiated", c08Detail(c, opens, fmt.Sprintf("as4 %v addpath-send %v: nlri %v 70000 %v AS_TRANS %v AS4_PATH %v", rm.as4, sendAP, up.NLRI, has70000, has23456, as4path)))
			}
			o.stat(fmt.Sprintf("session_update_as4_%d_addpath_%d", c08B(rm.as4), c08B(sendAP)), 1)
		case bgp.BGP_MSG_KEEPALIVE:
			kaTimes = append(kaTimes, time.Since(tEst))
			checkInjected()
		case bgp.BGP_MSG_NOTIFICATION:
			if raw[19] == bgp.BGP_ERROR_HOLD_TIMER_EXPIRED {
				holdAt = time.Since(tEst)
			} else if inject && !injectChecked {
				injectChecked, diedEarly = true, true
				o.fail("addpath-not-consumed-on-receive", c08Detail(c, opens, fmt.Sprintf("the peer's UPDATE (path identifier %v, %d-octet AS) was answered with NOTIFICATION %d/%d",
					injectWithID, map[bool]int{true: 4, false: 2}[rm.as4], raw[19], raw[20])))
			}
			n = 1 << 30
		}
		if n == 1<<30 {
			break
		}
		if wantHold == 0 && len(kaTimes) > 0 {
			break
		}
		if wantHold == 0 && time.Since(tEst) > 60000*time.Second {
			break
		}
	}
	_ = t0
	if holdAt < 0 {
		checkInjected() // sessions without timers: judged once the server has gone quiet
	}
	if confl {
		o.stat("session_update_check_skipped_conflicting_addpath", 1)
	}
	if sweep && v4 && gotUpdate && !confl {
		// the sweep's UPDATEs have consecutive lengths: without Extended Message exactly those up to
		// 4096 octets arrive (so the longest seen is 4096 to the octet), with it all of them
		mxSeen := 0
		for l := range sweepLens {
			mxSeen = max(mxSeen, l)
		}
		o.stat(fmt.Sprintf("session_sweep_ext_%d", c08B(rm.ext)), 1)
		if !rm.ext {
			o.ask(fmt.Sprint(mxSeen), "sendwrites 2 %d", mxSeen)
			o.ask(fmt.Sprint(c08B(sweepLens[mxSeen+1])*(mxSeen+1)), "sendwrites 2 %d", mxSeen+1)
			if mxSeen != 4096 {
				class := "send-refused-fitting-message"
				if mxSeen > 4096 {
					class = "sent-oversized-message"
				}
				o.fail(class, c08Detail(c, opens, fmt.Sprintf("longest UPDATE of the one-octet sweep on the wire: %d octets (%d distinct lengths), session maximum 4096", mxSeen, len(sweepLens))))
			}
		} else if len(sweepLens) != c08SweepN {
			o.fail("send-refused-fitting-message", c08Detail(c, opens, fmt.Sprintf("%d of %d sweep routes arrived although Extended Message is negotiated", len(sweepLens), c08SweepN)))
		}
	}
	if v4 && !gotUpdate && !confl {
		o.fail("session-no-update-sent", c08Detail(c, opens, "IPv4 unicast negotiated but the local route was not advertised"))
	}
	if diedEarly {
		return // the session was torn down over the peer's UPDATE (reported above): no timers to judge
	}
	// keepalive period
	ka3 := c.ka3
	if wantHold < c.hold {
		ka3 = wantHold
	}
	period := ka3 / 3
	if period == 0 {
		period = 1
	}
	if wantHold == 0 {
		if len(kaTimes) > 0 || holdAt >= 0 {
			o.fail("keepalive-timer-vs-hold-zero", c08Detail(c, opens, fmt.Sprint("keepalives ", kaTimes, " hold expiry ", holdAt)))
		}
		o.ask("none", "ticker")
		o.ask("none", "holdtimer")
		o.stat("session_hold_zero", 1)
	} else {
		if len(kaTimes) == 0 {
			if period < wantHold {
				o.fail("keepalive-ticker-period", c08Detail(c, opens, "no keepalive before the hold timer"))
			}
		} else {
			got := int(kaTimes[0] / time.Second)
			o.ask(fmt.Sprint(got), "ticker")
			if got != period {
				o.fail("keepalive-ticker-period", c08Detail(c, opens, fmt.Sprintf("first keepalive after %d s, want %d", got, period)))
			}
		}
		o.ask(fmt.Sprint(int(holdAt/time.Second)), "holdtimer")
		if int(holdAt/time.Second) != wantHold {
			o.fail("hold-timer-expiry", c08Detail(c, opens, fmt.Sprintf("hold timer fired after %v, want %d s", holdAt, wantHold)))
		}
		o.stat("session_hold_expired", 1)
	}
}

// c08BigUpdate: a second session on a fresh server whose only purpose is the 5000-octet UPDATE.
func c08BigUpdate(t *testing.T, o *vOut, c *c08Cfg, spec *c08OpenSpec) {
	ctx := context.Background()
	s := NewBgpServer()
	go s.Serve()
	defer c08StopServer(s)
	if err := s.StartBgp(ctx, &api.StartBgpRequest{Global: &api.Global{Asn: c.globalAs, RouterId: c08U32Addr(c.routerID).String(), ListenPort: -1,
		Confederation: &api.Confederation{Enabled: c.confedEn, Identifier: c.confedID, MemberAsList: c.confed}}}); err != nil {
		t.Fatal(err)
	}
	if err := s.AddPeer(ctx, &api.AddPeerRequest{Peer: oc.NewPeerFromConfigStruct(c.neighbor())}); err != nil {
		return
	}
	synctest.Wait()
	peer := s.neighborMap[netip.MustParseAddr("10.9.9.9")]
	srv, cli := net.Pipe()
	defer cli.Close()
	_ = s.mgmtOperation(func() error { s.passConnToPeer(&c08PipeConn{Conn: srv}); return nil }, false)
	if _, err := c08ReadMsg(cli, 30*time.Second); err != nil {
		return
	}
	msg, err := c08Roundtrip(spec.message())
	if err != nil {
		return
	}
	body := msg.Body.(*bgp.BGPOpen)
	rm := c08Analyse(body)
	opens := []string{c08OpenLine(body)}
	wire, _ := msg.Serialize()
	cli.Write(wire)
	raw, err := c08ReadMsg(cli, 30*time.Second)
	if err != nil || raw[18] != bgp.BGP_MSG_KEEPALIVE {
		return
	}
	ka, _ := bgp.NewBGPKeepAliveMessage().Serialize()
	cli.Write(ka)
	synctest.Wait()
	if peer.fsm.state.Load() != bgp.BGP_FSM_ESTABLISHED {
		return
	}
	// UPDATE of 5000 octets: no routes, one unknown optional transitive attribute
	val := make([]byte, 5000-19-4-4)
	upd := make([]byte, 0, 5000)
	upd = append(upd, make([]byte, 19)...)
	for i := 0; i < 16; i++ {
		upd[i] = 0xff
	}
	binary.BigEndian.PutUint16(upd[16:18], 5000)
	upd[18] = bgp.BGP_MSG_UPDATE
	upd = append(upd, 0, 0) // withdrawn routes length
	upd = binary.BigEndian.AppendUint16(upd, uint16(4+len(val)))
	upd = append(upd, 0xd0, 250) // optional transitive extended-length, type 250
	upd = binary.BigEndian.AppendUint16(upd, uint16(len(val)))
	upd = append(upd, val...)
	go cli.Write(upd)
	refused := false
	tw := time.Now()
	for n := 0; n < 200 && time.Since(tw) < 3*time.Second; n++ {
		raw, err = c08ReadMsg(cli, 2*time.Second)
		if err != nil {
			break
		}
		if raw[18] == bgp.BGP_MSG_NOTIFICATION {
			refused = raw[19] == bgp.BGP_ERROR_MESSAGE_HEADER_ERROR && raw[20] == bgp.BGP_ERROR_SUB_BAD_MESSAGE_LENGTH
			if !refused {
				o.fail("big-update-other-notification", c08Detail(c, opens, fmt.Sprint(raw[19], "/", raw[20])))
			}
			break
		}
	}
	o.stat(fmt.Sprintf("session_big_update_ext_%d_refused_%d", c08B(rm.ext), c08B(refused)), 1)
	o.op("%s", c.line())
	o.op("%s", c.gline())
	o.op("%s", opens[0])
	ans := "4096"
	if !refused {
		ans = "65535"
	}
	o.op("estq")
	o.ask(ans, "recvmax 2")
	if refused == rm.ext {
		o.fail("recv-length-gate", c08Detail(c, opens, fmt.Sprintf("5000-octet UPDATE refused=%v, peer announced extended message=%v", refused, rm.ext)))
	}
	if !refused && peer.fsm.state.Load() != bgp.BGP_FSM_ESTABLISHED {
		o.fail("big-update-session-lost", c08Detail(c, opens, peer.fsm.state.String()))
	}
}

func TestVerifC08Session(t *testing.T) {
	o := vOpen(t)
	defer o.close()
	r := &vRand{s: o.seed*104729 + 88}
	n := 60
	if o.thorough {
		n = 400
	}
	for i := 0; i < n; i++ {
		c := c08SessionCfg(r)
		c.resolve(t) // provisional: the AS an iBGP peer would have
		realAS := c08PickRealAS(r, c)
		if slices.Contains(c.confed, realAS) {
			realAS = c.globalAs
		}
		if r.chance(85) {
			c.peerAs = realAS
		} else {
			c.peerAs = uint32(r.pick(65002, 70000))
		}
		spec := c08GenOpen(r, c, realAS, o)
		if r.chance(70) { // mostly acceptable OPENs, the refusals are the core harness's business
			spec.version = 4
			spec.hold = uint16(r.pick(0, 3, 6, 9, 30, 90, 180, 65535))
			spec.id = 0x0a090909
		}
		if i%5 == 2 {
			// every negotiated ADD-PATH mode of IPv4 unicast at session level, by construction: the four
			// local modes in turn against a peer announcing both directions; AS width alternates
			lm := (i / 5) % 4
			c.peerAs = realAS
			for k := range c.afs {
				if c.afs[k].fam == bgp.RF_IPv4_UC {
					c.afs[k].recv, c.afs[k].sendMax = lm&1 != 0, uint8(lm&2)
				}
			}
			caps := []bgp.ParameterCapabilityInterface{bgp.NewCapMultiProtocol(bgp.RF_IPv4_UC),
				bgp.NewCapAddPath([]*bgp.CapAddPathTuple{bgp.NewCapAddPathTuple(bgp.RF_IPv4_UC, bgp.BGP_ADD_PATH_BOTH)})}
			if realAS > 65535 || (i/20)%2 == 0 {
				caps = append(caps, bgp.NewCapFourOctetASNumber(realAS))
			}
			spec = &c08OpenSpec{version: 4, myAS: spec.myAS, hold: 90, id: 0x0a090909,
				params: []bgp.OptionParameterInterface{bgp.NewOptionParameterCapability(caps)}}
		}
		sweep := i%2 == 1
		synctest.Test(t, func(t *testing.T) { c08Session(t, o, r, c, spec, sweep) })
		if i%3 == 0 {
			c2, spec2 := *c, *spec
			c2.hold, c2.ka3, spec2.hold = 90, 90, 90 // the scripted peer sends no keepalives meanwhile
			synctest.Test(t, func(t *testing.T) { c08BigUpdate(t, o, &c2, &spec2) })
		}
	}
}
