//go:build verif

package server

// C09 correspondence harness, part 4 (package server): the per-SESSION inputs of the export rules.
//
// A real BgpServer with neighbors added through the API; the harness plays the sessions white-box
// from one goroutine, through the code the FSM goroutine runs: fsm.stateChange(ESTABLISHED / IDLE)
// followed by (*BgpServer).handleFSMMessage(fsmMsgStateChange) - so the table.PeerInfo, the
// negotiated families, State.PeerAs / State.PeerType are the code's own, not the harness's.  Every
// neighbor lives through SEVERAL sessions without being deleted, and between sessions everything
// that may legitimately change does change:
//   the local address of the connection, the AS and router id in the peer's OPEN (neighbors without
//   configured peer-as: the session may turn from external to internal), the families in the
//   OPEN, plain teardown vs. administrative disable / enable, and UpdatePeer edits of
//   remove-private-as / replace-peer-as / allow-own-as / RR-client.
// After each establishment (initial table transfer) and after each route change (fan-out), what the
// peer is sent - taken from its real outgoing queue - is compared with the Lean model's exportPath
// evaluated on the CURRENT session's values, and judged by the model-independent export oracles of
// part 2 against the CURRENT values (current local address, AS from this OPEN, configuration as it
// stands now), plus the remove-private-as clause.

import (
	"context"
	"fmt"
	"net"
	"net/netip"
	"runtime"
	"slices"
	"strings"
	"testing"
	"time"

	"github.com/osrg/gobgp/v4/api"
	"github.com/osrg/gobgp/v4/internal/pkg/table"
	"github.com/osrg/gobgp/v4/pkg/config/oc"
	"github.com/osrg/gobgp/v4/pkg/packet/bgp"
)

type c09sConn struct {
	net.Conn
	local, remote *net.TCPAddr
}

func (c *c09sConn) LocalAddr() net.Addr  { return c.local }
func (c *c09sConn) RemoteAddr() net.Addr { return c.remote }
func (c *c09sConn) Close() error         { return nil }

// what the remote side presents in one session
type c09sSession struct {
	local netip.Addr // our address on this connection
	as    uint32     // AS in the peer's OPEN
	rid   netip.Addr // router id in the peer's OPEN
	v6    bool       // IPv6 unicast in the OPEN
}

type c09sPeer struct {
	id       int
	addr     netip.Addr
	kind     string
	usualAS  uint32
	p        *peer
	up       bool
	disabled bool // administratively down
	cur      c09sSession
	nSess    int
}

type c09sWorld struct {
	t      *testing.T
	o      *vOut
	r      *vRand
	s      *BgpServer
	g      *oc.Global
	peers  []*c09sPeer
	routes map[string]*c09Route // by prefix: what the Loc-RIB holds (one route per prefix)
	srcOf  map[string]*c09sPeer
	seq    int
	hist   []string
}

func (w *c09sWorld) mgmt(f func()) {
	if err := w.s.mgmtOperation(func() error { f(); return nil }, true); err != nil {
		w.t.Fatal(err)
	}
}

func (w *c09sWorld) ev(format string, a ...any) string {
	e := fmt.Sprintf(format, a...)
	w.hist = append(w.hist, e)
	return e
}

func (w *c09sWorld) waitParked(sp *c09sPeer) {
	w.mgmt(func() { sp.p = w.s.neighborMap[sp.addr] })
	if sp.p == nil {
		w.t.Fatalf("peer %s not found", sp.addr)
	}
	for i := 0; sp.p.fsm.state.Load() != bgp.BGP_FSM_ACTIVE; i++ {
		if i > 200000 {
			w.t.Fatalf("fsm goroutine did not reach ACTIVE")
		}
		time.Sleep(100 * time.Microsecond)
	}
	time.Sleep(300 * time.Microsecond) // let it enter active() and park there
}

func (w *c09sWorld) apiPeer(sp *c09sPeer, edit func(*api.Peer)) *api.Peer {
	pr := &api.Peer{
		Conf:      &api.PeerConf{NeighborAddress: sp.addr.String()},
		Transport: &api.Transport{PassiveMode: true},
		AfiSafis: []*api.AfiSafi{
			{Config: &api.AfiSafiConfig{Family: &api.Family{Afi: api.Family_AFI_IP, Safi: api.Family_SAFI_UNICAST}, Enabled: true}},
			{Config: &api.AfiSafiConfig{Family: &api.Family{Afi: api.Family_AFI_IP6, Safi: api.Family_SAFI_UNICAST}, Enabled: true}},
		},
	}
	if edit != nil {
		edit(pr)
	}
	return pr
}

func c09sNewWorld(t *testing.T, o *vOut, r *vRand) *c09sWorld {
	w := &c09sWorld{t: t, o: o, r: r, routes: map[string]*c09Route{}, srcOf: map[string]*c09sPeer{}}
	w.s = NewBgpServer()
	go w.s.Serve()
	glob := &api.Global{Asn: uint32(r.pick(100, 300)), RouterId: fmt.Sprintf("10.255.0.%d", 1+r.intn(3)), ListenPort: -1}
	if err := w.s.StartBgp(context.Background(), &api.StartBgpRequest{Global: glob}); err != nil {
		t.Fatal(err)
	}
	n := 3 + r.intn(2)
	for i := 0; i < n; i++ {
		sp := &c09sPeer{id: i, addr: c09IP(10, 0, 0, 10+i)}
		pr := w.apiPeer(sp, func(pr *api.Peer) {
			switch k := r.intn(10); {
			case k < 5:
				sp.kind, sp.usualAS = "ebgp", uint32(r.pick(200, 65010, 64512))
				pr.Conf.PeerAsn = sp.usualAS
				pr.Conf.RemovePrivate = api.RemovePrivate(r.pick(0, 1, 1, 2))
				pr.Conf.ReplacePeerAsn = r.chance(25)
				if r.chance(20) {
					pr.Conf.LocalAsn = 400
				}
			case k < 8:
				sp.kind, sp.usualAS = "ibgp", glob.Asn
				pr.Conf.PeerAsn = glob.Asn
			default:
				sp.kind, sp.usualAS = "rr-client", glob.Asn
				pr.Conf.PeerAsn = glob.Asn
				pr.RouteReflector = &api.RouteReflector{RouteReflectorClient: true}
			}
			if sp.kind != "rr-client" && r.chance(30) {
				// peer-as not configured: AS and session type come from each OPEN
				pr.Conf.PeerAsn = 0
				sp.kind += "+as-from-open"
			}
		})
		if err := w.s.AddPeer(context.Background(), &api.AddPeerRequest{Peer: pr}); err != nil {
			t.Fatalf("AddPeer: %v", err)
		}
		w.waitParked(sp)
		w.g = sp.p.fsm.gConf
		w.peers = append(w.peers, sp)
		o.stat("sess_peer_"+sp.kind, 1)
	}
	return w
}

func (w *c09sWorld) stop() {
	w.s.StopBgp(context.Background(), &api.StopBgpRequest{})
	w.s.Stop()
}

func (w *c09sWorld) open(ss c09sSession) *bgp.BGPMessage {
	caps := []bgp.ParameterCapabilityInterface{bgp.NewCapMultiProtocol(bgp.RF_IPv4_UC), bgp.NewCapRouteRefresh(), bgp.NewCapFourOctetASNumber(ss.as)}
	if ss.v6 {
		caps = append(caps, bgp.NewCapMultiProtocol(bgp.RF_IPv6_UC))
	}
	as2 := uint16(ss.as)
	if ss.as > 65535 {
		as2 = bgp.AS_TRANS
	}
	m, err := bgp.NewBGPOpenMessage(as2, 90, ss.rid, []bgp.OptionParameterInterface{bgp.NewOptionParameterCapability(caps)})
	if err != nil {
		w.t.Fatal(err)
	}
	return m
}

func c09sTCP(a netip.Addr, port int) *net.TCPAddr { return &net.TCPAddr{IP: net.IP(a.AsSlice()), Port: port} }

// what fsmHandler.loop does when openconfirm() returns ESTABLISHED
func (w *c09sWorld) sessionUp(sp *c09sPeer, ss c09sSession) {
	f := sp.p.fsm
	f.conn = &c09sConn{local: c09sTCP(ss.local, 179), remote: c09sTCP(sp.addr, 30000+sp.nSess)}
	f.recvOpen = w.open(ss)
	reason := newfsmStateReason(fsmOpenMsgNegotiated, nil, nil)
	f.stateChange(bgp.BGP_FSM_ESTABLISHED, reason)
	w.s.handleFSMMessage(sp.p, &fsmMsg{MsgType: fsmMsgStateChange, MsgData: bgp.BGP_FSM_ESTABLISHED, StateReason: reason, timestamp: time.Now()})
	f.state.Store(bgp.BGP_FSM_ESTABLISHED)
	sp.up, sp.cur = true, ss
	sp.nSess++
}

// … and when established() returns IDLE; admin = DisablePeer (changeadminState stored the state
// before the FSM left established())
func (w *c09sWorld) sessionDown(sp *c09sPeer, admin bool) {
	f := sp.p.fsm
	rt := fsmReadFailed
	if admin {
		f.adminState.Store(adminStateDown)
		rt = fsmAdminDown
	}
	r := newfsmStateReason(rt, nil, nil)
	f.stateChange(bgp.BGP_FSM_IDLE, r)
	w.s.handleFSMMessage(sp.p, &fsmMsg{MsgType: fsmMsgStateChange, MsgData: bgp.BGP_FSM_IDLE, StateReason: r, timestamp: time.Now()})
	f.state.Store(bgp.BGP_FSM_IDLE)
	sp.up, sp.disabled = false, admin
	// its routes are gone (no graceful restart here)
	for k, src := range w.srcOf {
		if src == sp {
			delete(w.srcOf, k)
			delete(w.routes, k)
		}
	}
	for _, q := range w.peers {
		w.drain(q)
	}
}

func (w *c09sWorld) drain(sp *c09sPeer) []*table.Path {
	var paths []*table.Path
	ch := sp.p.fsm.outgoingCh
	take := func() bool {
		select {
		case o := <-ch.Out():
			if m, ok := o.(*fsmOutgoingMsg); ok {
				paths = append(paths, m.Paths...)
			}
			return true
		default:
			return false
		}
	}
	for {
		if take() {
			continue
		}
		if ch.Len() > 0 {
			runtime.Gosched()
			continue
		}
		time.Sleep(50 * time.Microsecond) // one element may be in flight inside the channel's pump
		if ch.Len() == 0 && !take() {
			return paths
		}
	}
}

// the CURRENT truth about a target peer: configuration as it stands now + this session's values,
// as the neighbor structure / PeerInfo a correct establishment would produce
func (w *c09sWorld) current(sp *c09sPeer) *c09Peer {
	conf := *sp.p.fsm.pConf.ReadOnly()
	n := &conf
	n.State.PeerAs = sp.cur.as
	n.State.RemoteRouterId = sp.cur.rid
	n.State.NeighborAddress = sp.addr
	if n.Config.PeerAs != 0 {
		n.State.PeerType = n.Config.PeerType
	} else {
		n.State.PeerType = oc.PEER_TYPE_EXTERNAL
		if n.Config.LocalAs == sp.cur.as {
			n.State.PeerType = oc.PEER_TYPE_INTERNAL
		}
	}
	n.State.RemovePrivateAs, n.AsPathOptions.State.ReplacePeerAs = "", false
	if n.Config.PeerType == oc.PEER_TYPE_EXTERNAL {
		n.State.RemovePrivateAs = n.Config.RemovePrivateAs
		n.AsPathOptions.State.ReplacePeerAs = n.AsPathOptions.Config.ReplacePeerAs
	}
	n.GracefulRestart.Config.LongLivedEnabled = false
	cp := &c09Peer{conf: n, v6: sp.cur.v6, llgr: map[bgp.Family]bool{}}
	cp.info = table.NewPeerInfo(w.g, n, sp.cur.as, n.Config.LocalAs, sp.cur.rid, w.g.Config.RouterId, sp.addr, sp.cur.local)
	return cp
}

func (w *c09sWorld) detail(sp *c09sPeer, where string, rt *c09Route, got string) map[string]any {
	h := w.hist
	if len(h) > 40 {
		h = h[len(h)-40:]
	}
	d := map[string]any{"global": c09GlobalDef(w.g), "peer": sp.id, "peer_kind": sp.kind, "session_no": sp.nSess,
		"session": fmt.Sprintf("local %s, OPEN as %d id %s v6 %v", sp.cur.local, sp.cur.as, sp.cur.rid, sp.cur.v6), "after": where,
		"sent": got, "history": slices.Clone(h)}
	if rt != nil {
		d["route"] = rt.def()
		d["peer_now"] = w.current(sp).def(rt.path.GetFamily())
	}
	return d
}

// judge what `sp` was sent (`paths`, from its outgoing queue) for the stored routes in `keys`
func (w *c09sWorld) judge(sp *c09sPeer, paths []*table.Path, keys []string, where string) {
	sent := map[string]*table.Path{}
	for _, p := range paths {
		if p == nil || p.IsEOR() {
			continue
		}
		k := p.GetNlri().String()
		if p.IsWithdraw {
			delete(sent, k)
			continue
		}
		sent[k] = p
	}
	cur := w.current(sp)
	slices.Sort(keys)
	for _, k := range keys {
		rt := w.routes[k]
		if rt == nil {
			continue
		}
		out := sent[k]
		delete(sent, k)
		got := "nothing"
		if out != nil {
			got = "update " + c09Flat(out)
		}
		w.o.op("path %s", rt.def())
		w.o.op("old none")
		w.o.op("%s", cur.def(rt.path.GetFamily()))
		w.o.ask(got, "exportf")
		w.o.stat("sess_export_"+strings.SplitN(got, " ", 2)[0], 1)
		if sp.nSess > 1 {
			w.o.stat("sess_export_judged_in_a_later_session", 1)
		}
		for _, b := range c09ExportOracle(nil, cur, rt, nil, out, w.o) {
			w.o.fail(b, w.detail(sp, where, rt, got))
		}
		// only families in THIS session's OPEN
		if out != nil && rt.path.GetFamily() == bgp.RF_IPv6_UC && !sp.cur.v6 {
			w.o.fail("export:family-not-negotiated-in-this-session", w.detail(sp, where, rt, got))
		}
		// a local route with an unspecified next hop goes to an iBGP peer with THIS session's address
		if out != nil && cur.conf.State.PeerType == oc.PEER_TYPE_INTERNAL && rt.path.IsLocal() && rt.path.GetNexthop().IsUnspecified() &&
			rt.path.GetFamily() == bgp.RF_IPv4_UC && out.GetNexthop() != sp.cur.local {
			w.o.fail("ibgp:next-hop-of-local-route-not-local-address", w.detail(sp, where, rt, got))
		}
		// remove-private-as, from the configuration as it stands
		if out != nil && cur.conf.State.PeerType == oc.PEER_TYPE_EXTERNAL && cur.conf.State.RemovePrivateAs != "" {
			if asp := out.GetAsPath(); asp != nil {
				for _, as := range append(c09AllAS(asp, false), c09AllAS(asp, true)...) {
					if ((as >= 64512 && as <= 65534) || (as >= 4200000000 && as <= 4294967294)) && as != cur.conf.Config.LocalAs {
						w.o.fail("ebgp:private-as-sent-despite-remove-private-as", w.detail(sp, where, rt, got))
						break
					}
				}
			}
		}
	}
	for k := range sent {
		if _, stored := w.routes[k]; !stored {
			w.o.fail("export:announces-a-route-that-is-not-stored", w.detail(sp, where, nil, k))
		}
	}
}

func (w *c09sWorld) allKeys() []string {
	keys := make([]string, 0, len(w.routes))
	for k := range w.routes {
		keys = append(keys, k)
	}
	return keys
}

// a new stored route (own prefix, so it is the best one): locally originated, or received from an
// established peer through handleFSMMessage
func (w *c09sWorld) newRoute(src *c09sPeer) {
	r := w.r
	w.seq++
	family := bgp.Family(bgp.RF_IPv4_UC)
	var nl bgp.NLRI
	if src == nil && r.chance(25) {
		family = bgp.RF_IPv6_UC
		n, _ := bgp.NewIPAddrPrefix(netip.MustParsePrefix(fmt.Sprintf("2001:db8:%x::/48", w.seq)))
		nl = n
	} else {
		n, _ := bgp.NewIPAddrPrefix(netip.MustParsePrefix(fmt.Sprintf("10.%d.%d.0/24", 100+w.seq/250, w.seq%250)))
		nl = n
	}
	others := []uint32{500, 600, 64512, 65010, 200, 4200000000, 70000}
	segs := []bgp.AsPathParamInterface{}
	if src != nil && src.cur.as != w.srcLocalAs(src) {
		segs = append(segs, bgp.NewAs4PathParam(bgp.BGP_ASPATH_ATTR_TYPE_SEQ, []uint32{src.cur.as}))
	}
	for i := r.pick(0, 1, 1, 2); i > 0; i-- {
		m := 1 + r.intn(3)
		as := make([]uint32, m)
		for j := range as {
			as[j] = others[r.intn(len(others))]
			if r.chance(20) {
				as[j] = w.peers[r.intn(len(w.peers))].usualAS
			}
			if as[j] == w.g.Config.As || as[j] == 400 {
				as[j] = 500 // never our own AS: the inbound loop checks are not the subject here
			}
		}
		segs = append(segs, bgp.NewAs4PathParam(uint8(r.pick(2, 2, 2, 1)), as))
	}
	attrs := []bgp.PathAttributeInterface{bgp.NewPathAttributeOrigin(uint8(r.intn(3))), bgp.NewPathAttributeAsPath(segs)}
	if family == bgp.RF_IPv4_UC {
		nh := c09IP(10, 0, 1, 1+r.intn(5))
		if src != nil {
			nh = src.addr
		} else if r.chance(50) {
			nh = c09IP(0, 0, 0, 0)
		}
		a, _ := bgp.NewPathAttributeNextHop(nh)
		attrs = append(attrs, a)
	}
	if r.chance(40) {
		attrs = append(attrs, bgp.NewPathAttributeMultiExitDisc(uint32(r.intn(50))))
	}
	srcInternal := src != nil && src.cur.as == w.srcLocalAs(src)
	if src == nil && r.chance(30) || srcInternal {
		attrs = append(attrs, bgp.NewPathAttributeLocalPref(uint32(r.pick(100, 200))))
	}
	if r.chance(30) {
		attrs = append(attrs, bgp.NewPathAttributeCommunities([]uint32{uint32(65000<<16 | w.seq&0xffff)}))
	}
	if srcInternal && r.chance(40) {
		a, _ := bgp.NewPathAttributeOriginatorId(c09IP(10, 1, 0, 77))
		attrs = append(attrs, a)
		cl, _ := bgp.NewPathAttributeClusterList([]netip.Addr{c09IP(10, 253, 0, 1+r.intn(2))})
		attrs = append(attrs, cl)
	}
	if family == bgp.RF_IPv6_UC {
		nh := netip.MustParseAddr(fmt.Sprintf("2001:db8:ffff::%d", 1+r.intn(5)))
		if r.chance(50) {
			nh = netip.IPv6Unspecified()
		}
		a, _ := bgp.NewPathAttributeMpReachNLRI(family, []bgp.PathNLRI{{NLRI: nl}}, nh)
		attrs = append(attrs, a)
	}
	if r.chance(15) {
		attrs = append(attrs, bgp.NewPathAttributeUnknown(bgp.BGPAttrFlag(r.pick(0x80, 0xC0)), 99, []byte{byte(w.seq)}))
	}
	ts := time.Now().Add(time.Hour + time.Duration(w.seq)*time.Second)
	rt := &c09Route{id: w.seq, attrs: attrs, nlri: nl}
	key := nl.String()
	var where string
	if src == nil {
		rt.path = table.NewPath(family, nil, bgp.PathNLRI{NLRI: nl}, false, attrs, ts, false)
		stored := table.NewPath(family, nil, bgp.PathNLRI{NLRI: nl}, false, attrs, ts, false)
		where = w.ev("local route %s: %s", key, c09AttrsR(attrs))
		w.mgmt(func() {
			if err := w.s.addPathList("", []*table.Path{stored}); err != nil {
				w.t.Fatalf("addPathList: %v", err)
			}
		})
		w.o.stat("sess_route_local", 1)
	} else {
		// what the Loc-RIB holds is sourced from the PeerInfo of the sender's CURRENT session
		rt.path = table.NewPath(family, w.current(src).info, bgp.PathNLRI{NLRI: nl}, false, attrs, ts, false)
		where = w.ev("peer %d announces %s: %s", src.id, key, c09AttrsR(attrs))
		msg := bgp.NewBGPUpdateMessage(nil, attrs, []bgp.PathNLRI{{NLRI: nl}})
		w.s.handleFSMMessage(src.p, &fsmMsg{MsgType: fsmMsgBGPMessage, MsgData: msg, timestamp: ts})
		w.srcOf[key] = src
		w.o.stat("sess_route_received", 1)
	}
	w.routes[key] = rt
	for _, q := range w.peers {
		if q.up {
			w.judge(q, w.drain(q), []string{key}, where)
		} else {
			w.drain(q)
		}
	}
}

func (w *c09sWorld) srcLocalAs(sp *c09sPeer) uint32 { return sp.p.fsm.pConf.ReadOnly().Config.LocalAs }

// UpdatePeer between sessions: edits that the export rules read
func (w *c09sWorld) updatePeer(sp *c09sPeer) {
	r := w.r
	conf := sp.p.fsm.pConf.ReadOnly()
	what := ""
	pr := w.apiPeer(sp, func(pr *api.Peer) {
		pr.Conf.PeerAsn = conf.Config.PeerAs
		if conf.Config.LocalAs != w.g.Config.As {
			pr.Conf.LocalAsn = conf.Config.LocalAs
		}
		switch conf.Config.RemovePrivateAs {
		case oc.REMOVE_PRIVATE_AS_OPTION_ALL:
			pr.Conf.RemovePrivate = api.RemovePrivate_REMOVE_PRIVATE_ALL
		case oc.REMOVE_PRIVATE_AS_OPTION_REPLACE:
			pr.Conf.RemovePrivate = api.RemovePrivate_REMOVE_PRIVATE_REPLACE
		}
		pr.Conf.ReplacePeerAsn = conf.AsPathOptions.Config.ReplacePeerAs
		pr.Conf.AllowOwnAsn = uint32(conf.AsPathOptions.Config.AllowOwnAs)
		if conf.RouteReflector.Config.RouteReflectorClient {
			pr.RouteReflector = &api.RouteReflector{RouteReflectorClient: true}
		}
		external := conf.Config.PeerType == oc.PEER_TYPE_EXTERNAL
		switch k := r.intn(4); {
		case k == 0 && external:
			pr.Conf.RemovePrivate = api.RemovePrivate((int(pr.Conf.RemovePrivate) + 1 + r.intn(2)) % 3)
			what = fmt.Sprintf("remove-private-as -> %v", pr.Conf.RemovePrivate)
		case k == 1 && external:
			pr.Conf.ReplacePeerAsn = !pr.Conf.ReplacePeerAsn
			what = fmt.Sprintf("replace-peer-as -> %v", pr.Conf.ReplacePeerAsn)
		case k == 2:
			pr.Conf.AllowOwnAsn = (pr.Conf.AllowOwnAsn + 1) % 3
			what = fmt.Sprintf("allow-own-as -> %d", pr.Conf.AllowOwnAsn)
		case !external:
			on := !conf.RouteReflector.Config.RouteReflectorClient
			pr.RouteReflector = &api.RouteReflector{RouteReflectorClient: on}
			what = fmt.Sprintf("rr-client -> %v", on)
		}
	})
	if what == "" {
		return
	}
	w.ev("UpdatePeer %d: %s", sp.id, what)
	if _, err := w.s.UpdatePeer(context.Background(), &api.UpdatePeerRequest{Peer: pr}); err != nil {
		w.t.Fatalf("UpdatePeer: %v", err)
	}
	w.o.stat("sess_update_peer", 1)
	// the edit may have replaced the neighbor by a new one (delete + add)
	var now *peer
	w.mgmt(func() { now = w.s.neighborMap[sp.addr] })
	if now != sp.p {
		w.waitParked(sp)
		sp.disabled = false
		sp.nSess = 0
		w.o.stat("sess_update_peer_replaced_the_neighbor", 1)
	}
}

func (w *c09sWorld) nextSession(sp *c09sPeer) c09sSession {
	r := w.r
	ss := c09sSession{local: c09IP(10, 0, 0, 1+r.intn(3)), as: sp.usualAS, rid: c09IP(10, 1, 0, 10+sp.id), v6: r.chance(60)}
	if r.chance(10) {
		ss.rid = c09IP(10, 1, 1, 10+sp.id)
	}
	if sp.p.fsm.pConf.ReadOnly().Config.PeerAs == 0 {
		// whatever AS the peer announces is accepted
		ss.as = uint32(r.pick(int(sp.usualAS), int(sp.usualAS), 65010, 200, int(w.srcLocalAs(sp))))
	}
	return ss
}

func TestVerifC09Sessions(t *testing.T) {
	o := vOpen(t)
	defer o.close()
	r := &vRand{s: o.seed*32452843 + 11}
	nWorlds, nEvents := 40, 30
	if o.thorough {
		nWorlds = 300
	}
	for wi := 0; wi < nWorlds; wi++ {
		w := c09sNewWorld(t, o, r)
		o.op("%s", c09GlobalDef(w.g))
		for i := 0; i < 3; i++ {
			w.newRoute(nil)
		}
		for e := 0; e < nEvents; e++ {
			sp := w.peers[r.intn(len(w.peers))]
			switch {
			case !sp.up:
				if r.chance(25) {
					w.updatePeer(sp)
				}
				if sp.disabled {
					sp.p.fsm.adminState.Store(adminStateUp) // EnablePeer
					sp.disabled = false
					w.ev("peer %d enabled", sp.id)
				}
				ss := w.nextSession(sp)
				where := w.ev("peer %d (%s) session %d up: local %s, OPEN as %d id %s v6 %v", sp.id, sp.kind, sp.nSess+1, ss.local, ss.as, ss.rid, ss.v6)
				w.sessionUp(sp, ss)
				o.stat("sess_up", 1)
				if sp.nSess > 1 {
					o.stat("sess_up_again", 1)
				}
				w.judge(sp, w.drain(sp), w.allKeys(), where)
			case r.chance(45):
				w.newRoute(sp)
			case r.chance(30):
				w.newRoute(nil)
			default:
				admin := r.chance(40)
				w.ev("peer %d down (admin %v)", sp.id, admin)
				w.sessionDown(sp, admin)
				o.stat(fmt.Sprintf("sess_down_admin_%v", admin), 1)
			}
		}
		if wi < 2 {
			o.sample(strings.Join(w.hist[:min(len(w.hist), 6)], " ; "))
		}
		w.stop()
	}
}
