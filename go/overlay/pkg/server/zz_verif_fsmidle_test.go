//go:build verif

package server

// Shared by the harnesses that make an admin-down peer "look established" by writing fsm.state
// white-box (C06, C19 bmp, C20 run).  AddPeer starts the peer's REAL FSM goroutine, and
// fsmHandler.loop reads fsm.state once, when it starts: a harness that overwrites the variable before
// that goroutine was scheduled makes the loop start in ESTABLISHED with no connection (nil dereference
// in loop) — a crash of the harness's own making, seen under load.  vAwaitFSMIdle is the hand-shake that
// rules it out without timing assumptions: a probe connection is put into fsm.connCh, which idle()
// (and only the FSM goroutine) takes out and closes.

import (
	"net"
	"sync"
	"time"
)

type vProbeConn struct {
	net.Conn
	once   sync.Once
	closed chan struct{}
}

func (c *vProbeConn) Close() error {
	c.once.Do(func() { close(c.closed) })
	return nil
}

// vAwaitFSMIdle returns true once the peer's FSM goroutine has been seen waiting in idle().
func vAwaitFSMIdle(p *peer) bool {
	pc := &vProbeConn{closed: make(chan struct{})}
	select {
	case p.fsm.connCh <- pc:
	case <-time.After(60 * time.Second):
		return false
	}
	select {
	case <-pc.closed:
		return true
	case <-time.After(60 * time.Second):
		return false
	}
}
