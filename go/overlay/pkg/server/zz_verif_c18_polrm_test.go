//go:build verif

package server

// C18 — what REMAINS after the removal of a policy (part of TestVerifC18History).
//
// Scenario: policy A lists own statements and statements SHARED with policy B, the shared ones in
// every position; A is deleted with every combination of DeletePolicyRequest.all /
// preserve_statements (all = false: a member subset).  Afterwards
//   * ListPolicy shows A absent (all) or with the remaining members in order, B untouched;
//   * ListStatement shows exactly the statements the documentation of preserve_statements leaves:
//     "if this flag is set, gobgpd won't delete any statements even if some statements get not used
//     by any policy by this operation" — so without the flag every statement that A used before and
//     no policy uses now is gone, every other one is still listed unchanged;
//   * every name that is gone is RE-CREATED with NEW contents, and what ListStatement / ListPolicy then
//     report must be proto.Equal to what a FRESH server reports for the same first-time creation (a
//     stale object of that name would be merged into, or refuse, the new one).

import (
	"context"
	"fmt"
	"io"
	"log/slog"
	"sort"
	"strings"

	"github.com/osrg/gobgp/v4/api"
	"google.golang.org/protobuf/proto"
)

func vC18HFreshServer() (*BgpServer, func()) {
	s := NewBgpServer(LoggerOption(slog.New(slog.NewTextHandler(io.Discard, nil)), &slog.LevelVar{}))
	go s.Serve()
	if err := s.StartBgp(context.Background(), &api.StartBgpRequest{Global: vC18SGlobal()}); err != nil {
		panic(err)
	}
	return s, func() {
		s.StopBgp(context.Background(), &api.StopBgpRequest{})
		s.Stop()
	}
}

// content of a generated statement: index k selects conditions / actions that differ per k
func vC18HStmt(name string, k int) *api.Statement {
	st := &api.Statement{Name: name, Conditions: &api.Conditions{}, Actions: &api.Actions{}}
	switch k % 4 {
	case 0:
		st.Conditions.AsPathLength = &api.AsPathLength{Type: api.Comparison_COMPARISON_GE, Length: uint32(1 + k)}
		st.Actions.RouteAction = api.RouteAction_ROUTE_ACTION_ACCEPT
	case 1:
		st.Conditions.PrefixSet = &api.MatchSet{Type: api.MatchSet_TYPE_ANY, Name: "vc18-ps4"}
		st.Actions.Med = &api.MedAction{Type: api.MedAction_TYPE_REPLACE, Value: int64(100 + k)}
	case 2:
		st.Conditions.CommunitySet = &api.MatchSet{Type: api.MatchSet_TYPE_ALL, Name: "vc18-cs"}
		st.Actions.LocalPref = &api.LocalPrefAction{Value: uint32(200 + k)}
		st.Actions.RouteAction = api.RouteAction_ROUTE_ACTION_REJECT
	default:
		st.Conditions.NeighborSet = &api.MatchSet{Type: api.MatchSet_TYPE_INVERT, Name: "vc18-ns"}
		st.Actions.AsPrepend = &api.AsPrependAction{Asn: 65001, Repeat: uint32(1 + k%5)}
	}
	return st
}

func vC18HListStatements(s *BgpServer, prefix string) map[string]*api.Statement {
	out := map[string]*api.Statement{}
	s.ListStatement(context.Background(), &api.ListStatementRequest{}, func(x *api.Statement) {
		if strings.HasPrefix(x.Name, prefix) {
			out[x.Name] = x
		}
	})
	return out
}

func vC18HListPolicy(s *BgpServer, name string) *api.Policy {
	var got *api.Policy
	s.ListPolicy(context.Background(), &api.ListPolicyRequest{Name: name}, func(x *api.Policy) { got = x })
	return got
}

func vC18HPolicyRemoval(o *vOut, r *vRand, s *BgpServer, n int) {
	ctx := context.Background()
	fresh, stopFresh := vC18HFreshServer()
	defer stopFresh()
	for _, d := range vC18SFixedSets { // the defined sets the statements refer to
		fresh.AddDefinedSet(ctx, &api.AddDefinedSetRequest{DefinedSet: proto.Clone(d).(*api.DefinedSet)})
	}
	for i := 0; i < n; i++ {
		pfx := fmt.Sprintf("vc18r-%d-", i)
		// members of A: 1-3 own statements and 1-2 shared ones, in a random order (shared first, middle, last)
		nOwn, nSh := r.pick(1, 2, 2, 3), r.pick(1, 1, 2)
		names := []string{}
		shared := map[string]bool{}
		for j := 0; j < nOwn; j++ {
			names = append(names, fmt.Sprintf("%so%d", pfx, j))
		}
		for j := 0; j < nSh; j++ {
			nm := fmt.Sprintf("%ss%d", pfx, j)
			names = append(names, nm)
			shared[nm] = true
		}
		order := []string{}
		for _, j := range r.perm(len(names)) {
			order = append(order, names[j])
		}
		content := map[string]*api.Statement{}
		for j, nm := range names {
			content[nm] = vC18HStmt(nm, i+j)
		}
		polA, polB := pfx+"A", pfx+"B"
		inline := r.chance(40) // A defined with inline statements (AddPolicy defines them) or by reference
		hist := []string{}
		fail := func(cls string, d map[string]any) {
			d["history"] = hist
			d["order_of_A"] = order
			o.fail("policy-removal:"+cls, d)
		}
		ok := true
		step := func(what string, err error) {
			hist = append(hist, what)
			if err != nil && ok {
				ok = false
				fail("setup-refused", map[string]any{"step": what, "err": err.Error()})
			}
		}
		// B first (by reference to statements created on their own), then A
		bst := []*api.Statement{}
		for nm := range shared {
			step("AddStatement "+nm, s.AddStatement(ctx, &api.AddStatementRequest{Statement: proto.Clone(content[nm]).(*api.Statement)}))
			bst = append(bst, &api.Statement{Name: nm})
		}
		sort.Slice(bst, func(a, b int) bool { return bst[a].Name < bst[b].Name })
		step("AddPolicy B refer", s.AddPolicy(ctx, &api.AddPolicyRequest{Policy: &api.Policy{Name: polB, Statements: bst}, ReferExistingStatements: true}))
		ast := []*api.Statement{}
		if inline {
			// inline definition cannot re-define the shared names: define the own ones inline in a first
			// request, then append the shared ones by reference — the resulting order is own..., shared...
			own, sh := []*api.Statement{}, []*api.Statement{}
			for _, nm := range order {
				if shared[nm] {
					sh = append(sh, &api.Statement{Name: nm})
				} else {
					own = append(own, proto.Clone(content[nm]).(*api.Statement))
				}
			}
			if r.chance(50) {
				step("AddPolicy A refer(shared)", s.AddPolicy(ctx, &api.AddPolicyRequest{Policy: &api.Policy{Name: polA, Statements: sh}, ReferExistingStatements: true}))
				step("AddPolicy A inline(own)", s.AddPolicy(ctx, &api.AddPolicyRequest{Policy: &api.Policy{Name: polA, Statements: own}}))
				order = nil
				for _, x := range sh {
					order = append(order, x.Name)
				}
				for _, x := range own {
					order = append(order, x.Name)
				}
			} else {
				step("AddPolicy A inline(own)", s.AddPolicy(ctx, &api.AddPolicyRequest{Policy: &api.Policy{Name: polA, Statements: own}}))
				step("AddPolicy A refer(shared)", s.AddPolicy(ctx, &api.AddPolicyRequest{Policy: &api.Policy{Name: polA, Statements: sh}, ReferExistingStatements: true}))
				order = nil
				for _, x := range own {
					order = append(order, x.Name)
				}
				for _, x := range sh {
					order = append(order, x.Name)
				}
			}
		} else {
			for _, nm := range order {
				if !shared[nm] {
					step("AddStatement "+nm, s.AddStatement(ctx, &api.AddStatementRequest{Statement: proto.Clone(content[nm]).(*api.Statement)}))
				}
				ast = append(ast, &api.Statement{Name: nm})
			}
			step("AddPolicy A refer", s.AddPolicy(ctx, &api.AddPolicyRequest{Policy: &api.Policy{Name: polA, Statements: ast}, ReferExistingStatements: true}))
		}
		if !ok {
			continue
		}
		sharedPos := []string{}
		for j, nm := range order {
			if shared[nm] {
				sharedPos = append(sharedPos, fmt.Sprint(j))
			}
		}
		o.stat("polrm_cases", 1)
		o.stat("polrm_shared_at_"+strings.Join(sharedPos, "+")+"_of_"+fmt.Sprint(len(order)), 1)
		before := vC18HListStatements(s, pfx)

		// ---- the deletion
		all, preserve := r.chance(60), r.chance(40)
		o.stat(fmt.Sprintf("polrm_all%v_preserve%v", all, preserve), 1)
		removed := map[string]bool{}
		req := &api.Policy{Name: polA}
		if all {
			for _, nm := range order {
				removed[nm] = true
			}
		} else {
			for _, j := range r.perm(len(order))[:1+r.intn(len(order))] {
				removed[order[j]] = true
				req.Statements = append(req.Statements, &api.Statement{Name: order[j]})
			}
		}
		what := fmt.Sprintf("DeletePolicy A all=%v preserve=%v members=%s", all, preserve, vC18HNames(req.Statements))
		hist = append(hist, what)
		if err := s.DeletePolicy(ctx, &api.DeletePolicyRequest{Policy: req, All: all, PreserveStatements: preserve}); err != nil {
			fail("delete-refused", map[string]any{"err": err.Error()})
			continue
		}
		// expected policies
		remain := []string{}
		for _, nm := range order {
			if !removed[nm] {
				remain = append(remain, nm)
			}
		}
		gotA := vC18HListPolicy(s, polA)
		switch {
		case all && gotA != nil:
			fail("policy-still-listed", map[string]any{"got": vC18SJSON(gotA)})
		case !all && gotA == nil:
			fail("policy-lost", map[string]any{})
		case !all && vC18HNames(gotA.Statements) != strings.Join(remain, ","):
			fail("policy-members-differ", map[string]any{"want": remain, "got": vC18HNames(gotA.Statements)})
		}
		if gotB := vC18HListPolicy(s, polB); gotB == nil || vC18HNames(gotB.Statements) != vC18HNames(bst) {
			fail("other-policy-changed", map[string]any{"got": vC18SJSON(gotB)})
		}
		// expected statements: gone iff (not preserve) and used by A before and by no policy now
		after := vC18HListStatements(s, pfx)
		gone := []string{}
		for _, nm := range names {
			usedNow := shared[nm] || (!all && !removed[nm])
			wantGone := !preserve && removed[nm] && !usedNow
			_, listed := after[nm]
			switch {
			case wantGone && listed:
				fail("orphan-statement-listed", map[string]any{"statement": nm, "all": all, "preserve": preserve, "shared_positions": sharedPos})
			case !wantGone && !listed:
				fail("statement-lost", map[string]any{"statement": nm, "all": all, "preserve": preserve})
			case !wantGone && !proto.Equal(vC18SNormStatement(before[nm]), vC18SNormStatement(after[nm])):
				fail("statement-changed", map[string]any{"statement": nm, "before": vC18SJSON(before[nm]), "after": vC18SJSON(after[nm])})
			}
			if wantGone {
				gone = append(gone, nm)
			}
		}
		// ---- re-creation of the removed names with NEW contents == first-time creation on a fresh server
		for j, nm := range gone {
			nw := vC18HStmt(nm, i+j+2) // other conditions and actions than before
			hist = append(hist, "AddStatement(new contents) "+nm)
			e1 := s.AddStatement(ctx, &api.AddStatementRequest{Statement: proto.Clone(nw).(*api.Statement)})
			e2 := fresh.AddStatement(ctx, &api.AddStatementRequest{Statement: proto.Clone(nw).(*api.Statement)})
			g1, g2 := vC18HListStatements(s, pfx)[nm], vC18HListStatements(fresh, pfx)[nm]
			o.stat("polrm_recreated", 1)
			if (e1 == nil) != (e2 == nil) || !proto.Equal(g1, g2) {
				fail("recreation-differs-from-first-creation", map[string]any{"statement": nm, "sent": vC18SJSON(nw), "listed": vC18SJSON(g1), "fresh_server": vC18SJSON(g2), "err": fmt.Sprint(e1), "fresh_err": fmt.Sprint(e2)})
			}
			fresh.DeleteStatement(ctx, &api.DeleteStatementRequest{Statement: &api.Statement{Name: nm}, All: true})
		}
		if all {
			// the policy name itself: re-create with inline statements of new names and compare with the fresh server
			np := &api.Policy{Name: polA, Statements: []*api.Statement{vC18HStmt(pfx+"n0", i+3), vC18HStmt(pfx+"n1", i+4)}}
			hist = append(hist, "AddPolicy A (new contents)")
			e1 := s.AddPolicy(ctx, &api.AddPolicyRequest{Policy: proto.Clone(np).(*api.Policy)})
			e2 := fresh.AddPolicy(ctx, &api.AddPolicyRequest{Policy: proto.Clone(np).(*api.Policy)})
			g1, g2 := vC18HListPolicy(s, polA), vC18HListPolicy(fresh, polA)
			if (e1 == nil) != (e2 == nil) || !proto.Equal(g1, g2) {
				fail("policy-recreation-differs-from-first-creation", map[string]any{"listed": vC18SJSON(g1), "fresh_server": vC18SJSON(g2), "err": fmt.Sprint(e1), "fresh_err": fmt.Sprint(e2)})
			}
			fresh.DeletePolicy(ctx, &api.DeletePolicyRequest{Policy: &api.Policy{Name: polA}, All: true})
		}
		// clean up
		s.DeletePolicy(ctx, &api.DeletePolicyRequest{Policy: &api.Policy{Name: polA}, All: true})
		s.DeletePolicy(ctx, &api.DeletePolicyRequest{Policy: &api.Policy{Name: polB}, All: true})
		for nm := range vC18HListStatements(s, pfx) {
			s.DeleteStatement(ctx, &api.DeleteStatementRequest{Statement: &api.Statement{Name: nm}, All: true})
		}
	}
}
