//go:build verif

package server

// C15, re-advertisement passes in which SEVERAL Loc-RIB destinations map to ONE wire key of the
// peer (oracle only — Model/SoftReset.lean has one destination per wire key). The many-to-one
// mapping gobgp has is the VPN -> unicast translation toward a neighbor in a VRF: the VRF imports
// the same IP prefix under several route distinguishers (dual-homed site, one RD per PE), so two
// or three VPN destinations — each with its own best path — are the one prefix the CE knows.
// PE peers announce / replace / withdraw VPNv4 routes (2 prefixes x 3 RDs, the same (RD, prefix)
// from both PEs too), the export policy (real, from the main harness' generator) changes, and the
// CE is re-advertised to by ResetPeer soft out / both, ROUTE-REFRESH and session down/up.
// Oracles, after every such pass toward a CE:
//   vrf-view            per prefix: if the current export policy accepts the best path of at
//                       least one of the VPN destinations mapping to it, the CE holds the export
//                       of one of those; if it accepts none, the CE holds nothing;
//   last-action         in the list of paths the pass handed to the sender, the LAST action for
//                       each wire key is an announcement of an accepted candidate when there is
//                       one, and never an announcement when there is none (the sender applies the
//                       list in order; last action wins);
//   repeat              repeating the pass changes neither the view nor sentPaths and withdraws
//                       nothing.

import (
	"context"
	"fmt"
	"net"
	"net/netip"
	"sort"
	"strings"
	"testing"

	"github.com/osrg/gobgp/v4/api"
	"github.com/osrg/gobgp/v4/internal/pkg/table"
	"github.com/osrg/gobgp/v4/pkg/apiutil"
	"github.com/osrg/gobgp/v4/pkg/packet/bgp"
)

var c15vrfPfx = []string{"10.1.0.0/24", "10.2.0.0/24"}

type c15vrfPeer struct {
	vp *vwPeer
	ce bool
}

type c15vrfWorld struct {
	cw    *c15World
	o     *vOut
	peers []*c15vrfPeer
	hist  []string
}

func (m *c15vrfWorld) note(f string, a ...any) { m.hist = append(m.hist, fmt.Sprintf(f, a...)) }
func (m *c15vrfWorld) history() []string       { return append([]string{}, m.hist...) }

func (m *c15vrfWorld) families(p *c15vrfPeer) []bgp.Family {
	if p.ce {
		return []bgp.Family{bgp.RF_IPv4_UC}
	}
	return []bgp.Family{bgp.RF_IPv4_VPN}
}

func (m *c15vrfWorld) addPeer(sp vwPeerSpec, ce bool) *c15vrfPeer {
	w := m.cw.w
	p := &c15vrfPeer{ce: ce}
	pr := &api.Peer{
		Conf:      &api.PeerConf{NeighborAddress: sp.addr.String(), PeerAsn: sp.as},
		Transport: &api.Transport{PassiveMode: true},
	}
	if ce {
		pr.Conf.Vrf = "red"
	}
	for _, f := range m.families(p) {
		pr.AfiSafis = append(pr.AfiSafis, &api.AfiSafi{Config: &api.AfiSafiConfig{Family: &api.Family{Afi: api.Family_Afi(f.Afi()), Safi: api.Family_Safi(f.Safi())}, Enabled: true}})
	}
	if err := w.s.AddPeer(context.Background(), &api.AddPeerRequest{Peer: pr}); err != nil {
		w.t.Fatalf("AddPeer: %v", err)
	}
	vp := &vwPeer{spec: sp, view: map[string]vwHeld{}}
	if err := w.s.mgmtOperation(func() error { vp.p = w.s.neighborMap[sp.addr]; return nil }, true); err != nil || vp.p == nil {
		w.t.Fatalf("peer lookup: %v", err)
	}
	for i := 0; vp.p.fsm.state.Load() != bgp.BGP_FSM_ACTIVE; i++ {
		if i > 100000 {
			w.t.Fatalf("fsm goroutine did not reach ACTIVE")
		}
		c15Sleep()
	}
	c15Sleep()
	c15Sleep()
	w.peers = append(w.peers, vp)
	m.cw.views = append(m.cw.views, map[int]c15Held{})
	p.vp = vp
	m.peers = append(m.peers, p)
	m.note("peer %d %s as=%d addr=%s ce=%v", len(m.peers)-1, sp.kind, sp.as, sp.addr, ce)
	return p
}

func (m *c15vrfWorld) up(i int) {
	w := m.cw.w
	p := m.peers[i]
	vp := p.vp
	caps := []bgp.ParameterCapabilityInterface{bgp.NewCapRouteRefresh(), bgp.NewCapFourOctetASNumber(vp.spec.as)}
	for _, f := range m.families(p) {
		caps = append(caps, bgp.NewCapMultiProtocol(f))
	}
	open, err := bgp.NewBGPOpenMessage(uint16(vp.spec.as), 90, vp.spec.rid, []bgp.OptionParameterInterface{bgp.NewOptionParameterCapability(caps)})
	if err != nil {
		w.t.Fatal(err)
	}
	f := vp.p.fsm
	f.conn = &vwConn{local: &net.TCPAddr{IP: net.IP(w.rid.AsSlice()), Port: 179}, remote: &net.TCPAddr{IP: net.IP(vp.spec.addr.AsSlice()), Port: 30000}}
	f.recvOpen = open
	reason := newfsmStateReason(fsmOpenMsgNegotiated, nil, nil)
	f.stateChange(bgp.BGP_FSM_ESTABLISHED, reason)
	w.s.handleFSMMessage(vp.p, &fsmMsg{MsgType: fsmMsgStateChange, MsgData: bgp.BGP_FSM_ESTABLISHED, StateReason: reason, timestamp: w.now()})
	f.state.Store(bgp.BGP_FSM_ESTABLISHED)
	vp.up = true
	m.note("up %d", i)
}

func c15vrfRD(i int) bgp.RouteDistinguisherInterface {
	return bgp.NewRouteDistinguisherTwoOctetAS(65000, uint32(101+i))
}

func c15vrfRT() bgp.ExtendedCommunityInterface {
	return bgp.NewTwoOctetAsSpecificExtended(bgp.EC_SUBTYPE_ROUTE_TARGET, 65000, 1, true)
}

func c15vrfNlri(rd, pfx int) bgp.NLRI {
	n, _ := bgp.NewLabeledVPNIPAddrPrefix(netip.MustParsePrefix(c15vrfPfx[pfx]), *bgp.NewMPLSLabelStack(uint32(1000 + rd)), c15vrfRD(rd))
	return n
}

type c15vrfRoute struct {
	rd, pfx, marker int
	lp              uint32
	comms           []uint32
}

func (m *c15vrfWorld) announce(i int, rt *c15vrfRoute) {
	vp := m.peers[i].vp
	attrs := []bgp.PathAttributeInterface{bgp.NewPathAttributeOrigin(0)}
	if vp.spec.kind == "ebgp" {
		attrs = append(attrs, bgp.NewPathAttributeAsPath([]bgp.AsPathParamInterface{bgp.NewAs4PathParam(2, []uint32{vp.spec.as})}))
	} else {
		attrs = append(attrs, bgp.NewPathAttributeAsPath([]bgp.AsPathParamInterface{}), bgp.NewPathAttributeLocalPref(rt.lp))
	}
	attrs = append(attrs, bgp.NewPathAttributeCommunities(append([]uint32{0xfffe0000 | uint32(rt.marker)}, rt.comms...)),
		bgp.NewPathAttributeExtendedCommunities([]bgp.ExtendedCommunityInterface{c15vrfRT()}))
	mp, err := bgp.NewPathAttributeMpReachNLRI(bgp.RF_IPv4_VPN, []bgp.PathNLRI{{NLRI: c15vrfNlri(rt.rd, rt.pfx)}}, vp.spec.addr)
	if err != nil {
		m.cw.t.Fatal(err)
	}
	m.cw.w.recv(vp, bgp.NewBGPUpdateMessage(nil, append(attrs, mp), nil))
	m.note("ann %d rd=%d %s marker=%d lp=%d comms=%v", i, rt.rd, c15vrfPfx[rt.pfx], rt.marker, rt.lp, rt.comms)
}

func (m *c15vrfWorld) withdraw(i, rd, pfx int) {
	un, _ := bgp.NewPathAttributeMpUnreachNLRI(bgp.RF_IPv4_VPN, []bgp.PathNLRI{{NLRI: c15vrfNlri(rd, pfx)}})
	m.cw.w.recv(m.peers[i].vp, bgp.NewBGPUpdateMessage(nil, []bgp.PathAttributeInterface{un}, nil))
	m.note("wd %d rd=%d %s", i, rd, c15vrfPfx[pfx])
}

// send plays sendMessageloop for `paths` in order and applies the result to the far end's view.
func (m *c15vrfWorld) send(p *c15vrfPeer, paths []*table.Path) (nWd int) {
	vp := p.vp
	if !vp.up || len(paths) == 0 {
		return
	}
	w := m.cw.w
	f := vp.p.fsm
	opt := &bgp.MarshallingOption{AddPath: f.familyMap.Load().(map[bgp.Family]bgp.BGPAddPathMode), ExtendedMessage: f.extendedMessage.Load()}
	for _, msg := range table.CreateUpdateMsgFromPaths(paths, opt) {
		b, err := msg.Serialize(opt)
		if err != nil {
			continue
		}
		pm, err := bgp.ParseBGPMessage(b, &bgp.MarshallingOption{ExtendedMessage: opt.ExtendedMessage})
		if err != nil {
			w.t.Fatalf("far end cannot parse what was sent: %v", err)
		}
		u := pm.Body.(*bgp.BGPUpdate)
		nWd += len(u.WithdrawnRoutes)
		w.apply(vp, u)
	}
	return
}

func (m *c15vrfWorld) flushAll() {
	for _, p := range m.peers {
		m.send(p, m.cw.w.drain(p.vp))
	}
}

// accepted: wire key (unicast prefix) -> digests of the exports the CURRENT export policy accepts,
// one candidate per VPN destination (its best path) that maps to the key.
func (m *c15vrfWorld) accepted(p *c15vrfPeer) map[string]map[string]bool {
	s := m.cw.w.s
	acc := map[string]map[string]bool{}
	for _, best := range s.globalRib.GetBestPathList(table.GLOBAL_RIB_NAME, 0, []bgp.Family{bgp.RF_IPv4_VPN}) {
		if e := s.filterpath(p.vp.p, best, nil); e != nil && !e.IsWithdraw {
			k := e.GetNlri().String()
			if acc[k] == nil {
				acc[k] = map[string]bool{}
			}
			acc[k][vwDigest(e.GetPathAttrs())] = true
		}
	}
	return acc
}

func c15vrfKeys(mm map[string]bool) []string {
	var l []string
	for k := range mm {
		l = append(l, k)
	}
	sort.Strings(l)
	return l
}

func (m *c15vrfWorld) viewOracle(i int, after string) {
	p := m.peers[i]
	if !p.vp.up {
		return
	}
	acc := m.accepted(p)
	op := strings.Fields(after)[0]
	for _, pf := range c15vrfPfx {
		held, ok := p.vp.view[pf+"#0"]
		cands := acc[pf]
		m.o.stat("vrf_view_checks", 1)
		if len(cands) > 1 {
			m.o.stat("vrf_view_checks_several_accepted", 1)
		}
		switch {
		case len(cands) == 0 && ok:
			m.o.fail("vrf-view!=fresh-export:not-withdrawn:"+op, map[string]any{"ce": i, "prefix": pf, "holds": held.digest, "after": after, "history": m.history()})
		case len(cands) > 0 && !ok:
			m.o.fail("vrf-view!=fresh-export:lost:"+op, map[string]any{"ce": i, "prefix": pf, "accepted_candidates": c15vrfKeys(cands), "after": after, "history": m.history()})
		case len(cands) > 0 && !cands[held.digest]:
			m.o.fail("vrf-view!=fresh-export:stale:"+op, map[string]any{"ce": i, "prefix": pf, "holds": held.digest, "accepted_candidates": c15vrfKeys(cands), "after": after, "history": m.history()})
		}
	}
}

// lastActionOracle: `paths` is the list one re-advertisement pass handed to the sender.
func (m *c15vrfWorld) lastActionOracle(i int, paths []*table.Path, after string) {
	p := m.peers[i]
	acc := m.accepted(p)
	op := strings.Fields(after)[0]
	last := map[string]*table.Path{}
	count := map[string]int{}
	for _, x := range paths {
		if x == nil || x.IsEOR() {
			continue
		}
		k := x.GetNlri().String()
		last[k] = x
		count[k]++
	}
	for k, x := range last {
		if count[k] > 1 {
			m.o.stat("vrf_pass_keys_with_several_actions", 1)
		}
		cands := acc[k]
		switch {
		case len(cands) > 0 && x.IsWithdraw:
			m.o.fail("last-action-for-wire-key!=fresh-export:withdraw-wins:"+op, map[string]any{"ce": i, "wire_key": k, "actions_for_key": count[k], "accepted_candidates": c15vrfKeys(cands), "after": after, "history": m.history()})
		case len(cands) > 0 && !cands[vwDigest(x.GetPathAttrs())]:
			m.o.fail("last-action-for-wire-key!=fresh-export:rejected-route-wins:"+op, map[string]any{"ce": i, "wire_key": k, "after": after, "history": m.history()})
		case len(cands) == 0 && !x.IsWithdraw:
			m.o.fail("last-action-for-wire-key!=fresh-export:announce-of-rejected:"+op, map[string]any{"ce": i, "wire_key": k, "after": after, "history": m.history()})
		}
	}
}

func (m *c15vrfWorld) sentString(p *c15vrfPeer) string {
	var keys []string
	p.vp.p.sentPaths.Range(func(k, v any) bool {
		if len(v.(pathIDSet)) > 0 {
			keys = append(keys, k.(table.PathDestLocalKey).Prefix)
		}
		return true
	})
	sort.Strings(keys)
	return strings.Join(keys, " ")
}

func (m *c15vrfWorld) viewString(p *c15vrfPeer) string {
	var l []string
	for k, h := range p.vp.view {
		l = append(l, k+"="+h.digest)
	}
	sort.Strings(l)
	return strings.Join(l, " ")
}

// pass: one re-advertisement toward CE i (how: softout | softboth | refresh), with all oracles.
func (m *c15vrfWorld) pass(i int, how string, repeat bool) {
	p := m.peers[i]
	if !p.vp.up {
		return
	}
	wireWd := 0
	do := func() []*table.Path {
		if how == "refresh" {
			m.cw.w.recv(p.vp, bgp.NewBGPRouteRefreshMessage(bgp.AFI_IP, 0, bgp.SAFI_UNICAST))
		} else {
			m.cw.reset([]string{how, fmt.Sprint(i)})
		}
		paths := m.cw.w.drain(p.vp)
		wireWd = m.send(p, paths)
		return paths
	}
	m.flushAll()
	paths := do()
	m.note("%s %d", how, i)
	m.o.stat("vrf_pass_"+how, 1)
	m.lastActionOracle(i, paths, how)
	m.flushAll()
	m.viewOracle(i, how)
	if !repeat {
		return
	}
	beforeView, beforeSent := m.viewString(p), m.sentString(p)
	do()
	m.note("%s %d (repeat)", how, i)
	// withdrawals that reach the wire: the pass may hand the sender withdraw-then-announce for
	// one wire key (a rejected and an accepted candidate), which the packer folds into the
	// announcement
	nWd := wireWd
	m.flushAll()
	if v, s := m.viewString(p), m.sentString(p); v != beforeView || s != beforeSent {
		m.o.fail("vrf-repeat-changes-state:"+how, map[string]any{"ce": i, "view_before": beforeView, "view_after": v, "sent_before": beforeSent, "sent_after": s, "history": m.history()})
	}
	if nWd > 0 {
		m.o.fail("vrf-repeat-withdraws:"+how, map[string]any{"ce": i, "withdrawals": nWd, "history": m.history()})
	}
	m.o.stat("vrf_repeats", 1)
}

func c15vrfHistory(t *testing.T, o *vOut, r *vRand, idx int) {
	cw := newC15World(t)
	cw.r = r
	defer cw.w.stop()
	m := &c15vrfWorld{cw: cw, o: o}
	rd, _ := apiutil.MarshalRD(bgp.NewRouteDistinguisherTwoOctetAS(65000, 100))
	rts, _ := apiutil.MarshalRTs([]bgp.ExtendedCommunityInterface{c15vrfRT()})
	if err := cw.w.s.AddVrf(context.Background(), &api.AddVrfRequest{Vrf: &api.Vrf{Name: "red", Rd: rd, ImportRt: rts, ExportRt: rts, Id: 1}}); err != nil {
		t.Fatalf("AddVrf: %v", err)
	}
	// two PEs (VPNv4), one or two CEs in the VRF
	m.addPeer(vwPeerSpec{kind: "ibgp", as: 65000, rid: c15IP(10, 0, 0, 1), addr: c15IP(192, 168, 0, 1)}, false)
	pe2 := vwPeerSpec{kind: "ibgp", as: 65000, rid: c15IP(10, 0, 0, 2), addr: c15IP(192, 168, 0, 2)}
	if r.chance(50) {
		pe2.kind, pe2.as = "ebgp", 65002
	}
	m.addPeer(pe2, false)
	nCE := 1 + r.intn(2)
	for k := 0; k < nCE; k++ {
		m.addPeer(vwPeerSpec{kind: "ebgp", as: uint32(65011 + k), rid: c15IP(10, 0, 0, byte(11+k)), addr: c15IP(192, 168, 0, byte(11+k))}, true)
	}
	nP := len(m.peers)
	setExp := func(pol c15Pol) {
		cw.install(1, pol, 0)
		m.note("%s", pol.line("exp"))
	}
	// export policies on communities only (a prefix-set or as-path condition would be fine too,
	// but community verdicts are what distinguishes the candidates of one wire key)
	genPol := func() c15Pol {
		pol := c15Pol{dflt: !r.chance(15)}
		for n := 1 + r.intn(2); n > 0; n-- {
			s := c15Stmt{anyPeer: true, hasComm: true, comms: []uint32{c15Tags[r.intn(len(c15Tags))]}, route: r.pick(1, 2, 2, 2)}
			s.opts[0] = r.pick(0, 0, 0, 2)
			if r.chance(25) {
				v := uint32(0xfffc0001 + r.intn(2))
				s.add, s.route = &v, r.pick(0, 1, 2)
			}
			pol.stmts = append(pol.stmts, s)
		}
		return pol
	}
	if r.chance(50) {
		setExp(genPol())
	}
	for i := 0; i < nP; i++ {
		m.up(i)
	}
	marker := 0
	gen := func() *c15vrfRoute {
		marker++
		rt := &c15vrfRoute{rd: r.intn(3), pfx: r.intn(len(c15vrfPfx)), marker: marker, lp: uint32(r.pick(100, 100, 200))}
		for _, tg := range c15Tags {
			if r.chance(35) {
				rt.comms = append(rt.comms, tg)
			}
		}
		return rt
	}
	// the same prefix under two or three RDs, from both PEs
	for n := 4 + r.intn(6); n > 0; n-- {
		m.announce(r.intn(2), gen())
	}
	m.flushAll()
	ces := []int{}
	for i := 2; i < nP; i++ {
		ces = append(ces, i)
	}
	// NOT checked here: the view after INCREMENTAL changes. With several VPN destinations on one
	// wire key the fan-out of one destination's change (e.g. its best path is now rejected:
	// withdraw) overrides what another destination contributed, until the next re-advertisement
	// pass — a limitation of the per-destination fan-out, outside the soft-reset property; the
	// passes below must repair it.
	hows := []string{"softout", "softout", "softboth", "refresh", "refresh"}
	for n := 8 + r.intn(14); n > 0; n-- {
		switch x := r.intn(100); {
		case x < 30:
			m.announce(r.intn(2), gen())
			o.stat("vrf_ann", 1)
		case x < 40:
			m.withdraw(r.intn(2), r.intn(3), r.intn(len(c15vrfPfx)))
			o.stat("vrf_wd", 1)
		case x < 62:
			if cw.name[1] == "" || r.chance(40) {
				setExp(genPol())
			} else {
				q := c15Pol{dflt: cw.cur[1].dflt}
				for _, s := range cw.cur[1].stmts {
					q.stmts = append(q.stmts, c15CloneStmt(s))
				}
				k := r.intn(len(q.stmts))
				if r.chance(50) {
					q.stmts[k].comms = []uint32{c15Tags[r.intn(len(c15Tags))]}
				} else {
					q.stmts[k].route = r.pick(1, 2)
				}
				setExp(q)
			}
			o.stat("vrf_policy_change", 1)
			// the policy change is followed by the re-advertisement it needs
			for _, i := range ces {
				m.pass(i, hows[r.intn(len(hows))], r.chance(50))
			}
		case x < 92:
			m.pass(ces[r.intn(len(ces))], hows[r.intn(len(hows))], r.chance(40))
		default:
			i := ces[r.intn(len(ces))]
			m.flushAll()
			m.cw.w.sessionDown(m.peers[i].vp, fsmReadFailed)
			m.note("down %d", i)
			m.up(i)
			paths := m.cw.w.drain(m.peers[i].vp)
			m.lastActionOracle(i, paths, "initial-transfer")
			m.send(m.peers[i], paths)
			m.viewOracle(i, "initial-transfer")
			o.stat("vrf_initial_transfer", 1)
		}
	}
	for _, i := range ces {
		m.pass(i, "softout", true)
	}
	o.stat("vrf_histories", 1)
	if idx < 1 {
		o.sample(strings.Join(m.hist, " ; "))
	}
}

// c15vrfStuckCase (defect found on the unchanged tree, repaired by a fix commit): ONE VPN
// destination, its route is accepted by the export policy and advertised to the CE; the same PE
// replaces it by a route the policy rejects. (*BgpServer).filterpath answered with
// old.Clone(true) — the VPN route of the Loc-RIB, not the unicast route the CE was sent — so the
// CE was never told and kept the route. One wire key, one destination: the view oracle applies.
func c15vrfStuckCase(t *testing.T, o *vOut) {
	cw := newC15World(t)
	defer cw.w.stop()
	m := &c15vrfWorld{cw: cw, o: o}
	rd, _ := apiutil.MarshalRD(bgp.NewRouteDistinguisherTwoOctetAS(65000, 100))
	rts, _ := apiutil.MarshalRTs([]bgp.ExtendedCommunityInterface{c15vrfRT()})
	if err := cw.w.s.AddVrf(context.Background(), &api.AddVrfRequest{Vrf: &api.Vrf{Name: "red", Rd: rd, ImportRt: rts, ExportRt: rts, Id: 1}}); err != nil {
		t.Fatalf("AddVrf: %v", err)
	}
	m.addPeer(vwPeerSpec{kind: "ibgp", as: 65000, rid: c15IP(10, 0, 0, 1), addr: c15IP(192, 168, 0, 1)}, false)
	m.addPeer(vwPeerSpec{kind: "ebgp", as: 65011, rid: c15IP(10, 0, 0, 11), addr: c15IP(192, 168, 0, 11)}, true)
	pol := c15Pol{dflt: true, stmts: []c15Stmt{{anyPeer: true, hasComm: true, comms: []uint32{c15Tags[0]}, route: 2}}}
	cw.install(1, pol, 0)
	m.note("%s", pol.line("exp"))
	m.up(0)
	m.up(1)
	m.announce(0, &c15vrfRoute{rd: 0, pfx: 0, marker: 1, lp: 100})
	m.flushAll()
	m.viewOracle(1, "incremental-first")
	m.announce(0, &c15vrfRoute{rd: 0, pfx: 0, marker: 2, lp: 100, comms: []uint32{c15Tags[0]}})
	m.flushAll()
	m.viewOracle(1, "incremental-replace")
}

func TestVerifC15VRF(t *testing.T) {
	o := vOpen(t)
	defer o.close()
	defer func(v bool) { table.SelectionOptions.AlwaysCompareMed = v }(table.SelectionOptions.AlwaysCompareMed)
	c15vrfStuckCase(t, o)
	r := &vRand{s: o.seed*86028121 + 23}
	n := 50
	if o.thorough {
		n = 600
	}
	for i := 0; i < n; i++ {
		c15vrfHistory(t, o, r, i)
	}
}
