/-
  Lemmas about the copy-on-write overlay of Model/Export.lean:
  per-type reads after setAttr / delAttr / clone, and the bridge between GetPathAttrs (the list that
  is serialised) and getPathAttr (the per-type read): `findTyp t (getAttrs p) = getAttr p t`.
-/
import Model.Export
namespace Export

/-! ### findTyp / setInList / hasKey -/

theorem findTyp_some_typ {t : Nat} {l : List Attr} {a : Attr} (h : findTyp t l = some a) : a.typ = t := by
  induction l with
  | nil => simp [findTyp] at h
  | cons b rest ih =>
    unfold findTyp at h
    split at h
    · rename_i hb
      simp at h; subst h; simpa using hb
    · exact ih h

theorem findTyp_some_mem {t : Nat} {l : List Attr} {a : Attr} (h : findTyp t l = some a) : a ∈ l := by
  induction l with
  | nil => simp [findTyp] at h
  | cons b rest ih =>
    unfold findTyp at h
    split at h
    · simp at h; subst h; simp
    · exact List.mem_cons_of_mem _ (ih h)

theorem findTyp_none_iff {t : Nat} {l : List Attr} : findTyp t l = none ↔ ∀ a ∈ l, a.typ ≠ t := by
  induction l with
  | nil => simp [findTyp]
  | cons b rest ih =>
    unfold findTyp
    by_cases hb : b.typ = t
    · simp [hb]
    · simp [hb, ih]

theorem hasKey_eq_isSome (t : Nat) (l : List Attr) : hasKey t l = (findTyp t l).isSome := by
  induction l with
  | nil => simp [hasKey, findTyp]
  | cons b rest ih =>
    unfold findTyp
    by_cases hb : b.typ = t
    · simp [hasKey, hb]
    · simp only [hasKey] at ih
      simp [hasKey, hb, ih]

theorem findTyp_append (t : Nat) (l1 l2 : List Attr) :
    findTyp t (l1 ++ l2) = (findTyp t l1).orElse (fun _ => findTyp t l2) := by
  induction l1 with
  | nil => simp [findTyp]
  | cons b rest ih =>
    simp only [List.cons_append, findTyp]
    by_cases hb : b.typ = t
    · simp [hb]
    · simp [hb, ih]

theorem findTyp_setInList_same (a : Attr) (l : List Attr) : findTyp a.typ (setInList a l) = some a := by
  induction l with
  | nil => simp [setInList, findTyp]
  | cons b rest ih =>
    unfold setInList
    by_cases hb : a.typ = b.typ
    · simp [hb, findTyp]
    · have hb' : ¬ b.typ = a.typ := fun h => hb h.symm
      simp [hb, findTyp, hb', ih]

theorem findTyp_setInList_other (a : Attr) (l : List Attr) (t : Nat) (h : t ≠ a.typ) :
    findTyp t (setInList a l) = findTyp t l := by
  induction l with
  | nil => simp [setInList, findTyp, Ne.symm h]
  | cons b rest ih =>
    unfold setInList
    by_cases hb : a.typ = b.typ
    · have : ¬ b.typ = t := fun e => h (by omega)
      simp [hb, findTyp, this]
    · simp only [hb, beq_iff_eq, if_false, findTyp, ih]

/-! ### per-type reads through setAttr / delAttr / clone -/

theorem getAttr_setAttr_same (p : Path) (a : Attr) :
    getAttr (setAttr p a) a.typ = if p.leaf.dels.contains a.typ then none else some a := by
  simp only [getAttr, Path.layers, setAttr, getAttrIn, findTyp_setInList_same]

theorem getAttr_setAttr_other (p : Path) (a : Attr) (t : Nat) (h : t ≠ a.typ) :
    getAttr (setAttr p a) t = getAttr p t := by
  simp only [getAttr, Path.layers, setAttr, getAttrIn, findTyp_setInList_other a _ t h]

theorem getAttr_delAttr_same (p : Path) (t : Nat) : getAttr (delAttr p t) t = none := by
  simp [getAttr, Path.layers, delAttr, getAttrIn]

theorem getAttr_delAttr_other (p : Path) (d t : Nat) (h : t ≠ d) :
    getAttr (delAttr p d) t = getAttr p t := by
  simp [getAttr, Path.layers, delAttr, getAttrIn, h]

theorem getAttr_clone (p : Path) (w : Bool) (t : Nat) : getAttr (clone p w) t = getAttr p t := by
  simp [getAttr, Path.layers, clone, getAttrIn, findTyp]

theorem getAttr_of_del (p : Path) (t : Nat) (h : t ∈ p.leaf.dels) : getAttr p t = none := by
  simp [getAttr, Path.layers, getAttrIn, h]

theorem getAttr_some_typ {p : Path} {t : Nat} {a : Attr} (h : getAttr p t = some a) : a.typ = t := by
  unfold getAttr at h
  generalize p.layers = ls at h
  induction ls with
  | nil => simp [getAttrIn] at h
  | cons l rest ih =>
    unfold getAttrIn at h
    split at h
    · simp at h
    · split at h
      · rename_i hf; simp at h; subst h; exact findTyp_some_typ hf
      · exact ih h

/-! ### the bridge: GetPathAttrs read per type = getPathAttr -/

theorem findTyp_insertByTyp (t : Nat) (a : Attr) (l : List Attr) :
    findTyp t (insertByTyp a l) = findTyp t (a :: l) := by
  induction l with
  | nil => simp [insertByTyp]
  | cons b rest ih =>
    unfold insertByTyp
    split
    · rfl
    · rename_i hle
      by_cases ha : a.typ = t
      · have hb : ¬ b.typ = t := by omega
        have hbb : (b.typ == t) = false := by simpa using hb
        have haa : (a.typ == t) = true := by simpa using ha
        simp only [findTyp, hbb, haa] at ih ⊢
        simpa using ih
      · have haa : (a.typ == t) = false := by simpa using ha
        by_cases hb : b.typ = t
        · have hbb : (b.typ == t) = true := by simpa using hb
          simp [findTyp, haa, hbb]
        · have hbb : (b.typ == t) = false := by simpa using hb
          simp only [findTyp, haa, hbb] at ih ⊢
          simpa using ih

theorem findTyp_sortByTyp (t : Nat) (l : List Attr) : findTyp t (sortByTyp l) = findTyp t l := by
  induction l with
  | nil => rfl
  | cons a rest ih =>
    show findTyp t (insertByTyp a (sortByTyp rest)) = _
    rw [findTyp_insertByTyp]
    simp only [findTyp, ih]

theorem findTyp_filter_ne (t x : Nat) (l : List Attr) :
    findTyp t (l.filter (·.typ != x)) = if t = x then none else findTyp t l := by
  induction l with
  | nil => simp [findTyp]
  | cons b rest ih =>
    by_cases hb : b.typ = x
    · have hf : (b.typ != x) = false := by simp [hb]
      rw [List.filter_cons_of_neg (by simp [hb]), ih]
      by_cases ht : t = x
      · simp [ht]
      · have : (b.typ == t) = false := by
          simp only [beq_eq_false_iff_ne, ne_eq]; omega
        simp [ht, findTyp, this]
    · rw [List.filter_cons_of_pos (by simp [hb])]
      by_cases hbt : b.typ = t
      · have h1 : (b.typ == t) = true := by simpa using hbt
        have : ¬ t = x := by omega
        simp [findTyp, h1, this]
      · have h1 : (b.typ == t) = false := by simpa using hbt
        simp only [findTyp, h1, ih]
        simp

/-- what the override map holds for `t` after visiting one non-root node -/
theorem findTyp_collectLayer (t : Nat) (del : List Nat) (attrs mod : List Attr) :
    findTyp t (collectLayer del attrs mod) =
      match findTyp t mod with
      | some m => some m
      | none => if del.contains t then none else findTyp t attrs := by
  induction attrs generalizing mod with
  | nil =>
    simp only [collectLayer, findTyp]
    cases findTyp t mod <;> simp
  | cons a rest ih =>
    unfold collectLayer
    split
    · rename_i hc
      simp only [Bool.and_eq_true, Bool.not_eq_true', hasKey_eq_isSome] at hc
      rw [ih, findTyp_append]
      cases hm : findTyp t mod with
      | some m => simp
      | none =>
        by_cases hat : a.typ = t
        · subst hat
          have hd : a.typ ∉ del := by simpa using hc.1
          simp [findTyp, hd]
        · simp [findTyp, hat]
    · rename_i hc
      rw [ih]
      cases hm : findTyp t mod with
      | some m => simp
      | none =>
        by_cases hat : a.typ = t
        · subst hat
          simp only [Bool.and_eq_true, Bool.not_eq_true', hasKey_eq_isSome, hm, Option.isSome_none,
            and_true, Bool.not_eq_false] at hc
          have hd : a.typ ∈ del := by simpa using hc
          simp [hd]
        · simp [findTyp, hat]

theorem findTyp_rootWalk (t : Nat) (del : List Nat) (attrs mod : List Attr) :
    findTyp t ((rootWalk del attrs mod).1 ++ (rootWalk del attrs mod).2) =
      match findTyp t mod with
      | some m => some m
      | none => if del.contains t then none else findTyp t attrs := by
  induction attrs generalizing mod with
  | nil =>
    simp only [rootWalk, List.nil_append, findTyp]
    cases findTyp t mod <;> simp
  | cons a rest ih =>
    unfold rootWalk
    split
    · rename_i m hm
      have hmt := findTyp_some_typ hm
      simp only [List.cons_append, findTyp]
      by_cases hat : a.typ = t
      · subst hat
        simp [hmt, hm]
      · have : ¬ m.typ = t := by omega
        simp only [this, beq_iff_eq, if_false, ih, findTyp_filter_ne, hat]
        have : ¬ t = a.typ := fun e => hat e.symm
        simp [this]
    · rename_i hm
      split
      · rename_i hd
        simp only [List.cons_append, findTyp]
        by_cases hat : a.typ = t
        · subst hat
          simp only [Bool.not_eq_true', ] at hd
          have hd' : a.typ ∉ del := by simpa using hd
          simp [hm, hd']
        · simp only [hat, beq_iff_eq, if_false, ih]
      · rename_i hd
        simp only [ih]
        by_cases hat : a.typ = t
        · subst hat
          simp only [Bool.not_eq_true', Bool.not_eq_false] at hd
          have hd' : a.typ ∈ del := by simpa using hd
          simp [hm, hd']
        · simp [findTyp, hat]

theorem findTyp_getAttrsGo (t : Nat) (del : List Nat) (mod : List Attr) (l : Layer) (rest : List Layer) :
    findTyp t (getAttrsGo del mod l rest) =
      match findTyp t mod with
      | some m => some m
      | none => if del.contains t then none else getAttrIn t (l :: rest) := by
  induction rest generalizing l del mod with
  | nil =>
    unfold getAttrsGo
    have h := findTyp_rootWalk t (del ++ l.dels) l.attrs mod
    have hres : findTyp t (if (rootWalk (del ++ l.dels) l.attrs mod).2.length > 0
        then sortByTyp ((rootWalk (del ++ l.dels) l.attrs mod).1 ++ (rootWalk (del ++ l.dels) l.attrs mod).2)
        else (rootWalk (del ++ l.dels) l.attrs mod).1) =
        findTyp t ((rootWalk (del ++ l.dels) l.attrs mod).1 ++ (rootWalk (del ++ l.dels) l.attrs mod).2) := by
      split
      · rw [findTyp_sortByTyp]
      · rename_i hz
        have : (rootWalk (del ++ l.dels) l.attrs mod).2 = [] := by
          cases hh : (rootWalk (del ++ l.dels) l.attrs mod).2 with
          | nil => rfl
          | cons x xs => simp [hh] at hz
        rw [this, List.append_nil]
    simp only [] at hres ⊢
    rw [hres, h]
    cases hm : findTyp t mod with
    | some m => rfl
    | none =>
      simp only [getAttrIn, List.contains_append]
      have e1 : del.contains t = decide (t ∈ del) := by simp
      have e2 : l.dels.contains t = decide (t ∈ l.dels) := by simp
      by_cases h1 : t ∈ del <;> by_cases h2 : t ∈ l.dels <;> simp [h1, h2]
      cases findTyp t l.attrs <;> rfl
  | cons l' rest ih =>
    unfold getAttrsGo
    simp only []
    rw [ih, findTyp_collectLayer]
    cases hm : findTyp t mod with
    | some m => rfl
    | none =>
      simp only [List.contains_append]
      by_cases h1 : t ∈ del <;> by_cases h2 : t ∈ l.dels <;> simp [h1, h2, getAttrIn]
      cases hf : findTyp t l.attrs <;> simp [getAttrIn]

/-- **Bridge.** Reading type `t` off the list GetPathAttrs returns is getPathAttr(t). -/
theorem findTyp_getAttrs (p : Path) (t : Nat) : findTyp t (getAttrs p) = getAttr p t := by
  unfold getAttrs getAttr Path.layers
  rw [findTyp_getAttrsGo]
  simp [findTyp]

/-! ### attribute types stay pairwise distinct -/

def typs (l : List Attr) : List Nat := l.map (·.typ)

theorem findTyp_of_mem_nodup {l : List Attr} {a : Attr} (hn : (typs l).Nodup) (ha : a ∈ l) :
    findTyp a.typ l = some a := by
  induction l with
  | nil => simp at ha
  | cons b rest ih =>
    simp only [typs, List.map_cons, List.nodup_cons] at hn
    rcases List.mem_cons.1 ha with h | h
    · subst h; simp [findTyp]
    · have hne : ¬ b.typ = a.typ := fun e => hn.1 (by rw [e]; exact List.mem_map_of_mem h)
      have : (b.typ == a.typ) = false := by simpa using hne
      simp only [findTyp, this]
      exact ih hn.2 h

theorem mem_collectLayer {del : List Nat} {attrs mod : List Attr} {x : Attr}
    (h : x ∈ collectLayer del attrs mod) : x ∈ mod ∨ x ∈ attrs := by
  induction attrs generalizing mod with
  | nil => exact Or.inl (by simpa [collectLayer] using h)
  | cons a rest ih =>
    unfold collectLayer at h
    split at h
    · rcases ih h with h' | h'
      · rcases List.mem_append.1 h' with h'' | h''
        · exact Or.inl h''
        · simp at h''; subst h''; exact Or.inr (by simp)
      · exact Or.inr (List.mem_cons_of_mem _ h')
    · rcases ih h with h' | h'
      · exact Or.inl h'
      · exact Or.inr (List.mem_cons_of_mem _ h')

theorem nodup_collectLayer (del : List Nat) (attrs mod : List Attr) (hn : (typs mod).Nodup) :
    (typs (collectLayer del attrs mod)).Nodup := by
  induction attrs generalizing mod with
  | nil => simpa [collectLayer] using hn
  | cons a rest ih =>
    unfold collectLayer
    split
    · rename_i hc
      apply ih
      simp only [Bool.and_eq_true, Bool.not_eq_true', hasKey_eq_isSome] at hc
      have hnone : findTyp a.typ mod = none := by
        cases hf : findTyp a.typ mod with
        | none => rfl
        | some _ => simp [hf] at hc
      have := findTyp_none_iff.1 hnone
      simp only [typs, List.map_append, List.map_cons, List.map_nil]
      rw [List.nodup_append]
      refine ⟨hn, by simp, ?_⟩
      intro x hx y hy
      simp at hy; subst hy
      rcases List.mem_map.1 hx with ⟨b, hb, rfl⟩
      exact this b hb
    · exact ih _ hn

theorem mem_rootWalk {del : List Nat} {attrs mod : List Attr} {x : Attr}
    (h : x ∈ (rootWalk del attrs mod).1 ++ (rootWalk del attrs mod).2) : x ∈ mod ∨ x ∈ attrs := by
  induction attrs generalizing mod with
  | nil => exact Or.inl (by simpa [rootWalk] using h)
  | cons a rest ih =>
    unfold rootWalk at h
    split at h
    · rename_i m hm
      simp only [List.cons_append, List.mem_cons] at h
      rcases h with h | h
      · subst h; exact Or.inl (findTyp_some_mem hm)
      · rcases ih h with h' | h'
        · exact Or.inl (List.mem_filter.1 h').1
        · exact Or.inr (List.mem_cons_of_mem _ h')
    · split at h
      · simp only [List.cons_append, List.mem_cons] at h
        rcases h with h | h
        · subst h; exact Or.inr (by simp)
        · rcases ih h with h' | h'
          · exact Or.inl h'
          · exact Or.inr (List.mem_cons_of_mem _ h')
      · rcases ih h with h' | h'
        · exact Or.inl h'
        · exact Or.inr (List.mem_cons_of_mem _ h')

theorem nodup_rootWalk (del : List Nat) (attrs mod : List Attr)
    (ha : (typs attrs).Nodup) (hm : (typs mod).Nodup) :
    (typs ((rootWalk del attrs mod).1 ++ (rootWalk del attrs mod).2)).Nodup := by
  induction attrs generalizing mod with
  | nil => simpa [rootWalk] using hm
  | cons a rest ih =>
    simp only [typs, List.map_cons, List.nodup_cons] at ha
    have hfilt : ∀ (l : List Attr), (typs l).Nodup → (typs (l.filter (·.typ != a.typ))).Nodup := by
      intro l hl
      exact (List.Sublist.map _ List.filter_sublist).nodup hl
    unfold rootWalk
    split
    · rename_i m hfm
      have hmt := findTyp_some_typ hfm
      simp only [List.cons_append, typs, List.map_cons, List.nodup_cons]
      refine ⟨?_, ih _ ha.2 (hfilt mod hm)⟩
      intro hin
      rcases List.mem_map.1 hin with ⟨x, hx, hxt⟩
      rcases mem_rootWalk hx with h' | h'
      · have := (List.mem_filter.1 h').2
        simp at this; omega
      · exact ha.1 (by rw [← hmt, ← hxt]; exact List.mem_map_of_mem h')
    · rename_i hfm
      have hnone := findTyp_none_iff.1 hfm
      split
      · simp only [List.cons_append, typs, List.map_cons, List.nodup_cons]
        refine ⟨?_, ih _ ha.2 hm⟩
        intro hin
        rcases List.mem_map.1 hin with ⟨x, hx, hxt⟩
        rcases mem_rootWalk hx with h' | h'
        · exact hnone x h' hxt
        · exact ha.1 (by rw [← hxt]; exact List.mem_map_of_mem h')
      · exact ih _ ha.2 hm

theorem perm_insertByTyp (a : Attr) (l : List Attr) : (insertByTyp a l).Perm (a :: l) := by
  induction l with
  | nil => simp [insertByTyp]
  | cons b rest ih =>
    unfold insertByTyp
    split
    · exact List.Perm.refl _
    · exact (List.Perm.cons b ih).trans (List.Perm.swap a b rest)

theorem perm_sortByTyp (l : List Attr) : (sortByTyp l).Perm l := by
  induction l with
  | nil => exact List.Perm.refl _
  | cons a rest ih =>
    show (insertByTyp a (sortByTyp rest)).Perm _
    exact (perm_insertByTyp a _).trans (List.Perm.cons a ih)

def rootOf : Layer → List Layer → Layer
  | l, [] => l
  | _, l' :: rest => rootOf l' rest

/-- the root node of the parent chain (what came off the wire / from the API) -/
def Path.root (p : Path) : Layer := rootOf p.leaf p.parents

theorem nodup_getAttrsGo (del : List Nat) (mod : List Attr) (l : Layer) (rest : List Layer)
    (hr : (typs (rootOf l rest).attrs).Nodup) (hm : (typs mod).Nodup) :
    (typs (getAttrsGo del mod l rest)).Nodup := by
  induction rest generalizing l del mod with
  | nil =>
    unfold getAttrsGo
    simp only [rootOf] at hr
    have h := nodup_rootWalk (del ++ l.dels) l.attrs mod hr hm
    simp only []
    split
    · exact ((perm_sortByTyp _).map _).nodup_iff.2 h
    · rename_i hz
      have : (rootWalk (del ++ l.dels) l.attrs mod).2 = [] := by
        cases hh : (rootWalk (del ++ l.dels) l.attrs mod).2 with
        | nil => rfl
        | cons x xs => simp [hh] at hz
      rw [this, List.append_nil] at h
      exact h
  | cons l' rest ih =>
    unfold getAttrsGo
    simp only [rootOf] at hr
    exact ih _ _ _ hr (nodup_collectLayer _ _ _ hm)

/-- the serialised list has pairwise distinct types whenever the root had -/
theorem nodup_getAttrs (p : Path) (h : (typs p.root.attrs).Nodup) : (typs (getAttrs p)).Nodup :=
  nodup_getAttrsGo [] [] p.leaf p.parents h (by simp [typs])

/-- with distinct root types, every attribute in the serialised list is what getPathAttr gives for its type -/
theorem getAttr_of_mem_getAttrs (p : Path) (h : (typs p.root.attrs).Nodup) {a : Attr}
    (ha : a ∈ getAttrs p) : getAttr p a.typ = some a := by
  rw [← findTyp_getAttrs]
  exact findTyp_of_mem_nodup (nodup_getAttrs p h) ha

theorem mem_getAttrs_of_getAttr {p : Path} {t : Nat} {a : Attr} (h : getAttr p t = some a) :
    a ∈ getAttrs p := by
  rw [← findTyp_getAttrs] at h
  exact findTyp_some_mem h

/-- absence read per type = absence from the list -/
theorem getAttr_none_iff (p : Path) (t : Nat) : getAttr p t = none ↔ ∀ a ∈ getAttrs p, a.typ ≠ t := by
  rw [← findTyp_getAttrs]; exact findTyp_none_iff

end Export
