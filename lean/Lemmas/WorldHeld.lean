/-
  The other half of the world-level C02 statement: every accepted Adj-RIB-In entry of every
  configured peer is represented in the Loc-RIB (`Held`), for every history. Together with
  `Covered` (Lemmas/WorldAdj.lean): the (source, path-id) keys of a destination's Loc-RIB paths
  are exactly the accepted Adj-RIB-In keys of the configured peers plus the local routes.
-/
import Lemmas.WorldAdj
namespace World
open BestPath

def Held (g : Global) (rib : List (Nat × List Cand)) (c : PeerCfg) (L : List AdjEntry) : Prop :=
  ∀ a ∈ L, a.rejected = false →
    ∃ e ∈ rib, e.1 = a.r.pfx ∧ ∃ r ∈ e.2, r.src = c.srcInfo g ∧ r.pathId = a.r.pathId

structure TotalInv (w : W) : Prop where
  full : FullInv w
  held : ∀ ps ∈ w.peers, Held w.g w.rib ps.cfg ps.adj.entries

theorem ribOf_of_mem (w : W) (hk : w.rib.Pairwise (fun a b => a.1 ≠ b.1)) (e : Nat × List Cand)
    (he : e ∈ w.rib) : w.ribOf e.1 = e.2 := by
  unfold W.ribOf
  generalize w.rib = l at hk he
  induction l with
  | nil => cases he
  | cons x xs ih =>
    rw [List.pairwise_cons] at hk
    rw [List.mem_cons] at he
    rcases he with rfl | he
    · simp
    · have hne : x.1 ≠ e.1 := hk.1 e he
      simp only [List.find?_cons, beq_iff_eq, hne, if_false]
      have : (x.1 == e.1) = false := by simpa using hne
      simp only [this]
      exact ih hk.2 he

theorem srcEqual_false_of_addr {a b : Src} (h : a.addr ≠ b.addr) : a.equal b = false := by
  cases hh : a.equal b
  · rfl
  · exact absurd (srcEqual_addr hh) h

/-- a table update keeps `Held` for the entries it announces for `c` and for the entries whose
    (source, path-id) it does not touch -/
theorem held_ribUpdate (w : W) (hinv : Inv w) (op : Op) (pfx : Nat) (c : PeerCfg)
    (L0 L : List AdjEntry) (hh : Held w.g w.rib c L0)
    (hL : ∀ a ∈ L, a.rejected = false →
      (∃ x, op = .ann x ∧ x.src = c.srcInfo w.g ∧ a.r.pfx = pfx ∧ a.r.pathId = x.pathId) ∨
      ((∃ a0 ∈ L0, a0.rejected = false ∧ a0.r.pfx = a.r.pfx ∧ a0.r.pathId = a.r.pathId) ∧
        ∀ x, (op = .ann x ∨ op = .wd x) → a.r.pfx = pfx → a.r.pathId = x.pathId →
          x.src.equal (c.srcInfo w.g) = false)) :
    Held w.g (ribUpdate w op pfx).rib c L := by
  obtain ⟨_, hrib, _⟩ := ribUpdate_frame w op pfx
  rw [hrib]
  intro a ha hr
  have hN := ribOf_nodup w hinv pfx
  rcases hL a ha hr with ⟨x, hop, hxs, hap, hak⟩ | ⟨⟨a0, ha0, hr0, hp0, hk0⟩, hside⟩
  · subst hop
    refine ⟨_, List.mem_cons_self, hap.symm, x, ?_, hxs, hak.symm⟩
    rw [mem_calcStep_ann _ _ _ hN]
    exact Or.inl rfl
  · obtain ⟨e0, he0, hep, r, hre, hrs, hrk⟩ := hh a0 ha0 hr0
    by_cases hpe : e0.1 = pfx
    · refine ⟨_, List.mem_cons_self, ?_, r, ?_, hrs, hrk.trans hk0⟩
      · exact (hpe.symm.trans hep).trans hp0
      · have hrl : r ∈ w.ribOf pfx := by
          rw [← hpe, ribOf_of_mem w hinv.keys e0 he0]; exact hre
        have hapfx : a.r.pfx = pfx := (hp0.symm.trans hep.symm).trans hpe
        cases op with
        | ann x =>
          rw [mem_calcStep_ann _ _ _ hN]
          right
          refine ⟨hrl, ?_⟩
          cases hsk : sameKey x r
          · rfl
          · exfalso
            simp only [sameKey, Bool.and_eq_true, beq_iff_eq] at hsk
            have := hside x (Or.inl rfl) hapfx ((hk0.symm.trans hrk.symm).trans hsk.2.symm)
            rw [← hrs, hsk.1] at this
            cases this
        | wd x =>
          rw [mem_calcStep_wd _ _ _ hN]
          refine ⟨hrl, ?_⟩
          cases hsk : sameKey r x
          · rfl
          · exfalso
            simp only [sameKey, Bool.and_eq_true, beq_iff_eq] at hsk
            have := hside x (Or.inr rfl) hapfx ((hk0.symm.trans hrk.symm).trans hsk.2)
            rw [← hrs, srcEqual_symm, hsk.1] at this
            cases this
    · refine ⟨e0, List.mem_cons_of_mem _ (List.mem_filter.mpr ⟨he0, by simpa using hpe⟩),
        hep.trans hp0, r, hre, hrs, hrk.trans hk0⟩

theorem held_lift (w : W) (op : Op) (pfx : Nat)
    (h : ∀ ps ∈ w.peers, Held w.g (ribUpdate w op pfx).rib ps.cfg ps.adj.entries) :
    ∀ ps ∈ (ribUpdate w op pfx).peers,
      Held (ribUpdate w op pfx).g (ribUpdate w op pfx).rib ps.cfg ps.adj.entries := by
  obtain ⟨hg, _, f, hf, hp⟩ := ribUpdate_frame w op pfx
  intro ps' hps'
  rw [hp] at hps'
  obtain ⟨ps, hps, rfl⟩ := List.mem_map.mp hps'
  rw [(hf ps).1, (hf ps).2.1, hg]
  exact h ps hps

/-- an update whose route is not from peer `c` (another peer's, or local) leaves `c`'s entries held -/
theorem held_ribUpdate_other (w : W) (hinv : Inv w) (op : Op) (pfx : Nat) (c : PeerCfg)
    (L : List AdjEntry) (hh : Held w.g w.rib c L)
    (hx : ∀ x, (op = .ann x ∨ op = .wd x) → x.src.addr ≠ some c.addr) :
    Held w.g (ribUpdate w op pfx).rib c L := by
  apply held_ribUpdate w hinv op pfx c L L hh
  intro a ha hr
  right
  refine ⟨⟨a, ha, hr, rfl, rfl⟩, ?_⟩
  intro x hop _ _
  exact srcEqual_false_of_addr (hx x hop)

theorem addr_ne_of_idx_ne {peers : List PeerSt} (wf : PeersWF peers) {a b : PeerSt}
    (ha : a ∈ peers) (hb : b ∈ peers) (h : a.cfg.idx ≠ b.cfg.idx) : a.cfg.addr ≠ b.cfg.addr := by
  intro he
  have := peer_of_addr wf ha hb he
  subst this
  exact h rfl

theorem held_updAdj_propagate (w : W) (h : TotalInv w) (idx : Nat) (ps : PeerSt)
    (hp : w.peer? idx = some ps) (adj' : Adj) (r : Cand) (wd : Bool)
    (hsrc : r.src = ps.cfg.srcInfo w.g)
    (hann : wd = false → ∀ a ∈ adj'.entries, a.rejected = false →
      (a.r.pfx = r.pfx ∧ a.r.pathId = r.pathId) ∨
      ∃ a0 ∈ ps.adj.entries, a0.rejected = false ∧ a0.r.pfx = a.r.pfx ∧ a0.r.pathId = a.r.pathId)
    (hwd : wd = true → ∀ a ∈ adj'.entries, a.rejected = false →
      (∃ a0 ∈ ps.adj.entries, a0.rejected = false ∧ a0.r.pfx = a.r.pfx ∧ a0.r.pathId = a.r.pathId) ∧
      ¬ (a.r.pfx = r.pfx ∧ a.r.pathId = r.pathId)) :
    ∀ q ∈ (propagate (w.updPeer idx (fun ps => { ps with adj := adj' })) ps.cfg r wd).peers,
      Held (propagate (w.updPeer idx (fun ps => { ps with adj := adj' })) ps.cfg r wd).g
        (propagate (w.updPeer idx (fun ps => { ps with adj := adj' })) ps.cfg r wd).rib
        q.cfg q.adj.entries := by
  obtain ⟨hmem, hidx⟩ := peer?_mem w idx ps hp
  generalize hw2 : w.updPeer idx (fun ps => { ps with adj := adj' }) = w2
  have hinv2 : Inv w2 := by
    rw [← hw2]; exact updPeer_inv w idx _ (fun _ => ⟨rfl, rfl, rfl⟩) h.full.inv
  have hg2 : w2.g = w.g := by rw [← hw2]; rfl
  have hr2 : w2.rib = w.rib := by rw [← hw2]; rfl
  have hp2 : w2.peers = w.peers.map (fun q => if q.cfg.idx == idx then { q with adj := adj' } else q) := by
    rw [← hw2]; rfl
  obtain ⟨r', hs', hk', hp', heq⟩ := propagate_eq w2 ps.cfg r wd
  rw [heq]
  apply held_lift
  intro q2 hq2
  rw [hp2] at hq2
  obtain ⟨q, hq, rfl⟩ := List.mem_map.mp hq2
  have hheld := h.held q hq
  rw [← hg2, ← hr2] at hheld
  by_cases hi : (q.cfg.idx == idx) = true
  · have hqps : q = ps := peer_of_idx h.full.inv.peers hq hmem (by rw [hidx]; simpa using hi)
    subst hqps
    simp only [hi, if_true]
    apply held_ribUpdate w2 hinv2 _ r.pfx q.cfg q.adj.entries adj'.entries hheld
    intro a ha hr
    cases wd with
    | false =>
      simp only [Bool.false_eq_true, if_false]
      rcases hann rfl a ha hr with ⟨k1, k2⟩ | h0
      · exact Or.inl ⟨r', rfl, by rw [hs', hsrc, hg2], k1, k2.trans hk'.symm⟩
      · by_cases hkey : a.r.pfx = r.pfx ∧ a.r.pathId = r.pathId
        · exact Or.inl ⟨r', rfl, by rw [hs', hsrc, hg2], hkey.1, hkey.2.trans hk'.symm⟩
        · refine Or.inr ⟨h0, ?_⟩
          intro x hx h1 h2
          exfalso
          rcases hx with hx | hx
          · cases hx; exact hkey ⟨h1, h2.trans hk'⟩
          · cases hx
    | true =>
      simp only [if_true]
      obtain ⟨h0, hne⟩ := hwd rfl a ha hr
      refine Or.inr ⟨h0, ?_⟩
      intro x hx h1 h2
      exfalso
      rcases hx with hx | hx
      · cases hx
      · cases hx; exact hne ⟨h1, h2.trans hk'⟩
  · have hi' : (q.cfg.idx == idx) = false := by simpa using hi
    simp only [hi', Bool.false_eq_true, if_false]
    apply held_ribUpdate_other w2 hinv2 _ r.pfx q.cfg q.adj.entries hheld
    intro x hx
    have hxs : x.src = ps.cfg.srcInfo w.g := by
      cases wd with
      | false =>
        simp only [Bool.false_eq_true, if_false] at hx
        rcases hx with hx | hx
        · cases hx; exact hs'.trans hsrc
        · cases hx
      | true =>
        simp only [if_true] at hx
        rcases hx with hx | hx
        · cases hx
        · cases hx; exact hs'.trans hsrc
    rw [hxs, srcInfo_addr]
    have hne : q.cfg.idx ≠ ps.cfg.idx := by rw [hidx]; simpa using hi'
    have := addr_ne_of_idx_ne h.full.inv.peers hq hmem hne
    intro he
    exact this (Option.some.inj he).symm

theorem totalInv_of_eq (w w' : W) (h : TotalInv w) (hg : w'.g = w.g) (hp : w'.peers = w.peers)
    (hr : w'.rib = w.rib) : TotalInv w' := by
  refine ⟨fullInv_of_eq w w' h.full hg hp hr, ?_⟩
  intro ps hps
  rw [hp] at hps
  rw [hg, hr]
  exact h.held ps hps

theorem adjAnnounce_key_rej (adj : Adj) (r : Cand) (rej : Bool) :
    ∀ a' ∈ (adjAnnounce adj r rej).1.entries, adjKeyEq a'.r r = true → a'.rejected = rej := by
  intro a' ha' hk
  unfold adjAnnounce at ha'
  split at ha'
  · simp only [List.mem_map] at ha'
    obtain ⟨a, ha, rfl⟩ := ha'
    cases hka : adjKeyEq a.r r
    · simp [hka] at hk
    · simp
  · rename_i hf
    simp only [List.mem_append, List.mem_singleton] at ha'
    rcases ha' with h | rfl
    · have := List.find?_eq_none.mp hf a' h
      simp only [Bool.not_eq_true] at this
      rw [this] at hk; cases hk
    · rfl

theorem recvWd_total (w : W) (idx pfx pathId : Nat) (h : TotalInv w) :
    TotalInv (recvWd w idx pfx pathId) := by
  refine ⟨recvWd_full w idx pfx pathId h.full, ?_⟩
  unfold recvWd
  cases hp : w.peer? idx with
  | none => exact h.held
  | some ps =>
    simp only
    split
    · exact h.held
    · have h1 : TotalInv { w with tick := w.tick + 1 } := totalInv_of_eq w _ h rfl rfl rfl
      generalize hx : ({ (default : Cand) with src := ps.cfg.srcInfo w.g, pfx := pfx, pathId := pathId, ts := w.tick + 1 } : Cand) = x
      have hxs : x.src = ps.cfg.srcInfo w.g := by subst hx; rfl
      refine held_updAdj_propagate _ h1 idx ps hp (adjWithdraw ps.adj x) x true hxs
        (fun e => by cases e) ?_
      intro _ a ha hr
      rw [adjWithdraw_entries] at ha
      obtain ⟨ha1, ha2⟩ := List.mem_filter.mp ha
      refine ⟨⟨a, ha1, hr, rfl, rfl⟩, ?_⟩
      intro hk
      have : adjKeyEq a.r x = true := adjKeyEq_true.mpr hk
      simp [this] at ha2

theorem recvAnn_total (w : W) (idx : Nat) (r0 : Cand) (h : TotalInv w) :
    TotalInv (recvAnn w idx r0) := by
  refine ⟨recvAnn_full w idx r0 h.full, ?_⟩
  unfold recvAnn
  cases hp : w.peer? idx with
  | none => exact h.held
  | some ps =>
    simp only
    split
    · exact h.held
    · have h1 : TotalInv { w with tick := w.tick + 1 } := totalInv_of_eq w _ h rfl rfl rfl
      generalize hr : ({ r0 with src := ps.cfg.srcInfo w.g, ts := w.tick + 1 } : Cand) = r
      have hsrc : r.src = ps.cfg.srcInfo w.g := by subst hr; rfl
      generalize hrej : inboundRejected w.g ps.cfg r = rej
      obtain ⟨hs2, hp2, hk2⟩ := adjAnnounce_ret ps.adj r rej
      cases rej with
      | true =>
        refine held_updAdj_propagate _ h1 idx ps hp _ _ true (hs2.trans hsrc)
          (fun e => by cases e) ?_
        intro _ a ha hrj
        have hnk : ¬ (a.r.pfx = r.pfx ∧ a.r.pathId = r.pathId) := by
          intro hk
          have := adjAnnounce_key_rej ps.adj r true a ha (adjKeyEq_true.mpr hk)
          rw [hrj] at this; cases this
        refine ⟨?_, fun hk => hnk ⟨hk.1.trans hp2, hk.2.trans hk2⟩⟩
        rcases adjAnnounce_mem ps.adj r true a ha with h' | ⟨_, _, _, h'⟩
        · exact ⟨a, h', hrj, rfl, rfl⟩
        · rw [hrj] at h'; cases h'
      | false =>
        refine held_updAdj_propagate _ h1 idx ps hp _ _ false (hs2.trans hsrc) ?_
          (fun e => by cases e)
        intro _ a ha hrj
        -- undo the in-place LOCAL_PREF strip: keys and flags are those of the stored entry
        have hb : ∃ b ∈ (adjAnnounce ps.adj r false).1.entries,
            b.rejected = a.rejected ∧ b.r.pfx = a.r.pfx ∧ b.r.pathId = a.r.pathId := by
          simp only [Bool.not_false, Bool.true_and] at ha
          split at ha
          · simp only [List.mem_map] at ha
            obtain ⟨b, hb, rfl⟩ := ha
            refine ⟨b, hb, ?_⟩
            split <;> exact ⟨rfl, rfl, rfl⟩
          · exact ⟨a, ha, rfl, rfl, rfl⟩
        obtain ⟨b, hb, hb1, hb2, hb3⟩ := hb
        rcases adjAnnounce_mem ps.adj r false b hb with h' | ⟨_, h2, h3, _⟩
        · exact Or.inr ⟨b, h', hb1.trans hrj, hb2, hb3⟩
        · exact Or.inl ⟨(hb2.symm.trans h2).trans hp2.symm, (hb3.symm.trans h3).trans hk2.symm⟩

theorem total_ribUpdate_local (w : W) (h : TotalInv w) (op : Op) (pfx : Nat) (hop : OpWF w pfx op)
    (hloc : ∀ x, (op = .ann x ∨ op = .wd x) → x.src = localSrc) : TotalInv (ribUpdate w op pfx) := by
  refine ⟨full_ribUpdate_local w h.full op pfx hop (fun r hr => hloc r (Or.inl hr)), ?_⟩
  apply held_lift
  intro ps hps
  apply held_ribUpdate_other w h.full.inv op pfx ps.cfg _ (h.held ps hps)
  intro x hx
  rw [hloc x hx]
  simp [localSrc]

theorem localAdd_total (w : W) (r0 : Cand) (h : TotalInv w) : TotalInv (localAdd w r0) := by
  unfold localAdd
  have h1 : TotalInv { w with tick := w.tick + 1 } := totalInv_of_eq w _ h rfl rfl rfl
  exact total_ribUpdate_local _ h1 _ _ ⟨rfl, Or.inl rfl⟩
    (fun x hx => by rcases hx with hx | hx <;> cases hx; rfl)

theorem localDel_total (w : W) (pfx pathId : Nat) (h : TotalInv w) : TotalInv (localDel w pfx pathId) := by
  unfold localDel
  have h1 : TotalInv { w with tick := w.tick + 1 } := totalInv_of_eq w _ h rfl rfl rfl
  exact total_ribUpdate_local _ h1 _ _ trivial
    (fun x hx => by rcases hx with hx | hx <;> cases hx; rfl)

theorem sessionUp_total (w : W) (idx : Nat) (h : TotalInv w) : TotalInv (sessionUp w idx) := by
  refine ⟨sessionUp_full w idx h.full, ?_⟩
  unfold sessionUp
  cases hp : w.peer? idx with
  | none => exact h.held
  | some ps0 =>
    simp only
    intro ps' hps'
    simp only [W.updPeer, List.mem_map] at hps'
    obtain ⟨ps, hps, rfl⟩ := hps'
    have := h.held ps hps
    split <;> exact this

/-- withdrawing every stored entry of peer `c0` leaves the other peers' entries held -/
theorem held_drop_fold (c0 : PeerCfg) (idx : Nat) : ∀ (L : List AdjEntry) (w : W), Inv w →
    (∀ a ∈ L, a.r.src = c0.srcInfo w.g) →
    (∀ ps ∈ w.peers, ps.cfg.idx ≠ idx →
      ps.cfg.addr ≠ c0.addr ∧ Held w.g w.rib ps.cfg ps.adj.entries) →
    ∀ ps ∈ (L.foldl (fun w e => propagate w c0 e.r true) w).peers, ps.cfg.idx ≠ idx →
      Held (L.foldl (fun w e => propagate w c0 e.r true) w).g
        (L.foldl (fun w e => propagate w c0 e.r true) w).rib ps.cfg ps.adj.entries := by
  intro L
  induction L with
  | nil => intro w _ _ ho ps hps hne; exact (ho ps hps hne).2
  | cons a rest ih =>
    intro w hinv hsrc ho
    simp only [List.foldl_cons]
    obtain ⟨r', hs', hk', hp', heq⟩ := propagate_eq w c0 a.r true
    simp only [if_true] at heq
    obtain ⟨hg, _, f, hf, hpeers⟩ := ribUpdate_frame w (.wd r') a.r.pfx
    have hinv' : Inv (propagate w c0 a.r true) := propagate_inv w c0 a.r true hinv (fun h => by cases h)
    rw [heq] at hinv' ⊢
    apply ih _ hinv'
    · intro b hb
      rw [hg]; exact hsrc b (List.mem_cons_of_mem _ hb)
    · intro ps' hps' hne
      rw [hpeers] at hps'
      obtain ⟨ps, hps, rfl⟩ := List.mem_map.mp hps'
      rw [(hf ps).1] at hne ⊢
      rw [(hf ps).2.1, hg]
      obtain ⟨hna, hheld⟩ := ho ps hps hne
      refine ⟨hna, held_ribUpdate_other w hinv _ _ ps.cfg _ hheld ?_⟩
      intro x hx
      rcases hx with hx | hx
      · cases hx
      · cases hx
        rw [hs', hsrc a List.mem_cons_self, srcInfo_addr]
        intro he
        exact hna (Option.some.inj he).symm

theorem down_others (w1 : W) (idx : Nat) (ps0 : PeerSt) (hmem1 : ps0 ∈ w1.peers)
    (hidx : ps0.cfg.idx = idx) (h1 : TotalInv w1) (f : PeerSt → PeerSt)
    (hf : ∀ ps, (f ps).cfg = ps.cfg) :
    ∀ ps ∈ (w1.updPeer idx f).peers, ps.cfg.idx ≠ idx →
      ps.cfg.addr ≠ ps0.cfg.addr ∧ Held w1.g w1.rib ps.cfg ps.adj.entries := by
  intro ps' hps' hne
  simp only [W.updPeer, List.mem_map] at hps'
  obtain ⟨q, hq, rfl⟩ := hps'
  by_cases hi : (q.cfg.idx == idx) = true
  · simp only [hi, if_true, hf] at hne; exact absurd (by simpa using hi) hne
  · have hi' : (q.cfg.idx == idx) = false := by simpa using hi
    simp only [hi', Bool.false_eq_true, if_false] at hne ⊢
    exact ⟨addr_ne_of_idx_ne h1.full.inv.peers hq hmem1 (by rw [hidx]; exact hne), h1.held q hq⟩

theorem fold_idx_entries (c0 : PeerCfg) (idx : Nat) : ∀ (L : List AdjEntry) (w : W),
    (∀ ps ∈ w.peers, ps.cfg.idx = idx → ps.adj.entries = []) →
    ∀ ps ∈ (L.foldl (fun w e => propagate w c0 e.r true) w).peers, ps.cfg.idx = idx →
      ps.adj.entries = [] := by
  intro L
  induction L with
  | nil => intro w h; exact h
  | cons a rest ih =>
    intro w h
    simp only [List.foldl_cons]
    apply ih
    obtain ⟨r', _, _, _, heq⟩ := propagate_eq w c0 a.r true
    rw [heq]
    obtain ⟨_, _, f, hf, hpeers⟩ := ribUpdate_frame w (if true = true then .wd r' else .ann r') a.r.pfx
    intro ps' hps' he
    rw [hpeers] at hps'
    obtain ⟨ps, hps, rfl⟩ := List.mem_map.mp hps'
    rw [(hf ps).1] at he
    rw [(hf ps).2.1]
    exact h ps hps he

theorem sessionDown_total (w : W) (idx : Nat) (h : TotalInv w) : TotalInv (sessionDown w idx) := by
  refine ⟨sessionDown_full w idx h.full, ?_⟩
  unfold sessionDown
  cases hp : w.peer? idx with
  | none => exact h.held
  | some ps0 =>
    simp only
    obtain ⟨hmem, hidx⟩ := peer?_mem w idx ps0 hp
    have h1 : TotalInv { w with tick := w.tick + 1 } := totalInv_of_eq w _ h rfl rfl rfl
    generalize hw1 : ({ w with tick := w.tick + 1 } : W) = w1 at h1
    have hmem1 : ps0 ∈ w1.peers := by subst hw1; exact hmem
    have h2 := downPeer_inv w1 idx h1.full.inv
    intro ps hps
    by_cases hi : ps.cfg.idx = idx
    · have := fold_idx_entries ps0.cfg idx ps0.adj.entries
        (w1.updPeer idx (fun ps => { ps with up := false, view := [], adj := {} }))
        (by
          intro ps' hps' he
          simp only [W.updPeer, List.mem_map] at hps'
          obtain ⟨q, hq, rfl⟩ := hps'
          split
          · rfl
          · rename_i hne
            simp only [hne, if_false] at he
            exact absurd (by simpa using he) hne) ps hps hi
      rw [this]
      intro a ha; cases ha
    · exact held_drop_fold ps0.cfg idx ps0.adj.entries _ h2 (h1.full.adj ps0 hmem1).1
        (down_others w1 idx ps0 hmem1 hidx h1 _ (fun ps => rfl)) ps hps hi

theorem addPeer_total (w : W) (cfg : PeerCfg) (h : TotalInv w) : TotalInv (addPeer w cfg) := by
  refine ⟨addPeer_full w cfg h.full, ?_⟩
  unfold addPeer
  split
  · exact h.held
  · intro ps hps
    simp only [List.mem_append, List.mem_singleton] at hps
    rcases hps with hps | rfl
    · exact h.held ps hps
    · intro a ha; cases ha

theorem delPeer_total (w : W) (idx : Nat) (h : TotalInv w) : TotalInv (delPeer w idx) := by
  refine ⟨delPeer_full w idx h.full, ?_⟩
  unfold delPeer
  cases hp : w.peer? idx with
  | none => exact h.held
  | some ps0 =>
    simp only
    obtain ⟨hmem, hidx⟩ := peer?_mem w idx ps0 hp
    have h1 : TotalInv { w with tick := w.tick + 1 } := totalInv_of_eq w _ h rfl rfl rfl
    generalize hw1 : ({ w with tick := w.tick + 1 } : W) = w1 at h1
    have hmem1 : ps0 ∈ w1.peers := by subst hw1; exact hmem
    have h2 : Inv (w1.updPeer idx (fun ps => { ps with adj := {} })) :=
      updPeer_inv w1 idx _ (fun _ => ⟨rfl, rfl, rfl⟩) h1.full.inv
    intro ps hps
    obtain ⟨hps1, hps2⟩ := List.mem_filter.mp hps
    have hne : ps.cfg.idx ≠ idx := by simpa using hps2
    exact held_drop_fold ps0.cfg idx ps0.adj.entries _ h2 (h1.full.adj ps0 hmem1).1
      (down_others w1 idx ps0 hmem1 hidx h1 _ (fun ps => rfl)) ps hps1 hne

theorem step_total (w : W) (op : WOp) (h : TotalInv w) : TotalInv (step w op) := by
  cases op with
  | up i => exact sessionUp_total w i h
  | down i => exact sessionDown_total w i h
  | ann i r => exact recvAnn_total w i r h
  | wd i p k => exact recvWd_total w i p k h
  | localAdd r => exact localAdd_total w r h
  | localDel p k => exact localDel_total w p k h
  | add c => exact addPeer_total w c h
  | del i => exact delPeer_total w i h

theorem run_total (w : W) (ops : List WOp) (h : TotalInv w) : TotalInv (ops.foldl step w) := by
  induction ops generalizing w with
  | nil => exact h
  | cons op rest ih => exact ih _ (step_total w op h)

theorem init_total (g : Global) (cfgs : List PeerCfg)
    (haddr : cfgs.Pairwise (fun a b => a.addr ≠ b.addr))
    (hidx : cfgs.Pairwise (fun a b => a.idx ≠ b.idx)) : TotalInv (init g cfgs) := by
  refine ⟨init_full g cfgs haddr hidx, ?_⟩
  intro ps hps
  simp only [init, List.mem_map] at hps
  obtain ⟨c, _, rfl⟩ := hps
  intro a ha; cases ha

end World
