/-
  Lemmas for C01: the incremental export decision (filterpath with the old best) agrees with
  the from-scratch export decision (filterpath with old = nil) — stage by stage.
-/
import Model.World
namespace World
open BestPath

/-- exported marker a (non route-server) peer should hold for a destination with path list `l`:
    the from-scratch export of the best path — what the initial table transfer would send -/
def wantOf (g : Global) (t : PeerCfg) (l : List Cand) : Option Nat :=
  match l.head? with
  | none => none
  | some b =>
    if b.nhInvalid then none else
    match sFilterpath g t ⟨b, false⟩ none with
    | some p => if p.wd then none else some p.r.marker
    | none => none

/-- what one (possibly absent) outgoing path does to the marker held for its prefix -/
def heldApply (h : Option Nat) : Option P → Option Nat
  | none => h
  | some p => if p.wd then none else some p.r.marker

/-- Well-formedness of a route w.r.t. a target peer: a route whose source address is the
    peer's address was learned from that peer (its PeerInfo is the peer's). -/
def FromPeerWF (g : Global) (t : PeerCfg) (r : Cand) : Prop :=
  r.src.addr = some t.addr → r.src = t.srcInfo g

@[simp] theorem wdOld_none (p : P) : wdOld p none = none := rfl

theorem wdOld_wd (r : Cand) (old : Option Cand) : wdOld ⟨r, true⟩ old = none := by
  cases old <;> simp [wdOld]

theorem wdOld_some (r o : Cand) : wdOld ⟨r, false⟩ (some o) = some ⟨o, true⟩ := by
  simp [wdOld]

/-! ### a withdraw going through the filters: `old` is irrelevant and the verdict is that of
    the announcement with old = nil -/

theorem ibgpStage_wd (g : Global) (t : PeerCfg) (o : Cand) (old : Option Cand) :
    ibgpStage g t ⟨o, true⟩ old = (ibgpStage g t ⟨o, false⟩ none).map (fun _ => none) := by
  unfold ibgpStage
  cases old <;> simp [wdOld] <;> (repeat' split) <;> simp_all

theorem srcStage_wd (t : PeerCfg) (o : Cand) (old : Option Cand) :
    srcStage t ⟨o, true⟩ old = (srcStage t ⟨o, false⟩ none).map (fun p => ⟨p.r, true⟩) := by
  unfold srcStage
  cases old <;> simp [wdOld] <;> (repeat' split) <;> simp_all

theorem loopStage_wd (t : PeerCfg) (o : Cand) (old : Option Cand) :
    loopStage t ⟨o, true⟩ old = (loopStage t ⟨o, false⟩ none).map (fun p => ⟨p.r, true⟩) := by
  unfold loopStage
  cases old <;> simp [wdOld] <;> (repeat' split) <;> simp_all

theorem srcStage_none_shape (t : PeerCfg) (o : Cand) (p : P)
    (h : srcStage t ⟨o, false⟩ none = some p) : p = ⟨o, false⟩ := by
  unfold srcStage at h
  simp at h
  exact h.2.symm

theorem core_wd (g : Global) (t : PeerCfg) (o : Cand) (old : Option Cand) :
    filterpathCore g t ⟨o, true⟩ old =
      (filterpathCore g t ⟨o, false⟩ none).map (fun p => ⟨p.r, true⟩) := by
  unfold filterpathCore
  rw [ibgpStage_wd]
  cases h1 : ibgpStage g t ⟨o, false⟩ none with
  | some res =>
    -- with old = nil the iBGP block can only answer "nothing"
    have : res = none := by
      unfold ibgpStage at h1
      simp at h1
      (repeat' split at h1) <;> simp_all
    subst this
    simp
  | none =>
    simp only [Option.map_none]
    rw [srcStage_wd]
    cases h2 : srcStage t ⟨o, false⟩ none with
    | none => simp
    | some p =>
      have := srcStage_none_shape t o p h2
      subst this
      simp only [Option.map_some]
      exact loopStage_wd t o old

/-! ### with old = nil an announcement is either passed unchanged or dropped -/

theorem core_none_shape (g : Global) (t : PeerCfg) (b : Cand) (p : P)
    (h : filterpathCore g t ⟨b, false⟩ none = some p) : p = ⟨b, false⟩ := by
  unfold filterpathCore at h
  cases h1 : ibgpStage g t ⟨b, false⟩ none with
  | some res =>
    have : res = none := by
      unfold ibgpStage at h1
      simp at h1
      (repeat' split at h1) <;> simp_all
    subst this
    simp [h1] at h
  | none =>
    simp only [h1] at h
    cases h2 : srcStage t ⟨b, false⟩ none with
    | none => simp [h2] at h
    | some q =>
      have := srcStage_none_shape t b q h2
      subst this
      simp only [h2] at h
      unfold loopStage at h
      split at h <;> simp_all

/-! ### the three facts about an announcement filtered together with the old best -/

/-- (A) if the new best is announced, it is announced unchanged and the from-scratch decision
    announces it too -/
theorem core_announce (g : Global) (t : PeerCfg) (b : Cand) (old : Option Cand) (r : Cand)
    (h : filterpathCore g t ⟨b, false⟩ old = some ⟨r, false⟩) :
    r = b ∧ filterpathCore g t ⟨b, false⟩ none = some ⟨b, false⟩ := by
  cases old with
  | none => have := core_none_shape g t b _ h; simp_all
  | some o =>
    unfold filterpathCore at h ⊢
    cases h1 : ibgpStage g t ⟨b, false⟩ (some o) with
    | some res =>
      simp only [h1] at h
      subst h
      unfold ibgpStage at h1
      simp [wdOld] at h1
      (repeat' split at h1) <;> simp_all
    | none =>
      have h1' : ibgpStage g t ⟨b, false⟩ none = none := by
        unfold ibgpStage at h1 ⊢
        simp [wdOld] at h1 ⊢
        (repeat' split at h1) <;> simp_all
      simp only [h1, h1'] at h ⊢
      cases h2 : srcStage t ⟨b, false⟩ (some o) with
      | none => simp [h2] at h
      | some q =>
        simp only [h2] at h
        by_cases hr : t.rid = b.src.rid
        · -- the source block answers with a withdraw (or nothing): cannot end as an announcement
          unfold srcStage at h2
          simp [wdOld, hr] at h2
          obtain ⟨_, rfl⟩ := h2
          unfold loopStage at h
          simp [wdOld] at h
        · have h2q : q = ⟨b, false⟩ := by
            unfold srcStage at h2
            simp [hr] at h2
            exact h2.symm
          subst h2q
          have h2' : srcStage t ⟨b, false⟩ none = some ⟨b, false⟩ := by
            unfold srcStage; simp [hr]
          simp only [h2']
          unfold loopStage at h ⊢
          simp [wdOld] at h ⊢
          split at h <;> simp_all

/-- (B) if the answer is a withdraw, the from-scratch decision for the new best is "nothing" -/
theorem core_withdraw (g : Global) (t : PeerCfg) (b o r : Cand)
    (h : filterpathCore g t ⟨b, false⟩ (some o) = some ⟨r, true⟩) :
    filterpathCore g t ⟨b, false⟩ none = none := by
  unfold filterpathCore at h ⊢
  cases h1 : ibgpStage g t ⟨b, false⟩ (some o) with
  | some res =>
    have : ibgpStage g t ⟨b, false⟩ none = some none := by
      unfold ibgpStage at h1 ⊢
      simp [wdOld] at h1 ⊢
      (repeat' split at h1) <;> simp_all
    simp [this]
  | none =>
    have h1' : ibgpStage g t ⟨b, false⟩ none = none := by
      unfold ibgpStage at h1 ⊢
      simp [wdOld] at h1 ⊢
      (repeat' split at h1) <;> simp_all
    simp only [h1, h1'] at h ⊢
    by_cases hr : t.rid = b.src.rid
    · have : srcStage t ⟨b, false⟩ none = none := by
        unfold srcStage; simp [hr]
      simp [this]
    · have e1 : srcStage t ⟨b, false⟩ (some o) = some ⟨b, false⟩ := by
        unfold srcStage; simp [hr]
      have e2 : srcStage t ⟨b, false⟩ none = some ⟨b, false⟩ := by
        unfold srcStage; simp [hr]
      simp only [e1, e2] at h ⊢
      unfold loopStage at h ⊢
      simp [wdOld] at h ⊢
      split at h <;> simp_all

/-- (E) if the answer is "nothing", the from-scratch decision for the new best is "nothing" -/
theorem core_silent_new (g : Global) (t : PeerCfg) (b o : Cand)
    (h : filterpathCore g t ⟨b, false⟩ (some o) = none) :
    filterpathCore g t ⟨b, false⟩ none = none := by
  unfold filterpathCore at h ⊢
  cases h1 : ibgpStage g t ⟨b, false⟩ (some o) with
  | some res =>
    have : ibgpStage g t ⟨b, false⟩ none = some none := by
      unfold ibgpStage at h1 ⊢
      simp [wdOld] at h1 ⊢
      (repeat' split at h1) <;> simp_all
    simp [this]
  | none =>
    have h1' : ibgpStage g t ⟨b, false⟩ none = none := by
      unfold ibgpStage at h1 ⊢
      simp [wdOld] at h1 ⊢
      (repeat' split at h1) <;> simp_all
    simp only [h1, h1'] at h ⊢
    by_cases hr : t.rid = b.src.rid
    · have : srcStage t ⟨b, false⟩ none = none := by
        unfold srcStage; simp [hr]
      simp [this]
    · have e1 : srcStage t ⟨b, false⟩ (some o) = some ⟨b, false⟩ := by
        unfold srcStage; simp [hr]
      have e2 : srcStage t ⟨b, false⟩ none = some ⟨b, false⟩ := by
        unfold srcStage; simp [hr]
      simp only [e1, e2] at h ⊢
      unfold loopStage at h ⊢
      simp [wdOld] at h ⊢
      split at h <;> simp_all

/-- (C) if the answer is "nothing", the OLD best was not exportable either: nothing the peer
    holds is left behind.  This is the lemma that fails for the pinned tree (route-reflector
    stuck route; CLUSTER_LIST branch) and holds after the fixes. -/
theorem core_silent_old (g : Global) (t : PeerCfg) (b o : Cand)
    (hrs : t.isRSClient = false) (wf : FromPeerWF g t o)
    (h : filterpathCore g t ⟨b, false⟩ (some o) = none) :
    filterpathCore g t ⟨o, false⟩ none = none := by
  unfold FromPeerWF at wf
  -- with old = nil the iBGP block can only say "nothing" or fall through
  have ibgpNil : ∀ res, ibgpStage g t ⟨o, false⟩ none = some res → res = none := by
    intro res h3
    unfold ibgpStage at h3
    simp at h3
    (repeat' split at h3) <;> simp_all
  unfold filterpathCore at h
  cases h1 : ibgpStage g t ⟨b, false⟩ (some o) with
  | some res =>
    simp only [h1] at h
    subst h
    -- only the `ignore` branch answers "nothing" when an old best exists
    unfold ibgpStage at h1
    simp [wdOld] at h1
    have hold : ibgpStage g t ⟨o, false⟩ none = some none := by
      unfold ibgpStage
      simp [wdOld]
      by_cases ha : o.src.addr = some t.addr
      · have hs := wf ha
        (repeat' split at h1) <;> simp_all [PeerCfg.srcInfo, Cand.isLocal]
      · have hsome : ∀ (x : Option Nat), ¬ x = none → x.isSome = true := by
          intro x hx; cases x <;> simp_all
        (repeat' split at h1) <;> simp_all [PeerCfg.srcInfo, Cand.isLocal]
    unfold filterpathCore
    simp [hold]
  | none =>
    simp only [h1] at h
    by_cases hr : t.rid = b.src.rid
    · by_cases ha : o.src.addr = some t.addr
      · -- the new best comes from this very router and the old best from this very session
        have hrid : t.rid = o.src.rid := by
          rw [wf ha]; simp [PeerCfg.srcInfo]
        unfold filterpathCore
        cases h3 : ibgpStage g t ⟨o, false⟩ none with
        | some res => simp [ibgpNil res h3]
        | none =>
          simp only
          unfold srcStage
          simp [hrid]
      · -- the withdraw of the old best is itself dropped by the AS-loop block: the old best
        -- carried the peer's AS and had never been sent
        have e1 : srcStage t ⟨b, false⟩ (some o) = some ⟨o, true⟩ := by
          unfold srcStage; simp [wdOld, hr, hrs, ha]
        simp only [e1] at h
        unfold loopStage at h
        simp [wdOld, hrs] at h
        unfold filterpathCore
        cases h3 : ibgpStage g t ⟨o, false⟩ none with
        | some res => simp [ibgpNil res h3]
        | none =>
          simp only
          cases h4 : srcStage t ⟨o, false⟩ none with
          | none => rfl
          | some q =>
            have := srcStage_none_shape t o q h4
            subst this
            simp only
            unfold loopStage
            simp [hrs, h]
    · have e1 : srcStage t ⟨b, false⟩ (some o) = some ⟨b, false⟩ := by
        unfold srcStage; simp [hr]
      simp only [e1] at h
      unfold loopStage at h
      simp [wdOld] at h
      split at h <;> simp_all


/-! ### the from-scratch export decision as a predicate -/

/-- the route would be sent to the peer by an initial table transfer (loop prevention only) -/
def exportable (g : Global) (t : PeerCfg) (r : Cand) : Bool :=
  (filterpathCore g t ⟨r, false⟩ none).isSome

theorem core_none_eq (g : Global) (t : PeerCfg) (r : Cand) :
    filterpathCore g t ⟨r, false⟩ none = if exportable g t r then some ⟨r, false⟩ else none := by
  unfold exportable
  cases h : filterpathCore g t ⟨r, false⟩ none with
  | none => simp
  | some p => simp [core_none_shape g t r p h]

/-- the marker the peer should hold when `b` is the best path -/
def wantR (g : Global) (t : PeerCfg) (b : Cand) : Option Nat :=
  if b.nhInvalid then none
  else if exportable g t b && (t.llgr || !b.stale) then some b.marker else none

theorem wantOf_eq (g : Global) (t : PeerCfg) (l : List Cand) :
    wantOf g t l = match l.head? with | none => none | some b => wantR g t b := by
  unfold wantOf wantR sFilterpath
  cases l.head? with
  | none => rfl
  | some b =>
    simp only
    rw [core_none_eq]
    cases hn : b.nhInvalid <;> cases he : exportable g t b <;> cases hl : t.llgr <;>
      cases hs : b.stale <;> simp_all

/-- the loop-prevention rule in closed form: a route is NOT sent to an iBGP peer when it was
    learned from a non-client iBGP peer (unless the target is an RR client, which only refuses a
    CLUSTER_LIST containing the local cluster-id); never to the router it came from; never to a
    (non route-server) peer whose AS is already in the AS_PATH. -/
def exportableF (g : Global) (t : PeerCfg) (r : Cand) : Bool :=
  !(t.isIBGP g && !r.isLocal &&
      (if t.isRRClient then r.clusterList.contains g.rid
       else (r.src.as == t.as && !r.src.rrClient))) &&
    (t.rid != r.src.rid) &&
    !(!t.isRSClient && (asList r.segs).contains t.as)

theorem exportable_eq (g : Global) (t : PeerCfg) (r : Cand) :
    exportable g t r = exportableF g t r := by
  unfold exportable exportableF filterpathCore ibgpStage srcStage loopStage
  simp only [wdOld_none]
  cases h1 : t.isIBGP g <;> cases h2 : r.isLocal <;> cases h3 : t.isRRClient <;>
    cases h4 : r.clusterList.contains g.rid <;> cases hE : (r.src.as != t.as) <;>
    cases h5 : r.src.rrClient <;> cases hR : (t.rid != r.src.rid) <;> cases h6 : t.isRSClient <;>
    cases hL : (asList r.segs).contains t.as <;> simp_all

/-- the export decision reads a route only through these fields -/
theorem exportable_congr (g : Global) (t : PeerCfg) (a b : Cand)
    (h1 : a.src = b.src) (h2 : a.clusterList = b.clusterList) (h3 : a.segs = b.segs) :
    exportable g t a = exportable g t b := by
  rw [exportable_eq, exportable_eq]
  unfold exportableF Cand.isLocal
  rw [h1, h2, h3]

theorem pathEqual_fields (a b : Cand) (h : pathEqual a b = true) :
    a.segs = b.segs ∧ a.marker = b.marker ∧ a.clusterList = b.clusterList ∧ a.stale = b.stale := by
  unfold pathEqual at h
  simp at h
  exact ⟨h.1.1.1.1.1.1.1.2, h.1.1.1.1.2, h.1.1.2, h.2⟩

theorem pathEqual_src (a b : Cand) (h : pathEqual a b = true) : a.src.equal b.src = true := by
  unfold pathEqual at h
  simp at h
  exact h.1.1.1.1.1.1.1.1.1

/-! ### sFilterpath on top of the core lemmas -/

/-- new best `b` (reachable) replaces old best `o`: afterwards the peer holds exactly what it
    should for `b`, provided it held what it should for `o` -/
theorem sfilter_replace (g : Global) (t : PeerCfg) (b o : Cand) (hrs : t.isRSClient = false)
    (wf : FromPeerWF g t o) (hb : b.nhInvalid = false) :
    heldApply (wantR g t o) (sFilterpath g t ⟨b, false⟩ (some o)) = wantR g t b := by
  unfold sFilterpath
  cases hX : filterpathCore g t ⟨b, false⟩ (some o) with
  | none =>
    have hnew := core_silent_new g t b o hX
    have hold := core_silent_old g t b o hrs wf hX
    simp only [heldApply]
    unfold wantR exportable
    simp [hnew, hold]
  | some p =>
    obtain ⟨r, w⟩ := p
    cases w with
    | false =>
      obtain ⟨rfl, hex⟩ := core_announce g t b (some o) r hX
      have : exportable g t r = true := by unfold exportable; simp [hex]
      unfold wantR
      simp only [hb, this]
      cases hl : t.llgr <;> cases hs : r.stale <;> simp_all [heldApply]
    | true =>
      have hnew := core_withdraw g t b o r hX
      unfold wantR exportable
      simp [heldApply, hnew, hb]

/-- a withdraw handed to the filters comes out iff the route was exportable -/
theorem sfilter_wd_eq (g : Global) (t : PeerCfg) (x : Cand) (old : Option Cand) :
    sFilterpath g t ⟨x, true⟩ old = if exportable g t x then some ⟨x, true⟩ else none := by
  unfold sFilterpath
  rw [core_wd, core_none_eq]
  cases exportable g t x <;> simp

/-- old best `o` (reachable) goes away and nothing reachable replaces it -/
theorem sfilter_remove (g : Global) (t : PeerCfg) (o : Cand) (old : Option Cand)
    (ho : o.nhInvalid = false) :
    heldApply (wantR g t o) (sFilterpath g t ⟨o, true⟩ old) = none := by
  unfold sFilterpath
  rw [core_wd, core_none_eq]
  unfold wantR
  cases he : exportable g t o <;> simp [heldApply, ho]

/-- first path for a destination (or the first reachable one) -/
theorem sfilter_first (g : Global) (t : PeerCfg) (b : Cand) (hb : b.nhInvalid = false) :
    heldApply none (sFilterpath g t ⟨b, false⟩ none) = wantR g t b := by
  unfold sFilterpath
  rw [core_none_eq]
  unfold wantR
  cases he : exportable g t b <;> cases hl : t.llgr <;> cases hs : b.stale <;>
    simp_all [heldApply]

/-- what propagateUpdateToNeighbors sends to one non ADD-PATH peer for one destination change -/
def deltaFor (g : Global) (t : PeerCfg) (oldL newL : List Cand) : Option P :=
  match getChanges oldL newL with
  | (some b, old) => sFilterpath g t b old
  | (none, _) => none

/-- **delta_correct**: if the peer held the export of the old best path, then after applying
    what the incremental fan-out sends it holds the export of the new best path. For EVERY pair
    of path lists, every target peer kind and option — no stuck route, no missing route. -/
theorem delta_correct (g : Global) (t : PeerCfg) (hrs : t.isRSClient = false)
    (oldL newL : List Cand)
    (wfO : ∀ o, oldL.head? = some o → FromPeerWF g t o)
    (wfEq : ∀ b o, newL.head? = some b → oldL.head? = some o →
      b.src.equal o.src = true → b.src = o.src) :
    heldApply (wantOf g t oldL) (deltaFor g t oldL newL) = wantOf g t newL := by
  rw [wantOf_eq, wantOf_eq]
  unfold deltaFor getChanges
  cases hn : newL.head? with
  | none =>
    cases ho : oldL.head? with
    | none => simp [heldApply]
    | some o =>
      simp only
      cases hoi : o.nhInvalid with
      | true => simp [heldApply, wantR, hoi]
      | false =>
        simp only [Bool.false_eq_true, if_false]
        exact sfilter_remove g t o (some o) hoi
  | some b =>
    cases ho : oldL.head? with
    | none =>
      simp only
      cases hbi : b.nhInvalid with
      | true => simp [heldApply, wantR, hbi]
      | false =>
        simp only [Bool.false_eq_true, if_false]
        exact sfilter_first g t b hbi
    | some o =>
      simp only
      cases heq : pathEqual b o with
      | true =>
        have hsrc := wfEq b o hn ho (pathEqual_src b o heq)
        obtain ⟨f1, f2, f3, f4⟩ := pathEqual_fields b o heq
        have hex := exportable_congr g t b o hsrc f3 f1
        simp only [if_true]
        cases hbi : b.nhInvalid <;> cases hoi : o.nhInvalid
        · -- both reachable, nothing sent
          simp [heldApply, wantR, hbi, hoi, hex, f2, f4]
        · -- became reachable
          simp only [bne_iff_ne, ne_eq, Bool.false_eq_true, not_false_eq_true, if_true, if_false,
            reduceCtorEq]
          have hw : wantR g t o = none := by simp [wantR, hoi]
          rw [hw]
          have := sfilter_replace g t b o hrs (wfO o ho) hbi
          rw [hw] at this
          exact this
        · -- became unreachable: withdraw
          simp only [bne_iff_ne, ne_eq, Bool.true_eq_false, not_false_eq_true, if_true,
            reduceCtorEq]
          have h1 : wantR g t b = none := by simp [wantR, hbi]
          rw [h1, sfilter_wd_eq, hex]
          unfold wantR
          cases he : exportable g t o <;> simp [heldApply, hoi]
        · simp [heldApply, wantR, hbi, hoi]
      | false =>
        simp only [Bool.false_eq_true, if_false]
        cases hbi : b.nhInvalid with
        | true =>
          simp only [if_true]
          have h1 : wantR g t b = none := by simp [wantR, hbi]
          rw [h1]
          cases hoi : o.nhInvalid with
          | true => simp [heldApply, wantR, hoi]
          | false =>
            simp only [Bool.false_eq_true, if_false]
            exact sfilter_remove g t o (some o) hoi
        | false =>
          simp only [Bool.false_eq_true, if_false]
          exact sfilter_replace g t b o hrs (wfO o ho) hbi

end World
