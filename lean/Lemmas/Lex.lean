/-
  Lexicographic comparison of integer keys and the `Agree` technique that reduces a chain of
  three-way comparators ("first wins / second wins / cannot decide") to it.
-/
import Model.BestPath
namespace Lex
open BestPath (R decideChain)

/-- `a ≤ b` lexicographically (lower is better); lists of equal length intended -/
def lexLe : List Int → List Int → Bool
  | x :: xs, y :: ys => if x < y then true else if y < x then false else lexLe xs ys
  | _, _ => true

theorem lexLe_refl (a : List Int) : lexLe a a = true := by
  induction a with
  | nil => rfl
  | cons x xs ih => simp [lexLe, ih]

theorem lexLe_total (a b : List Int) : lexLe a b = true ∨ lexLe b a = true := by
  induction a generalizing b with
  | nil => left; simp [lexLe]
  | cons x xs ih =>
    cases b with
    | nil => left; simp [lexLe]
    | cons y ys =>
      simp only [lexLe]
      by_cases h1 : x < y
      · left; simp [h1]
      · by_cases h2 : y < x
        · right; simp [h2]
        · simp only [h1, h2, if_false]; exact ih ys

theorem lexLe_trans : ∀ (a b c : List Int), a.length = b.length → b.length = c.length →
    lexLe a b = true → lexLe b c = true → lexLe a c = true
  | [], _, _, _, _, _, _ => by simp [lexLe]
  | _ :: _, [], _, h, _, _, _ => by simp at h
  | _ :: _, _ :: _, [], _, h, _, _ => by simp at h
  | x :: xs, y :: ys, z :: zs, h1, h2, hab, hbc => by
    simp only [lexLe] at hab hbc ⊢
    simp only [List.length_cons, Nat.add_right_cancel_iff] at h1 h2
    by_cases xy : x < y
    · by_cases yz : y < z
      · have : x < z := by omega
        simp [this]
      · by_cases zy : z < y
        · simp [yz, zy] at hbc
        · have : x < z := by omega
          simp [this]
    · by_cases yx : y < x
      · simp [xy, yx] at hab
      · simp only [xy, yx, if_false] at hab
        have exy : x = y := by omega
        subst exy
        by_cases yz : x < z
        · simp [yz]
        · by_cases zy : z < x
          · simp [yz, zy] at hbc
          · simp only [yz, zy, if_false] at hbc ⊢
            exact lexLe_trans xs ys zs h1 h2 hab hbc

theorem lexLe_antisymm : ∀ (a b : List Int), a.length = b.length →
    lexLe a b = true → lexLe b a = true → a = b
  | [], [], _, _, _ => rfl
  | [], _ :: _, h, _, _ => by simp at h
  | _ :: _, [], h, _, _ => by simp at h
  | x :: xs, y :: ys, h, hab, hba => by
    simp only [lexLe] at hab hba
    simp only [List.length_cons, Nat.add_right_cancel_iff] at h
    by_cases xy : x < y
    · have : ¬ y < x := by omega
      simp [xy, this] at hba
    · by_cases yx : y < x
      · simp [xy, yx] at hab
      · simp only [xy, yx, if_false] at hab hba
        have : x = y := by omega
        subst this
        rw [lexLe_antisymm xs ys h hab hba]

/-- three-way comparison, lower wins -/
def cmp3 (x y : Int) : R := if x < y then .first else if y < x then .second else .none

/-- `rs` is, step by step, the three-way comparison of the key components — each step only
    *given* that all earlier components are equal.  The last step may answer `first` on a tie
    (Go's compareByNeighborAddress does when both addresses are invalid). -/
def Agree : List R → List Int → List Int → Prop
  | [], [], [] => True
  | r :: rs, x :: xs, y :: ys =>
      (x < y → r = .first) ∧ (y < x → r = .second) ∧
      (x = y → (r = .none ∧ Agree rs xs ys) ∨ (r = .first ∧ xs = [] ∧ ys = []))
  | _, _, _ => False

theorem agree_sound : ∀ (rs : List R) (ka kb : List Int), Agree rs ka kb →
    decideChain rs = lexLe ka kb
  | [], [], [], _ => by simp [decideChain, lexLe]
  | [], [], _ :: _, h => by simp [Agree] at h
  | [], _ :: _, _, h => by simp [Agree] at h
  | _ :: _, [], _, h => by simp [Agree] at h
  | _ :: _, _ :: _, [], h => by simp [Agree] at h
  | r :: rs, x :: xs, y :: ys, h => by
    obtain ⟨h1, h2, h3⟩ := h
    simp only [lexLe]
    by_cases xy : x < y
    · simp [xy, h1 xy, decideChain]
    · by_cases yx : y < x
      · simp [xy, yx, h2 yx, decideChain]
      · have e : x = y := by omega
        simp only [xy, yx, if_false]
        rcases h3 e with ⟨hr, hrest⟩ | ⟨hr, hx, hy⟩
        · subst hr; simp only [decideChain]; exact agree_sound rs xs ys hrest
        · subst hr hx hy; simp [decideChain, lexLe]

end Lex
