import Model.Wire
import Model.ParseTotal
namespace PTotO
open Wire PTot

/-! ## checked primitives -/

theorem idx_ok {d : Bytes} {i : Nat} (h : i < d.length) : idx d i = .ok (d.getD i 0) := by
  unfold idx; rw [if_pos h]

theorem slice_ok {d : Bytes} {a b : Nat} (h : a ≤ b ∧ b ≤ d.length) :
    slice d a b = .ok ((d.take b).drop a) := by
  unfold slice; rw [if_pos h]

theorem sliceFrom_ok {d : Bytes} {a : Nat} (h : a ≤ d.length) : sliceFrom d a = .ok (d.drop a) := by
  unfold sliceFrom; rw [if_pos h]

theorem be16At_ok {d : Bytes} (h : 2 ≤ d.length) : be16At d = .ok (rd16 d) := by
  unfold be16At; rw [if_pos h]

theorem be32At_ok {d : Bytes} (h : 4 ≤ d.length) : be32At d = .ok (rd32 d) := by
  unfold be32At; rw [if_pos h]

theorem slice_len {d : Bytes} {a b : Nat} (h : b ≤ d.length) : ((d.take b).drop a).length = b - a := by
  simp [List.length_drop, List.length_take, Nat.min_eq_left h]

/-! ## Hoare-style postconditions on `PM` -/

/-- `x` does not panic, and every value it returns satisfies `P` -/
def Post {α : Type} (x : PM α) (P : α → Prop) : Prop :=
  x ≠ .error .panic ∧ ∀ a, x = .ok a → P a

theorem Post.ok {α : Type} {P : α → Prop} (a : α) (h : P a) : Post (Except.ok a : PM α) P :=
  ⟨fun h => (by cases h), fun b hb => (by cases hb; exact h)⟩

theorem Post.pure {α : Type} {P : α → Prop} (a : α) (h : P a) : Post (pure a : PM α) P :=
  Post.ok a h

theorem Post.err {α : Type} {P : α → Prop} : Post (Except.error PErr.reject : PM α) P :=
  ⟨fun h => (by cases h), fun b hb => (by cases hb)⟩

theorem Post.reject {α : Type} {P : α → Prop} : Post (throw PErr.reject : PM α) P := Post.err

theorem Post.bind {α β : Type} {x : PM α} {f : α → PM β} {P : α → Prop} {Q : β → Prop}
    (hx : Post x P) (hf : ∀ a, P a → Post (f a) Q) : Post (x >>= f) Q := by
  cases x with
  | error e =>
    cases e with
    | reject => exact Post.err
    | panic => exact absurd rfl hx.1
  | ok a => exact hf a (hx.2 a rfl)

theorem Post.throw_bind {α β : Type} {f : α → PM β} {Q : β → Prop} :
    Post ((throw PErr.reject : PM α) >>= f) Q := Post.err

theorem Post.ite {α : Type} {c : Prop} [Decidable c] {a b : PM α} {P : α → Prop}
    (ha : c → Post a P) (hb : ¬ c → Post b P) : Post (if c then a else b) P := by
  by_cases h : c
  · rw [if_pos h]; exact ha h
  · rw [if_neg h]; exact hb h

theorem Post.mono {α : Type} {x : PM α} {P Q : α → Prop} (h : Post x P) (hq : ∀ a, P a → Q a) :
    Post x Q := ⟨h.1, fun a ha => hq a (h.2 a ha)⟩

theorem Post.idx {d : Bytes} {i : Nat} (h : i < d.length) : Post (idx d i) (fun _ => True) := by
  rw [idx_ok h]; exact Post.ok _ trivial

theorem Post.slice {d : Bytes} {a b : Nat} (h1 : a ≤ b) (h2 : b ≤ d.length) :
    Post (slice d a b) (fun s => s.length = b - a) := by
  rw [slice_ok ⟨h1, h2⟩]; exact Post.ok _ (slice_len h2)

theorem Post.sliceFrom {d : Bytes} {a : Nat} (h : a ≤ d.length) :
    Post (sliceFrom d a) (fun s => s.length = d.length - a) := by
  rw [sliceFrom_ok h]; exact Post.ok _ (by simp)

theorem Post.be16At {d : Bytes} (h : 2 ≤ d.length) : Post (be16At d) (fun _ => True) := by
  rw [be16At_ok h]; exact Post.ok _ trivial

theorem Post.be32At {d : Bytes} (h : 4 ≤ d.length) : Post (be32At d) (fun _ => True) := by
  rw [be32At_ok h]; exact Post.ok _ trivial

/-- `binary.BigEndian.Uint16(d[a:b])` -/
theorem Post.slice16 {d : Bytes} {a b : Nat} (h1 : a + 2 ≤ b) (h2 : b ≤ d.length) :
    Post (PTot.slice d a b >>= PTot.be16At) (fun _ => True) :=
  Post.bind (Post.slice (by omega) h2) (fun _ hs => Post.be16At (by omega))

theorem Post.slice32 {d : Bytes} {a b : Nat} (h1 : a + 4 ≤ b) (h2 : b ≤ d.length) :
    Post (PTot.slice d a b >>= PTot.be32At) (fun _ => True) :=
  Post.bind (Post.slice (by omega) h2) (fun _ hs => Post.be32At (by omega))

/-! ## DefaultParameterCapability -/

theorem decCapDefault_post (d : Bytes) :
    Post (decCapDefault d) (fun r => 2 + r.2.1 ≤ d.length ∧ r.2.2.length = r.2.1) := by
  unfold decCapDefault
  simp only []
  refine Post.ite (fun _ => Post.throw_bind) (fun h2 => ?_)
  refine Post.bind (Post.idx (by omega)) (fun code _ => ?_)
  refine Post.bind (Post.idx (by omega)) (fun len _ => ?_)
  refine Post.ite (fun _ => Post.throw_bind) (fun hl => ?_)
  refine Post.ite (fun _ => ?_) (fun h0 => ?_)
  · refine Post.bind (Post.slice (by omega) (by omega)) (fun v hv => Post.pure _ ⟨by simp; omega, by simp; omega⟩)
  · refine Post.bind (Post.pure (P := fun v => v = []) _ rfl) (fun v hv => Post.pure _ ⟨by simp; omega, by simp [hv]; omega⟩)

/-! ## tuple loops -/

abbrev T {α : Type} : α → Prop := fun _ => True

theorem capTuples6_post : ∀ (f n : Nat) (d : Bytes), n ≤ d.length → Post (capTuples6 f n d) T
  | 0, _, _, _ => by unfold capTuples6; exact Post.pure _ trivial
  | f + 1, n, d, h => by
    unfold capTuples6
    refine Post.ite (fun _ => Post.pure _ trivial) (fun h6 => ?_)
    refine Post.bind (Post.slice16 (by omega) (by omega)) (fun a _ => ?_)
    refine Post.bind (Post.slice16 (by omega) (by omega)) (fun b _ => ?_)
    refine Post.bind (Post.slice16 (by omega) (by omega)) (fun c _ => ?_)
    refine Post.bind (Post.sliceFrom (by omega)) (fun d' hd' => ?_)
    refine Post.bind (capTuples6_post f (n - 6) d' (by omega)) (fun r _ => Post.pure _ trivial)

theorem capTuples4_post : ∀ (f n : Nat) (d : Bytes), n ≤ d.length → Post (capTuples4 f n d) T
  | 0, _, _, _ => by unfold capTuples4; exact Post.pure _ trivial
  | f + 1, n, d, h => by
    unfold capTuples4
    refine Post.ite (fun _ => Post.pure _ trivial) (fun h4 => ?_)
    refine Post.bind (Post.slice16 (by omega) (by omega)) (fun a _ => ?_)
    refine Post.bind (Post.idx (by omega)) (fun b _ => ?_)
    refine Post.bind (Post.idx (by omega)) (fun c _ => ?_)
    refine Post.bind (Post.sliceFrom (by omega)) (fun d' hd' => ?_)
    refine Post.bind (capTuples4_post f (n - 4) d' (by omega)) (fun r _ => Post.pure _ trivial)

theorem capTuples7_post : ∀ (f n : Nat) (d : Bytes), n ≤ d.length → Post (capTuples7 f n d) T
  | 0, _, _, _ => by unfold capTuples7; exact Post.pure _ trivial
  | f + 1, n, d, h => by
    unfold capTuples7
    refine Post.ite (fun _ => Post.pure _ trivial) (fun h7 => ?_)
    refine Post.bind (Post.be16At (by omega)) (fun a _ => ?_)
    refine Post.bind (Post.idx (by omega)) (fun b _ => ?_)
    refine Post.bind (Post.idx (by omega)) (fun c _ => ?_)
    refine Post.bind (Post.idx (by omega)) (fun t0 _ => ?_)
    refine Post.bind (Post.idx (by omega)) (fun t1 _ => ?_)
    refine Post.bind (Post.idx (by omega)) (fun t2 _ => ?_)
    refine Post.bind (Post.sliceFrom (by omega)) (fun d' hd' => ?_)
    refine Post.bind (capTuples7_post f (n - 7) d' (by omega)) (fun r _ => Post.pure _ trivial)

/-! ## DecodeCapability -/

theorem decCap_post (d : Bytes) : Post (decCap d) T := by
  unfold decCap
  simp only []
  refine Post.ite (fun _ => Post.throw_bind) (fun h2 => ?_)
  refine Post.bind (Post.idx (by omega)) (fun c0 _ => ?_)
  refine Post.bind (decCapDefault_post d) (fun r hr => ?_)
  obtain ⟨code, len, v⟩ := r
  obtain ⟨hlen, hv⟩ := hr
  simp only [] at hlen hv ⊢
  refine Post.ite (fun _ => ?_) (fun _ => ?_)
  · -- CapMultiProtocol
    refine Post.ite (fun _ => Post.throw_bind) (fun h4 => ?_)
    refine Post.bind (Post.slice16 (by omega) (by omega)) (fun afi _ => ?_)
    refine Post.bind (Post.idx (by omega)) (fun safi _ => Post.pure _ trivial)
  refine Post.ite (fun _ => ?_) (fun _ => ?_)
  · -- CapExtendedNexthop
    refine Post.bind (Post.sliceFrom (by omega)) (fun d2 hd2 => ?_)
    refine Post.ite (fun _ => Post.throw_bind) (fun hc => ?_)
    simp at hc
    refine Post.bind (capTuples6_post _ _ _ (by omega)) (fun f _ => Post.pure _ trivial)
  refine Post.ite (fun _ => ?_) (fun _ => ?_)
  · -- CapGracefulRestart
    refine Post.ite (fun _ => Post.throw_bind) (fun hl2 => ?_)
    refine Post.bind (Post.slice16 (by omega) (by omega)) (fun restart _ => ?_)
    refine Post.bind (Post.sliceFrom (by omega)) (fun v2 hv2 => ?_)
    refine Post.ite (fun hc => ?_) (fun _ => ?_)
    · simp at hc
      refine Post.bind (capTuples4_post _ _ _ (by omega)) (fun f _ => Post.pure _ trivial)
    · exact Post.bind (Post.pure (P := T) _ trivial) (fun f _ => Post.pure _ trivial)
  refine Post.ite (fun _ => ?_) (fun _ => ?_)
  · -- CapFourOctetASNumber
    refine Post.ite (fun _ => Post.throw_bind) (fun h4 => ?_)
    refine Post.bind (Post.be32At (by omega)) (fun as _ => Post.pure _ trivial)
  refine Post.ite (fun _ => ?_) (fun _ => ?_)
  · -- CapAddPath
    refine Post.bind (Post.sliceFrom (by omega)) (fun d2 hd2 => ?_)
    refine Post.ite (fun _ => Post.throw_bind) (fun hc => ?_)
    simp at hc
    refine Post.bind (capTuples4_post _ _ _ (by omega)) (fun f _ => Post.pure _ trivial)
  refine Post.ite (fun _ => ?_) (fun _ => ?_)
  · -- CapLongLivedGracefulRestart
    refine Post.bind (Post.sliceFrom (by omega)) (fun d2 hd2 => ?_)
    refine Post.ite (fun _ => Post.throw_bind) (fun hc => ?_)
    simp at hc
    refine Post.bind (capTuples7_post _ _ _ (by omega)) (fun f _ => Post.pure _ trivial)
  refine Post.ite (fun _ => ?_) (fun _ => ?_)
  · -- CapFQDN
    refine Post.ite (fun _ => Post.throw_bind) (fun h1 => ?_)
    refine Post.bind (Post.idx (by omega)) (fun hl _ => ?_)
    refine Post.ite (fun _ => Post.throw_bind) (fun h3 => ?_)
    refine Post.bind (Post.slice (by omega) (by omega)) (fun host _ => ?_)
    refine Post.bind (Post.idx (by omega)) (fun dl _ => ?_)
    refine Post.ite (fun _ => Post.throw_bind) (fun h4 => ?_)
    refine Post.bind (Post.slice (by omega) (by omega)) (fun dom _ => Post.pure _ trivial)
  refine Post.ite (fun _ => ?_) (fun _ => ?_)
  · -- CapSoftwareVersion
    refine Post.ite (fun _ => Post.throw_bind) (fun h1 => ?_)
    refine Post.bind (Post.idx (by omega)) (fun sl _ => ?_)
    refine Post.bind (Post.sliceFrom (by omega)) (fun tail htail => ?_)
    refine Post.ite (fun _ => Post.throw_bind) (fun hc => ?_)
    simp at hc
    refine Post.bind (Post.slice (by omega) (by omega)) (fun s _ => Post.pure _ trivial)
  · exact Post.pure _ trivial

theorem decCap_no_panic (d : Bytes) : decCap d ≠ .error .panic := (decCap_post d).1

/-! ## capability list, optional parameters, OPEN -/

theorem decCaps_post : ∀ (f : Nat) (d : Bytes), Post (decCaps f d) (fun cs => 2 * cs.length ≤ d.length)
  | 0, d => by unfold decCaps; exact Post.pure _ (by simp)
  | f + 1, d => by
    unfold decCaps
    simp only []
    refine Post.ite (fun _ => Post.pure _ (by simp)) (fun h2 => ?_)
    refine Post.bind (decCap_post d) (fun c _ => ?_)
    refine Post.ite (fun _ => Post.throw_bind) (fun hc => ?_)
    simp at hc
    refine Post.bind (Post.sliceFrom (by omega)) (fun d' hd' => ?_)
    refine Post.bind (decCaps_post f d') (fun r hr => Post.pure _ ?_)
    simp only [List.length_cons]; omega

theorem decCaps_no_panic (f : Nat) (d : Bytes) : decCaps f d ≠ .error .panic := (decCaps_post f d).1

theorem decCaps_count {f d cs} (h : decCaps f d = .ok cs) : 2 * cs.length ≤ d.length :=
  (decCaps_post f d).2 cs h

theorem decOptParams_post : ∀ (f rest : Nat) (d : Bytes), rest ≤ d.length →
    Post (decOptParams f rest d) (fun ps => 2 * ps.length ≤ rest)
  | 0, _, _, _ => by unfold decOptParams; exact Post.pure _ (by simp)
  | f + 1, rest, d, h => by
    unfold decOptParams
    simp only []
    refine Post.ite (fun _ => Post.pure _ (by simp)) (fun h0 => ?_)
    refine Post.ite (fun _ => Post.reject) (fun h2 => ?_)
    refine Post.bind (Post.idx (by omega)) (fun ptype _ => ?_)
    refine Post.bind (Post.idx (by omega)) (fun plen _ => ?_)
    refine Post.ite (fun _ => Post.throw_bind) (fun hc => ?_)
    simp at hc
    refine Post.bind (Post.slice (by omega) (by omega)) (fun pv _ => ?_)
    refine Post.ite (fun _ => ?_) (fun _ => ?_)
    · refine Post.bind (decCaps_post _ pv) (fun cs _ => ?_)
      refine Post.bind (Post.pure (P := T) _ trivial) (fun p _ => ?_)
      refine Post.bind (Post.sliceFrom (by omega)) (fun d' hd' => ?_)
      refine Post.bind (decOptParams_post f _ d' (by omega)) (fun r hr => Post.pure _ ?_)
      simp only [List.length_cons]; omega
    · refine Post.bind (Post.pure (P := T) _ trivial) (fun p _ => ?_)
      refine Post.bind (Post.sliceFrom (by omega)) (fun d' hd' => ?_)
      refine Post.bind (decOptParams_post f _ d' (by omega)) (fun r hr => Post.pure _ ?_)
      simp only [List.length_cons]; omega

theorem decOptParams_no_panic (f rest : Nat) (d : Bytes) (h : rest ≤ d.length) :
    decOptParams f rest d ≠ .error .panic := (decOptParams_post f rest d h).1

theorem decOpen_post (d : Bytes) : Post (decOpen d) (fun o => 10 + 2 * o.params.length ≤ d.length) := by
  unfold decOpen
  simp only []
  refine Post.ite (fun _ => Post.throw_bind) (fun h10 => ?_)
  refine Post.bind (Post.idx (by omega)) (fun ver _ => ?_)
  refine Post.bind (Post.slice16 (by omega) (by omega)) (fun as _ => ?_)
  refine Post.bind (Post.slice16 (by omega) (by omega)) (fun hold _ => ?_)
  refine Post.bind (Post.slice32 (by omega) (by omega)) (fun id _ => ?_)
  refine Post.bind (Post.idx (by omega)) (fun optLen _ => ?_)
  refine Post.bind (Post.sliceFrom (by omega)) (fun d' hd' => ?_)
  refine Post.ite (fun _ => Post.throw_bind) (fun hc => ?_)
  refine Post.bind (decOptParams_post _ _ d' (by omega)) (fun ps hps => Post.pure _ ?_)
  simp only []; omega

theorem decOpen_no_panic (d : Bytes) : decOpen d ≠ .error .panic := (decOpen_post d).1

theorem decOpen_count {d o} (h : decOpen d = .ok o) : 10 + 2 * o.params.length ≤ d.length :=
  (decOpen_post d).2 o h

theorem parseOpen_no_panic (d : Bytes) : parseOpen d ≠ .error .panic := by
  unfold parseOpen
  simp only []
  split
  · exact Post.err (P := T).1
  split
  · exact Post.err (P := T).1
  split
  · exact Post.err (P := T).1
  split
  · exact Post.err (P := T).1
  split
  · exact Post.err (P := T).1
  exact decOpen_no_panic _

/-! ## partial correctness without the no-panic half (for `decOptParams_count`, which has no
    `rest ≤ d.length` hypothesis) -/

def Ret {α : Type} (x : PM α) (P : α → Prop) : Prop := ∀ a, x = .ok a → P a

theorem Ret.ok {α : Type} {P : α → Prop} (a : α) (h : P a) : Ret (Except.ok a : PM α) P :=
  fun b hb => (by cases hb; exact h)

theorem Ret.pure {α : Type} {P : α → Prop} (a : α) (h : P a) : Ret (pure a : PM α) P := Ret.ok a h

theorem Ret.err {α : Type} {P : α → Prop} (e : PErr) : Ret (Except.error e : PM α) P :=
  fun b hb => (by cases hb)

theorem Ret.reject {α : Type} {P : α → Prop} : Ret (throw PErr.reject : PM α) P := Ret.err _

theorem Ret.throw_bind {α β : Type} {f : α → PM β} {Q : β → Prop} :
    Ret ((throw PErr.reject : PM α) >>= f) Q := Ret.err _

theorem Ret.bind {α β : Type} {x : PM α} {f : α → PM β} {Q : β → Prop}
    (hf : ∀ a, x = .ok a → Ret (f a) Q) : Ret (x >>= f) Q := by
  cases x with
  | error e => exact Ret.err e
  | ok a => exact hf a rfl

theorem Ret.ite {α : Type} {c : Prop} [Decidable c] {a b : PM α} {P : α → Prop}
    (ha : c → Ret a P) (hb : ¬ c → Ret b P) : Ret (if c then a else b) P := by
  by_cases h : c
  · rw [if_pos h]; exact ha h
  · rw [if_neg h]; exact hb h

theorem decOptParams_ret : ∀ (f rest : Nat) (d : Bytes),
    Ret (decOptParams f rest d) (fun ps => 2 * ps.length ≤ rest)
  | 0, _, _ => by unfold decOptParams; exact Ret.pure _ (by simp)
  | f + 1, rest, d => by
    unfold decOptParams
    simp only []
    refine Ret.ite (fun _ => Ret.pure _ (by simp)) (fun h0 => ?_)
    refine Ret.ite (fun _ => Ret.reject) (fun h2 => ?_)
    refine Ret.bind (fun ptype _ => ?_)
    refine Ret.bind (fun plen _ => ?_)
    refine Ret.ite (fun _ => Ret.throw_bind) (fun hc => ?_)
    simp at hc
    refine Ret.bind (fun pv _ => ?_)
    refine Ret.ite (fun _ => ?_) (fun _ => ?_)
    · refine Ret.bind (fun cs _ => ?_)
      refine Ret.bind (fun p _ => ?_)
      refine Ret.bind (fun d' _ => ?_)
      refine Ret.bind (fun r hr => Ret.pure _ ?_)
      have := decOptParams_ret f _ d' r hr
      simp only [List.length_cons]; omega
    · refine Ret.bind (fun p _ => ?_)
      refine Ret.bind (fun d' _ => ?_)
      refine Ret.bind (fun r hr => Ret.pure _ ?_)
      have := decOptParams_ret f _ d' r hr
      simp only [List.length_cons]; omega

theorem decOptParams_count {f rest d ps} (h : decOptParams f rest d = .ok ps) : 2 * ps.length ≤ rest :=
  decOptParams_ret f rest d ps h

/-! ## fuel: every loop ends within its counter -/

theorem capTuples6_fuel2 : ∀ (f g n : Nat) (d : Bytes), n ≤ f → n ≤ g →
    capTuples6 f n d = capTuples6 g n d
  | 0, 0, _, _, _, _ => rfl
  | 0, g + 1, n, d, h1, _ => by
    have : n = 0 := by omega
    subst this; simp [capTuples6]
  | f + 1, 0, n, d, _, h2 => by
    have : n = 0 := by omega
    subst this; simp [capTuples6]
  | f + 1, g + 1, n, d, h1, h2 => by
    simp only [capTuples6]
    by_cases h6 : n < 6
    · rw [if_pos h6, if_pos h6]
    · rw [if_neg h6, if_neg h6]
      have ih : ∀ d', capTuples6 f (n - 6) d' = capTuples6 g (n - 6) d' :=
        fun d' => capTuples6_fuel2 f g (n - 6) d' (by omega) (by omega)
      simp only [ih]

theorem capTuples4_fuel2 : ∀ (f g n : Nat) (d : Bytes), n ≤ f → n ≤ g →
    capTuples4 f n d = capTuples4 g n d
  | 0, 0, _, _, _, _ => rfl
  | 0, g + 1, n, d, h1, _ => by
    have : n = 0 := by omega
    subst this; simp [capTuples4]
  | f + 1, 0, n, d, _, h2 => by
    have : n = 0 := by omega
    subst this; simp [capTuples4]
  | f + 1, g + 1, n, d, h1, h2 => by
    simp only [capTuples4]
    by_cases h4 : n < 4
    · rw [if_pos h4, if_pos h4]
    · rw [if_neg h4, if_neg h4]
      have ih : ∀ d', capTuples4 f (n - 4) d' = capTuples4 g (n - 4) d' :=
        fun d' => capTuples4_fuel2 f g (n - 4) d' (by omega) (by omega)
      simp only [ih]

theorem capTuples7_fuel2 : ∀ (f g n : Nat) (d : Bytes), n ≤ f → n ≤ g →
    capTuples7 f n d = capTuples7 g n d
  | 0, 0, _, _, _, _ => rfl
  | 0, g + 1, n, d, h1, _ => by
    have : n = 0 := by omega
    subst this; simp [capTuples7]
  | f + 1, 0, n, d, _, h2 => by
    have : n = 0 := by omega
    subst this; simp [capTuples7]
  | f + 1, g + 1, n, d, h1, h2 => by
    simp only [capTuples7]
    by_cases h7 : n < 7
    · rw [if_pos h7, if_pos h7]
    · rw [if_neg h7, if_neg h7]
      have ih : ∀ d', capTuples7 f (n - 7) d' = capTuples7 g (n - 7) d' :=
        fun d' => capTuples7_fuel2 f g (n - 7) d' (by omega) (by omega)
      simp only [ih]

theorem capTuples6_fuel (f n : Nat) (d : Bytes) (h : n ≤ f) : capTuples6 f n d = capTuples6 n n d :=
  capTuples6_fuel2 f n n d h (Nat.le_refl n)

theorem capTuples4_fuel (f n : Nat) (d : Bytes) (h : n ≤ f) : capTuples4 f n d = capTuples4 n n d :=
  capTuples4_fuel2 f n n d h (Nat.le_refl n)

theorem capTuples7_fuel (f n : Nat) (d : Bytes) (h : n ≤ f) : capTuples7 f n d = capTuples7 n n d :=
  capTuples7_fuel2 f n n d h (Nat.le_refl n)

theorem bind_congr_ok {α β : Type} {x : PM α} {f g : α → PM β}
    (h : ∀ a, x = .ok a → f a = g a) : x >>= f = x >>= g := by
  cases x with
  | error e => rfl
  | ok a => exact h a rfl

theorem sliceFrom_inv {d d' : Bytes} {a : Nat} (h : sliceFrom d a = .ok d') :
    a ≤ d.length ∧ d'.length = d.length - a := by
  unfold sliceFrom at h
  split at h
  · cases h; exact ⟨by assumption, by simp⟩
  · cases h

theorem decCaps_fuel2 : ∀ (f g : Nat) (d : Bytes), d.length ≤ f → d.length ≤ g →
    decCaps f d = decCaps g d
  | 0, 0, _, _, _ => rfl
  | 0, g + 1, d, h1, _ => by
    have : d.length < 2 := by omega
    simp [decCaps, this]
  | f + 1, 0, d, _, h2 => by
    have : d.length < 2 := by omega
    simp [decCaps, this]
  | f + 1, g + 1, d, h1, h2 => by
    simp only [decCaps]
    by_cases hl : d.length < 2
    · rw [if_pos hl, if_pos hl]
    · rw [if_neg hl, if_neg hl]
      refine bind_congr_ok (fun c _ => ?_)
      by_cases hc : (c.len + 2 = 0 || decide (d.length < c.len + 2)) = true
      · rw [if_pos hc, if_pos hc]; rfl
      · rw [if_neg hc, if_neg hc]
        refine bind_congr_ok (fun d' hd' => ?_)
        have := sliceFrom_inv hd'
        rw [decCaps_fuel2 f g d' (by omega) (by omega)]

theorem decCaps_fuel (f : Nat) (d : Bytes) (h : d.length ≤ f) : decCaps f d = decCaps d.length d :=
  decCaps_fuel2 f d.length d h (Nat.le_refl _)

theorem decOptParams_fuel2 : ∀ (f g rest : Nat) (d : Bytes), rest ≤ f → rest ≤ g →
    decOptParams f rest d = decOptParams g rest d
  | 0, 0, _, _, _, _ => rfl
  | 0, g + 1, rest, d, h1, _ => by
    have : rest = 0 := by omega
    subst this; simp [decOptParams]
  | f + 1, 0, rest, d, _, h2 => by
    have : rest = 0 := by omega
    subst this; simp [decOptParams]
  | f + 1, g + 1, rest, d, h1, h2 => by
    simp only [decOptParams]
    by_cases h0 : rest = 0
    · rw [if_pos h0, if_pos h0]
    rw [if_neg h0, if_neg h0]
    by_cases hl : rest < 2
    · rw [if_pos hl, if_pos hl]
    rw [if_neg hl, if_neg hl]
    refine bind_congr_ok (fun ptype _ => ?_)
    refine bind_congr_ok (fun plen _ => ?_)
    by_cases hc : (decide (plen ≥ 254) || decide (rest < plen + 2)) = true
    · rw [if_pos hc, if_pos hc]; rfl
    rw [if_neg hc, if_neg hc]
    simp at hc
    have ih : ∀ d', decOptParams f (rest - (plen + 2)) d' = decOptParams g (rest - (plen + 2)) d' :=
      fun d' => decOptParams_fuel2 f g _ d' (by omega) (by omega)
    simp only [ih]

theorem decOptParams_fuel (f rest : Nat) (d : Bytes) (h : rest ≤ f) :
    decOptParams f rest d = decOptParams rest rest d :=
  decOptParams_fuel2 f rest rest d h (Nat.le_refl _)

/-! ## non-vacuity -/

example : decCap [65, 4, 0, 1, 0, 0] = .ok ⟨65, 4, [65536]⟩ := rfl
example : decCap [1, 4, 0, 1, 0, 1] = .ok ⟨1, 4, [1, 1]⟩ := rfl
example : decCap [64, 1, 0] = .error .reject := rfl
example : decCap [73, 2, 5, 0] = .error .reject := rfl
example : decCap [69, 4, 0, 1, 1, 3] = .ok ⟨69, 4, [1, 1, 3]⟩ := rfl
example : decCap [5, 6, 0, 1, 0, 1, 0, 2] = .ok ⟨5, 6, [1, 1, 2]⟩ := rfl
example : decCap [71, 7, 0, 1, 1, 0, 0, 0, 10] = .ok ⟨71, 7, [1, 1, 0, 10]⟩ := rfl
example : decCap [73, 4, 1, 104, 1, 100] = .ok ⟨73, 4, [1, 104, 1, 100]⟩ := rfl
example : decCap [2, 0] = .ok ⟨2, 0, []⟩ := rfl
example : decCap [2] = .error .reject := rfl
example : decCaps 6 [1, 4, 0, 1, 0, 1] = .ok [⟨1, 4, [0 * 256 + 1, 1]⟩] := rfl
example : decOpen [4, 253, 232, 0, 90, 10, 0, 0, 1, 8, 2, 6, 1, 4, 0, 1, 0, 1] =
    .ok ⟨4, 65000, 90, 167772161, 8, [.caps 2 6 [⟨1, 4, [1, 1]⟩]]⟩ := rfl
-- optional-parameter length longer than what is there: rejected, not a panic
example : decOpen [4, 253, 232, 0, 90, 10, 0, 0, 1, 9, 2, 6, 1, 4, 0, 1, 0, 1] = .error .reject := rfl
-- parameter length overrunning the declared optional-parameter length
example : decOpen [4, 253, 232, 0, 90, 10, 0, 0, 1, 8, 2, 7, 1, 4, 0, 1, 0, 1] = .error .reject := rfl
example : parseOpen (marker ++ [0, 37, 1, 4, 253, 232, 0, 90, 10, 0, 0, 1, 8, 2, 6, 1, 4, 0, 1, 0, 1]) =
    .ok ⟨4, 65000, 90, 167772161, 8, [.caps 2 6 [⟨1, 4, [1, 1]⟩]]⟩ := rfl
-- the checked primitives do panic when used without a guard: the theorems are not vacuous
example : idx [1, 2] 2 = .error .panic := rfl
example : slice [1, 2, 3] 1 4 = .error .panic := rfl
example : capTuples6 1 6 [0, 1, 0, 1, 0] = .error .panic := rfl
example : decOptParams 2 2 [2] = .error .panic := rfl


end PTotO
