import Model.CommMatch
namespace CommMatch
open Regex

/-! ## A. the pattern loop -/

theorem evalLoop_any {α : Type} (opt : Nat) (h : opt ≠ 1) (hit : α → Bool) (ms : List α) :
    evalLoop opt hit ms false = ms.any hit := by
  induction ms with
  | nil => rfl
  | cons m ms ih =>
    have h1 : (opt == 1) = false := by simp [h]
    have h2 : (opt != 1) = true := by simp [h]
    cases hm : hit m <;> simp [evalLoop, hm, h1, h2, ih]

theorem evalLoop_all_true {α : Type} (hit : α → Bool) (ms : List α) :
    evalLoop 1 hit ms true = ms.all hit := by
  induction ms with
  | nil => rfl
  | cons m ms ih =>
    cases hm : hit m <;> simp [evalLoop, hm, ih]

theorem evalLoop_all {α : Type} (hit : α → Bool) (ms : List α) :
    evalLoop 1 hit ms false = (!ms.isEmpty && ms.all hit) := by
  cases ms with
  | nil => rfl
  | cons m ms =>
    cases hm : hit m <;> simp [evalLoop, hm, evalLoop_all_true]

/-! ## generic facts -/

theorem ite_eq_right (c a b : Bool) (h : c = true → a = b) : (if c = true then a else b) = b := by
  cases c
  · rfl
  · exact h rfl

theorem any_or_distrib {α : Type} (p q : α → Bool) (l : List α) :
    l.any (fun x => p x || q x) = (l.any p || l.any q) := by
  induction l with
  | nil => rfl
  | cons a l ih =>
    simp only [List.any_cons, ih]
    cases p a <;> cases q a <;> cases l.any p <;> cases l.any q <;> rfl

theorem any_and_const {α : Type} (b : Bool) (p : α → Bool) (l : List α) :
    l.any (fun x => b && p x) = (b && l.any p) := by
  induction l with
  | nil => cases b <;> rfl
  | cons a l ih =>
    simp only [List.any_cons, ih]
    cases b <;> cases p a <;> cases l.any p <;> rfl

theorem any_false {α : Type} (l : List α) : l.any (fun _ => false) = false := by
  induction l with
  | nil => rfl
  | cons a l ih => simp only [List.any_cons, ih]; rfl

theorem any_swap {α β : Type} (p : α → β → Bool) (ms : List α) (cs : List β) :
    ms.any (fun m => cs.any (p m)) = cs.any (fun c => ms.any (fun m => p m c)) := by
  induction ms with
  | nil => simp only [List.any_nil]; exact (any_false cs).symm
  | cons m ms ih =>
    simp only [List.any_cons, ih]
    exact (any_or_distrib (p m) (fun c => ms.any (fun m => p m c)) cs).symm

/-! ## B. standard communities -/

/-- well-formed compiled matcher: what `compile` always produces (not actually needed below) -/
def CM.WF (m : CM) : Prop :=
  (m.mode = 0 → m.exact < 65536 * 65536) ∧ (m.mode = 1 ∨ m.mode = 2 → m.asn < 65536)

/-- lookup in a per-AS bitmap slice -/
def asLook (es : List (Nat × (Nat → Bool))) (a l : Nat) : Bool :=
  es.any (fun e => e.1 == a && e.2 l)

theorem updAS_asLook (es : List (Nat × (Nat → Bool))) (asn : Nat) (h : Nat → Bool) (a l : Nat) :
    asLook (updAS es asn (fun f l => f l || h l)) a l = (asLook es a l || (asn == a && h l)) := by
  induction es with
  | nil => simp [updAS, asLook]
  | cons e rest ih =>
    simp only [updAS]
    split
    · rename_i he
      have he' : e.1 = asn := by simpa using he
      simp only [asLook, List.any_cons, he']
      cases (asn == a) <;> cases (e.2 l) <;> cases (h l) <;> simp
    · simp only [asLook, List.any_cons] at ih ⊢
      rw [ih, Bool.or_assoc]

theorem updAS_asLook_eq (es : List (Nat × (Nat → Bool))) (asn v a l : Nat) :
    asLook (updAS es asn (fun f l => f l || l == v)) a l
      = (asLook es a l || (asn == a && l == v)) :=
  updAS_asLook es asn (fun l => l == v) a l

theorem updAS_asLook_true (es : List (Nat × (Nat → Bool))) (asn a l : Nat) :
    asLook (updAS es asn (fun _ _ => true)) a l = (asLook es a l || asn == a) := by
  have e : (fun (_ : Nat → Bool) (_ : Nat) => true) = (fun f l => f l || (fun _ => true) l) := by
    funext f l; simp
  rw [e, updAS_asLook]; simp

theorem updAS_asLook_orBm (es : List (Nat × (Nat → Bool))) (asn : Nat) (b : Nat → Bool) (a l : Nat) :
    asLook (updAS es asn (fun f => orBm f b)) a l = (asLook es a l || (asn == a && b l)) :=
  updAS_asLook es asn b a l

theorem updAS_isEmpty (es : List (Nat × (Nat → Bool))) (asn : Nat) (g : (Nat → Bool) → (Nat → Bool)) :
    (updAS es asn g).isEmpty = false := by
  cases es with
  | nil => rfl
  | cons e rest => simp only [updAS]; split <;> rfl

theorem split_eq (c e : Nat) : (e / 65536 == c / 65536 && c % 65536 == e % 65536) = (c == e) := by
  rw [Bool.eq_iff_iff]
  simp only [Bool.and_eq_true, beq_iff_eq]
  omega

/-- what `matchesAny` tests for one community -/
def idxLook (idx : AnyIdx) (c : Nat) : Bool :=
  bmGet idx.indep (c % 65536) || asLook idx.perAS (c / 65536) (c % 65536)

theorem idxStep_hasRegexp (idx : AnyIdx) (m : CM) :
    (idxStep idx m).hasRegexp = (idx.hasRegexp || decide (4 ≤ m.mode)) := by
  rcases m with ⟨mode, li, asn, ex, bm⟩
  match mode with
  | 0 => simp [idxStep]
  | 1 => simp [idxStep]
  | 2 => simp [idxStep]
  | 3 => simp [idxStep]
  | n + 4 => simp [idxStep]

theorem foldl_idxStep_hasRegexp (ms : List CM) (idx : AnyIdx) :
    (ms.foldl idxStep idx).hasRegexp = (idx.hasRegexp || ms.any (fun m => decide (4 ≤ m.mode))) := by
  induction ms generalizing idx with
  | nil => simp
  | cons m ms ih => simp only [List.foldl_cons, ih, idxStep_hasRegexp, List.any_cons, Bool.or_assoc]

theorem buildIdx_hasRegexp (ms : List CM) :
    (buildIdx ms).hasRegexp = ms.any (fun m => decide (4 ≤ m.mode)) := by
  simp [buildIdx, foldl_idxStep_hasRegexp]

theorem modes_of_any_false (ms : List CM) (h : ms.any (fun m => decide (4 ≤ m.mode)) = false) :
    ∀ m ∈ ms, m.mode < 4 := by
  intro m hm
  rw [List.any_eq_false] at h
  have := h m hm
  simp at this
  omega

theorem idxStep_look (idx : AnyIdx) (m : CM) (pats : List Str) (c : Nat) (hm : m.mode < 4) :
    idxLook (idxStep idx m) c = (idxLook idx c || matchFast m pats c) := by
  rcases m with ⟨mode, li, asn, ex, bm⟩
  match mode, hm with
  | 0, _ =>
    simp only [idxStep, idxLook, matchFast, updAS_asLook_eq, split_eq, Bool.or_assoc]
  | 1, _ =>
    simp only [idxStep, idxLook, matchFast, updAS_asLook_true, Bool.or_assoc]
    rw [Bool.beq_comm]
  | 2, _ =>
    simp only [idxStep, idxLook, matchFast, updAS_asLook_orBm, Bool.or_assoc]
    rw [Bool.beq_comm]
  | 3, _ =>
    simp only [idxStep, idxLook, matchFast, bmGet, orBm]
    cases asLook idx.perAS (c / 65536) (c % 65536) <;> simp
  | n + 4, h => exact absurd h (by simp)

theorem foldl_idxStep_look (pats : List Str) (c : Nat) (ms : List CM) (idx : AnyIdx)
    (h : ∀ m ∈ ms, m.mode < 4) :
    idxLook (ms.foldl idxStep idx) c = (idxLook idx c || ms.any (fun m => matchFast m pats c)) := by
  induction ms generalizing idx with
  | nil => simp
  | cons m ms ih =>
    simp only [List.foldl_cons, List.any_cons]
    rw [ih _ (fun x hx => h x (List.mem_cons_of_mem _ hx)),
      idxStep_look idx m pats c (h m (List.mem_cons_self ..)), Bool.or_assoc]

theorem matchesAny_eq (idx : AnyIdx) (cs : List Nat) (h : idx.hasRegexp = false) :
    matchesAny idx cs = cs.any (idxLook idx) := by
  simp only [matchesAny, h]
  rfl

theorem matchesAny_buildIdx' (ms : List CM) (pats : List Str) (cs : List Nat)
    (hre : (buildIdx ms).hasRegexp = false) :
    matchesAny (buildIdx ms) cs = cs.any (fun c => ms.any (fun m => matchFast m pats c)) := by
  rw [matchesAny_eq _ _ hre]
  have hm := modes_of_any_false ms (by rw [← buildIdx_hasRegexp]; exact hre)
  congr 1
  funext c
  rw [buildIdx, foldl_idxStep_look pats c ms _ hm]
  simp [idxLook, bmGet, asLook]

set_option linter.unusedVariables false in
theorem matchesAny_buildIdx (ms : List CM) (pats : List Str) (cs : List Nat)
    (hwf : ∀ m ∈ ms, m.WF) (hre : (buildIdx ms).hasRegexp = false) :
    matchesAny (buildIdx ms) cs = cs.any (fun c => ms.any (fun m => matchFast m pats c)) :=
  matchesAny_buildIdx' ms pats cs hre

/-- emptiness flag of an index -/
def idxEmpty (idx : AnyIdx) : Bool := idx.perAS.isEmpty && idx.indep.isNone

theorem idxStep_empty (idx : AnyIdx) (m : CM) (hm : m.mode < 4) :
    idxEmpty (idxStep idx m) = false := by
  rcases m with ⟨mode, li, asn, ex, bm⟩
  match mode, hm with
  | 0, _ => simp [idxStep, idxEmpty, updAS_isEmpty]
  | 1, _ => simp [idxStep, idxEmpty, updAS_isEmpty]
  | 2, _ => simp [idxStep, idxEmpty, updAS_isEmpty]
  | 3, _ => simp [idxStep, idxEmpty]
  | n + 4, h => exact absurd h (by simp)

theorem foldl_idxStep_empty (ms : List CM) (idx : AnyIdx) (h : ∀ m ∈ ms, m.mode < 4) :
    idxEmpty (ms.foldl idxStep idx) = (idxEmpty idx && ms.isEmpty) := by
  induction ms generalizing idx with
  | nil => simp
  | cons m ms ih =>
    simp only [List.foldl_cons]
    rw [ih _ (fun x hx => h x (List.mem_cons_of_mem _ hx)),
      idxStep_empty idx m (h m (List.mem_cons_self ..))]
    simp

theorem buildIdx_empty_iff (ms : List CM) (hre : (buildIdx ms).hasRegexp = false) :
    ((buildIdx ms).perAS.isEmpty && (buildIdx ms).indep.isNone) = ms.isEmpty := by
  have hm := modes_of_any_false ms (by rw [← buildIdx_hasRegexp]; exact hre)
  have := foldl_idxStep_empty ms ⟨[], none, false⟩ hm
  simp only [idxEmpty] at this
  rw [buildIdx, this]
  simp

set_option linter.unusedVariables false in
theorem evaluate_eq_loop (opt : Nat) (list : List Str) (cs : List Nat)
    (hwf : ∀ m ∈ compileFrom 0 list, m.WF) :
    evaluate opt (CSet.build list) cs =
      finish opt (evalLoop opt (fun m => cs.any (fun y => matchFast m list y)) (compileFrom 0 list) false) := by
  simp only [evaluate, CSet.build]
  apply ite_eq_right
  · intro hc
    simp only [Bool.and_eq_true, Bool.or_eq_true, beq_iff_eq, Bool.not_eq_true'] at hc
    obtain ⟨⟨hopt, _⟩, hre⟩ := hc
    have hne : opt ≠ 1 := by omega
    rw [evalLoop_any opt hne, matchesAny_buildIdx' _ list cs hre]
    congr 1
    exact (any_swap (fun m y => matchFast m list y) (compileFrom 0 list) cs).symm

/-! ## C. extended communities -/

def XM.WF (m : XM) : Prop := (m.mode ≤ 3 → m.as < 65536)

theorem xidxStep_snd (st : List XIdx × Bool) (m : XM) :
    (xidxStep st m).2 = (st.2 || decide (4 ≤ m.mode)) := by
  rcases m with ⟨sub, mode, as, la, bm, re⟩
  match mode with
  | 0 => simp only [xidxStep]; split <;> simp
  | 1 => simp [xidxStep]
  | 2 => simp [xidxStep]
  | 3 => simp [xidxStep]
  | n + 4 => simp [xidxStep]

theorem foldl_xidxStep_snd (ms : List XM) (st : List XIdx × Bool) :
    (ms.foldl xidxStep st).2 = (st.2 || ms.any (fun m => decide (4 ≤ m.mode))) := by
  induction ms generalizing st with
  | nil => simp
  | cons m ms ih => simp only [List.foldl_cons, ih, xidxStep_snd, List.any_cons, Bool.or_assoc]

theorem buildXIdx_needSlow (ms : List XM) :
    (buildXIdx ms).2 = ms.any (fun m => decide (4 ≤ m.mode)) := by
  simp [buildXIdx, foldl_xidxStep_snd]

theorem xmodes_of_any_false (ms : List XM) (h : ms.any (fun m => decide (4 ≤ m.mode)) = false) :
    ∀ m ∈ ms, m.mode < 4 := by
  intro m hm
  rw [List.any_eq_false] at h
  have := h m hm
  simp at this
  omega

/-- a fresh per-subtype index -/
def xdef (sub : Nat) : XIdx := ⟨sub, [], none, [], []⟩

/-- the index entry of a subtype (a fresh one when there is none) -/
def xget (is : List XIdx) (sub : Nat) : XIdx :=
  (is.find? (fun e => e.sub == sub)).getD (xdef sub)

theorem matchTwo_def (e : XIdx) (a l : Nat) :
    matchTwo e a l =
      if e.asOnly.contains a then true
      else if l ≤ 65535 then bmGet e.global l || asLook e.perAS a l
      else e.highLA.contains (a, l) := rfl

theorem matchTwo_xdef (sub a l : Nat) : matchTwo (xdef sub) a l = false := by
  simp [matchTwo, xdef, bmGet]

theorem xLook_eq (is : List XIdx) (sub a l : Nat) :
    (match is.find? (fun e => e.sub == sub) with
      | some e => matchTwo e a l
      | none => false) = matchTwo (xget is sub) a l := by
  unfold xget
  cases is.find? (fun e => e.sub == sub) <;> simp [matchTwo_xdef]

theorem updSub_xget (is : List XIdx) (sub : Nat) (g : XIdx → XIdx) (hg : ∀ e, (g e).sub = e.sub)
    (s : Nat) :
    xget (updSub is sub g) s = if s = sub then g (xget is sub) else xget is s := by
  induction is with
  | nil =>
    by_cases hs : s = sub
    · subst hs
      simp [updSub, xget, hg, xdef]
    · have : ¬ sub = s := fun h => hs h.symm
      simp [updSub, xget, hg, xdef, hs, this]
  | cons e rest ih =>
    simp only [updSub]
    by_cases he : e.sub = sub
    · simp only [he, beq_self_eq_true, if_true]
      by_cases hs : s = sub
      · subst hs
        simp [xget, hg, he]
      · have : ¬ sub = s := fun h => hs h.symm
        simp [xget, hg, he, hs, this]
    · have he' : (e.sub == sub) = false := by simp [he]
      simp only [he', Bool.false_eq_true, if_false]
      by_cases hs : s = sub
      · subst hs
        simp only [if_true] at ih ⊢
        simp only [xget, List.find?_cons, he'] at ih ⊢
        exact ih
      · simp only [hs, if_false] at ih ⊢
        simp only [xget, List.find?_cons] at ih ⊢
        cases (e.sub == s)
        · exact ih
        · rfl

theorem matchTwo_perAS_eq (e : XIdx) (as la a l : Nat) (h : la ≤ 65535) :
    matchTwo { e with perAS := updAS e.perAS as (fun f l => f l || l == la) } a l
      = (matchTwo e a l || (a == as && l == la)) := by
  simp only [matchTwo_def, updAS_asLook_eq]
  cases e.asOnly.contains a
  case true => simp
  case false =>
    by_cases h2 : l ≤ 65535
    · simp only [h2, Bool.false_eq_true, if_false, if_true, Bool.or_assoc]
      rw [Bool.beq_comm (a := as)]
    · have : (l == la) = false := by simp; omega
      simp [h2, this]

theorem matchTwo_highLA (e : XIdx) (as la a l : Nat) (h : ¬ la ≤ 65535) :
    matchTwo { e with highLA := (as, la) :: e.highLA } a l
      = (matchTwo e a l || (a == as && l == la)) := by
  simp only [matchTwo_def]
  cases e.asOnly.contains a
  case true => simp
  case false =>
    by_cases h2 : l ≤ 65535
    · have : (l == la) = false := by simp; omega
      simp [h2, this]
    · simp only [h2, Bool.false_eq_true, if_false, List.contains_cons]
      rw [Bool.or_comm]
      rfl

theorem matchTwo_asOnly (e : XIdx) (as a l : Nat) :
    matchTwo { e with asOnly := as :: e.asOnly } a l = (matchTwo e a l || a == as) := by
  simp only [matchTwo_def, List.contains_cons]
  by_cases h0 : a = as
  · simp [h0]
  · have : (a == as) = false := by simp [h0]
    simp [this]

theorem matchTwo_perAS_bm (e : XIdx) (as : Nat) (b : Nat → Bool) (a l : Nat) :
    matchTwo { e with perAS := updAS e.perAS as (fun f => orBm f b) } a l
      = (matchTwo e a l || (a == as && decide (l ≤ 65535) && b l)) := by
  simp only [matchTwo_def, updAS_asLook_orBm]
  cases e.asOnly.contains a
  case true => simp
  case false =>
    by_cases h2 : l ≤ 65535
    · simp only [h2, Bool.false_eq_true, if_false, if_true, Bool.or_assoc, decide_true,
        Bool.and_true]
      rw [Bool.beq_comm (a := as)]
    · simp [h2]

theorem matchTwo_global (e : XIdx) (b : Nat → Bool) (a l : Nat) :
    matchTwo { e with global := some (orBm (bmGet e.global) b) } a l
      = (matchTwo e a l || (decide (l ≤ 65535) && b l)) := by
  simp only [matchTwo_def]
  cases e.asOnly.contains a
  case true => simp
  case false =>
    by_cases h2 : l ≤ 65535
    · simp only [h2, Bool.false_eq_true, if_false, if_true, decide_true, Bool.true_and,
        bmGet, orBm]
      cases asLook e.perAS a l <;> simp
    · simp [h2]

theorem xidxStep_look (st : List XIdx × Bool) (m : XM) (s a l : Nat) (t : Bool) (hm : m.mode < 4) :
    matchTwo (xget (xidxStep st m).1 s) a l
      = (matchTwo (xget st.1 s) a l || matchExt m (.two s t a l)) := by
  rcases m with ⟨sub, mode, as, la, bm, re⟩
  match mode, hm with
  | 0, _ =>
    simp only [xidxStep, matchExt]
    by_cases hla : la ≤ 65535
    · simp only [hla, if_true]
      rw [updSub_xget _ _ _ ?hg]; case hg => exact fun _ => rfl
      by_cases hs : s = sub
      · subst hs; simp only [if_true, matchTwo_perAS_eq _ _ _ _ _ hla]; simp
      · simp [hs]
    · simp only [hla, if_false]
      rw [updSub_xget _ _ _ ?hg]; case hg => exact fun _ => rfl
      by_cases hs : s = sub
      · subst hs; simp only [if_true, matchTwo_highLA _ _ _ _ _ hla]; simp
      · simp [hs]
  | 1, _ =>
    simp only [xidxStep, matchExt]
    rw [updSub_xget _ _ _ ?hg]; case hg => exact fun _ => rfl
    by_cases hs : s = sub
    · subst hs; simp only [if_true, matchTwo_asOnly]; simp
    · simp [hs]
  | 2, _ =>
    simp only [xidxStep, matchExt]
    rw [updSub_xget _ _ _ ?hg]; case hg => exact fun _ => rfl
    by_cases hs : s = sub
    · subst hs; simp only [if_true, matchTwo_perAS_bm]; simp
    · simp [hs]
  | 3, _ =>
    simp only [xidxStep, matchExt]
    rw [updSub_xget _ _ _ ?hg]; case hg => exact fun _ => rfl
    by_cases hs : s = sub
    · subst hs; simp only [if_true, matchTwo_global]; simp
    · simp [hs]
  | n + 4, h => exact absurd h (by simp)

theorem foldl_xidxStep_look (s a l : Nat) (t : Bool) (ms : List XM) (st : List XIdx × Bool)
    (h : ∀ m ∈ ms, m.mode < 4) :
    matchTwo (xget (ms.foldl xidxStep st).1 s) a l
      = (matchTwo (xget st.1 s) a l || ms.any (fun m => matchExt m (.two s t a l))) := by
  induction ms generalizing st with
  | nil => simp
  | cons m ms ih =>
    simp only [List.foldl_cons, List.any_cons]
    rw [ih _ (fun x hx => h x (List.mem_cons_of_mem _ hx)),
      xidxStep_look st m s a l t (h m (List.mem_cons_self ..)), Bool.or_assoc]

theorem matchExt_other (m : XM) (s : Nat) (t : Bool) (txt : Str) (hm : m.mode < 4) :
    matchExt m (.other s t txt) = false := by
  rcases m with ⟨sub, mode, as, la, bm, re⟩
  match mode, hm with
  | 0, _ => rfl
  | 1, _ => rfl
  | 2, _ => rfl
  | 3, _ => rfl
  | n + 4, h => exact absurd h (by simp)

theorem any_matchExt_other (ms : List XM) (s : Nat) (t : Bool) (txt : Str)
    (h : ∀ m ∈ ms, m.mode < 4) :
    ms.any (fun m => matchExt m (.other s t txt)) = false := by
  rw [List.any_eq_false]
  intro m hm
  simp [matchExt_other m s t txt (h m hm)]

/-- the index fast path for one extended community = some matcher matches it -/
theorem xfast_eq (ms : List XM) (x : EC) (hre : (buildXIdx ms).2 = false) :
    (x.trans &&
      match x with
      | .two sub _ a l =>
        match (buildXIdx ms).1.find? (fun e => e.sub == sub) with
        | some e => matchTwo e a l
        | none => false
      | _ => false) = ms.any (fun m => x.trans && matchExt m x) := by
  have hm := xmodes_of_any_false ms (by rw [← buildXIdx_needSlow]; exact hre)
  rw [any_and_const]
  congr 1
  cases x with
  | two s t a l =>
    simp only []
    rw [xLook_eq, buildXIdx, foldl_xidxStep_look s a l t ms _ hm]
    simp [xget, matchTwo_xdef]
  | other s t txt =>
    simp only []
    exact (any_matchExt_other ms s t txt hm).symm

theorem evaluateExt_eq_loop (opt : Nat) (list : List (Nat × Str)) (es : List EC) :
    evaluateExt opt (XSet.build list) es =
      finish opt (evalLoop opt (fun m => es.any (fun x => x.trans && matchExt m x))
        ((XSet.build list).matchers) false) := by
  simp only [evaluateExt, XSet.build]
  apply ite_eq_right
  · intro hc
    simp only [Bool.and_eq_true, Bool.or_eq_true, beq_iff_eq, Bool.not_eq_true'] at hc
    obtain ⟨⟨hopt, hre⟩, _⟩ := hc
    have hne : opt ≠ 1 := by omega
    rw [evalLoop_any opt hne]
    congr 1
    rw [any_swap (fun m x => x.trans && matchExt m x)]
    congr 1
    funext x
    exact xfast_eq _ x hre

end CommMatch
