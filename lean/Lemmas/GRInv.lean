import Model.GR
/-!
Whole-history invariant of the GR / LLGR model (`Model/GR.lean`), property C12.

`Inv p` is the deadline rule of the harness oracle as a predicate on the model state; `inv_step` shows it
is preserved by EVERY event (`GR.step`), `inv_run` lifts it to every history.  `tick_post` shows that
after any event no pending timer is overdue (the fuel of `advanceTo` is always sufficient).
Core Lean only.
-/
namespace GR

/-! ## the invariant -/

/-- everything except the "a stale route has a live reason to be there" clause -/
structure InvCore (p : Peer) : Prop where
  /-- every route is of a configured family -/
  wf : ∀ r ∈ p.rib, r.fam ∈ famIds p
  /-- the restart timer is not running while the session is established -/
  estT : p.est = true → p.restartAt = none
  /-- a running restart timer was armed at the recorded loss instant with the advertised restart time -/
  rst : ∀ D, p.restartAt = some D → ∃ t0, p.downtime = some t0 ∧ D = t0 + p.restartTime
  /-- a family whose LLGR timer is marked running has a pending LLGR timer -/
  llSync : ∀ a ∈ p.fams, a.llRunning = true → ∃ D, (a.id, D) ∈ p.llTimers
  /-- the long-lived period is running only while some LLGR timer is pending -/
  llNE : p.llRun = true → p.llTimers ≠ []
  /-- while the session is down every route held is stale (so a route that is not stale was announced
  in the current session) -/
  down : p.est = false → ∀ r ∈ p.rib, r.stale = true
  /-- LLGR_STALE is carried at most once, only by stale routes, only during the long-lived period, and
  such a route has a pending LLGR timer of its own family -/
  nll : ∀ r ∈ p.rib, r.nLL ≤ 1 ∧ (r.nLL = 1 → r.stale = true ∧ p.llRun = true ∧ ∃ D, (r.fam, D) ∈ p.llTimers)

/-- a stale route exists only while the peer is restarting -/
def StaleW (p : Peer) : Prop := ∀ r ∈ p.rib, r.stale = true → p.peerRestarting = true

/-- a stale route exists only while the peer is restarting AND something is still going to end it:
the session is up (End-of-RIB awaited), or the restart timer runs, or an LLGR timer runs -/
def StaleS (p : Peer) : Prop :=
  ∀ r ∈ p.rib, r.stale = true →
    p.peerRestarting = true ∧ (p.est = true ∨ p.restartAt ≠ none ∨ p.llTimers ≠ [])

structure Inv (p : Peer) : Prop where
  core : InvCore p
  stale : StaleS p

theorem StaleS.weak {p : Peer} (h : StaleS p) : StaleW p := fun r hr hs => (h r hr hs).1

/-! ## small helpers -/

/-- the part of a family record the invariant looks at -/
def fkey (a : Fam) : Nat × Bool := (a.id, a.llRunning)

theorem map_fkey_of (l : List Fam) (g : Fam → Fam) (hg : ∀ a, fkey (g a) = fkey a) :
    (l.map g).map fkey = l.map fkey := by
  rw [List.map_map]
  apply List.map_congr_left
  intro a _
  exact hg a

theorem ids_of_fkey {l l' : List Fam} (h : l'.map fkey = l.map fkey) :
    l'.map (·.id) = l.map (·.id) := by
  have := congrArg (List.map Prod.fst) h
  simpa [List.map_map, Function.comp_def, fkey] using this

theorem running_of_fkey {l l' : List Fam} (h : l'.map fkey = l.map fkey) :
    ∀ b ∈ l', b.llRunning = true → ∃ a ∈ l, a.id = b.id ∧ a.llRunning = true := by
  intro b hb hr
  have hm : fkey b ∈ l'.map fkey := List.mem_map.mpr ⟨b, hb, rfl⟩
  rw [h, List.mem_map] at hm
  obtain ⟨a, ha, hk⟩ := hm
  have h1 : a.id = b.id := congrArg Prod.fst hk
  have h2 : a.llRunning = b.llRunning := congrArg Prod.snd hk
  exact ⟨a, ha, h1, by rw [h2, hr]⟩

theorem dropFams_all_nil (p : Peer) (hwf : ∀ r ∈ p.rib, r.fam ∈ famIds p) :
    dropFams (famIds p) p.rib = [] := by
  simp only [dropFams]
  rw [List.filter_eq_nil_iff]
  intro r hr
  simp [hwf r hr]

/-! ## transfer lemmas: a state that differs only in fields the invariant does not read, or holds fewer routes -/

theorem core_transfer (p p' : Peer) (h : InvCore p)
    (hsub : ∀ r ∈ p'.rib, r ∈ p.rib) (hest : p'.est = p.est) (hra : p'.restartAt = p.restartAt)
    (hdt : p'.downtime = p.downtime) (hrt : p'.restartTime = p.restartTime)
    (hll : p'.llTimers = p.llTimers) (hlr : p'.llRun = p.llRun)
    (hf : p'.fams.map fkey = p.fams.map fkey) : InvCore p' := by
  have hids : famIds p' = famIds p := ids_of_fkey hf
  refine ⟨?_, ?_, ?_, ?_, ?_, ?_, ?_⟩
  · intro r hr; rw [hids]; exact h.wf r (hsub r hr)
  · intro he; rw [hra]; exact h.estT (hest ▸ he)
  · intro D hD; rw [hdt, hrt]; exact h.rst D (hra ▸ hD)
  · intro b hb hr
    obtain ⟨a, ha, h1, h2⟩ := running_of_fkey hf b hb hr
    obtain ⟨D, hD⟩ := h.llSync a ha h2
    exact ⟨D, by rw [hll, ← h1]; exact hD⟩
  · intro hl; rw [hll]; exact h.llNE (hlr ▸ hl)
  · intro he r hr; exact h.down (hest ▸ he) r (hsub r hr)
  · intro r hr
    obtain ⟨h1, h2⟩ := h.nll r (hsub r hr)
    refine ⟨h1, fun h3 => ?_⟩
    obtain ⟨h4, h5, h6⟩ := h2 h3
    exact ⟨h4, hlr ▸ h5, hll ▸ h6⟩

theorem staleS_transfer (p p' : Peer) (h : StaleS p)
    (hsub : ∀ r ∈ p'.rib, r ∈ p.rib) (hest : p'.est = p.est) (hra : p'.restartAt = p.restartAt)
    (hll : p'.llTimers = p.llTimers) (hpr : p'.peerRestarting = p.peerRestarting) : StaleS p' := by
  intro r hr hs
  rw [hpr, hest, hra, hll]
  exact h r (hsub r hr) hs

theorem inv_transfer (p p' : Peer) (h : Inv p)
    (hsub : ∀ r ∈ p'.rib, r ∈ p.rib) (hest : p'.est = p.est) (hra : p'.restartAt = p.restartAt)
    (hdt : p'.downtime = p.downtime) (hrt : p'.restartTime = p.restartTime)
    (hll : p'.llTimers = p.llTimers) (hlr : p'.llRun = p.llRun)
    (hpr : p'.peerRestarting = p.peerRestarting)
    (hf : p'.fams.map fkey = p.fams.map fkey) : Inv p' :=
  ⟨core_transfer p p' h.core hsub hest hra hdt hrt hll hlr hf,
   staleS_transfer p p' h.stale hsub hest hra hll hpr⟩

/-- the end of a restart: `stopPeerRestarting` together with `DropStale(all)` -/
theorem inv_stop_dropStale' (p : Peer)
    (wf : ∀ r ∈ p.rib, r.fam ∈ famIds p)
    (estT : p.est = true → p.restartAt = none)
    (rst : ∀ D, p.restartAt = some D → ∃ t0, p.downtime = some t0 ∧ D = t0 + p.restartTime)
    (down : p.est = false → ∀ r ∈ p.rib, r.stale = true)
    (nll : ∀ r ∈ p.rib, r.nLL ≤ 1 ∧ (r.nLL = 1 → r.stale = true)) :
    Inv { stopPeerRestarting p with rib := dropStale (stopPeerRestarting p).rib } := by
  have hmem : ∀ r ∈ dropStale (stopPeerRestarting p).rib, r ∈ p.rib ∧ r.stale = false := by
    intro r hr
    simp only [dropStale, stopPeerRestarting, List.mem_filter] at hr
    exact ⟨hr.1, by simpa using hr.2⟩
  have hids : famIds { stopPeerRestarting p with rib := dropStale (stopPeerRestarting p).rib } = famIds p := by
    simp [famIds, stopPeerRestarting, List.map_map, Function.comp_def]
  refine ⟨⟨?_, estT, rst, ?_, ?_, ?_, ?_⟩, ?_⟩
  · intro r hr; rw [hids]; exact wf r (hmem r hr).1
  · intro a ha hr
    simp only [stopPeerRestarting, List.mem_map] at ha
    obtain ⟨b, _, rfl⟩ := ha
    simp at hr
  · intro hl; simp [stopPeerRestarting] at hl
  · intro he r hr
    have h1 := hmem r hr
    have := down he r h1.1
    rw [h1.2] at this; exact absurd this (by simp)
  · intro r hr
    have h1 := hmem r hr
    obtain ⟨h2, h3⟩ := nll r h1.1
    refine ⟨h2, fun h4 => ?_⟩
    have := h3 h4
    rw [h1.2] at this; exact absurd this (by simp)
  · intro r hr hs
    have h1 := hmem r hr
    rw [h1.2] at hs; exact absurd hs (by simp)

theorem inv_stop_dropStale (p : Peer) (h : InvCore p) :
    Inv { stopPeerRestarting p with rib := dropStale (stopPeerRestarting p).rib } :=
  inv_stop_dropStale' p h.wf h.estT h.rst h.down (fun r hr => ⟨(h.nll r hr).1, fun h1 => ((h.nll r hr).2 h1).1⟩)

/-- a state without routes satisfies the route clauses trivially -/
theorem inv_of_nil (p' : Peer) (hrib : p'.rib = [])
    (estT : p'.est = true → p'.restartAt = none)
    (rst : ∀ D, p'.restartAt = some D → ∃ t0, p'.downtime = some t0 ∧ D = t0 + p'.restartTime)
    (llSync : ∀ a ∈ p'.fams, a.llRunning = true → ∃ D, (a.id, D) ∈ p'.llTimers)
    (llNE : p'.llRun = true → p'.llTimers ≠ []) : Inv p' := by
  refine ⟨⟨?_, estT, rst, llSync, llNE, ?_, ?_⟩, ?_⟩ <;> intro <;> simp_all

/-! ## events of an established session: announce, withdraw, End-of-RIB -/

theorem inv_rib_sub (p : Peer) (rib' : List Route) (h : Inv p) (hsub : ∀ r ∈ rib', r ∈ p.rib) :
    Inv { p with rib := rib' } :=
  ⟨⟨fun r hr => h.core.wf r (hsub r hr), h.core.estT, h.core.rst, h.core.llSync, h.core.llNE,
    fun he r hr => h.core.down he r (hsub r hr), fun r hr => h.core.nll r (hsub r hr)⟩,
   fun r hr hs => h.stale r (hsub r hr) hs⟩

theorem inv_announce (p : Peer) (fam key ver : Nat) (noLL rej : Bool) (h : Inv p) :
    Inv (onAnnounce p fam key ver noLL 0 rej) := by
  unfold onAnnounce
  split
  · exact h
  · rename_i hg
    have he : p.est = true := by
      cases hp : p.est <;> simp_all
    have hf : fam ∈ famIds p := by
      cases hp : (famIds p).contains fam
      · simp_all
      · simpa using hp
    have hmem : ∀ r ∈ announce p.rib fam key ver noLL 0 rej,
        r ∈ p.rib ∨ r = ⟨fam, key, ver, false, 0, noLL, rej⟩ := by
      intro r hr
      simp only [announce, List.mem_append, List.mem_filter, List.mem_singleton] at hr
      rcases hr with hr | hr
      · exact Or.inl hr.1
      · exact Or.inr hr
    refine ⟨⟨?_, h.core.estT, h.core.rst, h.core.llSync, h.core.llNE, ?_, ?_⟩, ?_⟩
    · intro r hr
      rcases hmem r hr with h1 | h1
      · exact h.core.wf r h1
      · subst h1; exact hf
    · intro hd
      exact absurd he (by simp [show p.est = false from hd])
    · intro r hr
      rcases hmem r hr with h1 | h1
      · exact h.core.nll r h1
      · subst h1; exact ⟨by simp, by simp⟩
    · intro r hr hs
      rcases hmem r hr with h1 | h1
      · exact h.stale r h1 hs
      · subst h1; simp at hs

theorem inv_withdraw (p : Peer) (fam key : Nat) (h : Inv p) : Inv (onWithdraw p fam key) := by
  unfold onWithdraw
  split
  · exact h
  · apply inv_rib_sub p _ h
    intro r hr
    simp only [withdraw, List.mem_filter] at hr
    exact hr.1

theorem inv_markEOR (p : Peer) (f : Nat) (h : Inv p) : Inv (markEOR p f) :=
  inv_transfer p _ h (fun _ hr => hr) rfl rfl rfl rfl rfl rfl rfl
    (map_fkey_of _ _ (fun a => by by_cases hc : (a.id == f) = true <;> simp [fkey, hc]))

theorem inv_eorLocal (p p1 : Peer) (h : Inv p1) : Inv (eorLocal p p1) := by
  unfold eorLocal
  split
  · exact inv_transfer p1 _ h (fun _ hr => hr) rfl rfl rfl rfl rfl rfl rfl rfl
  · exact h

theorem inv_eorPeer (q : Peer) (h : Inv q) : Inv (eorPeer q) := by
  unfold eorPeer
  split
  · split
    · exact inv_stop_dropStale q h.core
    · exact h
  · exact h

theorem inv_onEOR (p : Peer) (f : Nat) (h : Inv p) : Inv (onEOR p f) := by
  unfold onEOR
  split
  · exact h
  · exact inv_eorPeer _ (inv_eorLocal _ _ (inv_markEOR p f h))

/-! ## session loss -/

theorem famIds_stop (p : Peer) : famIds (stopPeerRestarting p) = famIds p := by
  simp [famIds, stopPeerRestarting, List.map_map, Function.comp_def]

theorem inv_peerDown_hard (p : Peer) (h : Inv p) (he : p.est = true) : Inv (peerDown p false) := by
  have hra : p.restartAt = none := h.core.estT he
  apply inv_of_nil
  · simp only [peerDown, Bool.false_eq_true, if_false]
    apply dropFams_all_nil
    intro r hr
    rw [famIds_stop]
    exact h.core.wf r hr
  · intro h1; simp [peerDown] at h1
  · intro D hD
    simp only [peerDown, Bool.false_eq_true, if_false, stopPeerRestarting] at hD
    rw [hra] at hD; exact absurd hD (by simp)
  · intro a ha hr
    simp only [peerDown, Bool.false_eq_true, if_false, stopPeerRestarting, List.mem_map] at ha
    obtain ⟨b, ⟨c, _, rfl⟩, rfl⟩ := ha
    simp at hr
  · intro hl; simp [peerDown, stopPeerRestarting] at hl

theorem mem_peerDown_graceful (p : Peer) (r' : Route) (hwf : ∀ r ∈ p.rib, r.fam ∈ famIds p)
    (hr : r' ∈ (peerDown p true).rib) :
    ∃ r ∈ p.rib, r' = { r with stale := true } := by
  have hg : grFams { p with peerRestarting := true } = grFams p := rfl
  have hf : famIds { p with peerRestarting := true } = famIds p := rfl
  simp only [peerDown, dropFams, staleAll, hg, hf, if_true] at hr
  rw [List.mem_filter, List.mem_map] at hr
  obtain ⟨⟨r0, hr0, rfl⟩, hkeep⟩ := hr
  refine ⟨r0, hr0, ?_⟩
  by_cases hc : r0.fam ∈ grFams p
  · simp [hc]
  · exfalso
    have hw := hwf r0 hr0
    simp [hc, hw] at hkeep

theorem inv_peerDown_graceful (p : Peer) (h : Inv p) :
    Inv (peerDown { p with restartAt := some (p.now + p.restartTime) } true) := by
  let q : Peer := { p with restartAt := some (p.now + p.restartTime) }
  have hmem := fun r' hr => mem_peerDown_graceful q r' h.core.wf hr
  have hfk : (peerDown q true).fams.map fkey = p.fams.map fkey := by
    simp only [peerDown, if_true]
    exact map_fkey_of _ _ (fun a => rfl)
  have hids : famIds (peerDown q true) = famIds p := ids_of_fkey hfk
  refine ⟨⟨?_, ?_, ?_, ?_, ?_, ?_, ?_⟩, ?_⟩
  · intro r' hr
    obtain ⟨r, hr0, rfl⟩ := hmem r' hr
    rw [hids]; exact h.core.wf r hr0
  · intro h1; simp [peerDown] at h1
  · intro D hD
    refine ⟨p.now, rfl, ?_⟩
    simp only [peerDown, if_true] at hD
    exact (Option.some.inj hD).symm
  · intro b hb hr
    obtain ⟨a, ha, h1, h2⟩ := running_of_fkey hfk b hb hr
    obtain ⟨D, hD⟩ := h.core.llSync a ha h2
    exact ⟨D, by rw [← h1]; exact hD⟩
  · exact h.core.llNE
  · intro _ r' hr
    obtain ⟨r, _, rfl⟩ := hmem r' hr
    rfl
  · intro r' hr
    obtain ⟨r, hr0, rfl⟩ := hmem r' hr
    obtain ⟨h1, h2⟩ := h.core.nll r hr0
    exact ⟨h1, fun h3 => ⟨rfl, (h2 h3).2⟩⟩
  · intro r' _ _
    exact ⟨rfl, Or.inr (Or.inl (by simp [peerDown]))⟩

theorem inv_onDown (p : Peer) (g : Bool) (h : Inv p) : Inv (onDown p g) := by
  unfold onDown
  split
  · exact h
  · rename_i he
    have he' : p.est = true := by simpa using he
    cases g
    · have : onStateChange p .idle false = peerDown p false := by
        simp [onStateChange, he']
      simp only [Bool.false_eq_true, if_false]
      rw [this]
      exact inv_peerDown_hard p h he'
    · have : onStateChange { p with restartAt := some (p.now + p.restartTime) } .idle true =
          peerDown { p with restartAt := some (p.now + p.restartTime) } true := by
        simp [onStateChange, he']
      simp only [if_true]
      rw [this]
      exact inv_peerDown_graceful p h

/-! ## the restart timer expires / administrative shutdown while down: `idlePurge` -/

def LLSyncP (q : Peer) : Prop := ∀ a ∈ q.fams, a.llRunning = true → ∃ D, (a.id, D) ∈ q.llTimers

/-- what folding `startLL` over a list of families keeps and adds -/
structure FoldP (q q' : Peer) : Prop where
  rib : q'.rib = q.rib
  est : q'.est = q.est
  pr : q'.peerRestarting = q.peerRestarting
  llRun : q'.llRun = q.llRun
  ra : q'.restartAt = q.restartAt
  dt : q'.downtime = q.downtime
  rt : q'.restartTime = q.restartTime
  now : q'.now = q.now
  dts : q'.defTimers = q.defTimers
  ids : famIds q' = famIds q
  old : ∀ t ∈ q.llTimers, t ∈ q'.llTimers
  sync : LLSyncP q → LLSyncP q'

theorem foldP_refl (q : Peer) : FoldP q q :=
  ⟨rfl, rfl, rfl, rfl, rfl, rfl, rfl, rfl, rfl, rfl, fun _ h => h, fun h => h⟩

theorem foldP_trans {a b c : Peer} (h1 : FoldP a b) (h2 : FoldP b c) : FoldP a c :=
  ⟨h2.rib.trans h1.rib, h2.est.trans h1.est, h2.pr.trans h1.pr, h2.llRun.trans h1.llRun, h2.ra.trans h1.ra,
   h2.dt.trans h1.dt, h2.rt.trans h1.rt, h2.now.trans h1.now, h2.dts.trans h1.dts, h2.ids.trans h1.ids,
   fun t ht => h2.old t (h1.old t ht), fun h => h2.sync (h1.sync h)⟩

theorem foldP_startLL (q : Peer) (f : Nat) : FoldP q (startLL q f) := by
  refine ⟨rfl, rfl, rfl, rfl, rfl, rfl, rfl, rfl, rfl, ?_, ?_, ?_⟩
  · simp only [famIds, startLL, List.map_map]
    apply List.map_congr_left
    intro a _
    show (if (a.id == f) = true then _ else a).id = a.id
    split <;> rfl
  · intro t ht
    simp only [startLL, List.mem_append]
    exact Or.inl ht
  · intro hs b hb hr
    simp only [startLL, List.mem_map] at hb
    obtain ⟨a, ha, rfl⟩ := hb
    by_cases hc : (a.id == f) = true
    · simp only [hc, if_true]
      refine ⟨q.now + ((q.fams.find? (·.id == f)).map (·.llTime)).getD 0, ?_⟩
      simp only [startLL, List.mem_append, List.mem_singleton]
      right
      have : a.id = f := by simpa using hc
      rw [this]
    · simp only [hc, Bool.false_eq_true, if_false] at hr ⊢
      obtain ⟨D, hD⟩ := hs a ha hr
      exact ⟨D, by simp only [startLL, List.mem_append]; exact Or.inl hD⟩

theorem startLL_new (q : Peer) (f : Nat) : ∃ D, (f, D) ∈ (startLL q f).llTimers :=
  ⟨_, by simp only [startLL, List.mem_append, List.mem_singleton]; exact Or.inr rfl⟩

theorem foldP_foldl (ll : List Nat) : ∀ q : Peer, FoldP q (ll.foldl startLL q) ∧
    ∀ f ∈ ll, ∃ D, (f, D) ∈ (ll.foldl startLL q).llTimers := by
  induction ll with
  | nil => intro q; exact ⟨foldP_refl q, fun f hf => absurd hf (by simp)⟩
  | cons a t ih =>
    intro q
    simp only [List.foldl_cons]
    obtain ⟨h1, h2⟩ := ih (startLL q a)
    refine ⟨foldP_trans (foldP_startLL q a) h1, ?_⟩
    intro f hf
    rcases List.mem_cons.mp hf with rfl | hf
    · obtain ⟨D, hD⟩ := startLL_new q f
      exact ⟨D, h1.old _ hD⟩
    · exact h2 f hf

theorem mem_markLLGR (ids ll : List Nat) (rib : List Route) (hwf : ∀ r ∈ rib, r.fam ∈ ids) (r' : Route)
    (hr : r' ∈ markLLGR ll (dropFams (ids.filter (fun f => !ll.contains f)) rib)) :
    ∃ r ∈ rib, r.fam ∈ ll ∧ r' = { r with nLL := r.nLL + 1 } := by
  simp only [markLLGR, dropFams, List.mem_map, List.mem_filter] at hr
  obtain ⟨r, ⟨⟨hr0, hkeep⟩, _⟩, rfl⟩ := hr
  have hc : r.fam ∈ ll := by
    by_cases hc : r.fam ∈ ll
    · exact hc
    · exfalso
      have hw := hwf r hr0
      simp [hc, hw] at hkeep
  exact ⟨r, hr0, hc, by simp [hc]⟩

/-- the state in which the long-lived period starts, before the timers are started -/
def llStart (p : Peer) : Peer :=
  { p with llRun := true, rib := markLLGR (llFams p) (dropFams ((famIds p).filter (fun f => !(llFams p).contains f)) p.rib) }

theorem idlePurge_ll_empty (p : Peer) (hc : (p.longLived && !p.llRun) = true) (he : (llFams p).isEmpty = true) :
    idlePurge p = stopPeerRestarting (llStart p) := by
  simp only [idlePurge, hc, he, ↓reduceIte, llStart, Bool.false_eq_true, if_false, if_true]

theorem idlePurge_ll_start (p : Peer) (hc : (p.longLived && !p.llRun) = true) (he : ¬ (llFams p).isEmpty = true) :
    idlePurge p = (llFams p).foldl startLL (llStart p) := by
  simp only [idlePurge, hc, he, ↓reduceIte, llStart, Bool.false_eq_true, if_false, if_true]

theorem idlePurge_no_ll (p : Peer) (hc : ¬ (p.longLived && !p.llRun) = true) (hl : (!p.longLived) = true) :
    idlePurge p = { p with peerRestarting := false, fams := p.fams.map (fun f => { f with running := false }),
                           rib := dropFams (famIds p) p.rib } := by
  simp only [idlePurge, hc, hl, ↓reduceIte, Bool.false_eq_true, if_false, if_true]

theorem idlePurge_running (p : Peer) (hc : ¬ (p.longLived && !p.llRun) = true) (hl : ¬ (!p.longLived) = true) :
    idlePurge p = p := by
  simp only [idlePurge, hc, hl, ↓reduceIte, Bool.false_eq_true, if_false, if_true]

theorem inv_idlePurge (p : Peer) (h : InvCore p) (hs : StaleW p) (he : p.est = false) :
    Inv (idlePurge p) := by
  by_cases hc : (p.longLived && !p.llRun) = true
  · have hrun : p.llRun = false := by
      cases hp : p.llRun <;> simp_all
    by_cases hempty : (llFams p).isEmpty = true
    · -- LLGR covers no family: nothing is retained
      rw [idlePurge_ll_empty p hc hempty]
      have hll : llFams p = [] := by simpa using hempty
      apply inv_of_nil
      · simp [stopPeerRestarting, llStart, hll, markLLGR, dropFams]
        exact h.wf
      · intro h1; simp [stopPeerRestarting, llStart, he] at h1
      · exact h.rst
      · intro a ha hr
        simp only [stopPeerRestarting, List.mem_map] at ha
        obtain ⟨b, _, rfl⟩ := ha
        simp at hr
      · intro hl; simp [stopPeerRestarting] at hl
    · rw [idlePurge_ll_start p hc hempty]
      obtain ⟨hf, hnew⟩ := foldP_foldl (llFams p) (llStart p)
      have hmem : ∀ r' ∈ (llStart p).rib, ∃ r ∈ p.rib, r.fam ∈ llFams p ∧ r' = { r with nLL := r.nLL + 1 } :=
        fun r' hr => mem_markLLGR (famIds p) (llFams p) p.rib h.wf r' hr
      have hnonempty : ((llFams p).foldl startLL (llStart p)).llTimers ≠ [] := by
        cases hl : llFams p with
        | nil => simp [hl] at hempty
        | cons a t =>
          obtain ⟨D, hD⟩ := hnew a (by simp [hl])
          intro hnil
          rw [hl] at hD
          rw [hnil] at hD
          exact absurd hD (by simp)
      refine ⟨⟨?_, ?_, ?_, ?_, ?_, ?_, ?_⟩, ?_⟩
      · intro r' hr
        rw [hf.rib] at hr
        obtain ⟨r, hr0, _, rfl⟩ := hmem r' hr
        rw [hf.ids]; exact h.wf r hr0
      · intro h1; rw [hf.est] at h1; exact absurd h1 (by simp [llStart, he])
      · intro D hD
        rw [hf.ra] at hD; rw [hf.dt, hf.rt]
        exact h.rst D hD
      · exact hf.sync h.llSync
      · intro _; exact hnonempty
      · intro _ r' hr
        rw [hf.rib] at hr
        obtain ⟨r, hr0, _, rfl⟩ := hmem r' hr
        exact h.down he r hr0
      · intro r' hr
        rw [hf.rib] at hr
        obtain ⟨r, hr0, hfam, rfl⟩ := hmem r' hr
        obtain ⟨h1, h2⟩ := h.nll r hr0
        have h0 : r.nLL = 0 := by
          rcases Nat.lt_or_ge r.nLL 1 with h3 | h3
          · omega
          · have : r.nLL = 1 := by omega
            have := (h2 this).2.1
            rw [hrun] at this; exact absurd this (by simp)
        refine ⟨by simp [h0], fun _ => ⟨h.down he r hr0, by rw [hf.llRun]; rfl, hnew r.fam hfam⟩⟩
      · intro r' hr hst
        rw [hf.rib] at hr
        obtain ⟨r, hr0, _, rfl⟩ := hmem r' hr
        refine ⟨?_, Or.inr (Or.inr hnonempty)⟩
        rw [hf.pr]
        exact hs r hr0 hst
  · by_cases hl : (!p.longLived) = true
    · -- no LLGR: everything goes
      rw [idlePurge_no_ll p hc hl]
      apply inv_of_nil
      · exact dropFams_all_nil p h.wf
      · intro h1; exact absurd h1 (by simp [he])
      · exact h.rst
      · intro b hb hr
        have hfk : (p.fams.map (fun f => { f with running := false })).map fkey = p.fams.map fkey :=
          map_fkey_of _ _ (fun a => rfl)
        obtain ⟨a, ha, h1, h2⟩ := running_of_fkey hfk b hb hr
        obtain ⟨D, hD⟩ := h.llSync a ha h2
        exact ⟨D, by rw [← h1]; exact hD⟩
      · exact h.llNE
    · -- the long-lived period is already running: nothing changes
      rw [idlePurge_running p hc hl]
      have hrun : p.llRun = true := by
        cases hp : p.llRun <;> cases hq : p.longLived <;> simp_all
      exact ⟨h, fun r hr hst => ⟨hs r hr hst, Or.inr (Or.inr (h.llNE hrun))⟩⟩

/-! ## FSM transitions below ESTABLISHED, the restart timer -/

theorem onStateChange_down (p : Peer) (n : Next) (g ad : Bool) (he : p.est = false) (hn : n ≠ .established) :
    onStateChange p n g ad = if (p.peerRestarting && n == .idle && ad) = true then idlePurge p else p := by
  cases n <;> simp_all [onStateChange]

theorem inv_goto (p : Peer) (n : Next) (ad : Bool) (h : Inv p) : Inv (stepRaw p (.goto n ad)) := by
  simp only [stepRaw]
  split
  · exact h
  · rename_i hc
    have he : p.est = false := by cases hp : p.est <;> simp_all
    have hn : n ≠ .established := by
      intro hn; subst hn; simp at hc
    rw [onStateChange_down p n false ad he hn]
    split
    · exact inv_idlePurge p h.core h.stale.weak he
    · exact h

theorem onRestartExpire_eq (p : Peer) :
    onRestartExpire p =
      if p.est = true then { p with restartAt := none }
      else if p.peerRestarting = true then onStateChange { p with restartAt := none } .idle false true
      else { p with restartAt := none } := rfl

theorem inv_onRestartExpire (p : Peer) (h : Inv p) : Inv (onRestartExpire p) := by
  rw [onRestartExpire_eq]
  have hcore : InvCore { p with restartAt := none } :=
    ⟨h.core.wf, fun _ => rfl, fun D hD => absurd hD (by simp), h.core.llSync, h.core.llNE, h.core.down, h.core.nll⟩
  have hw : StaleW { p with restartAt := none } := h.stale.weak
  split
  · -- defensive branch: the timer is not running while established
    rename_i he
    have hra : p.restartAt = none := h.core.estT he
    exact inv_transfer p _ h (fun _ hr => hr) rfl hra.symm rfl rfl rfl rfl rfl rfl
  · rename_i he
    have he' : p.est = false := by simpa using he
    split
    · rename_i hpr
      rw [onStateChange_down ({ p with restartAt := none } : Peer) .idle false true he' (by simp)]
      have : (({ p with restartAt := none } : Peer).peerRestarting && Next.idle == Next.idle && true) = true := by
        simp [hpr]
      rw [if_pos this]
      exact inv_idlePurge _ hcore hw he'
    · rename_i hpr
      refine ⟨hcore, ?_⟩
      intro r hr hs
      exact absurd (hw r hr hs) hpr

theorem onDeferralExpire_ind (P : Peer → Prop) (p : Peer) (dt : Nat) (h1 : P p)
    (h2 : P { p with localRestarting := false }) : P (onDeferralExpire p dt) := by
  simp only [onDeferralExpire]
  repeat' (first | exact h1 | exact h2 | split)

theorem inv_onDeferralExpire (p : Peer) (dt : Nat) (h : Inv p) : Inv (onDeferralExpire p dt) :=
  onDeferralExpire_ind Inv p dt h
    (inv_transfer p _ h (fun _ hr => hr) rfl rfl rfl rfl rfl rfl rfl rfl)

/-! ## an LLGR timer expires -/

/-- `onLLExpire` before the "was it the last one" test -/
def llExpired1 (p : Peer) (f : Nat) : Peer :=
  { p with rib := dropStaleFam f p.rib, fams := p.fams.map (fun a => if a.id == f then { a with llExpired := true, llRunning := false } else a), llTimers := p.llTimers.filter (fun t => t.1 != f) }

theorem onLLExpire_eq (p : Peer) (f : Nat) :
    onLLExpire p f =
      if p.fams.all (fun a => a.id == f || !a.llRunning) = true then
        { stopPeerRestarting (llExpired1 p f) with rib := dropStale (stopPeerRestarting (llExpired1 p f)).rib }
      else llExpired1 p f := rfl

theorem inv_onLLExpire (p : Peer) (f : Nat) (h : Inv p) : Inv (onLLExpire p f) := by
  rw [onLLExpire_eq]
  have hsub : ∀ r ∈ (llExpired1 p f).rib, r ∈ p.rib ∧ ¬ (r.fam = f ∧ r.stale = true) := by
    intro r hr
    simp only [llExpired1, dropStaleFam, List.mem_filter] at hr
    refine ⟨hr.1, ?_⟩
    intro ⟨h1, h2⟩
    simp [h1, h2] at hr
  have hids : famIds (llExpired1 p f) = famIds p := by
    simp only [famIds, llExpired1, List.map_map]
    apply List.map_congr_left
    intro a _
    show (if (a.id == f) = true then _ else a).id = a.id
    split <;> rfl
  have hwf : ∀ r ∈ (llExpired1 p f).rib, r.fam ∈ famIds (llExpired1 p f) := by
    intro r hr; rw [hids]; exact h.core.wf r (hsub r hr).1
  have hdown : (llExpired1 p f).est = false → ∀ r ∈ (llExpired1 p f).rib, r.stale = true :=
    fun he r hr => h.core.down he r (hsub r hr).1
  have hkeep : ∀ t ∈ p.llTimers, t.1 ≠ f → t ∈ (llExpired1 p f).llTimers := by
    intro t ht hne
    simp only [llExpired1, List.mem_filter]
    exact ⟨ht, by simpa using hne⟩
  have hnll : ∀ r ∈ (llExpired1 p f).rib, r.nLL ≤ 1 ∧
      (r.nLL = 1 → r.stale = true ∧ (llExpired1 p f).llRun = true ∧ ∃ D, (r.fam, D) ∈ (llExpired1 p f).llTimers) := by
    intro r hr
    obtain ⟨hr0, hnf⟩ := hsub r hr
    obtain ⟨h1, h2⟩ := h.core.nll r hr0
    refine ⟨h1, fun h3 => ?_⟩
    obtain ⟨h4, h5, D, hD⟩ := h2 h3
    refine ⟨h4, h5, D, hkeep _ hD ?_⟩
    intro hfe
    exact hnf ⟨hfe, h4⟩
  split
  · exact inv_stop_dropStale' _ hwf h.core.estT h.core.rst hdown
      (fun r hr => ⟨(hnll r hr).1, fun h1 => ((hnll r hr).2 h1).1⟩)
  · rename_i hall
    -- some other family's timer is still running, hence still pending
    have hne : (llExpired1 p f).llTimers ≠ [] := by
      have : ∃ a ∈ p.fams, ¬ ((a.id == f || !a.llRunning) = true) := by
        by_cases hex : ∃ a ∈ p.fams, ¬ ((a.id == f || !a.llRunning) = true)
        · exact hex
        · exfalso
          apply hall
          rw [List.all_eq_true]
          intro a ha
          by_cases hc : (a.id == f || !a.llRunning) = true
          · exact hc
          · exact absurd ⟨a, ha, hc⟩ hex
      obtain ⟨a, ha, hc⟩ := this
      have h1 : a.id ≠ f := by
        intro h1; simp [h1] at hc
      have h2 : a.llRunning = true := by
        cases hr : a.llRunning <;> simp [hr] at hc ⊢
      obtain ⟨D, hD⟩ := h.core.llSync a ha h2
      have := hkeep _ hD h1
      intro hnil
      rw [hnil] at this
      exact absurd this (by simp)
    refine ⟨⟨hwf, h.core.estT, h.core.rst, ?_, fun _ => hne, hdown, hnll⟩, ?_⟩
    · intro b hb hr
      simp only [llExpired1, List.mem_map] at hb
      obtain ⟨a, ha, rfl⟩ := hb
      by_cases hc : (a.id == f) = true
      · simp [hc] at hr
      · simp only [hc, Bool.false_eq_true, if_false] at hr ⊢
        obtain ⟨D, hD⟩ := h.core.llSync a ha hr
        exact ⟨D, hkeep _ hD (by simpa using hc)⟩
    · intro r hr hs
      exact ⟨(h.stale r (hsub r hr).1 hs).1, Or.inr (Or.inr hne)⟩

/-! ## (re-)establishment -/

theorem fkey_applyLTuple (l : List Fam) (t : Nat × Nat) : (applyLTuple l t).map fkey = l.map fkey :=
  map_fkey_of _ _ (fun a => by
    show fkey (if (a.id == t.1) = true then _ else a) = fkey a
    split <;> rfl)

theorem fkey_foldl_applyLTuple (ts : List (Nat × Nat)) : ∀ l : List Fam,
    (ts.foldl applyLTuple l).map fkey = l.map fkey := by
  induction ts with
  | nil => intro l; rfl
  | cons t ts ih => intro l; simp only [List.foldl_cons]; rw [ih, fkey_applyLTuple]

theorem fkey_applyTuples (l : List Fam) (ts : List Nat) : (applyTuples l ts).map fkey = l.map fkey :=
  map_fkey_of _ _ (fun a => by
    show fkey (if ts.contains a.id = true then _ else a) = fkey a
    split <;> rfl)

/-- what the negotiation leaves alone -/
structure SceP (p q : Peer) : Prop where
  rib : q.rib = p.rib
  est : q.est = p.est
  pr : q.peerRestarting = p.peerRestarting
  llRun : q.llRun = p.llRun
  lls : q.llTimers = p.llTimers
  fk : q.fams.map fkey = p.fams.map fkey

theorem sce_resetNegotiated (p : Peer) : SceP p (resetNegotiated p) :=
  ⟨rfl, rfl, rfl, rfl, rfl, map_fkey_of _ _ (fun _ => rfl)⟩

theorem sceP_stateChangeEst (p : Peer) (c : Caps) : SceP p (stateChangeEst p c) := by
  have h0 := sce_resetNegotiated p
  -- first `if`: the GR capability
  have h1 : ∀ q : Peer, SceP p q →
      SceP p (if (q.cfgGR && c.gr) = true then
          { q with enabled := true, restartTime := c.time,
                   fams := (if (q.localRestarting && c.rbit) = true then
                              (applyTuples q.fams (c.tuples.filter (fun t => c.mp.contains t))).map (fun f => { f with eor := true })
                            else applyTuples q.fams (c.tuples.filter (fun t => c.mp.contains t))),
                   notif := q.cfgNotif && c.nbit }
        else q) := by
    intro q hq
    split
    · refine ⟨hq.rib, hq.est, hq.pr, hq.llRun, hq.lls, ?_⟩
      show (if (q.localRestarting && c.rbit) = true then _ else _ : List Fam).map fkey = _
      split
      · rw [map_fkey_of _ (fun f => { f with eor := true }) (fun _ => rfl), fkey_applyTuples]; exact hq.fk
      · rw [fkey_applyTuples]; exact hq.fk
    · exact hq
  -- second `if`: the LLGR capability
  have h2 : ∀ q : Peer, SceP p q →
      SceP p (if (q.cfgLL && c.gr && c.llgr) = true then
          { q with longLived := true, fams := c.ltuples.foldl applyLTuple q.fams }
        else q) := by
    intro q hq
    split
    · exact ⟨hq.rib, hq.est, hq.pr, hq.llRun, hq.lls, by
        show (c.ltuples.foldl applyLTuple q.fams).map fkey = _
        rw [fkey_foldl_applyLTuple]; exact hq.fk⟩
    · exact hq
  have h3 := h2 _ (h1 _ h0)
  exact ⟨h3.rib, h3.est, h3.pr, h3.llRun, h3.lls, h3.fk⟩

theorem onStateChange_est (q : Peer) (g ad : Bool) (hq : q.est = false) :
    onStateChange q .established g ad = onEstablished { q with est := true } := by
  simp [onStateChange, hq]

theorem estDefer_ind (P : Peer → Prop) (q : Peer)
    (h : ∀ lr dts, P { q with localRestarting := lr, defTimers := dts }) : P (estDefer q) := by
  unfold estDefer
  split
  · exact h q.localRestarting q.defTimers
  · split
    · exact h false q.defTimers
    · exact h q.localRestarting _

theorem onEst_eq (p : Peer) (c : Caps) :
    onEst p c = if p.est = true then p
      else { onStateChange (stateChangeEst p c) .established false with restartAt := none } := rfl

theorem inv_onEst (p : Peer) (c : Caps) (h : Inv p) : Inv (onEst p c) := by
  rw [onEst_eq]
  split
  · exact h
  · rename_i he
    have he' : p.est = false := by simpa using he
    have hs := sceP_stateChangeEst p c
    have hq : (stateChangeEst p c).est = false := by rw [hs.est]; exact he'
    rw [onStateChange_est _ false false hq]
    unfold onEstablished
    generalize hq1 : ({ stateChangeEst p c with est := true } : Peer) = q1
    have hs1 : SceP p { q1 with est := p.est } := by
      subst hq1; exact ⟨hs.rib, rfl, hs.pr, hs.llRun, hs.lls, hs.fk⟩
    have hest1 : q1.est = true := by subst hq1; rfl
    have hidsq : famIds q1 = famIds p := ids_of_fkey hs1.fk
    -- the purge at ESTABLISHED
    have hpurge : ∀ r ∈ (estPurge q1).rib, r ∈ p.rib := by
      intro r hr
      unfold estPurge at hr
      split at hr
      · simp only [dropStaleUnlisted, List.mem_filter] at hr
        have := hr.1
        rw [show q1.rib = p.rib from hs1.rib] at this; exact this
      · rw [show q1.rib = p.rib from hs1.rib] at hr; exact hr
    apply estDefer_ind (fun x => Inv { x with restartAt := none })
    intro lr dts
    by_cases hpr : q1.peerRestarting = true
    · by_cases hem : (grFams q1).isEmpty = true
      · -- the new OPEN lists no GR family: the restart ends, every stale route goes
        have hnostale : ∀ r ∈ (estPurge q1).rib, r.stale = false := by
          intro r hr
          simp only [estPurge, hpr, if_true, dropStaleUnlisted, List.mem_filter] at hr
          have hk : keepFams q1 = [] := by
            have : grFams q1 = [] := by simpa using hem
            simp [keepFams, this]
          cases hst : r.stale
          · rfl
          · simp [hk, hst] at hr
        have heq : estPurge q1 = { stopPeerRestarting q1 with rib := dropStaleUnlisted q1 } := by
          simp only [estPurge, hpr, hem, if_true]
        rw [heq] at hpurge hnostale ⊢
        refine ⟨⟨?_, fun _ => rfl, fun D hD => absurd hD (by simp), ?_, ?_, ?_, ?_⟩, ?_⟩
        · intro r hr
          show r.fam ∈ famIds (stopPeerRestarting q1)
          rw [famIds_stop, hidsq]; exact h.core.wf r (hpurge r hr)
        · intro a ha hr
          simp only [stopPeerRestarting, List.mem_map] at ha
          obtain ⟨b, _, rfl⟩ := ha
          simp at hr
        · intro hl; simp [stopPeerRestarting] at hl
        · intro hd; simp [stopPeerRestarting, hest1] at hd
        · intro r hr
          obtain ⟨h1, h2⟩ := h.core.nll r (hpurge r hr)
          refine ⟨h1, fun h3 => ?_⟩
          have := (h2 h3).1
          rw [hnostale r hr] at this; exact absurd this (by simp)
        · intro r hr hst
          rw [hnostale r hr] at hst; exact absurd hst (by simp)
      · have heq : estPurge q1 = { q1 with rib := dropStaleUnlisted q1 } := by
          simp only [estPurge, hpr, hem, if_true, Bool.false_eq_true, if_false]
        rw [heq] at hpurge ⊢
        refine ⟨⟨?_, fun _ => rfl, fun D hD => absurd hD (by simp), ?_, ?_, ?_, ?_⟩, ?_⟩
        · intro r hr
          show r.fam ∈ famIds q1
          rw [hidsq]; exact h.core.wf r (hpurge r hr)
        · intro b hb hr
          obtain ⟨a, ha, h1, h2⟩ := running_of_fkey hs1.fk b hb hr
          obtain ⟨D, hD⟩ := h.core.llSync a ha h2
          exact ⟨D, by show (b.id, D) ∈ q1.llTimers; rw [show q1.llTimers = p.llTimers from hs1.lls, ← h1]; exact hD⟩
        · intro hl
          show q1.llTimers ≠ []
          rw [show q1.llTimers = p.llTimers from hs1.lls]
          exact h.core.llNE (by rw [← show q1.llRun = p.llRun from hs1.llRun]; exact hl)
        · intro hd; exact absurd hd (by show ¬ q1.est = false; simp [hest1])
        · intro r hr
          obtain ⟨h1, h2⟩ := h.core.nll r (hpurge r hr)
          refine ⟨h1, fun h3 => ?_⟩
          obtain ⟨h4, h5, h6⟩ := h2 h3
          exact ⟨h4, by show q1.llRun = true; rw [show q1.llRun = p.llRun from hs1.llRun]; exact h5,
                 by show ∃ D, (r.fam, D) ∈ q1.llTimers; rw [show q1.llTimers = p.llTimers from hs1.lls]; exact h6⟩
        · intro r _ _
          exact ⟨hpr, Or.inl hest1⟩
    · have heq : estPurge q1 = q1 := by
        simp only [estPurge, hpr, Bool.false_eq_true, if_false]
      rw [heq] at hpurge ⊢
      have hprp : p.peerRestarting = false := by
        have : q1.peerRestarting = p.peerRestarting := hs1.pr
        rw [← this]; simpa using hpr
      refine ⟨⟨?_, fun _ => rfl, fun D hD => absurd hD (by simp), ?_, ?_, ?_, ?_⟩, ?_⟩
      · intro r hr
        show r.fam ∈ famIds q1
        rw [hidsq]; exact h.core.wf r (hpurge r hr)
      · intro b hb hr
        obtain ⟨a, ha, h1, h2⟩ := running_of_fkey hs1.fk b hb hr
        obtain ⟨D, hD⟩ := h.core.llSync a ha h2
        exact ⟨D, by show (b.id, D) ∈ q1.llTimers; rw [show q1.llTimers = p.llTimers from hs1.lls, ← h1]; exact hD⟩
      · intro hl
        show q1.llTimers ≠ []
        rw [show q1.llTimers = p.llTimers from hs1.lls]
        exact h.core.llNE (by rw [← show q1.llRun = p.llRun from hs1.llRun]; exact hl)
      · intro hd; exact absurd hd (by show ¬ q1.est = false; simp [hest1])
      · intro r hr
        obtain ⟨h1, h2⟩ := h.core.nll r (hpurge r hr)
        refine ⟨h1, fun h3 => ?_⟩
        obtain ⟨h4, h5, h6⟩ := h2 h3
        exact ⟨h4, by show q1.llRun = true; rw [show q1.llRun = p.llRun from hs1.llRun]; exact h5,
               by show ∃ D, (r.fam, D) ∈ q1.llTimers; rw [show q1.llTimers = p.llTimers from hs1.lls]; exact h6⟩
      · intro r hr hst
        have := (h.stale r (hpurge r hr) hst).1
        rw [hprp] at this; exact absurd this (by simp)

/-! ## timers firing, the clock, every event, every history -/

theorem inv_now (p : Peer) (t : Nat) (h : Inv p) : Inv { p with now := t } :=
  inv_transfer p _ h (fun _ hr => hr) rfl rfl rfl rfl rfl rfl rfl rfl

theorem inv_fire (p : Peer) (d : Nat) (k : Due) (h : Inv p) : Inv (fire p d k) := by
  cases k with
  | ll f => exact inv_onLLExpire _ f (inv_now p d h)
  | defer dt =>
    exact inv_onDeferralExpire _ dt
      (inv_transfer p _ h (fun _ hr => hr) rfl rfl rfl rfl rfl rfl rfl rfl)
  | restart => exact inv_onRestartExpire _ (inv_now p d h)

theorem inv_advanceTo (fuel : Nat) : ∀ (p : Peer) (limit : Nat), Inv p → Inv (advanceTo fuel p limit) := by
  induction fuel with
  | zero => intro p limit h; exact inv_now p limit h
  | succ n ih =>
    intro p limit h
    unfold advanceTo
    split
    · exact inv_now p limit h
    · exact ih _ _ (inv_fire p _ _ h)

theorem inv_tick (p : Peer) (d : Nat) (h : Inv p) : Inv (tick p d) := inv_advanceTo _ p _ h

/-- the one assumption on the events of a history: the peer does not itself announce routes that
already carry LLGR_STALE (the harness never does) -/
def EvOK : Ev → Prop
  | .ann _ _ _ _ n _ => n = 0
  | _ => True

theorem inv_stepRaw (p : Peer) (e : Ev) (he : EvOK e) (h : Inv p) : Inv (stepRaw p e) := by
  cases e with
  | est c => exact inv_onEst p c h
  | loss k => exact inv_onDown p _ h
  | goto n ad => exact inv_goto p n ad h
  | ann f k v noLL n rj =>
    have : n = 0 := he
    subst this
    exact inv_announce p f k v noLL rj h
  | wd f k => exact inv_withdraw p f k h
  | eor f => exact inv_onEOR p f h
  | tick d => exact inv_tick p d h
  | del =>
    show Inv (onDelete p)
    apply inv_of_nil _ rfl
    · intro h1; exact absurd h1 (by simp [onDelete])
    · intro D hD; exact absurd hD (by simp [onDelete])
    · intro a ha hr
      simp only [onDelete, List.mem_map] at ha
      obtain ⟨b, _, rfl⟩ := ha
      simp [freshFam] at hr
    · intro hl; exact absurd hl (by simp [onDelete])

theorem inv_step (p : Peer) (e : Ev) (he : EvOK e) (h : Inv p) : Inv (step p e) := by
  cases e with
  | tick d => exact inv_tick p d h
  | est c => exact inv_tick _ 0 (inv_stepRaw p _ he h)
  | loss k => exact inv_tick _ 0 (inv_stepRaw p _ he h)
  | goto n ad => exact inv_tick _ 0 (inv_stepRaw p _ he h)
  | ann f k v noLL n rj => exact inv_tick _ 0 (inv_stepRaw p _ he h)
  | wd f k => exact inv_tick _ 0 (inv_stepRaw p _ he h)
  | eor f => exact inv_tick _ 0 (inv_stepRaw p _ he h)
  | del => exact inv_tick _ 0 (inv_stepRaw p _ he h)

/-- a neighbour before its first session -/
structure Init (p : Peer) : Prop where
  est : p.est = false
  rib : p.rib = []
  ra : p.restartAt = none
  lls : p.llTimers = []
  llRun : p.llRun = false
  running : ∀ a ∈ p.fams, a.llRunning = false

theorem inv_init (p : Peer) (hi : Init p) : Inv p := by
  apply inv_of_nil p hi.rib
  · intro h; rw [hi.est] at h; exact absurd h (by simp)
  · intro D hD; rw [hi.ra] at hD; exact absurd hD (by simp)
  · intro a ha hr; rw [hi.running a ha] at hr; exact absurd hr (by simp)
  · intro hl; rw [hi.llRun] at hl; exact absurd hl (by simp)

theorem inv_run (es : List Ev) : ∀ (p : Peer), (∀ e ∈ es, EvOK e) → Inv p → Inv (run p es) := by
  induction es with
  | nil => intro p _ h; exact h
  | cons e es ih =>
    intro p hok h
    show Inv (run (step p e) es)
    exact ih _ (fun e' he' => hok e' (List.mem_cons_of_mem _ he')) (inv_step p e (hok e (List.mem_cons_self ..)) h)

end GR
