/-
  Lemmas for C01RS, part 1: the export filter chain toward a route-server client, on the
  client's own view of the table, IS the filter chain of an ordinary eBGP peer with the same
  AS / router-id / address — the two differences (no AS-loop test, no "from me" withdraw) are
  exactly compensated by `rsFilter` (the client's view has no route with its AS and none of its
  own) and by the repaired `filterPathFromSourcePeer`.  The per-step delta lemma for clients is
  therefore an instance of `World.delta_correct`.
-/
import Model.RouteServer
import Lemmas.World
import Lemmas.WorldInv
namespace RouteServer
open BestPath World

/-- the ordinary peer a route-server client's export filtering is compared with -/
def asOrd (t : PeerCfg) : PeerCfg := { t with kind := .ebgp }

@[simp] theorem asOrd_rs (t : PeerCfg) : (asOrd t).isRSClient = false := rfl
@[simp] theorem asOrd_rr (t : PeerCfg) : (asOrd t).isRRClient = false := rfl
@[simp] theorem asOrd_rid (t : PeerCfg) : (asOrd t).rid = t.rid := rfl
@[simp] theorem asOrd_as (t : PeerCfg) : (asOrd t).as = t.as := rfl
@[simp] theorem asOrd_addr (t : PeerCfg) : (asOrd t).addr = t.addr := rfl
@[simp] theorem asOrd_llgr (t : PeerCfg) : (asOrd t).llgr = t.llgr := rfl
@[simp] theorem asOrd_ibgp (g : Global) (t : PeerCfg) : (asOrd t).isIBGP g = t.isIBGP g := rfl

theorem rs_not_rr (t : PeerCfg) (h : t.isRSClient = true) : t.isRRClient = false := by
  unfold PeerCfg.isRSClient at h
  unfold PeerCfg.isRRClient
  cases hk : t.kind <;> simp_all

theorem ibgpStage_asOrd (g : Global) (t : PeerCfg) (h : t.isRSClient = true) (path : P)
    (old : Option Cand) : ibgpStage g (asOrd t) path old = ibgpStage g t path old := by
  unfold ibgpStage
  simp only [asOrd_ibgp, asOrd_rr, rs_not_rr t h, asOrd_as, asOrd_addr]
  rfl

theorem srcStage_asOrd (t : PeerCfg) (path : P) (old : Option Cand) :
    World.srcStage (asOrd t) path old = rsSrcStage t path old := by
  unfold World.srcStage rsSrcStage
  simp only [asOrd_rid, asOrd_rs, asOrd_addr, Bool.not_false, Bool.true_and]
  rfl

theorem loopStage_asOrd (t : PeerCfg) (h : t.isRSClient = true) (p : P) (old : Option Cand)
    (hp : (asList p.r.segs).contains t.as = false) :
    loopStage (asOrd t) p old = loopStage t p old := by
  have hn : t.as ∉ asList p.r.segs := by simpa using hp
  unfold loopStage
  simp [h, hn]

theorem rsFilter_false {t : PeerCfg} {r : Cand} (h : rsFilter t r = false) :
    r.src.addr ≠ some t.addr ∧ (asList r.segs).contains t.as = false := by
  unfold rsFilter at h
  simp only [Bool.or_eq_false_iff, beq_eq_false_iff_ne, ne_eq] at h
  exact h

theorem wdOld_cases (path : P) (old : Option Cand) (q : P) (h : wdOld path old = some q) :
    ∃ o, old = some o ∧ q = ⟨o, true⟩ := by
  unfold wdOld at h
  cases old with
  | none => simp at h
  | some o =>
    simp only at h
    split at h
    · simp at h; exact ⟨o, rfl, h.symm⟩
    · simp at h

theorem rsSrcStage_out (t : PeerCfg) (path : P) (old : Option Cand) (q : P)
    (h : rsSrcStage t path old = some q) : q = path ∨ ∃ o, old = some o ∧ q = ⟨o, true⟩ := by
  unfold rsSrcStage at h
  cases old with
  | none =>
    simp only [Bool.and_false, Bool.false_eq_true, if_false] at h
    split at h
    · simp at h; exact Or.inl h.symm
    · simp at h
  | some o =>
    simp only at h
    split at h
    · simp at h; exact Or.inl h.symm
    · split at h
      · obtain ⟨o', ho', hq⟩ := wdOld_cases path (some o) q h
        exact Or.inr ⟨o', ho', hq⟩
      · simp at h

/-- on routes of the client's own view, the (repaired) client filter = the eBGP-peer filter -/
theorem core_asOrd (g : Global) (t : PeerCfg) (h : t.isRSClient = true) (path : P)
    (old : Option Cand) (hp : rsFilter t path.r = false)
    (ho : ∀ o, old = some o → rsFilter t o = false) :
    rsFilterCore g t path old = World.filterpathCore g (asOrd t) path old := by
  unfold rsFilterCore World.filterpathCore
  rw [ibgpStage_asOrd g t h, srcStage_asOrd]
  cases ibgpStage g t path old with
  | some res => rfl
  | none =>
    simp only
    cases hs : rsSrcStage t path old with
    | none => rfl
    | some q =>
      simp only
      have hq : (asList q.r.segs).contains t.as = false := by
        rcases rsSrcStage_out t path old q hs with rfl | ⟨o, ho', rfl⟩
        · exact (rsFilter_false hp).2
        · exact (rsFilter_false (ho o ho')).2
      exact (loopStage_asOrd t h q old hq).symm

theorem sfilter_asOrd (g : Global) (t : PeerCfg) (h : t.isRSClient = true) (path : P)
    (old : Option Cand) (hp : rsFilter t path.r = false)
    (ho : ∀ o, old = some o → rsFilter t o = false) :
    rsFilterpath g t path old = World.sFilterpath g (asOrd t) path old := by
  unfold rsFilterpath World.sFilterpath
  rw [core_asOrd g t h path old hp ho]
  rfl

/-! ### the client-specific best path -/

theorem clientBest_some {t : PeerCfg} {l : List Cand} {b : Cand} (h : clientBest t l = some b) :
    b ∈ l ∧ rsFilter t b = false := by
  unfold clientBest at h
  exact ⟨List.mem_of_find?_eq_some h, by simpa using List.find?_some h⟩

theorem head_toList {α : Type} (o : Option α) : o.toList.head? = o := by cases o <;> rfl

theorem mem_toList {α : Type} {o : Option α} {a : α} (h : a ∈ o.toList) : o = some a := by
  cases o with
  | none => simp at h
  | some b => simp at h; rw [h]

/-- what an established client should hold for a destination with (shared) path list `l`: the
    from-scratch export of ITS best path — what its initial table transfer would send -/
def rsWant (g : Global) (t : PeerCfg) (l : List Cand) : Option Nat :=
  match clientBest t l with
  | none => none
  | some b =>
    if b.nhInvalid then none else
    match rsFilterpath g t ⟨b, false⟩ none with
    | some p => if p.wd then none else some p.r.marker
    | none => none

/-- what propagateUpdateToNeighbors sends to one client for one destination change -/
def rsDeltaFor (g : Global) (t : PeerCfg) (oldL newL : List Cand) : Option P :=
  match getChangesFor t oldL newL with
  | (some b, old) => rsFilterpath g t b old
  | (none, _) => none

theorem rsWant_eq (g : Global) (t : PeerCfg) (h : t.isRSClient = true) (l : List Cand) :
    rsWant g t l = wantOf g (asOrd t) (clientBest t l).toList := by
  unfold rsWant wantOf
  rw [head_toList]
  cases hb : clientBest t l with
  | none => rfl
  | some b =>
    simp only
    rw [sfilter_asOrd g t h ⟨b, false⟩ none (clientBest_some hb).2 (fun o ho => by cases ho)]
    rfl

theorem rsDeltaFor_eq (g : Global) (t : PeerCfg) (h : t.isRSClient = true) (oldL newL : List Cand) :
    rsDeltaFor g t oldL newL =
      deltaFor g (asOrd t) (clientBest t oldL).toList (clientBest t newL).toList := by
  unfold rsDeltaFor deltaFor getChangesFor
  cases hg : getChanges (clientBest t oldL).toList (clientBest t newL).toList with
  | mk best old =>
    cases best with
    | none => rfl
    | some b =>
      simp only
      obtain ⟨hb, hold⟩ := getChanges_routes _ _ b old hg
      apply sfilter_asOrd g t h
      · rcases hb with hb | hb
        · exact (clientBest_some (mem_toList hb)).2
        · exact (clientBest_some (mem_toList hb)).2
      · intro o ho
        exact (clientBest_some (mem_toList (hold o ho))).2

/-- **the per-step delta lemma for route-server clients**: the incremental fan-out with the
    client-specific (best, old) pair takes "holds export(old client-best)" to "holds export(new
    client-best)", for every pair of path lists. -/
theorem rs_delta_correct (g : Global) (t : PeerCfg) (h : t.isRSClient = true)
    (oldL newL : List Cand)
    (wfEq : ∀ b o, clientBest t newL = some b → clientBest t oldL = some o →
      b.src.equal o.src = true → b.src = o.src) :
    heldApply (rsWant g t oldL) (rsDeltaFor g t oldL newL) = rsWant g t newL := by
  rw [rsWant_eq g t h, rsWant_eq g t h, rsDeltaFor_eq g t h]
  apply World.delta_correct g (asOrd t) rfl
  · intro o ho hadr
    rw [head_toList] at ho
    exact absurd hadr (rsFilter_false (clientBest_some ho).2).1
  · intro b o hb ho
    rw [head_toList] at hb ho
    exact wfEq b o hb ho

end RouteServer
