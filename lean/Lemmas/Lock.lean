import Model.Lock
/-
Helper lemmas for C20: invariants of the abstract lock machine.
-/
namespace Lock

variable {ok : LockId → LockId → Prop}

/-- a blocked thread holds only locks ranked strictly below the lock it waits for -/
def OrdInv (rank : LockId → Nat) (s : St) : Prop :=
  ∀ t l m l', s.wait t = some (l, m) → (s.held t l').isSome → rank l' < rank l

theorem ordInv_init (rank : LockId → Nat) : OrdInv rank St.init := by
  intro t l m l' hw _
  simp [St.init] at hw

theorem ordInv_step {rank : LockId → Nat} (hok : ∀ a b, ok a b → rank a < rank b)
    {s s' : St} (hinv : OrdInv rank s) (hs : Step ok s s') : OrdInv rank s' := by
  cases hs with
  | request t l m hnw hdisc =>
    intro t' l1 m1 l' hw hh
    simp only [setWait] at hw hh
    by_cases e : t' = t
    · subst e
      simp at hw
      obtain ⟨e1, _⟩ := hw
      subst e1
      exact hok _ _ (hdisc l' hh)
    · simp [e] at hw
      exact hinv t' l1 m1 l' hw hh
  | grant t l m hw0 _ =>
    intro t' l1 m1 l' hw hh
    simp only [setHeld, setWait] at hw hh
    by_cases e : t' = t
    · subst e
      simp at hw
    · simp [e] at hw hh
      exact hinv t' l1 m1 l' hw hh
  | release t l hnw _ =>
    intro t' l1 m1 l' hw hh
    simp only [setHeld] at hw hh
    by_cases e : t' = t ∧ l' = l
    · simp [e] at hh
    · simp [e] at hh
      exact hinv t' l1 m1 l' hw hh

theorem ordInv_reachable {rank : LockId → Nat} (hok : ∀ a b, ok a b → rank a < rank b)
    {s : St} (hr : Reachable ok s) : OrdInv rank s := by
  induction hr with
  | init => exact ordInv_init rank
  | step _ hs ih => exact ordInv_step hok ih hs

/-- potential of a blocked thread: twice the rank of the awaited lock, plus one for a writer -/
def mu (rank : LockId → Nat) (s : St) (t : Tid) : Nat :=
  match s.wait t with
  | some (l, .W) => 2 * rank l + 1
  | some (l, .R) => 2 * rank l
  | none => 0

theorem path_head {α : Type} {r : α → α → Prop} {a b : α} (p : Path r a b) : ∃ c, r a c := by
  cases p with
  | single h => exact ⟨_, h⟩
  | cons h _ => exact ⟨_, h⟩

/-- every wait-for edge into a thread that is itself blocked strictly increases the potential -/
theorem edge_increases {rank : LockId → Nat} {s : St} (hinv : OrdInv rank s) {a b : Tid}
    (hab : waitsFor s a b) (hb : ∃ c, waitsFor s b c) : mu rank s a < mu rank s b := by
  obtain ⟨l, m, hwa, hcase⟩ := hab
  obtain ⟨c, l2, m2, hwb, _⟩ := hb
  cases hcase with
  | inl hheld =>
    have hlt : rank l < rank l2 := hinv b l2 m2 l hwb hheld
    unfold mu
    rw [hwa, hwb]
    cases m <;> cases m2 <;> simp <;> omega
  | inr hpend =>
    obtain ⟨hm, hwb'⟩ := hpend
    subst hm
    unfold mu
    rw [hwa, hwb']
    simp

theorem path_increases {rank : LockId → Nat} {s : St} (hinv : OrdInv rank s) {a b : Tid}
    (p : Path (waitsFor s) a b) (hb : ∃ c, waitsFor s b c) : mu rank s a < mu rank s b := by
  induction p with
  | single h => exact edge_increases hinv h hb
  | cons h q ih =>
    have h1 := edge_increases hinv h (path_head q)
    have h2 := ih hb
    omega

/-- two different threads never hold the same lock unless both hold it in read mode -/
def MutexInv (s : St) : Prop :=
  ∀ t1 t2 l m1 m2, t1 ≠ t2 → s.held t1 l = some m1 → s.held t2 l = some m2 → m1 = .R ∧ m2 = .R

theorem mutexInv_step {s s' : St} (hinv : MutexInv s) (hs : Step ok s s') : MutexInv s' := by
  cases hs with
  | request t l m _ _ =>
    intro t1 t2 l1 m1 m2 hne h1 h2
    exact hinv t1 t2 l1 m1 m2 hne h1 h2
  | grant t l m _ hg =>
    intro t1 t2 l1 m1 m2 hne h1 h2
    simp only [setHeld, setWait] at h1 h2
    by_cases e1 : t1 = t ∧ l1 = l
    · obtain ⟨e1a, e1b⟩ := e1
      subst e1a; subst e1b
      have e2 : t2 ≠ t1 := fun h => hne h.symm
      simp [e2] at h2
      simp at h1
      subst h1
      cases m with
      | W => simp [grantable] at hg; have := hg t2; simp [h2] at this
      | R =>
        simp [grantable] at hg
        cases m2 with
        | W => exact absurd h2 (hg.1 t2)
        | R => exact ⟨rfl, rfl⟩
    · simp [e1] at h1
      by_cases e2 : t2 = t ∧ l1 = l
      · obtain ⟨e2a, e2b⟩ := e2
        subst e2a; subst e2b
        simp at h2
        subst h2
        cases m with
        | W => simp [grantable] at hg; have := hg t1; simp [h1] at this
        | R =>
          simp [grantable] at hg
          cases m1 with
          | W => exact absurd h1 (hg.1 t1)
          | R => exact ⟨rfl, rfl⟩
      · simp [e2] at h2
        exact hinv t1 t2 l1 m1 m2 hne h1 h2
  | release t l _ _ =>
    intro t1 t2 l1 m1 m2 hne h1 h2
    simp only [setHeld] at h1 h2
    by_cases e1 : t1 = t ∧ l1 = l
    · simp [e1] at h1
    · by_cases e2 : t2 = t ∧ l1 = l
      · simp [e2] at h2
      · simp [e1] at h1
        simp [e2] at h2
        exact hinv t1 t2 l1 m1 m2 hne h1 h2

theorem mutexInv_reachable {s : St} (hr : Reachable ok s) : MutexInv s := by
  induction hr with
  | init => intro t1 t2 l m1 m2 _ h1 _; simp [St.init] at h1
  | step _ hs ih => exact mutexInv_step ih hs

end Lock
