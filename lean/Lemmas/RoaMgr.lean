/-
  Lemmas for C16 about the RTR client / manager model: what one response does to the table,
  and the invariant every history keeps.
-/
import Lemmas.Roa
namespace Roa

/-- the PDUs of one connection, handled in order (HandleROAEvent(roaRTR) … for one client) -/
def feed (t : Table) (c : Client) (pdus : List Pdu) : Table × Client :=
  pdus.foldl (fun s pdu => ((handleRTR s.1 s.2 pdu).1, (handleRTR s.1 s.2 pdu).2.1)) (t, c)

theorem feed_nil (t : Table) (c : Client) : feed t c [] = (t, c) := rfl

theorem feed_cons (t : Table) (c : Client) (pdu : Pdu) (rest : List Pdu) :
    feed t c (pdu :: rest) = feed (handleRTR t c pdu).1 (handleRTR t c pdu).2.1 rest := rfl

theorem feed_append (t : Table) (c : Client) (l1 l2 : List Pdu) :
    feed t c (l1 ++ l2) = feed (feed t c l1).1 (feed t c l1).2 l2 := by
  simp [feed, List.foldl_append]

/-- an announcement or withdrawal as sent by the cache -/
structure Delta where
  announce : Bool
  p        : Prefix
  maxLen   : Nat
  as       : Nat
deriving Repr, DecidableEq

def Delta.pdu (d : Delta) : Pdu := .prefix d.announce d.p d.maxLen d.as
def Delta.toRec (h : Nat) (d : Delta) : Rec := (d.p, ⟨d.maxLen, d.as, h⟩)

/-- "announced and not withdrawn": the set semantics of one delta, in order -/
def applyDelta (h : Nat) (S : List Rec) (d : Delta) : List Rec :=
  if d.announce then d.toRec h :: S else S.filter fun x => x != d.toRec h

/-- while End of Data is outstanding, prefix PDUs move the pair (buffer, table) exactly as
    `applyDelta` moves the set "buffer ∪ table" -/
theorem feed_deltas (ds : List Delta) (t : Table) (c : Client) (S : List Rec)
    (he : c.endOfData = false) (wf : WF t)
    (hS : ∀ x, x ∈ S ↔ x ∈ c.pending ∨ x ∈ recs t) :
    let r := feed t c (ds.map Delta.pdu)
    (∀ x, x ∈ ds.foldl (applyDelta c.host) S ↔ x ∈ r.2.pending ∨ x ∈ recs r.1) ∧ WF r.1 ∧
      r.2.host = c.host ∧ r.2.session = c.session ∧ r.2.queries = c.queries ∧
      r.2.endOfData = false := by
  induction ds generalizing t c S with
  | nil => exact ⟨hS, wf, rfl, rfl, rfl, he⟩
  | cons d ds ih =>
    simp only [List.map_cons, feed_cons, List.foldl_cons]
    cases hd : d.announce with
    | true =>
      have e : handleRTR t c d.pdu = (t, { c with pending := c.pending ++ [d.toRec c.host] }, []) := by
        simp [Delta.pdu, handleRTR, hd, he, Delta.toRec]
      rw [e]
      have := ih t { c with pending := c.pending ++ [d.toRec c.host] } (applyDelta c.host S d) he wf
        (by
          intro x
          have hx := hS x
          simp only [applyDelta, hd, ↓reduceIte, List.mem_cons, List.mem_append]
          rw [hx]
          by_cases h1 : x = d.toRec c.host <;> by_cases h2 : x ∈ c.pending <;>
            by_cases h3 : x ∈ recs t <;> simp [h1, h2, h3])
      exact this
    | false =>
      have e : handleRTR t c d.pdu =
          (delete t d.p ⟨d.maxLen, d.as, c.host⟩,
           { c with pending := c.pending.filter fun x => x != d.toRec c.host }, []) := by
        simp [Delta.pdu, handleRTR, hd, Delta.toRec]
      rw [e]
      have := ih (delete t d.p ⟨d.maxLen, d.as, c.host⟩)
        { c with pending := c.pending.filter fun x => x != d.toRec c.host } (applyDelta c.host S d) he
        (wf_delete _ _ _ wf)
        (by
          intro x
          have hx := hS x
          simp only [applyDelta, hd, Bool.false_eq_true, ↓reduceIte, List.mem_filter,
            mem_recs_delete _ _ _ _ wf]
          rw [hx]
          have e : (d.p, ({ maxLen := d.maxLen, as := d.as, src := c.host } : Roa)) = d.toRec c.host := rfl
          rw [e]
          by_cases h1 : x = d.toRec c.host <;> by_cases h2 : x ∈ c.pending <;>
            by_cases h3 : x ∈ recs t <;> simp [h1, h2, h3])
      exact this

/-! ### manager: bookkeeping of the client list -/

theorem findClient_some {cs : List Client} {h : Nat} {c : Client} (hf : findClient cs h = some c) :
    c ∈ cs ∧ c.host = h := by
  unfold findClient at hf
  exact ⟨List.mem_of_find?_eq_some hf, by simpa using List.find?_some hf⟩

theorem hosts_setClient (cs : List Client) (c : Client) :
    (setClient cs c).map (·.host) = cs.map (·.host) := by
  induction cs with
  | nil => rfl
  | cons x xs ih =>
    simp only [setClient, List.map_cons] at ih ⊢
    rw [ih]
    by_cases hx : x.host = c.host
    · simp [hx]
    · simp [hx]

theorem mem_setClient {cs : List Client} {c y : Client} (hy : y ∈ setClient cs c) : y = c ∨ y ∈ cs := by
  simp only [setClient, List.mem_map] at hy
  obtain ⟨x, hx, e⟩ := hy
  split at e
  · exact Or.inl e.symm
  · exact Or.inr (e ▸ hx)

/-- what every reachable manager state satisfies -/
structure Inv (m : Mgr) : Prop where
  wf      : WF m.table
  /-- every record in the table belongs to a configured cache -/
  src     : ∀ x ∈ recs m.table, x.2.src ∈ m.clients.map (·.host)
  /-- a client buffers only its own records -/
  pending : ∀ c ∈ m.clients, ∀ x ∈ c.pending, x.2.src = c.host

theorem inv_update {m : Mgr} {c c' : Client} {t' : Table} (hi : Inv m) (hc : c ∈ m.clients)
    (hh : c'.host = c.host) (hwf : WF t')
    (hsrc : ∀ x ∈ recs t', x ∈ recs m.table ∨ x.2.src = c.host)
    (hp : ∀ x ∈ c'.pending, x.2.src = c.host) {k : Nat} :
    Inv ⟨setClient m.clients c', t', k⟩ := by
  refine ⟨hwf, ?_, ?_⟩
  · intro x hx
    simp only [hosts_setClient]
    rcases hsrc x hx with h | h
    · exact hi.src x h
    · rw [h]; exact List.mem_map.mpr ⟨c, hc, rfl⟩
  · intro y hy x hx
    rcases mem_setClient hy with rfl | hy'
    · rw [hh]; exact hp x hx
    · exact hi.pending y hy' x hx

theorem softReset_host (c : Client) : c.softReset.1.host = c.host := by
  unfold Client.softReset; split <;> rfl
theorem softReset_pending (c : Client) : ∀ x ∈ c.softReset.1.pending, x ∈ c.pending := by
  unfold Client.softReset; split <;> simp
theorem enable_host (c : Client) : c.enable.1.host = c.host := by
  unfold Client.enable; split <;> rfl
theorem enable_pending (c : Client) : c.enable.1.pending = c.pending := by
  unfold Client.enable; split <;> rfl
theorem reset_host (c : Client) : c.reset.host = c.host := by
  unfold Client.reset; split <;> rfl
theorem reset_pending (c : Client) : c.reset.pending = c.pending := by
  unfold Client.reset; split <;> rfl
theorem answered_host (c : Client) : c.answered.1.host = c.host := by
  unfold Client.answered; split <;> rfl
theorem answered_pending (c : Client) : c.answered.1.pending = c.pending := by
  unfold Client.answered; split <;> rfl

/-- one PDU: the client keeps its name, the table stays well formed, new records are the
    client's own, the buffer holds only the client's own records -/
theorem handleRTR_ok (t : Table) (c : Client) (pdu : Pdu) (wf : WF t)
    (hp : ∀ x ∈ c.pending, x.2.src = c.host) :
    (handleRTR t c pdu).2.1.host = c.host ∧ WF (handleRTR t c pdu).1 ∧
      (∀ x ∈ recs (handleRTR t c pdu).1, x ∈ recs t ∨ x.2.src = c.host) ∧
      (∀ x ∈ (handleRTR t c pdu).2.1.pending, x.2.src = c.host) := by
  cases pdu with
  | serialNotify sid sn =>
    simp only [handleRTR]
    split
    · exact ⟨enable_host c, wf, fun x hx => Or.inl hx, by rw [enable_pending]; exact hp⟩
    · split
      · exact ⟨rfl, wf, fun x hx => Or.inl hx, hp⟩
      · exact ⟨softReset_host c, wf, fun x hx => Or.inl hx,
          fun x hx => hp x (softReset_pending c x hx)⟩
  | cacheResponse sid => exact ⟨rfl, wf, fun x hx => Or.inl hx, hp⟩
  | «prefix» ann p ml as =>
    simp only [handleRTR]
    split
    · split
      · refine ⟨rfl, wf_add _ _ _ wf, ?_, hp⟩
        intro x hx
        rw [mem_recs_add] at hx
        rcases hx with rfl | hx
        · exact Or.inr rfl
        · exact Or.inl hx
      · refine ⟨rfl, wf, fun x hx => Or.inl hx, ?_⟩
        intro x hx
        simp only [List.mem_append, List.mem_singleton] at hx
        rcases hx with hx | rfl
        · exact hp x hx
        · rfl
    · refine ⟨rfl, wf_delete _ _ _ wf, ?_, ?_⟩
      · intro x hx
        rw [mem_recs_delete _ _ _ _ wf] at hx
        exact Or.inl hx.1
      · intro x hx
        exact hp x (List.mem_filter.mp hx).1
  | endOfData sid sn =>
    simp only [handleRTR]
    refine ⟨answered_host c, ?_, ?_, by simp⟩
    · apply wf_addAll
      split
      · exact wf_deleteAll _ _ wf
      · exact wf
    · intro x hx
      rw [mem_recs_addAll] at hx
      rcases hx with hx | hx
      · exact Or.inr (hp x hx)
      · split at hx
        · rw [mem_recs_deleteAll] at hx; exact Or.inl hx.1
        · exact Or.inl hx
  | cacheReset =>
    simp only [handleRTR]
    refine ⟨by rw [softReset_host, answered_host], wf, fun x hx => Or.inl hx, ?_⟩
    intro x hx
    have := softReset_pending _ x hx
    rw [answered_pending] at this
    exact hp x this
  | errorReport =>
    exact ⟨answered_host c, wf, fun x hx => Or.inl hx, by
      simp only [handleRTR]; rw [answered_pending]; exact hp⟩
  | other => exact ⟨rfl, wf, fun x hx => Or.inl hx, hp⟩

theorem inv_step (m : Mgr) (e : Ev) (hi : Inv m) : Inv (step m e).1 := by
  cases e with
  | addServer h =>
    simp only [step]
    split
    · exact hi
    · refine ⟨hi.wf, ?_, ?_⟩
      · intro x hx
        simp only [List.map_append, List.mem_append]
        exact Or.inl (hi.src x hx)
      · intro c hc x hx
        simp only [List.mem_append, List.mem_singleton] at hc
        rcases hc with hc | rfl
        · exact hi.pending c hc x hx
        · cases hx
  | deleteServer h =>
    simp only [step]
    split
    · exact hi
    · refine ⟨wf_deleteAll _ _ hi.wf, ?_, ?_⟩
      · intro x hx
        rw [mem_recs_deleteAll] at hx
        have := hi.src x hx.1
        rw [List.mem_map] at this ⊢
        obtain ⟨c, hc, e⟩ := this
        refine ⟨c, List.mem_filter.mpr ⟨hc, ?_⟩, e⟩
        simp only [bne_iff_ne, ne_eq]
        rw [e]; exact hx.2
      · intro c hc x hx
        exact hi.pending c (List.mem_filter.mp hc).1 x hx
  | connected h =>
    simp only [step]
    split
    · exact hi
    · rename_i c hf
      obtain ⟨hc, _⟩ := findClient_some hf
      refine inv_update (c := c) hi hc ?_ hi.wf (fun x hx => Or.inl hx) ?_
      · exact softReset_host _
      · intro x hx
        have := softReset_pending _ x hx
        exact hi.pending c hc x this
  | connClosed h =>
    simp only [step]
    split
    · exact hi
    · rename_i c hf
      obtain ⟨hc, _⟩ := findClient_some hf
      exact inv_update hi hc (reset_host c) hi.wf (fun x hx => Or.inl hx)
        (by rw [reset_pending]; exact hi.pending c hc)
  | disconnected h =>
    simp only [step]
    split
    · exact hi
    · rename_i c hf
      obtain ⟨hc, _⟩ := findClient_some hf
      refine inv_update (c := c) hi hc ?_ hi.wf (fun x hx => Or.inl hx) ?_
      · rfl
      · intro x hx; cases hx
  | lifetime h g =>
    simp only [step]
    split
    · exact hi
    · rename_i c hf
      obtain ⟨hc, hh⟩ := findClient_some hf
      split
      · exact hi
      · split
        · refine inv_update (c := c) hi hc ?_ hi.wf (fun x hx => Or.inl hx) ?_
          · rfl
          · exact hi.pending c hc
        · refine inv_update (c := c) hi hc ?_ (wf_deleteAll _ _ hi.wf)
            (fun x hx => Or.inl ((mem_recs_deleteAll _ _ _).mp hx).1) ?_
          · rfl
          · exact hi.pending c hc
  | rtr h pdu =>
    simp only [step]
    split
    · exact hi
    · rename_i c hf
      obtain ⟨hc, _⟩ := findClient_some hf
      obtain ⟨h1, h2, h3, h4⟩ := handleRTR_ok m.table c pdu hi.wf (hi.pending c hc)
      exact inv_update hi hc h1 h2 h3 h4
  | enable h =>
    simp only [step]
    split
    · exact hi
    · rename_i c hf
      obtain ⟨hc, _⟩ := findClient_some hf
      exact inv_update hi hc (enable_host c) hi.wf (fun x hx => Or.inl hx)
        (by rw [enable_pending]; exact hi.pending c hc)
  | disable h =>
    simp only [step]
    split
    · exact hi
    · rename_i c hf
      obtain ⟨hc, _⟩ := findClient_some hf
      exact inv_update hi hc (reset_host c) (wf_deleteAll _ _ hi.wf)
        (fun x hx => Or.inl ((mem_recs_deleteAll _ _ _).mp hx).1)
        (by rw [reset_pending]; exact hi.pending c hc)
  | softReset h =>
    simp only [step]
    split
    · exact hi
    · rename_i c hf
      obtain ⟨hc, _⟩ := findClient_some hf
      exact inv_update hi hc (softReset_host c) (wf_deleteAll _ _ hi.wf)
        (fun x hx => Or.inl ((mem_recs_deleteAll _ _ _).mp hx).1)
        (fun x hx => hi.pending c hc x (softReset_pending _ x hx))

/-! ### lifetime-timer generations -/

/-- generation `g` has been issued and no client named `h` has the timer of generation `g`
    running: a timeout event (h, g) still in the channel is stale -/
def StaleGen (m : Mgr) (h g : Nat) : Prop :=
  g ≤ m.timerSeq ∧ ∀ c ∈ m.clients, c.host = h → (c.timer = false ∨ c.timerGen ≠ g)

theorem mem_setClient_host {cs : List Client} {c y : Client} (hy : y ∈ setClient cs c)
    (hh : y.host = c.host) : y = c := by
  simp only [setClient, List.mem_map] at hy
  obtain ⟨x, _, e⟩ := hy
  split at e
  · exact e.symm
  · rename_i hne
    subst e
    simp [hh] at hne

theorem stale_update {m : Mgr} {h g : Nat} {c c' : Client} {t' : Table} {k : Nat}
    (hs : StaleGen m h g) (hc : c ∈ m.clients) (hh : c'.host = c.host) (hk : m.timerSeq ≤ k)
    (ht : c'.timer = false ∨ (c'.timer = c.timer ∧ c'.timerGen = c.timerGen) ∨ g < c'.timerGen) :
    StaleGen ⟨setClient m.clients c', t', k⟩ h g := by
  refine ⟨Nat.le_trans hs.1 hk, ?_⟩
  intro y hy hyh
  rcases mem_setClient hy with rfl | hy'
  · rcases ht with h1 | ⟨h1, h2⟩ | h1
    · exact Or.inl h1
    · rw [h1, h2]; exact hs.2 c hc (by rw [← hh]; exact hyh)
    · right; omega
  · exact hs.2 y hy' hyh

theorem softReset_timer (c : Client) :
    c.softReset.1.timer = c.timer ∧ c.softReset.1.timerGen = c.timerGen := by
  unfold Client.softReset; split <;> exact ⟨rfl, rfl⟩
theorem enable_timer (c : Client) : c.enable.1.timer = c.timer ∧ c.enable.1.timerGen = c.timerGen := by
  unfold Client.enable; split <;> exact ⟨rfl, rfl⟩
theorem reset_timer (c : Client) : c.reset.timer = c.timer ∧ c.reset.timerGen = c.timerGen := by
  unfold Client.reset; split <;> exact ⟨rfl, rfl⟩
theorem answered_timer (c : Client) :
    c.answered.1.timer = c.timer ∧ c.answered.1.timerGen = c.timerGen := by
  unfold Client.answered; split <;> exact ⟨rfl, rfl⟩

theorem handleRTR_host (t : Table) (c : Client) (pdu : Pdu) : (handleRTR t c pdu).2.1.host = c.host := by
  cases pdu with
  | serialNotify sid sn =>
    simp only [handleRTR]
    split
    · exact enable_host c
    · split
      · rfl
      · exact softReset_host c
  | cacheResponse sid => rfl
  | «prefix» ann p ml as =>
    simp only [handleRTR]
    split
    · split <;> rfl
    · rfl
  | endOfData sid sn => exact answered_host c
  | cacheReset => simp only [handleRTR]; rw [softReset_host, answered_host]
  | errorReport => exact answered_host c
  | other => rfl

/-- a PDU can only stop the timer -/
theorem handleRTR_timer (t : Table) (c : Client) (pdu : Pdu) :
    (handleRTR t c pdu).2.1.timer = false ∨
      ((handleRTR t c pdu).2.1.timer = c.timer ∧ (handleRTR t c pdu).2.1.timerGen = c.timerGen) := by
  cases pdu with
  | serialNotify sid sn =>
    simp only [handleRTR]
    split
    · exact Or.inr (enable_timer c)
    · split
      · exact Or.inr ⟨rfl, rfl⟩
      · exact Or.inr (softReset_timer c)
  | cacheResponse sid => exact Or.inr ⟨rfl, rfl⟩
  | «prefix» ann p ml as =>
    simp only [handleRTR]
    split
    · split <;> exact Or.inr ⟨rfl, rfl⟩
    · exact Or.inr ⟨rfl, rfl⟩
  | endOfData sid sn => exact Or.inl rfl
  | cacheReset =>
    simp only [handleRTR]
    right
    have h1 := softReset_timer c.answered.1
    have h2 := answered_timer c
    exact ⟨h1.1.trans h2.1, h1.2.trans h2.2⟩
  | errorReport => exact Or.inr (answered_timer c)
  | other => exact Or.inr ⟨rfl, rfl⟩

theorem stale_step (m : Mgr) (e : Ev) (h g : Nat) (hs : StaleGen m h g) : StaleGen (step m e).1 h g := by
  cases e with
  | addServer h' =>
    simp only [step]
    split
    · exact hs
    · refine ⟨hs.1, ?_⟩
      intro c hc hch
      simp only [List.mem_append, List.mem_singleton] at hc
      rcases hc with hc | rfl
      · exact hs.2 c hc hch
      · exact Or.inl rfl
  | deleteServer h' =>
    simp only [step]
    split
    · exact hs
    · exact ⟨hs.1, fun c hc hch => hs.2 c (List.mem_filter.mp hc).1 hch⟩
  | connected h' =>
    simp only [step]
    split
    · exact hs
    · rename_i c hf
      obtain ⟨hc, _⟩ := findClient_some hf
      refine stale_update (c := c) hs hc ?_ (Nat.le_refl _) ?_
      · exact softReset_host _
      · exact Or.inr (Or.inl (softReset_timer _))
  | connClosed h' =>
    simp only [step]
    split
    · exact hs
    · rename_i c hf
      obtain ⟨hc, _⟩ := findClient_some hf
      exact stale_update (c := c) hs hc (reset_host c) (Nat.le_refl _) (Or.inr (Or.inl (reset_timer c)))
  | disconnected h' =>
    simp only [step]
    split
    · exact hs
    · rename_i c hf
      obtain ⟨hc, _⟩ := findClient_some hf
      by_cases ht : c.timer = true
      · refine stale_update (c := c) hs hc rfl (by simp [ht]) ?_
        right; left
        simp [ht]
      · refine stale_update (c := c) hs hc rfl (by simp [ht]) ?_
        right; right
        have := hs.1
        simp [ht]
        omega
  | lifetime h' g' =>
    simp only [step]
    split
    · exact hs
    · rename_i c hf
      obtain ⟨hc, _⟩ := findClient_some hf
      split
      · exact hs
      · split
        · exact stale_update (c := c) hs hc rfl (Nat.le_refl _) (Or.inl rfl)
        · exact stale_update (c := c) hs hc rfl (Nat.le_refl _) (Or.inl rfl)
  | rtr h' pdu =>
    simp only [step]
    split
    · exact hs
    · rename_i c hf
      obtain ⟨hc, _⟩ := findClient_some hf
      refine stale_update (c := c) hs hc (handleRTR_host _ c pdu) (Nat.le_refl _) ?_
      rcases handleRTR_timer m.table c pdu with h1 | h1
      · exact Or.inl h1
      · exact Or.inr (Or.inl h1)
  | enable h' =>
    simp only [step]
    split
    · exact hs
    · rename_i c hf
      obtain ⟨hc, _⟩ := findClient_some hf
      exact stale_update (c := c) hs hc (enable_host c) (Nat.le_refl _) (Or.inr (Or.inl (enable_timer c)))
  | disable h' =>
    simp only [step]
    split
    · exact hs
    · rename_i c hf
      obtain ⟨hc, _⟩ := findClient_some hf
      exact stale_update (c := c) hs hc (reset_host c) (Nat.le_refl _) (Or.inr (Or.inl (reset_timer c)))
  | softReset h' =>
    simp only [step]
    split
    · exact hs
    · rename_i c hf
      obtain ⟨hc, _⟩ := findClient_some hf
      exact stale_update (c := c) hs hc (softReset_host c) (Nat.le_refl _) (Or.inr (Or.inl (softReset_timer c)))

theorem stale_run (m : Mgr) (evs : List Ev) (h g : Nat) (hs : StaleGen m h g) : StaleGen (run m evs) h g := by
  induction evs generalizing m with
  | nil => exact hs
  | cons e es ih => exact ih _ (stale_step m e h g hs)

/-- a stale timeout event changes nothing -/
theorem stale_lifetime_noop (m : Mgr) (h g : Nat) (hs : StaleGen m h g) :
    step m (.lifetime h g) = (m, true, []) := by
  simp only [step]
  split
  · rfl
  · rename_i c hf
    obtain ⟨hc, hh⟩ := findClient_some hf
    rcases hs.2 c hc hh with h1 | h1
    · simp [h1]
    · have : g ≠ c.timerGen := fun e => h1 e.symm
      simp [this]

theorem inv_run (m : Mgr) (evs : List Ev) (hi : Inv m) : Inv (run m evs) := by
  induction evs generalizing m with
  | nil => exact hi
  | cons e es ih => exact ih _ (inv_step m e hi)

theorem inv_empty : Inv {} := ⟨wf_nil, by simp [recs], by simp⟩

end Roa
