import Model.ApiConvX
import Lemmas.ApiConv
/-! helper lemmas for the second part of Props/C18 (core Lean only) -/
namespace ApiConv
open Wire

theorem allSome_map {α β} (f : α → Option β) (g : α → β) :
    ∀ l : List α, (∀ a ∈ l, f a = some (g a)) → allSome f l = some (l.map g)
  | [], _ => rfl
  | a :: as, h => by
    simp only [allSome, h a (by simp), allSome_map f g as (fun x hx => h x (by simp [hx])), List.map_cons]

theorem allSome_none {α β} (f : α → Option β) :
    ∀ l : List α, (∃ a ∈ l, f a = none) → allSome f l = none
  | [], h => by obtain ⟨a, ha, _⟩ := h; cases ha
  | a :: as, h => by
    obtain ⟨x, hx, hn⟩ := h
    rcases List.mem_cons.mp hx with rfl | hx'
    · simp [allSome, hn]
    · have := allSome_none f as ⟨x, hx', hn⟩
      simp only [allSome, this]
      cases f a <;> rfl

theorem padTo_of_length {n : Nat} {v : Bytes} (h : v.length = n) : padTo n v = v := by
  unfold padTo
  rw [List.take_append_of_le_length (by omega)]
  rw [← h, List.take_length]

theorem be16_mod' (n : Nat) : be16 (n % 65536) = be16 n := be16_mod n

/-- fromApiNlris over a mapped list -/
theorem fromApiNlris_map (g : Nlri → Nlri) :
    ∀ l : List Nlri, (∀ n ∈ l, fromApiNlri (toApiNlri n) = some (g n)) →
      fromApiNlris (l.map toApiNlri) = some (l.map g)
  | [], _ => rfl
  | n :: ns, h => by
    simp only [List.map_cons, fromApiNlris, h n (by simp),
      fromApiNlris_map g ns (fun x hx => h x (by simp [hx]))]

theorem encExts_map (g : ExtComm → ExtComm) :
    ∀ l : List ExtComm, (∀ e ∈ l, encExt (g e) = encExt e) → encExts (l.map g) = encExts l
  | [], _ => rfl
  | e :: es, h => by
    simp only [List.map_cons, encExts, h e (by simp), encExts_map g es (fun x hx => h x (by simp [hx]))]

theorem map_id_of {α} (g : α → α) : ∀ l : List α, (∀ a ∈ l, g a = a) → l.map g = l
  | [], _ => rfl
  | a :: as, h => by
    simp only [List.map_cons, h a (by simp), map_id_of g as (fun x hx => h x (by simp [hx]))]

theorem isLinkLocal_length {b : Bytes} (h : isLinkLocal b = true) : b.length = 16 := by
  simp only [isLinkLocal, Bool.and_eq_true, beq_iff_eq] at h
  exact h.1.1

theorem validAddr_unmap {b : Bytes} (h : validAddr b = true) : validAddr (unmap b) = true := by
  unfold unmap
  split
  · rename_i hc
    simp [validAddr, List.length_drop, hc.1]
  · exact h

theorem isV4_of_octets' {b : Bytes} (h : Octets4 b) : isV4 b = true := by simp [isV4, h.1]

end ApiConv
