/-
  C17: Table.Info / Select with a VRF option agree, and DeleteVrf (deletePathsByVrf + the withdrawals)
  takes out exactly the locally originated routes under the VRF's RD.
-/
import Lemmas.VrfRtcDefs
import Lemmas.VrfRtcIdx
namespace VrfRtc
namespace DelAux

/-- withdrawing a local path-id-0 path from a destination under the VRF's RD whose local paths all
    have path-id 0 is filtering out the local paths (also when there is none) -/
theorem rs_filter (vr : Vrf) (q : VPath) (hq0 : q.src = 0) (hq1 : q.pathId = 0) :
    ∀ (l : List VPath), l.Pairwise (fun a b => sameSlot a b = false) →
      (∀ x, x ∈ l → x.src = 0 → x.pathId = 0) →
      (∀ x, x ∈ l → x.rd = vr.rd) →
      (removeSlot l q).1 = l.filter (fun p => !(p.src == 0 && p.rd == vr.rd))
  | [], _, _, _ => by simp [removeSlot]
  | a :: r, hp, hl, hr => by
    rw [List.pairwise_cons] at hp
    have ih := rs_filter vr q hq0 hq1 r hp.2 (fun x hx => hl x (List.mem_cons_of_mem _ hx))
      (fun x hx => hr x (List.mem_cons_of_mem _ hx))
    have hra := hr a (List.mem_cons_self ..)
    by_cases ha : a.src = 0
    · have hpa := hl a (List.mem_cons_self ..) ha
      have hs : sameSlot q a = true := by simp [sameSlot, ha, hpa, hq0, hq1]
      have hnone : ∀ x, x ∈ r → x.src ≠ 0 := by
        intro x hx h0
        have h1 := hp.1 x hx
        have hpx := hl x (List.mem_cons_of_mem _ hx) h0
        simp [sameSlot, ha, hpa, h0, hpx] at h1
      have hfr : r.filter (fun p => !(p.src == 0 && p.rd == vr.rd)) = r := by
        rw [List.filter_eq_self]
        intro x hx
        simp [hnone x hx]
      unfold removeSlot
      rw [List.filter_cons, hfr]
      simp [hs, ha, hra]
    · have hs : sameSlot q a = false := by simp [sameSlot, hq0, ha]
      unfold removeSlot
      rw [List.filter_cons, ← ih]
      simp [hs, ha]

/-- what the withdrawals of DeleteVrf keep true of the table -/
def Inv (t : Tbl) : Prop := TblWF t ∧ ∀ n p, p ∈ t.dest n → p.src = 0 → p.pathId = 0

/-- what every withdrawal of DeleteVrf is -/
def Cand (vr : Vrf) (p : VPath) : Prop := p.src = 0 ∧ p.pathId = 0 ∧ p.rd = vr.rd

theorem step_dest (vr : Vrf) (t : Tbl) (p : VPath) (h : Inv t) (hp : Cand vr p) (n : Nat × Nat) :
    (t.update p true).dest n =
      if n = p.nlri then (t.dest n).filter (fun p => !(p.src == 0 && p.rd == vr.rd)) else t.dest n := by
  by_cases hn : n = p.nlri
  · subst hn
    simp only [Tbl.update, calcDest, if_true]
    refine rs_filter vr p hp.1 hp.2.1 _ (h.1.slot_uniq _) (h.2 _) ?_
    intro x hx
    have e : x.rd = p.rd := congrArg Prod.fst (h.1.nlri_ok _ x hx)
    rw [e, hp.2.2]
  · simp [Tbl.update, hn]

theorem step_inv (vr : Vrf) (t : Tbl) (p : VPath) (h : Inv t) (hp : Cand vr p) : Inv (t.update p true) := by
  refine ⟨update_wf t p true h.1 (fun e => by cases e), ?_⟩
  intro n x hx
  rw [step_dest vr t p h hp] at hx
  by_cases hn : n = p.nlri
  · rw [if_pos hn] at hx
    exact h.2 n x (List.mem_filter.1 hx).1
  · rw [if_neg hn] at hx
    exact h.2 n x hx

theorem wa_dest (vr : Vrf) : ∀ (ps : List VPath) (t : Tbl), Inv t → (∀ p, p ∈ ps → Cand vr p) → ∀ n,
    (t.withdrawAll ps).dest n =
      if n ∈ ps.map VPath.nlri then (t.dest n).filter (fun p => !(p.src == 0 && p.rd == vr.rd))
      else t.dest n
  | [], t, _, _, n => by simp [Tbl.withdrawAll]
  | p :: ps, t, h, hc, n => by
    have hp := hc p (List.mem_cons_self ..)
    have ih := wa_dest vr ps (t.update p true) (step_inv vr t p h hp)
      (fun x hx => hc x (List.mem_cons_of_mem _ hx)) n
    have e : (t.withdrawAll (p :: ps)) = (t.update p true).withdrawAll ps := rfl
    rw [e, ih, step_dest vr t p h hp]
    by_cases h1 : n = p.nlri <;> by_cases h2 : n ∈ ps.map VPath.nlri
    · simp [h1, List.filter_filter]
    · rw [if_neg h2, if_pos h1]; simp [h1]
    · rw [if_pos h2, if_neg h1]
      have : n ∈ (p :: ps).map VPath.nlri := by
        rw [List.map_cons]; exact List.mem_cons_of_mem _ h2
      rw [if_pos this]
    · rw [if_neg h2, if_neg h1]
      have : ¬ n ∈ (p :: ps).map VPath.nlri := by
        rw [List.map_cons, List.mem_cons]
        rintro (e | e)
        · exact h1 e
        · exact h2 e
      rw [if_neg this]

theorem cand_of_mem (t : Tbl) (vr : Vrf)
    (hl : ∀ n p, p ∈ t.dest n → p.src = 0 → p.pathId = 0) (p : VPath) (hp : p ∈ delVrfPaths t vr) :
    Cand vr p := by
  unfold delVrfPaths at hp
  rw [List.mem_filterMap] at hp
  obtain ⟨n, _, hf⟩ := hp
  have hm := List.mem_of_find?_eq_some hf
  have hP := List.find?_some hf
  simp only [Bool.and_eq_true, beq_iff_eq] at hP
  exact ⟨hP.1, hl n p hm hP.1, hP.2⟩

end DelAux

open DelAux

/-- Info(VRF).NumPath is the number of paths Select(VRF) lists, NumDestination the number of listed destinations that have one -/
theorem vrfInfo_eq_select (t : Tbl) (vr : Vrf) :
    (vrfInfo t vr).2 = (t.nlris.map (fun n => (vrfSelect vr (t.dest n)).length)).sum ∧
    (vrfInfo t vr).1 = (t.nlris.filter (fun n => (vrfSelect vr (t.dest n)).length != 0)).length := by
  constructor
  · simp [vrfInfo, vrfSelect]
  · simp only [vrfInfo, vrfSelect, List.length_map, List.filter_map]
    rfl

/-- … and every other route stays, in its place -/
theorem delVrf_keeps (t : Tbl) (vr : Vrf) (h : TblWF t)
    (hl : ∀ n p, p ∈ t.dest n → p.src = 0 → p.pathId = 0) :
    ∀ n, (t.withdrawAll (delVrfPaths t vr)).dest n = (t.dest n).filter (fun p => !(p.src == 0 && p.rd == vr.rd)) := by
  intro n
  rw [wa_dest vr (delVrfPaths t vr) t ⟨h, hl⟩ (cand_of_mem t vr hl) n]
  by_cases hm : n ∈ (delVrfPaths t vr).map VPath.nlri
  · rw [if_pos hm]
  · rw [if_neg hm]
    symm
    rw [List.filter_eq_self]
    intro x hx
    cases hP : (x.src == 0 && x.rd == vr.rd) with
    | false => rfl
    | true =>
      exfalso
      apply hm
      have hne : t.dest n ≠ [] := List.ne_nil_of_mem hx
      have hn := h.listed n hne
      cases hf : (t.dest n).find? (fun p => p.src == 0 && p.rd == vr.rd) with
      | none =>
        rw [List.find?_eq_none] at hf
        exact absurd hP (hf x hx)
      | some y =>
        have hy := List.mem_of_find?_eq_some hf
        rw [List.mem_map]
        refine ⟨y, ?_, h.nlri_ok n y hy⟩
        unfold delVrfPaths
        rw [List.mem_filterMap]
        exact ⟨n, hn, hf⟩

/-- after DeleteVrf no locally originated route under the VRF's RD is left, whatever its rank in its destination was … -/
theorem delVrf_removes (t : Tbl) (vr : Vrf) (h : TblWF t)
    (hl : ∀ n p, p ∈ t.dest n → p.src = 0 → p.pathId = 0) :
    ∀ n p, p ∈ (t.withdrawAll (delVrfPaths t vr)).dest n → ¬ (p.src = 0 ∧ p.rd = vr.rd) := by
  intro n p hp hc
  rw [delVrf_keeps t vr h hl n, List.mem_filter] at hp
  simp [hc.1, hc.2] at hp

end VrfRtc
