/-
C13 — full-strength assembly: all compiled modes, including the local-admin-set bitmaps.
-/
import Model.CommMatch
import Lemmas.C13Main
import Lemmas.C13Set
namespace CommMatch
open Regex

/-- standard communities: EVERY compiled mode -/
theorem compile_sound_full (s : Str) (i : Nat) (pats : List Str) (r : R) (c : Nat)
    (hp : parse s = .ok r) (hi : pats[i]? = some s) :
    matchFast (compile s i) pats c = search r (render c) := by
  by_cases h3 : (compile s i).mode = 3
  · unfold compile at h3 ⊢
    cases h0 : (anchoredBody s).bind (fun b => parseExact b 16) with
    | some al => simp [h0] at h3
    | none =>
      simp only [h0] at h3 ⊢
      cases h1 : extractASN s with
      | some x =>
        obtain ⟨asn, rest⟩ := x
        simp only [h1] at h3
        by_cases hw : isWildcardLocal rest = true <;> simp [hw] at h3
      | none =>
        simp only [h1] at h3 ⊢
        cases h2 : tryWildASN s with
        | none => simp [h2] at h3
        | some ls =>
          simp only [matchFast, bmGet]
          rw [render_eq, localset_sound s ls r _ _ h2 hp]
  · exact compile_sound_core s i pats r c hp hi h3

/-- every pattern of the list is in the modelled fragment and compiles -/
def InFragment (list : List Str) : Prop := ∀ s ∈ list, ∃ r, parse s = .ok r

theorem loop_compile_full (opt : Nat) (pats : List Str) (cs : List Nat) :
    ∀ (l pre : List Str) (b : Bool), pats = pre ++ l → InFragment l →
      evalLoop opt (fun m => cs.any (fun y => matchFast m pats y)) (compileFrom pre.length l) b =
        evalLoop opt (fun p => (cs.map render).any (fun t => reMatch p t)) l b := by
  intro l
  induction l with
  | nil => intro pre b _ _; rfl
  | cons s l ih =>
    intro pre b hp hs
    rcases hs s (by simp) with ⟨r, hr⟩
    have hi : pats[pre.length]? = some s := by rw [hp]; simp
    have hhit : cs.any (fun y => matchFast (compile s pre.length) pats y) =
        (cs.map render).any (fun t => reMatch s t) := by
      rw [List.any_map]
      congr 1
      funext y
      simp only [Function.comp]
      rw [compile_sound_full s pre.length pats r y hr hi, reMatch_of_parse hr]
    have hrec := ih (pre ++ [s]) ((cs.map render).any (fun t => reMatch s t)) (by rw [hp]; simp)
      (fun x hx => hs x (by simp [hx]))
    simp only [List.length_append, List.length_cons, List.length_nil, Nat.zero_add] at hrec
    simp only [compileFrom, evalLoop, hhit, hrec]

theorem contains_le {ls : List Nat} (hlt : ∀ n ∈ ls, n < 65536) (l : Nat) :
    (decide (l ≤ 65535) && ls.contains l) = ls.contains l := by
  cases h : ls.contains l with
  | false => simp
  | true =>
    have := hlt l (List.contains_iff_mem.1 h)
    simp; omega

/-- extended communities: EVERY compiled mode -/
theorem compileExt_sound_full (sub : Nat) (s : Str) (r : R) (x : EC)
    (hp : parse s = .ok r) (hx : ECWF x) :
    matchExt (compileExt sub s) x = (x.sub == sub && search r x.text) := by
  by_cases h2 : (compileExt sub s).mode = 2
  · unfold compileExt at h2 ⊢
    simp only at h2 ⊢
    cases h0 : (anchoredBody s).bind (fun b => parseExact b 32) with
    | some al => simp [h0] at h2
    | none =>
      simp only [h0] at h2 ⊢
      cases h1 : extractASN s with
      | none =>
        simp only [h1] at h2
        cases hb : anchoredBody s with
        | none => simp [hb] at h2
        | some b =>
          simp only [hb] at h2
          cases hl : tryWildASN s <;> simp [hl] at h2
      | some y =>
        obtain ⟨asn, rest⟩ := y
        simp only [h1] at h2 ⊢
        by_cases hw : isWildcardLocal rest = true
        · simp [hw] at h2
        · simp only [hw, Bool.false_eq_true, if_false] at h2 ⊢
          cases hb : anchoredBody s with
          | none => simp [hb] at h2
          | some b =>
            simp only [hb] at h2 ⊢
            cases hf : fromColon b with
            | nil => simp [hf] at h2
            | cons c0 rhs =>
              simp only [hf] at h2 ⊢
              cases hl : parseLocalSet rhs with
              | none => simp [hl] at h2
              | some ls =>
                simp only
                cases x with
                | two sb tr a' l' =>
                  simp only [matchExt, EC.sub, EC.text, bmGet]
                  rw [show toDec a' ++ [58] ++ toDec l' = toDec a' ++ 58 :: toDec l' by simp]
                  rw [asbitmap_sound s b asn rest c0 rhs ls r a' l' h1 hb hf hl hp]
                  rw [Bool.and_assoc, Bool.and_assoc, contains_le (parseLocalSet_lt rhs ls hl)]
                | other sb tr t =>
                  simp only [matchExt, EC.sub, EC.text]
                  cases hsb : (sb == sub) with
                  | false => simp
                  | true =>
                    simp only [Bool.true_and]
                    exact false_of_noprefix hx (fun hm => asn_text h1 hp hm)
  · by_cases h3 : (compileExt sub s).mode = 3
    · unfold compileExt at h3 ⊢
      simp only at h3 ⊢
      cases h0 : (anchoredBody s).bind (fun b => parseExact b 32) with
      | some al => simp [h0] at h3
      | none =>
        simp only [h0] at h3 ⊢
        cases h1 : extractASN s with
        | some y =>
          obtain ⟨asn, rest⟩ := y
          simp only [h1] at h3
          by_cases hw : isWildcardLocal rest = true
          · simp [hw] at h3
          · simp only [hw, Bool.false_eq_true, if_false] at h3
            cases hb : anchoredBody s with
            | none => simp [hb] at h3
            | some b =>
              simp only [hb] at h3
              cases hf : fromColon b with
              | nil => simp [hf] at h3
              | cons c0 rhs =>
                simp only [hf] at h3
                cases hl : parseLocalSet rhs <;> simp [hl] at h3
        | none =>
          simp only [h1] at h3 ⊢
          cases hb : anchoredBody s with
          | none => simp [hb] at h3
          | some b =>
            simp only [hb] at h3 ⊢
            cases hl : tryWildASN s with
            | none => simp [hl] at h3
            | some ls =>
              simp only
              cases x with
              | two sb tr a' l' =>
                simp only [matchExt, EC.sub, EC.text, bmGet]
                rw [show toDec a' ++ [58] ++ toDec l' = toDec a' ++ 58 :: toDec l' by simp]
                rw [localset_sound s ls r a' l' hl hp]
                rw [Bool.and_assoc, contains_le (localset_lt s ls hl)]
              | other sb tr t =>
                simp only [matchExt, EC.sub, EC.text]
                cases hsb : (sb == sub) with
                | false => simp
                | true =>
                  simp only [Bool.true_and]
                  exact false_of_noprefix hx (fun hm => localset_text s ls r t hl hp hm)
    · exact compileExt_sound_core sub s r x hp hx h2 h3

def InFragmentX (list : List (Nat × Str)) : Prop := ∀ e ∈ list, ∃ r, parse e.2 = .ok r

theorem loop_compileExt_full (opt : Nat) (es : List EC) (hes : ∀ x ∈ es, ECWF x) :
    ∀ (l : List (Nat × Str)) (b : Bool), InFragmentX l →
      evalLoop opt (fun m => es.any (fun x => x.trans && matchExt m x)) (l.map (fun e => compileExt e.1 e.2)) b =
        evalLoop opt (fun (e : Nat × Str) => es.any (fun x => x.trans && (x.sub == e.1 && reMatch e.2 x.text))) l b := by
  intro l
  induction l with
  | nil => intro b _; rfl
  | cons e l ih =>
    intro b hs
    rcases hs e (by simp) with ⟨r, hr⟩
    have hhit : es.any (fun x => x.trans && matchExt (compileExt e.1 e.2) x) =
        es.any (fun x => x.trans && (x.sub == e.1 && reMatch e.2 x.text)) := by
      apply any_congr_mem
      intro x hx
      rw [compileExt_sound_full e.1 e.2 r x hr (hes x hx), reMatch_of_parse hr]
    have hrec := ih (es.any (fun x => x.trans && (x.sub == e.1 && reMatch e.2 x.text)))
      (fun y hy => hs y (by simp [hy]))
    simp only [List.map_cons, evalLoop, hhit, hrec]

end CommMatch
