/-
  World-level tie between the Adj-RIB-In of every peer and the Loc-RIB (C02), and the remaining
  operations of the world (locally injected routes, AddPeer, DeletePeer).

  `Covered`: every Loc-RIB path whose source is peer `c` has a stored, non-rejected Adj-RIB-In
  entry with the same (prefix, path-id) at that peer — nothing survives in the Loc-RIB after its
  Adj-RIB-In entry was withdrawn, replaced by a loop-rejected route, or dropped with the session.
-/
import Lemmas.WorldInv
namespace World
open BestPath

def KeyOf (a : AdjEntry) (r : Cand) : Prop := a.rejected = false ∧ a.r.pfx = r.pfx ∧ a.r.pathId = r.pathId

def Covered (g : Global) (rib : List (Nat × List Cand)) (c : PeerCfg) (L : List AdjEntry) : Prop :=
  ∀ e ∈ rib, ∀ r ∈ e.2, r.src = c.srcInfo g → ∃ a ∈ L, KeyOf a r

/-- every accepted key of `L0` is an accepted key of `L` -/
def KeysLe (L0 L : List AdjEntry) : Prop :=
  ∀ a ∈ L0, a.rejected = false →
    ∃ a' ∈ L, a'.rejected = false ∧ a'.r.pfx = a.r.pfx ∧ a'.r.pathId = a.r.pathId

theorem Covered.mono {g : Global} {rib : List (Nat × List Cand)} {c : PeerCfg} {L0 L : List AdjEntry}
    (hk : KeysLe L0 L) (h : Covered g rib c L0) : Covered g rib c L := by
  intro e he r hr hs
  obtain ⟨a, ha, h1, h2, h3⟩ := h e he r hr hs
  obtain ⟨a', ha', g1, g2, g3⟩ := hk a ha h1
  exact ⟨a', ha', g1, g2.trans h2, g3.trans h3⟩

def AdjOK (w : W) (ps : PeerSt) : Prop :=
  (∀ a ∈ ps.adj.entries, a.r.src = ps.cfg.srcInfo w.g) ∧ Covered w.g w.rib ps.cfg ps.adj.entries

structure FullInv (w : W) : Prop where
  inv : Inv w
  adj : ∀ ps ∈ w.peers, AdjOK w ps

/-! ### what one table update changes -/

theorem ribUpdate_frame (w : W) (op : Op) (pfx : Nat) :
    (ribUpdate w op pfx).g = w.g ∧
    (ribUpdate w op pfx).rib =
      (pfx, calcStep w.opts (w.ribOf pfx) op) :: w.rib.filter (fun e => e.1 != pfx) ∧
    ∃ f : PeerSt → PeerSt, (∀ ps, (f ps).cfg = ps.cfg ∧ (f ps).adj = ps.adj ∧ (f ps).up = ps.up) ∧
      (ribUpdate w op pfx).peers = w.peers.map f := by
  show (fanout (w.setRib pfx (calcStep w.opts (w.ribOf pfx) op)) (w.ribOf pfx)
    (calcStep w.opts (w.ribOf pfx) op)).g = _ ∧ _
  obtain ⟨hp, hr, hg⟩ := fanout_peers (w.setRib pfx (calcStep w.opts (w.ribOf pfx) op))
    (w.ribOf pfx) (calcStep w.opts (w.ribOf pfx) op)
  refine ⟨hg, hr, _, ?_, hp⟩
  intro ps
  split
  · split <;> exact ⟨rfl, rfl, rfl⟩
  · exact ⟨rfl, rfl, rfl⟩

theorem srcInfo_ne_local (g : Global) (c : PeerCfg) : localSrc ≠ c.srcInfo g := by
  intro h
  have := congrArg Src.addr h
  simp [localSrc, PeerCfg.srcInfo] at this

/-- a table update keeps `Covered` when an announced route of peer `c` has its entry in `L` -/
theorem covered_ribUpdate (w : W) (op : Op) (pfx : Nat) (c : PeerCfg) (L : List AdjEntry)
    (hc : Covered w.g w.rib c L)
    (hop : ∀ r, op = .ann r → r.src = c.srcInfo w.g → ∃ a ∈ L, KeyOf a r) :
    Covered w.g (ribUpdate w op pfx).rib c L := by
  obtain ⟨_, hrib, _⟩ := ribUpdate_frame w op pfx
  rw [hrib]
  intro e he r hr hs
  rw [List.mem_cons] at he
  rcases he with rfl | he
  · rcases calcStep_subset w.opts (w.ribOf pfx) op r hr with h | h
    · obtain ⟨e0, he0, _, hr0⟩ := mem_ribOf w pfx r h
      exact hc e0 he0 r hr0 hs
    · exact hop r h hs
  · exact hc e (List.mem_filter.mp he).1 r hr hs

/-- a withdrawal of key (`pfx`, `x.pathId`) of peer `c` lets that key leave the list -/
theorem covered_ribUpdate_wd (w : W) (hinv : Inv w) (x : Cand) (pfx : Nat) (c : PeerCfg)
    (L0 L : List AdjEntry) (hc : Covered w.g w.rib c L0) (hx : x.src = c.srcInfo w.g)
    (hL : ∀ a ∈ L0, a.rejected = false → (a.r.pfx = pfx ∧ a.r.pathId = x.pathId) ∨
      ∃ a' ∈ L, a'.rejected = false ∧ a'.r.pfx = a.r.pfx ∧ a'.r.pathId = a.r.pathId) :
    Covered w.g (ribUpdate w (.wd x) pfx).rib c L := by
  obtain ⟨_, hrib, _⟩ := ribUpdate_frame w (.wd x) pfx
  rw [hrib]
  intro e he r hr hs
  rw [List.mem_cons] at he
  rcases he with rfl | he
  · rw [mem_calcStep_wd _ _ _ (ribOf_nodup w hinv pfx)] at hr
    obtain ⟨hr, hk⟩ := hr
    obtain ⟨e0, he0, hp0, hr0⟩ := mem_ribOf w pfx r hr
    obtain ⟨a, ha, h1, h2, h3⟩ := hc e0 he0 r hr0 hs
    have hrp : r.pfx = pfx := by rw [(hinv.rib e0 he0 r hr0).1, hp0]
    have hne : r.pathId ≠ x.pathId := by
      intro heq
      have : sameKey r x = true := by
        simp only [sameKey, Bool.and_eq_true, beq_iff_eq]
        exact ⟨srcEqual_of_eq (hs.trans hx.symm), heq⟩
      rw [this] at hk; cases hk
    rcases hL a ha h1 with ⟨_, hb⟩ | ⟨a', ha', g1, g2, g3⟩
    · exact absurd (h3.symm.trans hb) hne
    · exact ⟨a', ha', g1, g2.trans h2, g3.trans h3⟩
  · have hmem := (List.mem_filter.mp he).1
    have hne : e.1 ≠ pfx := by simpa using (List.mem_filter.mp he).2
    obtain ⟨a, ha, h1, h2, h3⟩ := hc e hmem r hr hs
    have hrp : r.pfx = e.1 := (hinv.rib e hmem r hr).1
    rcases hL a ha h1 with ⟨hb, _⟩ | ⟨a', ha', g1, g2, g3⟩
    · exact absurd ((hrp.symm.trans h2.symm).trans hb) hne
    · exact ⟨a', ha', g1, g2.trans h2, g3.trans h3⟩

/-- the route `propagate` hands to the table: LOCAL_PREF possibly stripped, identity kept -/
theorem propagate_eq (w : W) (x : PeerCfg) (r : Cand) (wd : Bool) :
    ∃ r', r'.src = r.src ∧ r'.pathId = r.pathId ∧ r'.pfx = r.pfx ∧
      propagate w x r wd = ribUpdate w (if wd then .wd r' else .ann r') r.pfx := by
  unfold propagate
  by_cases h : (!x.isIBGP w.g) = true
  · exact ⟨{ r with localPref := none }, rfl, rfl, rfl, by simp only [h, if_true]⟩
  · exact ⟨r, rfl, rfl, rfl, by simp only [h, if_false]; rfl⟩

/-- lifting per-peer facts through the peer map of a table update -/
theorem adjOK_ribUpdate (w : W) (op : Op) (pfx : Nat)
    (h : ∀ ps ∈ w.peers, (∀ a ∈ ps.adj.entries, a.r.src = ps.cfg.srcInfo w.g) ∧
      Covered w.g (ribUpdate w op pfx).rib ps.cfg ps.adj.entries) :
    ∀ ps ∈ (ribUpdate w op pfx).peers, AdjOK (ribUpdate w op pfx) ps := by
  obtain ⟨hg, _, f, hf, hp⟩ := ribUpdate_frame w op pfx
  intro ps' hps'
  rw [hp] at hps'
  obtain ⟨ps, hps, rfl⟩ := List.mem_map.mp hps'
  unfold AdjOK
  rw [(hf ps).1, (hf ps).2.1, hg]
  exact h ps hps

/-! ### Adj-RIB-In entry lists after one update -/

theorem adjWithdraw_entries (adj : Adj) (r : Cand) :
    (adjWithdraw adj r).entries = adj.entries.filter (fun e => !adjKeyEq e.r r) := by
  unfold adjWithdraw
  cases hf : adj.entries.find? (fun e => adjKeyEq e.r r) with
  | some old => rfl
  | none =>
    simp only
    symm; rw [List.filter_eq_self]
    intro a ha
    have := List.find?_eq_none.mp hf a ha
    simpa using this

theorem adjAnnounce_other (adj : Adj) (r : Cand) (rej : Bool) :
    ∀ a ∈ adj.entries, adjKeyEq a.r r = false → a ∈ (adjAnnounce adj r rej).1.entries := by
  intro a ha hk
  unfold adjAnnounce
  split
  · simp only [List.mem_map]
    exact ⟨a, ha, by simp [hk]⟩
  · simp only [List.mem_append]
    exact Or.inl ha

theorem adjAnnounce_mem (adj : Adj) (r : Cand) (rej : Bool) :
    ∀ a' ∈ (adjAnnounce adj r rej).1.entries, a' ∈ adj.entries ∨
      (a'.r.src = r.src ∧ a'.r.pfx = r.pfx ∧ a'.r.pathId = r.pathId ∧ a'.rejected = rej) := by
  intro a' ha'
  unfold adjAnnounce at ha'
  split at ha'
  · simp only [List.mem_map] at ha'
    obtain ⟨a, ha, rfl⟩ := ha'
    cases hk : adjKeyEq a.r r
    · simp only [Bool.false_eq_true, if_false]; exact Or.inl ha
    · right
      simp only [if_true]
      split <;> simp
  · simp only [List.mem_append, List.mem_singleton] at ha'
    rcases ha' with h | rfl
    · exact Or.inl h
    · exact Or.inr ⟨rfl, rfl, rfl, rfl⟩

theorem adjAnnounce_has (adj : Adj) (r : Cand) (rej : Bool) :
    ∃ a' ∈ (adjAnnounce adj r rej).1.entries, a'.rejected = rej ∧ a'.r.pfx = r.pfx ∧
      a'.r.pathId = r.pathId := by
  unfold adjAnnounce
  split
  · rename_i old hf
    have hmem := List.mem_of_find?_eq_some hf
    have hk : adjKeyEq old.r r = true := by simpa using List.find?_some hf
    refine ⟨_, List.mem_map.mpr ⟨old, hmem, rfl⟩, ?_⟩
    simp only [hk, if_true]
    split <;> simp
  · exact ⟨⟨r, rej⟩, by simp, rfl, rfl, rfl⟩

theorem adjAnnounce_ret (adj : Adj) (r : Cand) (rej : Bool) :
    (adjAnnounce adj r rej).2.src = r.src ∧ (adjAnnounce adj r rej).2.pfx = r.pfx ∧
      (adjAnnounce adj r rej).2.pathId = r.pathId := by
  unfold adjAnnounce
  split
  · simp only
    split <;> exact ⟨rfl, rfl, rfl⟩
  · exact ⟨rfl, rfl, rfl⟩

theorem adjKeyEq_true {a b : Cand} : adjKeyEq a b = true ↔ a.pfx = b.pfx ∧ a.pathId = b.pathId := by
  simp [adjKeyEq]

theorem keysLe_refl (L : List AdjEntry) : KeysLe L L := fun a ha h => ⟨a, ha, h, rfl, rfl⟩

theorem keysLe_trans {A B C : List AdjEntry} (h1 : KeysLe A B) (h2 : KeysLe B C) : KeysLe A C := by
  intro a ha hr
  obtain ⟨b, hb, g1, g2, g3⟩ := h1 a ha hr
  obtain ⟨c, hc, k1, k2, k3⟩ := h2 b hb g1
  exact ⟨c, hc, k1, k2.trans g2, k3.trans g3⟩

theorem keysLe_map (L : List AdjEntry) (f : AdjEntry → AdjEntry)
    (hf : ∀ a, (f a).rejected = a.rejected ∧ (f a).r.pfx = a.r.pfx ∧ (f a).r.pathId = a.r.pathId) :
    KeysLe L (L.map f) := by
  intro a ha hr
  exact ⟨f a, List.mem_map.mpr ⟨a, ha, rfl⟩, by rw [(hf a).1]; exact hr, (hf a).2.1, (hf a).2.2⟩

theorem keysLe_announce (adj : Adj) (r : Cand) :
    KeysLe adj.entries (adjAnnounce adj r false).1.entries := by
  intro a ha hr
  cases hk : adjKeyEq a.r r
  · exact ⟨a, adjAnnounce_other adj r false a ha hk, hr, rfl, rfl⟩
  · obtain ⟨a', ha', g1, g2, g3⟩ := adjAnnounce_has adj r false
    obtain ⟨k1, k2⟩ := adjKeyEq_true.mp hk
    exact ⟨a', ha', g1, g2.trans k1.symm, g3.trans k2.symm⟩

/-! ### one peer's Adj-RIB-In changes, then the table is updated -/

theorem peer_of_idx {peers : List PeerSt} (wf : PeersWF peers) {a b : PeerSt}
    (ha : a ∈ peers) (hb : b ∈ peers) (h : a.cfg.idx = b.cfg.idx) : a = b := by
  have := wf.idx
  induction peers with
  | nil => cases ha
  | cons x xs ih =>
    rw [List.pairwise_cons] at this
    rw [List.mem_cons] at ha hb
    rcases ha with rfl | ha <;> rcases hb with rfl | hb
    · rfl
    · exact absurd h (this.1 b hb)
    · exact absurd h.symm (this.1 a ha)
    · exact ih ⟨(List.pairwise_cons.mp wf.addr).2, this.2⟩ ha hb this.2

theorem fullInv_of_eq (w w' : W) (h : FullInv w) (hg : w'.g = w.g) (hp : w'.peers = w.peers)
    (hr : w'.rib = w.rib) : FullInv w' := by
  refine ⟨inv_of_eq w w' h.inv hg hp hr, ?_⟩
  intro ps hps
  rw [hp] at hps
  unfold AdjOK
  rw [hg, hr]
  exact h.adj ps hps

theorem full_updAdj_propagate (w : W) (h : FullInv w) (idx : Nat) (ps : PeerSt)
    (hp : w.peer? idx = some ps) (adj' : Adj) (r : Cand) (wd : Bool)
    (hsrc : r.src = ps.cfg.srcInfo w.g)
    (hwf : ∀ a ∈ adj'.entries, a.r.src = ps.cfg.srcInfo w.g)
    (hann : wd = false → KeysLe ps.adj.entries adj'.entries ∧ ∃ a ∈ adj'.entries, KeyOf a r)
    (hwd : wd = true → ∀ a ∈ ps.adj.entries, a.rejected = false →
      (a.r.pfx = r.pfx ∧ a.r.pathId = r.pathId) ∨
      ∃ a' ∈ adj'.entries, a'.rejected = false ∧ a'.r.pfx = a.r.pfx ∧ a'.r.pathId = a.r.pathId) :
    FullInv (propagate (w.updPeer idx (fun ps => { ps with adj := adj' })) ps.cfg r wd) := by
  obtain ⟨hmem, hidx⟩ := peer?_mem w idx ps hp
  generalize hw2 : w.updPeer idx (fun ps => { ps with adj := adj' }) = w2
  have hinv2 : Inv w2 := by
    rw [← hw2]; exact updPeer_inv w idx _ (fun _ => ⟨rfl, rfl, rfl⟩) h.inv
  have hg2 : w2.g = w.g := by rw [← hw2]; rfl
  have hr2 : w2.rib = w.rib := by rw [← hw2]; rfl
  have hp2 : w2.peers = w.peers.map (fun q => if q.cfg.idx == idx then { q with adj := adj' } else q) := by
    rw [← hw2]; rfl
  have hsrcIn : SrcIn w2.g w2.peers r := by
    rw [hg2, hp2]
    refine SrcIn.map _ ?_ (Or.inr ⟨ps, hmem, hsrc⟩)
    intro q; split <;> rfl
  refine ⟨propagate_inv w2 ps.cfg r wd hinv2 (fun _ => hsrcIn), ?_⟩
  obtain ⟨r', hs', hk', hp', heq⟩ := propagate_eq w2 ps.cfg r wd
  rw [heq]
  apply adjOK_ribUpdate
  intro q2 hq2
  rw [hp2] at hq2
  obtain ⟨q, hq, rfl⟩ := List.mem_map.mp hq2
  by_cases hi : (q.cfg.idx == idx) = true
  · have hqps : q = ps := peer_of_idx h.inv.peers hq hmem (by rw [hidx]; simpa using hi)
    subst hqps
    simp only [hi, if_true]
    refine ⟨by rw [hg2]; exact hwf, ?_⟩
    have hcov := (h.adj q hq).2
    rw [← hg2, ← hr2] at hcov
    cases wd with
    | false =>
      obtain ⟨hle, a, ha, h1, h2, h3⟩ := hann rfl
      have := covered_ribUpdate w2 (.ann r') r.pfx q.cfg adj'.entries (hcov.mono hle)
        (fun r'' hr'' _ => by
          cases hr''
          exact ⟨a, ha, h1, h2.trans hp'.symm, h3.trans hk'.symm⟩)
      simpa using this
    | true =>
      have := covered_ribUpdate_wd w2 hinv2 r' r.pfx q.cfg q.adj.entries adj'.entries hcov
        (by rw [hs', hsrc, hg2])
        (fun a ha hr => by rw [hk']; exact hwd rfl a ha hr)
      simpa using this
  · have hi' : (q.cfg.idx == idx) = false := by simpa using hi
    simp only [hi', Bool.false_eq_true, if_false]
    refine ⟨by rw [hg2]; exact (h.adj q hq).1, ?_⟩
    have hcov := (h.adj q hq).2
    rw [← hg2, ← hr2] at hcov
    apply covered_ribUpdate w2 _ r.pfx q.cfg q.adj.entries hcov
    intro r'' hr'' hs''
    exfalso
    cases wd with
    | true => simp at hr''
    | false =>
      simp only [Bool.false_eq_true, if_false, Op.ann.injEq] at hr''
      subst hr''
      rw [hs', hsrc] at hs''
      have haddr : ps.cfg.addr = q.cfg.addr := by
        have := congrArg Src.addr hs''
        simpa [PeerCfg.srcInfo] using this
      have : ps = q := peer_of_addr h.inv.peers hmem hq haddr
      subst this
      rw [hidx] at hi'
      simp at hi'

/-! ### the operations -/

theorem recvWd_full (w : W) (idx pfx pathId : Nat) (h : FullInv w) :
    FullInv (recvWd w idx pfx pathId) := by
  unfold recvWd
  cases hp : w.peer? idx with
  | none => exact h
  | some ps =>
    simp only
    split
    · exact h
    · have h1 : FullInv { w with tick := w.tick + 1 } := fullInv_of_eq w _ h rfl rfl rfl
      generalize hx : ({ (default : Cand) with src := ps.cfg.srcInfo w.g, pfx := pfx, pathId := pathId, ts := w.tick + 1 } : Cand) = x
      have hxs : x.src = ps.cfg.srcInfo w.g := by subst hx; rfl
      refine full_updAdj_propagate _ h1 idx ps hp (adjWithdraw ps.adj x) x true hxs ?_
        (fun e => by cases e) ?_
      · intro a ha
        rw [adjWithdraw_entries] at ha
        exact (h.adj ps (peer?_mem w idx ps hp).1).1 a (List.mem_filter.mp ha).1
      · intro _ a ha hr
        rw [adjWithdraw_entries]
        cases hk : adjKeyEq a.r x
        · exact Or.inr ⟨a, List.mem_filter.mpr ⟨ha, by simp [hk]⟩, hr, rfl, rfl⟩
        · exact Or.inl (adjKeyEq_true.mp hk)

theorem recvAnn_full (w : W) (idx : Nat) (r0 : Cand) (h : FullInv w) :
    FullInv (recvAnn w idx r0) := by
  unfold recvAnn
  cases hp : w.peer? idx with
  | none => exact h
  | some ps =>
    simp only
    split
    · exact h
    · have h1 : FullInv { w with tick := w.tick + 1 } := fullInv_of_eq w _ h rfl rfl rfl
      have hadjwf := (h.adj ps (peer?_mem w idx ps hp).1).1
      generalize hr : ({ r0 with src := ps.cfg.srcInfo w.g, ts := w.tick + 1 } : Cand) = r
      have hsrc : r.src = ps.cfg.srcInfo w.g := by subst hr; rfl
      generalize hrej : inboundRejected w.g ps.cfg r = rej
      obtain ⟨hs2, hp2, hk2⟩ := adjAnnounce_ret ps.adj r rej
      -- the stored entries, before and after the in-place LOCAL_PREF strip
      have hwf1 : ∀ a ∈ (adjAnnounce ps.adj r rej).1.entries, a.r.src = ps.cfg.srcInfo w.g := by
        intro a ha
        rcases adjAnnounce_mem ps.adj r rej a ha with h' | ⟨h', _⟩
        · exact hadjwf a h'
        · rw [h', hsrc]
      cases rej with
      | true =>
        refine full_updAdj_propagate _ h1 idx ps hp _ _ true (hs2.trans hsrc) hwf1
          (fun e => by cases e) ?_
        intro _ a ha hrj
        cases hk : adjKeyEq a.r r
        · exact Or.inr ⟨a, adjAnnounce_other ps.adj r true a ha hk, hrj, rfl, rfl⟩
        · obtain ⟨k1, k2⟩ := adjKeyEq_true.mp hk
          exact Or.inl ⟨k1.trans hp2.symm, k2.trans hk2.symm⟩
      | false =>
        refine full_updAdj_propagate _ h1 idx ps hp _ _ false (hs2.trans hsrc) ?_ ?_
          (fun e => by cases e)
        · intro a ha
          simp only [Bool.not_false, Bool.true_and] at ha
          split at ha
          · simp only [List.mem_map] at ha
            obtain ⟨b, hb, rfl⟩ := ha
            split
            · exact hwf1 b hb
            · exact hwf1 b hb
          · exact hwf1 a ha
        · intro _
          obtain ⟨a', ha', g1, g2, g3⟩ := adjAnnounce_has ps.adj r false
          simp only [Bool.not_false, Bool.true_and]
          split
          · let f : AdjEntry → AdjEntry := fun e =>
              if adjKeyEq e.r (adjAnnounce ps.adj r false).2
              then { e with r := { e.r with localPref := none } } else e
            have hf : ∀ a, (f a).rejected = a.rejected ∧ (f a).r.pfx = a.r.pfx ∧
                (f a).r.pathId = a.r.pathId := by
              intro a; simp only [f]; split <;> exact ⟨rfl, rfl, rfl⟩
            refine ⟨keysLe_trans (keysLe_announce ps.adj r) (keysLe_map _ f hf), ?_⟩
            refine ⟨f a', List.mem_map.mpr ⟨a', ha', rfl⟩, ?_, ?_, ?_⟩
            · rw [(hf a').1]; exact g1
            · rw [(hf a').2.1, g2, hp2]
            · rw [(hf a').2.2, g3, hk2]
          · exact ⟨keysLe_announce ps.adj r, a', ha', g1, g2.trans hp2.symm, g3.trans hk2.symm⟩

/-- a table update that concerns no peer's Adj-RIB-In (a local route, or any withdrawal) -/
theorem full_ribUpdate_local (w : W) (h : FullInv w) (op : Op) (pfx : Nat) (hop : OpWF w pfx op)
    (hloc : ∀ r, op = .ann r → r.src = localSrc) : FullInv (ribUpdate w op pfx) := by
  refine ⟨ribUpdate_inv w op pfx h.inv hop, ?_⟩
  apply adjOK_ribUpdate
  intro ps hps
  refine ⟨(h.adj ps hps).1, covered_ribUpdate w op pfx ps.cfg _ (h.adj ps hps).2 ?_⟩
  intro r hr hs
  exact absurd ((hloc r hr).symm.trans hs) (srcInfo_ne_local w.g ps.cfg)

theorem localAdd_full (w : W) (r0 : Cand) (h : FullInv w) : FullInv (localAdd w r0) := by
  unfold localAdd
  have h1 : FullInv { w with tick := w.tick + 1 } := fullInv_of_eq w _ h rfl rfl rfl
  exact full_ribUpdate_local _ h1 _ _ ⟨rfl, Or.inl rfl⟩ (fun r hr => by cases hr; rfl)

theorem localDel_full (w : W) (pfx pathId : Nat) (h : FullInv w) : FullInv (localDel w pfx pathId) := by
  unfold localDel
  have h1 : FullInv { w with tick := w.tick + 1 } := fullInv_of_eq w _ h rfl rfl rfl
  exact full_ribUpdate_local _ h1 _ _ trivial (fun r hr => by cases hr)

theorem sessionUp_full (w : W) (idx : Nat) (h : FullInv w) : FullInv (sessionUp w idx) := by
  refine ⟨sessionUp_inv w idx h.inv, ?_⟩
  unfold sessionUp
  cases hp : w.peer? idx with
  | none => exact h.adj
  | some ps0 =>
    simp only
    intro ps' hps'
    simp only [W.updPeer, List.mem_map] at hps'
    obtain ⟨ps, hps, rfl⟩ := hps'
    have := h.adj ps hps
    split <;> exact this

/-- every stored entry of a peer is withdrawn from the table, one after the other: nothing of
    that peer stays in the Loc-RIB -/
theorem drop_fold (c0 : PeerCfg) (idx : Nat) : ∀ (L : List AdjEntry) (w : W), Inv w →
    (∀ a ∈ L, a.r.src = c0.srcInfo w.g) →
    Covered w.g w.rib c0 L →
    (∀ ps ∈ w.peers, ps.cfg.idx ≠ idx → AdjOK w ps) →
    (∀ ps ∈ w.peers, ps.cfg.idx = idx → ps.cfg = c0 ∧ ps.adj.entries = []) →
    Inv (L.foldl (fun w e => propagate w c0 e.r true) w) ∧
    Covered (L.foldl (fun w e => propagate w c0 e.r true) w).g
      (L.foldl (fun w e => propagate w c0 e.r true) w).rib c0 [] ∧
    (∀ ps ∈ (L.foldl (fun w e => propagate w c0 e.r true) w).peers, ps.cfg.idx ≠ idx →
      AdjOK (L.foldl (fun w e => propagate w c0 e.r true) w) ps) ∧
    (∀ ps ∈ (L.foldl (fun w e => propagate w c0 e.r true) w).peers, ps.cfg.idx = idx →
      ps.cfg = c0 ∧ ps.adj.entries = []) := by
  intro L
  induction L with
  | nil => intro w hinv _ hc ho hi; exact ⟨hinv, hc, ho, hi⟩
  | cons a rest ih =>
    intro w hinv hsrc hc ho hi
    simp only [List.foldl_cons]
    obtain ⟨r', hs', hk', hp', heq⟩ := propagate_eq w c0 a.r true
    simp only [if_true] at heq
    obtain ⟨hg, _, f, hf, hpeers⟩ := ribUpdate_frame w (.wd r') a.r.pfx
    have hinv' : Inv (propagate w c0 a.r true) := propagate_inv w c0 a.r true hinv (fun h => by cases h)
    rw [heq] at hinv' ⊢
    apply ih _ hinv'
    · intro b hb
      rw [hg]; exact hsrc b (List.mem_cons_of_mem _ hb)
    · rw [hg]
      apply covered_ribUpdate_wd w hinv r' a.r.pfx c0 (a :: rest) rest hc
        (by rw [hs']; exact hsrc a List.mem_cons_self)
      intro b hb hr
      rw [List.mem_cons] at hb
      rcases hb with rfl | hb
      · exact Or.inl ⟨rfl, hk'.symm⟩
      · exact Or.inr ⟨b, hb, hr, rfl, rfl⟩
    · intro ps' hps' hne
      rw [hpeers] at hps'
      obtain ⟨ps, hps, rfl⟩ := List.mem_map.mp hps'
      rw [(hf ps).1] at hne
      unfold AdjOK
      rw [(hf ps).1, (hf ps).2.1, hg]
      refine ⟨(ho ps hps hne).1, covered_ribUpdate w _ _ ps.cfg _ (ho ps hps hne).2 ?_⟩
      intro r hr; cases hr
    · intro ps' hps' he
      rw [hpeers] at hps'
      obtain ⟨ps, hps, rfl⟩ := List.mem_map.mp hps'
      rw [(hf ps).1] at he ⊢
      rw [(hf ps).2.1]
      exact hi ps hps he

theorem sessionDown_full (w : W) (idx : Nat) (h : FullInv w) : FullInv (sessionDown w idx) := by
  unfold sessionDown
  cases hp : w.peer? idx with
  | none => exact h
  | some ps0 =>
    simp only
    obtain ⟨hmem, hidx⟩ := peer?_mem w idx ps0 hp
    have h1 : FullInv { w with tick := w.tick + 1 } := fullInv_of_eq w _ h rfl rfl rfl
    generalize hw1 : ({ w with tick := w.tick + 1 } : W) = w1 at h1
    have hmem1 : ps0 ∈ w1.peers := by subst hw1; exact hmem
    have h2 := downPeer_inv w1 idx h1.inv
    obtain ⟨g1, g2, g3, g4⟩ := drop_fold ps0.cfg idx ps0.adj.entries
      (w1.updPeer idx (fun ps => { ps with up := false, view := [], adj := {} })) h2
      (h1.adj ps0 hmem1).1 (h1.adj ps0 hmem1).2
      (by
        intro ps' hps' hne
        simp only [W.updPeer, List.mem_map] at hps'
        obtain ⟨q, hq, rfl⟩ := hps'
        by_cases hi : (q.cfg.idx == idx) = true
        · simp only [hi, if_true] at hne; exact absurd (by simpa using hi) hne
        · have hi' : (q.cfg.idx == idx) = false := by simpa using hi
          simp only [hi', Bool.false_eq_true, if_false]
          exact h1.adj q hq)
      (by
        intro ps' hps' he
        simp only [W.updPeer, List.mem_map] at hps'
        obtain ⟨q, hq, rfl⟩ := hps'
        by_cases hi : (q.cfg.idx == idx) = true
        · simp only [hi, if_true]
          have : q = ps0 := peer_of_idx h1.inv.peers hq hmem1 (by rw [hidx]; simpa using hi)
          subst this
          constructor <;> first | rfl | trivial
        · have hi' : (q.cfg.idx == idx) = false := by simpa using hi
          simp only [hi', Bool.false_eq_true, if_false] at he
          rw [he] at hi'; simp at hi')
    refine ⟨g1, ?_⟩
    intro ps hps
    by_cases hi : ps.cfg.idx = idx
    · obtain ⟨hc, he⟩ := g4 ps hps hi
      unfold AdjOK
      rw [he, hc]
      exact ⟨fun a ha => (by cases ha), g2⟩
    · exact g3 ps hps hi

theorem addPeer_full (w : W) (cfg : PeerCfg) (h : FullInv w) : FullInv (addPeer w cfg) := by
  unfold addPeer
  split
  · exact h
  · rename_i hany
    have hfresh : ∀ q ∈ w.peers, q.cfg.idx ≠ cfg.idx ∧ q.cfg.addr ≠ cfg.addr := by
      intro q hq
      have hq' : ¬ ((q.cfg.idx == cfg.idx || q.cfg.addr == cfg.addr) = true) :=
        fun hh => hany (List.any_eq_true.mpr ⟨q, hq, hh⟩)
      simp only [Bool.or_eq_true, beq_iff_eq, not_or] at hq'
      exact hq'
    have hsub : ∀ r, SrcIn w.g w.peers r → SrcIn w.g (w.peers ++ [{ cfg := cfg }]) r := by
      intro r hr
      rcases hr with hr | ⟨q, hq, hs⟩
      · exact Or.inl hr
      · exact Or.inr ⟨q, List.mem_append_left _ hq, hs⟩
    refine ⟨⟨⟨?_, ?_⟩, h.inv.keys, ?_, ?_, h.inv.nodup⟩, ?_⟩
    · rw [List.pairwise_append]
      refine ⟨h.inv.peers.addr, List.pairwise_singleton _ _, ?_⟩
      intro a ha b hb
      simp only [List.mem_singleton] at hb
      subst hb
      exact (hfresh a ha).2
    · rw [List.pairwise_append]
      refine ⟨h.inv.peers.idx, List.pairwise_singleton _ _, ?_⟩
      intro a ha b hb
      simp only [List.mem_singleton] at hb
      subst hb
      exact (hfresh a ha).1
    · intro e he r hr
      exact ⟨(h.inv.rib e he r hr).1, hsub r (h.inv.rib e he r hr).2⟩
    · intro ps hps hup hrs q
      simp only [List.mem_append, List.mem_singleton] at hps
      rcases hps with hps | rfl
      · exact h.inv.views ps hps hup hrs q
      · cases hup
    · intro ps hps
      simp only [List.mem_append, List.mem_singleton] at hps
      rcases hps with hps | rfl
      · exact h.adj ps hps
      · refine ⟨fun a ha => (by cases ha), ?_⟩
        intro e he r hr hs
        exfalso
        rcases (h.inv.rib e he r hr).2 with hl | ⟨q, hq, hsq⟩
        · exact srcInfo_ne_local w.g cfg (hl.symm.trans hs)
        · have := congrArg Src.addr (hsq.symm.trans hs)
          simp only [PeerCfg.srcInfo, Option.some.injEq] at this
          exact (hfresh q hq).2 this

theorem delPeer_full (w : W) (idx : Nat) (h : FullInv w) : FullInv (delPeer w idx) := by
  unfold delPeer
  cases hp : w.peer? idx with
  | none => exact h
  | some ps0 =>
    simp only
    obtain ⟨hmem, hidx⟩ := peer?_mem w idx ps0 hp
    have h1 : FullInv { w with tick := w.tick + 1 } := fullInv_of_eq w _ h rfl rfl rfl
    generalize hw1 : ({ w with tick := w.tick + 1 } : W) = w1 at h1
    have hmem1 : ps0 ∈ w1.peers := by subst hw1; exact hmem
    have h2 : Inv (w1.updPeer idx (fun ps => { ps with adj := {} })) :=
      updPeer_inv w1 idx _ (fun _ => ⟨rfl, rfl, rfl⟩) h1.inv
    obtain ⟨g1, g2, g3, g4⟩ := drop_fold ps0.cfg idx ps0.adj.entries
      (w1.updPeer idx (fun ps => { ps with adj := {} })) h2
      (h1.adj ps0 hmem1).1 (h1.adj ps0 hmem1).2
      (by
        intro ps' hps' hne
        simp only [W.updPeer, List.mem_map] at hps'
        obtain ⟨q, hq, rfl⟩ := hps'
        by_cases hi : (q.cfg.idx == idx) = true
        · simp only [hi, if_true] at hne; exact absurd (by simpa using hi) hne
        · have hi' : (q.cfg.idx == idx) = false := by simpa using hi
          simp only [hi', Bool.false_eq_true, if_false]
          exact h1.adj q hq)
      (by
        intro ps' hps' he
        simp only [W.updPeer, List.mem_map] at hps'
        obtain ⟨q, hq, rfl⟩ := hps'
        by_cases hi : (q.cfg.idx == idx) = true
        · simp only [hi, if_true]
          have : q = ps0 := peer_of_idx h1.inv.peers hq hmem1 (by rw [hidx]; simpa using hi)
          subst this
          constructor <;> first | rfl | trivial
        · have hi' : (q.cfg.idx == idx) = false := by simpa using hi
          simp only [hi', Bool.false_eq_true, if_false] at he
          rw [he] at hi'; simp at hi')
    generalize (ps0.adj.entries.foldl (fun w e => propagate w ps0.cfg e.r true)
      (w1.updPeer idx (fun ps => { ps with adj := {} }))) = wf at g1 g2 g3 g4
    have hsubl : (wf.peers.filter (fun q => q.cfg.idx != idx)).Sublist wf.peers := List.filter_sublist
    have hkeep : ∀ q ∈ wf.peers, q.cfg.idx ≠ idx → q ∈ wf.peers.filter (fun q => q.cfg.idx != idx) := by
      intro q hq hne
      exact List.mem_filter.mpr ⟨hq, by simpa using hne⟩
    refine ⟨⟨⟨g1.peers.addr.sublist hsubl, g1.peers.idx.sublist hsubl⟩, g1.keys, ?_, ?_, g1.nodup⟩, ?_⟩
    · intro e he r hr
      refine ⟨(g1.rib e he r hr).1, ?_⟩
      rcases (g1.rib e he r hr).2 with hl | ⟨q, hq, hs⟩
      · exact Or.inl hl
      · by_cases hi : q.cfg.idx = idx
        · exfalso
          obtain ⟨hc, _⟩ := g4 q hq hi
          rw [hc] at hs
          obtain ⟨a, ha, _⟩ := g2 e he r hr hs
          cases ha
        · exact Or.inr ⟨q, hkeep q hq hi, hs⟩
    · intro ps hps hup hrs q
      exact g1.views ps (List.mem_filter.mp hps).1 hup hrs q
    · intro ps hps
      have hne : ps.cfg.idx ≠ idx := by simpa using (List.mem_filter.mp hps).2
      exact g3 ps (List.mem_filter.mp hps).1 hne

/-! ### every history -/

theorem step_full (w : W) (op : WOp) (h : FullInv w) : FullInv (step w op) := by
  cases op with
  | up i => exact sessionUp_full w i h
  | down i => exact sessionDown_full w i h
  | ann i r => exact recvAnn_full w i r h
  | wd i p k => exact recvWd_full w i p k h
  | localAdd r => exact localAdd_full w r h
  | localDel p k => exact localDel_full w p k h
  | add c => exact addPeer_full w c h
  | del i => exact delPeer_full w i h

theorem run_full (w : W) (ops : List WOp) (h : FullInv w) : FullInv (ops.foldl step w) := by
  induction ops generalizing w with
  | nil => exact h
  | cons op rest ih => exact ih _ (step_full w op h)

/-- the speaker before anything happened: configured peers, all sessions down, empty Loc-RIB -/
def init (g : Global) (cfgs : List PeerCfg) : W :=
  { g := g, peers := cfgs.map (fun c => { cfg := c }) }

theorem init_full (g : Global) (cfgs : List PeerCfg)
    (haddr : cfgs.Pairwise (fun a b => a.addr ≠ b.addr))
    (hidx : cfgs.Pairwise (fun a b => a.idx ≠ b.idx)) : FullInv (init g cfgs) := by
  refine ⟨⟨⟨?_, ?_⟩, List.Pairwise.nil, ?_, ?_, ?_⟩, ?_⟩
  · simp only [init, List.pairwise_map]; exact haddr
  · simp only [init, List.pairwise_map]; exact hidx
  · intro e he; cases he
  · intro ps hps hup
    simp only [init, List.mem_map] at hps
    obtain ⟨c, _, rfl⟩ := hps
    cases hup
  · intro e he; cases he
  · intro ps hps
    simp only [init, List.mem_map] at hps
    obtain ⟨c, _, rfl⟩ := hps
    exact ⟨fun a ha => (by cases ha), fun e he => (by cases he)⟩

end World
