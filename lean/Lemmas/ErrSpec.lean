import Lemmas.ErrSession
/- C06: the flat (order-free) catalogue of semantic faults and its link to ValidateUpdateMsg -/
namespace ErrH

def hasT (l : List AttrObs) (t : Nat) : Bool := l.any (fun a => a.typ == t)

/-- attributes whose own decoder reported nothing -/
def good (items : List AttrObs) : List AttrObs := items.filter (fun a => a.derr.isNone)

def familyFault (c : Cfg) (wd nlri : Nat) : List MErr :=
  if (nlri > 0 || wd > 0) && !c.v4 then [MErr.fatal 0 0] else []

def missingFault (attrs : List AttrObs) (nlri : Nat) : List MErr :=
  if (hasT attrs 14 || nlri > 0) &&
      (!hasT attrs 1 || !hasT attrs 2 || (decide (nlri > 0) && !hasT attrs 3)) then [missErr] else []

/-- every semantic fault ValidateUpdateMsg can see, as a flat list -/
def semAll (c : Cfg) (attrs : List AttrObs) (wd nlri : Nat) : List MErr :=
  familyFault c wd nlri ++ (semFaults c attrs [] ++ missingFault attrs nlri)

theorem validateLoop_inl_rank (c : Cfg) (attrs : List AttrObs) (seen : List Nat) (cur : Option MErr)
    (e : MErr) (h : validateLoop c attrs seen cur = .inl e) : e.h.rank = 4 := by
  induction attrs generalizing seen cur with
  | nil => simp [validateLoop] at h
  | cons a rest ih =>
    unfold validateLoop at h
    by_cases hs : seen.contains a.typ
    · simp only [hs, Bool.not_true, Bool.false_eq_true, ↓reduceIte] at h
      by_cases hm : (a.typ == 14 || a.typ == 15) = true
      · simp only [hm, ↓reduceIte, Sum.inl.injEq] at h; subst h; rfl
      · simp only [hm, Bool.false_eq_true, ↓reduceIte] at h; exact ih _ _ h
    · simp only [hs, Bool.not_false, ↓reduceIte, Bool.false_eq_true] at h
      cases hv : validateAttr c a with
      | none =>
        rw [hv] at h
        cases hr : validateLoop c rest (a.typ :: seen) cur with
        | inl e' => rw [hr] at h; simp only [Sum.inl.injEq] at h; subst h; exact ih _ _ hr
        | inr p => rw [hr] at h; simp at h
      | some e' =>
        rw [hv] at h
        by_cases hr : (e'.h == Handling.reset) = true
        · simp only [hr, ↓reduceIte, Sum.inl.injEq] at h
          subst h
          have : e'.h = Handling.reset := by simpa using hr
          rw [this]; rfl
        · simp only [hr, Bool.false_eq_true, ↓reduceIte] at h
          cases hr2 : validateLoop c rest (a.typ :: seen) (keep cur e') with
          | inl e'' => rw [hr2] at h; simp only [Sum.inl.injEq] at h; subst h; exact ih _ _ hr2
          | inr p => rw [hr2] at h; simp at h

/-- ValidateUpdateMsg reports the strongest semantic fault -/
theorem validate_rk (c : Cfg) (attrs : List AttrObs) (wd nlri : Nat) :
    rk (validate c attrs wd nlri).1 = maxRk (semAll c attrs wd nlri) := by
  unfold validate semAll familyFault
  by_cases hf : ((decide (nlri > 0) || decide (wd > 0)) && !c.v4) = true
  · have := maxRk_le_four (semFaults c attrs [] ++ missingFault attrs nlri)
    simp only [hf, ↓reduceIte, rk, MErr.fatal, Handling.rank, List.cons_append, List.nil_append, maxRk]
    omega
  · simp only [hf, Bool.false_eq_true, ↓reduceIte, List.nil_append, maxRk_append]
    have hl := validateLoop_rk c attrs [] none
    have hm2 : maxRk (missingFault attrs nlri) ≤ 2 := by
      unfold missingFault; split <;> simp [maxRk, missErr, Handling.rank]
    cases hv : validateLoop c attrs [] none with
    | inl e =>
      rw [hv] at hl
      have h4 := validateLoop_inl_rank c attrs [] none e hv
      simp only [rkS, rk_none] at hl
      simp only [rk]; omega
    | inr p =>
      obtain ⟨cur, l, seen⟩ := p
      rw [hv] at hl
      simp only [rkS, rk_none] at hl
      obtain ⟨_, hseen⟩ := validateLoop_inr c attrs [] none cur l seen hv
      have hs : ∀ t, seen.contains t = hasT attrs t := by
        intro t; rw [hseen t]; simp [hasT]
      simp only [hs]
      unfold missingFault
      by_cases hmiss : ((hasT attrs 14 || decide (nlri > 0)) &&
          (!hasT attrs 1 || !hasT attrs 2 || (decide (nlri > 0) && !hasT attrs 3))) = true
      · simp only [hmiss, ↓reduceIte, maxRk, missErr, Handling.rank]
        have : (hasT attrs 14 || decide (nlri > 0)) = true := by
          simp only [Bool.and_eq_true] at hmiss; exact hmiss.1
        have h2 : (!hasT attrs 1 || !hasT attrs 2 || (decide (nlri > 0) && !hasT attrs 3)) = true := by
          simp only [Bool.and_eq_true] at hmiss; exact hmiss.2
        simp only [this, ↓reduceIte, h2, rk_keep, missErr, Handling.rank]
        omega
      · simp only [hmiss, Bool.false_eq_true, ↓reduceIte, maxRk]
        by_cases h14 : (hasT attrs 14 || decide (nlri > 0)) = true
        · have h2 : (!hasT attrs 1 || !hasT attrs 2 || (decide (nlri > 0) && !hasT attrs 3)) = false := by
            simp only [h14, Bool.true_and] at hmiss; simpa using hmiss
          simp only [h14, ↓reduceIte, h2, Bool.false_eq_true]; omega
        · simp only [h14, Bool.false_eq_true, ↓reduceIte]; omega

theorem decode_wd_nlri (m : AMsg) (hp : m.pre = none) (hn : m.nlriErr = none) :
    (decode m).wd = m.wd ∧ (decode m).nlri = m.nlri := by
  unfold decode; rw [hp, hn]; exact ⟨rfl, rfl⟩

theorem attrClass_pos (t : Nat) : 1 ≤ (attrClass t).rank := by
  unfold attrClass; split <;> simp [Handling.rank]

theorem itemFaults_le (items : List AttrObs) (a : AttrObs) (ha : a ∈ items) :
    rk (itemErr a) ≤ maxRk (itemFaults items) := by
  induction items with
  | nil => simp at ha
  | cons b rest ih =>
    simp only [itemFaults, maxRk_append, maxRk_toList]
    cases List.mem_cons.mp ha with
    | inl e => subst e; omega
    | inr h => have := ih h; omega

/-- after a decode of class at most "discard", exactly the attributes that decoded remain -/
theorem kept_eq_good (items : List AttrObs) (h : maxRk (itemFaults items) ≤ 1) :
    items.filter kept = good items := by
  unfold good
  apply List.filter_congr
  intro a ha
  have hle := itemFaults_le items a ha
  unfold kept
  cases hd : a.derr with
  | none => simp [itemErr, hd]
  | some p =>
    obtain ⟨c, s⟩ := p
    have hi : itemErr a = some ⟨c, s, if s == 4 then .withdraw else attrClass a.typ⟩ := by
      simp [itemErr, hd]
    rw [hi] at hle ⊢
    simp only [rk] at hle
    by_cases h4 : (s == 4) = true
    · simp [h4, Handling.rank] at hle; omega
    · simp only [h4, Bool.false_eq_true, ↓reduceIte] at hle ⊢
      have hp := attrClass_pos a.typ
      have : (attrClass a.typ).rank = 1 := by omega
      have hdisc : attrClass a.typ = .discard := by
        cases hc : attrClass a.typ <;> rw [hc] at this <;> simp [Handling.rank] at this
      simp [hdisc]

theorem good_derr (items : List AttrObs) (a : AttrObs) (h : a ∈ good items) : a.derr = none := by
  unfold good at h
  have := (List.mem_filter.mp h).2
  simpa using this

theorem any7_good (l : List AttrObs) (hd : ∀ a ∈ l, a.derr = none) :
    l.any (fun a => a.typ == 7 && a.derr.isNone) = l.any (fun a => a.typ == 7) := by
  induction l with
  | nil => rfl
  | cons b rest ih =>
    have hb : b.derr = none := hd b List.mem_cons_self
    have := ih (fun a ha => hd a (List.mem_cons_of_mem _ ha))
    simp [List.any_cons, hb, this]

theorem aggErr_firsts (attrs : List AttrObs) (hd : ∀ a ∈ attrs, a.derr = none) :
    aggErr (firsts attrs []) = (hasT attrs 18 && !hasT attrs 7) := by
  unfold aggErr hasT
  rw [any7_good _ (fun a ha => hd a (firsts_mem attrs [] a ha).1)]
  rw [firsts_nil_seen_any, firsts_nil_seen_any]

/-- unless it returned early (class reset), ValidateUpdateMsg leaves the first occurrence of every
    attribute type -/
theorem validate_snd (c : Cfg) (attrs : List AttrObs) (wd nlri : Nat)
    (h : rk (validate c attrs wd nlri).1 < 4) : (validate c attrs wd nlri).2 = firsts attrs [] := by
  unfold validate at h ⊢
  by_cases hf : ((decide (nlri > 0) || decide (wd > 0)) && !c.v4) = true
  · simp [hf, rk, MErr.fatal, Handling.rank] at h
  · simp only [hf, Bool.false_eq_true, ↓reduceIte] at h ⊢
    cases hv : validateLoop c attrs [] none with
    | inl e =>
      have h4 := validateLoop_inl_rank c attrs [] none e hv
      rw [hv] at h; simp only [rk] at h; omega
    | inr p =>
      obtain ⟨cur, l, seen⟩ := p
      obtain ⟨hl, _⟩ := validateLoop_inr c attrs [] none cur l seen hv
      simp only
      split <;> exact hl

theorem decodeLoop_clean (items : List AttrObs) (cur : Option MErr) (h : itemFaults items = []) :
    (decodeLoop items cur).1 = cur := by
  induction items generalizing cur with
  | nil => rfl
  | cons a rest ih =>
    simp only [itemFaults, List.append_eq_nil_iff] at h
    rw [decodeLoop_fst, ih _ h.2]
    have : itemErr a = none := by
      cases hi : itemErr a with
      | none => rfl
      | some e => rw [hi] at h; simp at h
    rw [this]; rfl

theorem itemFaults_nil_good (items : List AttrObs) (h : itemFaults items = []) :
    items.filter kept = items ∧ good items = items := by
  induction items with
  | nil => exact ⟨rfl, rfl⟩
  | cons a rest ih =>
    simp only [itemFaults, List.append_eq_nil_iff] at h
    have hi : itemErr a = none := by
      cases hi : itemErr a with
      | none => rfl
      | some e => rw [hi] at h; simp at h
    have hd : a.derr = none := by
      unfold itemErr at hi
      cases hd : a.derr with
      | none => rfl
      | some p => obtain ⟨x, y⟩ := p; rw [hd] at hi; simp at hi
    obtain ⟨i1, i2⟩ := ih h.2
    unfold good at i2 ⊢
    constructor
    · simp [List.filter_cons, kept, hi, i1]
    · simp [List.filter_cons, hd, i2]

/-- no semantic fault ⇒ ValidateUpdateMsg returns no error and leaves the list untouched -/
theorem validateLoop_clean (c : Cfg) (attrs : List AttrObs) (seen : List Nat) (cur : Option MErr)
    (h : semFaults c attrs seen = []) : ∃ sn, validateLoop c attrs seen cur = .inr (cur, attrs, sn) := by
  induction attrs generalizing seen with
  | nil => exact ⟨seen, rfl⟩
  | cons a rest ih =>
    unfold semFaults at h
    unfold validateLoop
    by_cases hs : seen.contains a.typ
    · have hs' : a.typ ∈ seen := by simpa using hs
      simp [hs'] at h
    · simp only [hs, Bool.false_eq_true, ↓reduceIte, List.append_eq_nil_iff] at h
      have hv : validateAttr c a = none := by
        cases hv : validateAttr c a with
        | none => rfl
        | some e => rw [hv] at h; simp at h
      obtain ⟨sn, hsn⟩ := ih _ h.2
      refine ⟨sn, ?_⟩
      simp only [hs, Bool.not_false, ↓reduceIte, hv, hsn]

theorem validate_clean (c : Cfg) (attrs : List AttrObs) (wd nlri : Nat)
    (h : semAll c attrs wd nlri = []) : validate c attrs wd nlri = (none, attrs) := by
  have hr := validate_rk c attrs wd nlri
  rw [h] at hr
  simp only [maxRk] at hr
  unfold semAll at h
  simp only [List.append_eq_nil_iff] at h
  obtain ⟨hf, hs, hm⟩ := h
  obtain ⟨sn, hsn⟩ := validateLoop_clean c attrs [] none hs
  have hlt : rk (validate c attrs wd nlri).1 < 4 := by omega
  have h2 := validate_snd c attrs wd nlri hlt
  have hfirst : firsts attrs [] = attrs := by
    obtain ⟨hl, _⟩ := validateLoop_inr c attrs [] none none attrs sn hsn
    exact hl.symm
  -- the error component: unfold once more
  have h1 : (validate c attrs wd nlri).1 = none := by
    unfold validate
    unfold familyFault at hf
    by_cases hff : ((decide (nlri > 0) || decide (wd > 0)) && !c.v4) = true
    · simp [hff] at hf
    · simp only [hff, Bool.false_eq_true, ↓reduceIte, hsn]
      obtain ⟨_, hseen⟩ := validateLoop_inr c attrs [] none none attrs sn hsn
      have hsx : ∀ t, sn.contains t = hasT attrs t := by
        intro t; rw [hseen t]; simp [hasT]
      unfold missingFault at hm
      simp only [hsx]
      by_cases h14 : (hasT attrs 14 || decide (nlri > 0)) = true
      · simp only [h14, ↓reduceIte]
        by_cases hmi : (!hasT attrs 1 || !hasT attrs 2 || (decide (nlri > 0) && !hasT attrs 3)) = true
        · simp [h14, hmi] at hm
        · simp [hmi]
      · simp [h14]
  rw [hfirst] at h2
  exact Prod.ext h1 h2

end ErrH
