/-
C13 — semantic lemmas: what the expressions of the recognised shapes match.
-/
import Model.CommMatch
import Lemmas.C13Regex
import Lemmas.C13Parse
import Lemmas.C13Dec
namespace CommMatch
open Regex

theorem lit_mem (c x : Nat) : (CS.mem ⟨false, [(c, c)]⟩ x = true) ↔ x = c := by
  simp [CS.mem, inRanges]; omega

theorem match_lit {t : List Nat} {c i k : Nat} : Match t (lit c) i k ↔ t[i]? = some c ∧ k = i + 1 := by
  constructor
  · intro h
    cases h with
    | chr h1 h2 =>
      rw [lit_mem] at h2; subst h2; exact ⟨h1, rfl⟩
  · rintro ⟨h1, rfl⟩
    exact .chr h1 ((lit_mem c c).2 rfl)

theorem drop_of_getElem? {t : List Nat} {i c : Nat} (h : t[i]? = some c) : t.drop i = c :: t.drop (i + 1) := by
  rcases List.getElem?_eq_some_iff.1 h with ⟨hi, hc⟩
  rw [List.drop_eq_getElem_cons hi, hc]

theorem getElem?_of_drop {t : List Nat} {i c : Nat} {l : List Nat} (h : t.drop i = c :: l) : t[i]? = some c := by
  have : (t.drop i)[0]? = some c := by rw [h]; rfl
  simpa using this

/-- a run of literal characters `w`, then `Y` -/
theorem match_lits {t : List Nat} {Y : List R} {j : Nat} : ∀ (w : List Nat) (i : Nat),
    Match t (catList (w.map lit ++ Y)) i j ↔
      (t.drop i = w ++ t.drop (i + w.length) ∧ Match t (catList Y) (i + w.length) j) := by
  intro w
  induction w with
  | nil => intro i; simp
  | cons c w ih =>
    intro i
    simp only [List.map_cons, List.cons_append, catList, List.length_cons]
    constructor
    · intro h
      cases h with
      | cat h1 h2 =>
        rcases match_lit.1 h1 with ⟨hc, rfl⟩
        rcases (ih (i + 1)).1 h2 with ⟨hd, hm⟩
        refine ⟨?_, by rw [show i + (w.length + 1) = i + 1 + w.length by omega]; exact hm⟩
        rw [drop_of_getElem? hc, hd]
        simp [show i + (w.length + 1) = i + 1 + w.length by omega]
    · rintro ⟨hd, hm⟩
      have hc : t[i]? = some c := getElem?_of_drop hd
      have hd' : t.drop (i + 1) = w ++ t.drop (i + 1 + w.length) := by
        rw [drop_of_getElem? hc] at hd
        simp only [List.cons.injEq, true_and] at hd
        rw [show i + 1 + w.length = i + (w.length + 1) by omega]; exact hd
      exact .cat (match_lit.2 ⟨hc, rfl⟩)
        ((ih (i + 1)).2 ⟨hd', by rw [show i + 1 + w.length = i + (w.length + 1) by omega]; exact hm⟩)

theorem match_bot_cat {t : List Nat} {X : R} {i j : Nat} : Match t (.cat .bot X) i j ↔ i = 0 ∧ Match t X 0 j := by
  constructor
  · intro h
    cases h with
    | cat h1 h2 => cases h1; exact ⟨rfl, h2⟩
  · rintro ⟨rfl, h⟩; exact .cat .bot h

theorem match_eps {t : List Nat} {i j : Nat} : Match t .eps i j ↔ j = i := by
  constructor
  · intro h; cases h; rfl
  · rintro rfl; exact .eps _

theorem match_eot_end {t : List Nat} {i j : Nat} : Match t (catList [.eot]) i j ↔ i = t.length ∧ j = t.length := by
  simp only [catList]
  constructor
  · intro h
    cases h with
    | cat h1 h2 => cases h1; cases h2; exact ⟨rfl, rfl⟩
  · rintro ⟨rfl, rfl⟩; exact .cat .eot (.eps _)

/-- `^w$` matches exactly the text `w` -/
theorem search_anchored_lits (w t : List Nat) :
    search (catList (.bot :: (w.map lit ++ [.eot]))) t = (t == w) := by
  rw [Bool.eq_iff_iff, search_iff]
  simp only [catList, beq_iff_eq]
  constructor
  · rintro ⟨i, j, _, h⟩
    rcases match_bot_cat.1 h with ⟨rfl, h'⟩
    rcases (match_lits w 0).1 h' with ⟨hd, hm⟩
    rcases match_eot_end.1 hm with ⟨hl, _⟩
    simp only [List.drop_zero, Nat.zero_add] at hd hl
    rw [hd, hl]; simp
  · rintro rfl
    refine ⟨0, t.length, Nat.zero_le _, match_bot_cat.2 ⟨rfl, (match_lits t 0).2 ⟨by simp, ?_⟩⟩⟩
    exact match_eot_end.2 ⟨by simp, by simp⟩

/-- anything that starts with `^w` only matches texts that start with `w` -/
theorem search_prefix {w t : List Nat} {Y : List R}
    (h : search (catList (.bot :: (w.map lit ++ Y))) t = true) : ∃ u, t = w ++ u := by
  rw [search_iff] at h
  rcases h with ⟨i, j, _, h⟩
  simp only [catList] at h
  rcases match_bot_cat.1 h with ⟨rfl, h'⟩
  rcases (match_lits w 0).1 h' with ⟨hd, _⟩
  exact ⟨_, by simpa using hd⟩

/-- a starred character set runs to the end of the text when every remaining byte is in the set -/
theorem star_to_end {t : List Nat} {s : CS} : ∀ (n k : Nat), t.length - k = n → k ≤ t.length →
    (∀ x ∈ t.drop k, s.mem x = true) → Match t (.star (.chr s)) k t.length := by
  intro n
  induction n with
  | zero => intro k h1 h2 _; have : k = t.length := by omega
            subst this; exact .star0 _
  | succ n ih =>
    intro k h1 h2 hall
    have hk : k < t.length := by omega
    have hd : t.drop k = t[k] :: t.drop (k + 1) := List.drop_eq_getElem_cons hk
    have hm : s.mem t[k] = true := hall _ (hd ▸ List.mem_cons_self)
    refine .starS (.chr (List.getElem?_eq_getElem hk) hm) (Nat.lt_succ_self _) ?_
    exact ih (k + 1) (by omega) (by omega) (fun x hx => hall x (hd ▸ List.mem_cons_of_mem _ hx))

end CommMatch
