/-
  Lemmas for C01RS, part 4: every operation of the speaker keeps `RSInv` (induction over
  histories), and the two groups are isolated: an event of a route-server client leaves the
  global table and every ordinary neighbour untouched; an event of an ordinary neighbour (or a
  local route) leaves the route-server table and every client untouched.
-/
import Lemmas.RouteServerInv
import Lemmas.RouteServerFrame
namespace RouteServer
open BestPath World

theorem ord_of_not_rs (s : S) (i : Nat) (h : ¬ s.isRS i = true) :
    ∀ ps, s.base.peer? i = some ps → ps.cfg.isRSClient = false := by
  intro ps hp
  unfold S.isRS at h
  rw [hp] at h
  simpa using h

theorem rs_of_isRS (s : S) (i : Nat) (h : s.isRS i = true) :
    ∃ ps, s.base.peer? i = some ps ∧ ps.cfg.isRSClient = true := by
  unfold S.isRS at h
  cases hp : s.base.peer? i with
  | none => simp [hp] at h
  | some ps => simp only [hp] at h; exact ⟨ps, rfl, h⟩

/-- an ordinary operation on the base keeps the route-server invariant -/
theorem inv_of_frame (s : S) (w' : W) (h : RSInv s) (hf : MapFrame isRSCfg s.base w') :
    RSInv { s with base := w' } :=
  inv_of_base s w' h hf.1 (hf.peersWF h.peers)
    (fun _ hps _ hrs => hf.mem_of_keep hps hrs)

theorem step_inv (s : S) (op : WOp) (h : RSInv s) : RSInv (step s op) := by
  cases op with
  | up i =>
    simp only [step]
    split
    · exact rsSessionUp_inv s i h
    · rename_i hrs
      exact inv_of_frame s _ h (sessionUp_frame s.base h.peers i (ord_of_not_rs s i hrs))
  | down i =>
    simp only [step]
    split
    · exact rsSessionDown_inv s i h
    · rename_i hrs
      exact inv_of_frame s _ h (sessionDown_frame s.base h.peers i (ord_of_not_rs s i hrs))
  | ann i r =>
    simp only [step]
    split
    · rename_i hrs
      exact rsRecvAnn_inv s i r hrs h
    · rename_i hrs
      exact inv_of_frame s _ h (recvAnn_frame s.base h.peers i r (ord_of_not_rs s i hrs))
  | wd i p k =>
    simp only [step]
    split
    · exact rsRecvWd_inv s i p k h
    · rename_i hrs
      exact inv_of_frame s _ h (recvWd_frame s.base h.peers i p k (ord_of_not_rs s i hrs))
  | localAdd r => exact inv_of_frame s _ h (localAdd_frame s.base r)
  | localDel p k => exact inv_of_frame s _ h (localDel_frame s.base p k)
  | add c =>
    obtain ⟨hg, _, hwf, hpe⟩ := addPeer_frame s.base h.peers c
    refine inv_of_base s _ h hg hwf ?_
    intro ps hps hup _
    rcases hpe with hpe | hpe
    · rw [hpe] at hps; exact hps
    · rw [hpe] at hps
      simp only [List.mem_append, List.mem_singleton] at hps
      rcases hps with hps | rfl
      · exact hps
      · cases hup
  | del i =>
    simp only [step]
    split
    · exact rsDelPeer_inv s i h
    · rename_i hrs
      rcases delPeer_frame s.base h.peers i (ord_of_not_rs s i hrs) with he | ⟨w1, hf, hg, hpe, _⟩
      · rw [he]; exact h
      · have hwf1 := hf.peersWF h.peers
        refine inv_of_base s _ h hg ?_ ?_
        · rw [hpe]
          exact ⟨List.Pairwise.sublist List.filter_sublist hwf1.addr,
            List.Pairwise.sublist List.filter_sublist hwf1.idx⟩
        · intro ps hps _ hrs'
          rw [hpe] at hps
          exact hf.mem_of_keep (List.mem_filter.mp hps).1 hrs'

theorem run_inv (s : S) (ops : List WOp) (h : RSInv s) : RSInv (ops.foldl step s) := by
  induction ops generalizing s with
  | nil => exact h
  | cons op rest ih => exact ih _ (step_inv s op h)

/-- the speaker before anything happened: configured neighbours (ordinary ones and route-server
    clients), all sessions down, both tables empty -/
def init (g : Global) (cfgs : List PeerCfg) : S := { base := World.init g cfgs }

theorem init_inv (g : Global) (cfgs : List PeerCfg)
    (haddr : cfgs.Pairwise (fun a b => a.addr ≠ b.addr))
    (hidx : cfgs.Pairwise (fun a b => a.idx ≠ b.idx)) : RSInv (init g cfgs) := by
  refine ⟨(init_full g cfgs haddr hidx).inv.peers, List.Pairwise.nil, ?_, ?_⟩
  · intro e he; cases he
  · intro ps hps hup
    have hps' : ps ∈ (World.init g cfgs).peers := hps
    simp only [World.init, List.mem_map] at hps'
    obtain ⟨c, _, rfl⟩ := hps'
    cases hup

/-! ### isolation of the two groups -/

def isOrdCfg (c : PeerCfg) : Bool := !c.isRSClient

/-- the base changed only by a configuration-preserving map that fixes every ORDINARY
    neighbour; the global table is untouched -/
def RsFrame (s s' : S) : Prop :=
  MapFrame isOrdCfg s.base s'.base ∧ s'.base.rib = s.base.rib

theorem RsFrame.refl (s : S) : RsFrame s s := ⟨MapFrame.refl _ _, rfl⟩

theorem RsFrame.trans {a b c : S} (h1 : RsFrame a b) (h2 : RsFrame b c) : RsFrame a c :=
  ⟨h1.1.trans h2.1, h2.2.trans h1.2⟩

theorem rsRibUpdate_frame (s : S) (op : Op) (pfx : Nat) : RsFrame s (rsRibUpdate s op pfx) := by
  refine ⟨⟨rfl, rsTarget s.base.g (s.rsRibOf pfx) (calcStep s.base.opts (s.rsRibOf pfx) op), rfl,
    fun ps => (rsTarget_cfg _ _ _ ps).1, ?_⟩, rfl⟩
  intro ps _ hk
  apply rsTarget_ord
  simpa [isOrdCfg] using hk

theorem rsPropagate_frame (s : S) (r : Cand) (wd : Bool) : RsFrame s (rsPropagate s r wd) :=
  rsRibUpdate_frame s _ _

theorem rs_fold_frame (L : List AdjEntry) : ∀ (s : S),
    RsFrame s (L.foldl (fun s e => rsPropagate s e.r true) s) := by
  induction L with
  | nil => intro s; exact RsFrame.refl s
  | cons e rest ih =>
    intro s
    simp only [List.foldl_cons]
    exact RsFrame.trans (rsPropagate_frame s e.r true) (ih _)

/-- in a well-formed neighbour list, if the neighbour found for `idx` is a route-server client
    then no ordinary neighbour has index `idx` -/
theorem no_ord_with_idx (w : W) (hp : PeersWF w.peers) (idx : Nat) (ps0 : PeerSt)
    (h0 : w.peer? idx = some ps0) (hrs : ps0.cfg.isRSClient = true) :
    ∀ ps ∈ w.peers, ps.cfg.idx = idx → ps.cfg.isRSClient = true := by
  intro ps hps hi
  obtain ⟨hm, h0i⟩ := peer?_mem w idx ps0 h0
  have : ps = ps0 := peer_of_idx hp hps hm (hi.trans h0i.symm)
  rw [this]; exact hrs

/-- clock tick + a change of the neighbours with index `idx`, all route-server clients -/
theorem rs_upd_frame (s : S) (idx : Nat) (f : PeerSt → PeerSt) (hf : ∀ ps, (f ps).cfg = ps.cfg)
    (hno : ∀ ps ∈ s.base.peers, ps.cfg.idx = idx → ps.cfg.isRSClient = true) :
    RsFrame s { s with base := ({ s.base with tick := s.base.tick + 1 } : W).updPeer idx f } := by
  refine ⟨⟨rfl, fun ps => if ps.cfg.idx == idx then f ps else ps, rfl, ?_, ?_⟩, rfl⟩
  · intro ps
    show (if ps.cfg.idx == idx then f ps else ps).cfg = ps.cfg
    split
    · exact hf ps
    · rfl
  · intro ps hps hk
    show (if ps.cfg.idx == idx then f ps else ps) = ps
    split
    · rename_i hi
      have := hno ps hps (beq_iff_eq.mp hi)
      simp [isOrdCfg, this] at hk
    · rfl

/-- every event of a route-server client that is not a DeletePeer -/
theorem rs_event_frame (s : S) (h : RSInv s) (i : Nat) (hrs : s.isRS i = true) :
    RsFrame s (rsSessionUp s i) ∧ RsFrame s (rsSessionDown s i) ∧
    (∀ r, RsFrame s (rsRecvAnn s i r)) ∧ (∀ p k, RsFrame s (rsRecvWd s i p k)) ∧
    (∃ s1, RsFrame s s1 ∧ (rsDelPeer s i).base.rib = s1.base.rib ∧ (rsDelPeer s i).base.g = s1.base.g ∧
      (rsDelPeer s i).base.peers = s1.base.peers.filter (fun q => q.cfg.idx != i)) := by
  obtain ⟨ps0, hp, hrs0⟩ := rs_of_isRS s i hrs
  have hno := no_ord_with_idx s.base h.peers i ps0 hp hrs0
  refine ⟨?_, ?_, ?_, ?_, ?_⟩
  · unfold rsSessionUp
    simp only [hp]
    exact rs_upd_frame s i _ (fun _ => rfl) hno
  · unfold rsSessionDown
    simp only [hp]
    refine RsFrame.trans ?_ (rs_fold_frame _ _)
    exact rs_upd_frame s i _ (fun _ => rfl) hno
  · intro r
    unfold rsRecvAnn
    simp only [hp]
    split
    · exact RsFrame.refl s
    · refine RsFrame.trans ?_ (rsPropagate_frame _ _ _)
      exact rs_upd_frame s i _ (fun _ => rfl) hno
  · intro p k
    unfold rsRecvWd
    simp only [hp]
    split
    · exact RsFrame.refl s
    · refine RsFrame.trans ?_ (rsPropagate_frame _ _ _)
      exact rs_upd_frame s i _ (fun _ => rfl) hno
  · unfold rsDelPeer
    simp only [hp]
    refine ⟨_, RsFrame.trans ?_ (rs_fold_frame _ _), rfl, rfl, rfl⟩
    exact rs_upd_frame s i _ (fun _ => rfl) hno

end RouteServer
