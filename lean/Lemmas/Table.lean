/-
C02 (table level) — helper lemmas, part A: the bucket structure `Tbl.Dests` refines a finite map
prefix → destination, for every hash function.  Core-only.
-/
import Model.Table
namespace Tbl
variable {δ ρ : Type}

/-- a chain stored under key `k`: non-empty (empty buckets are removed), every member hashes to
    `k`, no prefix twice -/
def ChainOK (h : Pfx → Nat) (k : Nat) (c : Chain δ) : Prop :=
  c ≠ [] ∧ (∀ e ∈ c, h e.1 = k) ∧ (c.map Prod.fst).Nodup

/-- the representation invariant of the bucket structure -/
def WF (h : Pfx → Nat) (t : Dests δ) : Prop :=
  (t.map Prod.fst).Nodup ∧ ∀ kc ∈ t, ChainOK h kc.1 kc.2

/-! ### helpers: the association list -/

theorem tA_mget_mset (t : Dests δ) (k : Nat) (c : Chain δ) (k' : Nat) :
    mget (mset t k c) k' = if k' = k then some c else mget t k' := by
  induction t with
  | nil =>
    by_cases hk : k' = k
    · simp [mset, mget, hk]
    · have : ¬ k = k' := fun e => hk e.symm
      simp [mset, mget, hk, this]
  | cons a r ih =>
    obtain ⟨k0, c0⟩ := a
    by_cases h0 : k0 = k
    · subst h0
      by_cases hk : k' = k0
      · simp [mset, mget, hk]
      · have : ¬ k0 = k' := fun e => hk e.symm
        simp [mset, mget, hk, this]
    · by_cases hk : k' = k
      · subst hk
        simp [mset, mget, h0, ih]
      · by_cases h1 : k0 = k'
        · simp [mset, mget, hk, h1]
        · simp [mset, mget, h0, hk, h1, ih]

theorem tA_mget_none_of_not_mem (t : Dests δ) (k : Nat) (hk : k ∉ t.map Prod.fst) :
    mget t k = none := by
  induction t with
  | nil => rfl
  | cons a r ih =>
    obtain ⟨k0, c0⟩ := a
    simp only [List.map_cons, List.mem_cons, not_or] at hk
    have : ¬ k0 = k := fun e => hk.1 e.symm
    simp [mget, this, ih hk.2]

theorem tA_mget_some_mem {t : Dests δ} {k : Nat} {c : Chain δ} (hm : mget t k = some c) :
    (k, c) ∈ t := by
  induction t with
  | nil => simp [mget] at hm
  | cons a r ih =>
    obtain ⟨k0, c0⟩ := a
    by_cases h0 : k0 = k
    · simp [mget, h0] at hm
      simp [h0, hm]
    · simp [mget, h0] at hm
      exact List.mem_cons_of_mem _ (ih hm)

theorem tA_mem_mdel {t : Dests δ} {k : Nat} {x : Nat × Chain δ} (hx : x ∈ mdel t k) : x ∈ t := by
  induction t with
  | nil => simp [mdel] at hx
  | cons a r ih =>
    obtain ⟨k0, c0⟩ := a
    by_cases h0 : k0 = k
    · simp [mdel, h0] at hx
      exact List.mem_cons_of_mem _ hx
    · simp only [mdel, h0, if_false, List.mem_cons] at hx
      rcases hx with hx | hx
      · simp [hx]
      · exact List.mem_cons_of_mem _ (ih hx)

theorem tA_keys_mdel_sub {t : Dests δ} {k k' : Nat} (hx : k' ∈ (mdel t k).map Prod.fst) :
    k' ∈ t.map Prod.fst := by
  rcases List.mem_map.1 hx with ⟨x, hx1, hx2⟩
  exact List.mem_map.2 ⟨x, tA_mem_mdel hx1, hx2⟩

theorem tA_nodup_mdel {t : Dests δ} (k : Nat) (hn : (t.map Prod.fst).Nodup) :
    ((mdel t k).map Prod.fst).Nodup := by
  induction t with
  | nil => simp [mdel]
  | cons a r ih =>
    obtain ⟨k0, c0⟩ := a
    simp only [List.map_cons, List.nodup_cons] at hn
    by_cases h0 : k0 = k
    · simp [mdel, h0, hn.2]
    · simp only [mdel, h0, if_false, List.map_cons, List.nodup_cons]
      exact ⟨fun hm => hn.1 (tA_keys_mdel_sub hm), ih hn.2⟩

theorem tA_mget_mdel {t : Dests δ} (hn : (t.map Prod.fst).Nodup) (k k' : Nat) :
    mget (mdel t k) k' = if k' = k then none else mget t k' := by
  induction t with
  | nil => simp [mdel, mget]
  | cons a r ih =>
    obtain ⟨k0, c0⟩ := a
    simp only [List.map_cons, List.nodup_cons] at hn
    by_cases h0 : k0 = k
    · subst h0
      by_cases hk : k' = k0
      · subst hk
        simp [mdel, tA_mget_none_of_not_mem r k' hn.1]
      · have : ¬ k0 = k' := fun e => hk e.symm
        simp [mdel, mget, hk, this]
    · by_cases hk : k' = k
      · subst hk
        simp [mdel, mget, h0, ih hn.2]
      · by_cases h1 : k0 = k'
        · simp [mdel, mget, hk, h1]
        · simp [mdel, mget, h0, hk, h1, ih hn.2]

theorem tA_mem_mset {t : Dests δ} {k : Nat} {c : Chain δ} {x : Nat × Chain δ}
    (hx : x ∈ mset t k c) : x = (k, c) ∨ x ∈ t := by
  induction t with
  | nil => simp [mset] at hx; exact Or.inl hx
  | cons a r ih =>
    obtain ⟨k0, c0⟩ := a
    by_cases h0 : k0 = k
    · simp only [mset, h0, if_true, List.mem_cons] at hx
      rcases hx with hx | hx
      · exact Or.inl hx
      · exact Or.inr (List.mem_cons_of_mem _ hx)
    · simp only [mset, h0, if_false, List.mem_cons] at hx
      rcases hx with hx | hx
      · exact Or.inr (by simp [hx])
      · rcases ih hx with h1 | h1
        · exact Or.inl h1
        · exact Or.inr (List.mem_cons_of_mem _ h1)

theorem tA_keys_mset_sub {t : Dests δ} {k : Nat} {c : Chain δ} {k' : Nat}
    (hx : k' ∈ (mset t k c).map Prod.fst) : k' = k ∨ k' ∈ t.map Prod.fst := by
  rcases List.mem_map.1 hx with ⟨x, hx1, hx2⟩
  rcases tA_mem_mset hx1 with h1 | h1
  · subst h1; exact Or.inl hx2.symm
  · exact Or.inr (List.mem_map.2 ⟨x, h1, hx2⟩)

theorem tA_nodup_mset {t : Dests δ} (k : Nat) (c : Chain δ) (hn : (t.map Prod.fst).Nodup) :
    ((mset t k c).map Prod.fst).Nodup := by
  induction t with
  | nil => simp [mset]
  | cons a r ih =>
    obtain ⟨k0, c0⟩ := a
    simp only [List.map_cons, List.nodup_cons] at hn
    by_cases h0 : k0 = k
    · subst h0
      simp only [mset, if_true, List.map_cons, List.nodup_cons]
      exact hn
    · simp only [mset, h0, if_false, List.map_cons, List.nodup_cons]
      refine ⟨fun hm => ?_, ih hn.2⟩
      rcases tA_keys_mset_sub hm with h1 | h1
      · exact h0 h1
      · exact hn.1 h1

theorem tA_wf_mset {h : Pfx → Nat} {t : Dests δ} (hw : WF h t) {k : Nat} {c : Chain δ}
    (hc : ChainOK h k c) : WF h (mset t k c) := by
  refine ⟨tA_nodup_mset k c hw.1, fun kc hkc => ?_⟩
  rcases tA_mem_mset hkc with h1 | h1
  · subst h1; exact hc
  · exact hw.2 kc h1

theorem tA_wf_mdel {h : Pfx → Nat} {t : Dests δ} (hw : WF h t) (k : Nat) : WF h (mdel t k) :=
  ⟨tA_nodup_mdel k hw.1, fun kc hkc => hw.2 kc (tA_mem_mdel hkc)⟩

theorem tA_chainOK_of_mget {h : Pfx → Nat} {t : Dests δ} (hw : WF h t) {k : Nat} {c : Chain δ}
    (hm : mget t k = some c) : ChainOK h k c :=
  hw.2 (k, c) (tA_mget_some_mem hm)

theorem tA_get_mset (h : Pfx → Nat) (t : Dests δ) (k : Nat) (c : Chain δ) (q : Pfx) :
    get h (mset t k c) q = if h q = k then chainFind c q else get h t q := by
  unfold get
  rw [tA_mget_mset]
  by_cases hq : h q = k <;> simp [hq]

theorem tA_get_mdel (h : Pfx → Nat) {t : Dests δ} (hn : (t.map Prod.fst).Nodup) (k : Nat) (q : Pfx) :
    get h (mdel t k) q = if h q = k then none else get h t q := by
  unfold get
  rw [tA_mget_mdel hn]
  by_cases hq : h q = k <;> simp [hq]

/-! ### helpers: one chain -/

theorem tA_chainFind_none_of_not_mem (c : Chain δ) (p : Pfx) (hp : p ∉ c.map Prod.fst) :
    chainFind c p = none := by
  induction c with
  | nil => rfl
  | cons a r ih =>
    obtain ⟨q, d⟩ := a
    simp only [List.map_cons, List.mem_cons, not_or] at hp
    have : ¬ q = p := fun e => hp.1 e.symm
    simp [chainFind, this, ih hp.2]

theorem tA_chainFind_ne_none_of_mem (c : Chain δ) (p : Pfx) (hp : p ∈ c.map Prod.fst) :
    chainFind c p ≠ none := by
  induction c with
  | nil => simp at hp
  | cons a r ih =>
    obtain ⟨q, d⟩ := a
    by_cases h0 : q = p
    · simp [chainFind, h0]
    · simp only [List.map_cons, List.mem_cons] at hp
      rcases hp with hp | hp
      · exact absurd hp.symm h0
      · simp [chainFind, h0, ih hp]

theorem tA_chainFind_some_mem {c : Chain δ} {p : Pfx} {d : δ} (hf : chainFind c p = some d) :
    (p, d) ∈ c := by
  induction c with
  | nil => simp [chainFind] at hf
  | cons a r ih =>
    obtain ⟨q, d0⟩ := a
    by_cases h0 : q = p
    · simp [chainFind, h0] at hf
      simp [h0, hf]
    · simp [chainFind, h0] at hf
      exact List.mem_cons_of_mem _ (ih hf)

theorem tA_chainFind_append (c1 c2 : Chain δ) (p : Pfx) :
    chainFind (c1 ++ c2) p = (chainFind c1 p).or (chainFind c2 p) := by
  induction c1 with
  | nil => simp [chainFind]
  | cons a r ih =>
    obtain ⟨q, d⟩ := a
    by_cases h0 : q = p
    · simp [chainFind, h0]
    · simp [chainFind, h0, ih]

theorem tA_map_fst_chainSet (c : Chain δ) (p : Pfx) (d : δ) :
    (chainSet c p d).map Prod.fst = c.map Prod.fst := by
  induction c with
  | nil => rfl
  | cons a r ih =>
    obtain ⟨q, d0⟩ := a
    by_cases h0 : q = p
    · simp [chainSet, h0]
    · simp [chainSet, h0, ih]

theorem tA_chainFind_chainSet (c : Chain δ) (p : Pfx) (d : δ) (q : Pfx) :
    chainFind (chainSet c p d) q =
      if q = p then (if (chainFind c p).isSome then some d else none) else chainFind c q := by
  induction c with
  | nil => simp [chainSet, chainFind]
  | cons a r ih =>
    obtain ⟨q0, d0⟩ := a
    by_cases h0 : q0 = p
    · subst h0
      by_cases hq : q = q0
      · subst hq; simp [chainSet, chainFind]
      · have : ¬ q0 = q := fun e => hq e.symm
        simp [chainSet, chainFind, hq, this]
    · by_cases hq : q = p
      · subst hq
        simp [chainSet, chainFind, h0, ih]
      · by_cases h1 : q0 = q
        · simp [chainSet, chainFind, hq, h1]
        · simp [chainSet, chainFind, h0, hq, h1, ih]

theorem tA_chainErase_sublist (c : Chain δ) (p : Pfx) : (chainErase c p).Sublist c := by
  induction c with
  | nil => simp [chainErase]
  | cons a r ih =>
    obtain ⟨q0, d0⟩ := a
    by_cases h0 : q0 = p
    · simp [chainErase, h0]
    · simp only [chainErase, h0, if_false]
      exact List.Sublist.cons_cons _ ih

theorem tA_chainFind_chainErase {c : Chain δ} (hn : (c.map Prod.fst).Nodup) (p q : Pfx) :
    chainFind (chainErase c p) q = if q = p then none else chainFind c q := by
  induction c with
  | nil => simp [chainErase, chainFind]
  | cons a r ih =>
    obtain ⟨q0, d0⟩ := a
    simp only [List.map_cons, List.nodup_cons] at hn
    by_cases h0 : q0 = p
    · subst h0
      by_cases hq : q = q0
      · subst hq
        simp [chainErase, tA_chainFind_none_of_not_mem r q hn.1]
      · have : ¬ q0 = q := fun e => hq e.symm
        simp [chainErase, chainFind, hq, this]
    · by_cases hq : q = p
      · subst hq
        simp [chainErase, chainFind, h0, ih hn.2]
      · by_cases h1 : q0 = q
        · simp [chainErase, chainFind, hq, h1]
        · simp [chainErase, chainFind, h0, hq, h1, ih hn.2]

theorem tA_chainOK_iff (h : Pfx → Nat) (k : Nat) (c : Chain δ) :
    ChainOK h k c ↔
      c.map Prod.fst ≠ [] ∧ (∀ p ∈ c.map Prod.fst, h p = k) ∧ (c.map Prod.fst).Nodup := by
  unfold ChainOK
  constructor
  · rintro ⟨h1, h2, h3⟩
    refine ⟨fun e => h1 (List.map_eq_nil_iff.1 e), fun p hp => ?_, h3⟩
    rcases List.mem_map.1 hp with ⟨e, he, rfl⟩
    exact h2 e he
  · rintro ⟨h1, h2, h3⟩
    refine ⟨fun e => h1 (by simp [e]), fun e he => h2 _ (List.mem_map.2 ⟨e, he, rfl⟩), h3⟩

theorem tA_chainOK_chainSet {h : Pfx → Nat} {k : Nat} {c : Chain δ} (hc : ChainOK h k c)
    (p : Pfx) (d : δ) : ChainOK h k (chainSet c p d) := by
  rw [tA_chainOK_iff, tA_map_fst_chainSet]
  exact (tA_chainOK_iff h k c).1 hc

theorem tA_chainOK_chainErase {h : Pfx → Nat} {k : Nat} {c : Chain δ} (hc : ChainOK h k c)
    (p : Pfx) (hne : chainErase c p ≠ []) : ChainOK h k (chainErase c p) := by
  have hs := tA_chainErase_sublist c p
  exact ⟨hne, fun e he => hc.2.1 e (hs.subset he), (hs.map Prod.fst).nodup hc.2.2⟩

theorem tA_chainOK_append {h : Pfx → Nat} {k : Nat} {c : Chain δ} (hc : ChainOK h k c)
    {p : Pfx} (hp : h p = k) (hf : chainFind c p = none) (d : δ) :
    ChainOK h k (c ++ [(p, d)]) := by
  refine ⟨by simp, fun e he => ?_, ?_⟩
  · rcases List.mem_append.1 he with h1 | h1
    · exact hc.2.1 e h1
    · simp at h1; subst h1; exact hp
  · rw [List.map_append, List.nodup_append]
    refine ⟨hc.2.2, by simp, fun a ha b hb => ?_⟩
    simp at hb
    subst hb
    intro hab
    subst hab
    exact tA_chainFind_ne_none_of_mem c a ha hf

theorem tA_chainOK_single {h : Pfx → Nat} {k : Nat} {p : Pfx} (hp : h p = k) (d : δ) :
    ChainOK h k [(p, d)] := by
  refine ⟨by simp, fun e he => ?_, by simp⟩
  simp at he; subst he; exact hp

/-! ### the main statements -/

theorem wf_nil (h : Pfx → Nat) : WF h ([] : Dests δ) := by
  simp [WF]

/-- on a chain without duplicate prefixes membership and lookup agree -/
theorem mem_chain_iff {c : Chain δ} (hn : (c.map Prod.fst).Nodup) (p : Pfx) (d : δ) :
    (p, d) ∈ c ↔ chainFind c p = some d := by
  refine ⟨fun hm => ?_, tA_chainFind_some_mem⟩
  induction c with
  | nil => simp at hm
  | cons a r ih =>
    obtain ⟨q, d0⟩ := a
    simp only [List.map_cons, List.nodup_cons] at hn
    simp only [List.mem_cons] at hm
    rcases hm with hm | hm
    · cases hm
      simp [chainFind]
    · have : ¬ q = p := by
        intro e; subst e
        exact hn.1 (List.mem_map.2 ⟨_, hm, rfl⟩)
      simp [chainFind, this, ih hn.2 hm]

theorem tA_wf_tail {h : Pfx → Nat} {a : Nat × Chain δ} {r : Dests δ} (hw : WF h (a :: r)) :
    WF h r := by
  refine ⟨?_, fun kc hkc => hw.2 kc (List.mem_cons_of_mem _ hkc)⟩
  have := hw.1
  simp only [List.map_cons, List.nodup_cons] at this
  exact this.2

theorem tA_entries_cons (a : Nat × Chain δ) (r : Dests δ) : entries (a :: r) = a.2 ++ entries r := by
  simp [entries]

/-- the hash of a member of the iteration is one of the keys -/
theorem tA_hash_mem_keys {h : Pfx → Nat} {t : Dests δ} (hw : WF h t) {p : Pfx}
    (hp : p ∈ (entries t).map Prod.fst) : h p ∈ t.map Prod.fst := by
  rcases List.mem_map.1 hp with ⟨e, he, rfl⟩
  rcases List.mem_flatMap.1 he with ⟨kc, hkc, hekc⟩
  exact List.mem_map.2 ⟨kc, hkc, ((hw.2 kc hkc).2.1 e hekc).symm⟩

/-- iteration never yields a prefix twice -/
theorem entries_nodup {h : Pfx → Nat} {t : Dests δ} (hw : WF h t) :
    ((entries t).map Prod.fst).Nodup := by
  induction t with
  | nil => simp [entries]
  | cons a r ih =>
    have hr := tA_wf_tail hw
    rw [tA_entries_cons, List.map_append, List.nodup_append]
    refine ⟨(hw.2 a (List.mem_cons_self ..)).2.2, ih hr, fun x hx y hy hxy => ?_⟩
    subst hxy
    have h1 : h x ∈ r.map Prod.fst := tA_hash_mem_keys hr hy
    rcases List.mem_map.1 hx with ⟨e, he, rfl⟩
    have h2 : h e.1 = a.1 := (hw.2 a (List.mem_cons_self ..)).2.1 e he
    have := hw.1
    simp only [List.map_cons, List.nodup_cons] at this
    exact this.1 (h2 ▸ h1)

/-- the hash path (`Destinations.Get`) and the scan (`iterateAllDestinations`) see the same content -/
theorem get_eq_alookup {h : Pfx → Nat} {t : Dests δ} (hw : WF h t) (p : Pfx) :
    get h t p = alookup t p := by
  induction t with
  | nil => simp [get, alookup, entries, mget, chainFind]
  | cons a r ih =>
    have hr := tA_wf_tail hw
    have ih' := ih hr
    obtain ⟨k, c⟩ := a
    have hk : k ∉ r.map Prod.fst := by
      have := hw.1
      simp only [List.map_cons, List.nodup_cons] at this
      exact this.1
    have hc : ChainOK h k c := hw.2 (k, c) (List.mem_cons_self ..)
    unfold alookup at ih' ⊢
    rw [tA_entries_cons, tA_chainFind_append]
    by_cases h0 : k = h p
    · have : chainFind (entries r) p = none := by
        apply tA_chainFind_none_of_not_mem
        intro hm
        exact hk (h0 ▸ tA_hash_mem_keys hr hm)
      simp [get, mget, h0, this]
    · have : chainFind c p = none := by
        apply tA_chainFind_none_of_not_mem
        intro hm
        rcases List.mem_map.1 hm with ⟨e, he, rfl⟩
        exact h0 (hc.2.1 e he).symm
      rw [← ih']
      simp [get, mget, h0, this]

theorem mem_entries_iff {h : Pfx → Nat} {t : Dests δ} (hw : WF h t) (p : Pfx) (d : δ) :
    (p, d) ∈ entries t ↔ alookup t p = some d :=
  mem_chain_iff (entries_nodup hw) p d

/-! ### the pieces of `Table.update` -/

theorem tA_get_of_mget_some {h : Pfx → Nat} {t : Dests δ} {k : Nat} {c : Chain δ}
    (hm : mget t k = some c) {q : Pfx} (hq : h q = k) : get h t q = chainFind c q := by
  unfold get; rw [hq, hm]

theorem tA_get_of_mget_none {h : Pfx → Nat} {t : Dests δ} {k : Nat}
    (hm : mget t k = none) {q : Pfx} (hq : h q = k) : get h t q = none := by
  unfold get; rw [hq, hm]

theorem tA_getOrCreate {h : Pfx → Nat} {t : Dests δ} (hw : WF h t) (p : Pfx) (new : δ) :
    WF h (getOrCreate h t p new).1 ∧ (getOrCreate h t p new).2 = (get h t p).getD new ∧
    ∀ q, get h (getOrCreate h t p new).1 q =
      if q = p then some ((get h t p).getD new) else get h t q := by
  unfold getOrCreate
  cases hm : mget t (h p) with
  | none =>
    have hg : get h t p = none := tA_get_of_mget_none hm rfl
    refine ⟨tA_wf_mset hw (tA_chainOK_single rfl new), by simp [hg], fun q => ?_⟩
    simp only [hg, Option.getD_none]
    rw [tA_get_mset]
    by_cases hq : q = p
    · subst hq; simp [chainFind]
    · have : ¬ p = q := fun e => hq e.symm
      by_cases hh : h q = h p
      · simp [hh, hq, chainFind, this, tA_get_of_mget_none hm hh]
      · simp [hh, hq]
  | some c =>
    have hg : get h t p = chainFind c p := tA_get_of_mget_some hm rfl
    have hc := tA_chainOK_of_mget hw hm
    dsimp only
    cases hf : chainFind c p with
    | some d =>
      rw [hf] at hg
      refine ⟨hw, by simp [hg], fun q => ?_⟩
      by_cases hq : q = p
      · subst hq; simp [hg]
      · simp [hq]
    | none =>
      rw [hf] at hg
      refine ⟨tA_wf_mset hw (tA_chainOK_append hc rfl hf new), by simp [hg], fun q => ?_⟩
      simp only [hg, Option.getD_none]
      rw [tA_get_mset, tA_chainFind_append]
      by_cases hq : q = p
      · subst hq; simp [chainFind, hf]
      · have : ¬ p = q := fun e => hq e.symm
        by_cases hh : h q = h p
        · simp [hh, hq, chainFind, this, tA_get_of_mget_some hm hh]
        · simp [hh, hq]

theorem tA_writeBack {h : Pfx → Nat} {t : Dests δ} (hw : WF h t) (p : Pfx) {d0 : δ}
    (hg : get h t p = some d0) (d : δ) :
    WF h (writeBack h t p d) ∧
    ∀ q, get h (writeBack h t p d) q = if q = p then some d else get h t q := by
  unfold writeBack
  cases hm : mget t (h p) with
  | none => rw [tA_get_of_mget_none hm rfl] at hg; cases hg
  | some c =>
    have hc := tA_chainOK_of_mget hw hm
    have hf : chainFind c p = some d0 := by rw [← tA_get_of_mget_some hm rfl]; exact hg
    refine ⟨tA_wf_mset hw (tA_chainOK_chainSet hc p d), fun q => ?_⟩
    simp only
    rw [tA_get_mset, tA_chainFind_chainSet]
    by_cases hq : q = p
    · subst hq; simp [hf]
    · by_cases hh : h q = h p
      · simp [hh, hq, tA_get_of_mget_some hm hh]
      · simp [hh, hq]

theorem tA_deleteDest (O : DestOps δ ρ) {h : Pfx → Nat} {t : Dests δ} (hw : WF h t) (p : Pfx)
    {d0 : δ} (hg : get h t p = some d0) (d : δ) :
    WF h (deleteDest O h t p d) ∧
    ∀ q, get h (deleteDest O h t p d) q =
      if q = p then (if O.deletable d then none else some d0) else get h t q := by
  unfold deleteDest
  by_cases hd : O.deletable d = true
  · simp only [hd, if_true]
    cases hm : mget t (h p) with
    | none => rw [tA_get_of_mget_none hm rfl] at hg; cases hg
    | some c =>
      have hc := tA_chainOK_of_mget hw hm
      have hf : chainFind c p = some d0 := by rw [← tA_get_of_mget_some hm rfl]; exact hg
      simp only [hf]
      have hfe := tA_chainFind_chainErase hc.2.2 p
      by_cases he : (chainErase c p).isEmpty = true
      · simp only [he, if_true]
        refine ⟨tA_wf_mdel hw _, fun q => ?_⟩
        rw [tA_get_mdel h hw.1]
        by_cases hq : q = p
        · subst hq; simp
        · by_cases hh : h q = h p
          · have h1 := hfe q
            rw [List.isEmpty_iff.1 he] at h1
            simp only [hq, if_false, chainFind] at h1
            simp [hh, hq, tA_get_of_mget_some hm hh, ← h1]
          · simp [hh, hq]
      · simp only [he]
        have hne : chainErase c p ≠ [] := fun e => he (by simp [e])
        refine ⟨tA_wf_mset hw (tA_chainOK_chainErase hc p hne), fun q => ?_⟩
        simp only [Bool.false_eq_true, if_false]
        rw [tA_get_mset, hfe]
        by_cases hq : q = p
        · subst hq; simp
        · by_cases hh : h q = h p
          · simp [hh, hq, tA_get_of_mget_some hm hh]
          · simp [hh, hq]
  · simp only [hd]
    refine ⟨hw, fun q => ?_⟩
    by_cases hq : q = p
    · subst hq; simp [hg]
    · simp [hq]

theorem tA_update (O : DestOps δ ρ) {h : Pfx → Nat} {t : Dests δ} (hw : WF h t) (p : Pfx) (r : ρ) :
    WF h (update O h t p r) ∧ ∀ q, get h (update O h t p r) q = aupdate O (get h t) p r q := by
  obtain ⟨g1, g2, g3⟩ := tA_getOrCreate hw p (O.fresh p)
  have gp : get h (getOrCreate h t p (O.fresh p)).1 p = some ((get h t p).getD (O.fresh p)) := by
    rw [g3 p]; simp
  obtain ⟨w1, w2⟩ := tA_writeBack g1 p gp (O.step (getOrCreate h t p (O.fresh p)).2 r)
  have wp : get h (writeBack h (getOrCreate h t p (O.fresh p)).1 p
      (O.step (getOrCreate h t p (O.fresh p)).2 r)) p
      = some (O.step (getOrCreate h t p (O.fresh p)).2 r) := by
    rw [w2 p]; simp
  obtain ⟨d1, d2⟩ := tA_deleteDest O w1 p wp (O.step (getOrCreate h t p (O.fresh p)).2 r)
  unfold update aupdate
  simp only
  by_cases hE : O.isEmpty (O.step (getOrCreate h t p (O.fresh p)).2 r) = true
  · simp only [hE, if_true]
    refine ⟨d1, fun q => ?_⟩
    rw [d2 q, w2 q, g3 q]
    rw [g2] at hE ⊢
    by_cases hq : q = p
    · subst hq
      by_cases hD : O.deletable (O.step ((get h t q).getD (O.fresh q)) r) = true
      · simp [hE, hD]
      · simp [hE, hD]
    · simp [hq]
  · simp only [hE, Bool.false_eq_true, if_false]
    refine ⟨w1, fun q => ?_⟩
    rw [w2 q, g3 q]
    rw [g2] at hE ⊢
    by_cases hq : q = p
    · subst hq; simp [hE]
    · simp [hq]

theorem wf_update (O : DestOps δ ρ) {h : Pfx → Nat} {t : Dests δ} (hw : WF h t) (p : Pfx) (r : ρ) :
    WF h (update O h t p r) :=
  (tA_update O hw p r).1

theorem get_update (O : DestOps δ ρ) {h : Pfx → Nat} {t : Dests δ} (hw : WF h t) (p : Pfx) (r : ρ)
    (q : Pfx) : get h (update O h t p r) q = aupdate O (get h t) p r q :=
  (tA_update O hw p r).2 q

theorem tA_insertUpdate {h : Pfx → Nat} {t : Dests δ} (hw : WF h t) (e : Pfx × δ) :
    WF h (insertUpdate h t e).1 ∧
    ∀ q, get h (insertUpdate h t e).1 q = if q = e.1 then some e.2 else get h t q := by
  obtain ⟨p, d⟩ := e
  unfold insertUpdate
  dsimp only
  cases hm : mget t (h p) with
  | none =>
    refine ⟨tA_wf_mset hw (tA_chainOK_single rfl d), fun q => ?_⟩
    dsimp only
    rw [tA_get_mset]
    by_cases hq : q = p
    · subst hq; simp [chainFind]
    · have : ¬ p = q := fun e => hq e.symm
      by_cases hh : h q = h p
      · simp [hh, hq, chainFind, this, tA_get_of_mget_none hm hh]
      · simp [hh, hq]
  | some c =>
    have hc := tA_chainOK_of_mget hw hm
    dsimp only
    cases hf : chainFind c p with
    | some d0 =>
      refine ⟨tA_wf_mset hw (tA_chainOK_chainSet hc p d), fun q => ?_⟩
      dsimp only
      rw [tA_get_mset, tA_chainFind_chainSet]
      by_cases hq : q = p
      · subst hq; simp [hf]
      · by_cases hh : h q = h p
        · simp [hh, hq, tA_get_of_mget_some hm hh]
        · simp [hh, hq]
    | none =>
      refine ⟨tA_wf_mset hw (tA_chainOK_append hc rfl hf d), fun q => ?_⟩
      dsimp only
      rw [tA_get_mset, tA_chainFind_append]
      by_cases hq : q = p
      · subst hq; simp [chainFind, hf]
      · have : ¬ p = q := fun e => hq e.symm
        by_cases hh : h q = h p
        · simp [hh, hq, chainFind, this, tA_get_of_mget_some hm hh]
        · simp [hh, hq]

theorem wf_insertUpdate {h : Pfx → Nat} {t : Dests δ} (hw : WF h t) (e : Pfx × δ) :
    WF h (insertUpdate h t e).1 :=
  (tA_insertUpdate hw e).1

theorem get_insertUpdate {h : Pfx → Nat} {t : Dests δ} (hw : WF h t) (e : Pfx × δ) (q : Pfx) :
    get h (insertUpdate h t e).1 q = if q = e.1 then some e.2 else get h t q :=
  (tA_insertUpdate hw e).2 q

/-- `InsertUpdate` reports a collision exactly when the prefix is new and its bucket is occupied -/
theorem insertUpdate_collision {h : Pfx → Nat} {t : Dests δ} (hw : WF h t) (e : Pfx × δ) :
    (insertUpdate h t e).2 = true ↔
      get h t e.1 = none ∧ ∃ q, h q = h e.1 ∧ (get h t q).isSome = true := by
  obtain ⟨p, d⟩ := e
  unfold insertUpdate
  dsimp only
  cases hm : mget t (h p) with
  | none =>
    dsimp only
    constructor
    · intro hf; cases hf
    · rintro ⟨_, q, hq, hs⟩
      rw [tA_get_of_mget_none hm hq] at hs
      cases hs
  | some c =>
    have hc := tA_chainOK_of_mget hw hm
    have hg : get h t p = chainFind c p := tA_get_of_mget_some hm rfl
    dsimp only
    cases hf : chainFind c p with
    | some d0 =>
      dsimp only
      rw [hf] at hg
      constructor
      · intro hx; cases hx
      · rintro ⟨h1, _⟩
        rw [hg] at h1; cases h1
    | none =>
      dsimp only
      rw [hf] at hg
      refine ⟨fun _ => ⟨hg, ?_⟩, fun _ => rfl⟩
      rcases List.exists_mem_of_ne_nil c hc.1 with ⟨x, hx⟩
      obtain ⟨q, dq⟩ := x
      have hq : h q = h p := hc.2.1 _ hx
      refine ⟨q, hq, ?_⟩
      rw [tA_get_of_mget_some hm hq, (mem_chain_iff hc.2.2 q dq).1 hx]
      rfl

theorem tA_foldl_update (O : DestOps δ ρ) (h : Pfx → Nat) (ops : List (Pfx × ρ)) (t0 : Dests δ)
    (hw : WF h t0) :
    WF h (ops.foldl (fun t o => update O h t o.1 o.2) t0) ∧
    get h (ops.foldl (fun t o => update O h t o.1 o.2) t0) =
      ops.foldl (fun m o => aupdate O m o.1 o.2) (get h t0) := by
  induction ops generalizing t0 with
  | nil => exact ⟨hw, rfl⟩
  | cons o r ih =>
    simp only [List.foldl_cons]
    have h1 := tA_update O hw o.1 o.2
    have h2 : get h (update O h t0 o.1 o.2) = aupdate O (get h t0) o.1 o.2 := funext h1.2
    rw [← h2]
    exact ih _ h1.1

theorem tA_get_nil (h : Pfx → Nat) : get h ([] : Dests δ) = fun _ => none := by
  funext q; simp [get, mget]

theorem run_wf (O : DestOps δ ρ) (h : Pfx → Nat) (ops : List (Pfx × ρ)) : WF h (run O h ops) :=
  (tA_foldl_update O h ops [] (wf_nil h)).1

theorem run_get (O : DestOps δ ρ) (h : Pfx → Nat) (ops : List (Pfx × ρ)) (p : Pfx) :
    get h (run O h ops) p = arun O ops p := by
  unfold run arun
  rw [(tA_foldl_update O h ops [] (wf_nil h)).2, tA_get_nil]

theorem tA_foldl_insertUpdate (h : Pfx → Nat) (l : List (Pfx × δ)) (t0 : Dests δ) (hw : WF h t0) :
    WF h (l.foldl (fun t e => (insertUpdate h t e).1) t0) ∧
    get h (l.foldl (fun t e => (insertUpdate h t e).1) t0) =
      l.foldl (fun m e => fun q => if q = e.1 then some e.2 else m q) (get h t0) := by
  induction l generalizing t0 with
  | nil => exact ⟨hw, rfl⟩
  | cons e r ih =>
    simp only [List.foldl_cons]
    have h1 := tA_insertUpdate hw e
    have h2 : get h (insertUpdate h t0 e).1 = fun q => if q = e.1 then some e.2 else get h t0 q :=
      funext h1.2
    rw [← h2]
    exact ih _ h1.1

theorem fromList_wf (h : Pfx → Nat) (l : List (Pfx × δ)) : WF h (fromList h l) :=
  (tA_foldl_insertUpdate h l [] (wf_nil h)).1

theorem fromList_get (h : Pfx → Nat) (l : List (Pfx × δ)) (p : Pfx) :
    get h (fromList h l) p = afromList l p := by
  unfold fromList afromList
  rw [(tA_foldl_insertUpdate h l [] (wf_nil h)).2, tA_get_nil]

end Tbl
