/-
  History-level lemmas for C03/C02: `calcStep` (destination.Calculate on knownPathList) keeps
  the list sorted, keeps at most one entry per (source, path-id), and refines the abstract
  "latest un-withdrawn route per (source, path-id)" map.
-/
import Lemmas.BestPath
namespace BestPath
open Lex

theorem srcEqual_symm (a b : Src) : a.equal b = b.equal a := by
  unfold Src.equal
  rw [Bool.beq_comm (a := a.as), Bool.beq_comm (a := a.rid), Bool.beq_comm (a := a.localRid),
    Bool.beq_comm (a := a.addr)]

theorem srcEqual_trans (a b c : Src) (h1 : a.equal b = true) (h2 : b.equal c = true) :
    a.equal c = true := by
  simp [Src.equal] at *
  obtain ⟨⟨⟨h11, h12⟩, h13⟩, h14⟩ := h1
  obtain ⟨⟨⟨h21, h22⟩, h23⟩, h24⟩ := h2
  exact ⟨⟨⟨h11.trans h21, h12.trans h22⟩, h13.trans h23⟩, h14.trans h24⟩

theorem sameKey_symm (a b : Cand) : sameKey a b = sameKey b a := by
  unfold sameKey
  rw [srcEqual_symm, Bool.beq_comm (a := a.pathId)]

theorem sameKey_trans (a b c : Cand) (h1 : sameKey a b = true) (h2 : sameKey b c = true) :
    sameKey a c = true := by
  simp [sameKey] at *
  exact ⟨srcEqual_trans _ _ _ h1.1 h2.1, h1.2.trans h2.2⟩

/-- at most one entry per (source, path-id) -/
def NodupKey (l : List Cand) : Prop := l.Pairwise (fun a b => sameKey a b = false)

theorem implicitWithdraw_eq_filter (l : List Cand) (x : Cand) (h : NodupKey l) :
    implicitWithdraw l x = l.filter (fun y => !sameKey x y) := by
  induction l with
  | nil => rfl
  | cons y rest ih =>
    unfold NodupKey at h
    rw [List.pairwise_cons] at h
    unfold implicitWithdraw
    cases hxy : sameKey x y
    · simp only [Bool.false_eq_true, if_false, List.filter_cons, hxy, Bool.not_false, if_true]
      rw [ih h.2]
    · simp only [if_true, List.filter_cons, hxy, Bool.not_true, Bool.false_eq_true, if_false]
      symm
      rw [List.filter_eq_self]
      intro z hz
      have hyz := h.1 z hz
      cases hxz : sameKey x z
      · rfl
      · have : sameKey y z = true := sameKey_trans y x z (by rw [sameKey_symm]; exact hxy) hxz
        simp [hyz] at this

theorem explicitWithdraw_eq_filter (l : List Cand) (x : Cand) (h : NodupKey l) :
    explicitWithdraw l x = l.filter (fun y => !sameKey y x) := by
  induction l with
  | nil => rfl
  | cons y rest ih =>
    unfold NodupKey at h
    rw [List.pairwise_cons] at h
    unfold explicitWithdraw
    cases hyx : sameKey y x
    · simp only [Bool.false_and, Bool.false_eq_true, if_false, List.filter_cons, hyx,
        Bool.not_false, if_true]
      rw [ih h.2]
    · have hnone : ∀ z ∈ rest, sameKey z x = false := by
        intro z hz
        have hyz := h.1 z hz
        cases hzx : sameKey z x
        · rfl
        · have : sameKey y z = true := sameKey_trans y x z hyx (by rw [sameKey_symm]; exact hzx)
          simp [hyz] at this
      have hany : rest.any (fun z => sameKey z x) = false := by
        rw [List.any_eq_false]
        intro z hz
        simp [hnone z hz]
      simp only [hany, Bool.not_false, Bool.and_true, if_true, List.filter_cons, hyx,
        Bool.not_true, Bool.false_eq_true, if_false]
      symm
      rw [List.filter_eq_self]
      intro z hz
      simp [hnone z hz]

/-- the abstract content: latest un-withdrawn candidate per (source, path-id) -/
def specStep (S : List Cand) : Op → List Cand
  | .ann c => c :: S.filter (fun y => !sameKey c y)
  | .wd c  => S.filter (fun y => !sameKey y c)

def spec (ops : List Op) : List Cand := ops.foldl specStep []

/-- every candidate an operation can install -/
def Op.cands : Op → List Cand
  | .ann c => [c]
  | .wd _ => []

def opCands (ops : List Op) : List Cand := ops.flatMap Op.cands

theorem nodupKey_filter (l : List Cand) (p : Cand → Bool) (h : NodupKey l) :
    NodupKey (l.filter p) :=
  List.Pairwise.sublist List.filter_sublist h

theorem sorted_filter (o : Opts) (l : List Cand) (p : Cand → Bool) (h : Sorted o l) :
    Sorted o (l.filter p) :=
  List.Pairwise.sublist List.filter_sublist h

/-- one step keeps all three invariants -/
theorem calcStep_inv (o : Opts) (U : List Cand) (wf : SetWF o U) (l S : List Cand) (op : Op)
    (hop : ∀ c ∈ op.cands, c ∈ U) (hU : ∀ c ∈ l, c ∈ U)
    (hs : Sorted o l) (hn : NodupKey l) (hp : l.Perm S) :
    (∀ c ∈ calcStep o l op, c ∈ U) ∧ Sorted o (calcStep o l op) ∧ NodupKey (calcStep o l op) ∧
      (calcStep o l op).Perm (specStep S op) := by
  cases op with
  | wd c =>
    simp only [calcStep, specStep]
    rw [explicitWithdraw_eq_filter l c hn]
    refine ⟨?_, sorted_filter o l _ hs, nodupKey_filter l _ hn, hp.filter _⟩
    intro y hy
    exact hU y ((List.mem_filter.mp hy).1)
  | ann c =>
    simp only [calcStep, specStep]
    rw [implicitWithdraw_eq_filter l c hn]
    have hcU : c ∈ U := hop c (by simp [Op.cands])
    have hperm := insertSort_perm o (l.filter (fun y => !sameKey c y)) c
    have hfU : ∀ y ∈ c :: l.filter (fun y => !sameKey c y), y ∈ U := by
      intro y hy
      rw [List.mem_cons] at hy
      rcases hy with rfl | hy
      · exact hcU
      · exact hU y ((List.mem_filter.mp hy).1)
    refine ⟨?_, ?_, ?_, ?_⟩
    · intro y hy
      exact hfU y (hperm.subset hy)
    · exact insertSort_sorted o _ c (wf.sub hfU) (sorted_filter o l _ hs)
    · have hnk : NodupKey (c :: l.filter (fun y => !sameKey c y)) := by
        unfold NodupKey
        rw [List.pairwise_cons]
        refine ⟨?_, nodupKey_filter l _ hn⟩
        intro y hy
        have := (List.mem_filter.mp hy).2
        simpa using this
      unfold NodupKey at *
      exact hnk.perm hperm.symm (fun {x y} hxy => by rw [sameKey_symm]; exact hxy)
    · exact hperm.trans ((hp.filter _).cons c)

theorem run_inv_aux (o : Opts) (U : List Cand) (wf : SetWF o U) :
    ∀ (ops : List Op) (l S : List Cand), (∀ c ∈ opCands ops, c ∈ U) → (∀ c ∈ l, c ∈ U) →
      Sorted o l → NodupKey l → l.Perm S →
      Sorted o (ops.foldl (calcStep o) l) ∧ NodupKey (ops.foldl (calcStep o) l) ∧
        (ops.foldl (calcStep o) l).Perm (ops.foldl specStep S) := by
  intro ops
  induction ops with
  | nil => intro l S _ _ hs hn hp; exact ⟨hs, hn, hp⟩
  | cons op rest ih =>
    intro l S hops hU hs hn hp
    simp only [List.foldl_cons]
    have hop : ∀ c ∈ op.cands, c ∈ U := by
      intro c hc; apply hops; simp [opCands, hc]
    have hrest : ∀ c ∈ opCands rest, c ∈ U := by
      intro c hc; apply hops; simp only [opCands, List.flatMap_cons, List.mem_append]
      right; exact hc
    obtain ⟨h1, h2, h3, h4⟩ := calcStep_inv o U wf l S op hop hU hs hn hp
    exact ih _ _ hrest h1 h2 h3 h4

theorem run_inv (o : Opts) (ops : List Op) (wf : SetWF o (opCands ops)) :
    Sorted o (run o ops) ∧ NodupKey (run o ops) ∧ (run o ops).Perm (spec ops) :=
  run_inv_aux o (opCands ops) wf ops [] [] (fun _ h => h) (by simp) List.Pairwise.nil
    List.Pairwise.nil (List.Perm.refl _)

/-! ### membership after one step (no ordering hypotheses needed) -/

theorem srcEqual_of_eq {a b : Src} (h : a = b) : a.equal b = true := by
  subst h; simp [Src.equal]

theorem mem_calcStep_wd (o : Opts) (l : List Cand) (c : Cand) (hn : NodupKey l) (y : Cand) :
    y ∈ calcStep o l (.wd c) ↔ y ∈ l ∧ sameKey y c = false := by
  simp only [calcStep]
  rw [explicitWithdraw_eq_filter l c hn, List.mem_filter]
  simp

theorem mem_calcStep_ann (o : Opts) (l : List Cand) (c : Cand) (hn : NodupKey l) (y : Cand) :
    y ∈ calcStep o l (.ann c) ↔ y = c ∨ (y ∈ l ∧ sameKey c y = false) := by
  simp only [calcStep]
  rw [implicitWithdraw_eq_filter l c hn, (insertSort_perm o _ c).mem_iff, List.mem_cons,
    List.mem_filter]
  simp

theorem calcStep_nodup (o : Opts) (l : List Cand) (op : Op) (hn : NodupKey l) :
    NodupKey (calcStep o l op) := by
  cases op with
  | wd c =>
    simp only [calcStep]
    rw [explicitWithdraw_eq_filter l c hn]
    exact nodupKey_filter l _ hn
  | ann c =>
    simp only [calcStep]
    rw [implicitWithdraw_eq_filter l c hn]
    have hperm := insertSort_perm o (l.filter (fun y => !sameKey c y)) c
    have hnk : NodupKey (c :: l.filter (fun y => !sameKey c y)) := by
      unfold NodupKey
      rw [List.pairwise_cons]
      refine ⟨?_, nodupKey_filter l _ hn⟩
      intro y hy
      have := (List.mem_filter.mp hy).2
      simpa using this
    unfold NodupKey at *
    exact hnk.perm hperm.symm (fun {x y} hxy => by rw [sameKey_symm]; exact hxy)

end BestPath
