/-
  C17: updates toward the RTC peer deferred for a while (needToAdvertise false), the deferred table
  transfer, and RT-membership prefixes over their length domain.
-/
import Lemmas.VrfRtcDefs
import Lemmas.VrfRtcIdx
import Lemmas.VrfRtcView
namespace VrfRtc
namespace SupAux
open ViewAux

/-- the messages of the deferred / initial table transfer -/
theorem mem_catchUp (t : Tbl) (s : Rtm) (h : TblWF t) (x : Msg) :
    x ∈ catchUp t s ↔
      ∃ b, t.best b.nlri = some b ∧ interested s b.ecs = true ∧ x = Msg.adv b.nlri b.marker := by
  unfold catchUp
  rw [List.mem_flatMap]
  constructor
  · rintro ⟨b, hb, hx⟩
    rw [mem_bests h] at hb
    by_cases hi : interested s b.ecs = true
    · rw [rtcFilter_int _ _ _ _ hi] at hx
      exact ⟨b, hb, hi, by simpa using hx⟩
    · rw [rtcFilter_not _ _ _ hi] at hx
      cases hx
  · rintro ⟨b, hb, hi, rfl⟩
    refine ⟨b, (mem_bests h b).2 hb, ?_⟩
    rw [rtcFilter_int _ _ _ _ hi]; simp

theorem any_congr_mem {α : Type} (l : List α) (f g : α → Bool) (h : ∀ a, a ∈ l → f a = g a) :
    l.any f = l.any g := by
  induction l with
  | nil => rfl
  | cons a r ih =>
    rw [List.any_cons, List.any_cons, h a (List.mem_cons.2 (Or.inl rfl)),
      ih (fun b hb => h b (List.mem_cons.2 (Or.inr hb)))]

theorem has_map (ms : List MemL) (k : Nat) :
    Rtm.has (ms.map MemL.toMem) k = ms.any (fun m => m.toMem.rt == k) := by
  unfold Rtm.has
  rw [List.any_map]
  rfl

theorem toMem_rt_short (m : MemL) (h : m.len ≤ 32) : m.toMem.rt = 0 := by
  unfold MemL.toMem
  simp [h]

theorem toMem_rt_full (m : MemL) (h : m.len = 96) : m.toMem.rt = m.rt := by
  unfold MemL.toMem
  simp [h]

theorem covers_full (m : MemL) (k : Nat) (h : m.len = 96) : m.covers k = (k == m.rt) := by
  unfold MemL.covers
  simp [h]

/-- the wildcard key is present iff some membership has a length of 32 or less -/
theorem has_zero (ms : List MemL)
    (hlen : ∀ m, m ∈ ms → (m.len ≤ 32 ∨ (m.len = 96 ∧ m.rt ≠ 0))) :
    Rtm.has (ms.map MemL.toMem) 0 = ms.any (fun m => decide (m.len ≤ 32)) := by
  rw [has_map]
  apply any_congr_mem
  intro m hm
  rcases hlen m hm with h | ⟨h, h0⟩
  · rw [toMem_rt_short m h]; simp [h]
  · rw [toMem_rt_full m h]
    have : ¬ m.len ≤ 32 := by omega
    simp [this, h0]

/-- no short membership: the exact-key test is the covering test -/
theorem has_full (ms : List MemL) (k : Nat) (hall : ∀ m, m ∈ ms → m.len = 96) :
    Rtm.has (ms.map MemL.toMem) k = ms.any (fun m => m.covers k) := by
  rw [has_map]
  apply any_congr_mem
  intro m hm
  rw [toMem_rt_full m (hall m hm), covers_full m k (hall m hm)]
  exact Bool.beq_comm

end SupAux
open ViewAux SupAux

/-- the deferred / initial table transfer gives a peer that holds nothing exactly what its memberships entitle it to -/
theorem catchUp_view (t : Tbl) (s : Rtm) (h : TblWF t) :
    ViewOK t s (View.apply (fun _ => none) (catchUp t s)) := by
  intro n
  have hnone : (∀ b, t.best n = some b → interested s b.ecs = false) →
      View.apply (fun _ => none) (catchUp t s) n = none := by
    intro hno
    rw [apply_other _ _ n]
    intro x hx e
    obtain ⟨b, hb, hi, rfl⟩ := (mem_catchUp t s h x).1 hx
    have e' : b.nlri = n := e
    rw [e'] at hb
    rw [hno b hb] at hi
    cases hi
  cases hb : t.best n with
  | none =>
    dsimp only
    apply hnone
    intro b hb'; rw [hb] at hb'; cases hb'
  | some b =>
    dsimp only
    have hbn : b.nlri = n := best_nlri h hb
    by_cases hi : interested s b.ecs = true
    · rw [if_pos hi]
      apply apply_const
      · intro x hx e
        obtain ⟨b', hb', _, rfl⟩ := (mem_catchUp t s h x).1 hx
        have e' : b'.nlri = n := e
        rw [e', hb] at hb'
        cases hb'
        rfl
      · refine ⟨Msg.adv b.nlri b.marker, (mem_catchUp t s h _).2 ⟨b, ?_, hi, rfl⟩, hbn⟩
        rw [hbn]; exact hb
    · rw [if_neg hi]
      apply hnone
      intro b' hb'
      rw [hb] at hb'
      cases hb'
      simpa using hi

/-- with updates toward the peer deferred the peer holds nothing; otherwise it holds exactly the best paths it is interested in -/
theorem sysS_inv (x : SysS) (h : SysSReach x) :
    Reach x.t ∧ (if x.sup then (∀ n, x.v n = none) else ViewOK x.t x.s x.v) := by
  induction h with
  | init =>
    refine ⟨Reach.empty, ?_⟩
    show ViewOK Tbl.empty [] (fun _ => none)
    intro n; rfl
  | step x e hx hf ih =>
    obtain ⟨t, s, v, sup⟩ := x
    obtain ⟨hr, hv⟩ := ih
    have hwf := reach_inv t hr
    cases e with
    | upd p wd =>
      have hfr : wd = false → Fresh t p := fun hw => hf p (by rw [hw])
      refine ⟨Reach.step t p wd hr hfr, ?_⟩
      cases sup with
      | true => exact hv
      | false => exact rtc_table_step t s v p wd hwf.1 hfr hv
    | mem m wd =>
      refine ⟨hr, ?_⟩
      cases sup with
      | true => exact hv
      | false => exact rtc_member_step t s v m wd hwf.1 hwf.2 hv
    | restart =>
      refine ⟨hr, ?_⟩
      show ∀ n, (fun _ => none : View) n = none
      intro n; rfl
    | resume =>
      cases sup with
      | true =>
        refine ⟨hr, ?_⟩
        have hv' : ∀ n, v n = none := hv
        have e : v = fun _ => none := funext hv'
        show ViewOK t s (v.apply (catchUp t s))
        rw [e]
        exact catchUp_view t s hwf.1
      | false => exact ⟨hr, hv⟩

/-- length ≤ 32 or exactly 96 (with a route target that is not the all-zero value): the code's exact-key test agrees with RFC 4684 -/
theorem interested_iff_rfc (ms : List MemL) (ecs : List EC)
    (hlen : ∀ m, m ∈ ms → (m.len ≤ 32 ∨ (m.len = 96 ∧ m.rt ≠ 0))) :
    interested (ms.map MemL.toMem) ecs = wantsRFC ms ecs := by
  unfold interested wantsRFC
  rw [has_zero ms hlen]
  cases hW : ms.any (fun m => decide (m.len ≤ 32)) with
  | true => rfl
  | false =>
    have hall : ∀ m, m ∈ ms → m.len = 96 := by
      intro m hm
      rcases hlen m hm with h | ⟨h, _⟩
      · have : ms.any (fun m => decide (m.len ≤ 32)) = true :=
          List.any_eq_true.2 ⟨m, hm, by simp [h]⟩
        rw [hW] at this; cases this
      · exact h
    rw [Bool.false_or, Bool.false_or]
    apply any_congr_mem
    intro k _
    exact has_full ms k hall

end VrfRtc
