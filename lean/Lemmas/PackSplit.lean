import Model.Pack
/-! C11 helper lemmas, part 2: chunking (`chunkN`, `takeB`, `chunkB`, `splitMP`) and `groupBy`. -/
namespace Pack

/-! ### chunkN -/

theorem chunkN_flatten {α : Type} (n : Nat) (hn : 1 ≤ n) :
    ∀ (fuel : Nat) (l : List α), l.length ≤ fuel → (chunkN n fuel l).flatten = l := by
  intro fuel
  induction fuel with
  | zero => intro l h; cases l with
    | nil => rfl
    | cons x xs => simp at h
  | succ k ih =>
    intro l h
    cases l with
    | nil => rfl
    | cons x xs =>
      simp only [chunkN, List.flatten_cons]
      rw [ih]
      · exact List.take_append_drop n (x :: xs)
      · simp only [List.length_drop, List.length_cons] at h ⊢; omega

theorem chunkN_mem {α : Type} (n : Nat) (hn : 1 ≤ n) :
    ∀ (fuel : Nat) (l c : List α), c ∈ chunkN n fuel l →
      c.length ≤ n ∧ c ≠ [] ∧ ∀ x ∈ c, x ∈ l := by
  intro fuel
  induction fuel with
  | zero => intro l c h; simp [chunkN] at h
  | succ k ih =>
    intro l c h
    cases l with
    | nil => simp [chunkN] at h
    | cons x xs =>
      simp only [chunkN, List.mem_cons] at h
      rcases h with h | h
      · subst h
        refine ⟨by simp [List.length_take]; omega, ?_, fun y hy => List.mem_of_mem_take hy⟩
        cases n with
        | zero => omega
        | succ m => simp
      · obtain ⟨h1, h2, h3⟩ := ih _ c h
        exact ⟨h1, h2, fun y hy => List.mem_of_mem_drop (h3 y hy)⟩

/-! ### takeB / chunkB / splitMP -/

theorem takeB_append (o : Opts) (f budget : Nat) :
    ∀ (l : List Nlri) (used : Nat) (first : Bool),
      (takeB o f budget used first l).1 ++ (takeB o f budget used first l).2 = l := by
  intro l
  induction l with
  | nil => intro used first; rfl
  | cons p ps ih =>
    intro used first
    simp only [takeB]
    split
    · rfl
    · split
      · rfl
      · simp only [List.cons_append, ih]

theorem takeB_first (o : Opts) (f budget : Nat) (p : Nlri) (ps : List Nlri) (used : Nat) :
    ∃ t, (takeB o f budget used true (p :: ps)).1 = p :: t := by
  simp only [takeB]
  split
  · rename_i h; simp at h
  · split
    · exact ⟨[], rfl⟩
    · exact ⟨_, rfl⟩

/-- entries taken after the first one respect the budget -/
theorem takeB_budget_next (o : Opts) (f budget : Nat) :
    ∀ (l : List Nlri) (used : Nat), used ≤ budget →
      used + sumLen o f (takeB o f budget used false l).1 ≤ budget := by
  intro l
  induction l with
  | nil => intro used h; simp [takeB, sumLen]; exact h
  | cons p ps ih =>
    intro used h
    simp only [takeB]
    split
    · simp [sumLen]; exact h
    · rename_i h1
      split
      · rename_i h2
        simp only [Bool.not_false, Bool.true_and, decide_eq_true_eq] at h1
        simp [sumLen]; omega
      · rename_i h2
        have := ih (used + entryLen o f p) (by omega)
        simp only [sumLen, List.map_cons, List.sum_cons] at this ⊢
        omega

theorem takeB_budget_first (o : Opts) (f budget : Nat) (l : List Nlri) :
    (takeB o f budget 0 true l).1.length ≤ 1 ∨ sumLen o f (takeB o f budget 0 true l).1 ≤ budget := by
  cases l with
  | nil => left; simp [takeB]
  | cons p ps =>
    simp only [takeB]
    split
    · left; simp
    · split
      · left; simp
      · rename_i h2
        right
        have := takeB_budget_next o f budget ps (0 + entryLen o f p) (by omega)
        simp only [sumLen, List.map_cons, List.sum_cons] at this ⊢
        omega

theorem chunkB_flatten (o : Opts) (f budget : Nat) :
    ∀ (fuel : Nat) (l : List Nlri), l.length ≤ fuel → (chunkB o f budget fuel l).flatten = l := by
  intro fuel
  induction fuel with
  | zero => intro l h; cases l with
    | nil => rfl
    | cons x xs => simp at h
  | succ k ih =>
    intro l h
    cases l with
    | nil => rfl
    | cons p ps =>
      simp only [chunkB, List.flatten_cons]
      have ha := takeB_append o f budget (p :: ps) 0 true
      obtain ⟨t, ht⟩ := takeB_first o f budget p ps 0
      rw [ih]
      · exact ha
      · have hl := congrArg List.length ha
        rw [ht] at hl
        simp only [List.length_append, List.length_cons] at hl h
        omega

theorem chunkB_mem (o : Opts) (f budget : Nat) :
    ∀ (fuel : Nat) (l c : List Nlri), c ∈ chunkB o f budget fuel l →
      c ≠ [] ∧ (c.length = 1 ∨ sumLen o f c ≤ budget) := by
  intro fuel
  induction fuel with
  | zero => intro l c h; simp [chunkB] at h
  | succ k ih =>
    intro l c h
    cases l with
    | nil => simp [chunkB] at h
    | cons p ps =>
      simp only [chunkB, List.mem_cons] at h
      rcases h with h | h
      · obtain ⟨t, ht⟩ := takeB_first o f budget p ps 0
        have hb := takeB_budget_first o f budget (p :: ps)
        rw [← h] at hb ht
        refine ⟨by rw [ht]; simp, ?_⟩
        rcases hb with hb | hb
        · left; rw [ht] at hb ⊢; simp at hb ⊢; exact hb
        · right; exact hb
      · exact ih _ c h

theorem splitMP_flatten (o : Opts) (f base : Nat) (ns : List Nlri) :
    (splitMP o f base ns).flatten = ns := by
  unfold splitMP
  split
  · induction ns with
    | nil => rfl
    | cons n r ih => simp only [List.map_cons, List.flatten_cons, ih]; rfl
  · exact chunkB_flatten o f _ _ ns (Nat.le_refl _)

theorem splitMP_mem (o : Opts) (f base : Nat) (ns c : List Nlri) (h : c ∈ splitMP o f base ns) :
    c ≠ [] ∧ (c.length = 1 ∨ base + sumLen o f c ≤ limit o) := by
  unfold splitMP at h
  split at h
  · rw [List.mem_map] at h
    obtain ⟨n, _, e⟩ := h
    subst e
    exact ⟨by simp, Or.inl rfl⟩
  · rename_i hb
    obtain ⟨h1, h2⟩ := chunkB_mem o f _ _ ns c h
    refine ⟨h1, h2.imp id (fun h => by omega)⟩

theorem mem_of_mem_flatten_eq {α : Type} {L : List (List α)} {l c : List α} (h : L.flatten = l)
    (hc : c ∈ L) : ∀ x ∈ c, x ∈ l := by
  intro x hx
  rw [← h]
  exact List.mem_flatten.mpr ⟨c, hc, hx⟩

/-! ### groupBy -/

section
variable {α κ : Type} [DecidableEq κ] (key : α → κ)

theorem groupBy_key : ∀ (fuel : Nat) (l : List α) (g : κ × List α), g ∈ groupBy key fuel l →
    g.2 ≠ [] ∧ (∀ x ∈ g.2, key x = g.1 ∧ x ∈ l) := by
  intro fuel
  induction fuel with
  | zero => intro l g h; simp [groupBy] at h
  | succ k ih =>
    intro l g h
    cases l with
    | nil => simp [groupBy] at h
    | cons x xs =>
      simp only [groupBy, List.mem_cons] at h
      rcases h with h | h
      · subst h
        refine ⟨by simp, ?_⟩
        intro y hy
        simp only [List.mem_cons, List.mem_filter, decide_eq_true_eq] at hy
        rcases hy with hy | hy
        · subst hy; exact ⟨rfl, List.mem_cons_self⟩
        · exact ⟨hy.2, List.mem_cons_of_mem _ hy.1⟩
      · obtain ⟨h1, h2⟩ := ih _ g h
        refine ⟨h1, fun y hy => ?_⟩
        obtain ⟨a, b⟩ := h2 y hy
        exact ⟨a, List.mem_cons_of_mem _ (List.mem_filter.mp b).1⟩

/-- whatever is done with each bucket, if it amounts (up to order) to doing `G` to each member,
    the whole amounts to doing `G` to each element of the list -/
theorem groupBy_flatMap_perm {β : Type} (H : κ × List α → List β) (G : α → List β) :
    ∀ (fuel : Nat) (l : List α), l.length ≤ fuel →
      (∀ g, g.2 ≠ [] → (∀ x ∈ g.2, key x = g.1 ∧ x ∈ l) → (H g).Perm (g.2.flatMap G)) →
      ((groupBy key fuel l).flatMap H).Perm (l.flatMap G) := by
  intro fuel
  induction fuel with
  | zero =>
    intro l h _
    cases l with
    | nil => simp [groupBy]
    | cons x xs => simp at h
  | succ k ih =>
    intro l h hH
    cases l with
    | nil => simp [groupBy]
    | cons x xs =>
      simp only [groupBy, List.flatMap_cons]
      have hfl : (xs.filter (fun y => !decide (key y = key x))).length ≤ k := by
        have := List.length_filter_le (fun y => !decide (key y = key x)) xs
        simp only [List.length_cons] at h; omega
      have h1 := hH (key x, x :: xs.filter (fun y => key y = key x)) (by simp) (by
        intro y hy
        simp only [List.mem_cons, List.mem_filter, decide_eq_true_eq] at hy
        rcases hy with hy | hy
        · subst hy; exact ⟨rfl, List.mem_cons_self⟩
        · exact ⟨hy.2, List.mem_cons_of_mem _ hy.1⟩)
      have h2 := ih (xs.filter (fun y => !decide (key y = key x))) hfl (by
        intro g hg hk
        apply hH g hg
        intro y hy
        obtain ⟨a, b⟩ := hk y hy
        exact ⟨a, List.mem_cons_of_mem _ (List.mem_filter.mp b).1⟩)
      refine (h1.append h2).trans ?_
      simp only [List.flatMap_cons, List.append_assoc]
      refine List.Perm.append_left _ ?_
      rw [← List.flatMap_append]
      exact (List.filter_append_perm (fun y => decide (key y = key x)) xs).flatMap_right G

end

end Pack
