/-
C02 (table level) — helper lemmas, part D: the partial operations of a multi-family Adj-RIB-In
(`AdjRib.Drop / StaleAll / DropStale` on a subset of the families).  Core-only.
-/
import Lemmas.Table
namespace Tbl
variable {δ : Type}

theorem tD_chainFind_map (f : δ → δ) (c : Chain δ) (p : Pfx) :
    chainFind (c.map (fun e => (e.1, f e.2))) p = (chainFind c p).map f := by
  induction c with
  | nil => rfl
  | cons e r ih =>
    obtain ⟨q, d⟩ := e
    by_cases hq : q = p <;> simp [chainFind, hq, ih]

theorem tD_mget_mapDests (f : δ → δ) (t : Dests δ) (k : Nat) :
    mget (mapDests f t) k = (mget t k).map (fun c => c.map (fun e => (e.1, f e.2))) := by
  induction t with
  | nil => rfl
  | cons kc r ih =>
    obtain ⟨k', c⟩ := kc
    by_cases hk : k' = k
    · simp [mapDests, mget, hk]
    · simp only [mapDests, List.map_cons, mget, hk, if_false] at ih ⊢
      exact ih

/-- rewriting every destination in place changes each content and nothing else -/
theorem mapDests_get (f : δ → δ) (h : Pfx → Nat) (t : Dests δ) (p : Pfx) :
    get h (mapDests f t) p = (get h t p).map f := by
  unfold get
  rw [tD_mget_mapDests]
  cases mget t (h p) with
  | none => rfl
  | some c => simp [tD_chainFind_map]

theorem mapDests_wf (f : δ → δ) {h : Pfx → Nat} {t : Dests δ} (hw : WF h t) : WF h (mapDests f t) := by
  obtain ⟨hk, hc⟩ := hw
  refine ⟨?_, ?_⟩
  · have : (mapDests f t).map Prod.fst = t.map Prod.fst := by
      simp [mapDests, List.map_map, Function.comp_def]
    rw [this]; exact hk
  · intro kc hm
    simp only [mapDests, List.mem_map] at hm
    obtain ⟨kc0, hm0, rfl⟩ := hm
    obtain ⟨h1, h2, h3⟩ := hc kc0 hm0
    refine ⟨?_, ?_, ?_⟩
    · intro he
      apply h1
      simpa using he
    · intro e he
      simp only [List.mem_map] at he
      obtain ⟨e0, he0, rfl⟩ := he
      exact h2 e0 he0
    · have : (kc0.2.map (fun e => (e.1, f e.2))).map Prod.fst = kc0.2.map Prod.fst := by
        simp [List.map_map, Function.comp_def]
      simp only [this]; exact h3

theorem adjDropStale_wf {h : Pfx → Nat} {t : Dests TDest} (hw : WF h t) : WF h (adjDropStale h t).1 := by
  unfold adjDropStale
  generalize staleWds t = l
  suffices hs : ∀ (acc : Dests TDest × Int), WF h acc.1 →
      WF h (l.foldl (fun acc o =>
        let old := (get h acc.1 o.1).getD (adjOps.fresh o.1)
        (update adjOps h acc.1 o.1 o.2, acc.2 + adjAccDelta old o.2)) acc).1 from hs (t, 0) hw
  induction l with
  | nil => intro acc ha; exact ha
  | cons o r ih =>
    intro acc ha
    simp only [List.foldl_cons]
    exact ih _ (wf_update adjOps ha o.1 o.2)

theorem tD_adjOn_cons (fams : List Nat) (g : Dests TDest × Int → Dests TDest × Int) (x : Nat × (Dests TDest × Int))
    (r : AdjRibM) :
    adjOn fams g (x :: r) = (if fams.contains x.1 then (x.1, g x.2) else x) :: adjOn fams g r := rfl

theorem tD_fam_cons (y : Nat × (Dests TDest × Int)) (r : AdjRibM) (f : Nat) :
    AdjRibM.fam (y :: r) f = if y.1 = f then some y.2 else AdjRibM.fam r f := rfl

theorem tD_step_fst (fams : List Nat) (g : Dests TDest × Int → Dests TDest × Int) (x : Nat × (Dests TDest × Int)) :
    (if fams.contains x.1 then (x.1, g x.2) else x).1 = x.1 := by
  split <;> rfl

/-- an operation restricted to some families leaves every other family's table and counter alone -/
theorem adjOn_other (fams : List Nat) (g : Dests TDest × Int → Dests TDest × Int) (a : AdjRibM)
    (f : Nat) (hf : f ∉ fams) : (adjOn fams g a).fam f = a.fam f := by
  induction a with
  | nil => rfl
  | cons x r ih =>
    rw [tD_adjOn_cons, tD_fam_cons, tD_fam_cons, tD_step_fst, ih]
    by_cases hx : x.1 = f
    · have hc : fams.contains x.1 = false := by
        rw [hx]; simpa using hf
      rw [if_pos hx, if_pos hx, hc]; rfl
    · rw [if_neg hx, if_neg hx]

/-- … and does `g` to each family named -/
theorem adjOn_named (fams : List Nat) (g : Dests TDest × Int → Dests TDest × Int) (a : AdjRibM)
    (f : Nat) (hf : f ∈ fams) : (adjOn fams g a).fam f = (a.fam f).map g := by
  induction a with
  | nil => rfl
  | cons x r ih =>
    rw [tD_adjOn_cons, tD_fam_cons, tD_fam_cons, tD_step_fst, ih]
    by_cases hx : x.1 = f
    · have hc : fams.contains x.1 = true := by
        rw [hx]; simpa using hf
      rw [if_pos hx, if_pos hx, hc]; rfl
    · rw [if_neg hx, if_neg hx]

end Tbl
