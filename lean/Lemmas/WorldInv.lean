/-
  Lifting `delta_correct` to whole histories (C01_quiescent): the world invariant
  "every established peer holds, for every destination, exactly the export of the current best
  path" is preserved by every operation of the speaker.
-/
import Lemmas.World
import Lemmas.BestPathHist
namespace World
open BestPath

/-- the marker a view holds for destination `pfx` (path-id 0: no ADD-PATH) -/
def heldOf (v : View) (pfx : Nat) : Option Nat :=
  (v.find? (fun e => e.1 == pfx && e.2.1 == 0)).map (·.2.2)

theorem find_filter_of_imp {α : Type} (l : List α) (p q : α → Bool)
    (h : ∀ a, q a = true → p a = true) : (l.filter p).find? q = l.find? q := by
  induction l with
  | nil => rfl
  | cons x xs ih =>
    rw [List.filter_cons]
    cases hp : p x
    · have hq : q x = false := by
        cases hq : q x
        · rfl
        · have := h x hq; rw [hp] at this; cases this
      simp only [Bool.false_eq_true, if_false, List.find?_cons, hq]
      exact ih
    · simp only [if_true, List.find?_cons]
      rw [ih]

theorem find_filter_none {α : Type} (l : List α) (p q : α → Bool)
    (h : ∀ a, q a = true → p a = false) : (l.filter p).find? q = none := by
  rw [List.find?_eq_none]
  intro a ha
  have hp := (List.mem_filter.mp ha).2
  cases hq : q a
  · simp
  · have := h a hq; rw [hp] at this; cases this

theorem heldOf_viewApply_same (v : View) (p : P) (pfx : Nat) (h : p.r.pfx = pfx) :
    heldOf (viewApply v p 0) pfx = heldApply (heldOf v pfx) (some p) := by
  subst h
  unfold viewApply heldOf heldApply
  have hnone : (v.filter (fun e => !(e.1 == p.r.pfx && e.2.1 == 0))).find?
      (fun e => e.1 == p.r.pfx && e.2.1 == 0) = none :=
    find_filter_none v _ _ (fun a ha => by simp [ha])
  cases hw : p.wd
  · simp only [Bool.false_eq_true, if_false, List.find?_cons, beq_self_eq_true, Bool.and_self,
      Option.map_some, hw]
  · simp only [if_true, hnone, Option.map_none, hw]

theorem find_filter_other (v : View) (q pfx : Nat) (h : q ≠ pfx) :
    (v.filter (fun e => !(e.1 == q && e.2.1 == 0))).find? (fun e => e.1 == pfx && e.2.1 == 0) =
      v.find? (fun e => e.1 == pfx && e.2.1 == 0) := by
  apply find_filter_of_imp
  intro a ha
  simp only [Bool.and_eq_true, beq_iff_eq] at ha
  have : (a.1 == q) = false := by
    rw [ha.1]; simp; exact fun e => h e.symm
  simp [this]

theorem heldOf_viewApply_other (v : View) (p : P) (pfx : Nat) (h : p.r.pfx ≠ pfx) :
    heldOf (viewApply v p 0) pfx = heldOf v pfx := by
  unfold viewApply heldOf
  cases hw : p.wd
  · have hne : (p.r.pfx == pfx && (0 : Nat) == 0) = false := by simp [h]
    simp only [Bool.false_eq_true, if_false, List.find?_cons, hne]
    rw [find_filter_other v p.r.pfx pfx h]
  · simp only [if_true]
    rw [find_filter_other v p.r.pfx pfx h]

/-! ### the Loc-RIB association list -/

theorem ribOf_setRib_same (w : W) (pfx : Nat) (l : List Cand) : (w.setRib pfx l).ribOf pfx = l := by
  simp only [W.setRib, W.ribOf, List.find?_cons, beq_self_eq_true]

theorem ribOf_setRib_other (w : W) (pfx q : Nat) (l : List Cand) (h : q ≠ pfx) :
    (w.setRib pfx l).ribOf q = w.ribOf q := by
  unfold W.setRib W.ribOf
  have h1 : ((pfx, l).1 == q) = false := by simp; exact fun e => h e.symm
  simp only [List.find?_cons, h1]
  have : (w.rib.filter (fun x => x.1 != pfx)).find? (fun x => x.1 == q) = w.rib.find? (fun x => x.1 == q) := by
    apply find_filter_of_imp
    intro a ha
    simp only [beq_iff_eq] at ha
    simp [ha, h]
  rw [this]

/-- every path in the list after `calcStep` was there before or is the announced one -/
theorem calcStep_subset (o : Opts) (l : List Cand) (op : Op) :
    ∀ y ∈ calcStep o l op, y ∈ l ∨ op = .ann y := by
  intro y hy
  cases op with
  | ann d =>
    simp only [calcStep] at hy
    have := (insertSort_perm o _ d).subset hy
    rw [List.mem_cons] at this
    rcases this with rfl | hy'
    · right; rfl
    · left
      clear hy
      induction l with
      | nil => simp [implicitWithdraw] at hy'
      | cons z zs ihz =>
        unfold implicitWithdraw at hy'
        split at hy'
        · exact List.mem_cons_of_mem _ hy'
        · rw [List.mem_cons] at hy'
          rcases hy' with rfl | hy'
          · exact List.mem_cons_self
          · exact List.mem_cons_of_mem _ (ihz hy')
  | wd d =>
    left
    simp only [calcStep] at hy
    induction l with
    | nil => simp [explicitWithdraw] at hy
    | cons z zs ihz =>
      unfold explicitWithdraw at hy
      split at hy
      · exact List.mem_cons_of_mem _ hy
      · rw [List.mem_cons] at hy
        rcases hy with rfl | hy
        · exact List.mem_cons_self
        · exact List.mem_cons_of_mem _ (ihz hy)

/-! ### the invariant -/

/-- well-formedness of the peer set: distinct neighbour addresses and indices -/
structure PeersWF (peers : List PeerSt) : Prop where
  addr : peers.Pairwise (fun a b => a.cfg.addr ≠ b.cfg.addr)
  idx  : peers.Pairwise (fun a b => a.cfg.idx ≠ b.cfg.idx)

/-- the source of a route is the speaker itself (API / locally injected) or a configured peer -/
def SrcIn (g : Global) (peers : List PeerSt) (r : Cand) : Prop :=
  r.src = localSrc ∨ ∃ ps ∈ peers, r.src = ps.cfg.srcInfo g

theorem SrcIn.map {g : Global} {peers : List PeerSt} {r : Cand} (f : PeerSt → PeerSt)
    (hf : ∀ ps, (f ps).cfg = ps.cfg) (h : SrcIn g peers r) : SrcIn g (peers.map f) r := by
  rcases h with h | ⟨q, hq, hs⟩
  · exact Or.inl h
  · exact Or.inr ⟨f q, List.mem_map.mpr ⟨q, hq, rfl⟩, by rw [hf q]; exact hs⟩

/-- every installed route sits under its own prefix and was injected locally or learned from a
    configured peer -/
def RibWF (w : W) : Prop :=
  ∀ e ∈ w.rib, ∀ r ∈ e.2, r.pfx = e.1 ∧ SrcIn w.g w.peers r

/-- **the C01 invariant**: an established (non route-server) peer holds, for every destination,
    exactly the export of the current best path -/
def ViewsOK (w : W) : Prop :=
  ∀ ps ∈ w.peers, ps.up = true → ps.cfg.isRSClient = false →
    ∀ pfx, heldOf ps.view pfx = wantOf w.g ps.cfg (w.ribOf pfx)

structure Inv (w : W) : Prop where
  peers : PeersWF w.peers
  keys  : w.rib.Pairwise (fun a b => a.1 ≠ b.1)      -- one Loc-RIB entry per destination
  rib   : RibWF w
  views : ViewsOK w
  nodup : ∀ e ∈ w.rib, NodupKey e.2                   -- one path per (source, path-id)

theorem mem_ribOf (w : W) (pfx : Nat) (r : Cand) (h : r ∈ w.ribOf pfx) :
    ∃ e ∈ w.rib, e.1 = pfx ∧ r ∈ e.2 := by
  unfold W.ribOf at h
  cases hf : w.rib.find? (fun x => x.1 == pfx) with
  | none => simp [hf] at h
  | some e =>
    simp only [hf] at h
    refine ⟨e, List.mem_of_find?_eq_some hf, ?_, h⟩
    have := List.find?_some hf
    simpa using this

theorem srcInfo_addr (g : Global) (t : PeerCfg) : (t.srcInfo g).addr = some t.addr := rfl

/-- two peers of a well-formed peer set with the same address are the same peer -/
theorem peer_of_addr {peers : List PeerSt} (wf : PeersWF peers) {a b : PeerSt}
    (ha : a ∈ peers) (hb : b ∈ peers) (h : a.cfg.addr = b.cfg.addr) : a = b := by
  have := wf.addr
  induction peers with
  | nil => cases ha
  | cons x xs ih =>
    rw [List.pairwise_cons] at this
    rw [List.mem_cons] at ha hb
    rcases ha with rfl | ha <;> rcases hb with rfl | hb
    · rfl
    · exact absurd h (this.1 b hb)
    · exact absurd h.symm (this.1 a ha)
    · exact ih ⟨this.2, (List.pairwise_cons.mp wf.idx).2⟩ ha hb this.2

/-- the two side conditions of `delta_correct` follow from RibWF + PeersWF -/
theorem wf_for_delta (w : W) (hp : PeersWF w.peers) (ps : PeerSt) (hps : ps ∈ w.peers)
    (l1 l2 : List Cand)
    (h1 : ∀ r ∈ l1, SrcIn w.g w.peers r)
    (h2 : ∀ r ∈ l2, SrcIn w.g w.peers r) :
    (∀ o, l1.head? = some o → FromPeerWF w.g ps.cfg o) ∧
    (∀ b o, l2.head? = some b → l1.head? = some o → b.src.equal o.src = true → b.src = o.src) := by
  constructor
  · intro o ho haddr
    rcases h1 o (List.mem_of_mem_head? ho) with hl | ⟨q, hq, hsrc⟩
    · rw [hl] at haddr; cases haddr
    · rw [hsrc, srcInfo_addr] at haddr
      have : q = ps := peer_of_addr hp hq hps (by simpa using haddr)
      rw [hsrc, this]
  · intro b o hb ho heq
    have haddr := srcEqual_addr heq
    rcases h2 b (List.mem_of_mem_head? hb) with hl1 | ⟨q1, hq1, hs1⟩ <;>
      rcases h1 o (List.mem_of_mem_head? ho) with hl2 | ⟨q2, hq2, hs2⟩
    · rw [hl1, hl2]
    · rw [hl1, hs2, srcInfo_addr] at haddr; cases haddr
    · rw [hs1, hl2, srcInfo_addr] at haddr; cases haddr
    · rw [hs1, hs2, srcInfo_addr, srcInfo_addr] at haddr
      have : q1 = q2 := peer_of_addr hp hq1 hq2 (by simpa using haddr)
      rw [hs1, hs2, this]


/-! ### what the fan-out sends concerns the destination being updated -/

theorem wdOld_route (path : P) (old : Option Cand) (p : P) (h : wdOld path old = some p) :
    old = some p.r := by
  unfold wdOld at h
  cases old with
  | none => simp at h
  | some o => simp at h; rw [← h.2]

theorem core_route (g : Global) (t : PeerCfg) (path : P) (old : Option Cand) (p : P)
    (h : filterpathCore g t path old = some p) : p.r = path.r ∨ old = some p.r := by
  unfold filterpathCore at h
  cases h1 : ibgpStage g t path old with
  | some res =>
    simp only [h1] at h
    subst h
    unfold ibgpStage at h1
    split at h1
    · split at h1
      · split at h1
        · simp at h1; right; exact wdOld_route path old p h1
        · simp at h1
      · split at h1
        · cases old with
          | none => simp at h1
          | some o =>
            simp only at h1
            split at h1
            · simp at h1; right; rw [← h1]
            · simp at h1
        · simp at h1
    · simp at h1
  | none =>
    simp only [h1] at h
    cases h2 : srcStage t path old with
    | none => simp [h2] at h
    | some q =>
      simp only [h2] at h
      have hq : q.r = path.r ∨ old = some q.r := by
        unfold srcStage at h2
        by_cases hr : (t.rid != path.r.src.rid) = true
        · rw [if_pos hr] at h2; simp at h2; left; rw [← h2]
        · rw [if_neg hr] at h2
          cases old with
          | none => simp at h2
          | some o =>
            simp only at h2
            split at h2
            · right; exact wdOld_route path (some o) q h2
            · simp at h2
      unfold loopStage at h
      split at h
      · right; exact wdOld_route q old p h
      · simp at h; rw [← h]; exact hq

theorem sfilter_route (g : Global) (t : PeerCfg) (path : P) (old : Option Cand) (p : P)
    (h : sFilterpath g t path old = some p) : p.r = path.r ∨ old = some p.r := by
  unfold sFilterpath at h
  cases hc : filterpathCore g t path old with
  | none => simp [hc] at h
  | some q =>
    simp only [hc] at h
    have := core_route g t path old q hc
    split at h <;> (simp at h; rw [← h]; exact this)

theorem getChanges_routes (oldL newL : List Cand) (b : P) (old : Option Cand)
    (h : getChanges oldL newL = (some b, old)) :
    (b.r ∈ oldL ∨ b.r ∈ newL) ∧ (∀ o, old = some o → o ∈ oldL) := by
  unfold getChanges at h
  cases hn : newL.head? <;> cases ho : oldL.head? <;> simp only [hn, ho] at h
  · simp at h
  · rename_i o
    split at h <;> simp at h
    obtain ⟨h1, h2⟩ := h
    subst h1 h2
    exact ⟨Or.inl (List.mem_of_mem_head? ho), fun o' ho' => by cases ho'; exact List.mem_of_mem_head? ho⟩
  · rename_i b'
    split at h <;> simp at h
    obtain ⟨h1, h2⟩ := h
    subst h1 h2
    exact ⟨Or.inr (List.mem_of_mem_head? hn), fun o' ho' => by cases ho'⟩
  · rename_i b' o
    have hbm := List.mem_of_mem_head? hn
    have hom := List.mem_of_mem_head? ho
    (repeat' split at h) <;> simp at h <;>
    · obtain ⟨h1, h2⟩ := h
      subst h1 h2
      first
        | exact ⟨Or.inr hbm, fun o' ho' => by cases ho'; exact hom⟩
        | exact ⟨Or.inl hom, fun o' ho' => by cases ho'; exact hom⟩

theorem deltaFor_route (g : Global) (t : PeerCfg) (oldL newL : List Cand) (p : P)
    (h : deltaFor g t oldL newL = some p) : p.r ∈ oldL ∨ p.r ∈ newL := by
  unfold deltaFor at h
  cases hg : getChanges oldL newL with
  | mk best old =>
    simp only [hg] at h
    cases best with
    | none => simp at h
    | some b =>
      simp only at h
      obtain ⟨hb, hold⟩ := getChanges_routes oldL newL b old hg
      rcases sfilter_route g t b old p h with e | e
      · rw [e]; exact hb
      · exact Or.inl (hold _ e)

theorem fanout_peers (w : W) (oldL newL : List Cand) :
    (fanout w oldL newL).peers = w.peers.map (fun ps =>
      if ps.up && !ps.cfg.isRSClient then
        match deltaFor w.g ps.cfg oldL newL with
        | some p => { ps with view := viewApply ps.view p 0 }
        | none => ps
      else ps) ∧ (fanout w oldL newL).rib = w.rib ∧ (fanout w oldL newL).g = w.g := by
  unfold fanout deltaFor
  cases hg : getChanges oldL newL with
  | mk best old =>
    cases best with
    | none =>
      simp only
      refine ⟨?_, trivial, trivial⟩
      have : (fun (ps : PeerSt) => if (ps.up && !ps.cfg.isRSClient) = true then ps else ps) = id := by
        funext ps; split <;> rfl
      rw [this, List.map_id]
    | some b => exact ⟨rfl, rfl, rfl⟩


/-! ### one table update + fan-out keeps the invariant -/

/-- a route an operation may install for destination `pfx`: filed under `pfx`, learned from a
    configured peer -/
def OpWF (w : W) (pfx : Nat) : Op → Prop
  | .ann r => r.pfx = pfx ∧ SrcIn w.g w.peers r
  | .wd _ => True

theorem pairwise_map_cfg {R : PeerCfg → PeerCfg → Prop} (l : List PeerSt) (f : PeerSt → PeerSt)
    (hf : ∀ ps, (f ps).cfg = ps.cfg) (h : l.Pairwise (fun a b => R a.cfg b.cfg)) :
    (l.map f).Pairwise (fun a b => R a.cfg b.cfg) := by
  rw [List.pairwise_map]
  apply List.Pairwise.imp _ h
  intro a b hab
  rw [hf a, hf b]; exact hab

theorem peersWF_map (l : List PeerSt) (f : PeerSt → PeerSt) (hf : ∀ ps, (f ps).cfg = ps.cfg)
    (h : PeersWF l) : PeersWF (l.map f) :=
  ⟨pairwise_map_cfg (R := fun a b => a.addr ≠ b.addr) l f hf h.addr,
   pairwise_map_cfg (R := fun a b => a.idx ≠ b.idx) l f hf h.idx⟩

theorem ribUpdate_inv (w : W) (op : Op) (pfx : Nat) (hinv : Inv w) (hop : OpWF w pfx op) :
    Inv (ribUpdate w op pfx) := by
  show Inv (fanout (w.setRib pfx (calcStep w.opts (w.ribOf pfx) op)) (w.ribOf pfx)
    (calcStep w.opts (w.ribOf pfx) op))
  generalize hold : w.ribOf pfx = oldL
  generalize hnew : calcStep w.opts oldL op = newL
  obtain ⟨hpeers, hrib, hg⟩ := fanout_peers (w.setRib pfx newL) oldL newL
  have hg' : (w.setRib pfx newL).g = w.g := rfl
  have hp' : (w.setRib pfx newL).peers = w.peers := rfl
  -- facts about the two path lists
  have holdWF : ∀ r ∈ oldL, r.pfx = pfx ∧ SrcIn w.g w.peers r := by
    intro r hr
    rw [← hold] at hr
    obtain ⟨e, he, hep, hre⟩ := mem_ribOf w pfx r hr
    have := hinv.rib e he r hre
    rw [hep] at this
    exact this
  have hnewWF : ∀ r ∈ newL, r.pfx = pfx ∧ SrcIn w.g w.peers r := by
    intro r hr
    rw [← hnew] at hr
    rcases calcStep_subset w.opts oldL op r hr with h | h
    · exact holdWF r h
    · subst h; exact hop
  -- the per-peer update function keeps cfg / up
  let f : PeerSt → PeerSt := fun ps =>
    if ps.up && !ps.cfg.isRSClient then
      match deltaFor w.g ps.cfg oldL newL with
      | some p => { ps with view := viewApply ps.view p 0 }
      | none => ps
    else ps
  have hfcfg : ∀ ps, (f ps).cfg = ps.cfg ∧ (f ps).up = ps.up := by
    intro ps
    simp only [f]
    split
    · split <;> exact ⟨rfl, rfl⟩
    · exact ⟨rfl, rfl⟩
  have hpeers' : (fanout (w.setRib pfx newL) oldL newL).peers = w.peers.map f := by
    rw [hpeers, hp', hg']
  have holdN : NodupKey oldL := by
    rw [← hold]; unfold W.ribOf
    cases hf : w.rib.find? (fun x => x.1 == pfx) with
    | none => exact List.Pairwise.nil
    | some e => exact hinv.nodup e (List.mem_of_find?_eq_some hf)
  refine ⟨?_, ?_, ?_, ?_, ?_⟩
  rotate_right
  · -- one path per (source, path-id)
    intro e he
    rw [hrib] at he
    simp only [W.setRib, List.mem_cons] at he
    rcases he with rfl | he
    · rw [← hnew]; exact calcStep_nodup w.opts oldL op holdN
    · exact hinv.nodup e (List.mem_filter.mp he).1
  · rw [hpeers']
    exact peersWF_map w.peers f (fun ps => (hfcfg ps).1) hinv.peers
  · rw [hrib]
    simp only [W.setRib, List.pairwise_cons]
    refine ⟨?_, List.Pairwise.sublist List.filter_sublist hinv.keys⟩
    intro e he
    have := (List.mem_filter.mp he).2
    simp only [bne_iff_ne, ne_eq] at this
    exact fun h => this h.symm
  · -- RibWF
    intro e he r hr
    rw [hrib] at he
    rw [hg, hg', hpeers']
    have key : r.pfx = e.1 ∧ SrcIn w.g w.peers r := by
      simp only [W.setRib, List.mem_cons] at he
      rcases he with rfl | he
      · exact hnewWF r hr
      · exact hinv.rib e (List.mem_filter.mp he).1 r hr
    exact ⟨key.1, key.2.map f (fun ps => (hfcfg ps).1)⟩
  · -- ViewsOK
    intro ps' hps' hup hrs q
    rw [hpeers'] at hps'
    obtain ⟨ps, hps, rfl⟩ := List.mem_map.mp hps'
    rw [(hfcfg ps).2] at hup
    rw [(hfcfg ps).1] at hrs ⊢
    rw [hg, hg']
    have hribOf : (fanout (w.setRib pfx newL) oldL newL).ribOf q = (w.setRib pfx newL).ribOf q := by
      unfold W.ribOf; rw [hrib]
    rw [hribOf]
    have hview := hinv.views ps hps hup hrs
    have hcond : (ps.up && !ps.cfg.isRSClient) = true := by simp [hup, hrs]
    obtain ⟨wfO, wfEq⟩ := wf_for_delta w hinv.peers ps hps oldL newL
      (fun r hr => (holdWF r hr).2) (fun r hr => (hnewWF r hr).2)
    have hdelta := delta_correct w.g ps.cfg hrs oldL newL wfO wfEq
    by_cases hq : q = pfx
    · subst hq
      rw [ribOf_setRib_same]
      simp only [f, hcond, if_true]
      cases hd : deltaFor w.g ps.cfg oldL newL with
      | none =>
        simp only
        rw [hd] at hdelta
        rw [hview q, hold]
        simpa [heldApply] using hdelta
      | some p =>
        simp only
        have hpp : p.r.pfx = q := by
          rcases deltaFor_route w.g ps.cfg oldL newL p hd with h | h
          · exact (holdWF _ h).1
          · exact (hnewWF _ h).1
        rw [heldOf_viewApply_same _ _ _ hpp, hview q, hold]
        rw [hd] at hdelta
        exact hdelta
    · rw [ribOf_setRib_other _ _ _ _ hq]
      simp only [f, hcond, if_true]
      cases hd : deltaFor w.g ps.cfg oldL newL with
      | none => simp only; exact hview q
      | some p =>
        simp only
        have hpp : p.r.pfx = pfx := by
          rcases deltaFor_route w.g ps.cfg oldL newL p hd with h | h
          · exact (holdWF _ h).1
          · exact (hnewWF _ h).1
        rw [heldOf_viewApply_other _ _ _ (by rw [hpp]; exact fun e => hq e.symm)]
        exact hview q


/-! ### the remaining operations -/

theorem inv_of_eq (w w' : W) (h : Inv w) (hg : w'.g = w.g) (hp : w'.peers = w.peers)
    (hr : w'.rib = w.rib) : Inv w' := by
  refine ⟨hp ▸ h.peers, hr ▸ h.keys, ?_, ?_, hr ▸ h.nodup⟩
  · intro e he r hre
    rw [hr] at he
    rw [hg, hp]
    exact h.rib e he r hre
  · intro ps hps hup hrs q
    rw [hp] at hps
    have : w'.ribOf q = w.ribOf q := by unfold W.ribOf; rw [hr]
    rw [hg, this]
    exact h.views ps hps hup hrs q

/-- changing one peer's state without touching its configuration, session flag or view -/
theorem updPeer_inv (w : W) (idx : Nat) (f : PeerSt → PeerSt)
    (hf : ∀ ps, (f ps).cfg = ps.cfg ∧ (f ps).up = ps.up ∧ (f ps).view = ps.view) (h : Inv w) :
    Inv (w.updPeer idx f) := by
  let f' : PeerSt → PeerSt := fun ps => if ps.cfg.idx == idx then f ps else ps
  have hf' : ∀ ps, (f' ps).cfg = ps.cfg ∧ (f' ps).up = ps.up ∧ (f' ps).view = ps.view := by
    intro ps; simp only [f']; split
    · exact hf ps
    · exact ⟨rfl, rfl, rfl⟩
  refine ⟨peersWF_map w.peers f' (fun ps => (hf' ps).1) h.peers, h.keys, ?_, ?_, h.nodup⟩
  · intro e he r hre
    obtain ⟨h1, hs⟩ := h.rib e he r hre
    exact ⟨h1, hs.map f' (fun ps => (hf' ps).1)⟩
  · intro ps' hps' hup hrs q
    obtain ⟨ps, hps, rfl⟩ := List.mem_map.mp hps'
    rw [(hf' ps).2.1] at hup
    rw [(hf' ps).1] at hrs ⊢
    rw [(hf' ps).2.2]
    exact h.views ps hps hup hrs q

theorem peer?_mem (w : W) (idx : Nat) (ps : PeerSt) (h : w.peer? idx = some ps) :
    ps ∈ w.peers ∧ ps.cfg.idx = idx := by
  unfold W.peer? at h
  exact ⟨List.mem_of_find?_eq_some h, by simpa using List.find?_some h⟩

theorem propagate_inv (w : W) (x : PeerCfg) (r : Cand) (wd : Bool) (h : Inv w)
    (hr : wd = false → SrcIn w.g w.peers r) : Inv (propagate w x r wd) := by
  unfold propagate
  apply ribUpdate_inv w _ r.pfx h
  cases wd with
  | true => simp [OpWF]
  | false =>
    simp only [Bool.false_eq_true, if_false, OpWF]
    have hs := hr rfl
    split <;> exact ⟨rfl, hs⟩

theorem adjAnnounce_route (a : Adj) (r : Cand) (rej : Bool) :
    (adjAnnounce a r rej).2.src = r.src ∧ (adjAnnounce a r rej).2.pfx = r.pfx := by
  unfold adjAnnounce
  split
  · simp only
    split <;> exact ⟨rfl, rfl⟩
  · exact ⟨rfl, rfl⟩

theorem recvAnn_inv (w : W) (idx : Nat) (r0 : Cand) (h : Inv w) : Inv (recvAnn w idx r0) := by
  unfold recvAnn
  cases hp : w.peer? idx with
  | none => exact h
  | some ps =>
    simp only
    split
    · exact h
    · obtain ⟨hmem, _⟩ := peer?_mem w idx ps hp
      have h1 : Inv { w with tick := w.tick + 1 } := inv_of_eq w _ h rfl rfl rfl
      generalize hr : ({ r0 with src := ps.cfg.srcInfo w.g, ts := w.tick + 1 } : Cand) = r
      have hsrc : r.src = ps.cfg.srcInfo w.g := by subst hr; rfl
      have ha := adjAnnounce_route ps.adj r (inboundRejected w.g ps.cfg r)
      refine propagate_inv _ _ _ _ (updPeer_inv _ idx _ (fun _ => ⟨rfl, rfl, rfl⟩) h1) ?_
      intro _
      -- the updated peer list still contains a peer with this configuration
      refine Or.inr ⟨_, List.mem_map.mpr ⟨ps, hmem, rfl⟩, ?_⟩
      rw [ha.1, hsrc]
      show ps.cfg.srcInfo w.g = (if (ps.cfg.idx == idx) = true then _ else ps).cfg.srcInfo w.g
      split <;> rfl

theorem recvWd_inv (w : W) (idx pfx pathId : Nat) (h : Inv w) : Inv (recvWd w idx pfx pathId) := by
  unfold recvWd
  cases hp : w.peer? idx with
  | none => exact h
  | some ps =>
    simp only
    split
    · exact h
    · have h1 : Inv { w with tick := w.tick + 1 } := inv_of_eq w _ h rfl rfl rfl
      exact propagate_inv _ _ _ true (updPeer_inv _ idx _ (fun _ => ⟨rfl, rfl, rfl⟩) h1)
        (fun e => by cases e)

/-- the full-table transfer sends, per destination, exactly `wantOf` -/
theorem transfer_fold (g : Global) (t : PeerCfg) :
    ∀ (L : List (Nat × List Cand)) (v0 : View),
      L.Pairwise (fun a b => a.1 ≠ b.1) →
      (∀ e ∈ L, ∀ r ∈ e.2, r.pfx = e.1) →
      (∀ e ∈ L, heldOf v0 e.1 = none) →
      ∀ q, heldOf (L.foldl (transferStep g t) v0) q =
        match L.find? (fun e => e.1 == q) with
        | some e => wantOf g t e.2
        | none => heldOf v0 q := by
  intro L
  induction L with
  | nil => intro v0 _ _ _ q; rfl
  | cons e rest ih =>
    intro v0 hk hp hn q
    rw [List.pairwise_cons] at hk
    simp only [List.foldl_cons, List.find?_cons]
    -- one step
    generalize hstep : transferStep g t v0 e = v1
    have hself : heldOf v1 e.1 = wantOf g t e.2 := by
      subst hstep
      unfold wantOf transferStep
      have h0 := hn e List.mem_cons_self
      cases hh : e.2.head? with
      | none => simpa using h0
      | some b =>
        simp only
        cases hbi : b.nhInvalid
        · simp only [Bool.false_eq_true, if_false]
          cases hf : sFilterpath g t ⟨b, false⟩ none with
          | none => simpa using h0
          | some p =>
            simp only
            have hpr : p.r = b := by
              rcases sfilter_route g t ⟨b, false⟩ none p hf with h | h
              · exact h
              · cases h
            have hpp : p.r.pfx = e.1 := by rw [hpr]; exact hp e List.mem_cons_self b (List.mem_of_mem_head? hh)
            rw [heldOf_viewApply_same _ _ _ hpp, h0]
            simp [heldApply]
        · simpa using h0
    have hother : ∀ q', q' ≠ e.1 → heldOf v1 q' = heldOf v0 q' := by
      intro q' hq'
      subst hstep
      unfold transferStep
      cases hh : e.2.head? with
      | none => rfl
      | some b =>
        simp only
        cases hbi : b.nhInvalid
        · simp only [Bool.false_eq_true, if_false]
          cases hf : sFilterpath g t ⟨b, false⟩ none with
          | none => rfl
          | some p =>
            simp only
            have hpr : p.r = b := by
              rcases sfilter_route g t ⟨b, false⟩ none p hf with h | h
              · exact h
              · cases h
            have hpp : p.r.pfx = e.1 := by rw [hpr]; exact hp e List.mem_cons_self b (List.mem_of_mem_head? hh)
            exact heldOf_viewApply_other _ _ _ (by rw [hpp]; exact fun h => hq' h.symm)
        · rfl
    have hn' : ∀ e' ∈ rest, heldOf v1 e'.1 = none := by
      intro e' he'
      rw [hother e'.1 (fun h => hk.1 e' he' h.symm)]
      exact hn e' (List.mem_cons_of_mem _ he')
    have hrec := ih v1 hk.2 (fun e' he' => hp e' (List.mem_cons_of_mem _ he')) hn' q
    rw [hrec]
    by_cases hq : e.1 = q
    · subst hq
      have : rest.find? (fun e' => e'.1 == e.1) = none := by
        rw [List.find?_eq_none]
        intro e' he'
        have := hk.1 e' he'
        simp; exact fun h => this h.symm
      simp [this, hself]
    · have : (e.1 == q) = false := by simp [hq]
      simp only [this]
      cases rest.find? (fun e' => e'.1 == q) with
      | some _ => rfl
      | none => simp only; exact hother q (fun h => hq h.symm)

theorem sessionUp_inv (w : W) (idx : Nat) (h : Inv w) : Inv (sessionUp w idx) := by
  unfold sessionUp
  cases hp : w.peer? idx with
  | none => exact h
  | some ps0 =>
    simp only
    have h1 : Inv { w with tick := w.tick + 1 } := inv_of_eq w _ h rfl rfl rfl
    generalize hw1 : ({ w with tick := w.tick + 1 } : W) = w1 at h1
    have hg : w1.g = w.g := by subst hw1; rfl
    have hrib : w1.rib = w.rib := by subst hw1; rfl
    let f' : PeerSt → PeerSt := fun ps =>
      if ps.cfg.idx == idx then { ps with up := true, view := transfer w1 ps.cfg } else ps
    have hcfg : ∀ ps, (f' ps).cfg = ps.cfg := by
      intro ps; simp only [f']; split <;> rfl
    refine ⟨peersWF_map w1.peers f' hcfg h1.peers, h1.keys, ?_, ?_, h1.nodup⟩
    · intro e he r hre
      obtain ⟨a, hs⟩ := h1.rib e he r hre
      exact ⟨a, hs.map f' hcfg⟩
    · intro ps' hps' hup hrs q
      obtain ⟨ps, hps, rfl⟩ := List.mem_map.mp hps'
      rw [hcfg ps] at hrs ⊢
      show heldOf (f' ps).view q = wantOf w1.g ps.cfg (w1.ribOf q)
      by_cases hi : (ps.cfg.idx == idx) = true
      · simp only [f', hi, if_true]
        unfold transfer
        rw [transfer_fold w1.g ps.cfg w1.rib [] h1.keys
          (fun e he r hr => (h1.rib e he r hr).1) (fun _ _ => rfl) q]
        unfold W.ribOf
        cases w1.rib.find? (fun e => e.1 == q) with
        | some e => rfl
        | none => simp [wantOf, heldOf]
      · have hi' : (ps.cfg.idx == idx) = false := by simpa using hi
        simp only [f', hi', Bool.false_eq_true, if_false] at hup ⊢
        exact h1.views ps hps hup hrs q

/-- a peer's session state and Adj-RIB-In are cleared: its view obligations vanish -/
theorem downPeer_inv (w1 : W) (idx : Nat) (h1 : Inv w1) :
    Inv (w1.updPeer idx (fun ps => { ps with up := false, view := [], adj := {} })) := by
  let f' : PeerSt → PeerSt := fun ps =>
    if ps.cfg.idx == idx then { ps with up := false, view := [], adj := {} } else ps
  have hcfg : ∀ ps, (f' ps).cfg = ps.cfg := by
    intro ps; simp only [f']; split <;> rfl
  refine ⟨peersWF_map w1.peers f' hcfg h1.peers, h1.keys, ?_, ?_, h1.nodup⟩
  · intro e he r hre
    obtain ⟨a, hs⟩ := h1.rib e he r hre
    exact ⟨a, hs.map f' hcfg⟩
  · intro ps' hps' hup hrs q
    obtain ⟨ps, hps, rfl⟩ := List.mem_map.mp hps'
    rw [hcfg ps] at hrs ⊢
    by_cases hi : (ps.cfg.idx == idx) = true
    · simp [f', hi] at hup
    · have hi' : (ps.cfg.idx == idx) = false := by simpa using hi
      simp only [f', hi', Bool.false_eq_true, if_false] at hup ⊢
      exact h1.views ps hps hup hrs q

theorem sessionDown_inv (w : W) (idx : Nat) (h : Inv w) : Inv (sessionDown w idx) := by
  unfold sessionDown
  cases hp : w.peer? idx with
  | none => exact h
  | some ps0 =>
    simp only
    have h1 : Inv { w with tick := w.tick + 1 } := inv_of_eq w _ h rfl rfl rfl
    generalize ({ w with tick := w.tick + 1 } : W) = w1 at h1
    have h2 := downPeer_inv w1 idx h1
    -- every stored entry is withdrawn with fan-out
    generalize (w1.updPeer idx (fun ps => { ps with up := false, view := [], adj := {} })) = w2 at h2
    induction ps0.adj.entries generalizing w2 with
    | nil => exact h2
    | cons e rest ih =>
      simp only [List.foldl_cons]
      exact ih _ (propagate_inv w2 ps0.cfg e.r true h2 (fun h => by cases h))

theorem ribOf_nodup (w : W) (h : Inv w) (pfx : Nat) : NodupKey (w.ribOf pfx) := by
  unfold W.ribOf
  cases hf : w.rib.find? (fun x => x.1 == pfx) with
  | none => exact List.Pairwise.nil
  | some e => exact h.nodup e (List.mem_of_find?_eq_some hf)

end World
