import Model.Pack
/-! C11 helper lemmas, part 1: receiver algebra and the last-action map (`dedup`). -/
namespace Pack

theorem apply1_same (o : Opts) (v : View) (c d : Change) (h : wkey o d = wkey o c) :
    apply1 o (apply1 o v c) d = apply1 o v d := by
  funext k
  unfold apply1
  by_cases hk : k = wkey o d
  · simp [hk]
  · have : k ≠ wkey o c := by rw [← h]; exact hk
    simp [hk, this]

theorem apply1_comm (o : Opts) (v : View) (c d : Change) (h : wkey o d ≠ wkey o c) :
    apply1 o (apply1 o v c) d = apply1 o (apply1 o v d) c := by
  funext k
  unfold apply1
  by_cases hd : k = wkey o d
  · have : k ≠ wkey o c := by rw [hd]; exact h
    simp [hd, h]
  · simp [hd]

theorem applyCs_cons (o : Opts) (c : Change) (cs : List Change) (v : View) :
    applyCs o (c :: cs) v = applyCs o cs (apply1 o v c) := rfl

theorem applyCs_append (o : Opts) (a b : List Change) (v : View) :
    applyCs o (a ++ b) v = applyCs o b (applyCs o a v) := by
  unfold applyCs; rw [List.foldl_append]

/-- a change that is followed by another change of the same receiver key has no effect -/
theorem applyCs_absorb (o : Opts) (c : Change) :
    ∀ (cs : List Change) (v : View), (∃ d ∈ cs, wkey o d = wkey o c) →
      applyCs o cs (apply1 o v c) = applyCs o cs v := by
  intro cs
  induction cs with
  | nil => intro v h; obtain ⟨d, hd, _⟩ := h; cases hd
  | cons d rest ih =>
    intro v h
    rw [applyCs_cons, applyCs_cons]
    by_cases hk : wkey o d = wkey o c
    · rw [apply1_same o v c d hk]
    · rw [apply1_comm o v c d hk]
      apply ih
      obtain ⟨e, he, hke⟩ := h
      cases he with
      | head => exact absurd hke hk
      | tail _ hm => exact ⟨e, hm, hke⟩

theorem applyCs_notin (o : Opts) (k : Nat × Nat × Nat × Nat) :
    ∀ (cs : List Change) (v : View), (∀ c ∈ cs, wkey o c ≠ k) → applyCs o cs v k = v k := by
  intro cs
  induction cs with
  | nil => intro v _; rfl
  | cons d rest ih =>
    intro v h
    rw [applyCs_cons, ih _ (fun c hc => h c (List.mem_cons_of_mem _ hc))]
    unfold apply1
    have : k ≠ wkey o d := fun e => h d (List.mem_cons_self) e.symm
    simp [this]

theorem applyCs_mem (o : Opts) :
    ∀ (cs : List Change) (v : View) (c : Change), (cs.map (wkey o)).Nodup → c ∈ cs →
      applyCs o cs v (wkey o c) = c.act := by
  intro cs
  induction cs with
  | nil => intro v c _ h; cases h
  | cons d rest ih =>
    intro v c hn hc
    rw [List.map_cons, List.nodup_cons] at hn
    rw [applyCs_cons]
    cases hc with
    | head =>
      rw [applyCs_notin]
      · unfold apply1; simp
      · intro e he hke
        exact hn.1 (hke ▸ List.mem_map_of_mem he)
    | tail _ hm => exact ih _ c hn.2 hm

/-- when no receiver key occurs twice, the order of the changes is irrelevant -/
theorem applyCs_perm (o : Opts) (cs₁ cs₂ : List Change) (v : View) (hp : cs₁.Perm cs₂)
    (hn : (cs₁.map (wkey o)).Nodup) : applyCs o cs₁ v = applyCs o cs₂ v := by
  have hn2 : (cs₂.map (wkey o)).Nodup := (hp.map (wkey o)).nodup_iff.mp hn
  funext k
  by_cases h : ∃ c ∈ cs₁, wkey o c = k
  · obtain ⟨c, hc, hk⟩ := h
    rw [← hk, applyCs_mem o cs₁ v c hn hc, applyCs_mem o cs₂ v c hn2 (hp.mem_iff.mp hc)]
  · have h1 : ∀ c ∈ cs₁, wkey o c ≠ k := fun c hc e => h ⟨c, hc, e⟩
    have h2 : ∀ c ∈ cs₂, wkey o c ≠ k := fun c hc e => h ⟨c, hp.mem_iff.mpr hc, e⟩
    rw [applyCs_notin o k cs₁ v h1, applyCs_notin o k cs₂ v h2]

theorem applyMsgs_eq (o : Opts) : ∀ (ms : List Msg) (v : View),
    applyMsgs o ms v = applyCs o (ms.flatMap flat) v := by
  intro ms
  induction ms with
  | nil => intro v; rfl
  | cons m rest ih =>
    intro v
    show applyMsgs o rest (applyMsg o v m) = _
    rw [ih, List.flatMap_cons, applyCs_append]
    rfl

/-! ### dedup -/

theorem changes_cons_path (p : Path) (r : List Item) :
    changes (Item.path p :: r) = p.c :: changes r := rfl

theorem changes_cons_eor (f : Nat) (r : List Item) :
    changes (Item.eor f :: r) = changes r := rfl

theorem mem_changes {c : Change} {is : List Item} :
    c ∈ changes is ↔ ∃ p, Item.path p ∈ is ∧ p.c = c := by
  induction is with
  | nil => simp [changes]
  | cons i r ih =>
    cases i with
    | eor f => rw [changes_cons_eor, ih]; simp
    | path q =>
      rw [changes_cons_path, List.mem_cons, ih]
      constructor
      · rintro (h | ⟨p, hp, e⟩)
        · exact ⟨q, List.mem_cons_self, h.symm⟩
        · exact ⟨p, List.mem_cons_of_mem _ hp, e⟩
      · rintro ⟨p, hp, e⟩
        cases hp with
        | head => exact Or.inl e.symm
        | tail _ hm => exact Or.inr ⟨p, hm, e⟩

theorem dedup_sub (o : Opts) : ∀ {is : List Item} {i : Item}, i ∈ dedup o is → i ∈ is := by
  intro is
  induction is with
  | nil => intro i h; cases h
  | cons x r ih =>
    intro i h
    cases x with
    | eor f =>
      simp only [dedup, List.mem_cons] at h ⊢
      exact h.elim Or.inl (fun h => Or.inr (ih h))
    | path p =>
      simp only [dedup] at h
      split at h
      · exact List.mem_cons_of_mem _ (ih h)
      · simp only [List.mem_cons] at h ⊢
        exact h.elim Or.inl (fun h => Or.inr (ih h))

theorem eor_mem_dedup (o : Opts) (f : Nat) :
    ∀ (is : List Item), Item.eor f ∈ dedup o is ↔ Item.eor f ∈ is := by
  intro is
  induction is with
  | nil => simp [dedup]
  | cons x r ih =>
    cases x with
    | eor g => simp only [dedup, List.mem_cons, ih]
    | path p =>
      simp only [dedup]
      split <;> simp [ih]

theorem sameKey_any {o : Opts} {p : Path} {r : List Item} (h : r.any (sameKey o p) = true) :
    ∃ d ∈ changes r, wkey o d = wkey o p.c := by
  rw [List.any_eq_true] at h
  obtain ⟨i, hi, hs⟩ := h
  cases i with
  | eor f => simp [sameKey] at hs
  | path q =>
    simp only [sameKey, decide_eq_true_eq] at hs
    exact ⟨q.c, mem_changes.mpr ⟨q, hi, rfl⟩, hs⟩

/-- keeping only the last action per key does not change the effect of the list -/
theorem applyCs_dedup (o : Opts) : ∀ (is : List Item) (v : View),
    applyCs o (changes (dedup o is)) v = applyCs o (changes is) v := by
  intro is
  induction is with
  | nil => intro v; rfl
  | cons x r ih =>
    intro v
    cases x with
    | eor f => simp only [dedup, changes_cons_eor]; exact ih v
    | path p =>
      simp only [dedup]
      split
      · rename_i h
        rw [changes_cons_path, applyCs_cons, applyCs_absorb o p.c (changes r) v (sameKey_any h)]
        exact ih v
      · rw [changes_cons_path, changes_cons_path, applyCs_cons, applyCs_cons]; exact ih _

/-- after de-duplication no receiver key occurs twice -/
theorem dedup_nodup_wkey (o : Opts) : ∀ (is : List Item), ((changes (dedup o is)).map (wkey o)).Nodup := by
  intro is
  induction is with
  | nil => simp [dedup, changes]
  | cons x r ih =>
    cases x with
    | eor f => simp only [dedup, changes_cons_eor]; exact ih
    | path p =>
      simp only [dedup]
      split
      · exact ih
      · rename_i h
        rw [changes_cons_path, List.map_cons, List.nodup_cons]
        refine ⟨?_, ih⟩
        intro hm
        rw [List.mem_map] at hm
        obtain ⟨d, hd, hk⟩ := hm
        obtain ⟨q, hq, e⟩ := mem_changes.mp hd
        apply h
        rw [List.any_eq_true]
        exact ⟨Item.path q, dedup_sub o hq, by simp [sameKey, e, hk]⟩

end Pack
