import Model.FramingBodies
import Lemmas.Framing
/-! helper lemmas for the body theorems of Props/C19.lean: readers undo the encoders -/
namespace Framing

theorem getU8_enc (n : Nat) (r : Bytes) (h : n < 256) : getU8 (enc8 n ++ r) = some (n, r) := by
  simp [getU8, enc8, byte_id _ h]

theorem getU16_enc (n : Nat) (r : Bytes) (h : n < 65536) : getU16 (enc16 n ++ r) = some (n, r) := by
  simp [getU16, enc16, be16_enc _ h]

theorem getU32_enc (n : Nat) (r : Bytes) (h : n < 4294967296) : getU32 (enc32 n ++ r) = some (n, r) := by
  simp [getU32, enc32, be32_enc _ h]

theorem getN_append (a r : Bytes) (n : Nat) (h : a.length = n) : getN n (a ++ r) = some (a, r) := by
  subst h
  simp [getN]

theorem copyInto4 (s : Bytes) (h : s.length = 4) : copyInto 4 s = s := copyInto_exact 4 s h

namespace Mrt

/-- well-formed peer entry: what NewPeer builds from IPv4/IPv6 addresses and a fitting AS -/
def PeerWF (p : Peer) : Prop :=
  p.typ < 256 ∧ p.bgpid.length = 4 ∧ p.addr.length = (if p.typ % 2 = 1 then 16 else 4) ∧
  p.asn < (if p.typ / 2 % 2 = 1 then 4294967296 else 65536)

theorem parsePeer_ser (p : Peer) (r : Bytes) (h : PeerWF p) :
    ∃ bs, serPeer p = some bs ∧ parsePeer (bs ++ r) = some (p, r) := by
  obtain ⟨typ, id, addr, asn⟩ := p
  obtain ⟨h1, h2, h3, h4⟩ := h
  simp only [] at *
  by_cases ha : typ / 2 % 2 = 1
  · rw [if_pos ha] at h4
    refine ⟨enc8 typ ++ copyInto 4 id ++ addr ++ enc32 asn, by simp [serPeer, ha], ?_⟩
    unfold parsePeer
    rw [copyInto4 id h2]
    simp only [List.append_assoc]
    rw [getU8_enc typ _ h1]
    simp only []
    rw [getN_append id _ 4 h2]
    simp only []
    rw [getN_append addr _ _ h3]
    simp only [if_pos ha]
    rw [getU32_enc asn r h4]
  · rw [if_neg ha] at h4
    refine ⟨enc8 typ ++ copyInto 4 id ++ addr ++ enc16 asn, ?_, ?_⟩
    · simp [serPeer, ha]; omega
    unfold parsePeer
    rw [copyInto4 id h2]
    simp only [List.append_assoc]
    rw [getU8_enc typ _ h1]
    simp only []
    rw [getN_append id _ 4 h2]
    simp only []
    rw [getN_append addr _ _ h3]
    simp only [if_neg ha]
    rw [getU16_enc asn r h4]

theorem parsePeers_ser (ps : List Peer) (r : Bytes) (h : ∀ p ∈ ps, PeerWF p) :
    ∃ bs, serPeers ps = some bs ∧ parsePeers ps.length (bs ++ r) = some (ps, r) := by
  induction ps with
  | nil => exact ⟨[], rfl, rfl⟩
  | cons p ps ih =>
    obtain ⟨b1, hs1, hp1⟩ := parsePeer_ser p (match serPeers ps with | some x => x ++ r | none => r) (h p (by simp))
    obtain ⟨b2, hs2, hp2⟩ := ih (fun q hq => h q (by simp [hq]))
    refine ⟨b1 ++ b2, by simp [serPeers, hs1, hs2], ?_⟩
    rw [hs2] at hp1
    simp only [List.length_cons, parsePeers, List.append_assoc]
    simp only [] at hp1
    rw [hp1]
    simp only []
    rw [hp2]

/-- well-formed RIB entry -/
def EntryWF (addPath : Bool) (e : Entry) : Prop :=
  e.peerIndex < 65536 ∧ e.time < 4294967296 ∧ e.attrs.length < 65536 ∧
  (if addPath then e.pathId < 4294967296 else e.pathId = 0)

theorem parseEntry_ser (ap : Bool) (e : Entry) (r : Bytes) (h : EntryWF ap e) :
    parseEntry ap (serEntry ap e ++ r) = some (e, r) := by
  obtain ⟨pi, tm, pid, attrs⟩ := e
  obtain ⟨h1, h2, h3, h4⟩ := h
  simp only [] at *
  unfold parseEntry serEntry
  simp only [List.append_assoc]
  rw [getU16_enc pi _ h1]
  simp only []
  rw [getU32_enc tm _ h2]
  simp only []
  cases ap
  · simp only [Bool.false_eq_true, if_false] at *
    subst h4
    simp only [List.nil_append]
    rw [getU16_enc _ _ h3]
    simp only []
    rw [getN_append attrs r _ rfl]
  · simp only [if_true] at *
    rw [getU32_enc pid _ h4]
    simp only []
    rw [getU16_enc _ _ h3]
    simp only []
    rw [getN_append attrs r _ rfl]

theorem parseEntries_ser (ap : Bool) (es : List Entry) (r : Bytes) (h : ∀ e ∈ es, EntryWF ap e) :
    parseEntries ap es.length (serEntries ap es ++ r) = some (es, r) := by
  induction es with
  | nil => rfl
  | cons e es ih =>
    simp only [List.length_cons, parseEntries, serEntries, List.append_assoc]
    rw [parseEntry_ser ap e _ (h e (by simp))]
    simp only []
    rw [ih (fun q hq => h q (by simp [hq]))]

end Mrt
end Framing

namespace Framing

theorem rd16_append (p l : Bytes) (i : Nat) (h : p.length = i) : rd16 (p ++ l) i = rd16 l 0 := by
  subst h; simp [rd16]

/-- an embedded BGP message is cut out by its own Length field -/
theorem bgpFrame_mk (body r : Bytes) (h1 : 1 ≤ body.length) (h2 : 18 + body.length + r.length < 65536) :
    bgpFrame (mkBgpMsg body ++ r) = some (mkBgpMsg body, r) := by
  have hl : (mkBgpMsg body).length = 18 + body.length := by simp [mkBgpMsg, enc16]; omega
  have hlen : (mkBgpMsg body ++ r).length = 18 + body.length + r.length := by simp [hl]
  have htake : List.take 16 (mkBgpMsg body ++ r) = List.replicate 16 255 := by
    unfold mkBgpMsg
    rw [List.append_assoc, List.append_assoc]
    exact take_append_self _ _ 16 (by simp)
  have hrd : rd16 (mkBgpMsg body ++ r) 16 = 18 + body.length := by
    unfold mkBgpMsg
    rw [List.append_assoc, List.append_assoc, rd16_append _ _ 16 (by simp)]
    simp [enc16, be16_enc _ (show 18 + body.length < 65536 by omega)]
  unfold bgpFrame
  rw [hlen, if_neg (by omega), htake, if_neg (by simp)]
  simp only [hrd]
  rw [if_neg (by omega), if_neg (by omega)]
  have e1 : List.take (18 + body.length) (mkBgpMsg body ++ r) = mkBgpMsg body := take_append_self _ _ _ hl
  have e2 : List.drop (18 + body.length) (mkBgpMsg body ++ r) = r := by
    rw [← hl]; simp
  rw [e1, e2]

theorem bgpFrame_mk_nil (body : Bytes) (h1 : 1 ≤ body.length) (h2 : 18 + body.length < 65536) :
    bgpFrame (mkBgpMsg body) = some (mkBgpMsg body, []) := by
  have := bgpFrame_mk body [] h1 (by simpa using h2)
  simpa using this

theorem getU16_enc_nil (n : Nat) (h : n < 65536) : getU16 (enc16 n) = some (n, []) := by
  have := getU16_enc n [] h
  simpa using this

namespace Mrt

def Bgp4mpHdrWF (as4 : Bool) (h : Bgp4mpHdr) : Prop :=
  h.peerAS < (if as4 then 4294967296 else 65536) ∧ h.localAS < (if as4 then 4294967296 else 65536) ∧
  h.ifIndex < 65536 ∧
  ((h.afi = 1 ∧ h.peerAddr.length = 4 ∧ h.localAddr.length = 4) ∨
   (h.afi = 2 ∧ h.peerAddr.length = 16 ∧ h.localAddr.length = 16))

theorem parseBgp4mpHdr_ser (as4 : Bool) (h : Bgp4mpHdr) (r : Bytes) (hw : Bgp4mpHdrWF as4 h) :
    ∃ bs, serBgp4mpHdr as4 h = some bs ∧ parseBgp4mpHdr as4 (bs ++ r) = some (h, r) := by
  obtain ⟨pa, la, ifi, afi, p, l⟩ := h
  obtain ⟨h1, h2, h3, h4⟩ := hw
  simp only [] at *
  rcases h4 with ⟨rfl, hp, hl⟩ | ⟨rfl, hp, hl⟩
  · cases as4
    · simp only [Bool.false_eq_true, if_false] at h1 h2
      refine ⟨enc16 pa ++ enc16 la ++ enc16 ifi ++ enc16 1 ++ copyInto 4 p ++ copyInto 4 l, by simp [serBgp4mpHdr], ?_⟩
      unfold parseBgp4mpHdr
      rw [copyInto4 p hp, copyInto4 l hl]
      simp only [Bool.false_eq_true, if_false, List.append_assoc]
      rw [getU16_enc pa _ h1]; try simp only []
      rw [getU16_enc la _ h2]; try simp only []
      rw [getU16_enc ifi _ h3]; try simp only []
      rw [getU16_enc 1 _ (by omega)]; try simp only []
      rw [if_pos (by simp), if_neg (by omega), getN_append p _ 4 hp]; try simp only []
      rw [getN_append l _ 4 hl]
    · simp only [if_true] at h1 h2
      refine ⟨enc32 pa ++ enc32 la ++ enc16 ifi ++ enc16 1 ++ copyInto 4 p ++ copyInto 4 l, by simp [serBgp4mpHdr], ?_⟩
      unfold parseBgp4mpHdr
      rw [copyInto4 p hp, copyInto4 l hl]
      simp only [if_true, List.append_assoc]
      rw [getU32_enc pa _ h1]; try simp only []
      rw [getU32_enc la _ h2]; try simp only []
      rw [getU16_enc ifi _ h3]; try simp only []
      rw [getU16_enc 1 _ (by omega)]; try simp only []
      rw [if_pos (by simp), if_neg (by omega), getN_append p _ 4 hp]; try simp only []
      rw [getN_append l _ 4 hl]
  · cases as4
    · simp only [Bool.false_eq_true, if_false] at h1 h2
      refine ⟨enc16 pa ++ enc16 la ++ enc16 ifi ++ enc16 2 ++ copyInto 16 p ++ copyInto 16 l, by simp [serBgp4mpHdr], ?_⟩
      unfold parseBgp4mpHdr
      rw [copyInto_exact 16 p hp, copyInto_exact 16 l hl]
      simp only [Bool.false_eq_true, if_false, List.append_assoc]
      rw [getU16_enc pa _ h1]; try simp only []
      rw [getU16_enc la _ h2]; try simp only []
      rw [getU16_enc ifi _ h3]; try simp only []
      rw [getU16_enc 2 _ (by omega)]; try simp only []
      rw [if_pos (by simp)]; simp only [if_true]; rw [getN_append p _ 16 hp]; try simp only []
      rw [getN_append l _ 16 hl]
    · simp only [if_true] at h1 h2
      refine ⟨enc32 pa ++ enc32 la ++ enc16 ifi ++ enc16 2 ++ copyInto 16 p ++ copyInto 16 l, by simp [serBgp4mpHdr], ?_⟩
      unfold parseBgp4mpHdr
      rw [copyInto_exact 16 p hp, copyInto_exact 16 l hl]
      simp only [if_true, List.append_assoc]
      rw [getU32_enc pa _ h1]; try simp only []
      rw [getU32_enc la _ h2]; try simp only []
      rw [getU16_enc ifi _ h3]; try simp only []
      rw [getU16_enc 2 _ (by omega)]; try simp only []
      rw [if_pos (by simp)]; simp only [if_true]; rw [getN_append p _ 16 hp]; try simp only []
      rw [getN_append l _ 16 hl]

end Mrt
end Framing

namespace Framing

/-- every element is an octet -/
def Octets (d : Bytes) : Prop := ∀ x ∈ d, x < 256

theorem getU8_inv (d r : Bytes) (a : Nat) (h : getU8 d = some (a, r)) : d = a :: r := by
  cases d with
  | nil => simp [getU8] at h
  | cons x xs => simp [getU8] at h; obtain ⟨rfl, rfl⟩ := h; rfl

theorem getU16_inv (d r : Bytes) (n : Nat) (h : getU16 d = some (n, r)) (ho : Octets d) :
    d = enc16 n ++ r ∧ n < 65536 := by
  match d, h, ho with
  | a :: b :: xs, h, ho =>
    simp [getU16] at h
    obtain ⟨rfl, rfl⟩ := h
    have ha := ho a (by simp)
    have hb := ho b (by simp)
    refine ⟨?_, by omega⟩
    simp [enc16]
    constructor <;> omega

theorem getU32_inv (d r : Bytes) (n : Nat) (h : getU32 d = some (n, r)) (ho : Octets d) :
    d = enc32 n ++ r ∧ n < 4294967296 := by
  match d, h, ho with
  | a :: b :: c :: e :: xs, h, ho =>
    simp [getU32] at h
    obtain ⟨rfl, rfl⟩ := h
    have ha := ho a (by simp)
    have hb := ho b (by simp)
    have hc := ho c (by simp)
    have he := ho e (by simp)
    refine ⟨?_, by omega⟩
    simp [enc32]
    refine ⟨by omega, by omega, by omega, by omega⟩

theorem getN_inv (n : Nat) (d x r : Bytes) (h : getN n d = some (x, r)) : d = x ++ r ∧ x.length = n := by
  unfold getN at h
  split at h
  · cases h
  · simp at h
    obtain ⟨rfl, rfl⟩ := h
    refine ⟨(List.take_append_drop n d).symm, ?_⟩
    rw [List.length_take]; omega

theorem octets_append_right (a b : Bytes) (h : Octets (a ++ b)) : Octets b :=
  fun x hx => h x (by simp [hx])
theorem octets_append_left (a b : Bytes) (h : Octets (a ++ b)) : Octets a :=
  fun x hx => h x (by simp [hx])
theorem octets_cons (a : Nat) (b : Bytes) (h : Octets (a :: b)) : a < 256 ∧ Octets b :=
  ⟨h a (by simp), fun x hx => h x (by simp [hx])⟩

theorem parsePeer_inv (d r : Bytes) (p : Mrt.Peer) (h : Mrt.parsePeer d = some (p, r)) (ho : Octets d) :
    ∃ bs, Mrt.serPeer p = some bs ∧ bs ++ r = d ∧ Octets r := by
  unfold Mrt.parsePeer at h
  cases h1 : getU8 d with
  | none => simp [h1] at h
  | some v1 =>
    obtain ⟨t, d1⟩ := v1
    rw [h1] at h; simp only [] at h
    have e1 := getU8_inv d d1 t h1
    subst e1
    obtain ⟨ht, ho1⟩ := octets_cons _ _ ho
    cases h2 : getN 4 d1 with
    | none => simp [h2] at h
    | some v2 =>
      obtain ⟨id, d2⟩ := v2
      rw [h2] at h; simp only [] at h
      obtain ⟨e2, l2⟩ := getN_inv 4 d1 id d2 h2
      subst e2
      have ho2 := octets_append_right _ _ ho1
      cases h3 : getN (if t % 2 = 1 then 16 else 4) d2 with
      | none => simp [h3] at h
      | some v3 =>
        obtain ⟨a, d3⟩ := v3
        rw [h3] at h; simp only [] at h
        obtain ⟨e3, l3⟩ := getN_inv _ d2 a d3 h3
        subst e3
        have ho3 := octets_append_right _ _ ho2
        by_cases h4 : t / 2 % 2 = 1
        · rw [if_pos h4] at h
          cases h5 : getU32 d3 with
          | none => simp [h5] at h
          | some v5 =>
            obtain ⟨asn, d4⟩ := v5
            rw [h5] at h; simp only [] at h
            obtain ⟨e5, l5⟩ := getU32_inv d3 d4 asn h5 ho3
            subst e5
            cases h
            refine ⟨enc8 t ++ copyInto 4 id ++ a ++ enc32 asn, by simp [Mrt.serPeer, h4], ?_, octets_append_right _ _ ho3⟩
            simp [enc8, byte_id _ ht, copyInto4 id l2]
        · rw [if_neg h4] at h
          cases h5 : getU16 d3 with
          | none => simp [h5] at h
          | some v5 =>
            obtain ⟨asn, d4⟩ := v5
            rw [h5] at h; simp only [] at h
            obtain ⟨e5, l5⟩ := getU16_inv d3 d4 asn h5 ho3
            subst e5
            cases h
            refine ⟨enc8 t ++ copyInto 4 id ++ a ++ enc16 asn, ?_, ?_, octets_append_right _ _ ho3⟩
            · simp [Mrt.serPeer, h4]; omega
            · simp [enc8, byte_id _ ht, copyInto4 id l2]

theorem parsePeers_inv (n : Nat) : ∀ (d r : Bytes) (ps : List Mrt.Peer), Mrt.parsePeers n d = some (ps, r) → Octets d →
    ∃ bs, Mrt.serPeers ps = some bs ∧ bs ++ r = d ∧ ps.length = n ∧ Octets r := by
  induction n with
  | zero =>
    intro d r ps h ho
    simp [Mrt.parsePeers] at h
    obtain ⟨rfl, rfl⟩ := h
    exact ⟨[], rfl, rfl, rfl, ho⟩
  | succ k ih =>
    intro d r ps h ho
    unfold Mrt.parsePeers at h
    cases h1 : Mrt.parsePeer d with
    | none => simp [h1] at h
    | some v1 =>
      obtain ⟨p, d1⟩ := v1
      rw [h1] at h; simp only [] at h
      obtain ⟨b1, hs1, he1, ho1⟩ := parsePeer_inv d d1 p h1 ho
      cases h2 : Mrt.parsePeers k d1 with
      | none => simp [h2] at h
      | some v2 =>
        obtain ⟨ps', d2⟩ := v2
        rw [h2] at h; simp only [] at h
        cases h
        obtain ⟨b2, hs2, he2, hl2, ho2⟩ := ih d1 _ ps' h2 ho1
        refine ⟨b1 ++ b2, by simp [Mrt.serPeers, hs1, hs2], ?_, by simp [hl2], ho2⟩
        rw [List.append_assoc, he2, he1]

theorem parsePeerTable_inv (d r : Bytes) (t : Mrt.PeerTable) (h : Mrt.parsePeerTable d = some (t, r)) (ho : Octets d) :
    ∃ bs, Mrt.serPeerTable t = some bs ∧ bs ++ r = d := by
  unfold Mrt.parsePeerTable at h
  cases h1 : getN 4 d with
  | none => simp [h1] at h
  | some v1 =>
    obtain ⟨c, d1⟩ := v1
    rw [h1] at h; simp only [] at h
    obtain ⟨e1, l1⟩ := getN_inv 4 d c d1 h1
    subst e1
    have ho1 := octets_append_right _ _ ho
    cases h2 : getU16 d1 with
    | none => simp [h2] at h
    | some v2 =>
      obtain ⟨vl, d2⟩ := v2
      rw [h2] at h; simp only [] at h
      obtain ⟨e2, l2⟩ := getU16_inv d1 d2 vl h2 ho1
      subst e2
      have ho2 := octets_append_right _ _ ho1
      cases h3 : getN vl d2 with
      | none => simp [h3] at h
      | some v3 =>
        obtain ⟨v, d3⟩ := v3
        rw [h3] at h; simp only [] at h
        obtain ⟨e3, l3⟩ := getN_inv vl d2 v d3 h3
        subst e3
        have ho3 := octets_append_right _ _ ho2
        cases h4 : getU16 d3 with
        | none => simp [h4] at h
        | some v4 =>
          obtain ⟨n, d4⟩ := v4
          rw [h4] at h; simp only [] at h
          obtain ⟨e4, l4⟩ := getU16_inv d3 d4 n h4 ho3
          subst e4
          have ho4 := octets_append_right _ _ ho3
          cases h5 : Mrt.parsePeers n d4 with
          | none => simp [h5] at h
          | some v5 =>
            obtain ⟨ps, d5⟩ := v5
            rw [h5] at h; simp only [] at h
            cases h
            obtain ⟨pb, hs, he, hl, _⟩ := parsePeers_inv n d4 _ _ h5 ho4
            refine ⟨copyInto 4 c ++ enc16 v.length ++ v ++ enc16 ps.length ++ pb, by simp [Mrt.serPeerTable, hs], ?_⟩
            rw [copyInto4 c l1, l3, hl]
            simp only [List.append_assoc]
            rw [he]

theorem parseEntry_inv (ap : Bool) (d r : Bytes) (e : Mrt.Entry) (h : Mrt.parseEntry ap d = some (e, r)) (ho : Octets d) :
    Mrt.serEntry ap e ++ r = d ∧ Octets r := by
  unfold Mrt.parseEntry at h
  cases h1 : getU16 d with
  | none => simp [h1] at h
  | some v1 =>
    obtain ⟨pi, d1⟩ := v1
    rw [h1] at h; simp only [] at h
    obtain ⟨e1, _⟩ := getU16_inv d d1 pi h1 ho
    subst e1
    have ho1 := octets_append_right _ _ ho
    cases h2 : getU32 d1 with
    | none => simp [h2] at h
    | some v2 =>
      obtain ⟨tm, d2⟩ := v2
      rw [h2] at h; simp only [] at h
      obtain ⟨e2, _⟩ := getU32_inv d1 d2 tm h2 ho1
      subst e2
      have ho2 := octets_append_right _ _ ho1
      cases ap
      · simp only [Bool.false_eq_true, if_false] at h
        cases h4 : getU16 d2 with
        | none => simp [h4] at h
        | some v4 =>
          obtain ⟨al, d4⟩ := v4
          rw [h4] at h; simp only [] at h
          obtain ⟨e4, _⟩ := getU16_inv d2 d4 al h4 ho2
          subst e4
          have ho4 := octets_append_right _ _ ho2
          cases h5 : getN al d4 with
          | none => simp [h5] at h
          | some v5 =>
            obtain ⟨a, d5⟩ := v5
            rw [h5] at h; simp only [] at h
            cases h
            obtain ⟨e5, l5⟩ := getN_inv al d4 _ _ h5
            subst e5
            refine ⟨?_, octets_append_right _ _ ho4⟩
            simp [Mrt.serEntry, l5]
      · simp only [if_true] at h
        cases h3 : getU32 d2 with
        | none => simp [h3] at h
        | some v3 =>
          obtain ⟨pid, d3⟩ := v3
          rw [h3] at h; simp only [] at h
          obtain ⟨e3, _⟩ := getU32_inv d2 d3 pid h3 ho2
          subst e3
          have ho3 := octets_append_right _ _ ho2
          cases h4 : getU16 d3 with
          | none => simp [h4] at h
          | some v4 =>
            obtain ⟨al, d4⟩ := v4
            rw [h4] at h; simp only [] at h
            obtain ⟨e4, _⟩ := getU16_inv d3 d4 al h4 ho3
            subst e4
            have ho4 := octets_append_right _ _ ho3
            cases h5 : getN al d4 with
            | none => simp [h5] at h
            | some v5 =>
              obtain ⟨a, d5⟩ := v5
              rw [h5] at h; simp only [] at h
              cases h
              obtain ⟨e5, l5⟩ := getN_inv al d4 _ _ h5
              subst e5
              refine ⟨?_, octets_append_right _ _ ho4⟩
              simp [Mrt.serEntry, l5]

theorem parseEntries_inv (ap : Bool) (n : Nat) : ∀ (d r : Bytes) (es : List Mrt.Entry),
    Mrt.parseEntries ap n d = some (es, r) → Octets d → Mrt.serEntries ap es ++ r = d ∧ es.length = n := by
  induction n with
  | zero =>
    intro d r es h _
    simp [Mrt.parseEntries] at h
    obtain ⟨rfl, rfl⟩ := h
    exact ⟨rfl, rfl⟩
  | succ k ih =>
    intro d r es h ho
    unfold Mrt.parseEntries at h
    cases h1 : Mrt.parseEntry ap d with
    | none => simp [h1] at h
    | some v1 =>
      obtain ⟨e, d1⟩ := v1
      rw [h1] at h; simp only [] at h
      obtain ⟨he1, ho1⟩ := parseEntry_inv ap d d1 e h1 ho
      cases h2 : Mrt.parseEntries ap k d1 with
      | none => simp [h2] at h
      | some v2 =>
        obtain ⟨es', d2⟩ := v2
        rw [h2] at h; simp only [] at h
        cases h
        obtain ⟨he2, hl2⟩ := ih d1 _ es' h2 ho1
        refine ⟨?_, by simp [hl2]⟩
        simp only [Mrt.serEntries, List.append_assoc]
        rw [he2, he1]

end Framing
