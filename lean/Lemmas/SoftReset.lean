/-
  Lemmas for C15, export side: with an export policy folded into the export decision,
  (1) the incremental fan-out keeps `held = want` as long as the policy does not change
      (C01's delta_correct with policy), (2) under ANY sequence of policy changes it keeps a weak
      invariant, and (3) one soft reset out / route refresh step restores `held = want` for the
      current policy from any state satisfying the weak invariant.
-/
import Model.SoftReset
import Lemmas.World
namespace SoftReset
open BestPath World

/-! ### what the policy interpreter reads and writes -/

/-- the attributes the modelled policies read or write, plus what the view shows -/
def pview (c : Cand) : Nat × Option Nat × Option Nat × List Nat × Bool × List Seg × Nat :=
  (c.marker, c.med, c.localPref, c.comms, c.stale, c.segs, c.pfx)

theorem matches_congr (s : Stmt) (i : Nat) (a b : Cand) (h : pview a = pview b) :
    s.matches i a = s.matches i b := by
  simp only [pview, Prod.mk.injEq] at h
  unfold Stmt.matches asPathLen; rw [h.2.1, h.2.2.1, h.2.2.2.1, h.2.2.2.2.2.1, h.2.2.2.2.2.2]

theorem modify_pview (s : Stmt) (a b : Cand) (h : pview a = pview b) :
    pview (s.modify a) = pview (s.modify b) := by
  unfold Stmt.modify
  simp only [pview, Prod.mk.injEq] at h ⊢
  obtain ⟨h1, h2, h3, h4, h5, h6, h7⟩ := h
  cases s.addComm <;> cases s.setMed <;> cases s.setLp <;> simp [h1, h2, h3, h4, h5, h6, h7]

/-- the outcome, as far as policies and the view can see it, depends on `pview` only -/
theorem evalStmts_pview (d : Bool) (i : Nat) (ss : List Stmt) :
    ∀ (a b : Cand), pview a = pview b →
      (evalStmts d i ss a).map pview = (evalStmts d i ss b).map pview := by
  induction ss with
  | nil => intro a b h; unfold evalStmts; cases d <;> simp [h]
  | cons s rest ih =>
    intro a b h
    unfold evalStmts
    rw [matches_congr s i a b h]
    cases s.matches i b with
    | false => simpa using ih a b h
    | true =>
      simp only [if_true]
      by_cases h1 : s.route = 1
      · simp [h1, modify_pview s a b h]
      · by_cases h2 : s.route = 2
        · simp [h2]
        · simp only [h1, h2, if_false]
          exact ih _ _ (modify_pview s a b h)

theorem prePolicy_pview (g : Global) (t : PeerCfg) (a b : Cand) (h : pview a = pview b) :
    pview (prePolicy g t a) = pview (prePolicy g t b) := by
  unfold prePolicy
  simp only [pview, Prod.mk.injEq] at h ⊢
  obtain ⟨h1, h2, h3, h4, h5, h6, h7⟩ := h
  split <;> simp [h1, h2, h3, h4, h5, h6, h7]

/-! ### the specification with policy -/

/-- what the peer should hold when `b` is the best path: the export of `b` under policy `e` -/
def wantRP (g : Global) (e : Pol) (t : PeerCfg) (b : Cand) : Option Held :=
  if b.nhInvalid then none
  else if exportable g t b then
    match applyPol e t.idx (prePolicy g t b) with
    | some r' => if !t.llgr && r'.stale then none else some (heldOf g t r')
    | none => none
  else none

def wantOfP (g : Global) (e : Pol) (t : PeerCfg) (l : List Cand) : Option Held :=
  match l.head? with
  | none => none
  | some b => wantRP g e t b

theorem heldOf_pview (g : Global) (t : PeerCfg) (a b : Cand) (h : pview a = pview b) :
    heldOf g t a = heldOf g t b := by
  simp only [pview, Prod.mk.injEq] at h
  obtain ⟨h1, h2, h3, h4, _, _, _⟩ := h
  unfold heldOf; simp [h1, h2, h3, h4]

theorem wantRP_congr (g : Global) (e : Pol) (t : PeerCfg) (a b : Cand)
    (hv : pview a = pview b) (hn : a.nhInvalid = b.nhInvalid)
    (hx : exportable g t a = exportable g t b) : wantRP g e t a = wantRP g e t b := by
  unfold wantRP
  rw [hn, hx]
  have hp := evalStmts_pview e.dfltAccept t.idx e.stmts _ _ (prePolicy_pview g t a b hv)
  unfold applyPol
  cases ha : evalStmts e.dfltAccept t.idx e.stmts (prePolicy g t a) with
  | none =>
    cases hb : evalStmts e.dfltAccept t.idx e.stmts (prePolicy g t b) with
    | none => rfl
    | some y => simp [ha, hb] at hp
  | some x =>
    cases hb : evalStmts e.dfltAccept t.idx e.stmts (prePolicy g t b) with
    | none => simp [ha, hb] at hp
    | some y =>
      simp only [ha, hb, Option.map_some, Option.some.injEq] at hp
      have hs : x.stale = y.stale := by
        simp only [pview, Prod.mk.injEq] at hp; exact hp.2.2.2.2.1
      simp only [hs, heldOf_pview g t x y hp]

/-! ### sFilterpathP in terms of the core verdict -/

/-- an announcement that passed loop prevention unchanged: policy, old re-evaluation, post -/
def afterCore (g : Global) (e : Pol) (t : PeerCfg) (b : Cand) (old : Option Cand) : Option P :=
  match applyPol e t.idx (prePolicy g t b) with
  | some r' => if !t.llgr && r'.stale then some ⟨r', true⟩ else some ⟨r', false⟩
  | none =>
    match old with
    | some o =>
      if (filterpathCore g t ⟨o, false⟩ none).isSome &&
          (applyPol e t.idx (prePolicy g t o)).isSome then some ⟨o, true⟩ else none
    | none => none

theorem sFilterpathP_ann (g : Global) (e : Pol) (t : PeerCfg) (b : Cand) (old : Option Cand)
    (h : filterpathCore g t ⟨b, false⟩ old = some ⟨b, false⟩) :
    sFilterpathP g e t ⟨b, false⟩ old = afterCore g e t b old := by
  unfold sFilterpathP afterCore
  simp only [h]
  cases applyPol e t.idx (prePolicy g t b) with
  | some r' => simp
  | none =>
    cases old with
    | none => simp
    | some o =>
      by_cases hv : ((filterpathCore g t ⟨o, false⟩ none).isSome &&
          (applyPol e t.idx (prePolicy g t o)).isSome) = true <;> simp [hv]

theorem sFilterpathP_wd (g : Global) (e : Pol) (t : PeerCfg) (path : P) (old : Option Cand) (r : Cand)
    (h : filterpathCore g t path old = some ⟨r, true⟩) :
    sFilterpathP g e t path old = some ⟨r, true⟩ := by
  unfold sFilterpathP; simp [h]

theorem sFilterpathP_none (g : Global) (e : Pol) (t : PeerCfg) (path : P) (old : Option Cand)
    (h : filterpathCore g t path old = none) : sFilterpathP g e t path old = none := by
  unfold sFilterpathP; simp [h]

/-- the held value after an `afterCore` answer, when `b` is exportable and reachable -/
theorem afterCore_held (g : Global) (e : Pol) (t : PeerCfg) (b : Cand) (old : Option Cand)
    (h : Option Held) (hb : b.nhInvalid = false) (hx : exportable g t b = true)
    (hold : applyPol e t.idx (prePolicy g t b) = none →
      (match old with
       | some o => ((filterpathCore g t ⟨o, false⟩ none).isSome &&
           (applyPol e t.idx (prePolicy g t o)).isSome) = false → h = none
       | none => h = none)) :
    heldApplyP g t h (afterCore g e t b old) = wantRP g e t b := by
  unfold afterCore wantRP
  simp only [hb, hx, Bool.false_eq_true, if_false, if_true]
  cases hp : applyPol e t.idx (prePolicy g t b) with
  | some r' =>
    by_cases hs : (!t.llgr && r'.stale) = true <;> simp [hs, heldApplyP]
  | none =>
    have := hold hp
    cases old with
    | none => simpa [heldApplyP] using this
    | some o =>
      by_cases hv : ((filterpathCore g t ⟨o, false⟩ none).isSome &&
          (applyPol e t.idx (prePolicy g t o)).isSome) = true
      · simp [hv, heldApplyP]
      · simp only [Bool.not_eq_true] at hv
        simp [hv, heldApplyP, this hv]

/-- `wantRP` of a route the loop prevention refuses, or an unreachable one, is nothing -/
theorem wantRP_not_exportable (g : Global) (e : Pol) (t : PeerCfg) (b : Cand)
    (h : exportable g t b = false) : wantRP g e t b = none := by
  unfold wantRP; simp [h]

theorem wantRP_invalid (g : Global) (e : Pol) (t : PeerCfg) (b : Cand)
    (h : b.nhInvalid = true) : wantRP g e t b = none := by
  unfold wantRP; simp [h]

theorem wantRP_rejected (g : Global) (e : Pol) (t : PeerCfg) (o : Cand)
    (h : ((filterpathCore g t ⟨o, false⟩ none).isSome &&
      (applyPol e t.idx (prePolicy g t o)).isSome) = false) : wantRP g e t o = none := by
  unfold wantRP exportable
  cases hc : (filterpathCore g t ⟨o, false⟩ none).isSome with
  | false => simp
  | true =>
    cases hp : applyPol e t.idx (prePolicy g t o) with
    | none => simp
    | some x => simp [hc, hp] at h

theorem exportable_of_core {g : Global} {t : PeerCfg} {b : Cand}
    (h : filterpathCore g t ⟨b, false⟩ none = some ⟨b, false⟩) : exportable g t b = true := by
  unfold exportable; simp [h]

theorem not_exportable_of_core {g : Global} {t : PeerCfg} {b : Cand}
    (h : filterpathCore g t ⟨b, false⟩ none = none) : exportable g t b = false := by
  unfold exportable; simp [h]

/-! ### (1) fixed policy: the fan-out keeps held = want -/

theorem sfilterP_replace (g : Global) (e : Pol) (t : PeerCfg) (b o : Cand)
    (hrs : t.isRSClient = false) (wf : FromPeerWF g t o) (hb : b.nhInvalid = false) :
    heldApplyP g t (wantRP g e t o) (sFilterpathP g e t ⟨b, false⟩ (some o)) = wantRP g e t b := by
  cases hX : filterpathCore g t ⟨b, false⟩ (some o) with
  | none =>
    rw [sFilterpathP_none g e t _ _ hX]
    have hnew := not_exportable_of_core (core_silent_new g t b o hX)
    have hold := not_exportable_of_core (core_silent_old g t b o hrs wf hX)
    simp [heldApplyP, wantRP_not_exportable, hnew, hold]
  | some p =>
    obtain ⟨r, w⟩ := p
    cases w with
    | false =>
      obtain ⟨rfl, hex⟩ := core_announce g t b (some o) r hX
      rw [sFilterpathP_ann g e t r (some o) hX]
      apply afterCore_held g e t r (some o) _ hb (exportable_of_core hex)
      intro _ hv
      exact wantRP_rejected g e t o hv
    | true =>
      rw [sFilterpathP_wd g e t _ _ r hX]
      have hnew := not_exportable_of_core (core_withdraw g t b o r hX)
      simp [heldApplyP, wantRP_not_exportable, hnew]

theorem sfilterP_wd_eq (g : Global) (e : Pol) (t : PeerCfg) (x : Cand) (old : Option Cand) :
    sFilterpathP g e t ⟨x, true⟩ old = if exportable g t x then some ⟨x, true⟩ else none := by
  have hc : filterpathCore g t ⟨x, true⟩ old =
      if exportable g t x then some ⟨x, true⟩ else none := by
    rw [core_wd, core_none_eq]; cases exportable g t x <;> simp
  cases hx : exportable g t x with
  | true =>
    simp only [hx, if_true] at hc ⊢
    exact sFilterpathP_wd g e t _ _ x hc
  | false =>
    simp only [hx, Bool.false_eq_true, if_false] at hc ⊢
    exact sFilterpathP_none g e t _ _ hc

theorem sfilterP_remove (g : Global) (e : Pol) (t : PeerCfg) (o : Cand) (old : Option Cand) :
    heldApplyP g t (wantRP g e t o) (sFilterpathP g e t ⟨o, true⟩ old) = none := by
  rw [sfilterP_wd_eq]
  cases hx : exportable g t o <;> simp [heldApplyP, wantRP_not_exportable, hx]

theorem sfilterP_first (g : Global) (e : Pol) (t : PeerCfg) (b : Cand) (hb : b.nhInvalid = false) :
    heldApplyP g t none (sFilterpathP g e t ⟨b, false⟩ none) = wantRP g e t b := by
  have hc := core_none_eq g t b
  cases hx : exportable g t b with
  | true =>
    simp only [hx, if_true] at hc
    rw [sFilterpathP_ann g e t b none hc]
    exact afterCore_held g e t b none none hb hx (fun _ => rfl)
  | false =>
    simp only [hx, Bool.false_eq_true, if_false] at hc
    rw [sFilterpathP_none g e t _ _ hc]
    simp [heldApplyP, wantRP_not_exportable, hx]

theorem pathEqual_pview (a b : Cand) (h : pathEqual a b = true) (hp : a.pfx = b.pfx) :
    pview a = pview b := by
  unfold pathEqual at h
  simp at h
  simp only [pview, Prod.mk.injEq]
  exact ⟨h.1.1.1.1.2, h.1.1.1.1.1.2, h.1.1.1.1.1.1.1.1.2, h.1.2, h.2, h.1.1.1.1.1.1.1.2, hp⟩

/-- **delta_correct with export policy** (the policy does not change during the step) -/
theorem delta_correct_P (g : Global) (e : Pol) (t : PeerCfg) (hrs : t.isRSClient = false)
    (oldL newL : List Cand)
    (wfO : ∀ o, oldL.head? = some o → FromPeerWF g t o)
    (wfEq : ∀ b o, newL.head? = some b → oldL.head? = some o →
      b.src.equal o.src = true → b.src = o.src)
    (wfP : ∀ b o, newL.head? = some b → oldL.head? = some o → b.pfx = o.pfx) :
    heldApplyP g t (wantOfP g e t oldL) (deltaForP g e t oldL newL) = wantOfP g e t newL := by
  unfold wantOfP deltaForP getChanges
  cases hn : newL.head? with
  | none =>
    cases ho : oldL.head? with
    | none => simp [heldApplyP]
    | some o =>
      simp only
      cases hoi : o.nhInvalid with
      | true => simp [heldApplyP, wantRP_invalid, hoi]
      | false =>
        simp only [Bool.false_eq_true, if_false]
        exact sfilterP_remove g e t o (some o)
  | some b =>
    cases ho : oldL.head? with
    | none =>
      simp only
      cases hbi : b.nhInvalid with
      | true => simp [heldApplyP, wantRP_invalid, hbi]
      | false =>
        simp only [Bool.false_eq_true, if_false]
        exact sfilterP_first g e t b hbi
    | some o =>
      simp only
      cases heq : pathEqual b o with
      | true =>
        have hsrc := wfEq b o hn ho (pathEqual_src b o heq)
        obtain ⟨f1, _, f3, _⟩ := pathEqual_fields b o heq
        have hex := exportable_congr g t b o hsrc f3 f1
        have hv := pathEqual_pview b o heq (wfP b o hn ho)
        simp only [if_true]
        cases hbi : b.nhInvalid <;> cases hoi : o.nhInvalid
        · -- both reachable, nothing sent
          simp only [bne_self_eq_false, Bool.false_eq_true, if_false, heldApplyP]
          exact (wantRP_congr g e t b o hv (by rw [hbi, hoi]) hex).symm
        · -- became reachable
          simp only [bne_iff_ne, ne_eq, Bool.false_eq_true, not_false_eq_true, if_true, if_false,
            reduceCtorEq]
          have hw : wantRP g e t o = none := wantRP_invalid g e t o hoi
          have := sfilterP_replace g e t b o hrs (wfO o ho) hbi
          rw [hw] at this ⊢
          exact this
        · -- became unreachable: withdraw
          simp only [bne_iff_ne, ne_eq, Bool.true_eq_false, not_false_eq_true, if_true,
            reduceCtorEq]
          rw [wantRP_invalid g e t b hbi, sfilterP_wd_eq, hex]
          cases he : exportable g t o <;> simp [heldApplyP, wantRP_not_exportable, he]
        · simp [heldApplyP, wantRP_invalid, hbi, hoi]
      | false =>
        simp only [Bool.false_eq_true, if_false]
        cases hbi : b.nhInvalid with
        | true =>
          simp only [if_true]
          rw [wantRP_invalid g e t b hbi]
          cases hoi : o.nhInvalid with
          | true => simp [heldApplyP, wantRP_invalid, hoi]
          | false =>
            simp only [Bool.false_eq_true, if_false]
            exact sfilterP_remove g e t o (some o)
        | false =>
          simp only [Bool.false_eq_true, if_false]
          exact sfilterP_replace g e t b o hrs (wfO o ho) hbi


/-! ### (2) the weak invariant that survives policy changes -/

/-- whatever the peer holds for the destination, the current best path is reachable and passes
    loop prevention toward the peer.  (Under a fixed policy `held = want` implies it; after a
    policy change `held` may be the export of an OLDER best path or of the current one under
    the older policy — this is all that is left, and all a soft reset needs.) -/
def WeakInv (g : Global) (t : PeerCfg) (l : List Cand) (h : Option Held) : Prop :=
  h ≠ none → ∃ b, l.head? = some b ∧ b.nhInvalid = false ∧ exportable g t b = true

theorem weak_of_want (g : Global) (e : Pol) (t : PeerCfg) (l : List Cand) :
    WeakInv g t l (wantOfP g e t l) := by
  unfold WeakInv wantOfP
  cases hl : l.head? with
  | none => simp
  | some b =>
    simp only
    intro hne
    refine ⟨b, rfl, ?_, ?_⟩
    · cases hb : b.nhInvalid with
      | false => rfl
      | true => exact absurd (wantRP_invalid g e t b hb) hne
    · cases hx : exportable g t b with
      | true => rfl
      | false => exact absurd (wantRP_not_exportable g e t b hx) hne

/-- an announcement can only come out of the filters for an exportable new best -/
theorem sFilterpathP_announce (g : Global) (e : Pol) (t : PeerCfg) (b : Cand) (old : Option Cand)
    (r : Cand) (h : sFilterpathP g e t ⟨b, false⟩ old = some ⟨r, false⟩) :
    exportable g t b = true := by
  cases hX : filterpathCore g t ⟨b, false⟩ old with
  | none => rw [sFilterpathP_none g e t _ _ hX] at h; cases h
  | some p =>
    obtain ⟨r', w⟩ := p
    cases w with
    | true => rw [sFilterpathP_wd g e t _ _ r' hX] at h; simp at h
    | false =>
      obtain ⟨_, hex⟩ := core_announce g t b old r' hX
      exact exportable_of_core hex

theorem weak_replace (g : Global) (e : Pol) (t : PeerCfg) (b o : Cand) (rest : List Cand)
    (newL : List Cand) (hn : newL.head? = some b)
    (hrs : t.isRSClient = false) (wf : FromPeerWF g t o) (hb : b.nhInvalid = false)
    (h : Option Held) (inv : WeakInv g t (o :: rest) h) :
    WeakInv g t newL (heldApplyP g t h (sFilterpathP g e t ⟨b, false⟩ (some o))) := by
  intro hne
  refine ⟨b, hn, hb, ?_⟩
  cases hS : sFilterpathP g e t ⟨b, false⟩ (some o) with
  | none =>
    rw [hS] at hne
    simp only [heldApplyP] at hne
    obtain ⟨o', ho', _, hxo⟩ := inv hne
    simp only [List.head?_cons, Option.some.injEq] at ho'
    subst ho'
    -- nothing was sent although the peer holds something: the core filter passed `b`
    cases hX : filterpathCore g t ⟨b, false⟩ (some o) with
    | none =>
      have := not_exportable_of_core (core_silent_old g t b o hrs wf hX)
      simp [this] at hxo
    | some p =>
      obtain ⟨r', w⟩ := p
      cases w with
      | true => rw [sFilterpathP_wd g e t _ _ r' hX] at hS; cases hS
      | false =>
        obtain ⟨_, hex⟩ := core_announce g t b (some o) r' hX
        exact exportable_of_core hex
  | some p =>
    obtain ⟨r, w⟩ := p
    cases w with
    | true => rw [hS] at hne; simp [heldApplyP] at hne
    | false => exact sFilterpathP_announce g e t b (some o) r hS

theorem weak_first (g : Global) (e : Pol) (t : PeerCfg) (b : Cand) (newL : List Cand)
    (hn : newL.head? = some b) (hb : b.nhInvalid = false) (h : Option Held) (hnone : h = none) :
    WeakInv g t newL (heldApplyP g t h (sFilterpathP g e t ⟨b, false⟩ none)) := by
  subst hnone
  intro hne
  refine ⟨b, hn, hb, ?_⟩
  cases hS : sFilterpathP g e t ⟨b, false⟩ none with
  | none => rw [hS] at hne; simp [heldApplyP] at hne
  | some p =>
    obtain ⟨r, w⟩ := p
    cases w with
    | true => rw [hS] at hne; simp [heldApplyP] at hne
    | false => exact sFilterpathP_announce g e t b none r hS

/-- a withdraw handed to the filters leaves nothing held, provided the withdrawn route is the
    (old) best the weak invariant speaks about -/
theorem weak_remove (g : Global) (e : Pol) (t : PeerCfg) (o : Cand) (rest : List Cand)
    (old : Option Cand) (h : Option Held) (inv : WeakInv g t (o :: rest) h) :
    heldApplyP g t h (sFilterpathP g e t ⟨o, true⟩ old) = none := by
  rw [sfilterP_wd_eq]
  cases hx : exportable g t o with
  | true => simp [heldApplyP]
  | false =>
    simp only [Bool.false_eq_true, if_false, heldApplyP]
    cases hh : h with
    | none => rfl
    | some x =>
      obtain ⟨o', ho', _, hxo⟩ := inv (by simp [hh])
      simp only [List.head?_cons, Option.some.injEq] at ho'
      subst ho'
      simp [hx] at hxo

theorem weakInv_none (g : Global) (t : PeerCfg) (l : List Cand) : WeakInv g t l none := by
  intro h; exact absurd rfl h

/-- held is nothing when the weak invariant holds for a destination without a reachable best -/
theorem weak_unreachable (g : Global) (t : PeerCfg) (l : List Cand) (h : Option Held)
    (inv : WeakInv g t l h)
    (hu : ∀ b, l.head? = some b → b.nhInvalid = true) : h = none := by
  cases hh : h with
  | none => rfl
  | some x =>
    obtain ⟨b, hb, hv, _⟩ := inv (by simp [hh])
    have := hu b hb
    simp [hv] at this

/-- **weak_inv_step**: the incremental fan-out keeps the weak invariant whatever export policy is
    in force at the time of the change -/
theorem weak_inv_step (g : Global) (e : Pol) (t : PeerCfg) (hrs : t.isRSClient = false)
    (oldL newL : List Cand) (h : Option Held)
    (wfO : ∀ o, oldL.head? = some o → FromPeerWF g t o)
    (wfEq : ∀ b o, newL.head? = some b → oldL.head? = some o →
      b.src.equal o.src = true → b.src = o.src)
    (inv : WeakInv g t oldL h) :
    WeakInv g t newL (heldApplyP g t h (deltaForP g e t oldL newL)) := by
  unfold deltaForP getChanges
  cases hn : newL.head? with
  | none =>
    cases ho : oldL.head? with
    | none => simp only [heldApplyP]; intro hne; obtain ⟨b, hb, _⟩ := inv hne; simp [ho] at hb
    | some o =>
      simp only
      obtain ⟨rest, hl⟩ : ∃ rest, oldL = o :: rest := by
        cases oldL with
        | nil => simp at ho
        | cons x xs => simp at ho; exact ⟨xs, by rw [ho]⟩
      subst hl
      cases hoi : o.nhInvalid with
      | true =>
        simp only [if_true, heldApplyP]
        rw [weak_unreachable g t _ h inv (by intro b hb; simp at hb; rw [← hb]; exact hoi)]
        exact weakInv_none g t newL
      | false =>
        simp only [Bool.false_eq_true, if_false]
        rw [weak_remove g e t o rest (some o) h inv]
        exact weakInv_none g t newL
  | some b =>
    cases ho : oldL.head? with
    | none =>
      have hnone : h = none := by
        cases hh : h with
        | none => rfl
        | some x => obtain ⟨b', hb', _⟩ := inv (by simp [hh]); simp [ho] at hb'
      simp only
      cases hbi : b.nhInvalid with
      | true => simp only [if_true, heldApplyP, hnone]; exact weakInv_none g t newL
      | false =>
        simp only [Bool.false_eq_true, if_false]
        exact weak_first g e t b newL hn hbi h hnone
    | some o =>
      obtain ⟨rest, hl⟩ : ∃ rest, oldL = o :: rest := by
        cases oldL with
        | nil => simp at ho
        | cons x xs => simp at ho; exact ⟨xs, by rw [ho]⟩
      subst hl
      simp only
      cases heq : pathEqual b o with
      | true =>
        have hsrc := wfEq b o hn (by simp) (pathEqual_src b o heq)
        obtain ⟨f1, _, f3, _⟩ := pathEqual_fields b o heq
        have hex := exportable_congr g t b o hsrc f3 f1
        simp only [if_true]
        cases hbi : b.nhInvalid <;> cases hoi : o.nhInvalid
        · -- nothing sent: the invariant moves from `o` to the equal `b`
          simp only [bne_self_eq_false, Bool.false_eq_true, if_false, heldApplyP]
          intro hne
          obtain ⟨o', ho', _, hxo⟩ := inv hne
          simp only [List.head?_cons, Option.some.injEq] at ho'
          subst ho'
          exact ⟨b, hn, hbi, by rw [hex]; exact hxo⟩
        · simp only [bne_iff_ne, ne_eq, Bool.false_eq_true, not_false_eq_true, if_true, if_false]
          exact weak_replace g e t b o rest newL hn hrs (wfO o (by simp)) hbi h inv
        · simp only [bne_iff_ne, ne_eq, Bool.true_eq_false, not_false_eq_true, if_true]
          rw [sfilterP_wd_eq, hex]
          cases hx : exportable g t o with
          | true => simp only [if_true, heldApplyP]; exact weakInv_none g t newL
          | false =>
            simp only [Bool.false_eq_true, if_false, heldApplyP]
            intro hne
            obtain ⟨o', ho', _, hxo⟩ := inv hne
            simp only [List.head?_cons, Option.some.injEq] at ho'
            subst ho'
            simp [hx] at hxo
        · simp only [bne_self_eq_false, Bool.false_eq_true, if_false, heldApplyP]
          rw [weak_unreachable g t _ h inv (by intro b' hb'; simp at hb'; rw [← hb']; exact hoi)]
          exact weakInv_none g t newL
      | false =>
        simp only [Bool.false_eq_true, if_false]
        cases hbi : b.nhInvalid with
        | true =>
          simp only [if_true]
          cases hoi : o.nhInvalid with
          | true =>
            simp only [if_true, heldApplyP]
            rw [weak_unreachable g t _ h inv (by intro b' hb'; simp at hb'; rw [← hb']; exact hoi)]
            exact weakInv_none g t newL
          | false =>
            simp only [Bool.false_eq_true, if_false]
            rw [weak_remove g e t o rest (some o) h inv]
            exact weakInv_none g t newL
        | false =>
          simp only [Bool.false_eq_true, if_false]
          exact weak_replace g e t b o rest newL hn hrs (wfO o (by simp)) hbi h inv

/-! ### (3) one soft reset out / route refresh step -/

/-- **soft_out_restores**: from ANY state that satisfies the weak invariant (sentPaths agreeing
    with what the peer holds), the soft reset out leaves the peer with exactly the export of the
    current best path under the current policy -/
theorem soft_out_restores (g : Global) (e : Pol) (t : PeerCfg) (l : List Cand) (h : Option Held)
    (inv : WeakInv g t l h) :
    heldApplyList g t h (softOutFor g e t l h.isSome) = wantOfP g e t l := by
  unfold softOutFor wantOfP
  cases hl : l.head? with
  | none =>
    simp only [heldApplyList, List.foldl_nil]
    exact weak_unreachable g t l h inv (by intro b hb; simp [hl] at hb)
  | some b =>
    simp only
    cases hbi : b.nhInvalid with
    | true =>
      simp only [if_true, heldApplyList, List.foldl_nil, wantRP_invalid g e t b hbi]
      exact weak_unreachable g t l h inv (by intro b' hb'; rw [hl] at hb'; simp at hb'; rw [← hb']; exact hbi)
    | false =>
      simp only [Bool.false_eq_true, if_false]
      have hc := core_none_eq g t b
      cases hx : exportable g t b with
      | false =>
        simp only [hx, Bool.false_eq_true, if_false] at hc
        rw [sFilterpathP_none g e t _ _ hc, wantRP_not_exportable g e t b hx]
        cases h with
        | none => simp [heldApplyList]
        | some x => simp [heldApplyList, heldApplyP]
      | true =>
        simp only [hx, if_true] at hc
        rw [sFilterpathP_ann g e t b none hc]
        unfold afterCore wantRP
        simp only [hbi, hx, Bool.false_eq_true, if_false, if_true]
        cases hp : applyPol e t.idx (prePolicy g t b) with
        | some r' =>
          by_cases hs : (!t.llgr && r'.stale) = true <;> simp [hs, heldApplyList, heldApplyP]
        | none =>
          cases h with
          | none => simp [heldApplyList]
          | some x => simp [heldApplyList, heldApplyP]

/-- **soft_out_idempotent**: a peer that holds the export under the current policy holds the
    same after another soft reset out -/
theorem soft_out_idempotent (g : Global) (e : Pol) (t : PeerCfg) (l : List Cand) :
    heldApplyList g t (wantOfP g e t l) (softOutFor g e t l (wantOfP g e t l).isSome) =
      wantOfP g e t l :=
  soft_out_restores g e t l _ (weak_of_want g e t l)

/-- no duplicate: at most one path per destination and peer in one soft reset out -/
theorem soft_out_no_dup (g : Global) (e : Pol) (t : PeerCfg) (l : List Cand) (sent : Bool) :
    (softOutFor g e t l sent).length ≤ 1 := by
  unfold softOutFor
  cases l.head? with
  | none => simp
  | some b =>
    simp only
    split
    · simp
    · cases sFilterpathP g e t ⟨b, false⟩ none with
      | some p => simp
      | none => cases sent <;> simp

/-- no loss: whenever the peer should hold something, the soft reset out announces it -/
theorem soft_out_no_loss (g : Global) (e : Pol) (t : PeerCfg) (l : List Cand) (sent : Bool)
    (x : Held) (hw : wantOfP g e t l = some x) :
    ∃ r, softOutFor g e t l sent = [⟨r, false⟩] ∧ heldOf g t r = x := by
  unfold wantOfP at hw
  unfold softOutFor
  cases hl : l.head? with
  | none => simp [hl] at hw
  | some b =>
    simp only [hl] at hw ⊢
    cases hbi : b.nhInvalid with
    | true => simp [wantRP_invalid g e t b hbi] at hw
    | false =>
      cases hx : exportable g t b with
      | false => simp [wantRP_not_exportable g e t b hx] at hw
      | true =>
        have hc := core_none_eq g t b
        simp only [hx, if_true] at hc
        rw [sFilterpathP_ann g e t b none hc]
        unfold afterCore
        unfold wantRP at hw
        simp only [hbi, hx, Bool.false_eq_true, if_false, if_true] at hw
        cases hp : applyPol e t.idx (prePolicy g t b) with
        | none => simp [hp] at hw
        | some r' =>
          simp only [hp] at hw
          by_cases hs : (!t.llgr && r'.stale) = true
          · simp [hs] at hw
          · simp only [hs, Bool.false_eq_true, if_false, Option.some.injEq] at hw
            exact ⟨r', by simp [hs], hw⟩

/-- a withdrawal is emitted only for a destination in sentPaths, or for an LLGR-stale route
    toward a peer without LLGR (postFilterpath) -/
theorem soft_out_withdraw_only_sent (g : Global) (e : Pol) (t : PeerCfg) (l : List Cand)
    (p : P) (hp : p ∈ softOutFor g e t l false) (hw : p.wd = true) : p.r.stale = true := by
  unfold softOutFor at hp
  cases hl : l.head? with
  | none => simp [hl] at hp
  | some b =>
    simp only [hl] at hp
    cases hbi : b.nhInvalid with
    | true => simp [hbi] at hp
    | false =>
      simp only [hbi, Bool.false_eq_true, if_false] at hp
      cases hS : sFilterpathP g e t ⟨b, false⟩ none with
      | none => simp [hS] at hp
      | some q =>
        simp only [hS, List.mem_singleton] at hp
        subst hp
        cases hx : exportable g t b with
        | false =>
          have hc := core_none_eq g t b
          simp only [hx, Bool.false_eq_true, if_false] at hc
          rw [sFilterpathP_none g e t _ _ hc] at hS; cases hS
        | true =>
          have hc := core_none_eq g t b
          simp only [hx, if_true] at hc
          rw [sFilterpathP_ann g e t b none hc] at hS
          unfold afterCore at hS
          cases hq : applyPol e t.idx (prePolicy g t b) with
          | none => simp [hq] at hS
          | some r' =>
            simp only [hq] at hS
            by_cases hs : (!t.llgr && r'.stale) = true
            · simp only [hs, if_true, Option.some.injEq] at hS
              subst hS
              simp at hs; exact hs.2
            · simp only [hs, Bool.false_eq_true, if_false, Option.some.injEq] at hS
              subst hS
              simp at hw

/-! ### destination-level histories: policy changes, route changes, soft resets interleaved -/

/-- an event for one destination and one target peer -/
inductive DEv where
  | chg (e : Pol) (newL : List Cand)   -- the Loc-RIB list changes while export policy `e` is in force
  | soft (e : Pol)                     -- soft reset out / route refresh under policy `e`

def dstep (g : Global) (t : PeerCfg) (s : List Cand × Option Held) : DEv → List Cand × Option Held
  | .chg e newL => (newL, heldApplyP g t s.2 (deltaForP g e t s.1 newL))
  | .soft e => (s.1, heldApplyList g t s.2 (softOutFor g e t s.1 s.2.isSome))

def DEv.list : DEv → List (List Cand)
  | .chg _ l => [l]
  | .soft _ => []

/-- well-formedness of every path list that occurs (see C01): a best path whose source address is
    the peer's address carries the peer's PeerInfo; PeerInfo.Equal sources are equal -/
def ListsWF (g : Global) (t : PeerCfg) (ls : List (List Cand)) : Prop :=
  (∀ l ∈ ls, ∀ o, l.head? = some o → FromPeerWF g t o) ∧
  (∀ l ∈ ls, ∀ l' ∈ ls, ∀ b o, l.head? = some b → l'.head? = some o →
    b.src.equal o.src = true → b.src = o.src) ∧
  (∀ l ∈ ls, ∀ l' ∈ ls, ∀ b o, l.head? = some b → l'.head? = some o → b.pfx = o.pfx)

theorem weak_fold (g : Global) (t : PeerCfg) (hrs : t.isRSClient = false) (U : List (List Cand))
    (wf : ListsWF g t U) :
    ∀ (evs : List DEv) (s : List Cand × Option Held), s.1 ∈ U → (∀ ev ∈ evs, ∀ l ∈ ev.list, l ∈ U) →
      WeakInv g t s.1 s.2 →
      (evs.foldl (dstep g t) s).1 ∈ U ∧
        WeakInv g t (evs.foldl (dstep g t) s).1 (evs.foldl (dstep g t) s).2 := by
  intro evs
  induction evs with
  | nil => intro s hs _ inv; exact ⟨hs, inv⟩
  | cons ev rest ih =>
    intro s hs hU inv
    simp only [List.foldl_cons]
    have hrest : ∀ ev' ∈ rest, ∀ l ∈ ev'.list, l ∈ U := fun ev' h' => hU ev' (List.mem_cons_of_mem _ h')
    cases ev with
    | chg e newL =>
      have hnew : newL ∈ U := hU _ List.mem_cons_self newL (by simp [DEv.list])
      apply ih _ hnew hrest
      exact weak_inv_step g e t hrs s.1 newL s.2 (fun o ho => wf.1 _ hs o ho)
        (fun b o hb ho => wf.2.1 _ hnew _ hs b o hb ho) inv
    | soft e =>
      refine ih (dstep g t s (.soft e)) (by simp only [dstep]; exact hs) hrest ?_
      simp only [dstep]
      rw [soft_out_restores g e t s.1 s.2 inv]
      exact weak_of_want g e t s.1

theorem want_fold (g : Global) (e : Pol) (t : PeerCfg) (hrs : t.isRSClient = false)
    (U : List (List Cand)) (wf : ListsWF g t U) :
    ∀ (ls : List (List Cand)) (s : List Cand × Option Held), s.1 ∈ U → (∀ l ∈ ls, l ∈ U) →
      s.2 = wantOfP g e t s.1 →
      ((ls.map (DEv.chg e)).foldl (dstep g t) s).2 =
        wantOfP g e t ((ls.map (DEv.chg e)).foldl (dstep g t) s).1 := by
  intro ls
  induction ls with
  | nil => intro s _ _ h; exact h
  | cons l rest ih =>
    intro s hs hU h
    simp only [List.map_cons, List.foldl_cons]
    have hl : l ∈ U := hU l List.mem_cons_self
    apply ih _ hl (fun l' h' => hU l' (List.mem_cons_of_mem _ h'))
    simp only [dstep]
    rw [h]
    exact delta_correct_P g e t hrs s.1 l (fun o ho => wf.1 _ hs o ho)
      (fun b o hb ho => wf.2.1 _ hl _ hs b o hb ho) (fun b o hb ho => wf.2.2 _ hl _ hs b o hb ho)

end SoftReset
