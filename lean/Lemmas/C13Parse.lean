/-
C13 — lexer / parser lemmas: what the parser makes of the pattern shapes the compiler recognises.
-/
import Model.Regex
import Lemmas.C13Regex
namespace Regex

/-! ### lexing plain characters -/

/-- digits and the colon -/
def Plain (c : Nat) : Prop := 48 ≤ c ∧ c ≤ 58

theorem stepNormal_plain {c : Nat} (h : Plain c) : stepNormal c = .ok (.normal, [.atom (lit c)]) := by
  have : c = 48 ∨ c = 49 ∨ c = 50 ∨ c = 51 ∨ c = 52 ∨ c = 53 ∨ c = 54 ∨ c = 55 ∨ c = 56 ∨ c = 57 ∨ c = 58 := by
    unfold Plain at h; omega
  rcases this with h | h | h | h | h | h | h | h | h | h | h <;> subst h <;> rfl

theorem lexGo_ok_cons {m m' : Mode} {c : Nat} {cs : List Nat} {ts tks : List Tok}
    (hs : stepM m c = .ok (m', ts)) (h : lexGo m (c :: cs) = .ok tks) :
    ∃ rest, lexGo m' cs = .ok rest ∧ tks = ts ++ rest := by
  simp only [lexGo, hs] at h
  cases h2 : lexGo m' cs with
  | ok rest => simp [h2] at h; exact ⟨rest, rfl, h.symm⟩
  | err => simp [h2] at h
  | nofrag => simp [h2] at h

theorem lexGo_cons_of {m m' : Mode} {c : Nat} {cs : List Nat} {ts rest : List Tok}
    (hs : stepM m c = .ok (m', ts)) (h : lexGo m' cs = .ok rest) :
    lexGo m (c :: cs) = .ok (ts ++ rest) := by
  simp [lexGo, hs, h]

theorem lexGo_plain {w cs : List Nat} {tks : List Tok} (hw : ∀ c ∈ w, Plain c)
    (h : lexGo .normal (w ++ cs) = .ok tks) :
    ∃ rest, lexGo .normal cs = .ok rest ∧ tks = w.map (fun c => Tok.atom (lit c)) ++ rest := by
  induction w generalizing tks with
  | nil => exact ⟨tks, h, rfl⟩
  | cons c w ih =>
    have hs : stepM .normal c = .ok (.normal, [.atom (lit c)]) := by
      simp [stepM, stepNormal_plain (hw c (by simp))]
    rcases lexGo_ok_cons hs h with ⟨r1, h1, e1⟩
    rcases ih (fun c hc => hw c (by simp [hc])) h1 with ⟨r2, h2, e2⟩
    exact ⟨r2, h2, by simp [e1, e2]⟩

/-! ### parsing a run of atoms -/

theorem prun_atom (st : List Frame) (al : Option R) (cur : List R) (jr : Bool) (r : R) (tks : List Tok) :
    prun ⟨st, ⟨al, cur⟩, jr⟩ (.atom r :: tks) = prun ⟨st, ⟨al, r :: cur⟩, false⟩ tks := by
  simp [prun, pstep]

theorem prun_atoms (st : List Frame) (al : Option R) (cur : List R) (jr : Bool) (rs : List R) (tks : List Tok) :
    prun ⟨st, ⟨al, cur⟩, jr⟩ (rs.map .atom ++ tks) =
      prun ⟨st, ⟨al, rs.reverse ++ cur⟩, jr && rs.isEmpty⟩ tks := by
  induction rs generalizing cur jr with
  | nil => simp
  | cons r rs ih =>
    simp only [List.map_cons, List.cons_append, prun_atom]
    rw [ih]
    simp

/-! ### the "prefix" invariant: what was pushed on the bottom frame stays in front -/

def bottom : List Frame → Frame → Frame
  | [], t => t
  | f :: st, _ => bottom st f

def isQuantTok : Tok → Bool
  | .star | .plus | .quest | .rep _ _ => true
  | _ => false

/-- while no top-level `|` has been seen, the outermost concatenation still starts with `P` (stored
reversed), and at depth 0 something has been pushed after it -/
def Inv (P : List R) (S : PSt) : Prop :=
  (bottom S.stack S.top).alts = none →
    ∃ Y, (bottom S.stack S.top).cur = Y ++ P ∧ (S.stack = [] → Y ≠ [])

theorem bottom_cons_irrel (st : List Frame) (f t t' : Frame) : bottom (f :: st) t = bottom (f :: st) t' := rfl

theorem pstep_quant {stack : List Frame} {alts : Option R} {cur : List R} {jr : Bool} {S' : PSt} {tk : Tok}
    (hq : isQuantTok tk = true) (hs : pstep ⟨stack, ⟨alts, cur⟩, jr⟩ tk = some S') :
    ∃ (g : R → R) (a : R) (l : List R), cur = a :: l ∧ S' = ⟨stack, ⟨alts, g a :: l⟩, true⟩ := by
  cases jr with
  | true => cases tk <;> simp [pstep, isQuantTok] at hs hq
  | false =>
    cases cur with
    | nil =>
      cases tk <;> simp [isQuantTok] at hq <;> (simp only [pstep] at hs; split at hs <;> simp at hs)
    | cons a l =>
      cases tk <;> simp [isQuantTok] at hq
      all_goals
        simp only [pstep, Bool.false_eq_true, if_false] at hs
        split at hs
        · next g a' l' hg hc =>
          simp only [List.cons.injEq] at hc
          simp only [Option.some.injEq] at hs
          exact ⟨g, a', l', by simp [hc], hs.symm⟩
        · simp at hs

theorem inv_quant {P : List R} {S S' : PSt} {tk : Tok} (hq : isQuantTok tk = true) (hi : Inv P S)
    (hs : pstep S tk = some S') : Inv P S' := by
  obtain ⟨stack, ⟨alts, cur⟩, jr⟩ := S
  rcases pstep_quant hq hs with ⟨g, a, l, hc, hS'⟩
  subst hS'; subst hc
  cases stack with
  | nil =>
    intro h0
    rcases hi h0 with ⟨Y, hY, hne⟩
    simp only [bottom] at hY
    cases Y with
    | nil => exact absurd rfl (hne rfl)
    | cons y Y' =>
      simp only [List.cons_append, List.cons.injEq] at hY
      exact ⟨g a :: Y', by simp [bottom, hY.2], fun _ => by simp⟩
  | cons f st =>
    intro h0
    rcases hi h0 with ⟨Y, hY, _⟩
    exact ⟨Y, hY, fun h => by cases h⟩

theorem inv_step {P : List R} {S S' : PSt} {tk : Tok} (hi : Inv P S) (hs : pstep S tk = some S') :
    Inv P S' := by
  obtain ⟨stack, ⟨alts, cur⟩, jr⟩ := S
  cases tk with
  | atom r =>
    simp only [pstep, Option.some.injEq] at hs
    subst hs
    cases stack with
    | nil =>
      intro h0
      rcases hi h0 with ⟨Y, hY, _⟩
      simp only [bottom] at hY
      exact ⟨r :: Y, by simp [bottom, hY], fun _ => by simp⟩
    | cons f st =>
      intro h0
      rcases hi h0 with ⟨Y, hY, _⟩
      exact ⟨Y, hY, fun h => by cases h⟩
  | lpar =>
    simp only [pstep, Option.some.injEq] at hs
    subst hs
    intro h0
    rcases hi h0 with ⟨Y, hY, _⟩
    exact ⟨Y, hY, fun h => by cases h⟩
  | rpar =>
    cases stack with
    | nil => simp [pstep] at hs
    | cons f st =>
      simp only [pstep, Option.some.injEq] at hs
      subst hs
      cases st with
      | nil =>
        intro h0
        simp only [bottom] at h0
        rcases hi (by simpa [bottom] using h0) with ⟨Y, hY, _⟩
        simp only [bottom] at hY
        exact ⟨(Frame.close ⟨alts, cur⟩) :: Y, by simp [bottom, hY], fun _ => by simp⟩
      | cons g st' =>
        intro h0
        rcases hi h0 with ⟨Y, hY, _⟩
        exact ⟨Y, hY, fun h => by cases h⟩
  | bar =>
    simp only [pstep, Option.some.injEq] at hs
    subst hs
    cases stack with
    | nil => intro h0; simp [bottom] at h0
    | cons f st =>
      intro h0
      rcases hi h0 with ⟨Y, hY, _⟩
      exact ⟨Y, hY, fun h => by cases h⟩
  | star => exact inv_quant rfl hi hs
  | plus => exact inv_quant rfl hi hs
  | quest => exact inv_quant rfl hi hs
  | rep m n => exact inv_quant rfl hi hs

theorem inv_run {P : List R} {tks : List Tok} : ∀ {S S' : PSt}, Inv P S → prun S tks = some S' → Inv P S' := by
  induction tks with
  | nil => intro S S' hi h; simp [prun] at h; subst h; exact hi
  | cons tk tks ih =>
    intro S S' hi h
    simp only [prun] at h
    cases hs : pstep S tk with
    | none => simp [hs] at h
    | some S1 =>
      simp only [hs] at h
      exact ih (inv_step hi hs) h

/-- the first token after the prefix: anything but a repetition operator establishes the invariant -/
theorem inv_first {P : List R} {S' : PSt} {tk : Tok} (hq : isQuantTok tk = false)
    (hs : pstep ⟨[], ⟨none, P⟩, false⟩ tk = some S') : Inv P S' := by
  cases tk with
  | atom r =>
    simp only [pstep, Option.some.injEq] at hs; subst hs
    intro _; exact ⟨[r], by simp [bottom], fun _ => by simp⟩
  | lpar =>
    simp only [pstep, Option.some.injEq] at hs; subst hs
    intro _; exact ⟨[], by simp [bottom], fun h => by cases h⟩
  | rpar => simp [pstep] at hs
  | bar =>
    simp only [pstep, Option.some.injEq] at hs; subst hs
    intro h0; simp [bottom] at h0
  | star => simp [isQuantTok] at hq
  | plus => simp [isQuantTok] at hq
  | quest => simp [isQuantTok] at hq
  | rep m n => simp [isQuantTok] at hq

/-- the shape theorem: after a prefix `P` at depth 0, if the rest of the token stream does not start
with a repetition operator and the pattern has no top-level alternation, the parsed expression is the
concatenation of `P` and something -/
theorem prefix_shape {P : List R} {tks : List Tok} {S1 : PSt} {r : R}
    (hq : ∀ tk rest, tks = tk :: rest → isQuantTok tk = false)
    (hrun : prun ⟨[], ⟨none, P⟩, false⟩ tks = some S1)
    (hfin : pfinish S1 = some (r, false)) :
    ∃ Y, r = catList (P.reverse ++ Y) := by
  cases tks with
  | nil =>
    simp [prun] at hrun; subst hrun
    simp [pfinish, Frame.close] at hfin
    exact ⟨[], by simp [hfin]⟩
  | cons tk rest =>
    simp only [prun] at hrun
    cases hs : pstep ⟨[], ⟨none, P⟩, false⟩ tk with
    | none => simp [hs] at hrun
    | some S0 =>
      simp only [hs] at hrun
      have hi := inv_run (inv_first (hq tk rest rfl) hs) hrun
      obtain ⟨stack, ⟨alts, cur⟩, jr⟩ := S1
      cases stack with
      | cons f st => simp [pfinish] at hfin
      | nil =>
        simp only [pfinish, Option.some.injEq, Prod.mk.injEq] at hfin
        cases alts with
        | some a => simp at hfin
        | none =>
          rcases hi (by simp [bottom]) with ⟨Y, hY, _⟩
          simp only [bottom] at hY
          refine ⟨Y.reverse, ?_⟩
          rw [← hfin.1]
          simp [Frame.close, hY]

/-! ### the first token of a lexed string -/

theorem stepCls_tok {neg : Bool} {acc : List (Nat × Nat)} {pend : Option Nat} {dash : Bool} {c : Nat}
    {m' : Mode} {ts : List Tok} (h : stepCls neg acc pend dash c = .ok (m', ts)) :
    (ts = [] ∧ (∃ n a p d, m' = .cls n a p d ∨ m' = .clsEsc n a p d)) ∨ (∃ r, ts = [.atom r]) := by
  unfold stepCls at h
  split at h
  · split at h
    · cases h
    · split at h
      · cases h
      · simp only [Res.ok.injEq, Prod.mk.injEq] at h; exact Or.inr ⟨_, h.2.symm⟩
  · split at h
    · simp only [Res.ok.injEq, Prod.mk.injEq] at h
      exact Or.inl ⟨h.2.symm, _, _, _, _, Or.inr h.1.symm⟩
    · split at h
      · split at h
        · simp only [Res.ok.injEq, Prod.mk.injEq] at h
          exact Or.inl ⟨h.2.symm, _, _, _, _, Or.inl h.1.symm⟩
        · cases h
      · split at h
        · cases h
        · split at h
          · unfold clsChar at h
            split at h
            · split at h
              · split at h
                · simp only [Res.ok.injEq, Prod.mk.injEq] at h
                  exact Or.inl ⟨h.2.symm, _, _, _, _, Or.inl h.1.symm⟩
                · cases h
              · cases h
            · simp only [Res.ok.injEq, Prod.mk.injEq] at h
              exact Or.inl ⟨h.2.symm, _, _, _, _, Or.inl h.1.symm⟩
          · cases h

theorem stepClsEsc_tok {neg : Bool} {acc : List (Nat × Nat)} {pend : Option Nat} {dash : Bool} {c : Nat}
    {m' : Mode} {ts : List Tok} (h : stepClsEsc neg acc pend dash c = .ok (m', ts)) :
    ts = [] ∧ (∃ n a p d, m' = .cls n a p d) := by
  unfold stepClsEsc at h
  split at h
  · split at h
    · cases h
    · simp only [Res.ok.injEq, Prod.mk.injEq] at h
      exact ⟨h.2.symm, _, _, _, _, h.1.symm⟩
  · split at h
    · unfold clsChar at h
      split at h
      · split at h
        · split at h
          · simp only [Res.ok.injEq, Prod.mk.injEq] at h
            exact ⟨h.2.symm, _, _, _, _, h.1.symm⟩
          · cases h
        · cases h
      · simp only [Res.ok.injEq, Prod.mk.injEq] at h
        exact ⟨h.2.symm, _, _, _, _, h.1.symm⟩
    · cases h

/-- in a class, the next token that comes out (if any) is an atom -/
theorem lexGo_cls_head (cs : List Nat) :
    ∀ (m : Mode) (tks : List Tok),
      (∃ n a p d, m = .cls n a p d ∨ m = .clsEsc n a p d) →
      lexGo m cs = .ok tks → ∀ tk rest, tks = tk :: rest → isQuantTok tk = false := by
  induction cs with
  | nil =>
    intro m tks hm h
    rcases hm with ⟨n, a, p, d, hm | hm⟩ <;> subst hm <;> simp [lexGo, lexEnd] at h
  | cons c cs ih =>
    intro m tks hm h tk rest e
    rcases hm with ⟨n, a, p, d, hm | hm⟩
    · subst hm
      cases hs : stepM (.cls n a p d) c with
      | ok x =>
        obtain ⟨m', ts⟩ := x
        rcases lexGo_ok_cons hs h with ⟨r1, h1, e1⟩
        simp only [stepM] at hs
        rcases stepCls_tok hs with ⟨hts, hm'⟩ | ⟨r, hts⟩
        · subst hts
          simp only [List.nil_append] at e1
          exact ih m' tks hm' (e1 ▸ h1) tk rest e
        · subst hts
          rw [e1] at e
          simp only [List.cons_append, List.nil_append, List.cons.injEq] at e
          rw [← e.1]; rfl
      | err => simp [lexGo, hs] at h
      | nofrag => simp [lexGo, hs] at h
    · subst hm
      cases hs : stepM (.clsEsc n a p d) c with
      | ok x =>
        obtain ⟨m', ts⟩ := x
        rcases lexGo_ok_cons hs h with ⟨r1, h1, e1⟩
        simp only [stepM] at hs
        rcases stepClsEsc_tok hs with ⟨hts, n', a', p', d', hm'⟩
        subst hts
        simp only [List.nil_append] at e1
        exact ih m' tks ⟨n', a', p', d', Or.inl hm'⟩ (e1 ▸ h1) tk rest e
      | err => simp [lexGo, hs] at h
      | nofrag => simp [lexGo, hs] at h

def isRepChar (c : Nat) : Bool := c == 42 || c == 43 || c == 63 || c == 123

theorem stepEsc_tok {c : Nat} {m' : Mode} {ts : List Tok} (h : stepEsc c = .ok (m', ts)) :
    ∃ r, ts = [.atom r] := by
  unfold stepEsc at h
  repeat' split at h
  all_goals first
    | (simp only [Res.ok.injEq, Prod.mk.injEq] at h; exact ⟨_, h.2.symm⟩)
    | cases h

/-- a lexed string that does not begin with `* + ? {` does not begin with a repetition token -/
theorem lex_head_not_quant {cs : List Nat} {tks : List Tok}
    (hc : ∀ c rest, cs = c :: rest → isRepChar c = false)
    (h : lexGo .normal cs = .ok tks) : ∀ tk rest, tks = tk :: rest → isQuantTok tk = false := by
  intro tk rest e
  cases cs with
  | nil => simp [lexGo, lexEnd] at h; subst h; cases e
  | cons c cs =>
    have hc := hc c cs rfl
    cases hs : stepM .normal c with
    | err => simp [lexGo, hs] at h
    | nofrag => simp [lexGo, hs] at h
    | ok x =>
      obtain ⟨m', ts⟩ := x
      rcases lexGo_ok_cons hs h with ⟨r1, h1, e1⟩
      simp only [stepM] at hs
      unfold stepNormal at hs
      simp only [isRepChar, Bool.or_eq_false_iff, beq_eq_false_iff_ne, ne_eq] at hc
      obtain ⟨⟨⟨c42, c43⟩, c63⟩, c123⟩ := hc
      split at hs
      · -- backslash
        simp only [Res.ok.injEq, Prod.mk.injEq] at hs
        obtain ⟨hm, hts⟩ := hs; subst hm; subst hts
        simp only [List.nil_append] at e1; subst e1
        cases cs with
        | nil => simp [lexGo, lexEnd] at h1
        | cons c2 cs2 =>
          cases hs2 : stepM .esc c2 with
          | err => simp [lexGo, hs2] at h1
          | nofrag => simp [lexGo, hs2] at h1
          | ok x2 =>
            obtain ⟨m2, ts2⟩ := x2
            rcases lexGo_ok_cons hs2 h1 with ⟨r2, _, e2⟩
            simp only [stepM] at hs2
            rcases stepEsc_tok hs2 with ⟨r, hr⟩
            subst hr; rw [e2] at e
            simp only [List.cons_append, List.nil_append, List.cons.injEq] at e
            rw [← e.1]; rfl
      all_goals (try split at hs)
      all_goals (try split at hs)
      all_goals (try split at hs)
      all_goals (try split at hs)
      all_goals (try split at hs)
      all_goals (try split at hs)
      all_goals (try split at hs)
      all_goals (try split at hs)
      all_goals (try split at hs)
      all_goals (try split at hs)
      all_goals (try split at hs)
      all_goals (try split at hs)
      all_goals (try split at hs)
      all_goals first
        | omega
        | (simp only [Res.ok.injEq, Prod.mk.injEq] at hs
           obtain ⟨hm, hts⟩ := hs; subst hm; subst hts
           first
             | (rw [e1] at e
                simp only [List.cons_append, List.nil_append, List.cons.injEq] at e
                rw [← e.1]; rfl)
             | (simp only [List.nil_append] at e1; subst e1
                -- `[` : class modes
                cases cs with
                | nil => simp [lexGo, lexEnd] at h1
                | cons c2 cs2 =>
                  cases hs2 : stepM .cls0 c2 with
                  | err => simp [lexGo, hs2] at h1
                  | nofrag => simp [lexGo, hs2] at h1
                  | ok x2 =>
                    obtain ⟨m2, ts2⟩ := x2
                    rcases lexGo_ok_cons hs2 h1 with ⟨r2, h2, e2⟩
                    simp only [stepM] at hs2
                    split at hs2
                    · simp only [Res.ok.injEq, Prod.mk.injEq] at hs2
                      obtain ⟨hm2, hts2⟩ := hs2; subst hm2; subst hts2
                      simp only [List.nil_append] at e2; subst e2
                      exact lexGo_cls_head cs2 _ _ ⟨_, _, _, _, Or.inl rfl⟩ h2 tk rest e
                    · rcases stepCls_tok hs2 with ⟨hts, hm'⟩ | ⟨r, hts⟩
                      · subst hts
                        simp only [List.nil_append] at e2; subst e2
                        exact lexGo_cls_head cs2 _ _ hm' h2 tk rest e
                      · subst hts; rw [e2] at e
                        simp only [List.cons_append, List.nil_append, List.cons.injEq] at e
                        rw [← e.1]; rfl))
        | cases hs

end Regex
