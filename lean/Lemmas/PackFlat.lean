import Lemmas.PackSplit
import Lemmas.PackRecv
/-! C11 helper lemmas, part 3: the route changes carried by the packed messages are, up to
    order, exactly the de-duplicated input changes. -/
namespace Pack

def chWd (f : Nat) (n : Nlri) : Change := ⟨f, n, none⟩
def chAnn (f : Nat) (a : Ann) : Change := ⟨f, a.n, some a.r⟩

theorem one_le_maxN (o : Opts) (a : Nat) : 1 ≤ maxN o a := Nat.le_max_left 1 _

theorem flatMap_sing {α β : Type} (f : α → β) : ∀ l : List α, l.flatMap (fun a => [f a]) = l.map f := by
  intro l
  induction l with
  | nil => rfl
  | cons x r ih => simp only [List.flatMap_cons, List.map_cons, ih]; rfl

theorem flatMap_flat_map (M : List Nlri → Msg) (mk : Nlri → Change)
    (hM : ∀ ns, flat (M ns) = ns.map mk) :
    ∀ L : List (List Nlri), (L.map M).flatMap flat = L.flatten.map mk := by
  intro L
  induction L with
  | nil => rfl
  | cons c r ih => simp only [List.map_cons, List.flatMap_cons, List.flatten_cons, List.map_append, ih, hM]

theorem eorMsg_flat (f : Nat) (e : Bool) : (eorMsg f e).flatMap flat = [] := by
  unfold eorMsg; split <;> simp [flat]

/-- withdrawals and announcements of one family, taken apart and put together again -/
theorem split_wd_ann (f : Nat) : ∀ (ps : List Path), (∀ p ∈ ps, p.c.fam = f) →
    ((ps.filterMap wdOf).map (chWd f) ++ (ps.filterMap annOf).map (chAnn f)).Perm (ps.map (·.c)) := by
  intro ps
  induction ps with
  | nil => intro _; simp
  | cons p r ih =>
    intro h
    have hf := h p List.mem_cons_self
    have ih' := ih (fun q hq => h q (List.mem_cons_of_mem _ hq))
    obtain ⟨⟨fam, n, act⟩, hash, grp⟩ := p
    simp only at hf
    subst hf
    cases act with
    | none =>
      simp only [List.filterMap_cons, wdOf, annOf, List.map_cons, List.cons_append, chWd]
      exact ih'.cons _
    | some r' =>
      simp only [List.filterMap_cons, wdOf, annOf, List.map_cons, chAnn]
      exact List.perm_middle.trans (ih'.cons _)

theorem flat_packV4 (o : Opts) (ps : List Path) (e : Bool) (hf : ∀ p ∈ ps, p.c.fam = 0) :
    ((packV4 o ps e).flatMap flat).Perm (ps.map (·.c)) := by
  unfold packV4
  simp only [List.flatMap_append, eorMsg_flat, List.append_nil]
  -- withdrawals
  have hA : ((chunkN (maxN o 0) (ps.filterMap wdOf).length (ps.filterMap wdOf)).map Msg.wd4).flatMap flat
      = (ps.filterMap wdOf).map (chWd 0) := by
    rw [flatMap_flat_map Msg.wd4 (chWd 0) (fun _ => rfl),
      chunkN_flatten _ (one_le_maxN o _) _ _ (Nat.le_refl _)]
  -- cages
  have hB : (((groupBy (fun a : Ann => (a.hash, a.r.attrs, a.r.nh, a.grp))
        ((ps.filterMap annOf).filter (fun a => nhIs4 a.r.nh)).length
        ((ps.filterMap annOf).filter (fun a => nhIs4 a.r.nh))).flatMap (fun g =>
        (chunkN (maxN o (g.1.2.1.len + synthNH g.1.2.2.1)) g.2.length (g.2.map (·.n))).map
          (Msg.ann4 g.1.2.1 g.1.2.2.1))).flatMap flat).Perm
      (((ps.filterMap annOf).filter (fun a => nhIs4 a.r.nh)).map (chAnn 0)) := by
    rw [List.flatMap_assoc]
    have := groupBy_flatMap_perm (fun a : Ann => (a.hash, a.r.attrs, a.r.nh, a.grp))
      (fun g => ((chunkN (maxN o (g.1.2.1.len + synthNH g.1.2.2.1)) g.2.length (g.2.map (·.n))).map
          (Msg.ann4 g.1.2.1 g.1.2.2.1)).flatMap flat)
      (fun a => [chAnn 0 a]) _ ((ps.filterMap annOf).filter (fun a => nhIs4 a.r.nh)) (Nat.le_refl _)
      (by
        intro g _ hk
        rw [flatMap_flat_map (Msg.ann4 g.1.2.1 g.1.2.2.1) (fun n => ⟨0, n, some ⟨g.1.2.1, g.1.2.2.1⟩⟩) (fun _ => rfl),
          chunkN_flatten _ (one_le_maxN o _) _ _ (by simp)]
        rw [List.map_map]
        have : ∀ a ∈ g.2, ((fun n => (⟨0, n, some ⟨g.1.2.1, g.1.2.2.1⟩⟩ : Change)) ∘ (fun x : Ann => x.n)) a = chAnn 0 a := by
          intro a ha
          obtain ⟨hkey, _⟩ := hk a ha
          have hat : a.r.attrs = g.1.2.1 := congrArg (fun k => k.2.1) hkey
          have hnh : a.r.nh = g.1.2.2.1 := congrArg (fun k => k.2.2.1) hkey
          obtain ⟨n, ⟨at', nh⟩, hash, grp⟩ := a
          simp only at hnh hat
          subst hnh; subst hat
          rfl
        rw [List.map_congr_left this, flatMap_sing])
    refine this.trans ?_
    rw [flatMap_sing]
  -- RFC 5549 paths
  have hC : (((ps.filterMap annOf).filter (fun a => !nhIs4 a.r.nh)).map
        (fun a => Msg.reach 0 a.r.attrs a.r.nh [a.n])).flatMap flat
      = ((ps.filterMap annOf).filter (fun a => !nhIs4 a.r.nh)).map (chAnn 0) := by
    rw [List.flatMap_map]
    have : ∀ a : Ann, flat (Msg.reach 0 a.r.attrs a.r.nh [a.n]) = [chAnn 0 a] := by
      intro a; obtain ⟨n, ⟨at', nh⟩, hash, grp⟩ := a; rfl
    simp only [this]
    rw [flatMap_sing]
  rw [hA, hC]
  have hBC := (hB.append_left ((ps.filterMap wdOf).map (chWd 0))).append_right
    (((ps.filterMap annOf).filter (fun a => !nhIs4 a.r.nh)).map (chAnn 0))
  refine hBC.trans ?_
  rw [List.append_assoc, ← List.map_append]
  refine (List.Perm.append_left _ ((List.filter_append_perm _ _).map _)).trans ?_
  exact split_wd_ann 0 ps hf

theorem flat_packMP (o : Opts) (f : Nat) (ps : List Path) (e : Bool) (hf : ∀ p ∈ ps, p.c.fam = f) :
    ((packMP o f ps e).flatMap flat).Perm (ps.map (·.c)) := by
  unfold packMP
  simp only [List.flatMap_append, eorMsg_flat, List.append_nil]
  have hA : ((splitMP o f 30 (ps.filterMap wdOf)).map (Msg.unreach f)).flatMap flat
      = (ps.filterMap wdOf).map (chWd f) := by
    rw [flatMap_flat_map (Msg.unreach f) (chWd f) (fun _ => rfl), splitMP_flatten]
  have hB : (((groupBy (fun a : Ann => (a.r.attrs, a.r.nh)) (ps.filterMap annOf).length
        (ps.filterMap annOf)).flatMap (fun g =>
          match g.2 with
          | [] => []
          | a0 :: _ =>
            (splitMP o f (baseReach f g.1.1 g.1.2 a0.n) (g.2.map (·.n))).map (Msg.reach f g.1.1 g.1.2))).flatMap flat).Perm
      ((ps.filterMap annOf).map (chAnn f)) := by
    rw [List.flatMap_assoc]
    have := groupBy_flatMap_perm (fun a : Ann => (a.r.attrs, a.r.nh))
      (fun g => (match g.2 with
          | [] => []
          | a0 :: _ =>
            (splitMP o f (baseReach f g.1.1 g.1.2 a0.n) (g.2.map (fun x : Ann => x.n))).map (Msg.reach f g.1.1 g.1.2)).flatMap flat)
      (fun a => [chAnn f a]) _ (ps.filterMap annOf) (Nat.le_refl _)
      (by
        intro g hne hk
        obtain ⟨k, xs⟩ := g
        cases xs with
        | nil => exact absurd rfl hne
        | cons a0 rest =>
          simp only
          rw [flatMap_flat_map (Msg.reach f k.1 k.2) (fun n => ⟨f, n, some ⟨k.1, k.2⟩⟩) (fun _ => rfl),
            splitMP_flatten, List.map_map]
          have : ∀ a ∈ a0 :: rest, ((fun n => (⟨f, n, some ⟨k.1, k.2⟩⟩ : Change)) ∘ (fun x : Ann => x.n)) a = chAnn f a := by
            intro a ha
            obtain ⟨hkey, _⟩ := hk a ha
            simp only at hkey
            obtain ⟨n, ⟨at', nh⟩, hash, grp⟩ := a
            subst hkey
            rfl
          rw [List.map_congr_left this, flatMap_sing])
    refine this.trans ?_
    rw [flatMap_sing]
  rw [hA]
  exact (hB.append_left _).trans (split_wd_ann f ps hf)

/-- the items of a list as changes, item by item -/
def chItem (i : Item) : List Change := ((pathOf i).map (·.c)).toList

theorem changes_eq_flatMap : ∀ (is : List Item), changes is = is.flatMap chItem := by
  intro is
  induction is with
  | nil => rfl
  | cons i r ih =>
    cases i with
    | eor f => rw [changes_cons_eor, List.flatMap_cons, ih]; rfl
    | path p => rw [changes_cons_path, List.flatMap_cons, ih]; rfl

theorem paths_map_c : ∀ (xs : List Item), (xs.filterMap pathOf).map (·.c) = xs.flatMap chItem := by
  intro xs
  induction xs with
  | nil => rfl
  | cons i r ih =>
    cases i with
    | eor f => simp only [List.filterMap_cons, pathOf, List.flatMap_cons, ih]; rfl
    | path p => simp only [List.filterMap_cons, pathOf, List.map_cons, List.flatMap_cons, ih]; rfl

theorem flat_packFam (o : Opts) (f : Nat) (xs : List Item) (hf : ∀ x ∈ xs, famOf x = f) :
    ((packFam o f xs).flatMap flat).Perm (xs.flatMap chItem) := by
  have hp : ∀ p ∈ xs.filterMap pathOf, p.c.fam = f := by
    intro p hp
    obtain ⟨i, hi, e⟩ := List.mem_filterMap.mp hp
    cases i with
    | eor g => simp [pathOf] at e
    | path q => simp only [pathOf, Option.some.injEq] at e; subst e; exact hf _ hi
  rw [← paths_map_c]
  unfold packFam
  split
  · rename_i h0; subst h0; exact flat_packV4 o _ _ hp
  · exact flat_packMP o f _ _ hp

/-- every route change of the de-duplicated input is carried by exactly one message, with its
    own attributes and next hop, and nothing else is carried -/
theorem flat_pack (o : Opts) (is : List Item) :
    ((pack o is).flatMap flat).Perm (changes (dedup o is)) := by
  unfold pack
  rw [List.flatMap_assoc, changes_eq_flatMap]
  exact groupBy_flatMap_perm famOf (fun g => (packFam o g.1 g.2).flatMap flat) chItem _ _ (Nat.le_refl _)
    (fun g _ hk => flat_packFam o g.1 g.2 (fun x hx => (hk x hx).1))

end Pack
