/-
C13 — soundness of the exact and fixed-AS-wildcard modes.
-/
import Model.CommMatch
import Lemmas.C13Compile
namespace CommMatch
open Regex

/-! ### exact: `^A:L$` -/

structure ExactShape (body : Str) (bits a l : Nat) (A L : Str) : Prop where
  eq : body = A ++ 58 :: L
  neA : A ≠ []
  digA : A.all isDigit = true
  canA : isCanonical A = true
  valA : a = digitsVal A
  ltA : a < 65536
  neL : L ≠ []
  digL : L.all isDigit = true
  canL : isCanonical L = true
  valL : l = digitsVal L
  ltL : l < 2 ^ bits

theorem parseExact_some {body : Str} {bits a l : Nat} (h : parseExact body bits = some (a, l)) :
    ∃ A L, ExactShape body bits a l A L := by
  unfold parseExact at h
  split at h
  · cases h
  · next x L hfc =>
    rcases fromColon_cons hfc with ⟨_, heq, _⟩
    simp only at h
    split at h
    · cases h
    · split at h
      · next x y hx hy =>
        split at h
        · next hcan =>
          simp only [Option.some.injEq, Prod.mk.injEq] at h
          obtain ⟨rfl, rfl⟩ := h
          rcases parseUint_some hx with ⟨a1, a2, a3, a4⟩
          rcases parseUint_some hy with ⟨l1, l2, l3, l4⟩
          simp only [Bool.and_eq_true] at hcan
          exact ⟨beforeColon body, L, ⟨heq, a1, a2, hcan.1, a3, a4, l1, l2, hcan.2, l3, l4⟩⟩
        · cases h
      · cases h

/-- the parse of `^w$` for a string `w` of digits and colons -/
theorem parse_anchored_plain {w : Str} {r : R} (hw : ∀ c ∈ w, Plain c)
    (h : parse (94 :: (w ++ [36])) = .ok r) : r = catList (.bot :: (w.map lit ++ [.eot])) := by
  rcases parse_ok_full h with ⟨b, hpf⟩
  unfold parseFull at hpf
  cases hl : lex (94 :: (w ++ [36])) with
  | err => simp [hl] at hpf
  | nofrag => simp [hl] at hpf
  | ok tks =>
    simp only [hl] at hpf
    unfold lex at hl
    have hs : stepM .normal 94 = .ok (.normal, [.atom .bot]) := rfl
    rcases lexGo_ok_cons hs hl with ⟨r1, h1, e1⟩
    rcases lexGo_plain hw h1 with ⟨r2, h2, e2⟩
    have h36 : lexGo .normal [36] = .ok [.atom .eot] := rfl
    rw [h36] at h2
    simp only [Res.ok.injEq] at h2
    subst h2
    have et : tks = (R.bot :: (w.map lit ++ [R.eot])).map Tok.atom ++ [] := by
      rw [e1, e2]; simp [List.map_map, Function.comp_def]
    rw [et] at hpf
    unfold PSt.init at hpf
    rw [prun_atoms] at hpf
    simp only [prun, pfinish, Frame.close, List.append_nil, List.reverse_reverse, Res.ok.injEq,
      Prod.mk.injEq] at hpf
    exact hpf.1.symm

theorem exact_plain {A L : Str} (hA : A.all isDigit = true) (hL : L.all isDigit = true) :
    ∀ c ∈ A ++ 58 :: L, Plain c := by
  intro c hc
  simp only [List.mem_append, List.mem_cons] at hc
  rcases hc with hc | rfl | hc
  · exact digits_plain hA c hc
  · exact ⟨by omega, by omega⟩
  · exact digits_plain hL c hc

/-- exact mode, in terms of the two numbers of the text -/
theorem exact_sound {s body : Str} {bits a l : Nat} {r : R}
    (hb : anchoredBody s = some body) (he : parseExact body bits = some (a, l))
    (hp : parse s = .ok r) (hi lo : Nat) :
    search r (toDec hi ++ 58 :: toDec lo) = (hi == a && lo == l) := by
  rcases parseExact_some he with ⟨A, L, sh⟩
  have hs := anchoredBody_some hb
  rw [hs, sh.eq] at hp
  rw [parse_anchored_plain (exact_plain sh.digA sh.digL) hp, search_anchored_lits]
  rw [Bool.eq_iff_iff]
  simp only [beq_iff_eq, Bool.and_eq_true]
  rw [text_eq_iff sh.neA sh.digA sh.canA sh.neL sh.digL sh.canL, sh.valA, sh.valL]

/-! ### fixed-AS wildcard: `^A:\d+$`, `^A:[0-9]+`, `^A:.*$`, … -/

def rD : R := .chr ⟨false, [(48, 57)]⟩
def rDot : R := .chr ⟨true, [(10, 10)]⟩

theorem rD_mem (x : Nat) : CS.mem ⟨false, [(48, 57)]⟩ x = isDigit x := by
  simp [CS.mem, inRanges, isDigit]

theorem rDot_mem_digit {x : Nat} (h : isDigit x = true) : CS.mem ⟨true, [(10, 10)]⟩ x = true := by
  simp only [isDigit, Bool.and_eq_true, decide_eq_true_eq] at h
  simp [CS.mem, inRanges]; omega

theorem wild_rest_cases {rest : Str} (h : isWildcardLocal rest = true) :
    rest = wcPlusD ∨ rest = wcPlusD ++ [36] ∨ rest = wcPlusCls ∨ rest = wcPlusCls ++ [36] ∨
      rest = wcDotStar ∨ rest = wcDotStar ++ [36] := by
  unfold isWildcardLocal trimDollar at h
  simp only [Bool.or_eq_true, beq_iff_eq] at h
  split at h
  · next hl =>
    rcases List.getLast?_eq_some_iff.1 hl with ⟨ys, rfl⟩
    simp only [List.dropLast_concat] at h
    rcases h with (h | h) | h <;> subst h <;> simp
  · rcases h with (h | h) | h <;> subst h <;> simp

/-- what may follow `^A:` in wildcard mode, as parsed -/
def wildYs : List (List R) :=
  [[.cat rD (.star rD)], [.cat rD (.star rD), .eot], [.star rDot], [.star rDot, .eot]]

theorem wild_parse {s : Str} {asn : Nat} {rest A : Str} {r : R}
    (hs : ASNShape s asn rest A) (hw : isWildcardLocal rest = true) (hp : parse s = .ok r) :
    ∃ Y ∈ wildYs, r = catList (.bot :: ((A ++ [58]).map lit ++ Y)) := by
  rcases parse_ok_full hp with ⟨b, hpf⟩
  rw [hs.eq] at hpf
  rcases parseFull_prefix hs.dig hpf with ⟨tks', S1, hl, hr, hf⟩
  have key : ∀ Y, pfinish S1 = some (catList ((prefP A).reverse ++ Y), false) →
      r = catList (.bot :: ((A ++ [58]).map lit ++ Y)) := by
    intro Y hY
    rw [hf] at hY
    simp only [Option.some.injEq, Prod.mk.injEq] at hY
    rw [hY.1, prefP_reverse]; rfl
  rcases wild_rest_cases hw with h | h | h | h | h | h <;> subst h
  · have e : lexGo .normal wcPlusD = .ok [.atom rD, .plus] := rfl
    rw [e] at hl; simp only [Res.ok.injEq] at hl; subst hl
    simp [prun, pstep, quantOf] at hr; subst hr
    exact ⟨_, by simp [wildYs], key [.cat rD (.star rD)] (by simp [pfinish, Frame.close])⟩
  · have e : lexGo .normal (wcPlusD ++ [36]) = .ok [.atom rD, .plus, .atom .eot] := rfl
    rw [e] at hl; simp only [Res.ok.injEq] at hl; subst hl
    simp [prun, pstep, quantOf] at hr; subst hr
    exact ⟨_, by simp [wildYs], key [.cat rD (.star rD), .eot] (by simp [pfinish, Frame.close])⟩
  · have e : lexGo .normal wcPlusCls = .ok [.atom rD, .plus] := rfl
    rw [e] at hl; simp only [Res.ok.injEq] at hl; subst hl
    simp [prun, pstep, quantOf] at hr; subst hr
    exact ⟨_, by simp [wildYs], key [.cat rD (.star rD)] (by simp [pfinish, Frame.close])⟩
  · have e : lexGo .normal (wcPlusCls ++ [36]) = .ok [.atom rD, .plus, .atom .eot] := rfl
    rw [e] at hl; simp only [Res.ok.injEq] at hl; subst hl
    simp [prun, pstep, quantOf] at hr; subst hr
    exact ⟨_, by simp [wildYs], key [.cat rD (.star rD), .eot] (by simp [pfinish, Frame.close])⟩
  · have e : lexGo .normal wcDotStar = .ok [.atom rDot, .star] := rfl
    rw [e] at hl; simp only [Res.ok.injEq] at hl; subst hl
    simp [prun, pstep, quantOf] at hr; subst hr
    exact ⟨_, by simp [wildYs], key [.star rDot] (by simp [pfinish, Frame.close])⟩
  · have e : lexGo .normal (wcDotStar ++ [36]) = .ok [.atom rDot, .star, .atom .eot] := rfl
    rw [e] at hl; simp only [Res.ok.injEq] at hl; subst hl
    simp [prun, pstep, quantOf] at hr; subst hr
    exact ⟨_, by simp [wildYs], key [.star rDot, .eot] (by simp [pfinish, Frame.close])⟩

/-- each of them accepts any non-empty run of digits up to the end of the text -/
theorem wild_accepts {Y : List R} (hY : Y ∈ wildYs) {t : List Nat} {k : Nat} (hk : k < t.length)
    (hd : ∀ x ∈ t.drop k, isDigit x = true) : ∃ j, Match t (catList Y) k j := by
  have hdk : t.drop k = t[k] :: t.drop (k + 1) := List.drop_eq_getElem_cons hk
  have h0 : isDigit t[k] = true := hd _ (hdk ▸ List.mem_cons_self)
  have hD : Match t rD k (k + 1) := .chr (List.getElem?_eq_getElem hk) (by rw [rD_mem]; exact h0)
  have hrest : ∀ x ∈ t.drop (k + 1), isDigit x = true := fun x hx => hd x (hdk ▸ List.mem_cons_of_mem _ hx)
  simp only [wildYs, List.mem_cons, List.not_mem_nil, or_false] at hY
  rcases hY with rfl | rfl | rfl | rfl
  · exact ⟨k + 1, .cat (.cat hD (.star0 _)) (.eps _)⟩
  · refine ⟨t.length, .cat (.cat hD ?_) (.cat .eot (.eps _))⟩
    exact star_to_end _ (k + 1) rfl (by omega) (fun x hx => by rw [rD_mem]; exact hrest x hx)
  · exact ⟨k, .cat (.star0 _) (.eps _)⟩
  · refine ⟨t.length, .cat ?_ (.cat .eot (.eps _))⟩
    exact star_to_end _ k rfl (by omega) (fun x hx => rDot_mem_digit (hd x hx))

/-- fixed-AS wildcard mode: the regexp matches exactly the texts `asn:<digits>` -/
theorem wild_sound {s : Str} {asn : Nat} {rest : Str} {r : R}
    (he : extractASN s = some (asn, rest)) (hw : isWildcardLocal rest = true) (hp : parse s = .ok r)
    (hi lo : Nat) :
    search r (toDec hi ++ 58 :: toDec lo) = (hi == asn) := by
  rcases extractASN_some he with ⟨A, sh⟩
  rcases wild_parse sh hw hp with ⟨Y, hY, rfl⟩
  rw [Bool.eq_iff_iff]
  simp only [beq_iff_eq]
  constructor
  · intro hm
    rcases search_prefix hm with ⟨u, hu⟩
    have hu' : toDec hi ++ 58 :: toDec lo = A ++ 58 :: u := by simpa using hu
    rcases colon_split_unique hu' (toDec_no_colon _) (digits_no_colon sh.dig) with ⟨h1, _⟩
    rw [sh.val, ← h1, digitsVal_toDec]
  · rintro rfl
    have hA : toDec hi = A := by rw [sh.val]; exact toDec_digitsVal A sh.ne sh.dig sh.can
    rw [hA, search_iff]
    have hlen : (A ++ 58 :: toDec lo).length = (A ++ [58]).length + (toDec lo).length := by simp; omega
    have hdrop : (A ++ 58 :: toDec lo).drop (0 + (A ++ [58]).length) = toDec lo := by
      have : A ++ 58 :: toDec lo = (A ++ [58]) ++ toDec lo := by simp
      rw [this, Nat.zero_add, List.drop_left]
    have hne : 0 < (toDec lo).length := List.length_pos_iff.2 (toDec_ne_nil lo)
    rcases wild_accepts hY (t := A ++ 58 :: toDec lo) (k := 0 + (A ++ [58]).length) (by omega)
      (by rw [hdrop]; exact fun x hx => List.all_eq_true.1 (toDec_all_digit lo) x hx) with ⟨j, hj⟩
    refine ⟨0, j, Nat.zero_le _, ?_⟩
    simp only [catList]
    refine match_bot_cat.2 ⟨rfl, (match_lits (A ++ [58]) 0).2 ⟨?_, hj⟩⟩
    rw [hdrop]; simp

end CommMatch
