/-
  Lemmas for C01RS, part 2: frame properties of the ORDINARY operations of Model/World.lean.
  An event of an ordinary peer (or a locally injected route) changes the neighbour list only by
  mapping a function over it that keeps every configuration and leaves every route-server
  client exactly as it was.
-/
import Model.RouteServer
import Lemmas.WorldInv
import Lemmas.WorldAdj
namespace RouteServer
open BestPath World

/-- `w'` is `w` with a configuration-preserving function mapped over the neighbour list that
    fixes every neighbour whose configuration satisfies `keep`; same global configuration -/
def MapFrame (keep : PeerCfg → Bool) (w w' : W) : Prop :=
  w'.g = w.g ∧ ∃ f : PeerSt → PeerSt, w'.peers = w.peers.map f ∧ (∀ ps, (f ps).cfg = ps.cfg) ∧
    (∀ ps ∈ w.peers, keep ps.cfg = true → f ps = ps)

theorem MapFrame.refl (keep : PeerCfg → Bool) (w : W) : MapFrame keep w w :=
  ⟨rfl, id, (List.map_id _).symm, fun _ => rfl, fun _ _ _ => rfl⟩

theorem MapFrame.trans {keep : PeerCfg → Bool} {a b c : W} (h1 : MapFrame keep a b)
    (h2 : MapFrame keep b c) : MapFrame keep a c := by
  obtain ⟨g1, f1, p1, c1, k1⟩ := h1
  obtain ⟨g2, f2, p2, c2, k2⟩ := h2
  refine ⟨g2.trans g1, f2 ∘ f1, ?_, ?_, ?_⟩
  · rw [p2, p1, List.map_map]
  · intro ps; simp only [Function.comp]; rw [c2, c1]
  · intro ps hps hk
    simp only [Function.comp]
    rw [k1 ps hps hk]
    apply k2 ps _ hk
    rw [p1]
    exact List.mem_map.mpr ⟨ps, hps, k1 ps hps hk⟩

/-- what a MapFrame gives about membership: a kept neighbour of `w'` was, unchanged, in `w` -/
theorem MapFrame.mem_of_keep {keep : PeerCfg → Bool} {w w' : W} (h : MapFrame keep w w')
    {ps' : PeerSt} (hm : ps' ∈ w'.peers) (hk : keep ps'.cfg = true) : ps' ∈ w.peers := by
  obtain ⟨_, f, p, c, k⟩ := h
  rw [p] at hm
  obtain ⟨ps, hps, rfl⟩ := List.mem_map.mp hm
  rw [c ps] at hk
  rw [k ps hps hk]
  exact hps

theorem MapFrame.mem_keep {keep : PeerCfg → Bool} {w w' : W} (h : MapFrame keep w w')
    {ps : PeerSt} (hm : ps ∈ w.peers) (hk : keep ps.cfg = true) : ps ∈ w'.peers := by
  obtain ⟨_, f, p, c, k⟩ := h
  rw [p]
  exact List.mem_map.mpr ⟨ps, hm, k ps hm hk⟩

theorem MapFrame.peersWF {keep : PeerCfg → Bool} {w w' : W} (h : MapFrame keep w w')
    (hp : PeersWF w.peers) : PeersWF w'.peers := by
  obtain ⟨_, f, p, c, _⟩ := h
  rw [p]
  exact peersWF_map w.peers f c hp

def isRSCfg (c : PeerCfg) : Bool := c.isRSClient

/-! ### TO BE PROVED (World side) -/

/-- a MapFrame only looks at `g` and `peers` of the source world -/
private theorem frame_of_eq {keep : PeerCfg → Bool} {w w1 w' : W} (hg : w1.g = w.g)
    (hp : w1.peers = w.peers) (h : MapFrame keep w1 w') : MapFrame keep w w' := by
  obtain ⟨g1, f, p, c, k⟩ := h
  refine ⟨g1.trans hg, f, ?_, c, ?_⟩
  · rw [p, hp]
  · intro ps hps hk
    exact k ps (hp ▸ hps) hk

/-- the fan-out of the global table never touches a route-server client -/
theorem fanout_frame (w : W) (oldL newL : List Cand) : MapFrame isRSCfg w (fanout w oldL newL) := by
  obtain ⟨hpeers, _, hg⟩ := fanout_peers w oldL newL
  refine ⟨hg, _, hpeers, ?_, ?_⟩
  · intro ps
    split
    · split <;> rfl
    · rfl
  · intro ps _ hk
    have hk' : ps.cfg.isRSClient = true := hk
    simp only [hk', Bool.not_true, Bool.and_false, Bool.false_eq_true, if_false]

theorem setRib_frame (w : W) (pfx : Nat) (l : List Cand) : MapFrame isRSCfg w (w.setRib pfx l) :=
  ⟨rfl, id, (List.map_id _).symm, fun _ => rfl, fun _ _ _ => rfl⟩

theorem ribUpdate_frame_rs (w : W) (op : Op) (pfx : Nat) : MapFrame isRSCfg w (ribUpdate w op pfx) := by
  show MapFrame isRSCfg w (fanout (w.setRib pfx (calcStep w.opts (w.ribOf pfx) op)) (w.ribOf pfx)
    (calcStep w.opts (w.ribOf pfx) op))
  exact MapFrame.trans (setRib_frame w pfx _) (fanout_frame _ _ _)

theorem propagate_frame_rs (w : W) (x : PeerCfg) (r : Cand) (wd : Bool) :
    MapFrame isRSCfg w (propagate w x r wd) := by
  unfold propagate
  exact ribUpdate_frame_rs w _ _

/-- changing the neighbours with index `idx` when none of them is a route-server client -/
theorem updPeer_frame_rs (w : W) (idx : Nat) (f : PeerSt → PeerSt) (hf : ∀ ps, (f ps).cfg = ps.cfg)
    (hno : ∀ ps ∈ w.peers, ps.cfg.idx = idx → ps.cfg.isRSClient = false) :
    MapFrame isRSCfg w (w.updPeer idx f) := by
  refine ⟨rfl, fun ps => if ps.cfg.idx == idx then f ps else ps, rfl, ?_, ?_⟩
  · intro ps
    show (if ps.cfg.idx == idx then f ps else ps).cfg = ps.cfg
    split
    · exact hf ps
    · rfl
  · intro ps hps hk
    show (if ps.cfg.idx == idx then f ps else ps) = ps
    split
    · rename_i hi
      have hk' : ps.cfg.isRSClient = true := hk
      rw [hno ps hps (beq_iff_eq.mp hi)] at hk'
      cases hk'
    · rfl

theorem tick_frame (w : W) (n : Nat) : MapFrame isRSCfg w { w with tick := n } :=
  ⟨rfl, id, (List.map_id _).symm, fun _ => rfl, fun _ _ _ => rfl⟩

/-- in a well-formed neighbour list the neighbour found for `idx` is the only one with `idx` -/
theorem no_rs_with_idx (w : W) (hp : PeersWF w.peers) (idx : Nat) (ps0 : PeerSt)
    (h0 : w.peer? idx = some ps0) (hrs : ps0.cfg.isRSClient = false) :
    ∀ ps ∈ w.peers, ps.cfg.idx = idx → ps.cfg.isRSClient = false := by
  intro ps hps hi
  obtain ⟨hm0, hi0⟩ := peer?_mem w idx ps0 h0
  have : ps = ps0 := peer_of_idx hp hps hm0 (hi.trans hi0.symm)
  rw [this]; exact hrs

/-- tick, then a configuration-preserving change of the ordinary neighbour `idx` -/
private theorem frame_tick_upd (w : W) (hp : PeersWF w.peers) (idx : Nat) (ps0 : PeerSt)
    (h0 : w.peer? idx = some ps0) (hrs : ps0.cfg.isRSClient = false) (n : Nat)
    (f : PeerSt → PeerSt) (hf : ∀ ps, (f ps).cfg = ps.cfg) :
    MapFrame isRSCfg w (W.updPeer { w with tick := n } idx f) :=
  MapFrame.trans (tick_frame w n)
    (updPeer_frame_rs { w with tick := n } idx f hf (no_rs_with_idx w hp idx ps0 h0 hrs))

private theorem frame_fold (x : PeerCfg) (es : List AdjEntry) (w : W) :
    MapFrame isRSCfg w (es.foldl (fun w e => propagate w x e.r true) w) := by
  induction es generalizing w with
  | nil => exact MapFrame.refl _ w
  | cons e es ih =>
    rw [List.foldl_cons]
    exact MapFrame.trans (propagate_frame_rs w x e.r true) (ih _)

/-- an event of an ORDINARY neighbour `idx` (the neighbour found for `idx`, if any, is not a
    route-server client) leaves every route-server client untouched -/
theorem recvAnn_frame (w : W) (hp : PeersWF w.peers) (idx : Nat) (r0 : Cand)
    (hord : ∀ ps, w.peer? idx = some ps → ps.cfg.isRSClient = false) :
    MapFrame isRSCfg w (recvAnn w idx r0) := by
  unfold recvAnn
  split
  · exact MapFrame.refl _ w
  · rename_i ps hp0
    split
    · exact MapFrame.refl _ w
    · dsimp only
      refine MapFrame.trans ?_ (propagate_frame_rs _ _ _ _)
      exact frame_tick_upd w hp idx ps hp0 (hord ps hp0) _ _ (fun _ => rfl)

theorem recvWd_frame (w : W) (hp : PeersWF w.peers) (idx pfx pathId : Nat)
    (hord : ∀ ps, w.peer? idx = some ps → ps.cfg.isRSClient = false) :
    MapFrame isRSCfg w (recvWd w idx pfx pathId) := by
  unfold recvWd
  split
  · exact MapFrame.refl _ w
  · rename_i ps hp0
    split
    · exact MapFrame.refl _ w
    · refine MapFrame.trans ?_ (propagate_frame_rs _ _ _ _)
      exact frame_tick_upd w hp idx ps hp0 (hord ps hp0) _ _ (fun _ => rfl)

theorem sessionUp_frame (w : W) (hp : PeersWF w.peers) (idx : Nat)
    (hord : ∀ ps, w.peer? idx = some ps → ps.cfg.isRSClient = false) :
    MapFrame isRSCfg w (sessionUp w idx) := by
  unfold sessionUp
  split
  · exact MapFrame.refl _ w
  · rename_i ps hp0
    exact frame_tick_upd w hp idx ps hp0 (hord ps hp0) _ _ (fun _ => rfl)

theorem sessionDown_frame (w : W) (hp : PeersWF w.peers) (idx : Nat)
    (hord : ∀ ps, w.peer? idx = some ps → ps.cfg.isRSClient = false) :
    MapFrame isRSCfg w (sessionDown w idx) := by
  unfold sessionDown
  split
  · exact MapFrame.refl _ w
  · rename_i ps hp0
    refine MapFrame.trans ?_ (frame_fold _ _ _)
    exact frame_tick_upd w hp idx ps hp0 (hord ps hp0) _ _ (fun _ => rfl)

theorem localAdd_frame (w : W) (r0 : Cand) : MapFrame isRSCfg w (localAdd w r0) := by
  unfold localAdd
  exact MapFrame.trans (tick_frame w (w.tick + 1)) (ribUpdate_frame_rs _ _ _)

theorem localDel_frame (w : W) (pfx pathId : Nat) : MapFrame isRSCfg w (localDel w pfx pathId) := by
  unfold localDel
  exact MapFrame.trans (tick_frame w (w.tick + 1)) (ribUpdate_frame_rs _ _ _)

/-- AddPeer: refused (nothing changes) or one fresh neighbour, session down, appended -/
theorem addPeer_frame (w : W) (hp : PeersWF w.peers) (c : PeerCfg) :
    (addPeer w c).g = w.g ∧ (addPeer w c).rib = w.rib ∧ PeersWF (addPeer w c).peers ∧
    ((addPeer w c).peers = w.peers ∨ (addPeer w c).peers = w.peers ++ [{ cfg := c }]) := by
  unfold addPeer
  split
  · exact ⟨rfl, rfl, hp, Or.inl rfl⟩
  · rename_i hany
    have hfresh : ∀ q ∈ w.peers, q.cfg.idx ≠ c.idx ∧ q.cfg.addr ≠ c.addr := by
      intro q hq
      have hq' : ¬ ((q.cfg.idx == c.idx || q.cfg.addr == c.addr) = true) :=
        fun hh => hany (List.any_eq_true.mpr ⟨q, hq, hh⟩)
      simp only [Bool.or_eq_true, beq_iff_eq, not_or] at hq'
      exact hq'
    refine ⟨rfl, rfl, ⟨?_, ?_⟩, Or.inr rfl⟩
    · show (w.peers ++ [({ cfg := c } : PeerSt)]).Pairwise _
      rw [List.pairwise_append]
      refine ⟨hp.addr, List.pairwise_singleton _ _, ?_⟩
      intro a ha b hb
      simp only [List.mem_singleton] at hb
      subst hb
      exact (hfresh a ha).2
    · show (w.peers ++ [({ cfg := c } : PeerSt)]).Pairwise _
      rw [List.pairwise_append]
      refine ⟨hp.idx, List.pairwise_singleton _ _, ?_⟩
      intro a ha b hb
      simp only [List.mem_singleton] at hb
      subst hb
      exact (hfresh a ha).1

/-- DeletePeer of an ordinary neighbour: a MapFrame step, then the neighbours with that index
    are filtered out -/
theorem delPeer_frame (w : W) (hp : PeersWF w.peers) (idx : Nat)
    (hord : ∀ ps, w.peer? idx = some ps → ps.cfg.isRSClient = false) :
    delPeer w idx = w ∨
    ∃ w1, MapFrame isRSCfg w w1 ∧ (delPeer w idx).g = w.g ∧
      (delPeer w idx).peers = w1.peers.filter (fun q => q.cfg.idx != idx) ∧
      (∃ ps0, w.peer? idx = some ps0) := by
  unfold delPeer
  split
  · exact Or.inl rfl
  · rename_i ps hp0
    right
    have hfr : MapFrame isRSCfg w
        (ps.adj.entries.foldl (fun w e => propagate w ps.cfg e.r true)
          (W.updPeer { w with tick := w.tick + 1 } idx (fun ps => { ps with adj := {} }))) :=
by
      refine MapFrame.trans ?_ (frame_fold _ _ _)
      exact frame_tick_upd w hp idx ps hp0 (hord ps hp0) _ _ (fun _ => rfl)
    exact ⟨_, hfr, hfr.1, rfl, ps, hp0⟩

end RouteServer
