/-
  C17: VRF import / export, RT-membership history and the VRF-neighbor view step.
-/
import Lemmas.VrfRtcDefs
namespace VrfRtc

/-! ### import / export -/

/-- CanImportToVrf ↔ some TRANSITIVE route-target-keyed community of the route is an import target -/
theorem canImport_iff (v : Vrf) (ecs : List EC) :
    canImport v ecs = true ↔ ∃ e, e ∈ ecs ∧ isTransitive e = true ∧ keyable e = true ∧ e ∈ v.imports := by
  unfold canImport
  rw [List.any_eq_true]
  constructor
  · intro ⟨e, he, h⟩
    rw [Bool.and_eq_true] at h
    obtain ⟨ht, hm⟩ := h
    unfold rtKey at hm
    by_cases hk : keyable e = true
    · rw [if_pos hk] at hm
      exact ⟨e, he, ht, hk, by simpa using hm⟩
    · rw [if_neg hk] at hm
      exact absurd hm (by simp)
  · intro ⟨e, he, ht, hk, hi⟩
    refine ⟨e, he, ?_⟩
    rw [Bool.and_eq_true]
    refine ⟨ht, ?_⟩
    unfold rtKey
    rw [if_pos hk]
    simpa using hi

/-- Select(VRF) = the importable known paths as plain routes -/
theorem vrfSelect_iff (v : Vrf) (known : List VPath) (l : LPath) :
    l ∈ vrfSelect v known ↔ ∃ p, p ∈ known ∧ canImport v p.ecs = true ∧ l = toLocal p := by
  unfold vrfSelect
  rw [List.mem_map]
  constructor
  · intro ⟨p, hp, hl⟩
    rw [List.mem_filter] at hp
    exact ⟨p, hp.1, hp.2, hl.symm⟩
  · intro ⟨p, hp, hc, hl⟩
    exact ⟨p, List.mem_filter.2 ⟨hp, hc⟩, hl.symm⟩

/-- a route whose only matching community is non-transitive is not imported -/
theorem canImport_nontransitive (v : Vrf) (ecs : List EC)
    (h : ∀ e, e ∈ ecs → e ∈ v.imports → isTransitive e = false) : canImport v ecs = false := by
  cases hc : canImport v ecs with
  | false => rfl
  | true =>
    obtain ⟨e, he, ht, _, hi⟩ := (canImport_iff v ecs).1 hc
    rw [h e he hi] at ht
    cases ht

/-- export: RD, label of the VRF, prefix kept, export targets appended after the route's own communities -/
theorem toGlobal_attrs (v : Vrf) (l : LPath) :
    (toGlobal v l).rd = v.rd ∧ (toGlobal v l).label = v.label ∧ (toGlobal v l).pfx = l.pfx ∧
    (toGlobal v l).ecs = l.ecs ++ v.exports ∧ (toGlobal v l).marker = l.marker ∧
    (∀ e, e ∈ v.exports → e ∈ (toGlobal v l).ecs) := by
  refine ⟨rfl, rfl, rfl, rfl, rfl, fun e he => ?_⟩
  show e ∈ l.ecs ++ v.exports
  exact List.mem_append_right _ he

/-- a VRF imports what it exports when one of its export targets is a transitive import target -/
theorem export_import_roundtrip (v : Vrf) (l : LPath) (e : EC) (he : e ∈ v.exports) (hi : e ∈ v.imports)
    (ht : isTransitive e = true) (hk : keyable e = true) :
    canImport v (toGlobal v l).ecs = true ∧ (toLocal (toGlobal v l)).pfx = l.pfx :=
  ⟨(canImport_iff v _).2 ⟨e, (toGlobal_attrs v l).2.2.2.2.2 e he, ht, hk, hi⟩, rfl⟩

/-! ### RT membership history -/

theorem rtm_mem_add (s : Rtm) (x m : Mem) : m ∈ s.add x ↔ m = x ∨ m ∈ s := by
  unfold Rtm.add
  by_cases h : x ∈ s
  · rw [if_pos h]
    constructor
    · exact Or.inr
    · intro h'
      cases h' with
      | inl e => rw [e]; exact h
      | inr h' => exact h'
  · rw [if_neg h]
    exact List.mem_cons

theorem rtm_mem_sub (s : Rtm) (x m : Mem) : m ∈ s.sub x ↔ m ∈ s ∧ m ≠ x := by
  unfold Rtm.sub
  rw [List.mem_filter]
  simp

theorem rtm_mem_sync_self (s : Rtm) (m : Mem) (wd : Bool) : m ∈ s.sync m wd ↔ (!wd) = true := by
  unfold Rtm.sync
  cases wd with
  | true => simp [rtm_mem_sub]
  | false => simp [rtm_mem_add]

theorem rtm_mem_sync_other (s : Rtm) (x m : Mem) (wd : Bool) (h : x ≠ m) :
    m ∈ s.sync x wd ↔ m ∈ s := by
  have h' : m ≠ x := fun e => h e.symm
  unfold Rtm.sync
  cases wd with
  | true => simp [rtm_mem_sub, h']
  | false => simp [rtm_mem_add, h']

theorem rtm_run_cons (s : Rtm) (e : MemEv) (es : List MemEv) :
    Rtm.run s (e :: es) = Rtm.run (s.sync e.m e.wd) es := rfl

theorem lastEv_cons (e : MemEv) (es : List MemEv) (m : Mem) :
    lastEv (e :: es) m = (match lastEv es m with
      | some b => some b
      | none => if e.m = m then some (!e.wd) else none) := rfl

/-- the membership structure after any history from any start: an entry is present iff the last event
    about it was an announcement (or, with no event about it, it was there at the start) -/
theorem rtm_run_mem (evs : List MemEv) (s : Rtm) (m : Mem) :
    m ∈ s.run evs ↔ (match lastEv evs m with
      | some b => b = true
      | none => m ∈ s) := by
  induction evs generalizing s with
  | nil => exact Iff.rfl
  | cons e es ih =>
    rw [rtm_run_cons, ih, lastEv_cons]
    cases lastEv es m with
    | some b => exact Iff.rfl
    | none =>
      by_cases hem : e.m = m
      · rw [if_pos hem, ← hem]
        exact rtm_mem_sync_self s e.m e.wd
      · rw [if_neg hem]
        exact rtm_mem_sync_other s e.m m e.wd hem

theorem rtm_run_has (evs : List MemEv) (k : Nat) :
    (Rtm.run [] evs).has k = true ↔ ∃ m, m.rt = k ∧ lastEv evs m = some true := by
  unfold Rtm.has
  rw [List.any_eq_true]
  constructor
  · intro ⟨m, hm, hk⟩
    refine ⟨m, by simpa using hk, ?_⟩
    have h := (rtm_run_mem evs [] m).1 hm
    cases hl : lastEv evs m with
    | none => rw [hl] at h; exact absurd h List.not_mem_nil
    | some b => rw [hl] at h; rw [show b = true from h]
  · intro ⟨m, hk, hl⟩
    refine ⟨m, ?_, by simpa using hk⟩
    apply (rtm_run_mem evs [] m).2
    rw [hl]

/-! ### one destination -/

theorem removeSlot_mem (l : List VPath) (p q : VPath) : q ∈ (removeSlot l p).1 → q ∈ l := by
  induction l with
  | nil => intro h; exact h
  | cons a r ih =>
    unfold removeSlot
    by_cases hs : sameSlot p a = true
    · rw [if_pos hs]
      intro h
      exact List.mem_cons_of_mem _ h
    · rw [if_neg hs]
      intro h
      cases List.mem_cons.1 h with
      | inl e => rw [e]; exact List.mem_cons_self
      | inr h' => exact List.mem_cons_of_mem _ (ih h')

theorem insertSort_mem (l : List VPath) (p q : VPath) : q ∈ insertSort l p → q = p ∨ q ∈ l := by
  induction l with
  | nil =>
    intro h
    exact Or.inl (List.mem_singleton.1 h)
  | cons a r ih =>
    unfold insertSort
    by_cases hs : a.pref < p.pref
    · rw [if_pos hs]
      intro h
      exact List.mem_cons.1 h
    · rw [if_neg hs]
      intro h
      cases List.mem_cons.1 h with
      | inl e => rw [e]; exact Or.inr List.mem_cons_self
      | inr h' =>
        cases ih h' with
        | inl e => exact Or.inl e
        | inr h'' => exact Or.inr (List.mem_cons_of_mem _ h'')

theorem calcDest_mem (l : List VPath) (p q : VPath) (wd : Bool) :
    q ∈ (calcDest l p wd).1 → q ∈ l ∨ (q = p ∧ wd = false) := by
  unfold calcDest
  cases wd with
  | true =>
    intro h
    exact Or.inl (removeSlot_mem l p q h)
  | false =>
    intro h
    cases insertSort_mem _ p q h with
    | inl e => exact Or.inr ⟨e, rfl⟩
    | inr h' => exact Or.inl (removeSlot_mem l p q h')

/-! ### table update -/

theorem update_dest_self (t : Tbl) (p : VPath) (wd : Bool) :
    (t.update p wd).dest p.nlri = (calcDest (t.dest p.nlri) p wd).1 := by
  unfold Tbl.update
  simp

theorem update_dest_other (t : Tbl) (p : VPath) (wd : Bool) (n : Nat × Nat) (h : n ≠ p.nlri) :
    (t.update p wd).dest n = t.dest n := by
  unfold Tbl.update
  simp [h]

theorem update_nlris_self (t : Tbl) (p : VPath) (wd : Bool) : p.nlri ∈ (t.update p wd).nlris := by
  unfold Tbl.update
  by_cases h0 : p.nlri ∈ t.nlris
  · simp only [if_pos h0]; exact h0
  · simp only [if_neg h0]; exact List.mem_cons_self

theorem update_nlris_sub (t : Tbl) (p : VPath) (wd : Bool) (n : Nat × Nat) (h : n ∈ t.nlris) :
    n ∈ (t.update p wd).nlris := by
  unfold Tbl.update
  by_cases h0 : p.nlri ∈ t.nlris
  · simp only [if_pos h0]; exact h
  · simp only [if_neg h0]; exact List.mem_cons_of_mem _ h

theorem update_nlris_sup (t : Tbl) (p : VPath) (wd : Bool) (n : Nat × Nat)
    (h : n ∈ (t.update p wd).nlris) : n = p.nlri ∨ n ∈ t.nlris := by
  unfold Tbl.update at h
  by_cases h0 : p.nlri ∈ t.nlris
  · simp only [if_pos h0] at h; exact Or.inr h
  · simp only [if_neg h0] at h; exact List.mem_cons.1 h

theorem dest_nil_of_unlisted (t : Tbl) (h : TblWF t) (n : Nat × Nat) (hn : n ∉ t.nlris) :
    t.dest n = [] := by
  cases hd : t.dest n with
  | nil => rfl
  | cons a r =>
    exact absurd (h.listed n (by rw [hd]; exact List.cons_ne_nil a r)) hn

/-! ### the VRF-neighbor view -/

/-- what the VRF neighbor should hold for a destination whose best path is `o` -/
def ceExp (vr : Vrf) (o : Option VPath) : Option Nat :=
  match o with
  | some b => if canImport vr b.ecs then some b.marker else none
  | none => none

theorem lview_apply_nil (v : LView) : v.apply [] = v := rfl
theorem lview_apply_one (v : LView) (m : LMsg) : v.apply [m] = v.apply1 m := rfl

theorem lview_adv_self (v : LView) (c mk : Nat) : (v.apply1 (LMsg.adv c mk)) c = some mk := by
  simp [LView.apply1]
theorem lview_wd_self (v : LView) (c : Nat) : (v.apply1 (LMsg.wd c)) c = none := by
  simp [LView.apply1]
theorem lview_adv_other (v : LView) (c mk x : Nat) (h : x ≠ c) : (v.apply1 (LMsg.adv c mk)) x = v x := by
  simp [LView.apply1, h]
theorem lview_wd_other (v : LView) (c x : Nat) (h : x ≠ c) : (v.apply1 (LMsg.wd c)) x = v x := by
  simp [LView.apply1, h]

/-- vrfFilter for a path and an old best that both have prefix `c` -/
theorem vrfFilter_view (vr : Vrf) (b : VPath) (isWd : Bool) (old : Option VPath) (v : LView) (c : Nat)
    (hb : b.pfx = c) (ho : ∀ o, old = some o → o.pfx = c)
    (hw : isWd = true → old = some b)
    (hv : v c = ceExp vr old) :
    (v.apply (vrfFilter vr b isWd old)) c = (if isWd then none else ceExp vr (some b)) ∧
    (∀ x, x ≠ c → (v.apply (vrfFilter vr b isWd old)) x = v x) := by
  unfold vrfFilter
  by_cases hc : canImport vr b.ecs = true
  · rw [if_pos hc, lview_apply_one, hb]
    cases isWd with
    | true =>
      simp only [if_true]
      exact ⟨lview_wd_self v c, fun x hx => lview_wd_other v c x hx⟩
    | false =>
      simp only [Bool.false_eq_true, if_false]
      refine ⟨?_, fun x hx => lview_adv_other v c _ x hx⟩
      rw [lview_adv_self]
      simp [ceExp, hc]
  · rw [if_neg hc]
    have hcf : canImport vr b.ecs = false := by
      cases h : canImport vr b.ecs with
      | true => exact absurd h hc
      | false => rfl
    cases isWd with
    | true =>
      have hob := hw rfl
      subst hob
      simp only [Bool.not_true, Bool.false_and]
      refine ⟨?_, fun x _ => rfl⟩
      show v c = none
      rw [hv]
      simp [ceExp, hcf]
    | false =>
      cases old with
      | none =>
        refine ⟨?_, fun x _ => rfl⟩
        show v c = _
        rw [hv]
        simp [ceExp, hcf]
      | some o =>
        have hoc := ho o rfl
        by_cases hco : canImport vr o.ecs = true
        · simp only [Bool.not_false, Bool.true_and, hco, if_true]
          rw [lview_apply_one, hoc]
          refine ⟨?_, fun x hx => lview_wd_other v c x hx⟩
          rw [lview_wd_self]
          simp [ceExp, hcf]
        · have hcof : canImport vr o.ecs = false := by
            cases h : canImport vr o.ecs with
            | true => exact absurd h hco
            | false => rfl
          simp only [Bool.not_false, Bool.true_and, hcof]
          refine ⟨?_, fun x _ => rfl⟩
          show v c = _
          rw [hv]
          simp [ceExp, hcf, hcof]

/-- `Path.Equal`: the same object, or the same content (in particular marker and communities) -/
theorem sameAs_cases (a b : VPath) (h : a.sameAs b = true) :
    a.uid = b.uid ∨ (a.marker = b.marker ∧ a.ecs = b.ecs) := by
  unfold VPath.sameAs at h
  rw [Bool.or_eq_true] at h
  cases h with
  | inl h => exact Or.inl (by simpa using h)
  | inr h =>
    right
    have h' := of_decide_eq_true h
    cases a; cases b
    simp only [VPath.mk.injEq] at h'
    exact ⟨h'.2.2.2.2.2.2.2.2.1, h'.2.2.2.2.2.2.2.2.2⟩

/-- one destination changes from `oldL` to `newL`, all paths involved having prefix `c` -/
theorem ce_change_view (vr : Vrf) (oldL newL : List VPath) (v : LView) (c : Nat)
    (hold : ∀ q, q ∈ oldL → q.pfx = c) (hnew : ∀ q, q ∈ newL → q.pfx = c)
    (huid : ∀ o b, oldL.head? = some o → newL.head? = some b → o.uid = b.uid → o = b)
    (hv : v c = ceExp vr oldL.head?) :
    (v.apply (ceOnTableChange vr oldL newL)) c = ceExp vr newL.head? ∧
    (∀ x, x ≠ c → (v.apply (ceOnTableChange vr oldL newL)) x = v x) := by
  have hoh : ∀ o, oldL.head? = some o → o.pfx = c := fun o h => hold o (List.mem_of_head? h)
  unfold ceOnTableChange
  cases hn : newL.head? with
  | some b =>
    have hbc : b.pfx = c := hnew b (List.mem_of_head? hn)
    simp only
    by_cases hu : sameAsHead oldL.head? b = true
    · rw [if_pos hu, lview_apply_nil]
      refine ⟨?_, fun x _ => rfl⟩
      rw [hv]
      cases ho : oldL.head? with
      | none => rw [ho] at hu; simp [sameAsHead] at hu
      | some o =>
        rw [ho] at hu
        have hs : b.sameAs o = true := hu
        cases sameAs_cases b o hs with
        | inl he => rw [huid o b ho hn he.symm]
        | inr he =>
          unfold ceExp
          simp only
          rw [he.1, he.2]
    · rw [if_neg hu]
      have h := vrfFilter_view vr b false oldL.head? v c hbc hoh (fun h => by cases h) hv
      exact h
  | none =>
    simp only
    cases ho : oldL.head? with
    | none =>
      simp only
      rw [lview_apply_nil]
      refine ⟨?_, fun x _ => rfl⟩
      rw [hv, ho]
    | some o =>
      simp only
      have h := vrfFilter_view vr o true (some o) v c (hoh o ho) (fun o' h => by cases h; exact hoh o ho)
        (fun _ => rfl) (by rw [hv, ho])
      exact h

/-- a table update keeps "the VRF neighbor holds exactly the importable best paths" when every prefix
    occurs under one RD only -/
theorem ce_table_step (t : Tbl) (vr : Vrf) (v : LView) (p : VPath) (wd : Bool)
    (h : TblWF t) (hf : wd = false → Fresh t p) (hinj : PfxInj (t.update p wd).nlris)
    (hv : CEViewOK t vr v) :
    CEViewOK (t.update p wd) vr
      (v.apply (ceOnTableChange vr (t.dest p.nlri) ((t.update p wd).dest p.nlri))) := by
  have hself := update_nlris_self t p wd
  -- other listed NLRIs have another prefix
  have hother : ∀ n, n ∈ t.nlris → n ≠ p.nlri → n.2 ≠ p.nlri.2 := by
    intro n hn hne heq
    exact hne (hinj n p.nlri (update_nlris_sub t p wd n hn) hself heq)
  -- the view at the prefix of p before the update
  have hv0 : v p.nlri.2 = ceExp vr (t.dest p.nlri).head? := by
    by_cases h0 : p.nlri ∈ t.nlris
    · exact hv.1 p.nlri h0
    · rw [dest_nil_of_unlisted t h p.nlri h0]
      apply hv.2
      intro n hn
      exact hother n hn (fun e => h0 (e ▸ hn))
  have hold : ∀ q, q ∈ t.dest p.nlri → q.pfx = p.nlri.2 := by
    intro q hq
    have := h.nlri_ok p.nlri q hq
    rw [← this]
    rfl
  rw [update_dest_self]
  have hnewmem := fun q => calcDest_mem (t.dest p.nlri) p q wd
  have hnew : ∀ q, q ∈ (calcDest (t.dest p.nlri) p wd).1 → q.pfx = p.nlri.2 := by
    intro q hq
    cases hnewmem q hq with
    | inl hq' => exact hold q hq'
    | inr hq' => rw [hq'.1]; rfl
  have huid : ∀ o b, (t.dest p.nlri).head? = some o → (calcDest (t.dest p.nlri) p wd).1.head? = some b →
      o.uid = b.uid → o = b := by
    intro o b ho hb he
    have hom := List.mem_of_head? ho
    cases hnewmem b (List.mem_of_head? hb) with
    | inl hb' => exact h.uid_uniq _ _ o b hom hb' he
    | inr hb' =>
      rw [hb'.1] at he
      rw [hb'.1]
      exact (hf hb'.2).1 p.nlri o hom he
  have hc := ce_change_view vr (t.dest p.nlri) (calcDest (t.dest p.nlri) p wd).1 v p.nlri.2
    hold hnew huid hv0
  constructor
  · intro n hn
    by_cases hnn : n = p.nlri
    · rw [hnn]
      have hb : (t.update p wd).best p.nlri = (calcDest (t.dest p.nlri) p wd).1.head? := by
        unfold Tbl.best
        rw [update_dest_self]
      rw [hb]
      exact hc.1
    · have hn' : n ∈ t.nlris := by
        cases update_nlris_sup t p wd n hn with
        | inl e => exact absurd e hnn
        | inr h' => exact h'
      rw [hc.2 n.2 (hother n hn' hnn)]
      have hb : (t.update p wd).best n = t.best n := by
        unfold Tbl.best
        rw [update_dest_other t p wd n hnn]
      rw [hb]
      exact hv.1 n hn'
  · intro x hx
    rw [hc.2 x (fun e => hx p.nlri hself e.symm)]
    exact hv.2 x (fun n hn => hx n (update_nlris_sub t p wd n hn))

end VrfRtc
