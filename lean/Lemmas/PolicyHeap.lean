import Model.PolicyHeap
/-! frame and refinement lemmas for the Go-slice heap -/
namespace PolicyHeap

theorem cells_append (h : Heap) (x : List Nat) (i : Nat) (hi : i < h.length) :
    cells (h ++ [x]) i = cells h i := by
  unfold cells
  simp [List.getD_eq_getElem?_getD, List.getElem?_append_left hi]

theorem cells_append_new (h : Heap) (x : List Nat) : cells (h ++ [x]) h.length = x := by
  unfold cells
  simp [List.getD_eq_getElem?_getD]

theorem allocCap_frame (h : Heap) (vals : List Nat) (cap : Nat) (t : Slice) (ht : t.arr < h.length) :
    read (allocCap h vals cap).1 t = read h t := by
  unfold read allocCap
  simp [cells_append _ _ _ ht]

theorem allocCap_length (h : Heap) (vals : List Nat) (cap : Nat) :
    (allocCap h vals cap).1.length = h.length + 1 := by
  simp [allocCap]

theorem allocCap_read (h : Heap) (vals : List Nat) (cap : Nat) :
    read (allocCap h vals cap).1 (allocCap h vals cap).2 = vals := by
  unfold read allocCap
  simp [cells_append_new]

theorem get_set (r : HRoute) (w : Nat) (s : Slice) : (r.set w s).get w = s := by
  unfold HRoute.set HRoute.get
  by_cases h0 : w = 0
  · simp [h0]
  · by_cases h1 : w = 1 <;> simp [h0, h1]

theorem hAct_frame (h : Heap) (r : HRoute) (a : HAct) (t : Slice) (ht : t.arr < h.length) :
    read (hAct h r a).1 t = read h t := by
  unfold hAct
  exact allocCap_frame _ _ _ _ ht

theorem hAct_length (h : Heap) (r : HRoute) (a : HAct) : (hAct h r a).1.length = h.length + 1 := by
  unfold hAct
  exact allocCap_length _ _ _

/-- what the acting clone reads after one action is the list-level result -/
theorem hAct_refines (h : Heap) (r : HRoute) (a : HAct) :
    read (hAct h r a).1 ((hAct h r a).2.get a.which) = listAct a.op a.vals (read h (r.get a.which)) := by
  unfold hAct
  simp only [get_set]
  exact allocCap_read _ _ _

theorem hActs_frame (h : Heap) (r : HRoute) (acts : List HAct) :
    ∀ t : Slice, t.arr < h.length → read (hActs h r acts).1 t = read h t := by
  induction acts generalizing h r with
  | nil => intro t _; rfl
  | cons a rest ih =>
    intro t ht
    simp only [hActs]
    rw [ih (hAct h r a).1 (hAct h r a).2 t (by rw [hAct_length]; omega)]
    exact hAct_frame h r a t ht

theorem goAppend_frame_full (h : Heap) (s : Slice) (xs : List Nat) (hx : xs ≠ []) (hfull : s.len = s.cap)
    (t : Slice) (ht : t.arr < h.length) :
    read (goAppend h s xs).1 t = read h t := by
  unfold goAppend
  have hl : 0 < xs.length := List.length_pos_iff.mpr hx
  have : ¬ (s.len + xs.length ≤ s.cap) := by omega
  simp only [this, if_false]
  exact allocCap_frame _ _ _ _ ht

end PolicyHeap
