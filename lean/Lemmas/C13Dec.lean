import Model.CommMatch
namespace CommMatch
open Regex

/-! ## `toDecAux`: accumulator and fuel independence -/

theorem toDecAux_acc (f : Nat) : ∀ (n : Nat) (acc : Str),
    toDecAux f n acc = toDecAux f n [] ++ acc := by
  induction f with
  | zero => intro n acc; simp [toDecAux]
  | succ f ih =>
    intro n acc
    simp only [toDecAux]
    by_cases h : n < 10
    · simp [h]
    · simp only [h, if_false]
      rw [ih (n / 10) ((48 + n % 10) :: acc), ih (n / 10) [48 + n % 10]]
      simp

theorem toDecAux_fuel (f : Nat) : ∀ (g n : Nat) (acc : Str), n < f → n < g →
    toDecAux f n acc = toDecAux g n acc := by
  induction f with
  | zero => intro g n acc hf; omega
  | succ f ih =>
    intro g n acc hf hg
    cases g with
    | zero => omega
    | succ g =>
      simp only [toDecAux]
      by_cases h : n < 10
      · simp [h]
      · simp only [h, if_false]
        apply ih
        · omega
        · omega

theorem toDec_eq (n : Nat) :
    toDec n = if n < 10 then [48 + n] else toDec (n / 10) ++ [48 + n % 10] := by
  have step : toDecAux (n + 1) n [] =
      if n < 10 then [48 + n] else toDecAux n (n / 10) [48 + n % 10] := by
    simp only [toDecAux]
  show toDecAux (n + 1) n [] = _
  rw [step]
  show _ = if n < 10 then [48 + n] else toDecAux (n / 10 + 1) (n / 10) [] ++ [48 + n % 10]
  by_cases h : n < 10
  · simp [h]
  · simp only [h, if_false]
    rw [toDecAux_acc n (n / 10) [48 + n % 10]]
    rw [toDecAux_fuel n (n / 10 + 1) (n / 10) [] (by omega) (by omega)]

theorem toDec_small {n : Nat} (h : n < 10) : toDec n = [48 + n] := by
  rw [toDec_eq]; simp [h]

theorem toDec_big {n : Nat} (h : ¬ n < 10) : toDec n = toDec (n / 10) ++ [48 + n % 10] := by
  rw [toDec_eq]; simp [h]

/-! ## basic facts -/

theorem toDec_ne_nil (n : Nat) : toDec n ≠ [] := by
  by_cases h : n < 10
  · rw [toDec_small h]; simp
  · rw [toDec_big h]; simp

theorem toDec_all_digit (n : Nat) : (toDec n).all isDigit = true := by
  induction n using Nat.strongRecOn with
  | _ n ih =>
    by_cases h : n < 10
    · rw [toDec_small h]
      simp only [List.all_cons, List.all_nil, Bool.and_true, isDigit, Bool.and_eq_true,
        decide_eq_true_eq]
      omega
    · rw [toDec_big h, List.all_append, ih (n / 10) (by omega)]
      simp only [List.all_cons, List.all_nil, Bool.and_true, isDigit, Bool.true_and,
        Bool.and_eq_true, decide_eq_true_eq]
      omega

theorem toDec_head (n : Nat) (hn : 1 ≤ n) : ∃ c t, toDec n = c :: t ∧ c ≠ 48 := by
  induction n using Nat.strongRecOn with
  | _ n ih =>
    by_cases h : n < 10
    · refine ⟨48 + n, [], toDec_small h, ?_⟩
      omega
    · rcases ih (n / 10) (by omega) (by omega) with ⟨c, t, hct, hc⟩
      refine ⟨c, t ++ [48 + n % 10], ?_, hc⟩
      rw [toDec_big h, hct]
      simp

theorem toDec_canonical (n : Nat) : isCanonical (toDec n) = true := by
  by_cases h : n < 10
  · rw [toDec_small h]; rfl
  · rcases toDec_head (n / 10) (by omega) with ⟨c, t, hct, hc⟩
    rw [toDec_big h, hct]
    cases t with
    | nil => simp [isCanonical, hc]
    | cons a t => simp [isCanonical, hc]

theorem digitsVal_append_single (s : Str) (d : Nat) :
    digitsVal (s ++ [d]) = digitsVal s * 10 + (d - 48) := by
  simp [digitsVal, List.foldl_append]

theorem digitsVal_toDec (n : Nat) : digitsVal (toDec n) = n := by
  induction n using Nat.strongRecOn with
  | _ n ih =>
    by_cases h : n < 10
    · rw [toDec_small h]
      simp [digitsVal]
    · rw [toDec_big h, digitsVal_append_single, ih (n / 10) (by omega)]
      omega

theorem toDec_inj {a b : Nat} (h : toDec a = toDec b) : a = b := by
  have := congrArg digitsVal h
  rwa [digitsVal_toDec, digitsVal_toDec] at this

theorem toDec_no_colon (n : Nat) : ¬ (58 ∈ toDec n) := by
  intro hm
  have := List.all_eq_true.mp (toDec_all_digit n) 58 hm
  simp [isDigit] at this

theorem toDec_no_newline (n : Nat) : ¬ (10 ∈ toDec n) := by
  intro hm
  have := List.all_eq_true.mp (toDec_all_digit n) 10 hm
  simp [isDigit] at this

/-! ## the other round trip -/

theorem foldl_dec_ge (t : Str) : ∀ a : Nat,
    a ≤ t.foldl (fun a c => a * 10 + (c - 48)) a := by
  induction t with
  | nil => intro a; simp
  | cons c t ih =>
    intro a
    simp only [List.foldl_cons]
    have := ih (a * 10 + (c - 48))
    omega

theorem digitsVal_pos (c : Nat) (t : Str) (h1 : isDigit c = true) (h2 : c ≠ 48) :
    1 ≤ digitsVal (c :: t) := by
  simp only [digitsVal, List.foldl_cons]
  have := foldl_dec_ge t (0 * 10 + (c - 48))
  simp only [isDigit, Bool.and_eq_true, decide_eq_true_eq] at h1
  omega

theorem toDec_digitsVal_rev (r : Str) : r ≠ [] → r.all isDigit = true →
    isCanonical r.reverse = true → toDec (digitsVal r.reverse) = r.reverse := by
  induction r with
  | nil => intro h; exact absurd rfl h
  | cons d r ih =>
    intro _ h2 h3
    simp only [List.all_cons, Bool.and_eq_true] at h2
    have hd := h2.1
    simp only [isDigit, Bool.and_eq_true, decide_eq_true_eq] at hd
    rw [List.reverse_cons] at h3 ⊢
    rw [digitsVal_append_single]
    cases hr : r.reverse with
    | nil =>
      have : digitsVal ([] : Str) = 0 := rfl
      rw [this, toDec_small (by omega)]
      simp only [List.nil_append, List.cons.injEq, and_true]
      omega
    | cons c t =>
      have hrne : r ≠ [] := by
        intro h; rw [h] at hr; simp at hr
      rw [hr] at h3
      have hcd : isDigit c = true := by
        have hall : r.reverse.all isDigit = true := by
          rw [List.all_reverse]; exact h2.2
        rw [hr] at hall
        simp only [List.all_cons, Bool.and_eq_true] at hall
        exact hall.1
      have hc : c ≠ 48 := by
        cases t with
        | nil => simpa [isCanonical] using h3
        | cons a t => simpa [isCanonical] using h3
      have hcan : isCanonical (c :: t) = true := by
        cases t with
        | nil => rfl
        | cons a t => simp [isCanonical, hc]
      have ih' := ih hrne h2.2 (by rw [hr]; exact hcan)
      rw [hr] at ih'
      have hpos := digitsVal_pos c t hcd hc
      rw [toDec_big (by omega)]
      have e1 : (digitsVal (c :: t) * 10 + (d - 48)) / 10 = digitsVal (c :: t) := by omega
      have e2 : 48 + (digitsVal (c :: t) * 10 + (d - 48)) % 10 = d := by omega
      rw [e1, e2, ih']

theorem toDec_digitsVal (s : Str) (h1 : s ≠ []) (h2 : s.all isDigit = true)
    (h3 : isCanonical s = true) : toDec (digitsVal s) = s := by
  have := toDec_digitsVal_rev s.reverse (by simpa using h1)
    (by rw [List.all_reverse]; exact h2) (by simpa using h3)
  simpa using this

end CommMatch
