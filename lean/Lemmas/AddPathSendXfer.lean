/- initial table transfer and soft reset out of the ADD-PATH send model -/
import Lemmas.AddPathSendDefs
namespace AddPathSend
open BestPath

namespace XferAux


theorem id_inj {l : List Cand} (h : (l.map (·.id)).Nodup) {x y : Cand}
    (hx : x ∈ l) (hy : y ∈ l) (e : x.id = y.id) : x = y := by
  induction l with
  | nil => cases hx
  | cons a l ih =>
    simp only [List.map_cons, List.nodup_cons, List.mem_map, not_exists, not_and] at h
    rcases List.mem_cons.1 hx with hx' | hx' <;> rcases List.mem_cons.1 hy with hy' | hy'
    · rw [hx', hy']
    · subst hx'; exact absurd e.symm (h.1 y hy')
    · subst hy'; exact absurd e (h.1 x hx')
    · exact ih h.2 hx' hy'

theorem mem_ins {i j : Nat} {l : List Nat} : i ∈ ins j l ↔ i = j ∨ i ∈ l := by
  by_cases h : j ∈ l
  · simp [ins, h]; intro e; subst e; exact h
  · simp [ins, h]

theorem nodup_ins {j : Nat} {l : List Nat} (hl : l.Nodup) : (ins j l).Nodup := by
  by_cases h : j ∈ l
  · simp [ins, h, hl]
  · simp [ins, h, hl]

theorem ins_of_mem {j : Nat} {l : List Nat} (h : j ∈ l) : ins j l = l := by
  simp [ins, h]

theorem length_ins_not_mem {j : Nat} {l : List Nat} (h : j ∉ l) : (ins j l).length = l.length + 1 := by
  simp [ins, h]






/-- announcements of a list of paths -/
def anns (l : List Cand) : List (Cand × Bool) := l.map (fun q => (q, false))

@[simp] theorem upd_held (b : Bk) (l : List (Cand × Bool)) : (upd b l).held = b.held := by
  induction l generalizing b with
  | nil => rfl
  | cons a l ih => obtain ⟨c, wd⟩ := a; simp [upd, ih]

@[simp] theorem upd_view (b : Bk) (l : List (Cand × Bool)) : (upd b l).view = b.view := by
  induction l generalizing b with
  | nil => rfl
  | cons a l ih => obtain ⟨c, wd⟩ := a; simp [upd, ih]

@[simp] theorem send_sent (b : Bk) (l : List (Cand × Bool)) : (send b l).sent = b.sent := by
  induction l generalizing b with
  | nil => rfl
  | cons a l ih => obtain ⟨c, wd⟩ := a; simp [send, ih]

@[simp] theorem send_held (b : Bk) (l : List (Cand × Bool)) : (send b l).held = b.held := by
  induction l generalizing b with
  | nil => rfl
  | cons a l ih => obtain ⟨c, wd⟩ := a; simp [send, ih]

theorem upd_anns_cons (b : Bk) (c : Cand) (l : List Cand) :
    upd b (anns (c :: l)) = upd { b with sent := ins c.id b.sent } (anns l) := by
  simp [anns, upd]

theorem send_anns_cons (b : Bk) (c : Cand) (l : List Cand) :
    send b (anns (c :: l)) =
      send { b with view := (c.id, c.marker) :: b.view.filter (fun e => e.1 != c.id) } (anns l) := by
  simp [anns, send]

theorem upd_anns_mem (b : Bk) (l : List Cand) (i : Nat) :
    i ∈ (upd b (anns l)).sent ↔ i ∈ b.sent ∨ ∃ q, q ∈ l ∧ q.id = i := by
  induction l generalizing b with
  | nil => simp [anns, upd]
  | cons c l ih =>
    rw [upd_anns_cons, ih]
    simp only [mem_ins, List.mem_cons]
    grind

theorem upd_anns_nodup (b : Bk) (l : List Cand) (h : b.sent.Nodup) :
    (upd b (anns l)).sent.Nodup := by
  induction l generalizing b with
  | nil => simpa [anns, upd] using h
  | cons c l ih =>
    rw [upd_anns_cons]; exact ih _ (nodup_ins h)

theorem upd_anns_length (b : Bk) (l : List Cand) (hl : (l.map (·.id)).Nodup)
    (hn : ∀ q, q ∈ l → q.id ∉ b.sent) :
    (upd b (anns l)).sent.length = b.sent.length + l.length := by
  induction l generalizing b with
  | nil => simp [anns, upd]
  | cons c l ih =>
    simp only [List.map_cons, List.nodup_cons, List.mem_map, not_exists, not_and] at hl
    rw [upd_anns_cons, ih _ hl.2]
    · simp only [List.length_cons]
      rw [length_ins_not_mem (hn c (List.mem_cons_self ..))]; omega
    · intro q hq
      simp only [mem_ins]
      intro h
      rcases h with h | h
      · exact hl.1 q hq h
      · exact hn q (List.mem_cons_of_mem _ hq) h

theorem upd_anns_id (b : Bk) (l : List Cand) (h : ∀ q, q ∈ l → q.id ∈ b.sent) :
    upd b (anns l) = b := by
  induction l generalizing b with
  | nil => rfl
  | cons c l ih =>
    rw [upd_anns_cons, ins_of_mem (h c (List.mem_cons_self ..))]
    exact ih b (fun q hq => h q (List.mem_cons_of_mem _ hq))

theorem send_anns_view (b : Bk) (l : List Cand) (hl : (l.map (·.id)).Nodup) (i m : Nat) :
    (i, m) ∈ (send b (anns l)).view ↔
      (∃ q, q ∈ l ∧ q.id = i ∧ q.marker = m) ∨ ((i, m) ∈ b.view ∧ ∀ q, q ∈ l → q.id ≠ i) := by
  induction l generalizing b with
  | nil => simp [anns, send]
  | cons c l ih =>
    simp only [List.map_cons, List.nodup_cons, List.mem_map, not_exists, not_and] at hl
    rw [send_anns_cons, ih _ hl.2]
    simp only [List.mem_cons, List.mem_filter, Prod.mk.injEq, bne_iff_ne]
    grind

theorem send_anns_keys (b : Bk) (l : List Cand) (h : (b.view.map (·.1)).Nodup) :
    ((send b (anns l)).view.map (·.1)).Nodup := by
  induction l generalizing b with
  | nil => simpa [anns, send] using h
  | cons c l ih =>
    rw [send_anns_cons]; apply ih
    simp only [List.map_cons, List.nodup_cons, List.mem_map, List.mem_filter, not_exists, not_and]
    refine ⟨?_, ?_⟩
    · grind
    · exact List.Nodup.sublist (List.Sublist.map _ List.filter_sublist) h





theorem holdBack_nodup (k : Nat) (sent : List Nat) (l : List Cand) (added : Nat) (held : List Nat)
    (h : held.Nodup) : (holdBack k sent l added held).2.Nodup := by
  induction l generalizing added held with
  | nil => simpa [holdBack] using h
  | cons p l ih =>
    unfold holdBack
    split
    · exact ih _ _ h
    · split
      · exact ih _ _ (nodup_ins h)
      · exact ih _ _ h

theorem holdBack_nil_fst (k : Nat) (l : List Cand) (added : Nat) (held : List Nat) :
    (holdBack k [] l added held).1 = l.take (k - added) := by
  induction l generalizing added held with
  | nil => simp [holdBack]
  | cons p l ih =>
    unfold holdBack
    by_cases h : added ≥ k
    · have e : k - added = 0 := by omega
      simp [h, ih, e]
    · have e : k - added = (k - (added + 1)) + 1 := by omega
      simp [h, ih]
      rw [e, List.take_succ_cons]

theorem holdBack_nil_snd (k : Nat) (l : List Cand) (added : Nat) (held : List Nat) (i : Nat) :
    i ∈ (holdBack k [] l added held).2 ↔
      i ∈ held ∨ ∃ q, q ∈ l.drop (k - added) ∧ q.id = i := by
  induction l generalizing added held with
  | nil => simp [holdBack]
  | cons p l ih =>
    unfold holdBack
    by_cases h : added ≥ k
    · have e : k - added = 0 := by omega
      simp [h, ih, e, mem_ins]
      grind
    · have e : k - added = (k - (added + 1)) + 1 := by omega
      simp [h, ih]
      rw [e, List.drop_succ_cons]

theorem holdBack_soft (k : Nat) (sent held : List Nat) (l : List Cand)
    (h : ∀ p, p ∈ l → p.id ∈ sent ∨ (p.id ∈ held ∧ sent.length ≥ k)) (added : Nat) :
    holdBack k sent l added held = (l.filter (fun p => sent.contains p.id), held) := by
  induction l generalizing added with
  | nil => simp [holdBack]
  | cons p l ih =>
    have ih' := fun a => ih (fun q hq => h q (List.mem_cons_of_mem _ hq)) a
    unfold holdBack
    rcases h p (List.mem_cons_self ..) with hp | ⟨hp, hk⟩
    · simp [hp, ih']
    · by_cases hs : p.id ∈ sent
      · simp [hs, ih']
      · have hk' : sent.length + added ≥ k := by omega
        simp [hs, hk', ins_of_mem hp, ih']

/-! ### the initial transfer -/

theorem transfer_init_eq (elig : Cand → Bool) (k : Nat) (t : Tbl) :
    transfer elig k t false {} =
      send (upd { sent := [], held := (holdBack k [] (t.known.filter elig) 0 []).2, view := [] }
             (anns ((t.known.filter elig).take k))) (anns ((t.known.filter elig).take k)) := by
  have e := holdBack_nil_fst k (t.known.filter elig) 0 []
  simp only [Nat.sub_zero] at e
  show send (upd { sent := [], held := (holdBack k [] (t.known.filter elig) 0 []).2, view := [] }
      ([].map (fun q => (q, true)) ++ (holdBack k [] (t.known.filter elig) 0 []).1.map (fun q => (q, false))))
      ([].map (fun q => (q, true)) ++ (holdBack k [] (t.known.filter elig) 0 []).1.map (fun q => (q, false))) = _
  rw [e]; rfl

theorem filt_ids {t : Tbl} (hT : TblInv t) (elig : Cand → Bool) :
    ((t.known.filter elig).map (·.id)).Nodup :=
  List.Nodup.sublist (List.Sublist.map _ List.filter_sublist) hT.ids

theorem take_ids {l : List Cand} (h : (l.map (·.id)).Nodup) (k : Nat) :
    ((l.take k).map (·.id)).Nodup :=
  List.Nodup.sublist (List.Sublist.map _ (List.take_sublist k l)) h

theorem drop_ids {l : List Cand} (h : (l.map (·.id)).Nodup) (k : Nat) :
    ((l.drop k).map (·.id)).Nodup :=
  List.Nodup.sublist (List.Sublist.map _ (List.drop_sublist k l)) h

theorem take_drop_ids {l : List Cand} (h : (l.map (·.id)).Nodup) (k : Nat)
    {x y : Cand} (hx : x ∈ l.take k) (hy : y ∈ l.drop k) : x.id ≠ y.id := by
  have e : l.map (·.id) = (l.take k).map (·.id) ++ (l.drop k).map (·.id) := by
    rw [← List.map_append, List.take_append_drop]
  rw [e, List.nodup_append] at h
  exact h.2.2 _ (List.mem_map_of_mem hx) _ (List.mem_map_of_mem hy)

theorem mem_take_or_drop {l : List Cand} (k : Nat) {x : Cand} :
    x ∈ l ↔ x ∈ l.take k ∨ x ∈ l.drop k := by
  rw [← List.mem_append, List.take_append_drop]

theorem init_sent (elig : Cand → Bool) (k : Nat) (t : Tbl) (i : Nat) :
    i ∈ (transfer elig k t false {}).sent ↔ ∃ q, q ∈ (t.known.filter elig).take k ∧ q.id = i := by
  rw [transfer_init_eq, send_sent, upd_anns_mem]; simp

theorem init_held (elig : Cand → Bool) (k : Nat) (t : Tbl) (i : Nat) :
    i ∈ (transfer elig k t false {}).held ↔ ∃ q, q ∈ (t.known.filter elig).drop k ∧ q.id = i := by
  rw [transfer_init_eq, send_held, upd_held]
  have := holdBack_nil_snd k (t.known.filter elig) 0 [] i
  simpa using this

theorem init_view {t : Tbl} (hT : TblInv t) (elig : Cand → Bool) (k : Nat) (i m : Nat) :
    (i, m) ∈ (transfer elig k t false {}).view ↔
      ∃ q, q ∈ (t.known.filter elig).take k ∧ q.id = i ∧ q.marker = m := by
  rw [transfer_init_eq, send_anns_view _ _ (take_ids (filt_ids hT elig) k), upd_view]; simp

theorem init_len {t : Tbl} (hT : TblInv t) (elig : Cand → Bool) (k : Nat) :
    (transfer elig k t false {}).sent.length = ((t.known.filter elig).take k).length := by
  rw [transfer_init_eq, send_sent, upd_anns_length _ _ (take_ids (filt_ids hT elig) k)]
  · simp
  · intro q _; simp

theorem init_held_nodup (elig : Cand → Bool) (k : Nat) (t : Tbl) :
    (transfer elig k t false {}).held.Nodup := by
  rw [transfer_init_eq, send_held, upd_held]
  exact holdBack_nodup _ _ _ _ _ List.nodup_nil

theorem init_sent_nodup (elig : Cand → Bool) (k : Nat) (t : Tbl) :
    (transfer elig k t false {}).sent.Nodup := by
  rw [transfer_init_eq, send_sent]
  exact upd_anns_nodup _ _ List.nodup_nil

theorem init_keys (elig : Cand → Bool) (k : Nat) (t : Tbl) :
    ((transfer elig k t false {}).view.map (·.1)).Nodup := by
  rw [transfer_init_eq]
  apply send_anns_keys
  rw [upd_view]; exact List.nodup_nil

/-! ### soft reset out -/

theorem soft_wds_nil {elig : Cand → Bool} {k : Nat} {t : Tbl} {b : Bk} (hT : TblInv t)
    (hb : BkInv elig k t b) :
    (t.known.filter (fun p => !elig p)).filter (fun p => b.sent.contains p.id) = [] := by
  rw [List.filter_eq_nil_iff]
  intro p hp hs
  rw [List.mem_filter] at hp
  have hs' : p.id ∈ b.sent := by simpa using hs
  obtain ⟨x, hx, hid, hel⟩ := (hb.cover p.id).1 (Or.inl hs')
  have := id_inj hT.ids hx hp.1 hid
  subst this
  simp [hel] at hp

theorem soft_holdBack {elig : Cand → Bool} {k : Nat} {t : Tbl} {b : Bk}
    (hb : BkInv elig k t b) :
    holdBack k b.sent (t.known.filter elig) 0 b.held =
      ((t.known.filter elig).filter (fun p => b.sent.contains p.id), b.held) := by
  apply holdBack_soft
  intro p hp
  rw [List.mem_filter] at hp
  rcases (hb.cover p.id).2 ⟨p, hp.1, rfl, hp.2⟩ with h | h
  · exact Or.inl h
  · refine Or.inr ⟨h, ?_⟩
    have : b.held ≠ [] := by intro e; rw [e] at h; cases h
    have := hb.full this
    omega

/-- the paths re-announced by soft reset out: exportable and already advertised -/
def again (elig : Cand → Bool) (t : Tbl) (b : Bk) : List Cand :=
  (t.known.filter elig).filter (fun p => b.sent.contains p.id)

theorem mem_again {elig : Cand → Bool} {t : Tbl} {b : Bk} {q : Cand} :
    q ∈ again elig t b ↔ q ∈ t.known ∧ elig q = true ∧ q.id ∈ b.sent := by
  simp only [again, List.mem_filter, List.contains_iff_mem, and_assoc]

theorem again_ids {t : Tbl} (hT : TblInv t) (elig : Cand → Bool) (b : Bk) :
    ((again elig t b).map (·.id)).Nodup :=
  List.Nodup.sublist (List.Sublist.map _ List.filter_sublist) (filt_ids hT elig)

theorem transfer_soft_eq {elig : Cand → Bool} {k : Nat} {t : Tbl} {b : Bk} (hT : TblInv t)
    (hb : BkInv elig k t b) :
    transfer elig k t true b = send b (anns (again elig t b)) := by
  have e1 := soft_holdBack hb
  have e2 := soft_wds_nil hT hb
  have e3 : upd b (anns (again elig t b)) = b :=
    upd_anns_id b _ (fun q hq => (mem_again.1 hq).2.2)
  show send (upd { b with held := (holdBack k b.sent (t.known.filter elig) 0 b.held).2 }
      (((t.known.filter (fun p => !elig p)).filter (fun p => b.sent.contains p.id)).map (fun q => (q, true))
        ++ (holdBack k b.sent (t.known.filter elig) 0 b.held).1.map (fun q => (q, false))))
      (((t.known.filter (fun p => !elig p)).filter (fun p => b.sent.contains p.id)).map (fun q => (q, true))
        ++ (holdBack k b.sent (t.known.filter elig) 0 b.held).1.map (fun q => (q, false))) = _
  rw [e1, e2]
  show send (upd b (anns (again elig t b))) (anns (again elig t b)) = _
  rw [e3]

theorem soft_view {elig : Cand → Bool} {k : Nat} {t : Tbl} {b : Bk} (hT : TblInv t)
    (hb : BkInv elig k t b) (i m : Nat) :
    (i, m) ∈ (send b (anns (again elig t b))).view ↔ (i, m) ∈ b.view := by
  rw [send_anns_view _ _ (again_ids hT elig b)]
  constructor
  · rintro (⟨q, hq, rfl, rfl⟩ | ⟨h, _⟩)
    · rw [mem_again] at hq
      exact (hb.view _ _).2 ⟨hq.2.2, q, hq.1, rfl, rfl⟩
    · exact h
  · intro h
    obtain ⟨hs, x, hx, hid, hm⟩ := (hb.view i m).1 h
    obtain ⟨y, hy, hyid, hel⟩ := (hb.cover i).1 (Or.inl hs)
    have := id_inj hT.ids hx hy (hid.trans hyid.symm)
    subst this
    exact Or.inl ⟨x, mem_again.2 ⟨hx, hel, hid ▸ hs⟩, hid, hm⟩

end XferAux

open XferAux

/-- the initial table transfer establishes the bookkeeping invariant -/
theorem transfer_init_inv (elig : Cand → Bool) (k : Nat) (t : Tbl) (hT : TblInv t) :
    BkInv elig k t (transfer elig k t false {}) := by
  have hP := filt_ids hT elig
  refine ⟨init_sent_nodup elig k t, init_held_nodup elig k t, ?_, ?_, ?_, ?_, init_keys elig k t, ?_⟩
  · -- disj
    intro i hs hh
    obtain ⟨x, hx, rfl⟩ := (init_sent elig k t i).1 hs
    obtain ⟨y, hy, hxy⟩ := (init_held elig k t _).1 hh
    exact take_drop_ids hP k hx hy hxy.symm
  · -- cover
    intro i
    rw [init_sent, init_held]
    constructor
    · rintro (⟨q, hq, rfl⟩ | ⟨q, hq, rfl⟩)
      · have := List.mem_filter.1 ((mem_take_or_drop k).2 (Or.inl hq))
        exact ⟨q, this.1, rfl, this.2⟩
      · have := List.mem_filter.1 ((mem_take_or_drop k).2 (Or.inr hq))
        exact ⟨q, this.1, rfl, this.2⟩
    · rintro ⟨x, hx, rfl, hel⟩
      rcases (mem_take_or_drop k).1 (List.mem_filter.2 ⟨hx, hel⟩) with h | h
      · exact Or.inl ⟨x, h, rfl⟩
      · exact Or.inr ⟨x, h, rfl⟩
  · -- le
    rw [init_len hT, List.length_take]; omega
  · -- full
    intro hne
    rw [init_len hT, List.length_take]
    obtain ⟨i, hi⟩ := List.exists_mem_of_ne_nil _ hne
    obtain ⟨q, hq, _⟩ := (init_held elig k t i).1 hi
    have : ((t.known.filter elig).drop k).length > 0 := List.length_pos_of_mem hq
    rw [List.length_drop] at this
    omega
  · -- view
    intro i m
    rw [init_view hT, init_sent]
    constructor
    · rintro ⟨q, hq, rfl, rfl⟩
      exact ⟨⟨q, hq, rfl⟩, q, (List.mem_filter.1 ((mem_take_or_drop k).2 (Or.inl hq))).1, rfl, rfl⟩
    · rintro ⟨⟨q, hq, rfl⟩, x, hx, hid, rfl⟩
      have hqk := (List.mem_filter.1 ((mem_take_or_drop k).2 (Or.inl hq))).1
      have := id_inj hT.ids hx hqk hid
      subst this
      exact ⟨x, hq, rfl, rfl⟩

/-- … and advertises the first `k` exportable paths in Loc-RIB order: the k best -/
theorem transfer_init_sent (elig : Cand → Bool) (k : Nat) (t : Tbl) (hT : TblInv t) :
    ∀ i, i ∈ (transfer elig k t false {}).sent ↔ i ∈ ((t.known.filter elig).take k).map (·.id) := by
  intro i
  have _ := hT
  rw [init_sent, List.mem_map]

/-- … and changes neither what is advertised nor what is held back -/
theorem transfer_soft_same (elig : Cand → Bool) (k : Nat) (t : Tbl) (b : Bk) (hT : TblInv t)
    (hb : BkInv elig k t b) :
    (∀ i, i ∈ (transfer elig k t true b).sent ↔ i ∈ b.sent) ∧
    (∀ i, i ∈ (transfer elig k t true b).held ↔ i ∈ b.held) ∧
    (∀ e, e ∈ (transfer elig k t true b).view ↔ e ∈ b.view) := by
  rw [transfer_soft_eq hT hb]
  refine ⟨fun i => by rw [send_sent], fun i => by rw [send_held], ?_⟩
  rintro ⟨i, m⟩
  exact soft_view hT hb i m

/-- soft reset out / ROUTE-REFRESH keeps the invariant … -/
theorem transfer_soft_inv (elig : Cand → Bool) (k : Nat) (t : Tbl) (b : Bk) (hT : TblInv t)
    (hb : BkInv elig k t b) : BkInv elig k t (transfer elig k t true b) := by
  rw [transfer_soft_eq hT hb]
  refine ⟨?_, ?_, ?_, ?_, ?_, ?_, ?_, ?_⟩
  · rw [send_sent]; exact hb.sentNodup
  · rw [send_held]; exact hb.heldNodup
  · rw [send_sent, send_held]; exact hb.disj
  · rw [send_sent, send_held]; exact hb.cover
  · rw [send_sent]; exact hb.le
  · rw [send_sent, send_held]; exact hb.full
  · exact send_anns_keys _ _ hb.viewKeys
  · intro i m
    rw [soft_view hT hb, send_sent]; exact hb.view i m

end AddPathSend
