/- the incremental fan-out of the ADD-PATH send model keeps the bookkeeping invariant -/
import Lemmas.AddPathSendDefs
namespace AddPathSend
open BestPath

namespace FanAux

theorem eq_of_id {l : List Cand} (h : (l.map (·.id)).Nodup) {x y : Cand}
    (hx : x ∈ l) (hy : y ∈ l) (e : x.id = y.id) : x = y := by
  induction l with
  | nil => cases hx
  | cons a l ih =>
    simp only [List.map_cons, List.nodup_cons, List.mem_map, not_exists, not_and] at h
    rcases List.mem_cons.1 hx with hxa | hx'
    · rcases List.mem_cons.1 hy with hya | hy'
      · rw [hxa, hya]
      · subst hxa; exact absurd e.symm (h.1 y hy')
    · rcases List.mem_cons.1 hy with hya | hy'
      · subst hya; exact absurd e (h.1 x hx')
      · exact ih h.2 hx' hy'

theorem mem_ins {i j : Nat} {l : List Nat} : i ∈ ins j l ↔ i = j ∨ i ∈ l := by
  unfold ins
  by_cases h : l.contains j = true
  · rw [if_pos h]
    have : j ∈ l := by simpa using h
    constructor
    · exact Or.inr
    · rintro (rfl | h') <;> assumption
  · rw [if_neg h]; exact List.mem_cons

theorem mem_del {i j : Nat} {l : List Nat} : i ∈ del j l ↔ i ∈ l ∧ i ≠ j := by
  simp [del]

theorem nodup_del {j : Nat} {l : List Nat} (h : l.Nodup) : (del j l).Nodup :=
  List.Nodup.sublist List.filter_sublist h

theorem nodup_ins {j : Nat} {l : List Nat} (h : l.Nodup) : (ins j l).Nodup := by
  unfold ins
  by_cases hc : l.contains j = true
  · rw [if_pos hc]; exact h
  · rw [if_neg hc]
    have : j ∉ l := by simpa using hc
    exact List.nodup_cons.2 ⟨this, h⟩

theorem del_of_not_mem {j : Nat} {l : List Nat} (h : j ∉ l) : del j l = l := by
  unfold del
  apply List.filter_eq_self.2
  intro a ha
  have : a ≠ j := fun e => h (e ▸ ha)
  simpa using this

theorem length_ins {j : Nat} {l : List Nat} (h : j ∉ l) : (ins j l).length = l.length + 1 := by
  unfold ins
  have hc : ¬ l.contains j = true := by simpa using h
  rw [if_neg hc]; rfl

theorem length_del {j : Nat} {l : List Nat} (hn : l.Nodup) (h : j ∈ l) :
    (del j l).length + 1 = l.length := by
  induction l with
  | nil => cases h
  | cons a l ih =>
    have hn' := List.nodup_cons.1 hn
    by_cases e : a = j
    · subst e
      have : del a (a :: l) = del a l := by simp [del]
      rw [this, del_of_not_mem hn'.1]; rfl
    · have hl : j ∈ l := by
        rcases List.mem_cons.1 h with h' | h'
        · exact absurd h'.symm e
        · exact h'
      have : del j (a :: l) = a :: del j l := by simp [del, e]
      rw [this]; simp only [List.length_cons]; rw [ih hn'.2 hl]

theorem promote_zero (elig : Cand → Bool) (known : List Cand) (held : List Nat) :
    promote elig 0 known held = ([], held) := by
  cases known <;> simp [promote]

theorem promote_nil (elig : Cand → Bool) (n : Nat) (held : List Nat) :
    promote elig n [] held = ([], held) := by
  simp [promote]

end FanAux


namespace FanAux

theorem send_wd1 (b : Bk) (c : Cand) (h : List Nat) :
    send (upd { b with held := h } [(c, true)]) [(c, true)] =
      { sent := del c.id b.sent, held := h, view := b.view.filter (fun e => e.1 != c.id) } := rfl

theorem send_wd2 (b : Bk) (c q : Cand) (h : List Nat) :
    send (upd { b with held := h } [(c, true), (q, false)]) [(c, true), (q, false)] =
      { sent := ins q.id (del c.id b.sent), held := h,
        view := (q.id, q.marker) ::
          ((b.view.filter (fun e => e.1 != c.id)).filter (fun e => e.1 != q.id)) } := rfl

theorem send_ann0 (b : Bk) (c : Cand) :
    send b [(c, false)] =
      { b with view := (c.id, c.marker) :: b.view.filter (fun e => e.1 != c.id) } := rfl

theorem send_ann1 (b : Bk) (c : Cand) :
    send (upd b [(c, false)]) [(c, false)] =
      { sent := ins c.id b.sent, held := b.held,
        view := (c.id, c.marker) :: b.view.filter (fun e => e.1 != c.id) } := rfl

theorem keys_filter_nodup {v : List (Nat × Nat)} (h : (v.map (·.1)).Nodup) (p : Nat × Nat → Bool) :
    ((v.filter p).map (·.1)).Nodup :=
  List.Nodup.sublist (List.Sublist.map _ List.filter_sublist) h

theorem keys_cons_nodup {v : List (Nat × Nat)} (h : (v.map (·.1)).Nodup) (i m : Nat) :
    ((((i, m) :: v.filter (fun e => e.1 != i))).map (·.1)).Nodup := by
  rw [List.map_cons]
  refine List.nodup_cons.2 ⟨?_, keys_filter_nodup h _⟩
  intro hm
  rcases List.mem_map.1 hm with ⟨e, he, hei⟩
  have := (List.mem_filter.1 he).2
  simp at this
  exact this hei

theorem mem_view_filter {v : List (Nat × Nat)} {i m j : Nat} :
    (i, m) ∈ v.filter (fun e => e.1 != j) ↔ (i, m) ∈ v ∧ i ≠ j := by
  simp [List.mem_filter]

/-- withdraw `c` (advertised), nothing to promote -/
theorem wdNone (elig : Cand → Bool) (k : Nat) (t t' : Tbl) (b : Bk) (c : Cand)
    (hb : BkInv elig k t b) (hs : c.id ∈ b.sent)
    (hK1 : ∀ y, y ∈ t'.known → y.id ≠ c.id → y ∈ t.known)
    (hK2 : ∀ y, y ∈ t.known → y.id ≠ c.id → y ∈ t'.known)
    (hK3 : ∀ y, y ∈ t'.known → y.id = c.id → elig y = false)
    (hnone : ∀ x, x ∈ t'.known → ¬ (elig x = true ∧ x.id ∈ b.held)) :
    BkInv elig k t' { sent := del c.id b.sent, held := b.held,
                      view := b.view.filter (fun e => e.1 != c.id) } := by
  obtain ⟨sn, hn, disj, cover, le, full, vk, view⟩ := hb
  have hempty : ∀ j, j ∉ b.held := by
    intro j hj
    obtain ⟨x, hx, hxi, hxe⟩ := (cover j).1 (Or.inr hj)
    have hne : x.id ≠ c.id := by
      intro e; exact disj _ hs (by rw [← e, hxi]; exact hj)
    exact hnone x (hK2 x hx hne) ⟨hxe, by rw [hxi]; exact hj⟩
  have hlen := length_del sn hs
  refine ⟨nodup_del sn, hn, ?_, ?_, ?_, ?_, keys_filter_nodup vk _, ?_⟩
  · intro i _; exact hempty i
  · intro i
    simp only [mem_del]
    constructor
    · rintro (⟨hi, hne⟩ | hi)
      · obtain ⟨x, hx, hxi, hxe⟩ := (cover i).1 (Or.inl hi)
        exact ⟨x, hK2 x hx (by rw [hxi]; exact hne), hxi, hxe⟩
      · exact absurd hi (hempty i)
    · rintro ⟨x, hx, hxi, hxe⟩
      have hne : x.id ≠ c.id := by
        intro e; have := hK3 x hx e; rw [hxe] at this; cases this
      rcases (cover i).2 ⟨x, hK1 x hx hne, hxi, hxe⟩ with h | h
      · exact Or.inl ⟨h, by rw [← hxi]; exact hne⟩
      · exact absurd h (hempty i)
  · show (del c.id b.sent).length ≤ k
    omega
  · intro hne
    exfalso
    cases hh : b.held with
    | nil => exact hne hh
    | cons a l => exact hempty a (by rw [hh]; exact List.mem_cons_self)
  · intro i m
    show (i, m) ∈ b.view.filter (fun e => e.1 != c.id) ↔ _
    rw [mem_view_filter, view i m, mem_del]
    constructor
    · rintro ⟨⟨hi, x, hx, hxi, hxm⟩, hne⟩
      exact ⟨⟨hi, hne⟩, x, hK2 x hx (by rw [hxi]; exact hne), hxi, hxm⟩
    · rintro ⟨⟨hi, hne⟩, x, hx, hxi, hxm⟩
      exact ⟨⟨hi, x, hK1 x hx (by rw [hxi]; exact hne), hxi, hxm⟩, hne⟩

end FanAux

theorem promote_one (elig : Cand → Bool) (known : List Cand) (held : List Nat) :
    promote elig 1 known held =
      match known.find? (fun p => elig p && held.contains p.id) with
      | some q => ([q], del q.id held)
      | none => ([], held) := by
  induction known with
  | nil => simp [promote]
  | cons p rest ih =>
    have e1 : promote elig 1 (p :: rest) held =
        if (elig p && held.contains p.id) = true then
          (p :: (promote elig 0 rest (del p.id held)).1, (promote elig 0 rest (del p.id held)).2)
        else promote elig 1 rest held := rfl
    rw [e1, List.find?_cons]
    by_cases hc : (elig p && held.contains p.id) = true
    · rw [if_pos hc, hc, FanAux.promote_zero]
    · rw [if_neg hc, ih]
      have hf : (elig p && held.contains p.id) = false := by simpa using hc
      rw [hf]


namespace FanAux

/-- withdraw `c` (advertised), promote `q` -/
theorem wdSome (elig : Cand → Bool) (k : Nat) (t t' : Tbl) (b : Bk) (c q : Cand)
    (hb : BkInv elig k t b) (hids : (t'.known.map (·.id)).Nodup) (hs : c.id ∈ b.sent)
    (hK1 : ∀ y, y ∈ t'.known → y.id ≠ c.id → y ∈ t.known)
    (hK2 : ∀ y, y ∈ t.known → y.id ≠ c.id → y ∈ t'.known)
    (hK3 : ∀ y, y ∈ t'.known → y.id = c.id → elig y = false)
    (hq : q ∈ t'.known) (hqe : elig q = true) (hqh : q.id ∈ b.held) :
    BkInv elig k t' { sent := ins q.id (del c.id b.sent), held := del q.id b.held,
                      view := (q.id, q.marker) ::
                        ((b.view.filter (fun e => e.1 != c.id)).filter (fun e => e.1 != q.id)) } := by
  obtain ⟨sn, hn, disj, cover, le, full, vk, view⟩ := hb
  have hqc : q.id ≠ c.id := by
    intro e; exact disj _ hs (e ▸ hqh)
  have hqs : q.id ∉ b.sent := fun h => disj _ h hqh
  have hqd : q.id ∉ del c.id b.sent := fun h => hqs (mem_del.1 h).1
  have hlen := length_del sn hs
  have hlen2 := length_ins hqd
  have hk : b.sent.length = k := full (by intro e; rw [e] at hqh; cases hqh)
  refine ⟨nodup_ins (nodup_del sn), nodup_del hn, ?_, ?_, ?_, ?_,
    keys_cons_nodup (keys_filter_nodup vk _) _ _, ?_⟩
  · intro i
    simp only [mem_ins, mem_del]
    rintro (rfl | ⟨hi, _⟩)
    · intro h; exact h.2 rfl
    · intro h; exact disj i hi h.1
  · intro i
    simp only [mem_ins, mem_del]
    constructor
    · rintro ((rfl | ⟨hi, hne⟩) | ⟨hi, _⟩)
      · exact ⟨q, hq, rfl, hqe⟩
      · obtain ⟨x, hx, hxi, hxe⟩ := (cover i).1 (Or.inl hi)
        exact ⟨x, hK2 x hx (by rw [hxi]; exact hne), hxi, hxe⟩
      · obtain ⟨x, hx, hxi, hxe⟩ := (cover i).1 (Or.inr hi)
        have hne : i ≠ c.id := fun e => disj _ hs (e ▸ hi)
        exact ⟨x, hK2 x hx (by rw [hxi]; exact hne), hxi, hxe⟩
    · rintro ⟨x, hx, hxi, hxe⟩
      have hne : x.id ≠ c.id := by
        intro e; have := hK3 x hx e; rw [hxe] at this; cases this
      by_cases hiq : i = q.id
      · exact Or.inl (Or.inl hiq)
      · rcases (cover i).2 ⟨x, hK1 x hx hne, hxi, hxe⟩ with h | h
        · exact Or.inl (Or.inr ⟨h, by rw [← hxi]; exact hne⟩)
        · exact Or.inr ⟨h, hiq⟩
  · show (ins q.id (del c.id b.sent)).length ≤ k
    omega
  · intro _
    show (ins q.id (del c.id b.sent)).length = k
    omega
  · intro i m
    show (i, m) ∈ (q.id, q.marker) ::
      ((b.view.filter (fun e => e.1 != c.id)).filter (fun e => e.1 != q.id)) ↔ _
    rw [List.mem_cons, mem_view_filter, mem_view_filter, view i m, mem_ins, mem_del]
    constructor
    · rintro (e | ⟨⟨⟨hi, x, hx, hxi, hxm⟩, hne⟩, hnq⟩)
      · have e1 : i = q.id := congrArg Prod.fst e
        have e2 : m = q.marker := congrArg Prod.snd e
        exact ⟨Or.inl e1, q, hq, e1.symm, e2.symm⟩
      · exact ⟨Or.inr ⟨hi, hne⟩, x, hK2 x hx (by rw [hxi]; exact hne), hxi, hxm⟩
    · rintro ⟨hi | ⟨hi, hne⟩, x, hx, hxi, hxm⟩
      · left
        have : x = q := eq_of_id hids hx hq (by rw [hxi, hi])
        rw [hi, ← hxm, this]
      · right
        have hnq : i ≠ q.id := fun e => hqs (e ▸ hi)
        exact ⟨⟨⟨hi, x, hK1 x hx (by rw [hxi]; exact hne), hxi, hxm⟩, hne⟩, hnq⟩

/-- the "withdraw `c` and promote one held-back path" step shared by `fanAnn` and `fanWd` -/
theorem wdPromote (elig : Cand → Bool) (k : Nat) (t t' : Tbl) (b : Bk) (c : Cand)
    (hb : BkInv elig k t b) (hids : (t'.known.map (·.id)).Nodup) (hs : c.id ∈ b.sent)
    (hK1 : ∀ y, y ∈ t'.known → y.id ≠ c.id → y ∈ t.known)
    (hK2 : ∀ y, y ∈ t.known → y.id ≠ c.id → y ∈ t'.known)
    (hK3 : ∀ y, y ∈ t'.known → y.id = c.id → elig y = false) :
    BkInv elig k t'
      (send (upd { b with held := (promote elig 1 t'.known b.held).2 }
              ((c, true) :: (promote elig 1 t'.known b.held).1.map (fun q => (q, false))))
            ((c, true) :: (promote elig 1 t'.known b.held).1.map (fun q => (q, false)))) := by
  rw [promote_one]
  cases hf : t'.known.find? (fun p => elig p && b.held.contains p.id) with
  | none =>
    show BkInv elig k t' (send (upd { b with held := b.held } [(c, true)]) [(c, true)])
    rw [send_wd1]
    refine wdNone elig k t t' b c hb hs hK1 hK2 hK3 ?_
    intro x hx hh
    have := List.find?_eq_none.1 hf x hx
    apply this
    simp [hh.1, hh.2]
  | some q =>
    show BkInv elig k t' (send (upd { b with held := del q.id b.held } [(c, true), (q, false)])
      [(c, true), (q, false)])
    rw [send_wd2]
    have hq := List.mem_of_find?_eq_some hf
    have hp := List.find?_some hf
    simp only [Bool.and_eq_true, List.contains_iff_mem] at hp
    exact wdSome elig k t t' b c q hb hids hs hK1 hK2 hK3 hq hp.1 hp.2

end FanAux


namespace FanAux

/-- the identifier `i0` leaves the exportable set without having been advertised -/
theorem heldDel (elig : Cand → Bool) (k : Nat) (t t' : Tbl) (b : Bk) (i0 : Nat)
    (hb : BkInv elig k t b) (hs : i0 ∉ b.sent)
    (hK1 : ∀ y, y ∈ t'.known → y.id ≠ i0 → y ∈ t.known)
    (hK2 : ∀ y, y ∈ t.known → y.id ≠ i0 → y ∈ t'.known)
    (hK3 : ∀ y, y ∈ t'.known → y.id = i0 → elig y = false) :
    BkInv elig k t' { b with held := del i0 b.held } := by
  obtain ⟨sn, hn, disj, cover, le, full, vk, view⟩ := hb
  refine ⟨sn, nodup_del hn, ?_, ?_, le, ?_, vk, ?_⟩
  · intro i hi h
    exact disj i hi (mem_del.1 h).1
  · intro i
    simp only [mem_del]
    constructor
    · rintro (hi | ⟨hi, hne⟩)
      · obtain ⟨x, hx, hxi, hxe⟩ := (cover i).1 (Or.inl hi)
        have hne : i ≠ i0 := fun e => hs (e ▸ hi)
        exact ⟨x, hK2 x hx (by rw [hxi]; exact hne), hxi, hxe⟩
      · obtain ⟨x, hx, hxi, hxe⟩ := (cover i).1 (Or.inr hi)
        exact ⟨x, hK2 x hx (by rw [hxi]; exact hne), hxi, hxe⟩
    · rintro ⟨x, hx, hxi, hxe⟩
      have hne : x.id ≠ i0 := by
        intro e; have := hK3 x hx e; rw [hxe] at this; cases this
      rcases (cover i).2 ⟨x, hK1 x hx hne, hxi, hxe⟩ with h | h
      · exact Or.inl h
      · exact Or.inr ⟨h, by rw [← hxi]; exact hne⟩
  · intro hne
    apply full
    intro e
    apply hne
    show del i0 b.held = []
    rw [e]; rfl
  · intro i m
    show (i, m) ∈ b.view ↔ _
    rw [view i m]
    constructor
    · rintro ⟨hi, x, hx, hxi, hxm⟩
      have hne : i ≠ i0 := fun e => hs (e ▸ hi)
      exact ⟨hi, x, hK2 x hx (by rw [hxi]; exact hne), hxi, hxm⟩
    · rintro ⟨hi, x, hx, hxi, hxm⟩
      have hne : i ≠ i0 := fun e => hs (e ▸ hi)
      exact ⟨hi, x, hK1 x hx (by rw [hxi]; exact hne), hxi, hxm⟩

/-- an exportable announcement whose identifier had been advertised: the route is replaced -/
theorem annReplace (elig : Cand → Bool) (k : Nat) (t t' : Tbl) (b : Bk) (np : Cand)
    (hb : BkInv elig k t b) (hs : np.id ∈ b.sent) (he : elig np = true)
    (hmem : ∀ y, y ∈ t'.known ↔ (y = np ∨ (y ∈ t.known ∧ y.id ≠ np.id))) :
    BkInv elig k t' { b with view := (np.id, np.marker) :: b.view.filter (fun e => e.1 != np.id) } := by
  obtain ⟨sn, hn, disj, cover, le, full, vk, view⟩ := hb
  refine ⟨sn, hn, disj, ?_, le, full, keys_cons_nodup vk _ _, ?_⟩
  · intro i
    show (i ∈ b.sent ∨ i ∈ b.held) ↔ _
    constructor
    · intro h
      by_cases hi : i = np.id
      · exact ⟨np, (hmem np).2 (Or.inl rfl), hi.symm, he⟩
      · obtain ⟨x, hx, hxi, hxe⟩ := (cover i).1 h
        exact ⟨x, (hmem x).2 (Or.inr ⟨hx, by rw [hxi]; exact hi⟩), hxi, hxe⟩
    · rintro ⟨x, hx, hxi, hxe⟩
      rcases (hmem x).1 hx with e | ⟨hx', _⟩
      · left; rw [← hxi, e]; exact hs
      · exact (cover i).2 ⟨x, hx', hxi, hxe⟩
  · intro i m
    show (i, m) ∈ (np.id, np.marker) :: b.view.filter (fun e => e.1 != np.id) ↔ (i ∈ b.sent ∧ _)
    rw [List.mem_cons, mem_view_filter, view i m]
    constructor
    · rintro (e | ⟨⟨hi, x, hx, hxi, hxm⟩, hne⟩)
      · have e1 : i = np.id := congrArg Prod.fst e
        have e2 : m = np.marker := congrArg Prod.snd e
        exact ⟨e1 ▸ hs, np, (hmem np).2 (Or.inl rfl), e1.symm, e2.symm⟩
      · exact ⟨hi, x, (hmem x).2 (Or.inr ⟨hx, by rw [hxi]; exact hne⟩), hxi, hxm⟩
    · rintro ⟨hi, x, hx, hxi, hxm⟩
      rcases (hmem x).1 hx with e | ⟨hx', hne⟩
      · left; rw [← hxi, ← hxm, e]
      · right; exact ⟨⟨hi, x, hx', hxi, hxm⟩, by rw [← hxi]; exact hne⟩

/-- an exportable announcement with a free slot -/
theorem annNew (elig : Cand → Bool) (k : Nat) (t t' : Tbl) (b : Bk) (np : Cand)
    (hb : BkInv elig k t b) (hs : np.id ∉ b.sent) (he : elig np = true) (hlt : b.sent.length < k)
    (hmem : ∀ y, y ∈ t'.known ↔ (y = np ∨ (y ∈ t.known ∧ y.id ≠ np.id))) :
    BkInv elig k t' { sent := ins np.id b.sent, held := b.held,
                      view := (np.id, np.marker) :: b.view.filter (fun e => e.1 != np.id) } := by
  obtain ⟨sn, hn, disj, cover, le, full, vk, view⟩ := hb
  have hempty : b.held = [] := by
    cases hh : b.held with
    | nil => rfl
    | cons a l =>
      have := full (by rw [hh]; exact List.cons_ne_nil _ _)
      omega
  have hlen := length_ins hs
  refine ⟨nodup_ins sn, hn, ?_, ?_, ?_, ?_, keys_cons_nodup vk _ _, ?_⟩
  · intro i _ h
    have h' : i ∈ b.held := h
    rw [hempty] at h'
    cases h'
  · intro i
    show (i ∈ ins np.id b.sent ∨ i ∈ b.held) ↔ _
    rw [mem_ins]
    constructor
    · intro h
      by_cases hi : i = np.id
      · exact ⟨np, (hmem np).2 (Or.inl rfl), hi.symm, he⟩
      · have h' : i ∈ b.sent ∨ i ∈ b.held := by
          rcases h with (h | h) | h
          · exact absurd h hi
          · exact Or.inl h
          · exact Or.inr h
        obtain ⟨x, hx, hxi, hxe⟩ := (cover i).1 h'
        exact ⟨x, (hmem x).2 (Or.inr ⟨hx, by rw [hxi]; exact hi⟩), hxi, hxe⟩
    · rintro ⟨x, hx, hxi, hxe⟩
      rcases (hmem x).1 hx with e | ⟨hx', _⟩
      · left; left; rw [← hxi, e]
      · rcases (cover i).2 ⟨x, hx', hxi, hxe⟩ with h | h
        · exact Or.inl (Or.inr h)
        · exact Or.inr h
  · show (ins np.id b.sent).length ≤ k
    omega
  · intro hne
    exact absurd hempty hne
  · intro i m
    show (i, m) ∈ (np.id, np.marker) :: b.view.filter (fun e => e.1 != np.id) ↔
      (i ∈ ins np.id b.sent ∧ _)
    rw [List.mem_cons, mem_view_filter, view i m, mem_ins]
    constructor
    · rintro (e | ⟨⟨hi, x, hx, hxi, hxm⟩, hne⟩)
      · have e1 : i = np.id := congrArg Prod.fst e
        have e2 : m = np.marker := congrArg Prod.snd e
        exact ⟨Or.inl e1, np, (hmem np).2 (Or.inl rfl), e1.symm, e2.symm⟩
      · exact ⟨Or.inr hi, x, (hmem x).2 (Or.inr ⟨hx, by rw [hxi]; exact hne⟩), hxi, hxm⟩
    · rintro ⟨hi, x, hx, hxi, hxm⟩
      rcases (hmem x).1 hx with e | ⟨hx', hne⟩
      · left; rw [← hxi, ← hxm, e]
      · right
        have hne' : i ≠ np.id := by rw [← hxi]; exact hne
        rcases hi with hi | hi
        · exact absurd hi hne'
        · exact ⟨⟨hi, x, hx', hxi, hxm⟩, hne'⟩

/-- an exportable announcement beyond send-max: marked held back -/
theorem annHeld (elig : Cand → Bool) (k : Nat) (t t' : Tbl) (b : Bk) (np : Cand)
    (hb : BkInv elig k t b) (hs : np.id ∉ b.sent) (he : elig np = true) (hge : ¬ b.sent.length < k)
    (hmem : ∀ y, y ∈ t'.known ↔ (y = np ∨ (y ∈ t.known ∧ y.id ≠ np.id))) :
    BkInv elig k t' { b with held := ins np.id b.held } := by
  obtain ⟨sn, hn, disj, cover, le, full, vk, view⟩ := hb
  refine ⟨sn, nodup_ins hn, ?_, ?_, le, ?_, vk, ?_⟩
  · intro i hi h
    rcases mem_ins.1 h with e | h
    · exact hs (e ▸ hi)
    · exact disj i hi h
  · intro i
    show (i ∈ b.sent ∨ i ∈ ins np.id b.held) ↔ _
    rw [mem_ins]
    constructor
    · intro h
      by_cases hi : i = np.id
      · exact ⟨np, (hmem np).2 (Or.inl rfl), hi.symm, he⟩
      · have h' : i ∈ b.sent ∨ i ∈ b.held := by
          rcases h with h | h | h
          · exact Or.inl h
          · exact absurd h hi
          · exact Or.inr h
        obtain ⟨x, hx, hxi, hxe⟩ := (cover i).1 h'
        exact ⟨x, (hmem x).2 (Or.inr ⟨hx, by rw [hxi]; exact hi⟩), hxi, hxe⟩
    · rintro ⟨x, hx, hxi, hxe⟩
      rcases (hmem x).1 hx with e | ⟨hx', _⟩
      · right; left; rw [← hxi, e]
      · rcases (cover i).2 ⟨x, hx', hxi, hxe⟩ with h | h
        · exact Or.inl h
        · exact Or.inr (Or.inr h)
  · intro _
    show b.sent.length = k
    omega
  · intro i m
    show (i, m) ∈ b.view ↔ _
    rw [view i m]
    constructor
    · rintro ⟨hi, x, hx, hxi, hxm⟩
      have hne : i ≠ np.id := fun e => hs (e ▸ hi)
      exact ⟨hi, x, (hmem x).2 (Or.inr ⟨hx, by rw [hxi]; exact hne⟩), hxi, hxm⟩
    · rintro ⟨hi, x, hx, hxi, hxm⟩
      have hne : i ≠ np.id := fun e => hs (e ▸ hi)
      rcases (hmem x).1 hx with e | ⟨hx', _⟩
      · exact absurd (by rw [← hxi, e]) hne
      · exact ⟨hi, x, hx', hxi, hxm⟩

end FanAux

/-- an announcement / implicit replacement -/
theorem fanAnn_inv (elig : Cand → Bool) (k : Nat) (t : Tbl) (r : TRes) (np : Cand) (b : Bk)
    (hT : TblInv t) (hb : BkInv elig k t b) (hT' : TblInv r.tbl) (hnp : r.newPath = some np)
    (hmem : ∀ y, y ∈ r.tbl.known ↔ (y = np ∨ (y ∈ t.known ∧ y.id ≠ np.id))) :
    BkInv elig k r.tbl (fanAnn elig k r b) := by
  have _ := hT
  have hK1 : ∀ y, y ∈ r.tbl.known → y.id ≠ np.id → y ∈ t.known := by
    intro y hy hne
    rcases (hmem y).1 hy with e | h
    · exact absurd (by rw [e]) hne
    · exact h.1
  have hK2 : ∀ y, y ∈ t.known → y.id ≠ np.id → y ∈ r.tbl.known :=
    fun y hy hne => (hmem y).2 (Or.inr ⟨hy, hne⟩)
  unfold fanAnn
  rw [hnp]
  show BkInv elig k r.tbl
    (if (!elig np) = true then
      if b.sent.contains np.id = true then
        send (upd { b with held := (promote elig 1 r.tbl.known b.held).2 }
              ((np, true) :: (promote elig 1 r.tbl.known b.held).1.map (fun q => (q, false))))
            ((np, true) :: (promote elig 1 r.tbl.known b.held).1.map (fun q => (q, false)))
      else { b with held := del np.id b.held }
    else if (b.sent.contains np.id || decide (b.sent.length < k)) = true then
      send (if b.sent.contains np.id = true then b else upd b [(np, false)]) [(np, false)]
    else { b with held := ins np.id b.held })
  by_cases he : elig np = true
  · have he' : ¬ (!elig np) = true := by simp [he]
    rw [if_neg he']
    by_cases hs : np.id ∈ b.sent
    · have hc : b.sent.contains np.id = true := by simpa using hs
      rw [hc, Bool.true_or, if_pos rfl, if_pos rfl, FanAux.send_ann0]
      exact FanAux.annReplace elig k t r.tbl b np hb hs he hmem
    · have hc : b.sent.contains np.id = false := by simpa using hs
      rw [hc, Bool.false_or]
      by_cases hlt : b.sent.length < k
      · rw [if_pos (by simpa using hlt), if_neg (by simp), FanAux.send_ann1]
        exact FanAux.annNew elig k t r.tbl b np hb hs he hlt hmem
      · rw [if_neg (by simpa using hlt)]
        exact FanAux.annHeld elig k t r.tbl b np hb hs he hlt hmem
  · have hef : elig np = false := by simpa using he
    have he' : (!elig np) = true := by simp [hef]
    have hK3 : ∀ y, y ∈ r.tbl.known → y.id = np.id → elig y = false := by
      intro y hy e
      rcases (hmem y).1 hy with e' | h
      · rw [e']; exact hef
      · exact absurd e h.2
    rw [if_pos he']
    by_cases hs : np.id ∈ b.sent
    · have hc : b.sent.contains np.id = true := by simpa using hs
      rw [if_pos hc]
      exact FanAux.wdPromote elig k t r.tbl b np hb hT'.ids hs hK1 hK2 hK3
    · have hc : ¬ b.sent.contains np.id = true := by simpa using hs
      rw [if_neg hc]
      exact FanAux.heldDel elig k t r.tbl b np.id hb hs hK1 hK2 hK3


/-- a withdrawal that removed the path `p` -/
theorem fanWd_inv (elig : Cand → Bool) (k : Nat) (t : Tbl) (r : TRes) (p : Cand) (b : Bk)
    (hT : TblInv t) (hb : BkInv elig k t b) (hT' : TblInv r.tbl) (hg : r.gone = some p)
    (hp : p ∈ t.known) (hmem : ∀ y, y ∈ r.tbl.known ↔ (y ∈ t.known ∧ y.id ≠ p.id)) :
    BkInv elig k r.tbl (fanWd elig r b) := by
  have hK1 : ∀ y, y ∈ r.tbl.known → y.id ≠ p.id → y ∈ t.known :=
    fun y hy _ => ((hmem y).1 hy).1
  have hK2 : ∀ y, y ∈ t.known → y.id ≠ p.id → y ∈ r.tbl.known :=
    fun y hy hne => (hmem y).2 ⟨hy, hne⟩
  have hK3 : ∀ y, y ∈ r.tbl.known → y.id = p.id → elig y = false :=
    fun y hy e => absurd e ((hmem y).1 hy).2
  unfold fanWd
  rw [hg]
  show BkInv elig k r.tbl
    (if (!elig p) = true then b
     else if b.held.contains p.id = true then { b with held := del p.id b.held }
     else if (!b.sent.contains p.id) = true then b
     else
      send (upd { b with held :=
                (if r.tbl.known.isEmpty = true then ([], b.held)
                 else promote elig 1 r.tbl.known b.held).2 }
              ((p, true) :: (if r.tbl.known.isEmpty = true then ([], b.held)
                 else promote elig 1 r.tbl.known b.held).1.map (fun q => (q, false))))
            ((p, true) :: (if r.tbl.known.isEmpty = true then ([], b.held)
                 else promote elig 1 r.tbl.known b.held).1.map (fun q => (q, false))))
  by_cases he : elig p = true
  · have he' : ¬ (!elig p) = true := by simp [he]
    rw [if_neg he']
    by_cases hh : p.id ∈ b.held
    · have hc : b.held.contains p.id = true := by simpa using hh
      rw [if_pos hc]
      have hs : p.id ∉ b.sent := fun h => hb.disj _ h hh
      exact FanAux.heldDel elig k t r.tbl b p.id hb hs hK1 hK2 hK3
    · have hc : ¬ b.held.contains p.id = true := by simpa using hh
      rw [if_neg hc]
      have hs : p.id ∈ b.sent := by
        rcases (hb.cover p.id).2 ⟨p, hp, rfl, he⟩ with h | h
        · exact h
        · exact absurd h hh
      have hc2 : ¬ (!b.sent.contains p.id) = true := by simpa using hs
      rw [if_neg hc2]
      have hpr : (if r.tbl.known.isEmpty = true then (([] : List Cand), b.held)
          else promote elig 1 r.tbl.known b.held) = promote elig 1 r.tbl.known b.held := by
        by_cases hemp : r.tbl.known.isEmpty = true
        · rw [if_pos hemp]
          have : r.tbl.known = [] := by simpa using hemp
          rw [this, FanAux.promote_nil]
        · rw [if_neg hemp]
      rw [hpr]
      exact FanAux.wdPromote elig k t r.tbl b p hb hT'.ids hs hK1 hK2 hK3
  · have hef : elig p = false := by simpa using he
    have he' : (!elig p) = true := by simp [hef]
    rw [if_pos he']
    have hnot : ∀ i, (i ∈ b.sent ∨ i ∈ b.held) → i ≠ p.id := by
      intro i hi e
      obtain ⟨x, hx, hxi, hxe⟩ := (hb.cover i).1 hi
      have : x = p := FanAux.eq_of_id hT.ids hx hp (by rw [hxi, e])
      rw [this, hef] at hxe
      cases hxe
    have hs : p.id ∉ b.sent := fun h => hnot _ (Or.inl h) rfl
    have hh : p.id ∉ b.held := fun h => hnot _ (Or.inr h) rfl
    have := FanAux.heldDel elig k t r.tbl b p.id hb hs hK1 hK2 hK3
    rw [FanAux.del_of_not_mem hh] at this
    exact this

theorem fanWd_none (elig : Cand → Bool) (r : TRes) (b : Bk) (hg : r.gone = none) :
    fanWd elig r b = b := by
  simp [fanWd, hg]

end AddPathSend
