/- table side of the ADD-PATH send model: local identifiers through destination.Calculate -/
import Lemmas.AddPathSendDefs
namespace AddPathSend
open BestPath

namespace TblAux

/-! ### firstFree -/

theorem filt_le (used : List Nat) (n : Nat) :
    (used.filter (fun m => decide (n + 1 ≤ m))).length ≤
      (used.filter (fun m => decide (n ≤ m))).length := by
  induction used with
  | nil => simp
  | cons a rest ih =>
    simp only [List.filter_cons]
    by_cases h1 : n + 1 ≤ a
    · have h2 : n ≤ a := by omega
      simp only [h1, h2, decide_true, if_true, List.length_cons]
      omega
    · by_cases h2 : n ≤ a
      · simp only [h1, h2, decide_true, decide_false, if_true, List.length_cons]
        simp only [Bool.false_eq_true, if_false]
        omega
      · simp only [h1, h2, decide_false, Bool.false_eq_true, if_false]
        exact ih

theorem filt_lt (used : List Nat) (n : Nat) (h : n ∈ used) :
    (used.filter (fun m => decide (n + 1 ≤ m))).length <
      (used.filter (fun m => decide (n ≤ m))).length := by
  induction used with
  | nil => cases h
  | cons a rest ih =>
    simp only [List.filter_cons]
    by_cases ha : a = n
    · subst ha
      have h1 : ¬ (a + 1 ≤ a) := by omega
      have h2 : a ≤ a := Nat.le_refl a
      simp only [h1, h2, decide_true, decide_false, if_true, List.length_cons]
      simp only [Bool.false_eq_true, if_false]
      have := filt_le rest a
      omega
    · have hr : n ∈ rest := by
        rcases List.mem_cons.mp h with h | h
        · exact absurd h.symm ha
        · exact h
      have ih := ih hr
      by_cases h1 : n + 1 ≤ a
      · have h2 : n ≤ a := by omega
        simp only [h1, h2, decide_true, if_true, List.length_cons]
        omega
      · by_cases h2 : n ≤ a
        · simp only [h1, h2, decide_true, decide_false, if_true, List.length_cons]
          simp only [Bool.false_eq_true, if_false]
          omega
        · simp only [h1, h2, decide_false, Bool.false_eq_true, if_false]
          exact ih

theorem firstFree_spec (used : List Nat) : ∀ (fuel n : Nat),
    (used.filter (fun m => decide (n ≤ m))).length < fuel →
      firstFree used fuel n ∉ used ∧ n ≤ firstFree used fuel n
  | 0, n, h => by omega
  | fuel + 1, n, h => by
    unfold firstFree
    by_cases hm : n ∈ used
    · have hc : used.contains n = true := by simpa using hm
      rw [if_pos hc]
      have hlt := filt_lt used n hm
      have ih := firstFree_spec used fuel (n + 1) (by omega)
      exact ⟨ih.1, by omega⟩
    · have hc : ¬ (used.contains n = true) := by simpa using hm
      rw [if_neg hc]
      exact ⟨hm, Nat.le_refl n⟩

/-! ### uniqueness by key and by identifier -/

theorem key_inj : ∀ (l : List Cand), NodupKey l → ∀ x y, x ∈ l → y ∈ l → sameKey x y = true → x = y
  | [], _, _, _, hx, _, _ => by cases hx
  | a :: rest, h, x, y, hx, hy, hk => by
    unfold NodupKey at h
    rw [List.pairwise_cons] at h
    rcases List.mem_cons.mp hx with ex | mx
    · rcases List.mem_cons.mp hy with ey | my
      · rw [ex, ey]
      · have := h.1 y my
        rw [← ex, hk] at this; cases this
    · rcases List.mem_cons.mp hy with ey | my
      · have := h.1 x mx
        rw [← ey, sameKey_symm, hk] at this; cases this
      · exact key_inj rest h.2 x y mx my hk

theorem id_inj : ∀ (l : List Cand), (l.map (·.id)).Nodup → ∀ x y, x ∈ l → y ∈ l → x.id = y.id → x = y
  | [], _, _, _, hx, _, _ => by cases hx
  | a :: rest, h, x, y, hx, hy, hk => by
    rw [List.map_cons, List.nodup_cons] at h
    rcases List.mem_cons.mp hx with ex | mx
    · rcases List.mem_cons.mp hy with ey | my
      · rw [ex, ey]
      · exact absurd (List.mem_map.mpr ⟨y, my, by rw [← hk, ex]⟩) h.1
    · rcases List.mem_cons.mp hy with ey | my
      · exact absurd (List.mem_map.mpr ⟨x, mx, by rw [hk, ey]⟩) h.1
      · exact id_inj rest h.2 x y mx my hk

theorem nodup_ids_iff (l : List Cand) :
    (l.map (·.id)).Nodup ↔ l.Pairwise (fun a b => a.id ≠ b.id) := by
  unfold List.Nodup
  rw [List.pairwise_map]

theorem nodup_ids_filter (l : List Cand) (p : Cand → Bool) (h : (l.map (·.id)).Nodup) :
    ((l.filter p).map (·.id)).Nodup := by
  rw [nodup_ids_iff] at *
  exact List.Pairwise.sublist List.filter_sublist h

/-! ### announcement -/

def inh (t : Tbl) (c : Cand) : Nat :=
  match firstMatch t.known c with | some old => old.id | none => 0

def nid (t : Tbl) (c : Cand) : Nat := if inh t c != 0 then inh t c else fresh t.used

def usedAnn (t : Tbl) (c : Cand) : List Nat :=
  if inh t c != 0 then t.used else nid t c :: t.used

theorem tblStep_ann_eq (o : Opts) (t : Tbl) (c : Cand) :
    tblStep o t (.ann c) =
      { tbl := { known := calcStep o t.known (.ann { c with id := nid t c }),
                 used := usedAnn t c },
        newPath := some { c with id := nid t c } } := rfl

theorem fresh_spec' (used : List Nat) : fresh used ∉ used ∧ fresh used ≠ 0 := by
  unfold fresh
  have hb : (used.filter (fun m => decide (1 ≤ m))).length < used.length + 1 := by
    have := List.length_filter_le (fun m => decide (1 ≤ m)) used
    omega
  have := firstFree_spec used (used.length + 1) 1 hb
  exact ⟨this.1, by omega⟩

/-- the facts about the identifier an announcement gets -/
theorem nid_facts (t : Tbl) (c : Cand) (h : TblInv t) :
    nid t c ≠ 0 ∧
    (∀ x, x ∈ t.known → sameKey c x = true → nid t c = x.id) ∧
    (∀ y, y ∈ t.known → sameKey c y = false → y.id ≠ nid t c) ∧
    nid t c ∈ usedAnn t c ∧ (∀ i, i ∈ t.used → i ∈ usedAnn t c) := by
  cases hf : firstMatch t.known c with
  | some old =>
    have hf' : t.known.find? (fun y => sameKey c y) = some old := hf
    have hold : old ∈ t.known := List.mem_of_find?_eq_some hf'
    have hk : sameKey c old = true := List.find?_some hf'
    have hinh : inh t c = old.id := by unfold inh; rw [hf]
    have hnz : old.id ≠ 0 := h.nz old hold
    have hb : (old.id != 0) = true := by simpa using hnz
    have hnid : nid t c = old.id := by unfold nid; rw [hinh, if_pos hb]
    have hu : usedAnn t c = t.used := by unfold usedAnn; rw [hinh, if_pos hb]
    rw [hnid, hu]
    refine ⟨hnz, ?_, ?_, h.used old hold, fun i hi => hi⟩
    · intro x hx hcx
      have : sameKey old x = true :=
        sameKey_trans old c x (by rw [sameKey_symm]; exact hk) hcx
      rw [key_inj t.known h.key old x hold hx this]
    · intro y hy hcy hid
      have : y = old := id_inj t.known h.ids y old hy hold hid
      subst this
      rw [hk] at hcy; cases hcy
  | none =>
    have hf' : t.known.find? (fun y => sameKey c y) = none := hf
    have hall : ∀ x, x ∈ t.known → sameKey c x = false := by
      intro x hx
      have := List.find?_eq_none.mp hf' x hx
      simpa using this
    have hinh : inh t c = 0 := by unfold inh; rw [hf]
    have hb : ¬ ((0 != 0) = true) := by simp
    have hnid : nid t c = fresh t.used := by unfold nid; rw [hinh, if_neg hb]
    have hu : usedAnn t c = fresh t.used :: t.used := by
      unfold usedAnn; rw [hinh, if_neg hb, hnid]
    have hfr := fresh_spec' t.used
    rw [hnid, hu]
    refine ⟨hfr.2, ?_, ?_, List.mem_cons_self, fun i hi => List.mem_cons_of_mem _ hi⟩
    · intro x hx hcx
      rw [hall x hx] at hcx; cases hcx
    · intro y hy _ hid
      exact hfr.1 (hid ▸ h.used y hy)

theorem ann_core (o : Opts) (t : Tbl) (c : Cand) (n : Nat) (u : List Nat) (h : TblInv t)
    (hnz : n ≠ 0)
    (hyes : ∀ x, x ∈ t.known → sameKey c x = true → n = x.id)
    (hno : ∀ y, y ∈ t.known → sameKey c y = false → y.id ≠ n)
    (hu1 : n ∈ u) (hu2 : ∀ i, i ∈ t.used → i ∈ u) :
    TblInv { known := calcStep o t.known (.ann { c with id := n }), used := u } ∧
      (∀ y, y ∈ calcStep o t.known (.ann { c with id := n }) ↔
        (y = { c with id := n } ∨ (y ∈ t.known ∧ y.id ≠ n))) := by
  have hmem : ∀ y, y ∈ calcStep o t.known (.ann { c with id := n }) ↔
      (y = { c with id := n } ∨ (y ∈ t.known ∧ y.id ≠ n)) := by
    intro y
    rw [mem_calcStep_ann o t.known _ h.key y]
    have hsk : sameKey { c with id := n } y = sameKey c y := rfl
    rw [hsk]
    constructor
    · rintro (h1 | ⟨h1, h2⟩)
      · exact Or.inl h1
      · exact Or.inr ⟨h1, hno y h1 h2⟩
    · rintro (h1 | ⟨h1, h2⟩)
      · exact Or.inl h1
      · refine Or.inr ⟨h1, ?_⟩
        cases hk : sameKey c y
        · rfl
        · exact absurd (hyes y h1 hk).symm h2
  refine ⟨⟨?_, ?_, ?_, ?_⟩, hmem⟩
  · exact calcStep_nodup o t.known (.ann { c with id := n }) h.key
  · show ((calcStep o t.known (.ann { c with id := n })).map (·.id)).Nodup
    rw [nodup_ids_iff]
    simp only [calcStep]
    rw [implicitWithdraw_eq_filter t.known _ h.key]
    have hperm := insertSort_perm o (t.known.filter (fun y => !sameKey { c with id := n } y))
      { c with id := n }
    refine List.Pairwise.perm ?_ hperm.symm (fun {a b} hab => fun e => hab e.symm)
    rw [List.pairwise_cons]
    refine ⟨?_, ?_⟩
    · intro y hy
      obtain ⟨hy1, hy2⟩ := List.mem_filter.mp hy
      have hsk : sameKey { c with id := n } y = sameKey c y := rfl
      rw [hsk] at hy2
      have : sameKey c y = false := by simpa using hy2
      exact fun e => hno y hy1 this e.symm
    · have := nodup_ids_filter t.known (fun y => !sameKey { c with id := n } y) h.ids
      rw [nodup_ids_iff] at this
      exact this
  · intro y hy
    rcases (hmem y).mp hy with h1 | ⟨h1, _⟩
    · rw [h1]; exact hnz
    · exact h.nz y h1
  · intro y hy
    rcases (hmem y).mp hy with h1 | ⟨h1, _⟩
    · rw [h1]; exact hu1
    · exact hu2 _ (h.used y h1)

end TblAux

open TblAux

theorem fresh_spec (used : List Nat) : fresh used ∉ used ∧ fresh used ≠ 0 :=
  fresh_spec' used

theorem tblInv_init : TblInv {} :=
  ⟨List.Pairwise.nil, List.Pairwise.nil, fun _ hx => (by cases hx), fun _ hx => (by cases hx)⟩

/-- an announcement: the inserted path `np` carries the identifier of the path it replaces, or a
    fresh one; every other path stays, with its identifier -/
theorem tblStep_ann (o : Opts) (t : Tbl) (c : Cand) (h : TblInv t) :
    ∃ np, (tblStep o t (.ann c)).newPath = some np ∧ (tblStep o t (.ann c)).gone = none ∧
      TblInv (tblStep o t (.ann c)).tbl ∧
      (∀ y, y ∈ (tblStep o t (.ann c)).tbl.known ↔ (y = np ∨ (y ∈ t.known ∧ y.id ≠ np.id))) ∧
      (∀ x, x ∈ t.known → sameKey c x = true → np.id = x.id) ∧
      (∀ y, sameKey np y = sameKey c y) ∧ np.marker = c.marker := by
  obtain ⟨f1, f2, f3, f4, f5⟩ := nid_facts t c h
  obtain ⟨g1, g2⟩ := ann_core o t c (nid t c) (usedAnn t c) h f1 f2 f3 f4 f5
  rw [tblStep_ann_eq]
  exact ⟨{ c with id := nid t c }, rfl, rfl, g1, g2, f2, fun _ => rfl, rfl⟩

/-- a withdrawal: nothing matches and nothing changes, or exactly the matching path `p` leaves -/
theorem tblStep_wd (o : Opts) (t : Tbl) (c : Cand) (d : Bool) (h : TblInv t) :
    (tblStep o t (.wd c d)).newPath = none ∧ TblInv (tblStep o t (.wd c d)).tbl ∧
      (((tblStep o t (.wd c d)).gone = none ∧ (tblStep o t (.wd c d)).tbl = t) ∨
       (∃ p, (tblStep o t (.wd c d)).gone = some p ∧ p ∈ t.known ∧ sameKey p c = true ∧
          ∀ y, y ∈ (tblStep o t (.wd c d)).tbl.known ↔ (y ∈ t.known ∧ y.id ≠ p.id))) := by
  cases hl : lastMatch t.known c with
  | none =>
    have e : tblStep o t (.wd c d) = { tbl := t } := by simp only [tblStep, hl]
    rw [e]
    exact ⟨rfl, h, Or.inl ⟨rfl, rfl⟩⟩
  | some old =>
    have e : tblStep o t (.wd c d) =
        { tbl := { known := calcStep o t.known (.wd c),
                   used := if d && old.id != 0 then t.used.filter (· != old.id) else t.used },
          gone := some old } := by simp only [tblStep, hl]
    rw [e]
    have hl' : (t.known.filter (fun y => sameKey y c)).getLast? = some old := hl
    have hmf := List.mem_of_getLast? hl'
    obtain ⟨hold, hk⟩ := List.mem_filter.mp hmf
    have hmem : ∀ y, y ∈ calcStep o t.known (.wd c) ↔ (y ∈ t.known ∧ y.id ≠ old.id) := by
      intro y
      rw [mem_calcStep_wd o t.known c h.key y]
      constructor
      · rintro ⟨h1, h2⟩
        refine ⟨h1, fun hid => ?_⟩
        have : y = old := id_inj t.known h.ids y old h1 hold hid
        subst this
        rw [hk] at h2; cases h2
      · rintro ⟨h1, h2⟩
        refine ⟨h1, ?_⟩
        cases hyc : sameKey y c
        · rfl
        · have : sameKey y old = true :=
            sameKey_trans y c old hyc (by rw [sameKey_symm]; exact hk)
          exact absurd (congrArg Cand.id (key_inj t.known h.key y old h1 hold this)) h2
    refine ⟨rfl, ⟨?_, ?_, ?_, ?_⟩, Or.inr ⟨old, rfl, hold, hk, hmem⟩⟩
    · exact calcStep_nodup o t.known (.wd c) h.key
    · show ((calcStep o t.known (.wd c)).map (·.id)).Nodup
      simp only [calcStep]
      rw [explicitWithdraw_eq_filter t.known c h.key]
      exact nodup_ids_filter t.known _ h.ids
    · intro y hy
      exact h.nz y ((hmem y).mp hy).1
    · intro y hy
      obtain ⟨h1, h2⟩ := (hmem y).mp hy
      show y.id ∈ (if (d && old.id != 0) = true then t.used.filter (· != old.id) else t.used)
      split
      · rw [List.mem_filter]
        exact ⟨h.used y h1, by simpa using h2⟩
      · exact h.used y h1

/-- a path that survives a table update (same source and path-id before and after, replaced or
    not) keeps its local identifier -/
theorem id_stable (o : Opts) (t : Tbl) (op : TOp) (h : TblInv t) :
    ∀ x, x ∈ t.known → ∀ y, y ∈ (tblStep o t op).tbl.known → sameKey x y = true → y.id = x.id := by
  intro x hx y hy hk
  cases op with
  | ann c =>
    obtain ⟨np, _, _, _, hmem, hyes, hsk, _⟩ := tblStep_ann o t c h
    rcases (hmem y).mp hy with h1 | ⟨h1, _⟩
    · subst h1
      have : sameKey c x = true := by rw [← hsk x, sameKey_symm]; exact hk
      exact hyes x hx this
    · rw [key_inj t.known h.key x y hx h1 hk]
  | wd c d =>
    obtain ⟨_, _, hcase⟩ := tblStep_wd o t c d h
    rcases hcase with ⟨_, he⟩ | ⟨p, _, _, _, hmem⟩
    · rw [he] at hy
      rw [key_inj t.known h.key x y hx hy hk]
    · rw [key_inj t.known h.key x y hx ((hmem y).mp hy).1 hk]

end AddPathSend
