import Model.Framing
/-! helper lemmas for Props/C19.lean: readers evaluated on cons-lists, big-endian inverses -/
namespace Framing

/-! ### arithmetic of the big-endian encodings -/
theorem be16_enc (n : Nat) (h : n < 65536) : n / 256 % 256 * 256 + n % 256 = n := by omega

theorem be32_enc (n : Nat) (h : n < 4294967296) :
    ((n / 16777216 % 256 * 256 + n / 65536 % 256) * 256 + n / 256 % 256) * 256 + n % 256 = n := by
  omega

theorem byte_id (n : Nat) (h : n < 256) : n % 256 = n := Nat.mod_eq_of_lt h

/-! ### readers on cons lists -/
@[simp] theorem rd8_zero (a : Nat) (l : Bytes) : rd8 (a :: l) 0 = a := rfl
@[simp] theorem rd8_succ (a : Nat) (l : Bytes) (i : Nat) : rd8 (a :: l) (i + 1) = rd8 l i := rfl
@[simp] theorem rd16_zero (a b : Nat) (l : Bytes) : rd16 (a :: b :: l) 0 = a * 256 + b := rfl
@[simp] theorem rd16_succ (a : Nat) (l : Bytes) (i : Nat) : rd16 (a :: l) (i + 1) = rd16 l i := rfl
@[simp] theorem rd32_zero (a b c e : Nat) (l : Bytes) :
    rd32 (a :: b :: c :: e :: l) 0 = ((a * 256 + b) * 256 + c) * 256 + e := rfl
@[simp] theorem rd32_succ (a : Nat) (l : Bytes) (i : Nat) : rd32 (a :: l) (i + 1) = rd32 l i := rfl
@[simp] theorem slice_succ (a : Nat) (l : Bytes) (i n : Nat) : slice (a :: l) (i + 1) n = slice l i n := rfl
@[simp] theorem slice_zero (l : Bytes) (n : Nat) : slice l 0 n = l.take n := rfl

theorem rd64_succ (a : Nat) (l : Bytes) (i : Nat) : rd64 (a :: l) (i + 1) = rd64 l i := by
  simp [rd64]

/-- reading behind a prefix of known length -/
theorem rd32_append (p l : Bytes) (i : Nat) (h : p.length = i) : rd32 (p ++ l) i = rd32 l 0 := by
  subst h; simp [rd32]

theorem slice_append (p l : Bytes) (i n : Nat) (h : p.length = i) : slice (p ++ l) i n = l.take n := by
  subst h; simp [slice]

@[simp] theorem zeros_length (n : Nat) : (zeros n).length = n := by simp [zeros]

theorem take_append_self (a b : Bytes) (n : Nat) (h : a.length = n) : (a ++ b).take n = a := by
  subst h; simp

/-- a list of length 4 / 16 is a literal -/
theorem len4 (l : Bytes) (h : l.length = 4) : ∃ a b c d, l = [a, b, c, d] := by
  match l, h with
  | [a, b, c, d], _ => exact ⟨a, b, c, d, rfl⟩

theorem len16 (l : Bytes) (h : l.length = 16) :
    ∃ a0 a1 a2 a3 a4 a5 a6 a7 a8 a9 a10 a11 a12 a13 a14 a15,
      l = [a0, a1, a2, a3, a4, a5, a6, a7, a8, a9, a10, a11, a12, a13, a14, a15] := by
  match l, h with
  | [a0, a1, a2, a3, a4, a5, a6, a7, a8, a9, a10, a11, a12, a13, a14, a15], _ =>
    exact ⟨a0, a1, a2, a3, a4, a5, a6, a7, a8, a9, a10, a11, a12, a13, a14, a15, rfl⟩

/-- `copy` of a source that exactly fills the field -/
theorem copyInto_exact (n : Nat) (s : Bytes) (h : s.length = n) : copyInto n s = s := by
  subst h; simp [copyInto, zeros]

/-- `copy(buf[off:], src)` into a zero tail that is long enough -/
theorem blit_zeros (p src : Bytes) (k : Nat) (h : src.length ≤ k) :
    blit (p ++ zeros k) p.length src = p ++ src ++ zeros (k - src.length) := by
  unfold blit
  have h1 : (p ++ zeros k).length - p.length = k := by simp
  rw [h1, Nat.min_eq_left h]
  have h2 : List.take p.length (p ++ zeros k) = p := by simp
  have h3 : List.take k src = src := List.take_of_length_le h
  have h4 : List.drop (p.length + src.length) (p ++ zeros k) = zeros (k - src.length) := by
    rw [List.drop_append]
    simp [zeros]
  rw [h2, h3, h4]

end Framing

namespace Framing
/-! ### RTR: what ParseRTR returns on a cons-list, shape by shape -/
namespace Rtr

theorem padTo_ok (f : Bytes) (len : Nat) (h : f.length ≤ len) :
    padTo f len = some (f ++ zeros (len - f.length)) := by
  simp [padTo]; omega

theorem padTo_length (f : Bytes) (len : Nat) (bs : Bytes) (h : padTo f len = some bs) :
    bs.length = len := by
  unfold padTo at h
  split at h
  · cases h
  · cases h; simp; omega

theorem blit_length (buf src : Bytes) (off : Nat) (h : off ≤ buf.length) :
    (blit buf off src).length = buf.length := by
  simp [blit, List.length_take, List.length_drop]; omega

theorem parse_common_bytes (v t s1 s2 l1 l2 l3 l4 n1 n2 n3 n4 : Nat) (rest : Bytes)
    (ht : t = 0 ∨ t = 1 ∨ t = 7) :
    parse (v :: t :: s1 :: s2 :: l1 :: l2 :: l3 :: l4 :: n1 :: n2 :: n3 :: n4 :: rest) =
      .ok (.common v t (s1 * 256 + s2) (((l1 * 256 + l2) * 256 + l3) * 256 + l4)
        (((n1 * 256 + n2) * 256 + n3) * 256 + n4)) := by
  simp [parse, decCommon, ht]
  rw [if_neg (by omega), if_neg (by omega)]

theorem parse_reset_bytes (v t x y l1 l2 l3 l4 : Nat) (rest : Bytes) (ht : t = 2 ∨ t = 8) :
    parse (v :: t :: x :: y :: l1 :: l2 :: l3 :: l4 :: rest) =
      .ok (.reset v t (((l1 * 256 + l2) * 256 + l3) * 256 + l4)) := by
  have h1 : ¬ (t = 0 ∨ t = 1 ∨ t = 7) := by omega
  simp [parse, decReset, ht, h1]
  rw [if_neg (by omega), if_neg (by omega)]

theorem parse_cresp_bytes (v s1 s2 l1 l2 l3 l4 : Nat) (rest : Bytes) :
    parse (v :: 3 :: s1 :: s2 :: l1 :: l2 :: l3 :: l4 :: rest) =
      .ok (.cacheResp v 3 (s1 * 256 + s2) (((l1 * 256 + l2) * 256 + l3) * 256 + l4)) := by
  simp [parse, decCacheResp]
  rw [if_neg (by omega), if_neg (by omega)]

theorem parse_prefix4_bytes (v x y l1 l2 l3 l4 f p m z a0 a1 a2 a3 s1 s2 s3 s4 : Nat) (rest : Bytes)
    (hm : m ≤ 32) (hp : p ≤ m) :
    parse (v :: 4 :: x :: y :: l1 :: l2 :: l3 :: l4 :: f :: p :: m :: z :: a0 :: a1 :: a2 :: a3 ::
        s1 :: s2 :: s3 :: s4 :: rest) =
      .ok (.ipPrefix v 4 (((l1 * 256 + l2) * 256 + l3) * 256 + l4) f p m [a0, a1, a2, a3]
        (((s1 * 256 + s2) * 256 + s3) * 256 + s4)) := by
  have h1 : ¬ (32 < m ∨ m < p) := by omega
  simp [parse, decPrefix, h1]
  rw [if_neg (by omega), if_neg (by omega)]

theorem parse_prefix6_bytes (v x y l1 l2 l3 l4 f p m z
    a0 a1 a2 a3 a4 a5 a6 a7 a8 a9 a10 a11 a12 a13 a14 a15 s1 s2 s3 s4 : Nat) (rest : Bytes)
    (hm : m ≤ 128) (hp : p ≤ m) :
    parse (v :: 6 :: x :: y :: l1 :: l2 :: l3 :: l4 :: f :: p :: m :: z ::
        a0 :: a1 :: a2 :: a3 :: a4 :: a5 :: a6 :: a7 :: a8 :: a9 :: a10 :: a11 :: a12 :: a13 :: a14 :: a15 ::
        s1 :: s2 :: s3 :: s4 :: rest) =
      .ok (.ipPrefix v 6 (((l1 * 256 + l2) * 256 + l3) * 256 + l4) f p m
        [a0, a1, a2, a3, a4, a5, a6, a7, a8, a9, a10, a11, a12, a13, a14, a15]
        (((s1 * 256 + s2) * 256 + s3) * 256 + s4)) := by
  have h1 : ¬ (128 < m ∨ m < p) := by omega
  simp [parse, decPrefix, h1]
  rw [if_neg (by omega), if_neg (by omega), if_neg (by omega)]

end Rtr
end Framing

namespace Framing
namespace Rtr

theorem blit_zeros' (p src : Bytes) (k off : Nat) (hoff : p.length = off) (h : src.length ≤ k) :
    blit (p ++ zeros k) off src = p ++ src ++ zeros (k - src.length) := by
  subst hoff; exact blit_zeros p src k h

theorem parse_errep_bytes (v c1 c2 l1 l2 l3 l4 p1 p2 p3 p4 t1 t2 t3 t4 : Nat) (pdu text : Bytes)
    (hl : ((l1 * 256 + l2) * 256 + l3) * 256 + l4 = 16 + pdu.length + text.length)
    (hp : ((p1 * 256 + p2) * 256 + p3) * 256 + p4 = pdu.length)
    (ht : ((t1 * 256 + t2) * 256 + t3) * 256 + t4 = text.length) :
    parse (v :: 10 :: c1 :: c2 :: l1 :: l2 :: l3 :: l4 :: p1 :: p2 :: p3 :: p4 ::
        (pdu ++ (t1 :: t2 :: t3 :: t4 :: text))) =
      .ok (.errReport v 10 (c1 * 256 + c2) (16 + pdu.length + text.length) pdu.length pdu
        text.length text) := by
  have hlen : (v :: 10 :: c1 :: c2 :: l1 :: l2 :: l3 :: l4 :: p1 :: p2 :: p3 :: p4 ::
        (pdu ++ (t1 :: t2 :: t3 :: t4 :: text))).length = 16 + pdu.length + text.length := by
    simp; omega
  unfold parse
  rw [if_neg (by rw [hlen]; omega)]
  simp only [rd8_succ, rd8_zero]
  rw [if_neg (by omega), if_neg (by omega), if_neg (by omega), if_neg (by omega), if_pos trivial]
  unfold decErr
  rw [if_neg (by rw [hlen]; omega)]
  simp only [rd32_succ, rd32_zero, hl]
  rw [if_neg (by omega), if_neg (by rw [hlen]; omega)]
  rw [List.take_of_length_le (by rw [hlen]; exact Nat.le_refl _)]
  simp only [rd32_succ, rd32_zero, rd8_succ, rd8_zero, rd16_succ, rd16_zero, hp, hlen, slice_succ, slice_zero]
  rw [if_neg (by omega)]
  have e1 : rd32 (v :: 10 :: c1 :: c2 :: l1 :: l2 :: l3 :: l4 :: p1 :: p2 :: p3 :: p4 ::
        (pdu ++ (t1 :: t2 :: t3 :: t4 :: text))) (12 + pdu.length) = text.length := by
    rw [Nat.add_comm]
    simp only [rd32_succ]
    rw [rd32_append _ _ _ rfl]; simp [ht]
  have e2 : slice (l1 :: l2 :: l3 :: l4 :: p1 :: p2 :: p3 :: p4 ::
        (pdu ++ (t1 :: t2 :: t3 :: t4 :: text))) (12 + pdu.length) text.length = text := by
    have : 12 + pdu.length = (pdu.length + 4) + 8 := by omega
    rw [this]
    simp only [slice_succ]
    have h3 : pdu ++ t1 :: t2 :: t3 :: t4 :: text = (pdu ++ [t1, t2, t3, t4]) ++ text := by simp
    rw [h3, slice_append _ _ _ _ (by simp)]
    simp
  rw [e1] at *
  rw [e2, if_neg (by omega), if_neg (by simp)]
  simp

theorem serialize_errReport (ver code : Nat) (pdu text : Bytes)
    (hlen : 16 + pdu.length + text.length < 4294967296) :
    serialize (.errReport ver 10 code (16 + pdu.length + text.length) pdu.length pdu text.length text) =
      some (enc8 ver ++ enc8 10 ++ enc16 code ++ enc32 (16 + pdu.length + text.length) ++ enc32 pdu.length
              ++ pdu ++ enc32 text.length ++ text) := by
  unfold serialize
  simp only []
  rw [if_neg (by omega)]
  have hH : (enc8 ver ++ enc8 10 ++ enc16 code ++ enc32 (16 + pdu.length + text.length) ++ enc32 pdu.length).length = 12 := by
    simp [enc8, enc16, enc32]
  have hk : 16 + pdu.length + text.length - 12 = pdu.length + (4 + text.length) := by omega
  rw [hk, blit_zeros' _ pdu _ 12 hH (by omega)]
  have hlo : (12 + pdu.length) % 4294967296 = 12 + pdu.length := Nat.mod_eq_of_lt (by omega)
  have hhi : (16 + pdu.length) % 4294967296 = 16 + pdu.length := Nat.mod_eq_of_lt (by omega)
  rw [hlo, hhi, if_neg (by omega)]
  have hk2 : pdu.length + (4 + text.length) - pdu.length = 4 + text.length := by omega
  rw [hk2, blit_zeros' _ (enc32 text.length) _ (12 + pdu.length) (by simp [enc8, enc16, enc32] <;> omega) (by simp [enc32])]
  have hk3 : 4 + text.length - (enc32 text.length).length = text.length := by simp [enc32]
  rw [hk3, blit_zeros' _ text _ (16 + pdu.length) (by simp [enc8, enc16, enc32] <;> omega) (Nat.le_refl _)]
  simp [zeros]

end Rtr
end Framing

namespace Framing
namespace Rtr

theorem serialize_prefix4 (ver len flags plen mlen a0 a1 a2 a3 asn : Nat) (hl : 20 ≤ len) :
    serialize (.ipPrefix ver 4 len flags plen mlen [a0, a1, a2, a3] asn) =
      some (enc8 ver ++ enc8 4 ++ [0, 0] ++ enc32 len ++ enc8 flags ++ enc8 plen ++ enc8 mlen ++ [0]
            ++ [a0, a1, a2, a3] ++ enc32 asn ++ zeros (len - 20)) := by
  unfold serialize
  simp only []
  rw [if_pos trivial, padTo_ok _ _ (by simp [enc8, enc32, copyInto]; omega)]
  simp [enc8, enc32, copyInto, zeros]

theorem serialize_prefix6 (ver len flags plen mlen asn : Nat) (addr : Bytes) (ha : addr.length = 16)
    (hl : 32 ≤ len) :
    serialize (.ipPrefix ver 6 len flags plen mlen addr asn) =
      some (enc8 ver ++ enc8 6 ++ [0, 0] ++ enc32 len ++ enc8 flags ++ enc8 plen ++ enc8 mlen ++ [0]
            ++ addr ++ enc32 asn ++ zeros (len - 32)) := by
  unfold serialize
  simp only []
  rw [if_neg (by simp), copyInto_exact 16 addr ha, padTo_ok _ _ (by simp [enc8, enc32, ha]; omega)]
  simp [enc8, enc32, ha]

end Rtr
end Framing

namespace Framing
namespace Zapi

theorem decode_ok_facts (d : Bytes) (h : Hdr) (hd : decode d = .ok h) :
    h.len = rd16 d 0 ∧ h.ver = rd8 d 3 ∧ headerSize h.ver ≤ h.len := by
  unfold decode at hd
  simp only [] at hd
  split at hd
  · cases hd
  · split at hd
    · cases hd
    · split at hd
      · split at hd
        · cases hd
        · cases hd; exact ⟨rfl, rfl, by simp only []; omega⟩
      · split at hd
        · split at hd
          · cases hd
          · cases hd; exact ⟨rfl, rfl, by simp only []; omega⟩
        · split at hd
          · split at hd
            · cases hd
            · cases hd; exact ⟨rfl, rfl, by simp only []; omega⟩
          · cases hd

theorem rd16_lt (d : Bytes) (hb : ∀ x ∈ d, x < 256) : rd16 d 0 < 65536 := by
  unfold rd16
  match d, hb with
  | [], _ => simp
  | [a], _ => simp
  | a :: b :: r, hb =>
    have ha := hb a (by simp)
    have hb' := hb b (by simp)
    simp only [List.drop_zero]
    omega

end Zapi
end Framing
