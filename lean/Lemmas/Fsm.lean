import Model.Fsm
/-
  Helper lemmas about Model/Fsm.lean (core only).
-/
set_option linter.unusedSimpArgs false
set_option linter.unusedVariables false
namespace Fsm

/-- follow the reported transitions: each must start in the current state and be an allowed
    edge; the result is the state the reports end in. -/
def chain : S → List Out → Option S
  | a, [] => some a
  | a, .trans x y _ _ :: r => if x = a ∧ allowedEdge x y = true then chain y r else none
  | _, .deleted _ :: r => chain .idle r
  | a, .open _ _ :: r => chain a r
  | a, .ka _ _ :: r => chain a r
  | a, .notif _ _ _ _ :: r => chain a r
  | a, .close _ _ :: r => chain a r

theorem chain_append (a : S) (l1 l2 : List Out) :
    chain a (l1 ++ l2) = (chain a l1).bind (fun b => chain b l2) := by
  induction l1 generalizing a with
  | nil => simp [chain]
  | cons o r ih =>
    cases o <;> simp [chain, ih]
    split <;> simp

@[simp] theorem chain_drainOuts (a : S) (s : St) (l : List Out) : chain a (drainOuts s ++ l) = chain a l := by
  unfold drainOuts; split <;> simp [chain]

theorem allowed_to_idle (a : S) : allowedEdge a .idle = true := by cases a <;> rfl

@[simp] theorem armSession_st (c : Cfg) (s : St) (n : Nat) : (armSession c s n).st = s.st := by
  unfold armSession; split <;> rfl
@[simp] theorem armSession_admin (c : Cfg) (s : St) (n : Nat) : (armSession c s n).admin = s.admin := by
  unfold armSession; split <;> rfl
@[simp] theorem armSession_rib (c : Cfg) (s : St) (n : Nat) : (armSession c s n).rib = s.rib := by
  unfold armSession; split <;> rfl
@[simp] theorem armSession_deleted (c : Cfg) (s : St) (n : Nat) : (armSession c s n).deleted = s.deleted := by
  unfold armSession; split <;> rfl
@[simp] theorem armSession_idleHold (c : Cfg) (s : St) (n : Nat) : (armSession c s n).idleHold = s.idleHold := by
  unfold armSession; split <;> rfl
@[simp] theorem armSession_idleT (c : Cfg) (s : St) (n : Nat) : (armSession c s n).idleT = s.idleT := by
  unfold armSession; split <;> rfl
@[simp] theorem armSession_queued (c : Cfg) (s : St) (n : Nat) : (armSession c s n).queued = s.queued := by
  unfold armSession; split <;> rfl
@[simp] theorem touch_deleted (s : St) : (touch s).deleted = s.deleted := by unfold touch; split <;> rfl
@[simp] theorem touch_queued (s : St) : (touch s).queued = s.queued := by unfold touch; split <;> rfl
@[simp] theorem touch_st (s : St) : (touch s).st = s.st := by unfold touch; split <;> rfl
@[simp] theorem touch_admin (s : St) : (touch s).admin = s.admin := by unfold touch; split <;> rfl
@[simp] theorem touch_rib (s : St) : (touch s).rib = s.rib := by unfold touch; split <;> rfl
@[simp] theorem touch_now (s : St) : (touch s).now = s.now := by unfold touch; split <;> rfl
@[simp] theorem touch_cur (s : St) : (touch s).cur = s.cur := by unfold touch; split <;> rfl
@[simp] theorem touch_idleHold (s : St) : (touch s).idleHold = s.idleHold := by unfold touch; split <;> rfl

/-- a timer is only due in the state whose handler selects on it -/
theorem due_idle {s : St} {t d : Nat} (h : due s t = some (.idle, d)) : s.st = .idle := by
  unfold due at h
  cases hs : s.st <;> simp [hs] at h <;> try rfl
  all_goals (unfold dueSess at h; repeat' split at h) <;> simp_all

theorem toIdle_chain (s : St) (n : Nat) :
    chain s.st (toIdle s n).2 = some (toIdle s n).1.st := by
  simp [toIdle, chain, allowed_to_idle]

theorem notifyIdle_chain (s : St) (a b : Nat) :
    chain s.st (notifyIdle s a b).2 = some (notifyIdle s a b).1.st := by
  simp [notifyIdle, toIdle, chain, allowed_to_idle]

theorem closeIdle_chain (s : St) :
    chain s.st (closeIdle s).2 = some (closeIdle s).1.st := by
  simp [closeIdle, toIdle, chain, allowed_to_idle]

theorem fireTimer_chain {s : St} {t d : Nat} {tm : Tm} (h : due s t = some (tm, d)) :
    chain s.st (fireTimer s tm d).2 = some (fireTimer s tm d).1.st := by
  cases tm with
  | idle =>
    have hs := due_idle h
    unfold fireTimer
    by_cases ha : s.admin = .up <;> simp [ha, chain, hs, allowedEdge]
  | hold => simp [fireTimer, notifyIdle, toIdle, chain, allowed_to_idle]
  | ka => simp [fireTimer, chain]

theorem advance_chain (f : Nat) (s : St) (t : Nat) :
    chain s.st (advance f s t).2 = some (advance f s t).1.st := by
  induction f generalizing s with
  | zero => simp [advance, chain]
  | succ f ih =>
    unfold advance
    cases h : due s t with
    | none => simp [chain]
    | some p =>
      obtain ⟨tm, d⟩ := p
      simp only []
      rw [chain_append, fireTimer_chain h]
      simp [ih]

theorem onDeleted_chain (s : St) (e : Ev) :
    chain s.st (onDeleted s e).2 = some (onDeleted s e).1.st := by
  cases e <;> simp [onDeleted, chain]

theorem step_chain (c : Cfg) (s : St) (e : Ev) :
    chain s.st (step c s e).2 = some (step c s e).1.st := by
  unfold step
  by_cases hd : s.deleted = true
  · simp [hd, onDeleted_chain]
  · simp only [hd]
    cases e with
    | tick t => simp [advance_chain]
    | «open» o =>
      cases hs : s.st <;> simp [onIdle, onActive, onOpensent, onOpenconfirm, onEstablished, chain,
        notifyIdle, toIdle, allowed_to_idle, hs]
      cases validateOpen c o <;> simp [chain, notifyIdle, toIdle, allowedEdge, hs]
    | update n =>
      cases hs : s.st <;> simp [onIdle, onActive, onOpensent, onOpenconfirm, onEstablished, chain,
        notifyIdle, toIdle, allowed_to_idle, hs]
      split <;> simp [chain, allowed_to_idle, hs]
    | _ =>
      cases hs : s.st <;> simp [onIdle, onActive, onOpensent, onOpenconfirm, onEstablished, chain,
        notifyIdle, closeIdle, toIdle, die, allowed_to_idle, allowedEdge, hs]

theorem run_chain (c : Cfg) (s : St) (es : List Ev) :
    chain s.st (run c s es).2 = some (run c s es).1.st := by
  induction es generalizing s with
  | nil => simp [run, chain]
  | cons e es ih =>
    simp only [run]
    rw [chain_append, step_chain]
    simp [ih]


/-! ### how the state, the RIB and the admin state move -/

theorem fireTimer_st (s : St) (tm : Tm) (d : Nat) :
    (fireTimer s tm d).1.st = s.st ∨ (fireTimer s tm d).1.st = .idle ∨ (fireTimer s tm d).1.st = .active := by
  cases tm <;> simp [fireTimer, notifyIdle, toIdle]
  split <;> simp

theorem fireTimer_rib (s : St) (tm : Tm) (d : Nat) :
    (fireTimer s tm d).1.rib = s.rib ∨ (fireTimer s tm d).1.rib = 0 := by
  cases tm <;> simp [fireTimer, notifyIdle, toIdle]
  split <;> simp

theorem fireTimer_admin (s : St) (tm : Tm) (d : Nat) : (fireTimer s tm d).1.admin = s.admin := by
  cases tm <;> simp [fireTimer, notifyIdle, toIdle]
  split <;> simp

theorem fireTimer_deleted (s : St) (tm : Tm) (d : Nat) : (fireTimer s tm d).1.deleted = s.deleted := by
  cases tm <;> simp [fireTimer, notifyIdle, toIdle]
  split <;> simp

/-- silence never brings a session up -/
theorem advance_st (f : Nat) (s : St) (t : Nat) :
    (advance f s t).1.st = s.st ∨ (advance f s t).1.st = .idle ∨ (advance f s t).1.st = .active := by
  induction f generalizing s with
  | zero => simp [advance]
  | succ f ih =>
    unfold advance
    cases h : due s t with
    | none => simp
    | some p =>
      obtain ⟨tm, d⟩ := p
      simp only []
      rcases ih (fireTimer s tm d).1 with h1 | h1 | h1 <;> rcases fireTimer_st s tm d with h2 | h2 | h2 <;>
        simp_all

theorem advance_admin (f : Nat) (s : St) (t : Nat) : (advance f s t).1.admin = s.admin := by
  induction f generalizing s with
  | zero => simp [advance]
  | succ f ih =>
    unfold advance
    cases h : due s t with
    | none => simp
    | some p =>
      obtain ⟨tm, d⟩ := p
      simp only [ih, fireTimer_admin]

theorem advance_rib (f : Nat) (s : St) (t : Nat) :
    (advance f s t).1.rib = s.rib ∨ (advance f s t).1.rib = 0 := by
  induction f generalizing s with
  | zero => simp [advance]
  | succ f ih =>
    unfold advance
    cases h : due s t with
    | none => simp
    | some p =>
      obtain ⟨tm, d⟩ := p
      simp only []
      rcases ih (fireTimer s tm d).1 with h1 | h1 <;> rcases fireTimer_rib s tm d with h2 | h2 <;> simp_all

/-- ESTABLISHED is entered only from OPENCONFIRM and only by a KEEPALIVE -/
theorem established_entry (c : Cfg) (s : St) (e : Ev)
    (h : (step c s e).1.st = .established) :
    s.st = .established ∨ (s.st = .openconfirm ∧ e = .keepalive) := by
  unfold step at h
  by_cases hd : s.deleted = true
  · simp only [hd, if_true] at h
    cases e <;> simp_all [onDeleted]
  · simp only [hd] at h
    cases e with
    | tick t =>
      rcases advance_st (t + 3) s (s.now + t) with h1 | h1 | h1 <;> simp_all
    | «open» o =>
      cases hs : s.st <;> simp_all [onIdle, onActive, onOpensent, onOpenconfirm, onEstablished,
        notifyIdle, toIdle]
      cases hv : validateOpen c o <;> simp_all [notifyIdle, toIdle]
    | update n =>
      cases hs : s.st <;> simp_all [onIdle, onActive, onOpensent, onOpenconfirm, onEstablished,
        notifyIdle, toIdle]
    | _ =>
      cases hs : s.st <;> simp_all [onIdle, onActive, onOpensent, onOpenconfirm, onEstablished,
        notifyIdle, closeIdle, toIdle, die]

/-- OPENCONFIRM is entered only from OPENSENT by an acceptable OPEN, or from ACTIVE by the
    hand-over of a connection on which the outgoing-connection manager exchanged OPENs -/
theorem openconfirm_entry (c : Cfg) (s : St) (e : Ev)
    (h : (step c s e).1.st = .openconfirm) :
    s.st = .openconfirm ∨ (s.st = .opensent ∧ ∃ o, e = .open o ∧ validateOpen c o = none) ∨
      (s.st = .active ∧ ∃ o, e = .outgoing o) := by
  unfold step at h
  by_cases hd : s.deleted = true
  · simp only [hd, if_true] at h
    cases e <;> simp_all [onDeleted]
  · simp only [hd] at h
    cases e with
    | tick t =>
      rcases advance_st (t + 3) s (s.now + t) with h1 | h1 | h1 <;> simp_all
    | «open» o =>
      cases hs : s.st <;> simp_all [onIdle, onActive, onOpensent, onOpenconfirm, onEstablished,
        notifyIdle, toIdle]
      cases hv : validateOpen c o <;> simp_all [notifyIdle, toIdle]
    | update n =>
      cases hs : s.st <;> simp_all [onIdle, onActive, onOpensent, onOpenconfirm, onEstablished,
        notifyIdle, toIdle]
      split at h <;> simp_all
    | _ =>
      cases hs : s.st <;> simp_all [onIdle, onActive, onOpensent, onOpenconfirm, onEstablished,
        notifyIdle, closeIdle, toIdle, die]

/-- the Adj-RIB-In only changes in ESTABLISHED (or is emptied) -/
theorem step_rib (c : Cfg) (s : St) (e : Ev) (hne : s.st ≠ .established) :
    (step c s e).1.rib = s.rib ∨ (step c s e).1.rib = 0 := by
  unfold step
  by_cases hd : s.deleted = true
  · simp only [hd, if_true]
    cases e <;> simp [onDeleted]
  · simp only [hd]
    cases e with
    | tick t => exact advance_rib _ _ _
    | «open» o =>
      cases hs : s.st <;> simp_all [onIdle, onActive, onOpensent, onOpenconfirm, onEstablished,
        notifyIdle, toIdle]
      cases hv : validateOpen c o <;> simp_all [notifyIdle, toIdle]
    | _ =>
      cases hs : s.st <;> simp_all [onIdle, onActive, onOpensent, onOpenconfirm, onEstablished,
        notifyIdle, closeIdle, toIdle, die]


/-! ### NOTIFICATIONs and the hold timer -/

/-- the NOTIFICATIONs among the outputs: (code, subcode, instant) -/
def notifs : List Out → List (Nat × Nat × Nat)
  | [] => []
  | .notif _ a b t :: r => (a, b, t) :: notifs r
  | .open _ _ :: r => notifs r
  | .ka _ _ :: r => notifs r
  | .close _ _ :: r => notifs r
  | .trans _ _ _ _ :: r => notifs r
  | .deleted _ :: r => notifs r

@[simp] theorem notifs_drainOuts (s : St) : notifs (drainOuts s) = [] := by
  unfold drainOuts; split <;> simp [notifs]

theorem notifs_append (l1 l2 : List Out) : notifs (l1 ++ l2) = notifs l1 ++ notifs l2 := by
  induction l1 with
  | nil => simp [notifs]
  | cons o r ih => cases o <;> simp [notifs, ih]

@[simp] theorem notifs_drainOuts_app (s : St) (l : List Out) : notifs (drainOuts s ++ l) = notifs l := by
  rw [notifs_append]; simp

def isSession (s : St) : Prop := s.st = .opensent ∨ s.st = .openconfirm ∨ s.st = .established

/-- sanity of the deadlines: the ticker is strictly in the future with a positive period, the
    hold timer not in the past -/
structure TimersWF (s : St) : Prop where
  ka_future : ∀ k, s.kaT = some k → s.now < k
  kaI_pos : s.kaT ≠ none → 0 < s.kaI
  hold_future : ∀ h, s.holdT = some h → s.now ≤ h

theorem due_session {s : St} (hs : isSession s) (t : Nat) : due s t = dueSess s.holdT s.kaT t := by
  rcases hs with h | h | h <;> simp [due, h]

/-- no NOTIFICATION is ever sent by the timers of IDLE / ACTIVE -/
theorem advance_quiet (f : Nat) (s : St) (t : Nat) (h : s.st = .idle ∨ s.st = .active) :
    notifs (advance f s t).2 = [] := by
  induction f generalizing s with
  | zero => simp [advance, notifs]
  | succ f ih =>
    unfold advance
    cases hd : due s t with
    | none => simp [notifs]
    | some p =>
      obtain ⟨tm, d⟩ := p
      simp only []
      rcases h with h | h
      · -- idle: only the idle hold timer can be due
        have : tm = .idle := by
          unfold due at hd
          simp [h] at hd
          repeat' split at hd
          all_goals simp_all
        subst this
        rw [notifs_append]
        have h2 : (fireTimer s .idle d).1.st = .idle ∨ (fireTimer s .idle d).1.st = .active := by
          by_cases ha : s.admin = .up <;> simp [fireTimer, ha, h]
        rw [ih _ h2]
        by_cases ha : s.admin = .up <;> simp [fireTimer, ha, notifs]
      · simp [due, h] at hd

/-- the hold timer of a session state fires at exactly its deadline `d`, once, and nothing else
    sends a NOTIFICATION while the remote is silent -/
theorem advance_hold (f : Nat) (s : St) (t d : Nat) (hs : isSession s) (hh : s.holdT = some d)
    (wf : TimersWF s) (hf : t - s.now + 3 ≤ f) :
    notifs (advance f s t).2 = if d ≤ t then [(4, 0, d)] else [] := by
  induction f generalizing s with
  | zero => omega
  | succ f ih =>
    unfold advance
    rw [due_session hs, hh]
    have hnow : s.now ≤ d := wf.hold_future d hh
    cases hk : s.kaT with
    | none =>
      by_cases hdt : d ≤ t
      · simp only [dueSess, hdt, if_true]
        rw [notifs_append]
        have h2 : (fireTimer s .hold d).1.st = .idle ∨ (fireTimer s .hold d).1.st = .active := by
          simp [fireTimer, notifyIdle, toIdle]
        rw [advance_quiet _ _ _ h2]
        simp [fireTimer, notifyIdle, toIdle, notifs]
      · simp [dueSess, hdt, notifs]
    | some k =>
      have hkf : s.now < k := wf.ka_future k hk
      have hkp : 0 < s.kaI := wf.kaI_pos (by simp [hk])
      by_cases hdk : d ≤ k
      · by_cases hdt : d ≤ t
        · simp only [dueSess, hdk, hdt, if_true]
          rw [notifs_append]
          have h2 : (fireTimer s .hold d).1.st = .idle ∨ (fireTimer s .hold d).1.st = .active := by
            simp [fireTimer, notifyIdle, toIdle]
          rw [advance_quiet _ _ _ h2]
          simp [fireTimer, notifyIdle, toIdle, notifs]
        · simp [dueSess, hdk, hdt, notifs]
      · by_cases hkt : k ≤ t
        · simp only [dueSess, hdk, hkt, if_true, if_false]
          rw [notifs_append]
          have hs1 : isSession (fireTimer s .ka k).1 := by
            rcases hs with h | h | h <;> simp [fireTimer, isSession, h]
          have hh1 : (fireTimer s .ka k).1.holdT = some d := by simp [fireTimer, hh]
          have wf1 : TimersWF (fireTimer s .ka k).1 := by
            constructor
            · intro k'; simp [fireTimer]; omega
            · intro _; simp [fireTimer]; exact hkp
            · intro h'; simp [fireTimer, hh]; omega
          have hf1 : t - (fireTimer s .ka k).1.now + 3 ≤ f := by simp [fireTimer]; omega
          rw [ih _ hs1 hh1 wf1 hf1]
          simp [fireTimer, notifs]
        · have : ¬ d ≤ t := by omega
          simp [dueSess, hdk, hkt, this, notifs]


theorem chain_allowed {a b : S} {l : List Out} (h : chain a l = some b) :
    ∀ x y adm t, Out.trans x y adm t ∈ l → allowedEdge x y = true := by
  induction l generalizing a with
  | nil => intro x y adm t hm; cases hm
  | cons o r ih =>
    intro x y adm t hm
    cases o with
    | trans x' y' adm' t' =>
      simp only [chain] at h
      split at h
      · rename_i hc
        rcases List.mem_cons.mp hm with he | hr
        · cases he; exact hc.2
        · exact ih h x y adm t hr
      · cases h
    | deleted t' =>
      simp only [chain] at h
      rcases List.mem_cons.mp hm with he | hr
      · cases he
      · exact ih h x y adm t hr
    | «open» c' t' =>
      simp only [chain] at h
      rcases List.mem_cons.mp hm with he | hr
      · cases he
      · exact ih h x y adm t hr
    | ka c' t' =>
      simp only [chain] at h
      rcases List.mem_cons.mp hm with he | hr
      · cases he
      · exact ih h x y adm t hr
    | notif c' a' b' t' =>
      simp only [chain] at h
      rcases List.mem_cons.mp hm with he | hr
      · cases he
      · exact ih h x y adm t hr
    | close c' t' =>
      simp only [chain] at h
      rcases List.mem_cons.mp hm with he | hr
      · cases he
      · exact ih h x y adm t hr

/-- an OPEN-like event: an OPEN the daemon accepts, or the hand-over of a connection on which
    the outgoing-connection manager has received one -/
def openLike (c : Cfg) (e : Ev) : Prop :=
  (∃ o, e = .open o ∧ validateOpen c o = none) ∨ (∃ o, e = .outgoing o)

/-- the event list contains an OPEN-like event and, later, a KEEPALIVE -/
def seenOpenKa (c : Cfg) (es : List Ev) : Prop :=
  ∃ l1 e l2 l3, es = l1 ++ [e] ++ l2 ++ [Ev.keepalive] ++ l3 ∧ openLike c e

theorem run_established (c : Cfg) (s : St) (es : List Ev)
    (h : (run c s es).1.st = .established) :
    s.st = .established ∨ (s.st = .openconfirm ∧ Ev.keepalive ∈ es) ∨ seenOpenKa c es := by
  induction es generalizing s with
  | nil => left; simpa [run] using h
  | cons e es ih =>
    simp only [run] at h
    rcases ih (step c s e).1 h with h1 | ⟨h1, hk⟩ | ⟨l1, e', l2, l3, he, ho⟩
    · rcases established_entry c s e h1 with h2 | ⟨h2, h3⟩
      · left; exact h2
      · right; left; exact ⟨h2, by simp [h3]⟩
    · rcases openconfirm_entry c s e h1 with h2 | ⟨h2, o, ho, hv⟩ | ⟨h2, o, ho⟩
      · right; left; exact ⟨h2, by simp [hk]⟩
      · right; right
        obtain ⟨l2, l3, hsplit⟩ := List.append_of_mem hk
        exact ⟨[], e, l2, l3, by simp [hsplit], Or.inl ⟨o, ho, hv⟩⟩
      · right; right
        obtain ⟨l2, l3, hsplit⟩ := List.append_of_mem hk
        exact ⟨[], e, l2, l3, by simp [hsplit], Or.inr ⟨o, ho⟩⟩
    · right; right
      exact ⟨e :: l1, e', l2, l3, by simp [he], ho⟩

end Fsm
