import Lemmas.ErrHandling
/- C06: the session-level case analysis (revised error handling enabled) -/
namespace ErrH

/-- explicit rank of the session's reaction when RFC 7606 handling is enabled -/
def sessionRankSpec (c : Cfg) (m : AMsg) : Nat :=
  let d := decode m
  let D := rk d.err
  if D ≥ 3 then 4
  else if D = 2 then (if aggErr d.attrs then 4 else 2)
  else
    let v := validate c d.attrs d.wd d.nlri
    let V := rk v.1
    if V ≥ 3 then 4 else if aggErr v.2 then 4 else max D V

theorem finish_rank (h : Handling) (l : List AttrObs) :
    (finish h l).rank = if aggErr l then 4 else
      (match h with | .none => 0 | .discard => 1 | _ => 2) := by
  unfold finish
  by_cases ha : aggErr l = true
  · simp [ha, Action.rank]
  · simp only [ha, Bool.false_eq_true, ↓reduceIte]
    cases h <;> simp [Action.rank]

theorem session_rank (c : Cfg) (hr : c.revised = true) (m : AMsg) :
    (sessionAction c m).rank = sessionRankSpec c m := by
  unfold sessionAction sessionRankSpec
  generalize decode m = d
  obtain ⟨err, attrs, wd, nlri⟩ := d
  simp only
  cases err with
  | none =>
    simp only [rk]
    generalize validate c attrs wd nlri = v
    obtain ⟨ve, l⟩ := v
    cases ve with
    | none => simp [finish_rank, rk]
    | some e =>
      obtain ⟨code, sub, h⟩ := e
      cases h <;> simp [handlingError, hr, finish_rank, rk, Handling.rank] <;> simp [Action.rank]
  | some e =>
    obtain ⟨code, sub, h⟩ := e
    cases h
    case reset => simp [handlingError, hr, rk, Handling.rank, Action.rank]
    case afisafi => simp [handlingError, hr, rk, Handling.rank, Action.rank]
    case withdraw => simp [handlingError, hr, rk, Handling.rank, finish_rank]
    case none =>
      simp only [handlingError, hr, rk, Handling.rank]
      generalize validate c attrs wd nlri = v
      obtain ⟨ve, l⟩ := v
      cases ve with
      | none => simp [finish_rank, rk]
      | some e =>
        obtain ⟨code, sub, h⟩ := e
        cases h <;> simp [finish_rank, rk, Handling.rank] <;> simp [Action.rank]
    case discard =>
      simp only [handlingError, hr, rk, Handling.rank]
      generalize validate c attrs wd nlri = v
      obtain ⟨ve, l⟩ := v
      cases ve with
      | none => simp [finish_rank, rk]
      | some e =>
        obtain ⟨code, sub, h⟩ := e
        cases h <;> simp [finish_rank, rk, Handling.rank] <;> simp [Action.rank]

theorem finish_list (h : Handling) (l' l : List AttrObs)
    (hf : finish h l' = .install l ∨ finish h l' = .discardAttrs l) : l' = l := by
  unfold finish at hf
  by_cases ha : aggErr l' = true
  · simp [ha] at hf
  · simp only [ha, Bool.false_eq_true, ↓reduceIte] at hf
    cases h <;> simp at hf <;> exact hf

/-- routes are only ever built from the attribute list ValidateUpdateMsg left behind -/
theorem session_list (c : Cfg) (m : AMsg) (l : List AttrObs)
    (h : sessionAction c m = .install l ∨ sessionAction c m = .discardAttrs l) :
    l = (validate c (decode m).attrs (decode m).wd (decode m).nlri).2 := by
  unfold sessionAction at h
  generalize decode m = d at h ⊢
  obtain ⟨err, attrs, wd, nlri⟩ := d
  simp only at h ⊢
  generalize validate c attrs wd nlri = v at h ⊢
  obtain ⟨ve, l'⟩ := v
  have fin : ∀ hh, (finish hh l' = .install l ∨ finish hh l' = .discardAttrs l) → l = l' :=
    fun hh hf => (finish_list hh l' l hf).symm
  cases err with
  | none =>
    cases ve with
    | none => exact fin _ h
    | some e =>
      simp only at h
      split at h
      · simp at h
      · exact fin _ h
  | some e =>
    obtain ⟨code, sub, hd⟩ := e
    cases hrv : c.revised <;> cases hd <;> simp [handlingError, hrv] at h
    all_goals first
      | (exfalso; exact (by
          have := h
          unfold finish at this
          split at this <;> simp at this))
      | (cases ve with
        | none => exact fin _ h
        | some e' =>
          simp only at h
          split at h
          · simp at h
          · exact fin _ h)

/-- with RFC 7606 handling off there is no middle way: an UPDATE is installed whole or the session
    is reset -/
theorem session_disabled (c : Cfg) (hr : c.revised = false) (m : AMsg) :
    (∃ l, sessionAction c m = .install l ∧ (decode m).err = none ∧
        (validate c (decode m).attrs (decode m).wd (decode m).nlri).1 = none) ∨
      (∃ code sub, sessionAction c m = .reset code sub) := by
  unfold sessionAction
  generalize decode m = d
  obtain ⟨err, attrs, wd, nlri⟩ := d
  simp only
  generalize validate c attrs wd nlri = v
  obtain ⟨ve, l'⟩ := v
  cases err with
  | none =>
    cases ve with
    | none =>
      simp only [finish]
      by_cases ha : aggErr l' = true
      · right; exact ⟨3, 1, by simp [ha]⟩
      · left; exact ⟨l', by simp [ha]⟩
    | some e => right; exact ⟨e.code, e.sub, by simp [handlingError, hr]⟩
  | some e => right; exact ⟨e.code, e.sub, by simp [handlingError, hr]⟩

end ErrH
