/-
C02 (table level) — helper lemmas, part C: iteration / counters / sharding of the bucket structure
against the abstract content.  Core-only.
-/
import Lemmas.Table
namespace Tbl
variable {δ ρ : Type}

/-! ### helpers -/

private theorem tC_infoChain_fst (n : δ → Nat) (c : Chain δ) :
    (infoChain n c).1 = (c.filter (fun e => n e.2 ≠ 0)).length := by
  induction c with
  | nil => rfl
  | cons e r ih =>
    obtain ⟨q, d⟩ := e
    by_cases hd : n d = 0
    · simp [infoChain, hd, ih]
    · simp [infoChain, hd, ih]

private theorem tC_infoChain_snd (n : δ → Nat) (c : Chain δ) :
    (infoChain n c).2 = (c.map (fun e => n e.2)).sum := by
  induction c with
  | nil => rfl
  | cons e r ih =>
    obtain ⟨q, d⟩ := e
    by_cases hd : n d = 0
    · simp [infoChain, hd, ih]
    · simp [infoChain, hd, ih]
      omega

private theorem tC_entries_cons (kc : Nat × Chain δ) (r : Dests δ) :
    entries (kc :: r) = kc.2 ++ entries r := by
  simp [entries, List.flatMap_cons]

private theorem tC_entries_nil : entries ([] : Dests δ) = [] := rfl

private theorem tC_wf_tail {h : Pfx → Nat} {kc : Nat × Chain δ} {r : Dests δ}
    (hw : WF h (kc :: r)) : WF h r := by
  obtain ⟨hn, hc⟩ := hw
  rw [List.map_cons, List.nodup_cons] at hn
  exact ⟨hn.2, fun x hx => hc x (List.mem_cons_of_mem _ hx)⟩

private theorem tC_nodup_of_map_fst : ∀ {l : List (Pfx × δ)}, (l.map Prod.fst).Nodup → l.Nodup
  | [], _ => List.nodup_nil
  | e :: r, h => by
    rw [List.map_cons, List.nodup_cons] at h
    rw [List.nodup_cons]
    exact ⟨fun hm => h.1 (List.mem_map_of_mem hm), tC_nodup_of_map_fst h.2⟩

/-! ### counters -/

theorem info_numDestination (n : δ → Nat) (t : Dests δ) :
    (info n t).numDestination = ((entries t).filter (fun e => n e.2 ≠ 0)).length := by
  induction t with
  | nil => rfl
  | cons kc r ih =>
    obtain ⟨k, c⟩ := kc
    rw [tC_entries_cons, List.filter_append, List.length_append, ← ih, ← tC_infoChain_fst]
    simp only [info]
    omega

theorem info_numPath (n : δ → Nat) (t : Dests δ) :
    (info n t).numPath = ((entries t).map (fun e => n e.2)).sum := by
  induction t with
  | nil => rfl
  | cons kc r ih =>
    obtain ⟨k, c⟩ := kc
    rw [tC_entries_cons, List.map_append, List.sum_append, ← ih, ← tC_infoChain_snd]
    simp only [info]
    omega

/-- every destination beyond the first of its bucket is counted as a collision -/
theorem info_numCollision {h : Pfx → Nat} {t : Dests δ} (hw : WF h t) (n : δ → Nat) :
    (info n t).numCollision + t.length = (entries t).length := by
  induction t with
  | nil => rfl
  | cons kc r ih =>
    obtain ⟨k, c⟩ := kc
    have ih' := ih (tC_wf_tail hw)
    have hc : c ≠ [] := (hw.2 (k, c) (List.mem_cons_self)).1
    have hl : c.length ≥ 1 := by
      cases c with
      | nil => exact absurd rfl hc
      | cons a b => simp
    rw [tC_entries_cons, List.length_append, List.length_cons]
    simp only [info]
    split <;> omega

/-- the buckets are exactly the hash values taken on the domain -/
theorem mem_keys_iff {h : Pfx → Nat} {t : Dests δ} (hw : WF h t) (k : Nat) :
    k ∈ t.map Prod.fst ↔ ∃ p, h p = k ∧ (alookup t p).isSome = true := by
  constructor
  · intro hk
    rw [List.mem_map] at hk
    obtain ⟨⟨k', c⟩, hkc, rfl⟩ := hk
    obtain ⟨hne, hh, _⟩ := hw.2 (k', c) hkc
    obtain ⟨e, c', rfl⟩ := List.exists_cons_of_ne_nil hne
    obtain ⟨p, d⟩ := e
    refine ⟨p, hh (p, d) List.mem_cons_self, ?_⟩
    have hm : (p, d) ∈ entries t := by
      unfold entries
      rw [List.mem_flatMap]
      exact ⟨(k', (p, d) :: c'), hkc, List.mem_cons_self⟩
    rw [(mem_entries_iff hw p d).1 hm]
    rfl
  · rintro ⟨p, hp, hs⟩
    cases hd : alookup t p with
    | none => rw [hd] at hs; cases hs
    | some d =>
      have hm := (mem_entries_iff hw p d).2 hd
      unfold entries at hm
      rw [List.mem_flatMap] at hm
      obtain ⟨⟨k', c⟩, hkc, hpc⟩ := hm
      have := (hw.2 (k', c) hkc).2.1 (p, d) hpc
      rw [List.mem_map]
      exact ⟨(k', c), hkc, by rw [← hp]; exact this.symm⟩

/-- two enumerations without repeated prefix of the same content are permutations of each other -/
theorem perm_of_same_content {l1 l2 : List (Pfx × δ)}
    (h1 : (l1.map Prod.fst).Nodup) (h2 : (l2.map Prod.fst).Nodup)
    (hm : ∀ p d, (p, d) ∈ l1 ↔ (p, d) ∈ l2) : l1.Perm l2 := by
  rw [List.perm_ext_iff_of_nodup (tC_nodup_of_map_fst h1) (tC_nodup_of_map_fst h2)]
  rintro ⟨p, d⟩
  exact hm p d

/-- chain order, bucket order and the hash function are irrelevant to what iteration yields -/
theorem entries_perm {h1 h2 : Pfx → Nat} {t1 t2 : Dests δ} (hw1 : WF h1 t1) (hw2 : WF h2 t2)
    (he : ∀ p, alookup t1 p = alookup t2 p) : (entries t1).Perm (entries t2) := by
  apply perm_of_same_content (entries_nodup hw1) (entries_nodup hw2)
  intro p d
  rw [mem_entries_iff hw1, mem_entries_iff hw2, he]

/-- the counters are the sizes of the abstract content, whatever enumeration of it is used -/
theorem info_of_enumeration {h : Pfx → Nat} {t : Dests δ} (hw : WF h t) (n : δ → Nat)
    (l : List (Pfx × δ)) (hl : (l.map Prod.fst).Nodup)
    (hm : ∀ p d, (p, d) ∈ l ↔ alookup t p = some d) :
    (info n t).numDestination = (l.filter (fun e => n e.2 ≠ 0)).length ∧
    (info n t).numPath = (l.map (fun e => n e.2)).sum ∧
    (info n t).numCollision + t.length = l.length := by
  have hp : (entries t).Perm l := by
    apply perm_of_same_content (entries_nodup hw) hl
    intro p d
    rw [mem_entries_iff hw, hm]
  refine ⟨?_, ?_, ?_⟩
  · rw [info_numDestination]
    exact (hp.filter _).length_eq
  · rw [info_numPath]
    exact (hp.map _).sum_nat
  · rw [info_numCollision hw]
    exact hp.length_eq

/-! ### sharding -/

private theorem tC_mget_filter (P : Nat × Chain δ → Bool) (k : Nat)
    (hP : ∀ c, P (k, c) = true) :
    ∀ t : Dests δ, mget (t.filter P) k = mget t k
  | [] => rfl
  | (k', c) :: r => by
    by_cases hk : k' = k
    · subst hk
      rw [List.filter_cons, if_pos (hP c)]
      simp [mget]
    · rw [List.filter_cons]
      split
      · simp only [mget, if_neg hk]
        exact tC_mget_filter P k hP r
      · simp only [mget, if_neg hk]
        exact tC_mget_filter P k hP r

/-- going through `getShard` first changes nothing -/
theorem getSharded_eq (h : Pfx → Nat) (t : Dests δ) (p : Pfx) : getSharded h t p = get h t p := by
  unfold getSharded get shardOf
  rw [tC_mget_filter _ (h p) (fun c => by simp) t]

private theorem tC_flatMap_single_not_mem {α : Type} (a : List α) (j : Nat) :
    ∀ l : List Nat, j ∉ l → l.flatMap (fun i => if i = j then a else []) = []
  | [], _ => rfl
  | x :: r, hj => by
    rw [List.mem_cons, not_or] at hj
    rw [List.flatMap_cons, if_neg (fun e => hj.1 e.symm), List.nil_append]
    exact tC_flatMap_single_not_mem a j r hj.2

private theorem tC_flatMap_single_mem {α : Type} (a : List α) (j : Nat) :
    ∀ l : List Nat, l.Nodup → j ∈ l → l.flatMap (fun i => if i = j then a else []) = a
  | [], _, hj => by cases hj
  | x :: r, hn, hj => by
    rw [List.nodup_cons] at hn
    rw [List.flatMap_cons]
    by_cases hx : x = j
    · subst hx
      rw [if_pos rfl, tC_flatMap_single_not_mem a x r hn.1, List.append_nil]
    · rw [if_neg hx, List.nil_append]
      rw [List.mem_cons] at hj
      cases hj with
      | inl e => exact absurd e.symm hx
      | inr hj => exact tC_flatMap_single_mem a j r hn.2 hj

private theorem tC_flatMap_append_perm {α β : Type} (g f : α → List β) :
    ∀ l : List α, (l.flatMap (fun i => g i ++ f i)).Perm (l.flatMap g ++ l.flatMap f)
  | [] => List.Perm.refl _
  | x :: r => by
    simp only [List.flatMap_cons]
    have ih := tC_flatMap_append_perm g f r
    -- (g x ++ f x) ++ R  ~  (g x ++ G) ++ (f x ++ F)
    refine ((List.Perm.refl (g x ++ f x)).append ih).trans ?_
    rw [List.append_assoc, List.append_assoc]
    exact (List.Perm.refl (g x)).append (List.perm_append_comm_assoc _ _ _)

private theorem tC_entries_shardOf_cons (kc : Nat × Chain δ) (r : Dests δ) (i : Nat) :
    entries (shardOf (kc :: r) i)
      = (if i = kc.1 % 2048 then kc.2 else []) ++ entries (shardOf r i) := by
  unfold shardOf
  rw [List.filter_cons]
  by_cases hi : i = kc.1 % 2048
  · subst hi
    simp [tC_entries_cons]
  · have : ¬ (kc.1 % 2048 = i) := fun e => hi e.symm
    simp [this, hi]

/-- walking the 2048 shards one after the other visits every destination exactly once -/
theorem entriesSharded_perm (t : Dests δ) : (entriesSharded t).Perm (entries t) := by
  induction t with
  | nil =>
    have : ∀ l : List Nat, l.flatMap (fun i => entries (shardOf ([] : Dests δ) i)) = [] := by
      intro l
      induction l with
      | nil => rfl
      | cons x r ih => rw [List.flatMap_cons, ih]; rfl
    unfold entriesSharded
    rw [this]
    exact List.Perm.refl _
  | cons kc r ih =>
    unfold entriesSharded at ih ⊢
    rw [tC_entries_cons]
    have hf : (fun i => entries (shardOf (kc :: r) i))
        = (fun i => (if i = kc.1 % 2048 then kc.2 else []) ++ entries (shardOf r i)) :=
      funext (tC_entries_shardOf_cons kc r)
    rw [hf]
    refine (tC_flatMap_append_perm _ _ _).trans ?_
    rw [tC_flatMap_single_mem kc.2 (kc.1 % 2048) (List.range 2048) List.nodup_range
      (List.mem_range.2 (Nat.mod_lt _ (by decide)))]
    exact (List.Perm.refl _).append ih

end Tbl
