import Lemmas.GRInv
/-!
No timer of the GR / LLGR model is ever overdue after an event: the fuel `tick` gives `advanceTo` always
suffices, and `nextDue` finds the earliest pending deadline.  Core Lean only.
-/
namespace GR

/-! ## `minBy` -/

theorem minStep_spec (proj : Nat × Nat → Nat) (acc : Option (Nat × Nat)) (a : Nat × Nat) :
    ∃ z, minStep proj acc a = some z ∧ (z = a ∨ acc = some z) ∧ proj z ≤ proj a ∧
      (∀ y, acc = some y → proj z ≤ proj y) := by
  cases acc with
  | none => exact ⟨a, rfl, Or.inl rfl, Nat.le_refl _, fun y hy => absurd hy (by simp)⟩
  | some y =>
    by_cases hlt : proj a < proj y
    · refine ⟨a, by simp [minStep, hlt], Or.inl rfl, Nat.le_refl _, ?_⟩
      intro y' hy'; cases hy'; omega
    · refine ⟨y, by simp [minStep, hlt], Or.inr rfl, by omega, ?_⟩
      intro y' hy'; cases hy'; exact Nat.le_refl _

theorem foldl_minStep_spec (proj : Nat × Nat → Nat) (l : List (Nat × Nat)) :
    ∀ acc : Option (Nat × Nat),
      (l.foldl (minStep proj) acc = none ↔ (acc = none ∧ l = [])) ∧
      (∀ m, l.foldl (minStep proj) acc = some m →
        (m ∈ l ∨ acc = some m) ∧ (∀ x ∈ l, proj m ≤ proj x) ∧ (∀ y, acc = some y → proj m ≤ proj y)) := by
  induction l with
  | nil =>
    intro acc
    refine ⟨by simp, ?_⟩
    intro m hm
    simp only [List.foldl_nil] at hm
    refine ⟨Or.inr hm, fun x hx => absurd hx (by simp), ?_⟩
    intro y hy; rw [hm] at hy; cases hy; exact Nat.le_refl _
  | cons a t ih =>
    intro acc
    obtain ⟨z, hz, hz1, hz2, hz3⟩ := minStep_spec proj acc a
    simp only [List.foldl_cons, hz]
    obtain ⟨ih1, ih2⟩ := ih (some z)
    refine ⟨?_, ?_⟩
    · constructor
      · intro h; have := ih1.mp h; simp at this
      · intro h; simp at h
    · intro m hm
      obtain ⟨h1, h2, h3⟩ := ih2 m hm
      have hmz : proj m ≤ proj z := h3 z rfl
      refine ⟨?_, ?_, ?_⟩
      · rcases h1 with h1 | h1
        · exact Or.inl (List.mem_cons_of_mem _ h1)
        · cases h1
          rcases hz1 with hz1 | hz1
          · subst hz1; exact Or.inl (List.mem_cons_self ..)
          · exact Or.inr hz1
      · intro x hx
        rcases List.mem_cons.mp hx with rfl | hx
        · omega
        · exact h2 x hx
      · intro y hy
        have := hz3 y hy; omega

theorem minBy_none (l : List (Nat × Nat)) (proj : Nat × Nat → Nat) : minBy l proj = none ↔ l = [] := by
  have := (foldl_minStep_spec proj l none).1
  simpa [minBy] using this

theorem minBy_some (l : List (Nat × Nat)) (proj : Nat × Nat → Nat) (m : Nat × Nat) (h : minBy l proj = some m) :
    m ∈ l ∧ ∀ x ∈ l, proj m ≤ proj x := by
  obtain ⟨h1, h2, _⟩ := (foldl_minStep_spec proj l none).2 m h
  refine ⟨?_, h2⟩
  rcases h1 with h1 | h1
  · exact h1
  · exact absurd h1 (by simp)

/-! ## `pickDue`, `nextDue` -/

theorem pickDue_none (a b : Option (Nat × Due)) : pickDue a b = none ↔ a = none ∧ b = none := by
  cases a <;> cases b <;> simp [pickDue]
  split <;> simp

theorem pickDue_some (a b : Option (Nat × Due)) (x : Nat × Due) (h : pickDue a b = some x) :
    (a = some x ∨ b = some x) ∧ (∀ y, a = some y → x.1 ≤ y.1) ∧ (∀ y, b = some y → x.1 ≤ y.1) := by
  cases a with
  | none =>
    simp only [pickDue] at h
    refine ⟨Or.inr h, fun y hy => absurd hy (by simp), ?_⟩
    intro y hy; rw [h] at hy; cases hy; exact Nat.le_refl _
  | some u =>
    cases b with
    | none =>
      simp only [pickDue] at h
      refine ⟨Or.inl h, ?_, fun y hy => absurd hy (by simp)⟩
      intro y hy; rw [h] at hy; cases hy; exact Nat.le_refl _
    | some v =>
      simp only [pickDue] at h
      by_cases hlt : v.1 < u.1
      · simp only [hlt, if_true] at h
        cases h
        refine ⟨Or.inr rfl, ?_, ?_⟩
        · intro y hy; cases hy; omega
        · intro y hy; cases hy; exact Nat.le_refl _
      · simp only [hlt, if_false] at h
        cases h
        refine ⟨Or.inl rfl, ?_, ?_⟩
        · intro y hy; cases hy; exact Nat.le_refl _
        · intro y hy; cases hy; omega

/-- the three candidates of `nextDue` -/
def cand1 (p : Peer) : Option (Nat × Due) := (minBy p.llTimers (·.2)).map (fun t => (t.2, Due.ll t.1))
def cand2 (p : Peer) : Option (Nat × Due) := (minBy p.defTimers (·.1)).map (fun t => (t.1, Due.defer t.2))
def cand3 (p : Peer) : Option (Nat × Due) := p.restartAt.map (fun d => (d, Due.restart))

theorem nextDue_eq (p : Peer) (limit : Nat) :
    nextDue p limit =
      match pickDue (pickDue (cand1 p) (cand2 p)) (cand3 p) with
      | some (d, k) => if d ≤ limit then some (d, k) else none
      | none => none := rfl

theorem cand1_le (p : Peer) (x : Nat × Due) (h : cand1 p = some x) : ∀ t ∈ p.llTimers, x.1 ≤ t.2 := by
  simp only [cand1, Option.map_eq_some_iff] at h
  obtain ⟨m, hm, rfl⟩ := h
  exact (minBy_some _ _ m hm).2

theorem cand1_none (p : Peer) (h : cand1 p = none) : p.llTimers = [] := by
  simp only [cand1, Option.map_eq_none_iff] at h
  exact (minBy_none _ _).mp h

/-- nothing is due: every pending LLGR timer and the restart timer lie strictly after `limit` -/
theorem nextDue_none (p : Peer) (limit : Nat) (h : nextDue p limit = none) :
    (∀ t ∈ p.llTimers, limit < t.2) ∧ (∀ D, p.restartAt = some D → limit < D) := by
  rw [nextDue_eq] at h
  cases hp : pickDue (pickDue (cand1 p) (cand2 p)) (cand3 p) with
  | none =>
    obtain ⟨h12, h3⟩ := (pickDue_none _ _).mp hp
    obtain ⟨h1, _⟩ := (pickDue_none _ _).mp h12
    refine ⟨?_, ?_⟩
    · intro t ht; rw [cand1_none p h1] at ht; exact absurd ht (by simp)
    · intro D hD; simp [cand3, hD] at h3
  | some x =>
    obtain ⟨d, k⟩ := x
    rw [hp] at h
    simp only at h
    have hlim : limit < d := by
      by_cases hle : d ≤ limit
      · simp [hle] at h
      · omega
    obtain ⟨_, hle12, hle3⟩ := pickDue_some _ _ _ hp
    refine ⟨?_, ?_⟩
    · intro t ht
      cases h12 : pickDue (cand1 p) (cand2 p) with
      | none =>
        obtain ⟨h1, _⟩ := (pickDue_none _ _).mp h12
        rw [cand1_none p h1] at ht; exact absurd ht (by simp)
      | some y =>
        have hdy : d ≤ y.1 := hle12 y h12
        obtain ⟨_, hy1, _⟩ := pickDue_some _ _ _ h12
        cases h1 : cand1 p with
        | none => rw [cand1_none p h1] at ht; exact absurd ht (by simp)
        | some z =>
          have := hy1 z h1
          have := cand1_le p z h1 t ht
          omega
    · intro D hD
      have := hle3 (D, Due.restart) (by simp [cand3, hD])
      simp at this
      omega

/-- what is due is really pending -/
theorem nextDue_some (p : Peer) (limit d : Nat) (k : Due) (h : nextDue p limit = some (d, k)) :
    match k with
    | .ll f => (f, d) ∈ p.llTimers
    | .defer dt => (d, dt) ∈ p.defTimers
    | .restart => p.restartAt = some d := by
  rw [nextDue_eq] at h
  cases hp : pickDue (pickDue (cand1 p) (cand2 p)) (cand3 p) with
  | none => rw [hp] at h; simp at h
  | some x =>
    obtain ⟨d', k'⟩ := x
    rw [hp] at h
    simp only at h
    by_cases hle : d' ≤ limit
    · simp only [hle, if_true] at h
      cases h
      obtain ⟨hsrc, _, _⟩ := pickDue_some _ _ _ hp
      rcases hsrc with hsrc | hsrc
      · obtain ⟨hsrc2, _, _⟩ := pickDue_some _ _ _ hsrc
        rcases hsrc2 with h1 | h2
        · simp only [cand1, Option.map_eq_some_iff] at h1
          obtain ⟨m, hm, heq⟩ := h1
          cases heq
          have := (minBy_some _ _ m hm).1
          simpa using this
        · simp only [cand2, Option.map_eq_some_iff] at h2
          obtain ⟨m, hm, heq⟩ := h2
          cases heq
          have := (minBy_some _ _ m hm).1
          simpa using this
      · simp only [cand3, Option.map_eq_some_iff] at hsrc
        obtain ⟨D, hD, heq⟩ := hsrc
        cases heq
        simpa using hD
    · simp [hle] at h

/-! ## the fuel of `advanceTo` suffices -/

/-- number of timer firings still possible: each pending timer once, and the restart timer may start one
LLGR timer per family -/
def mu (p : Peer) : Nat :=
  p.llTimers.length + p.defTimers.length + (if p.restartAt.isSome then p.fams.length + 1 else 0)

theorem length_removeFirst (l : List (Nat × Nat)) (x : Nat × Nat) (h : x ∈ l) :
    (removeFirst l x).length + 1 = l.length := by
  induction l with
  | nil => exact absurd h (by simp)
  | cons y ys ih =>
    by_cases hc : (y == x) = true
    · simp [removeFirst, hc]
    · have hne : y ≠ x := by intro he; subst he; simp at hc
      have hx : x ∈ ys := by
        rcases List.mem_cons.mp h with h | h
        · exact absurd h.symm hne
        · exact h
      simp only [removeFirst, hc, Bool.false_eq_true, if_false, List.length_cons]
      have := ih hx
      omega

theorem length_foldl_startLL (ll : List Nat) : ∀ q : Peer,
    ((ll.foldl startLL q).llTimers.length = q.llTimers.length + ll.length) ∧
    ((ll.foldl startLL q).fams.length = q.fams.length) := by
  induction ll with
  | nil => intro q; exact ⟨rfl, rfl⟩
  | cons a t ih =>
    intro q
    simp only [List.foldl_cons]
    obtain ⟨h1, h2⟩ := ih (startLL q a)
    refine ⟨?_, ?_⟩
    · rw [h1]; simp only [startLL, List.length_append, List.length_cons, List.length_nil]; omega
    · rw [h2]; simp [startLL]

theorem length_llFams (p : Peer) : (llFams p).length ≤ p.fams.length := by
  simp only [llFams, List.length_map]
  exact List.length_filter_le _ _

/-- what `idlePurge` does to the timers -/
theorem idlePurge_timers (p : Peer) :
    (idlePurge p).llTimers.length ≤ p.llTimers.length + p.fams.length ∧
    (idlePurge p).defTimers = p.defTimers ∧ (idlePurge p).restartAt = p.restartAt ∧
    (idlePurge p).fams.length = p.fams.length := by
  by_cases hc : (p.longLived && !p.llRun) = true
  · by_cases hempty : (llFams p).isEmpty = true
    · rw [idlePurge_ll_empty p hc hempty]
      simp [stopPeerRestarting, llStart]
    · rw [idlePurge_ll_start p hc hempty]
      obtain ⟨h1, h2⟩ := length_foldl_startLL (llFams p) (llStart p)
      obtain ⟨hf, _⟩ := foldP_foldl (llFams p) (llStart p)
      refine ⟨?_, hf.dts, hf.ra, h2⟩
      rw [h1]
      have := length_llFams p
      show p.llTimers.length + (llFams p).length ≤ _
      omega
  · by_cases hl : (!p.longLived) = true
    · rw [idlePurge_no_ll p hc hl]
      simp
    · rw [idlePurge_running p hc hl]
      simp

theorem mu_fire_lt (p : Peer) (limit d : Nat) (k : Due) (h : nextDue p limit = some (d, k)) :
    mu (fire p d k) < mu p := by
  have hsrc := nextDue_some p limit d k h
  cases k with
  | ll f =>
    simp only at hsrc
    have hlt : (p.llTimers.filter (fun t => t.1 != f)).length < p.llTimers.length := by
      rw [List.length_filter_lt_length_iff_exists]
      exact ⟨(f, d), hsrc, by simp⟩
    show mu (onLLExpire { p with now := d } f) < mu p
    rw [onLLExpire_eq]
    split
    · simp only [mu, stopPeerRestarting, llExpired1, List.length_map, List.length_nil]
      have : 0 < p.llTimers.length := by omega
      omega
    · simp only [mu, llExpired1, List.length_map]
      omega
  | defer dt =>
    simp only at hsrc
    show mu (onDeferralExpire { p with now := d, defTimers := removeFirst p.defTimers (d, dt) } dt) < mu p
    apply onDeferralExpire_ind (fun x => mu x < mu p)
    · simp only [mu]
      have := length_removeFirst p.defTimers (d, dt) hsrc
      omega
    · simp only [mu]
      have := length_removeFirst p.defTimers (d, dt) hsrc
      omega
  | restart =>
    simp only at hsrc
    show mu (onRestartExpire { p with now := d }) < mu p
    rw [onRestartExpire_eq]
    have hmu : mu p = p.llTimers.length + p.defTimers.length + (p.fams.length + 1) := by
      simp [mu, hsrc]
    rw [hmu]
    split
    · simp only [mu, Option.isSome_none, Bool.false_eq_true, if_false]
      omega
    · rename_i he
      have he' : p.est = false := by simpa using he
      split
      · rename_i hpr
        have hpr' : p.peerRestarting = true := hpr
        rw [onStateChange_down ({ p with now := d, restartAt := none } : Peer) .idle false true he' (by simp)]
        have : (({ p with now := d, restartAt := none } : Peer).peerRestarting && Next.idle == Next.idle && true) = true := by
          simp [hpr']
        rw [if_pos this]
        obtain ⟨h1, h2, h3, h4⟩ := idlePurge_timers ({ p with now := d, restartAt := none } : Peer)
        have h1' : (idlePurge ({ p with now := d, restartAt := none } : Peer)).llTimers.length ≤
            p.llTimers.length + p.fams.length := h1
        have h2' : (idlePurge ({ p with now := d, restartAt := none } : Peer)).defTimers = p.defTimers := h2
        have h3' : (idlePurge ({ p with now := d, restartAt := none } : Peer)).restartAt = none := h3
        simp only [mu, h2', h3', Option.isSome_none, Bool.false_eq_true, if_false]
        omega
      · simp only [mu, Option.isSome_none, Bool.false_eq_true, if_false]
        omega

theorem nextDue_now (p : Peer) (t limit : Nat) : nextDue { p with now := t } limit = nextDue p limit := rfl

theorem advanceTo_post (fuel : Nat) : ∀ (p : Peer) (limit : Nat), mu p ≤ fuel →
    (advanceTo fuel p limit).now = limit ∧ nextDue (advanceTo fuel p limit) limit = none := by
  induction fuel with
  | zero =>
    intro p limit h
    have h0 : mu p = 0 := by omega
    have h1 : p.llTimers = [] := by
      cases hl : p.llTimers with
      | nil => rfl
      | cons a t => simp [mu, hl] at h0
    have h2 : p.defTimers = [] := by
      cases hl : p.defTimers with
      | nil => rfl
      | cons a t => simp [mu, hl] at h0
    have h3 : p.restartAt = none := by
      cases hr : p.restartAt with
      | none => rfl
      | some D => simp [mu, hr] at h0
    refine ⟨rfl, ?_⟩
    show nextDue { p with now := limit } limit = none
    rw [nextDue_now, nextDue_eq]
    simp [cand1, cand2, cand3, h1, h2, h3, minBy, pickDue]
  | succ n ih =>
    intro p limit h
    unfold advanceTo
    cases hd : nextDue p limit with
    | none => exact ⟨rfl, by show nextDue { p with now := limit } limit = none; rw [nextDue_now]; exact hd⟩
    | some x =>
      obtain ⟨d, k⟩ := x
      have := mu_fire_lt p limit d k hd
      exact ih _ _ (by omega)

/-- after `tick` the clock shows the target time and nothing pending is due -/
theorem tick_post (p : Peer) (d : Nat) :
    (tick p d).now = p.now + d ∧
    (∀ t ∈ (tick p d).llTimers, (tick p d).now < t.2) ∧
    (∀ D, (tick p d).restartAt = some D → (tick p d).now < D) := by
  have hfuel : mu p ≤ p.llTimers.length + p.defTimers.length + p.fams.length + 2 := by
    simp only [mu]; split <;> omega
  obtain ⟨h1, h2⟩ := advanceTo_post _ p (p.now + d) hfuel
  obtain ⟨h3, h4⟩ := nextDue_none _ _ h2
  refine ⟨h1, ?_, ?_⟩
  · intro t ht
    show (advanceTo _ p (p.now + d)).now < t.2
    rw [h1]; exact h3 t ht
  · intro D hD
    show (advanceTo _ p (p.now + d)).now < D
    rw [h1]; exact h4 D hD

/-- no timer is overdue -/
def Timely (p : Peer) : Prop :=
  (∀ t ∈ p.llTimers, p.now < t.2) ∧ (∀ D, p.restartAt = some D → p.now < D)

theorem timely_step (p : Peer) (e : Ev) : Timely (step p e) := by
  cases e with
  | tick d => exact (tick_post p d).2
  | est c => exact (tick_post _ 0).2
  | loss k => exact (tick_post _ 0).2
  | goto n ad => exact (tick_post _ 0).2
  | ann f k v noLL n rj => exact (tick_post _ 0).2
  | wd f k => exact (tick_post _ 0).2
  | eor f => exact (tick_post _ 0).2
  | del => exact (tick_post _ 0).2

theorem timely_run (es : List Ev) : ∀ p : Peer, Timely p → Timely (run p es) := by
  induction es with
  | nil => intro p h; exact h
  | cons e es ih => intro p _; exact ih _ (timely_step p e)

theorem timely_init (p : Peer) (hi : Init p) : Timely p :=
  ⟨fun t ht => by rw [hi.lls] at ht; exact absurd ht (by simp),
   fun D hD => by rw [hi.ra] at hD; exact absurd hD (by simp)⟩

/-! ## the peer is restarting only after a graceful loss -/

/-- kinds of loss that are never classified as graceful, whatever was negotiated -/
def neverGraceful : Loss → Bool
  | .notifSent _ _ => true
  | .adminDown => true
  | .prefixLimit => true
  | _ => false

theorem neverGraceful_spec (en nb : Bool) (k : Loss) (h : neverGraceful k = true) : graceful en nb k = false := by
  cases k <;> simp [neverGraceful] at h <;> cases en <;> cases nb <;>
    simp [graceful, classify, rawReason, reasonChGraceful]

/-- events of a history in which no loss can be graceful -/
def NoGraceful : Ev → Prop
  | .loss k => neverGraceful k = true
  | _ => True

def NotRestarting (p : Peer) : Prop := p.peerRestarting = false

theorem nr_fire (p : Peer) (d : Nat) (k : Due) (h : NotRestarting p) : NotRestarting (fire p d k) := by
  cases k with
  | ll f =>
    show NotRestarting (onLLExpire { p with now := d } f)
    rw [onLLExpire_eq]
    split
    · rfl
    · exact h
  | defer dt =>
    show NotRestarting (onDeferralExpire { p with now := d, defTimers := removeFirst p.defTimers (d, dt) } dt)
    exact onDeferralExpire_ind NotRestarting _ dt h h
  | restart =>
    show NotRestarting (onRestartExpire { p with now := d })
    rw [onRestartExpire_eq]
    have h' : p.peerRestarting = false := h
    split
    · exact h
    · split
      · rename_i hpr
        have : p.peerRestarting = true := hpr
        rw [h'] at this; exact absurd this (by simp)
      · exact h

theorem nr_advanceTo (fuel : Nat) : ∀ (p : Peer) (limit : Nat), NotRestarting p → NotRestarting (advanceTo fuel p limit) := by
  induction fuel with
  | zero => intro p limit h; exact h
  | succ n ih =>
    intro p limit h
    unfold advanceTo
    split
    · exact h
    · exact ih _ _ (nr_fire p _ _ h)

theorem nr_stepRaw (p : Peer) (e : Ev) (he : NoGraceful e) (h : NotRestarting p) : NotRestarting (stepRaw p e) := by
  have h' : p.peerRestarting = false := h
  cases e with
  | est c =>
    show NotRestarting (onEst p c)
    rw [onEst_eq]
    split
    · exact h
    · rename_i hest
      have hest' : p.est = false := by simpa using hest
      have hs := sceP_stateChangeEst p c
      have hq : (stateChangeEst p c).est = false := by rw [hs.est]; exact hest'
      rw [onStateChange_est _ false false hq]
      show (estDefer (estPurge { stateChangeEst p c with est := true })).peerRestarting = false
      have hpr0 : ({ stateChangeEst p c with est := true } : Peer).peerRestarting = false := by
        show (stateChangeEst p c).peerRestarting = false
        rw [hs.pr]; exact h'
      generalize ({ stateChangeEst p c with est := true } : Peer) = q1 at hpr0 ⊢
      apply estDefer_ind (fun x => x.peerRestarting = false)
      intro _ _
      show (estPurge q1).peerRestarting = false
      simp only [estPurge, hpr0, Bool.false_eq_true, if_false]
  | loss k =>
    have hg : graceful p.enabled p.notif k = false := neverGraceful_spec _ _ k he
    show NotRestarting (onDown p (graceful p.enabled p.notif k))
    rw [hg]
    unfold onDown
    split
    · exact h
    · rename_i hest
      have hest' : p.est = true := by simpa using hest
      have : onStateChange p .idle false = peerDown p false := by simp [onStateChange, hest']
      simp only [Bool.false_eq_true, if_false]
      rw [this]
      rfl
  | goto n ad =>
    simp only [stepRaw]
    split
    · exact h
    · rename_i hc
      have hest : p.est = false := by cases hp : p.est <;> simp_all
      have hn : n ≠ .established := by intro hn; subst hn; simp at hc
      rw [onStateChange_down p n false ad hest hn]
      simp only [h', Bool.false_and, Bool.false_eq_true, if_false]
      exact h
  | ann f k v noLL n rj =>
    show NotRestarting (onAnnounce p f k v noLL n rj)
    unfold onAnnounce
    split <;> exact h
  | wd f k =>
    show NotRestarting (onWithdraw p f k)
    unfold onWithdraw
    split <;> exact h
  | eor f =>
    show NotRestarting (onEOR p f)
    unfold onEOR
    split
    · exact h
    · have h1 : (eorLocal p (markEOR p f)).peerRestarting = false := by
        unfold eorLocal; split <;> exact h'
      show (eorPeer (eorLocal p (markEOR p f))).peerRestarting = false
      simp only [eorPeer, h1, Bool.false_eq_true, if_false]
  | tick d => exact nr_advanceTo _ p _ h
  | del => rfl

theorem nr_step (p : Peer) (e : Ev) (he : NoGraceful e) (h : NotRestarting p) : NotRestarting (step p e) := by
  cases e with
  | tick d => exact nr_advanceTo _ p _ h
  | est c => exact nr_advanceTo _ _ _ (nr_stepRaw p _ he h)
  | loss k => exact nr_advanceTo _ _ _ (nr_stepRaw p _ he h)
  | goto n ad => exact nr_advanceTo _ _ _ (nr_stepRaw p _ he h)
  | ann f k v noLL n rj => exact nr_advanceTo _ _ _ (nr_stepRaw p _ he h)
  | wd f k => exact nr_advanceTo _ _ _ (nr_stepRaw p _ he h)
  | eor f => exact nr_advanceTo _ _ _ (nr_stepRaw p _ he h)
  | del => exact nr_advanceTo _ _ _ (nr_stepRaw p _ he h)

theorem nr_run (es : List Ev) : ∀ p : Peer, (∀ e ∈ es, NoGraceful e) → NotRestarting p → NotRestarting (run p es) := by
  induction es with
  | nil => intro p _ h; exact h
  | cons e es ih =>
    intro p hok h
    exact ih _ (fun e' he' => hok e' (List.mem_cons_of_mem _ he')) (nr_step p e (hok e (List.mem_cons_self ..)) h)

end GR
