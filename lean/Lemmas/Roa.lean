/-
  Lemmas for C16: the bucket table of Model/Roa.lean is a set of records.
  `add` / `delete` / `deleteAll` / `addAll` act on `recs` as insert / remove / remove-by-source /
  union, and keep the table well formed (one bucket per prefix, no duplicate in a bucket).
-/
import Model.Roa
namespace Roa

/-- one bucket per prefix, no duplicate entry in a bucket -/
def WF (t : Table) : Prop := (t.map (·.1)).Nodup ∧ ∀ b ∈ t, b.2.Nodup

theorem wf_nil : WF [] := by simp [WF]

theorem wf_cons {q : Prefix} {es : List Roa} {t : Table} :
    WF ((q, es) :: t) ↔ (∀ b ∈ t, b.1 ≠ q) ∧ es.Nodup ∧ WF t := by
  simp only [WF, List.map_cons, List.nodup_cons, List.mem_map, List.mem_cons, forall_eq_or_imp]
  constructor
  · rintro ⟨⟨h1, h2⟩, h3, h4⟩
    exact ⟨fun b hb e => h1 ⟨b, hb, e⟩, h3, h2, h4⟩
  · rintro ⟨h1, h3, h2, h4⟩
    exact ⟨⟨fun ⟨b, hb, e⟩ => h1 b hb e, h2⟩, h3, h4⟩

theorem mem_recs {t : Table} {x : Rec} : x ∈ recs t ↔ ∃ es, (x.1, es) ∈ t ∧ x.2 ∈ es := by
  simp only [recs, List.mem_flatMap, List.mem_map]
  constructor
  · rintro ⟨b, hb, r, hr, rfl⟩
    exact ⟨b.2, hb, hr⟩
  · rintro ⟨es, hb, hr⟩
    exact ⟨(x.1, es), hb, x.2, hr, rfl⟩

theorem recs_cons (q : Prefix) (es : List Roa) (t : Table) (x : Rec) :
    x ∈ recs ((q, es) :: t) ↔ (x.1 = q ∧ x.2 ∈ es) ∨ x ∈ recs t := by
  simp only [recs, List.flatMap_cons, List.mem_append, List.mem_map]
  constructor
  · rintro (⟨r, hr, rfl⟩ | h)
    · exact Or.inl ⟨rfl, hr⟩
    · exact Or.inr h
  · rintro (⟨h1, h2⟩ | h)
    · exact Or.inl ⟨x.2, h2, by cases x; simp_all⟩
    · exact Or.inr h

/-! ### the table lists every record once -/

theorem nodup_map_pair (q : Prefix) (es : List Roa) (h : es.Nodup) : (es.map fun r => (q, r)).Nodup := by
  induction es with
  | nil => simp
  | cons x xs ih =>
    rw [List.nodup_cons] at h
    rw [List.map_cons, List.nodup_cons]
    refine ⟨?_, ih h.2⟩
    intro hm
    rw [List.mem_map] at hm
    obtain ⟨y, hy, e⟩ := hm
    have : y = x := congrArg Prod.snd e
    exact h.1 (this ▸ hy)

theorem recs_nodup (t : Table) (h : WF t) : (recs t).Nodup := by
  induction t with
  | nil => simp [recs]
  | cons c t ih =>
    obtain ⟨q, es⟩ := c
    rw [wf_cons] at h
    have e : recs ((q, es) :: t) = (es.map fun r => (q, r)) ++ recs t := by simp [recs]
    rw [e, List.nodup_append]
    refine ⟨nodup_map_pair q es h.2.1, ih h.2.2, ?_⟩
    intro a ha b hb hab
    rw [List.mem_map] at ha
    obtain ⟨r, _, rfl⟩ := ha
    obtain ⟨es', hb', _⟩ := mem_recs.mp hb
    exact h.1 _ hb' (by rw [← hab])

/-- the prefixes counted for a source: each once, and exactly those under which it has a record -/
theorem infoPrefixList_nodup (t : Table) (fam src : Nat) (h : WF t) : (infoPrefixList t fam src).Nodup := by
  unfold infoPrefixList
  exact (List.filter_sublist.map _).nodup h.1

theorem mem_infoPrefixList (t : Table) (fam src : Nat) (p : Prefix) :
    p ∈ infoPrefixList t fam src ↔ p.fam = fam ∧ ∃ r, (p, r) ∈ recs t ∧ r.src = src := by
  simp only [infoPrefixList, List.mem_map, List.mem_filter, Bool.and_eq_true, beq_iff_eq, List.any_eq_true]
  constructor
  · rintro ⟨b, ⟨hb, hf, r, hr, hs⟩, rfl⟩
    exact ⟨hf, r, mem_recs.mpr ⟨b.2, hb, hr⟩, hs⟩
  · rintro ⟨hf, r, hr, hs⟩
    obtain ⟨es, hb, hre⟩ := mem_recs.mp hr
    exact ⟨(p, es), ⟨hb, hf, r, hre, hs⟩, rfl⟩

/-! ### buckets -/

theorem mem_insertSorted (r y : Roa) (es : List Roa) : y ∈ insertSorted r es ↔ y = r ∨ y ∈ es := by
  induction es with
  | nil => simp [insertSorted]
  | cons x xs ih =>
    unfold insertSorted
    split
    · simp
    · simp only [List.mem_cons, ih]
      constructor
      · rintro (h | h | h) <;> simp [h]
      · rintro (h | h | h) <;> simp [h]

theorem nodup_insertSorted (r : Roa) (es : List Roa) (hr : r ∉ es) (hn : es.Nodup) :
    (insertSorted r es).Nodup := by
  induction es with
  | nil => simp [insertSorted]
  | cons x xs ih =>
    rw [List.nodup_cons] at hn
    rw [List.mem_cons, not_or] at hr
    unfold insertSorted
    split
    · rw [List.nodup_cons, List.nodup_cons]
      exact ⟨by simp [hr.1, hr.2], hn⟩
    · rw [List.nodup_cons, mem_insertSorted]
      refine ⟨?_, ih hr.2 hn.2⟩
      rintro (h | h)
      · exact hr.1 h.symm
      · exact hn.1 h

theorem mem_bucketAdd (es : List Roa) (r y : Roa) : y ∈ bucketAdd es r ↔ y = r ∨ y ∈ es := by
  unfold bucketAdd
  split
  · constructor
    · exact Or.inr
    · rintro (h | h)
      · rw [h]; assumption
      · exact h
  · exact mem_insertSorted r y es

theorem nodup_bucketAdd (es : List Roa) (r : Roa) (hn : es.Nodup) : (bucketAdd es r).Nodup := by
  unfold bucketAdd
  split
  · exact hn
  · exact nodup_insertSorted r es (by assumption) hn

/-! ### Add -/

theorem mem_recs_add (t : Table) (p : Prefix) (r : Roa) (x : Rec) :
    x ∈ recs (add t p r) ↔ x = (p, r) ∨ x ∈ recs t := by
  induction t with
  | nil =>
    simp only [add, recs_cons, List.mem_singleton]
    constructor
    · rintro (⟨h1, h2⟩ | h)
      · left; cases x; simp_all
      · exact Or.inr h
    · rintro (h | h)
      · left; rw [h]; exact ⟨rfl, rfl⟩
      · exact Or.inr h
  | cons b t ih =>
    obtain ⟨q, es⟩ := b
    unfold add
    split
    · rename_i hq
      subst hq
      simp only [recs_cons, mem_bucketAdd]
      constructor
      · rintro (⟨h1, h2 | h2⟩ | h)
        · left; cases x; simp_all
        · right; left; exact ⟨h1, h2⟩
        · right; right; exact h
      · rintro (h | ⟨h1, h2⟩ | h)
        · left; rw [h]; exact ⟨rfl, Or.inl rfl⟩
        · left; exact ⟨h1, Or.inr h2⟩
        · right; exact h
    · simp only [recs_cons, ih]
      constructor
      · rintro (h | h | h)
        · right; left; exact h
        · left; exact h
        · right; right; exact h
      · rintro (h | h | h)
        · right; left; exact h
        · left; exact h
        · right; right; exact h

theorem keys_add (t : Table) (p : Prefix) (r : Roa) (b : Prefix × List Roa) (hb : b ∈ add t p r) :
    b.1 = p ∨ ∃ b' ∈ t, b'.1 = b.1 := by
  induction t with
  | nil =>
    simp only [add, List.mem_singleton] at hb
    left; rw [hb]
  | cons c t ih =>
    obtain ⟨q, es⟩ := c
    unfold add at hb
    split at hb
    · rename_i hq
      rw [List.mem_cons] at hb
      rcases hb with h | h
      · left; rw [h]; exact hq
      · right; exact ⟨b, List.mem_cons_of_mem _ h, rfl⟩
    · rw [List.mem_cons] at hb
      rcases hb with h | h
      · right; exact ⟨(q, es), List.mem_cons_self, by rw [h]⟩
      · rcases ih h with h' | ⟨b', hb', e⟩
        · left; exact h'
        · right; exact ⟨b', List.mem_cons_of_mem _ hb', e⟩

theorem wf_add (t : Table) (p : Prefix) (r : Roa) (h : WF t) : WF (add t p r) := by
  induction t with
  | nil =>
    unfold add
    rw [wf_cons]
    exact ⟨by simp, by simp, wf_nil⟩
  | cons c t ih =>
    obtain ⟨q, es⟩ := c
    rw [wf_cons] at h
    unfold add
    split
    · rw [wf_cons]
      exact ⟨h.1, nodup_bucketAdd es r h.2.1, h.2.2⟩
    · rename_i hq
      rw [wf_cons]
      refine ⟨?_, h.2.1, ih h.2.2⟩
      intro b hb
      rcases keys_add t p r b hb with h' | ⟨b', hb', e⟩
      · rw [h']; exact fun e => hq e.symm
      · rw [← e]; exact h.1 b' hb'

/-! ### Delete -/

theorem mem_recs_delete (t : Table) (p : Prefix) (r : Roa) (x : Rec) (h : WF t) :
    x ∈ recs (delete t p r) ↔ x ∈ recs t ∧ x ≠ (p, r) := by
  induction t with
  | nil => simp [delete, recs]
  | cons c t ih =>
    obtain ⟨q, es⟩ := c
    rw [wf_cons] at h
    unfold delete
    split
    · rename_i hq
      subst hq
      simp only [recs_cons]
      rw [List.Nodup.mem_erase_iff h.2.1]
      constructor
      · rintro (⟨h1, h2, h3⟩ | hx)
        · exact ⟨Or.inl ⟨h1, h3⟩, fun e => h2 (by rw [e])⟩
        · refine ⟨Or.inr hx, fun e => ?_⟩
          obtain ⟨es', hb, _⟩ := mem_recs.mp hx
          exact h.1 _ hb (by rw [e])
      · rintro ⟨⟨h1, h2⟩ | hx, hne⟩
        · left
          refine ⟨h1, fun e => hne ?_, h2⟩
          cases x; simp_all
        · exact Or.inr hx
    · rename_i hq
      simp only [recs_cons, ih h.2.2]
      constructor
      · rintro (⟨h1, h2⟩ | ⟨hx, hne⟩)
        · exact ⟨Or.inl ⟨h1, h2⟩, fun e => hq (by rw [← h1, e])⟩
        · exact ⟨Or.inr hx, hne⟩
      · rintro ⟨h1 | hx, hne⟩
        · exact Or.inl h1
        · exact Or.inr ⟨hx, hne⟩

theorem keys_delete (t : Table) (p : Prefix) (r : Roa) (b : Prefix × List Roa) (hb : b ∈ delete t p r) :
    ∃ b' ∈ t, b'.1 = b.1 := by
  induction t with
  | nil => simp [delete] at hb
  | cons c t ih =>
    obtain ⟨q, es⟩ := c
    unfold delete at hb
    split at hb <;> rw [List.mem_cons] at hb
    · rcases hb with h | h
      · exact ⟨(q, es), List.mem_cons_self, by rw [h]⟩
      · exact ⟨b, List.mem_cons_of_mem _ h, rfl⟩
    · rcases hb with h | h
      · exact ⟨(q, es), List.mem_cons_self, by rw [h]⟩
      · obtain ⟨b', hb', e⟩ := ih h
        exact ⟨b', List.mem_cons_of_mem _ hb', e⟩

theorem wf_delete (t : Table) (p : Prefix) (r : Roa) (h : WF t) : WF (delete t p r) := by
  induction t with
  | nil => exact h
  | cons c t ih =>
    obtain ⟨q, es⟩ := c
    rw [wf_cons] at h
    unfold delete
    split
    · rw [wf_cons]
      exact ⟨h.1, h.2.1.erase r, h.2.2⟩
    · rw [wf_cons]
      refine ⟨?_, h.2.1, ih h.2.2⟩
      intro b hb
      obtain ⟨b', hb', e⟩ := keys_delete t p r b hb
      rw [← e]; exact h.1 b' hb'

/-! ### DeleteAll -/

theorem mem_recs_deleteAll (t : Table) (s : Nat) (x : Rec) :
    x ∈ recs (deleteAll t s) ↔ x ∈ recs t ∧ x.2.src ≠ s := by
  simp only [mem_recs, deleteAll, List.mem_filter, List.mem_map]
  constructor
  · rintro ⟨es, ⟨⟨b, hb, e⟩, _⟩, hx⟩
    have e1 : b.1 = x.1 := congrArg Prod.fst e
    have e2 : b.2.filter (fun r => r.src != s) = es := congrArg Prod.snd e
    rw [← e2, List.mem_filter] at hx
    refine ⟨⟨b.2, ?_, hx.1⟩, by simpa using hx.2⟩
    rw [← e1]; exact hb
  · rintro ⟨⟨es, hb, hx⟩, hs⟩
    have hx' : x.2 ∈ es.filter (fun r => r.src != s) := by
      rw [List.mem_filter]; exact ⟨hx, by simpa using hs⟩
    refine ⟨es.filter (fun r => r.src != s), ⟨⟨(x.1, es), hb, rfl⟩, ?_⟩, hx'⟩
    cases hf : es.filter (fun r => r.src != s) with
    | nil => rw [hf] at hx'; cases hx'
    | cons _ _ => rfl

theorem wf_deleteAll (t : Table) (s : Nat) (h : WF t) : WF (deleteAll t s) := by
  induction t with
  | nil => exact h
  | cons c t ih =>
    obtain ⟨q, es⟩ := c
    rw [wf_cons] at h
    have key : ∀ b ∈ deleteAll t s, b.1 ≠ q := by
      intro b hb
      simp only [deleteAll, List.mem_filter, List.mem_map] at hb
      obtain ⟨⟨b', hb', e⟩, _⟩ := hb
      rw [← e]; exact h.1 b' hb'
    have step : deleteAll ((q, es) :: t) s =
        if (es.filter fun r => r.src != s).isEmpty then deleteAll t s
        else (q, es.filter fun r => r.src != s) :: deleteAll t s := by
      simp only [deleteAll, List.map_cons, List.filter_cons]
      split <;> simp_all
    rw [step]
    split
    · exact ih h.2.2
    · rw [wf_cons]
      exact ⟨key, h.2.1.filter _, ih h.2.2⟩

/-! ### the pending buffer -/

theorem mem_recs_addAll (l : List Rec) (t : Table) (x : Rec) :
    x ∈ recs (addAll t l) ↔ x ∈ l ∨ x ∈ recs t := by
  induction l generalizing t with
  | nil => simp [addAll]
  | cons y ys ih =>
    simp only [addAll, ih, mem_recs_add, List.mem_cons]
    constructor
    · rintro (h | h | h)
      · exact Or.inl (Or.inr h)
      · exact Or.inl (Or.inl h)
      · exact Or.inr h
    · rintro ((h | h) | h)
      · exact Or.inr (Or.inl h)
      · exact Or.inl h
      · exact Or.inr (Or.inr h)

theorem wf_addAll (l : List Rec) (t : Table) (h : WF t) : WF (addAll t l) := by
  induction l generalizing t with
  | nil => exact h
  | cons y ys ih => exact ih _ (wf_add t y.1 y.2 h)

/-! ### the covering walk -/

theorem mem_insLen (b y : Prefix × List Roa) (l : List (Prefix × List Roa)) :
    y ∈ insLen b l ↔ y = b ∨ y ∈ l := by
  induction l with
  | nil => simp [insLen]
  | cons x xs ih =>
    unfold insLen
    split
    · simp
    · simp only [List.mem_cons, ih]
      constructor
      · rintro (h | h | h) <;> simp [h]
      · rintro (h | h | h) <;> simp [h]

theorem mem_sortLen (y : Prefix × List Roa) (l : List (Prefix × List Roa)) : y ∈ sortLen l ↔ y ∈ l := by
  induction l with
  | nil => simp [sortLen]
  | cons x xs ih =>
    have : sortLen (x :: xs) = insLen x (sortLen xs) := rfl
    rw [this, mem_insLen, ih, List.mem_cons]

theorem mem_recs_walkMatch (t : Table) (q : Prefix) (x : Rec) :
    x ∈ recs (walkMatch t q) ↔ x ∈ recs t ∧ covers x.1 q = true := by
  simp only [mem_recs, walkMatch, mem_sortLen, List.mem_filter]
  constructor
  · rintro ⟨es, ⟨hb, hc⟩, hx⟩
    exact ⟨⟨es, hb, hx⟩, hc⟩
  · rintro ⟨⟨es, hb, hx⟩, hc⟩
    exact ⟨es, ⟨hb, hc⟩, hx⟩

/-- the walk visits the covering prefixes by ascending length -/
theorem sortLen_sorted (l : List (Prefix × List Roa)) :
    (sortLen l).Pairwise (fun a b => a.1.len ≤ b.1.len) := by
  induction l with
  | nil => simp [sortLen]
  | cons x xs ih =>
    have e : sortLen (x :: xs) = insLen x (sortLen xs) := rfl
    rw [e]
    generalize sortLen xs = s at ih
    induction s with
    | nil => simp [insLen]
    | cons y ys ih2 =>
      rw [List.pairwise_cons] at ih
      unfold insLen
      split
      · rename_i hlt
        rw [List.pairwise_cons, List.pairwise_cons]
        refine ⟨?_, ih.1, ih.2⟩
        intro b hb
        rw [List.mem_cons] at hb
        rcases hb with rfl | hb
        · omega
        · have := ih.1 b hb; omega
      · rename_i hge
        rw [List.pairwise_cons]
        refine ⟨?_, ih2 ih.2⟩
        intro b hb
        rw [mem_insLen] at hb
        rcases hb with rfl | hb
        · omega
        · exact ih.1 b hb

/-- a bucket stays ordered by (max length, AS) -/
def lessEq (a b : Roa) : Prop := a.maxLen < b.maxLen ∨ (a.maxLen = b.maxLen ∧ a.as ≤ b.as)

theorem insertSorted_sorted (r : Roa) (es : List Roa) (h : es.Pairwise lessEq) :
    (insertSorted r es).Pairwise lessEq := by
  induction es with
  | nil => simp [insertSorted]
  | cons y ys ih =>
    rw [List.pairwise_cons] at h
    unfold insertSorted
    split
    · rename_i hl
      rw [List.pairwise_cons, List.pairwise_cons]
      refine ⟨?_, h.1, h.2⟩
      have hry : lessEq r y := by
        unfold less at hl; unfold lessEq
        split at hl
        · left; assumption
        · split at hl
          · cases hl
          · split at hl
            · right; omega
            · cases hl
      intro b hb
      rw [List.mem_cons] at hb
      rcases hb with rfl | hb
      · exact hry
      · have := h.1 b hb
        unfold lessEq at *
        omega
    · rename_i hl
      rw [List.pairwise_cons]
      refine ⟨?_, ih h.2⟩
      intro b hb
      rw [mem_insertSorted] at hb
      rcases hb with rfl | hb
      · unfold less at hl; unfold lessEq
        split at hl
        · exact absurd rfl hl
        · split at hl
          · left; assumption
          · split at hl
            · exact absurd rfl hl
            · right; omega
      · exact h.1 b hb

end Roa
