/-
C02 (table level) — helper lemmas, part B: the lookups of `Table.Select` equal the set-theoretic
definitions on the abstract content.  Core-only.
-/
import Lemmas.Table
namespace Tbl
variable {δ ρ : Type}

/-- the set-theoretic reading of a selection: `p` is in the table with content `d` and the
    per-destination selection keeps `d'` of it -/
def Selected (t : Dests δ) (sel : δ → Option δ) (p : Pfx) (d' : δ) : Prop :=
  ∃ d, alookup t p = some d ∧ sel d = some d'

theorem covers_iff (q p : Pfx) : q.covers p = true ↔ q.fam = p.fam ∧ q.bits <+: p.bits := by
  unfold Pfx.covers
  rw [Bool.and_eq_true, List.isPrefixOf_iff_prefix, beq_iff_eq]

theorem covers_iff_trunc (q p : Pfx) : q.covers p = true ↔ q = p.trunc q.len := by
  rw [covers_iff, List.prefix_iff_eq_take]
  cases q with
  | mk qf qb =>
    simp only [Pfx.trunc, Pfx.len, Pfx.mk.injEq]

theorem mem_probesFrom (q p : Pfx) (n : Nat) : p ∈ probesFrom q n ↔ ∃ i, i ≤ n ∧ p = q.trunc i := by
  induction n with
  | zero =>
    simp only [probesFrom, List.mem_singleton]
    constructor
    · intro hp; exact ⟨0, Nat.le_refl 0, hp⟩
    · rintro ⟨i, hi, hp⟩
      have : i = 0 := Nat.le_zero.mp hi
      subst this; exact hp
  | succ n ih =>
    simp only [probesFrom, List.mem_cons, ih]
    constructor
    · rintro (hp | ⟨i, hi, hp⟩)
      · exact ⟨n + 1, Nat.le_refl _, hp⟩
      · exact ⟨i, Nat.le_succ_of_le hi, hp⟩
    · rintro ⟨i, hi, hp⟩
      by_cases hin : i = n + 1
      · subst hin; exact Or.inl hp
      · exact Or.inr ⟨i, by omega, hp⟩

theorem tB_trunc_len (q : Pfx) (i : Nat) (hi : i ≤ q.len) : (q.trunc i).len = i := by
  simp only [Pfx.trunc, Pfx.len, List.length_take] at *
  omega

theorem tB_covers_len_le {q p : Pfx} (hc : q.covers p = true) : q.len ≤ p.len := by
  rw [covers_iff] at hc
  exact hc.2.length_le

/-- the probe sequence of the shorter lookup is exactly the set of prefixes covering `q`
    (all lengths from `q.len` down to 0, 0 included) -/
theorem mem_probes_iff_covers (q p : Pfx) : p ∈ probesFrom q q.len ↔ p.covers q = true := by
  rw [mem_probesFrom]
  constructor
  · rintro ⟨i, hi, hp⟩
    rw [covers_iff_trunc]
    have : p.len = i := by rw [hp]; exact tB_trunc_len q i hi
    rw [this]; exact hp
  · intro hc
    exact ⟨p.len, tB_covers_len_le hc, (covers_iff_trunc p q).mp hc⟩

theorem probesFrom_nodup (q : Pfx) (n : Nat) (hn : n ≤ q.len) : (probesFrom q n).Nodup := by
  induction n with
  | zero => simp [probesFrom]
  | succ n ih =>
    simp only [probesFrom, List.nodup_cons]
    refine ⟨?_, ih (by omega)⟩
    intro hm
    rw [mem_probesFrom] at hm
    obtain ⟨i, hi, hp⟩ := hm
    have h1 := tB_trunc_len q (n + 1) hn
    have h2 := tB_trunc_len q i (by omega)
    rw [hp, h2] at h1
    omega

theorem tB_selected_fun {t : Dests δ} {sel : δ → Option δ} {p : Pfx} {d1 d2 : δ}
    (h1 : Selected t sel p d1) (h2 : Selected t sel p d2) : d1 = d2 := by
  obtain ⟨a, ha, hsa⟩ := h1
  obtain ⟨b, hb, hsb⟩ := h2
  rw [ha] at hb
  cases hb
  rw [hsa] at hsb
  cases hsb
  rfl

theorem tB_selDest_iff {h : Pfx → Nat} {t : Dests δ} (hw : WF h t) (sel : δ → Option δ) (x p : Pfx) (d' : δ) :
    selDest h t sel x = some (p, d') ↔ x = p ∧ Selected t sel p d' := by
  unfold selDest Selected
  rw [get_eq_alookup hw]
  constructor
  · intro hs
    split at hs
    · cases hs
    · rename_i d hd
      split at hs
      · cases hs
      · rename_i d2 hd2
        cases hs
        exact ⟨rfl, d, hd, hd2⟩
  · rintro ⟨rfl, d, hd, hd2⟩
    simp only [hd, hd2]

theorem tB_selDest_fst (h : Pfx → Nat) (t : Dests δ) (sel : δ → Option δ) (x : Pfx) (y : Pfx × δ)
    (hs : selDest h t sel x = some y) : y.1 = x := by
  unfold selDest at hs
  split at hs
  · cases hs
  · split at hs
    · cases hs
    · cases hs; rfl

theorem tB_filterMap_fst_nodup {ι α β : Type} (k : ι → α) (f : ι → Option (α × β))
    (hf : ∀ x y, f x = some y → y.1 = k x) (l : List ι) (hn : (l.map k).Nodup) :
    ((l.filterMap f).map Prod.fst).Nodup := by
  induction l with
  | nil => simp
  | cons x l ih =>
    rw [List.map_cons, List.nodup_cons] at hn
    rw [List.filterMap_cons]
    cases hfx : f x with
    | none => exact ih hn.2
    | some y =>
      simp only [List.map_cons, List.nodup_cons]
      refine ⟨?_, ih hn.2⟩
      intro hm
      rw [List.mem_map] at hm
      obtain ⟨z, hz, hzy⟩ := hm
      rw [List.mem_filterMap] at hz
      obtain ⟨a, ha, hfa⟩ := hz
      apply hn.1
      rw [List.mem_map]
      refine ⟨a, ha, ?_⟩
      rw [← hf a z hfa, hzy, hf x y hfx]

theorem mem_selExact {h : Pfx → Nat} {t : Dests δ} (hw : WF h t) (sel : δ → Option δ) (q p : Pfx) (d' : δ) :
    (p, d') ∈ selExact h t sel q ↔ p = q ∧ Selected t sel p d' := by
  unfold selExact
  rw [Option.mem_toList, tB_selDest_iff hw]
  constructor
  · rintro ⟨h1, h2⟩; exact ⟨h1.symm, h2⟩
  · rintro ⟨h1, h2⟩; exact ⟨h1.symm, h2⟩

/-- shorter p = { q ∈ dom | q covers p } -/
theorem mem_selShorter {h : Pfx → Nat} {t : Dests δ} (hw : WF h t) (sel : δ → Option δ) (q p : Pfx) (d' : δ) :
    (p, d') ∈ selShorter h t sel q ↔ p.covers q = true ∧ Selected t sel p d' := by
  unfold selShorter
  rw [List.mem_filterMap]
  constructor
  · rintro ⟨x, hx, hs⟩
    rw [tB_selDest_iff hw] at hs
    obtain ⟨rfl, hs⟩ := hs
    exact ⟨(mem_probes_iff_covers q x).mp hx, hs⟩
  · rintro ⟨hc, hs⟩
    exact ⟨p, (mem_probes_iff_covers q p).mpr hc, (tB_selDest_iff hw sel p p d').mpr ⟨rfl, hs⟩⟩

theorem selShorter_nodup (h : Pfx → Nat) (t : Dests δ) (sel : δ → Option δ) (q : Pfx) :
    ((selShorter h t sel q).map Prod.fst).Nodup := by
  unfold selShorter
  apply tB_filterMap_fst_nodup id _ (tB_selDest_fst h t sel)
  rw [List.map_id]
  exact probesFrom_nodup q q.len (Nat.le_refl _)

theorem tB_selE_iff (sel : δ → Option δ) (e : Pfx × δ) (y : Pfx × δ) :
    (match sel e.2 with | none => none | some d' => some (e.1, d')) = some y ↔
      y.1 = e.1 ∧ sel e.2 = some y.2 := by
  cases hs : sel e.2 with
  | none => simp
  | some d' =>
    constructor
    · intro hy; cases hy; exact ⟨rfl, rfl⟩
    · rintro ⟨h1, h2⟩
      cases y with
      | mk y1 y2 =>
        simp only at h1 h2
        cases h2
        rw [h1]

/-- longer p = { q ∈ dom | p covers q } -/
theorem mem_selLonger {h : Pfx → Nat} {t : Dests δ} (hw : WF h t) (sel : δ → Option δ) (q p : Pfx) (d' : δ) :
    (p, d') ∈ selLonger t sel q ↔ q.covers p = true ∧ Selected t sel p d' := by
  unfold selLonger Selected
  rw [List.mem_filterMap]
  constructor
  · rintro ⟨⟨e1, e2⟩, he, hs⟩
    have hs2 := (tB_selE_iff sel (e1, e2) (p, d')).mp hs
    rw [List.mem_filter] at he
    simp only at hs2 he
    obtain ⟨rfl, hs3⟩ := hs2
    exact ⟨he.2, e2, (mem_entries_iff hw p e2).mp he.1, hs3⟩
  · rintro ⟨hc, d, hd, hs⟩
    refine ⟨(p, d), ?_, ?_⟩
    · rw [List.mem_filter]
      exact ⟨(mem_entries_iff hw p d).mpr hd, hc⟩
    · exact (tB_selE_iff sel (p, d) (p, d')).mpr ⟨rfl, hs⟩

theorem selLonger_nodup {h : Pfx → Nat} {t : Dests δ} (hw : WF h t) (sel : δ → Option δ) (q : Pfx) :
    ((selLonger t sel q).map Prod.fst).Nodup := by
  unfold selLonger
  apply tB_filterMap_fst_nodup Prod.fst _ (fun e y hy => ((tB_selE_iff sel e y).mp hy).1)
  exact List.Nodup.sublist (List.Sublist.map _ List.filter_sublist) (entries_nodup hw)

theorem mem_selAll {h : Pfx → Nat} {t : Dests δ} (hw : WF h t) (sel : δ → Option δ) (p : Pfx) (d' : δ) :
    (p, d') ∈ selAll t sel ↔ Selected t sel p d' := by
  unfold selAll Selected
  rw [List.mem_filterMap]
  constructor
  · rintro ⟨⟨e1, e2⟩, he, hs⟩
    have hs2 := (tB_selE_iff sel (e1, e2) (p, d')).mp hs
    simp only at hs2
    obtain ⟨rfl, hs3⟩ := hs2
    exact ⟨e2, (mem_entries_iff hw p e2).mp he, hs3⟩
  · rintro ⟨d, hd, hs⟩
    exact ⟨(p, d), (mem_entries_iff hw p d).mpr hd, (tB_selE_iff sel (p, d) (p, d')).mpr ⟨rfl, hs⟩⟩

theorem tB_findSome_probes {β : Type} (f : Pfx → Option β) (a : Pfx) (n : Nat) (r : β) :
    (probesFrom a n).findSome? f = some r ↔
      ∃ i, i ≤ n ∧ f (a.trunc i) = some r ∧ ∀ j, i < j → j ≤ n → f (a.trunc j) = none := by
  induction n with
  | zero =>
    simp only [probesFrom, List.findSome?_cons, List.findSome?_nil]
    constructor
    · intro hs
      refine ⟨0, Nat.le_refl _, ?_, ?_⟩
      · split at hs
        · rename_i b hb; rw [hb]; exact hs
        · cases hs
      · intro j h1 h2; omega
    · rintro ⟨i, hi, hs, _⟩
      have : i = 0 := Nat.le_zero.mp hi
      subst this
      rw [hs]
  | succ n ih =>
    simp only [probesFrom, List.findSome?_cons]
    cases hfx : f (a.trunc (n + 1)) with
    | some b =>
      simp only
      constructor
      · intro hs
        refine ⟨n + 1, Nat.le_refl _, ?_, ?_⟩
        · rw [hfx]; exact hs
        · intro j h1 h2; omega
      · rintro ⟨i, hi, hs, hmax⟩
        by_cases hin : i = n + 1
        · subst hin; rw [hfx] at hs; exact hs
        · have := hmax (n + 1) (by omega) (Nat.le_refl _)
          rw [hfx] at this; cases this
    | none =>
      simp only
      rw [ih]
      constructor
      · rintro ⟨i, hi, hs, hmax⟩
        refine ⟨i, by omega, hs, ?_⟩
        intro j h1 h2
        by_cases hj : j = n + 1
        · subst hj; exact hfx
        · exact hmax j h1 (by omega)
      · rintro ⟨i, hi, hs, hmax⟩
        by_cases hin : i = n + 1
        · subst hin; rw [hfx] at hs; cases hs
        · exact ⟨i, by omega, hs, fun j h1 h2 => hmax j h1 (by omega)⟩

/-- host-address form: the longest selected prefix covering the address, and only that one -/
theorem mem_selHost {h : Pfx → Nat} {t : Dests δ} (hw : WF h t) (sel : δ → Option δ) (a p : Pfx) (d' : δ) :
    (p, d') ∈ selHost h t sel a ↔
      (p.covers a = true ∧ Selected t sel p d') ∧
      ∀ p' d'', p'.covers a = true → Selected t sel p' d'' → p'.len ≤ p.len := by
  unfold selHost
  rw [Option.mem_toList, tB_findSome_probes]
  constructor
  · rintro ⟨i, hi, hs, hmax⟩
    rw [tB_selDest_iff hw] at hs
    obtain ⟨hp, hs⟩ := hs
    have hpl : p.len = i := by rw [← hp]; exact tB_trunc_len a i hi
    have hc : p.covers a = true := by
      rw [← mem_probes_iff_covers, mem_probesFrom]; exact ⟨i, hi, hp.symm⟩
    refine ⟨⟨hc, hs⟩, ?_⟩
    intro p' d'' hc' hs'
    apply Nat.le_of_not_lt
    intro hlt
    have hle := tB_covers_len_le hc'
    have hnone := hmax p'.len (by omega) hle
    rw [← (covers_iff_trunc p' a).mp hc'] at hnone
    rw [(tB_selDest_iff hw sel p' p' d'').mpr ⟨rfl, hs'⟩] at hnone
    cases hnone
  · rintro ⟨⟨hc, hs⟩, hmax⟩
    refine ⟨p.len, tB_covers_len_le hc, ?_, ?_⟩
    · rw [← (covers_iff_trunc p a).mp hc]
      exact (tB_selDest_iff hw sel p p d').mpr ⟨rfl, hs⟩
    · intro j h1 h2
      cases hsj : selDest h t sel (a.trunc j) with
      | none => rfl
      | some r =>
        exfalso
        obtain ⟨r1, r2⟩ := r
        rw [tB_selDest_iff hw] at hsj
        obtain ⟨hr, hsr⟩ := hsj
        have hcr : r1.covers a = true := by
          rw [← mem_probes_iff_covers, mem_probesFrom]; exact ⟨j, h2, hr.symm⟩
        have := hmax r1 r2 hcr hsr
        rw [← hr, tB_trunc_len a j h2] at this
        omega

/-- what one lookup prefix selects, set-theoretically -/
def QuerySpec (t : Dests δ) (sel : δ → Option δ) (q : Lookup × Pfx) (p : Pfx) (d' : δ) : Prop :=
  match q.1 with
  | .exact => p = q.2 ∧ Selected t sel p d'
  | .longer => q.2.covers p = true ∧ Selected t sel p d'
  | .shorter => p.covers q.2 = true ∧ Selected t sel p d'
  | .host => (p.covers q.2 = true ∧ Selected t sel p d') ∧
      ∀ p' d'', p'.covers q.2 = true → Selected t sel p' d'' → p'.len ≤ p.len

theorem mem_selQuery {h : Pfx → Nat} {t : Dests δ} (hw : WF h t) (sel : δ → Option δ) (q : Lookup × Pfx)
    (p : Pfx) (d' : δ) : (p, d') ∈ selQuery h t sel q ↔ QuerySpec t sel q p d' := by
  obtain ⟨k, q⟩ := q
  cases k
  · exact mem_selExact hw sel q p d'
  · exact mem_selLonger hw sel q p d'
  · exact mem_selShorter hw sel q p d'
  · exact mem_selHost hw sel q p d'

theorem tB_foldl_fun (l : List (Pfx × δ))
    (hf : ∀ p d1 d2, (p, d1) ∈ l → (p, d2) ∈ l → d1 = d2) (m0 : AMap δ) (p : Pfx) (d : δ) :
    (l.foldl (fun m e => fun q => if q = e.1 then some e.2 else m q) m0) p = some d ↔
      ((p, d) ∈ l ∨ ((∀ d', (p, d') ∉ l) ∧ m0 p = some d)) := by
  induction l generalizing m0 with
  | nil => simp
  | cons e l ih =>
    have hf' : ∀ p d1 d2, (p, d1) ∈ l → (p, d2) ∈ l → d1 = d2 :=
      fun p d1 d2 h1 h2 => hf p d1 d2 (List.mem_cons_of_mem _ h1) (List.mem_cons_of_mem _ h2)
    rw [List.foldl_cons, ih hf']
    obtain ⟨e1, e2⟩ := e
    simp only [List.mem_cons]
    by_cases hpe : p = e1
    · subst hpe
      simp only [if_true]
      constructor
      · rintro (hm | ⟨hn, hd⟩)
        · exact Or.inl (Or.inr hm)
        · cases hd; exact Or.inl (Or.inl rfl)
      · rintro ((he | hm) | ⟨hn, _⟩)
        · cases he
          by_cases hex : ∃ d', (p, d') ∈ l
          · obtain ⟨d', hd'⟩ := hex
            have := hf p d d' (List.mem_cons_self ..) (List.mem_cons_of_mem _ hd')
            subst this
            exact Or.inl hd'
          · exact Or.inr ⟨fun d' hd' => hex ⟨d', hd'⟩, rfl⟩
        · exact Or.inl hm
        · exact absurd (Or.inl rfl) (hn e2)
    · simp only [if_neg hpe]
      constructor
      · rintro (hm | ⟨hn, hd⟩)
        · exact Or.inl (Or.inr hm)
        · refine Or.inr ⟨?_, hd⟩
          rintro d' (he | hm)
          · cases he; exact hpe rfl
          · exact hn d' hm
      · rintro ((he | hm) | ⟨hn, hd⟩)
        · cases he; exact absurd rfl hpe
        · exact Or.inl hm
        · exact Or.inr ⟨fun d' hd' => hn d' (Or.inr hd'), hd⟩

/-- a `setDestination` sequence in which a prefix always comes with the same content -/
theorem afromList_functional (l : List (Pfx × δ))
    (hf : ∀ p d1 d2, (p, d1) ∈ l → (p, d2) ∈ l → d1 = d2) (p : Pfx) (d : δ) :
    afromList l p = some d ↔ (p, d) ∈ l := by
  unfold afromList
  rw [tB_foldl_fun l hf]
  constructor
  · rintro (hm | ⟨_, hd⟩)
    · exact hm
    · cases hd
  · exact Or.inl

theorem select_wf (h : Pfx → Nat) (t : Dests δ) (sel : δ → Option δ) (qs : List (Lookup × Pfx)) :
    WF h (select h t sel qs) := by
  unfold select
  split
  · exact fromList_wf h _
  · exact fromList_wf h _

theorem tB_alookup_fromList (h : Pfx → Nat) (l : List (Pfx × δ))
    (hf : ∀ p d1 d2, (p, d1) ∈ l → (p, d2) ∈ l → d1 = d2) (p : Pfx) (d : δ) :
    alookup (fromList h l) p = some d ↔ (p, d) ∈ l := by
  rw [← get_eq_alookup (fromList_wf h l), fromList_get, afromList_functional l hf]

/-- the table returned by `Select` holds exactly what the lookup prefixes select
    (several prefixes: the union; none: the whole table) -/
theorem select_spec {h : Pfx → Nat} {t : Dests δ} (hw : WF h t) (sel : δ → Option δ)
    (qs : List (Lookup × Pfx)) (p : Pfx) (d' : δ) :
    alookup (select h t sel qs) p = some d' ↔
      if qs = [] then Selected t sel p d' else ∃ q ∈ qs, QuerySpec t sel q p d' := by
  unfold select
  by_cases hq : qs = []
  · subst hq
    simp only [List.isEmpty_nil, if_true]
    rw [tB_alookup_fromList, mem_selAll hw]
    intro p d1 d2 h1 h2
    exact tB_selected_fun ((mem_selAll hw sel p d1).mp h1) ((mem_selAll hw sel p d2).mp h2)
  · have hne : qs.isEmpty = false := by
      cases qs with
      | nil => exact absurd rfl hq
      | cons _ _ => rfl
    rw [if_neg hq, hne]
    simp only [Bool.false_eq_true, if_false]
    have hsel : ∀ q p d, QuerySpec t sel q p d → Selected t sel p d := by
      intro q p d hqs
      obtain ⟨k, q⟩ := q
      cases k
      · exact hqs.2
      · exact hqs.2
      · exact hqs.2
      · exact hqs.1.2
    rw [tB_alookup_fromList, List.mem_flatMap]
    · constructor
      · rintro ⟨q, hq, hm⟩; exact ⟨q, hq, (mem_selQuery hw sel q p d').mp hm⟩
      · rintro ⟨q, hq, hm⟩; exact ⟨q, hq, (mem_selQuery hw sel q p d').mpr hm⟩
    · intro p d1 d2 h1 h2
      rw [List.mem_flatMap] at h1 h2
      obtain ⟨q1, _, hm1⟩ := h1
      obtain ⟨q2, _, hm2⟩ := h2
      exact tB_selected_fun (hsel q1 p d1 ((mem_selQuery hw sel q1 p d1).mp hm1))
        (hsel q2 p d2 ((mem_selQuery hw sel q2 p d2).mp hm2))

end Tbl
