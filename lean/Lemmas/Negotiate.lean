/-
  Helper lemmas about Model/Negotiate.lean (core only).
-/
import Model.Negotiate
namespace Negotiate

/-! ### "last one wins" folds -/

theorem localFold_some (f : Family) (afs : List AfCfg) (acc : Option Nat) (m : Nat)
    (h : afs.foldl (fun acc a => if a.family = f then some a.mode else acc) acc = some m) :
    acc = some m ∨ ∃ a ∈ afs, a.family = f ∧ a.mode = m := by
  induction afs generalizing acc with
  | nil => exact Or.inl h
  | cons a l ih =>
    simp only [List.foldl_cons] at h
    rcases ih _ h with h1 | ⟨b, hb, hf, hm⟩
    · by_cases e : a.family = f
      · simp [e] at h1
        exact Or.inr ⟨a, List.mem_cons_self, e, h1⟩
      · simp [e] at h1
        exact Or.inl h1
    · exact Or.inr ⟨b, List.mem_cons_of_mem _ hb, hf, hm⟩

theorem localFold_isSome (f : Family) (afs : List AfCfg) (acc : Option Nat) :
    (afs.foldl (fun acc a => if a.family = f then some a.mode else acc) acc).isSome = true ↔
      acc.isSome = true ∨ ∃ a ∈ afs, a.family = f := by
  induction afs generalizing acc with
  | nil => simp
  | cons a l ih =>
    simp only [List.foldl_cons, ih]
    by_cases e : a.family = f
    · simp [e]
    · simp [e]

/-- all configured AfiSafis of family `f` agree on the mode `m`, and there is one -/
theorem localFold_agree (f : Family) (afs : List AfCfg) (acc : Option Nat) (m : Nat)
    (hall : ∀ a ∈ afs, a.family = f → a.mode = m) (hacc : acc = some m ∨ ∃ a ∈ afs, a.family = f)
    (hacc' : acc.isSome = true → acc = some m) :
    afs.foldl (fun acc a => if a.family = f then some a.mode else acc) acc = some m := by
  induction afs generalizing acc with
  | nil =>
    rcases hacc with h | ⟨a, ha, _⟩
    · exact h
    · cases ha
  | cons a l ih =>
    simp only [List.foldl_cons]
    by_cases e : a.family = f
    · simp only [e, if_true]
      have hm : a.mode = m := hall a List.mem_cons_self e
      apply ih
      · intro b hb; exact hall b (List.mem_cons_of_mem _ hb)
      · exact Or.inl (by rw [hm])
      · intro _; rw [hm]
    · simp only [e, if_false]
      apply ih
      · intro b hb; exact hall b (List.mem_cons_of_mem _ hb)
      · rcases hacc with h | ⟨b, hb, hf⟩
        · exact Or.inl h
        · rcases List.mem_cons.mp hb with rfl | hb'
          · exact absurd hf e
          · exact Or.inr ⟨b, hb', hf⟩
      · exact hacc'

theorem localMode_some {afs : List AfCfg} {f : Family} {m : Nat} (h : localMode afs f = some m) :
    ∃ a ∈ afs, a.family = f ∧ a.mode = m := by
  rcases localFold_some f afs none m h with h1 | h1
  · cases h1
  · exact h1

theorem localMode_isSome (afs : List AfCfg) (f : Family) :
    (localMode afs f).isSome = true ↔ ∃ a ∈ afs, a.family = f := by
  unfold localMode
  rw [localFold_isSome]
  simp

theorem localMode_agree {afs : List AfCfg} {f : Family} {m : Nat}
    (hall : ∀ a ∈ afs, a.family = f → a.mode = m) (hex : ∃ a ∈ afs, a.family = f) :
    localMode afs f = some m :=
  localFold_agree f afs none m hall (Or.inr hex) (by simp)

/-- the accumulator of `lastMode` is either untouched or a mode some tuple of `f` carries -/
theorem lastFold_mem (f : Family) (ts : List (Family × Nat)) (acc : Nat) :
    ts.foldl (fun acc t => if t.1 = f then t.2 else acc) acc = acc ∨
      (f, ts.foldl (fun acc t => if t.1 = f then t.2 else acc) acc) ∈ ts := by
  induction ts generalizing acc with
  | nil => exact Or.inl rfl
  | cons t l ih =>
    simp only [List.foldl_cons]
    rcases ih (if t.1 = f then t.2 else acc) with h | h
    · by_cases e : t.1 = f
      · simp only [e, if_true] at h ⊢
        right
        rw [h]
        have : t = (f, t.2) := by cases t; simp_all
        rw [← this]; exact List.mem_cons_self
      · simp only [e, if_false] at h ⊢
        exact Or.inl h
    · exact Or.inr (List.mem_cons_of_mem _ h)

theorem lastMode_mem (f : Family) (ts : List (Family × Nat)) :
    lastMode f ts = 0 ∨ (f, lastMode f ts) ∈ ts := lastFold_mem f ts 0

theorem lastFold_none (f : Family) (ts : List (Family × Nat)) (acc : Nat)
    (h : ∀ m, (f, m) ∉ ts) : ts.foldl (fun acc t => if t.1 = f then t.2 else acc) acc = acc := by
  rcases lastFold_mem f ts acc with h1 | h1
  · exact h1
  · exact absurd h1 (h _)

/-- a predicate that all tuples of `f` agree on is the predicate of the last one -/
theorem lastMode_agree (f : Family) (ts : List (Family × Nat)) (p : Nat → Bool) (m : Nat)
    (hm : (f, m) ∈ ts) (hall : ∀ m', (f, m') ∈ ts → p m' = p m) : p (lastMode f ts) = p m := by
  rcases lastMode_mem f ts with h | h
  · -- lastMode = 0 can still be a tuple's mode: the fold is untouched only if no tuple matched
    have key : ∀ (l : List (Family × Nat)) (acc : Nat), (∃ m', (f, m') ∈ l) →
        (f, l.foldl (fun acc t => if t.1 = f then t.2 else acc) acc) ∈ l := by
      intro l
      induction l with
      | nil => intro _ ⟨_, h⟩; cases h
      | cons t l ih =>
        intro acc ⟨m', hm'⟩
        simp only [List.foldl_cons]
        by_cases hl : ∃ m'', (f, m'') ∈ l
        · exact List.mem_cons_of_mem _ (ih _ hl)
        · have hn : ∀ m'', (f, m'') ∉ l := fun m'' hh => hl ⟨m'', hh⟩
          rw [lastFold_none f l _ hn]
          rcases List.mem_cons.mp hm' with e | e
          · have e1 : t.1 = f := by rw [← e]
            simp only [e1, if_true]
            have : t = (f, t.2) := by cases t; simp_all
            rw [← this]; exact List.mem_cons_self
          · exact absurd e (hn _)
    exact hall _ (key ts 0 ⟨m, hm⟩)
  · exact hall _ h

/-! ### the negotiated family map -/

theorem fmLookup_filterMap (g : Family → Option Nat) (l : List AfCfg) (f : Family) :
    fmLookup (l.filterMap (fun a => (g a.family).map (fun m => (a.family, m)))) f =
      if (∃ a ∈ l, a.family = f) then g f else none := by
  induction l with
  | nil => simp [fmLookup]
  | cons a l ih =>
    by_cases e : a.family = f
    · have hex : ∃ b ∈ a :: l, b.family = f := ⟨a, List.mem_cons_self, e⟩
      rw [if_pos hex]
      cases hg : g f with
      | none =>
        have : (g a.family).map (fun m => (a.family, m)) = none := by rw [e, hg]; rfl
        simp only [List.filterMap_cons, this]
        rw [ih, hg]
        simp
      | some m =>
        have : (g a.family).map (fun m => (a.family, m)) = some (f, m) := by rw [e, hg]; rfl
        simp only [List.filterMap_cons, this]
        simp [fmLookup]
    · have hiff : (∃ b ∈ a :: l, b.family = f) ↔ (∃ b ∈ l, b.family = f) := by
        constructor
        · rintro ⟨b, hb, hf⟩
          rcases List.mem_cons.mp hb with rfl | hb'
          · exact absurd hf e
          · exact ⟨b, hb', hf⟩
        · rintro ⟨b, hb, hf⟩; exact ⟨b, List.mem_cons_of_mem _ hb, hf⟩
      cases hg : g a.family with
      | none =>
        have : (g a.family).map (fun m => (a.family, m)) = none := by rw [hg]; rfl
        simp only [List.filterMap_cons, this]
        rw [ih]
        simp only [hiff]
      | some m =>
        have : (g a.family).map (fun m => (a.family, m)) = some (a.family, m) := by rw [hg]; rfl
        simp only [List.filterMap_cons, this]
        have hne : ((a.family, m).1 == f) = false := by simp [e]
        simp only [fmLookup, List.find?_cons, hne]
        have := ih
        simp only [fmLookup] at this
        rw [this]
        simp only [hiff]

/-- reading the negotiated map at `f` is `negMode` -/
theorem fmLookup_familyMapOf (afs : List AfCfg) (cm : List Cap) (f : Family) :
    fmLookup (familyMapOf afs cm) f = negMode afs cm f := by
  unfold familyMapOf
  rw [fmLookup_filterMap (negMode afs cm) afs f]
  by_cases h : ∃ a ∈ afs, a.family = f
  · rw [if_pos h]
  · rw [if_neg h]
    have : localMode afs f = none := by
      cases hl : localMode afs f with
      | none => rfl
      | some m =>
        have := (localMode_isSome afs f).mp (by rw [hl]; rfl)
        exact absurd this h
    simp [negMode, this]

/-! ### the capability map -/

theorem hasCap_iff (code : Nat) (m : List Cap) : hasCap code m = true ↔ ∃ c ∈ m, c.code = code := by
  simp [hasCap, List.any_eq_true]

theorem mem_capsOf (code : Nat) (m : List Cap) (c : Cap) : c ∈ capsOf code m ↔ c ∈ m ∧ c.code = code := by
  simp [capsOf, List.mem_filter]

theorem mp_mem_open2CapMap (caps : List Cap) (f : Family) :
    Cap.mp f ∈ open2CapMap caps ↔ Cap.mp f ∈ caps ∨ (hasCap 1 caps = false ∧ f = ipv4uc) := by
  unfold open2CapMap
  simp only [List.mem_append, List.mem_filter]
  constructor
  · rintro ((⟨h, _⟩ | h) | h)
    · exact Or.inl h
    · by_cases h69 : hasCap 69 caps = true
      · simp [h69] at h
      · simp [h69] at h
    · by_cases h1 : hasCap 1 caps = true
      · simp [h1] at h
      · simp [h1] at h
        exact Or.inr ⟨by simpa using h1, h⟩
  · rintro (h | ⟨h1, rfl⟩)
    · exact Or.inl (Or.inl ⟨h, by simp [Cap.code]⟩)
    · exact Or.inr (by simp [h1])

theorem remoteMode_isSome (cm : List Cap) (f : Family) :
    (remoteMode cm f).isSome = true ↔ Cap.mp f ∈ cm := by
  unfold remoteMode
  by_cases h : (capsOf 1 cm).contains (Cap.mp f) = true
  · simp only [h, if_true, Option.isSome_some, true_iff]
    have := List.contains_iff_mem.mp h
    exact ((mem_capsOf 1 cm _).mp this).1
  · simp only [h]
    constructor
    · intro h'; simp at h'
    · intro h'
      exact absurd (List.contains_iff_mem.mpr ((mem_capsOf 1 cm _).mpr ⟨h', rfl⟩)) h

theorem remoteMode_some {cm : List Cap} {f : Family} {r : Nat} (h : remoteMode cm f = some r) :
    Cap.mp f ∈ cm ∧ r = lastMode f (allApTuples (capsOf 69 cm)) := by
  have hs := (remoteMode_isSome cm f).mp (by rw [h]; rfl)
  refine ⟨hs, ?_⟩
  unfold remoteMode at h
  simp at h
  exact h.2.symm

theorem apTuples_nil_of_code {c : Cap} (h : c.code ≠ 69) : c.apTuples = [] := by
  cases c <;> simp_all [Cap.apTuples, Cap.code]

theorem allApTuples_nil (l : List Cap) (h : ∀ c ∈ l, c.code ≠ 69) : allApTuples l = [] := by
  induction l with
  | nil => rfl
  | cons c l ih =>
    simp only [allApTuples, List.flatMap_cons] at ih ⊢
    rw [apTuples_nil_of_code (h c List.mem_cons_self), ih (fun d hd => h d (List.mem_cons_of_mem _ hd))]
    rfl

/-- the squash keeps exactly the peer's tuples, in order -/
theorem allApTuples_open2CapMap (caps : List Cap) :
    allApTuples (capsOf 69 (open2CapMap caps)) = allApTuples caps := by
  unfold open2CapMap capsOf
  simp only [List.filter_append]
  have h1 : (caps.filter (fun c => c.code != 69)).filter (fun c => c.code == 69) = [] := by
    rw [List.filter_filter]
    apply List.filter_eq_nil_iff.mpr
    intro c _
    cases h : c.code == 69 <;> simp [h, bne]
  rw [h1]
  by_cases h69 : hasCap 69 caps = true
  · by_cases hmp : hasCap 1 caps = true
    · simp [h69, hmp, Cap.code, allApTuples, Cap.apTuples]
    · simp [h69, hmp, Cap.code, allApTuples, Cap.apTuples]
  · have hnone : ∀ c ∈ caps, c.code ≠ 69 := by
      intro c hc e
      exact h69 ((hasCap_iff 69 caps).mpr ⟨c, hc, e⟩)
    rw [allApTuples_nil caps hnone]
    by_cases hmp : hasCap 1 caps = true
    · simp [h69, hmp, allApTuples]
    · simp [h69, hmp, Cap.code, allApTuples, Cap.apTuples]

theorem mem_open2CapMap (caps : List Cap) (c : Cap) :
    c ∈ open2CapMap caps ↔ (c ∈ caps ∧ c.code ≠ 69) ∨ (hasCap 69 caps = true ∧ c = Cap.addPath (allApTuples caps)) ∨
      (hasCap 1 caps = false ∧ c = Cap.mp ipv4uc) := by
  unfold open2CapMap
  simp only [List.mem_append, List.mem_filter]
  by_cases h69 : hasCap 69 caps = true <;> by_cases h1 : hasCap 1 caps = true <;>
    simp [h69, h1, or_assoc]

/-- capabilities other than ADD-PATH and multiprotocol are present in the map iff the peer sent them -/
theorem hasCap_open2CapMap (caps : List Cap) (k : Nat) (hk : k ≠ 69) (hk1 : k ≠ 1) :
    hasCap k (open2CapMap caps) = hasCap k caps := by
  apply Bool.eq_iff_iff.mpr
  rw [hasCap_iff, hasCap_iff]
  constructor
  · rintro ⟨c, hc, hcode⟩
    rcases (mem_open2CapMap caps c).mp hc with ⟨h, _⟩ | ⟨_, rfl⟩ | ⟨_, rfl⟩
    · exact ⟨c, h, hcode⟩
    · exact absurd hcode.symm hk
    · exact absurd hcode.symm hk1
  · rintro ⟨c, hc, hcode⟩
    exact ⟨c, (mem_open2CapMap caps c).mpr (Or.inl ⟨hc, by rw [hcode]; exact hk⟩), hcode⟩

/-! ### field projections of stateChange (the GR / LLGR blocks touch only GR state) -/

theorem grStep_fields (c : LocalCfg) (cm : List Cap) (s : PeerState) :
    (grStep c cm s).capMap = s.capMap ∧ (grStep c cm s).familyMap = s.familyMap ∧
    (grStep c cm s).extMsg = s.extMsg ∧ (grStep c cm s).hold = s.hold ∧ (grStep c cm s).ka3 = s.ka3 ∧
    (grStep c cm s).stInternal = s.stInternal ∧ (grStep c cm s).stPeerAs = s.stPeerAs ∧
    (grStep c cm s).remoteId = s.remoteId := by
  unfold grStep; split <;> simp

theorem llgrStep_fields (c : LocalCfg) (cm : List Cap) (s : PeerState) :
    (llgrStep c cm s).capMap = s.capMap ∧ (llgrStep c cm s).familyMap = s.familyMap ∧
    (llgrStep c cm s).extMsg = s.extMsg ∧ (llgrStep c cm s).hold = s.hold ∧ (llgrStep c cm s).ka3 = s.ka3 ∧
    (llgrStep c cm s).stInternal = s.stInternal ∧ (llgrStep c cm s).stPeerAs = s.stPeerAs ∧
    (llgrStep c cm s).remoteId = s.remoteId := by
  unfold llgrStep; split <;> simp

theorem stateChange_hold (c : LocalCfg) (s : PeerState) (o : Open) :
    (stateChange c s o).hold = if o.hold > c.hold then c.hold else o.hold := by
  simp only [stateChange, (llgrStep_fields _ _ _).2.2.2.1, (grStep_fields _ _ _).2.2.2.1]

theorem stateChange_ka3 (c : LocalCfg) (s : PeerState) (o : Open) :
    (stateChange c s o).ka3 =
      if (if o.hold > c.hold then c.hold else o.hold) < c.hold then (if o.hold > c.hold then c.hold else o.hold)
      else c.ka3 := by
  simp only [stateChange, (llgrStep_fields _ _ _).2.2.2.2.1, (grStep_fields _ _ _).2.2.2.2.1]

theorem stateChange_familyMap (c : LocalCfg) (s : PeerState) (o : Open) :
    (stateChange c s o).familyMap = familyMapOf c.afs (open2CapMap o.caps) := by
  simp only [stateChange, (llgrStep_fields _ _ _).2.1, (grStep_fields _ _ _).2.1]

theorem stateChange_capMap (c : LocalCfg) (s : PeerState) (o : Open) :
    (stateChange c s o).capMap = open2CapMap o.caps := by
  simp only [stateChange, (llgrStep_fields _ _ _).1, (grStep_fields _ _ _).1]

theorem stateChange_extMsg (c : LocalCfg) (s : PeerState) (o : Open) :
    (stateChange c s o).extMsg = hasCap 6 (open2CapMap o.caps) := by
  simp only [stateChange, (llgrStep_fields _ _ _).2.2.1, (grStep_fields _ _ _).2.2.1]

theorem stateChange_stPeerAs (c : LocalCfg) (s : PeerState) (o : Open) :
    (stateChange c s o).stPeerAs = getASN o := by
  simp only [stateChange, (llgrStep_fields _ _ _).2.2.2.2.2.2.1, (grStep_fields _ _ _).2.2.2.2.2.2.1]

theorem stateChange_stInternal (c : LocalCfg) (s : PeerState) (o : Open) :
    (stateChange c s o).stInternal = (if c.peerAs = 0 then c.localAs == getASN o else c.cfgInternal) := by
  simp only [stateChange, (llgrStep_fields _ _ _).2.2.2.2.2.1, (grStep_fields _ _ _).2.2.2.2.2.1]

theorem stateChange_twoByteAs (c : LocalCfg) (s : PeerState) (o : Open) :
    (stateChange c s o).twoByteAs = (if !hasCap 65 (open2CapMap o.caps) then true else !localHasAs4 c) := by
  simp only [stateChange]

theorem stateChange_isEBGP (c : LocalCfg) (s : PeerState) (o : Open) :
    (stateChange c s o).isEBGP = (getASN o != c.localAs) := by
  simp only [stateChange]

theorem stateChange_isConfed (c : LocalCfg) (s : PeerState) (o : Open) :
    (stateChange c s o).isConfed = c.confedMembers.contains (getASN o) := by
  simp only [stateChange]

/-! ### the parts of capabilitiesFromConfig -/

theorem swCaps_code (c : LocalCfg) : ∀ x ∈ swCaps c, x.code = 75 := by
  intro x hx; unfold swCaps at hx; split at hx <;> simp at hx; subst hx; rfl

theorem mpCaps_code (c : LocalCfg) : ∀ x ∈ mpCaps c, x.code = 1 := by
  intro x hx; obtain ⟨a, _, rfl⟩ := List.mem_map.mp hx; rfl

theorem grCaps_code (c : LocalCfg) : ∀ x ∈ grCaps c, x.code = 64 ∨ x.code = 71 := by
  intro x hx
  unfold grCaps at hx
  split at hx
  · rcases List.mem_cons.mp hx with rfl | h
    · exact Or.inl rfl
    · split at h <;> simp at h
      subst h; exact Or.inr rfl
  · cases hx

theorem extNhCaps_code (c : LocalCfg) : ∀ x ∈ extNhCaps c, x.code = 5 := by
  intro x hx; unfold extNhCaps at hx; simp only at hx; split at hx <;> simp at hx; subst hx; rfl

theorem capAddPath_code (c : LocalCfg) : ∀ x ∈ capAddPathFromConfig c, x.code = 69 := by
  intro x hx; unfold capAddPathFromConfig at hx; simp only at hx; split at hx <;> simp at hx; subst hx; rfl

/-- membership in capabilitiesFromConfig, part by part -/
theorem mem_capsFromConfig (c : LocalCfg) (x : Cap) :
    x ∈ capsFromConfig c ↔ x = Cap.other 2 ∨ x = Cap.other 73 ∨ x ∈ swCaps c ∨ x = Cap.extMsg ∨ x ∈ mpCaps c ∨
      x = Cap.as4 c.localAs ∨ x ∈ grCaps c ∨ x ∈ extNhCaps c ∨ x ∈ capAddPathFromConfig c := by
  unfold capsFromConfig
  simp only [List.mem_append, List.mem_cons, List.mem_singleton, List.not_mem_nil, or_false, or_assoc]

theorem allApTuples_append (a b : List Cap) : allApTuples (a ++ b) = allApTuples a ++ allApTuples b := by
  simp [allApTuples, List.flatMap_append]

theorem allApTuples_capsFromConfig (c : LocalCfg) :
    allApTuples (capsFromConfig c) =
      c.afs.filterMap (fun a => if a.mode > 0 then some (a.family, a.mode) else none) := by
  unfold capsFromConfig
  simp only [allApTuples_append]
  rw [allApTuples_nil (swCaps c) (fun x hx => by rw [swCaps_code c x hx]; decide),
    allApTuples_nil (mpCaps c) (fun x hx => by rw [mpCaps_code c x hx]; decide),
    allApTuples_nil (grCaps c) (fun x hx => by rcases grCaps_code c x hx with h | h <;> rw [h] <;> decide),
    allApTuples_nil (extNhCaps c) (fun x hx => by rw [extNhCaps_code c x hx]; decide)]
  unfold capAddPathFromConfig
  simp only
  split
  · rename_i h
    simp [allApTuples, Cap.apTuples, List.isEmpty_iff.mp h]
  · simp [allApTuples, Cap.apTuples]

/-! ### helpers of the property theorems (moved out of Props/C08.lean) -/

theorem negMode_some {afs : List AfCfg} {cm : List Cap} {f : Family} {m : Nat} (h : negMode afs cm f = some m) :
    ∃ l, localMode afs f = some l ∧ Cap.mp f ∈ cm ∧ m = negBits l (lastMode f (allApTuples (capsOf 69 cm))) := by
  unfold negMode at h
  cases hl : localMode afs f with
  | none => simp [hl] at h
  | some l =>
    cases hr : remoteMode cm f with
    | none => simp [hl, hr] at h
    | some r =>
      simp [hl, hr] at h
      obtain ⟨h1, h2⟩ := remoteMode_some hr
      exact ⟨l, rfl, h1, by rw [← h, h2]⟩

theorem hasSend_negBits (l r : Nat) : hasSend (negBits l r) = (hasSend l && hasRecv r) := by
  unfold negBits hasSend hasRecv
  cases h1 : ((l / 2) % 2 == 1 && r % 2 == 1) <;> cases h2 : (l % 2 == 1 && (r / 2) % 2 == 1) <;> simp

theorem hasRecv_negBits (l r : Nat) : hasRecv (negBits l r) = (hasRecv l && hasSend r) := by
  unfold negBits hasSend hasRecv
  cases h1 : ((l / 2) % 2 == 1 && r % 2 == 1) <;> cases h2 : (l % 2 == 1 && (r / 2) % 2 == 1) <;> simp

theorem mode_hasSend (a : AfCfg) : hasSend a.mode = true ↔ a.apSendMax > 0 := by
  unfold AfCfg.mode hasSend
  cases a.apRecv <;> by_cases h : a.apSendMax > 0 <;> simp [h]

theorem mode_hasRecv (a : AfCfg) : hasRecv a.mode = true ↔ a.apRecv = true := by
  unfold AfCfg.mode hasRecv
  cases a.apRecv <;> by_cases h : a.apSendMax > 0 <;> simp [h]

theorem buildOpen_caps (c : LocalCfg) : (buildOpen c).caps = capsFromConfig c := by
  simp [buildOpen, Open.caps, Param.capList]

theorem localHasAs4_true (c : LocalCfg) : localHasAs4 c = true :=
  (hasCap_iff 65 _).mpr ⟨Cap.as4 c.localAs, by rw [mem_capsFromConfig]; simp, rfl⟩

def as4Val : Cap → Option Nat
  | .as4 v => some v
  | _ => none

theorem getASN_fold (l : List Cap) (acc : Nat) :
    l.foldl as4Step acc = ((l.filterMap as4Val).getLast?).getD acc := by
  induction l generalizing acc with
  | nil => rfl
  | cons cp l ih =>
    rw [List.foldl_cons, ih]
    cases cp with
    | as4 v =>
      have : (Cap.as4 v :: l).filterMap as4Val = v :: l.filterMap as4Val := by
        simp [List.filterMap_cons, as4Val]
      rw [this, List.getLast?_cons]; rfl
    | _ => simp [List.filterMap_cons, as4Val, as4Step]

theorem filterMap_as4Val_nil (l : List Cap) (h : ∀ x ∈ l, x.code ≠ 65) : l.filterMap as4Val = [] := by
  induction l with
  | nil => rfl
  | cons x l ih =>
    have hx := h x List.mem_cons_self
    have : as4Val x = none := by cases x <;> simp_all [as4Val, Cap.code]
    rw [List.filterMap_cons_none this]
    exact ih (fun y hy => h y (List.mem_cons_of_mem _ hy))

/-! ### nothing negotiated by an earlier session survives -/

def grScalars (s : PeerState) : Bool × Nat × Bool × Bool :=
  (s.grEnabled, s.peerRestartTime, s.notifEnabled, s.llgrEnabled)

theorem grStep_scalars (c : LocalCfg) (cm : List Cap) (s s' : PeerState) (h : grScalars s = grScalars s') :
    grScalars (grStep c cm s) = grScalars (grStep c cm s') := by
  unfold grScalars at h
  simp only [Prod.mk.injEq] at h
  unfold grStep grScalars
  split <;> simp_all

theorem llgrStep_scalars (c : LocalCfg) (cm : List Cap) (s s' : PeerState) (h : grScalars s = grScalars s') :
    grScalars (llgrStep c cm s) = grScalars (llgrStep c cm s') := by
  unfold grScalars at h
  simp only [Prod.mk.injEq] at h
  unfold llgrStep grScalars
  split <;> simp_all

theorem stateChange_grScalars (c : LocalCfg) (s s' : PeerState) (o : Open) :
    grScalars (stateChange c s o) = grScalars (stateChange c s' o) := by
  have key := fun x y h => llgrStep_scalars c (open2CapMap o.caps) _ _ (grStep_scalars c (open2CapMap o.caps) x y h)
  simp only [grScalars] at key
  simp only [stateChange, grScalars]
  exact key _ _ rfl

end Negotiate
