import Model.ApiConv
import Lemmas.Wire
/-! helper lemmas for Props/C18 (core Lean only) -/
namespace ApiConv
open Wire

theorem rd32_be32' (n : Nat) (h : n < 4294967296) : rd32 (be32 n) = n := by
  simp [be32, rd32]; omega

theorem be32_rd32 (a b c d : Nat) (ha : a < 256) (hb : b < 256) (hc : c < 256) (hd : d < 256) :
    be32 (rd32 [a, b, c, d]) = [a, b, c, d] := by
  simp [be32, rd32]; omega

theorem isV4_be32 (n : Nat) : isV4 (be32 n) = true := rfl

/-- four octets -/
def Octets4 (b : Bytes) : Prop := b.length = 4 ∧ ∀ x ∈ b, x < 256

theorem be32_rd32_of (b : Bytes) (h : Octets4 b) : be32 (rd32 b) = b := by
  obtain ⟨hl, hb⟩ := h
  match b, hl with
  | [a, b, c, d], _ =>
    exact be32_rd32 a b c d (hb a (by simp)) (hb b (by simp)) (hb c (by simp)) (hb d (by simp))

theorem map_rd32_be32 : ∀ ids : List Nat, (∀ v ∈ ids, v < 4294967296) → (ids.map be32).map rd32 = ids
  | [], _ => rfl
  | v :: vs, h => by
    simp only [List.map_cons]
    rw [rd32_be32' v (h v (by simp)), map_rd32_be32 vs (fun x hx => h x (by simp [hx]))]

theorem all_isV4_be32 : ∀ ids : List Nat, (ids.map be32).all isV4 = true
  | [] => rfl
  | _ :: vs => by simp [List.all_cons, isV4_be32, all_isV4_be32 vs]

theorem map_be32_rd32 : ∀ ids : List Bytes, (∀ b ∈ ids, Octets4 b) → (ids.map rd32).map be32 = ids
  | [], _ => rfl
  | b :: bs, h => by
    simp only [List.map_cons]
    rw [be32_rd32_of b (h b (by simp)), map_be32_rd32 bs (fun x hx => h x (by simp [hx]))]

theorem all_isV4_of : ∀ ids : List Bytes, (∀ b ∈ ids, Octets4 b) → ids.all isV4 = true
  | [], _ => rfl
  | b :: bs, h => by
    have hb : isV4 b = true := by simp [isV4, (h b (by simp)).1]
    simp [List.all_cons, hb, all_isV4_of bs (fun x hx => h x (by simp [hx]))]

/-- segments: one trip through the API -/
theorem fromApiSeg_toApiSeg (s : Seg) : fromApiSeg (toApiSeg s) = rebuildSeg s := rfl

theorem map_fromApiSeg_toApiSeg (segs : List Seg) :
    (segs.map toApiSeg).map fromApiSeg = segs.map rebuildSeg := by
  simp [List.map_map, Function.comp_def, fromApiSeg_toApiSeg]

theorem rebuildSeg_of_wf {s : Seg} (h : SegWF true s) : rebuildSeg s = s := by
  obtain ⟨w4, typ, num, as⟩ := s
  obtain ⟨h1, _, h3, h4, _, h6, _⟩ := h
  simp only at h1 h3 h4 h6
  subst h1 h4
  simp only [rebuildSeg, mkSeg, Seg.mk.injEq, true_and, and_true]
  omega

theorem map_rebuildSeg_of_wf : ∀ segs : List Seg, (∀ s ∈ segs, SegWF true s) → segs.map rebuildSeg = segs
  | [], _ => rfl
  | s :: ss, h => by
    simp only [List.map_cons]
    rw [rebuildSeg_of_wf (h s (by simp)), map_rebuildSeg_of_wf ss (fun x hx => h x (by simp [hx]))]

/-- an API segment within the ranges Marshal produces -/
def ApiSegOk (s : ApiSeg) : Prop := s.typ < 256

theorem toApiSeg_fromApiSeg {s : ApiSeg} (h : ApiSegOk s) : toApiSeg (fromApiSeg s) = s := by
  obtain ⟨typ, numbers⟩ := s
  simp only [ApiSegOk] at h
  simp [toApiSeg, fromApiSeg, mkSeg, Nat.mod_eq_of_lt h]

theorem map_toApiSeg_fromApiSeg : ∀ segs : List ApiSeg, (∀ s ∈ segs, ApiSegOk s) →
    (segs.map fromApiSeg).map toApiSeg = segs
  | [], _ => rfl
  | s :: ss, h => by
    simp only [List.map_cons]
    rw [toApiSeg_fromApiSeg (h s (by simp)), map_toApiSeg_fromApiSeg ss (fun x hx => h x (by simp [hx]))]

/-- the extended-length rule of NewPathAttributeUnknown is idempotent -/
theorem mkUnknown_flags_idem (f : Nat) (hf : f < 256) (n : Nat) :
    let f' := if n > 255 && !hasBit f FLAG_EXT then f + FLAG_EXT else f
    f' < 256 ∧ (if n > 255 && !hasBit f' FLAG_EXT then f' + FLAG_EXT else f') = f' := by
  simp only [hasBit, FLAG_EXT]
  by_cases h1 : n > 255 <;> by_cases h2 : f / 16 % 2 = 1 <;> simp [h1, h2] <;> omega

/-! capabilities -/

theorem be16_mod (n : Nat) : be16 (n % 65536) = be16 n := by
  have h1 : n % 65536 / 256 % 256 = n / 256 % 256 := by omega
  have h2 : n % 65536 % 256 = n % 256 := by omega
  simp only [be16, h1, h2]

theorem encTuples3_norm (f : Nat → Nat) (hf : ∀ x, f x % 256 = x % 256) :
    ∀ ts : List (Nat × Nat × Nat),
      encTuples3 (ts.map fun (afi, safi, x) => (afi % 65536, safi % 256, f x)) = encTuples3 ts
  | [] => rfl
  | (a, s, x) :: ts => by
    simp only [List.map_cons, encTuples3, be16_mod, hf, Nat.mod_mod, encTuples3_norm f hf ts]

theorem encLlgr_norm : ∀ ts : List (Nat × Nat × Nat × Nat),
    encLlgrTuples (ts.map fun (afi, safi, fl, t) => (afi % 65536, safi % 256, fl % 256, t)) = encLlgrTuples ts
  | [] => rfl
  | (a, s, x, t) :: ts => by
    simp only [List.map_cons, encLlgrTuples, be16_mod, Nat.mod_mod, encLlgr_norm ts]

end ApiConv
