import Model.VrfRtcMgr
namespace VrfRtc

/-- neighbours never use source id 0 (that is this speaker) -/
def RecvOK : List MOp → Prop
  | [] => True
  | .recv _ p _ :: r => p.src ≠ 0 ∧ RecvOK r
  | _ :: r => RecvOK r

namespace MgrAux

/-! ## paths of one RT-membership destination -/

theorem scanLocal_iff (l : List RPath) : scanLocal l = true ↔ ∃ p, p ∈ l ∧ p.src = 0 := by
  induction l with
  | nil => simp [scanLocal]
  | cons q r ih =>
    unfold scanLocal
    by_cases h : q.src = 0
    · simp only [h, beq_self_eq_true, if_true, true_iff]
      exact ⟨q, List.mem_cons_self, h⟩
    · have hb : (q.src == 0) = false := by simp [h]
      rw [hb]
      simp only [Bool.false_eq_true, if_false, ih, List.mem_cons]
      constructor
      · rintro ⟨p, hp, h0⟩
        exact ⟨p, Or.inr hp, h0⟩
      · rintro ⟨p, hp | hp, h0⟩
        · subst hp; exact absurd h0 h
        · exact ⟨p, hp, h0⟩

theorem mem_rInsert (l : List RPath) (p x : RPath) : x ∈ rInsert l p ↔ x = p ∨ x ∈ l := by
  induction l with
  | nil => simp [rInsert]
  | cons q r ih =>
    unfold rInsert
    split
    · simp only [List.mem_cons]
    · simp only [List.mem_cons, ih]
      constructor
      · rintro (h | h | h)
        · exact Or.inr (Or.inl h)
        · exact Or.inl h
        · exact Or.inr (Or.inr h)
      · rintro (h | h | h)
        · exact Or.inr (Or.inl h)
        · exact Or.inl h
        · exact Or.inr (Or.inr h)

theorem mem_rRemove (l : List RPath) (s : Nat) (x : RPath) : x ∈ rRemove l s ↔ x ∈ l ∧ x.src ≠ s := by
  simp [rRemove, List.mem_filter]

theorem scanLocal_add (l : List RPath) : scanLocal (rUpdate l ⟨0, 100⟩ false) = true := by
  rw [scanLocal_iff]
  refine ⟨⟨0, 100⟩, ?_, rfl⟩
  simp only [rUpdate, Bool.false_eq_true, if_false]
  rw [mem_rInsert]
  exact Or.inl rfl

theorem scanLocal_wd (l : List RPath) : scanLocal (rUpdate l ⟨0, 100⟩ true) = false := by
  cases hs : scanLocal (rUpdate l ⟨0, 100⟩ true) with
  | false => rfl
  | true =>
    rw [scanLocal_iff] at hs
    obtain ⟨p, hp, h0⟩ := hs
    simp only [rUpdate, if_true] at hp
    rw [mem_rRemove] at hp
    exact absurd h0 hp.2

theorem scanLocal_other (l : List RPath) (p : RPath) (wd : Bool) (hp : p.src ≠ 0) :
    scanLocal (rUpdate l p wd) = scanLocal l := by
  rw [Bool.eq_iff_iff, scanLocal_iff, scanLocal_iff]
  cases wd with
  | true =>
    simp only [rUpdate, if_true, mem_rRemove]
    constructor
    · rintro ⟨x, ⟨hx, _⟩, h0⟩
      exact ⟨x, hx, h0⟩
    · rintro ⟨x, hx, h0⟩
      exact ⟨x, ⟨hx, fun e => hp (e ▸ h0)⟩, h0⟩
  | false =>
    simp only [rUpdate, Bool.false_eq_true, if_false, mem_rInsert, mem_rRemove]
    constructor
    · rintro ⟨x, hx | ⟨hx, _⟩, h0⟩
      · subst hx; exact absurd h0 hp
      · exact ⟨x, hx, h0⟩
    · rintro ⟨x, hx, h0⟩
      exact ⟨x, Or.inr ⟨hx, fun e => hp (e ▸ h0)⟩, h0⟩

theorem scanLocal_local (l : List RPath) (wd : Bool) : scanLocal (rUpdate l ⟨0, 100⟩ wd) = !wd := by
  cases wd with
  | true => simpa using scanLocal_wd l
  | false => simpa using scanLocal_add l

/-! ## localUpdate -/

theorem localUpdate_cons (rtc : Nat → List RPath) (k : Nat) (ks : List Nat) (wd : Bool) :
    localUpdate rtc (k :: ks) wd =
      localUpdate (fun x => if x = k then rUpdate (rtc k) ⟨0, 100⟩ wd else rtc x) ks wd := rfl

theorem scanLocal_localUpdate (ks : List Nat) (wd : Bool) :
    ∀ (rtc : Nat → List RPath) (x : Nat),
      scanLocal ((localUpdate rtc ks wd) x) = if x ∈ ks then !wd else scanLocal (rtc x) := by
  induction ks with
  | nil => intro rtc x; simp [localUpdate]
  | cons k ks ih =>
    intro rtc x
    rw [localUpdate_cons, ih]
    by_cases hx : x ∈ ks
    · simp [hx]
    · by_cases hk : x = k
      · subst hk
        simp [hx, scanLocal_local]
      · simp [hx, hk]

/-! ## lists -/

theorem mem_eraseDups_aux (x : Nat) : ∀ (n : Nat) (l : List Nat), l.length ≤ n → (x ∈ l.eraseDups ↔ x ∈ l) := by
  intro n
  induction n with
  | zero =>
    intro l hl
    have : l = [] := List.eq_nil_of_length_eq_zero (Nat.le_zero.mp hl)
    subst this
    simp
  | succ n ih =>
    intro l hl
    cases l with
    | nil => simp
    | cons a as =>
      rw [List.eraseDups_cons]
      have hlen : (as.filter fun b => !b == a).length ≤ n := by
        have := List.length_filter_le (fun b => !b == a) as
        simp only [List.length_cons] at hl
        omega
      simp only [List.mem_cons, ih _ hlen, List.mem_filter]
      by_cases hxa : x = a
      · simp [hxa]
      · simp [hxa]

theorem mem_eraseDups (x : Nat) (l : List Nat) : x ∈ l.eraseDups ↔ x ∈ l :=
  mem_eraseDups_aux x l.length l (Nat.le_refl _)

theorem isLastTargetUser_iff (rest : List Vrf) (k : Nat) :
    isLastTargetUser rest k = true ↔ ∀ w, w ∈ rest → k ∉ w.imports := by
  simp [isLastTargetUser, List.all_eq_true]

theorem mem_delVrfRtm (v : Vrf) (rest : List Vrf) (k : Nat) :
    k ∈ delVrfRtm v rest ↔ k ∈ v.imports ∧ ∀ w, w ∈ rest → k ∉ w.imports := by
  simp only [delVrfRtm, List.mem_filter, mem_eraseDups, isLastTargetUser_iff]

theorem name_unique (l : List Vrf) (hp : l.Pairwise (fun a b => a.name ≠ b.name)) :
    ∀ a b, a ∈ l → b ∈ l → a.name = b.name → a = b := by
  induction l with
  | nil => intro a b ha; cases ha
  | cons c r ih =>
    rw [List.pairwise_cons] at hp
    intro a b ha hb hn
    rw [List.mem_cons] at ha hb
    rcases ha with ha | ha <;> rcases hb with hb | hb
    · rw [ha, hb]
    · subst ha; exact absurd hn (hp.1 b hb)
    · subst hb; exact absurd hn.symm (hp.1 a ha)
    · exact ih hp.2 a b ha hb hn

/-! ## the invariant -/

def Inv (m : Mgr) : Prop :=
  m.vrfs.Pairwise (fun a b => a.name ≠ b.name) ∧
    ∀ k, scanLocal (m.rtc k) = true ↔ ∃ v, v ∈ m.vrfs ∧ k ∈ v.imports

theorem inv_empty : Inv Mgr.empty := by
  refine ⟨List.Pairwise.nil, fun k => ?_⟩
  simp [Mgr.empty, scanLocal]

theorem inv_add (m : Mgr) (v : Vrf) (hi : Inv m) : Inv (m.addVrf v) := by
  unfold Mgr.addVrf
  split
  · exact hi
  · rename_i hany
    have hno : ∀ w, w ∈ m.vrfs → v.name ≠ w.name := by
      intro w hw e
      apply hany
      rw [List.any_eq_true]
      exact ⟨w, hw, by simp [e]⟩
    refine ⟨?_, fun k => ?_⟩
    · show (v :: m.vrfs).Pairwise _
      rw [List.pairwise_cons]
      exact ⟨hno, hi.1⟩
    · show scanLocal (localUpdate m.rtc (addVrfRtm v) false k) = true ↔
        ∃ w, w ∈ v :: m.vrfs ∧ k ∈ w.imports
      rw [scanLocal_localUpdate]
      unfold addVrfRtm
      by_cases hk : k ∈ v.imports
      · simp only [hk, if_true, Bool.not_false, true_iff]
        exact ⟨v, List.mem_cons_self, hk⟩
      · simp only [hk, if_false, hi.2 k, List.mem_cons]
        constructor
        · rintro ⟨w, hw, hkw⟩
          exact ⟨w, Or.inr hw, hkw⟩
        · rintro ⟨w, hw | hw, hkw⟩
          · subst hw; exact absurd hkw hk
          · exact ⟨w, hw, hkw⟩

/-- the delete of a configured VRF, spelled out -/
theorem delVrf_eq (m : Mgr) (hi : Inv m) (name : Nat) (v : Vrf) (hv : v ∈ m.vrfs) (hn : v.name = name) :
    m.delVrf name =
      (⟨m.vrfs.filter (fun w => w.name != name),
        localUpdate m.rtc ((delVrfRtm v (m.vrfs.filter (fun w => w.name != name))).filter
          (fun k => scanLocal (m.rtc k))) true⟩,
       (delVrfRtm v (m.vrfs.filter (fun w => w.name != name))).filter (fun k => scanLocal (m.rtc k))) := by
  unfold Mgr.delVrf
  cases hf : m.vrfs.find? (fun w => w.name == name) with
  | none =>
    rw [List.find?_eq_none] at hf
    have := hf v hv
    simp [hn] at this
  | some v' =>
    have h1 : (fun w : Vrf => w.name == name) v' = true := List.find?_some (p := fun w : Vrf => w.name == name) hf
    have h2 : v' ∈ m.vrfs := List.mem_of_find?_eq_some hf
    have h3 : v'.name = name := by simpa using h1
    have : v' = v := name_unique m.vrfs hi.1 v' v h2 hv (by rw [h3, hn])
    subst this
    rfl

theorem mem_rest (m : Mgr) (name : Nat) (w : Vrf) :
    w ∈ m.vrfs.filter (fun w => w.name != name) ↔ w ∈ m.vrfs ∧ w.name ≠ name := by
  simp [List.mem_filter]

theorem mem_ws (m : Mgr) (hi : Inv m) (name : Nat) (v : Vrf) (hv : v ∈ m.vrfs) (k : Nat) :
    k ∈ (delVrfRtm v (m.vrfs.filter (fun w => w.name != name))).filter (fun k => scanLocal (m.rtc k)) ↔
      (k ∈ v.imports ∧ ∀ w, w ∈ m.vrfs.filter (fun w => w.name != name) → k ∉ w.imports) := by
  rw [List.mem_filter, mem_delVrfRtm]
  constructor
  · exact fun h => h.1
  · intro h
    exact ⟨h, (hi.2 k).mpr ⟨v, hv, h.1⟩⟩

theorem inv_del (m : Mgr) (name : Nat) (hi : Inv m) : Inv (m.delVrf name).1 := by
  cases hf : m.vrfs.find? (fun w => w.name == name) with
  | none =>
    have : m.delVrf name = (m, []) := by
      unfold Mgr.delVrf
      rw [hf]
    rw [this]
    exact hi
  | some v =>
    have h1 : (fun w : Vrf => w.name == name) v = true := List.find?_some (p := fun w : Vrf => w.name == name) hf
    have hv : v ∈ m.vrfs := List.mem_of_find?_eq_some hf
    have hn : v.name = name := by simpa using h1
    rw [delVrf_eq m hi name v hv hn]
    refine ⟨List.Pairwise.filter _ hi.1, fun k => ?_⟩
    show scanLocal (localUpdate m.rtc _ true k) = true ↔ _
    rw [scanLocal_localUpdate]
    by_cases hk : k ∈ (delVrfRtm v (m.vrfs.filter (fun w => w.name != name))).filter
        (fun k => scanLocal (m.rtc k))
    · rw [if_pos hk]
      have hk' := (mem_ws m hi name v hv k).mp hk
      simp only [Bool.not_true, Bool.false_eq_true, false_iff]
      rintro ⟨w, hw, hkw⟩
      exact hk'.2 w hw hkw
    · rw [if_neg hk, hi.2 k]
      constructor
      · rintro ⟨w, hw, hkw⟩
        by_cases hwn : w.name = name
        · have : w = v := name_unique m.vrfs hi.1 w v hw hv (by rw [hwn, hn])
          subst this
          apply Classical.byContradiction
          intro hne
          apply hk
          rw [mem_ws m hi name w hv k]
          exact ⟨hkw, fun u hu hku => hne ⟨u, hu, hku⟩⟩
        · exact ⟨w, (mem_rest m name w).mpr ⟨hw, hwn⟩, hkw⟩
      · rintro ⟨w, hw, hkw⟩
        exact ⟨w, ((mem_rest m name w).mp hw).1, hkw⟩

theorem inv_recv (m : Mgr) (k : Nat) (p : RPath) (wd : Bool) (hp : p.src ≠ 0) (hi : Inv m) :
    Inv (m.recv k p wd) := by
  refine ⟨hi.1, fun x => ?_⟩
  show scanLocal (if x = k then rUpdate (m.rtc k) p wd else m.rtc x) = true ↔ ∃ v, v ∈ m.vrfs ∧ x ∈ v.imports
  by_cases hx : x = k
  · subst hx
    rw [if_pos rfl, scanLocal_other _ _ _ hp]
    exact hi.2 x
  · rw [if_neg hx]
    exact hi.2 x

theorem inv_foldl (ops : List MOp) : ∀ m, Inv m → RecvOK ops → Inv (ops.foldl Mgr.step m) := by
  induction ops with
  | nil => intro m hi _; exact hi
  | cons o r ih =>
    intro m hi hr
    rw [List.foldl_cons]
    cases o with
    | add v => exact ih _ (inv_add m v hi) hr
    | del n => exact ih _ (inv_del m n hi) hr
    | recv k p wd => exact ih _ (inv_recv m k p wd hr.1 hi) hr.2

theorem inv_run (ops : List MOp) (h : RecvOK ops) : Inv (Mgr.run ops) :=
  inv_foldl ops Mgr.empty inv_empty h

end MgrAux

/-- after any sequence of VRF adds / deletes and received memberships, this speaker originates a membership
    for RT key k iff some configured VRF imports k -/
theorem local_memberships_eq (ops : List MOp) (h : RecvOK ops) (k : Nat) :
    scanLocal ((Mgr.run ops).rtc k) = true ↔ ∃ v, v ∈ (Mgr.run ops).vrfs ∧ k ∈ v.imports :=
  (MgrAux.inv_run ops h).2 k

/-- a VRF delete withdraws exactly the import targets of the deleted VRF that no remaining VRF imports -/
theorem delVrf_withdraws (ops : List MOp) (h : RecvOK ops) (name : Nat) (v : Vrf)
    (hv : v ∈ (Mgr.run ops).vrfs) (hn : v.name = name) (k : Nat) :
    k ∈ ((Mgr.run ops).delVrf name).2 ↔
      (k ∈ v.imports ∧ ∀ w, w ∈ ((Mgr.run ops).delVrf name).1.vrfs → k ∉ w.imports) := by
  have hi := MgrAux.inv_run ops h
  rw [MgrAux.delVrf_eq _ hi name v hv hn]
  exact MgrAux.mem_ws _ hi name v hv k

end VrfRtc
