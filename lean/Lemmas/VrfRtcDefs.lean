/-
  C17: invariants and specifications the theorems of Props/C17.lean are stated with.
-/
import Model.VrfRtc
namespace VrfRtc

/-! ### table -/

/-- shape of a VPN table that every sequence of `Tbl.update` keeps -/
structure TblWF (t : Tbl) : Prop where
  /-- a destination holds paths of its own NLRI only -/
  nlri_ok   : ∀ n p, p ∈ t.dest n → p.nlri = n
  /-- path objects are told apart by their uid (pointer identity in the Go code) -/
  uid_uniq  : ∀ n n' p q, p ∈ t.dest n → q ∈ t.dest n' → p.uid = q.uid → p = q
  /-- at most one stored path per announcement (root originInfo): a clone replaces its sibling -/
  root_uniq : ∀ n n' p q, p ∈ t.dest n → q ∈ t.dest n' → p.root = q.root → p = q
  /-- at most one path per (source, path-id) in a destination -/
  slot_uniq : ∀ n, (t.dest n).Pairwise (fun p q => sameSlot p q = false)
  /-- non-empty destinations are enumerated by the scans -/
  listed    : ∀ n, t.dest n ≠ [] → n ∈ t.nlris

/-- what may be fed to the table as an announcement: a new announcement (new object, new root:
    NewPath allocates a new originInfo), the very same stored object again, or a new clone of the
    announcement whose stored path it replaces (same source, path-id and NLRI) -/
def Fresh (t : Tbl) (p : VPath) : Prop :=
  (∀ n q, q ∈ t.dest n → q.uid = p.uid → q = p) ∧
  (∀ n q, q ∈ t.dest n → q.root = p.root → (q.nlri = p.nlri ∧ sameSlot p q = true))

/-- the RT index is exactly: per RT key, the stored paths carrying it that are the best path of
    their destination or have a non-zero path-id -/
def IdxInv (t : Tbl) : Prop :=
  ∀ k q, (k, q) ∈ t.idx ↔
    (q ∈ t.dest q.nlri ∧ k ∈ keys q.ecs ∧ (q.pathId ≠ 0 ∨ (t.dest q.nlri).head? = some q))

/-- tables reachable from the empty one by updates whose announcements are fresh -/
inductive Reach : Tbl → Prop where
  | empty : Reach Tbl.empty
  | step (t : Tbl) (p : VPath) (wd : Bool) : Reach t → (wd = false → Fresh t p) → Reach (t.update p wd)

/-! ### membership history -/

/-- one received RT-membership NLRI after import policy: announce (`wd = false`) or withdraw -/
structure MemEv where
  m  : Mem
  wd : Bool
deriving DecidableEq, Repr

def Rtm.run (s : Rtm) (evs : List MemEv) : Rtm := evs.foldl (fun s e => s.sync e.m e.wd) s

/-- the last event about `m` in a history, if any: `some true` = it is an announcement -/
def lastEv : List MemEv → Mem → Option Bool
  | [], _ => none
  | e :: es, m =>
    match lastEv es m with
    | some b => some b
    | none => if e.m = m then some (!e.wd) else none

/-! ### what the far end should hold -/

/-- RTC peer: it holds the best path of a destination iff it is interested in it -/
def ViewOK (t : Tbl) (s : Rtm) (v : View) : Prop :=
  ∀ n, v n = match t.best n with
    | some b => if interested s b.ecs then some b.marker else none
    | none => none

/-- view of a VRF neighbor, keyed by plain prefix -/
abbrev LView := Nat → Option Nat

def LView.apply1 (v : LView) : LMsg → LView
  | .adv n m => fun x => if x = n then some m else v x
  | .wd n => fun x => if x = n then none else v x

def LView.apply (v : LView) (ms : List LMsg) : LView := ms.foldl LView.apply1 v

/-- VRF neighbor: it holds prefix `x` iff the best path of the destination with that prefix can be
    imported (stated for tables in which a prefix occurs under one RD only, see `PfxInj`) -/
def CEViewOK (t : Tbl) (vr : Vrf) (v : LView) : Prop :=
  (∀ n, n ∈ t.nlris → v n.2 = match t.best n with
    | some b => if canImport vr b.ecs then some b.marker else none
    | none => none) ∧
  (∀ x, (∀ n, n ∈ t.nlris → n.2 ≠ x) → v x = none)

/-! ### the VRF's view of a prefix over ALL route distinguishers (RFC 4364: one route per prefix) -/

/-- the VRF's candidates for plain prefix `x`: the importable best paths of every destination (rd, x) -/
def vrfCands (t : Tbl) (vr : Vrf) (x : Nat) : List VPath :=
  (t.nlris.filter (fun n => n.2 == x)).filterMap (fun n =>
    match t.best n with
    | some b => if canImport vr b.ecs then some b else none
    | none => none)

/-- the most preferred candidate -/
def pickBest : List VPath → Option VPath
  | [] => none
  | p :: r =>
    match pickBest r with
    | some q => if p.pref < q.pref then some q else some p
    | none => some p

/-- full strength: for every prefix the VRF neighbor holds the VRF's selected route among the
    destinations (rd, x) iff one exists -/
def CEViewExact (t : Tbl) (vr : Vrf) (v : LView) : Prop :=
  ∀ x, v x = (pickBest (vrfCands t vr x)).map (·.marker)

/-- table + what one VRF neighbor holds, driven by table updates (the code's per-destination fan-out) -/
structure CESys where
  t : Tbl
  v : LView

def CESys.init : CESys := ⟨Tbl.empty, fun _ => none⟩

def CESys.step (vr : Vrf) (x : CESys) (p : VPath) (wd : Bool) : CESys :=
  ⟨x.t.update p wd, x.v.apply (ceOnTableChange vr (x.t.dest p.nlri) ((x.t.update p wd).dest p.nlri))⟩

def CESys.run (vr : Vrf) (evs : List (VPath × Bool)) : CESys :=
  evs.foldl (fun x e => x.step vr e.1 e.2) CESys.init

/-- every prefix occurs under one RD only among the NLRIs `ns` -/
def PfxInj (ns : List (Nat × Nat)) : Prop := ∀ n n', n ∈ ns → n' ∈ ns → n.2 = n'.2 → n = n'

/-! ### the speaker as seen by one RTC peer: table updates and membership events interleaved -/

inductive Ev where
  | upd (p : VPath) (wd : Bool)     -- a VPN route announced / withdrawn by some source
  | mem (m : Mem) (wd : Bool)       -- an RT-membership NLRI of the peer accepted / withdrawn
deriving Repr

/-- table, the peer's memberships, what the peer holds -/
structure Sys where
  t : Tbl
  s : Rtm
  v : View

def Sys.init : Sys := ⟨Tbl.empty, [], fun _ => none⟩

/-- one region of the Go code executed under the bucket lock (Table.update + fan-out to the peer) or
    under the peer's refresh lock (processRTCMembership), no RTC End-of-RIB wait pending -/
def Sys.step (x : Sys) : Ev → Sys
  | .upd p wd =>
    ⟨x.t.update p wd, x.s, x.v.apply (onTableChange x.s (x.t.dest p.nlri) ((x.t.update p wd).dest p.nlri))⟩
  | .mem m wd => ⟨x.t, (rtcStep x.t x.s false m wd).1, x.v.apply (rtcStep x.t x.s false m wd).2⟩

inductive SysReach : Sys → Prop where
  | init : SysReach Sys.init
  | step (x : Sys) (e : Ev) : SysReach x → (∀ p, e = Ev.upd p false → Fresh x.t p) → SysReach (x.step e)

/-! ### advertisement toward the peer suppressed for a while (needToAdvertise false) -/

inductive EvS where
  | upd (p : VPath) (wd : Bool)   -- a VPN route announced / withdrawn by some source
  | mem (m : Mem) (wd : Bool)     -- an RT-membership NLRI of the peer accepted / withdrawn
  | restart                       -- a new session on which updates toward the peer are deferred (the
                                  -- local speaker is restarting): nothing held, no membership yet
  | resume                        -- the deferral ends: deferred table transfer
deriving Repr

/-- table, memberships, what the peer holds, and whether updates toward it are deferred -/
structure SysS where
  t   : Tbl
  s   : Rtm
  v   : View
  sup : Bool

def SysS.init : SysS := ⟨Tbl.empty, [], fun _ => none, false⟩

def SysS.step (x : SysS) : EvS → SysS
  | .upd p wd =>
    ⟨x.t.update p wd, x.s,
     if x.sup then x.v
     else x.v.apply (onTableChange x.s (x.t.dest p.nlri) ((x.t.update p wd).dest p.nlri)), x.sup⟩
  | .mem m wd =>
    ⟨x.t, (rtcStepSup x.t x.s false m wd x.sup).1, x.v.apply (rtcStepSup x.t x.s false m wd x.sup).2, x.sup⟩
  | .restart => ⟨x.t, [], fun _ => none, true⟩
  | .resume => if x.sup then ⟨x.t, x.s, x.v.apply (catchUp x.t x.s), false⟩ else x

inductive SysSReach : SysS → Prop where
  | init : SysSReach SysS.init
  | step (x : SysS) (e : EvS) : SysSReach x → (∀ p, e = EvS.upd p false → Fresh x.t p) → SysSReach (x.step e)

/-! ### RT-membership prefixes over their whole length domain (RFC 4684 §4) -/

/-- a membership NLRI as received: prefix length 0..96, origin AS, the 64 route-target bits as sent
    (only the first `len - 32` of them are significant) -/
structure MemL where
  len : Nat
  as  : Nat
  rt  : Nat
deriving DecidableEq, Repr

/-- RFC 4684: the membership covers route-target value `k` iff their first `len - 32` bits agree;
    a length of 32 or less (origin AS only, or the default) covers every route target -/
def MemL.covers (m : MemL) (k : Nat) : Bool :=
  m.len ≤ 32 || k / 2 ^ (96 - m.len) == m.rt / 2 ^ (96 - m.len)

/-- what the code keeps (bgp.go decodeFromBytes + RouteTargetKey, rtc.go rtmSet.add): no route target
    for a length of 32 or less (key 0, the wildcard), otherwise the leading bits zero-padded, as an
    EXACT key -/
def MemL.toMem (m : MemL) : Mem :=
  ⟨if m.len ≤ 32 then 0 else m.rt / 2 ^ (96 - m.len) * 2 ^ (96 - m.len), m.as, 0⟩

/-- RFC 4684 semantics of a set of memberships toward a route's communities -/
def wantsRFC (ms : List MemL) (ecs : List EC) : Bool :=
  ms.any (fun m => m.len ≤ 32) || (keys ecs).any (fun k => ms.any (fun m => m.covers k))

/-- histories in which a prefix never occurs under two RDs -/
inductive CEReachUniq (vr : Vrf) : CESys → Prop where
  | init : CEReachUniq vr CESys.init
  | step (x : CESys) (p : VPath) (wd : Bool) : CEReachUniq vr x → (wd = false → Fresh x.t p) →
      PfxInj (x.t.update p wd).nlris → CEReachUniq vr (x.step vr p wd)

end VrfRtc
