/-
  What UpdatePathAttrs (Model/Export.lean) does per peer type, read attribute by attribute.
-/
import Lemmas.ExportMut
namespace Export

/-! ### generic facts about the state after Clone + first loop -/

theorem known_of_footprint {t : Nat} (h : t = 2 ∨ t = 3 ∨ t = 4 ∨ t = 5 ∨ t = 9 ∨ t = 10 ∨ t = 14) :
    known t = true := by
  rcases h with h | h | h | h | h | h | h <;> subst h <;> decide

theorem not_mem_stripDels_of_known {peer : Peer} {l : List Attr} {t : Nat}
    (hk : known t = true) (h9 : t ≠ tCLUSTER_LIST) (h10 : t ≠ tORIGINATOR_ID) : t ∉ stripDels peer l := by
  intro h
  rcases mem_stripDels h with h' | h'
  · rw [hk] at h'; cases h'
  · rcases h'.1 with e | e
    · exact h9 e
    · exact h10 e

theorem getAttr_stripped_known (peer : Peer) (p : Path) {t : Nat}
    (hk : known t = true) (h9 : t ≠ tCLUSTER_LIST) (h10 : t ≠ tORIGINATOR_ID) :
    getAttr (stripped peer p) t = getAttr p t := by
  rw [getAttr_stripped]; simp [not_mem_stripDels_of_known hk h9 h10]

theorem not_mem_dels_stripped_known (peer : Peer) (p : Path) {t : Nat}
    (hk : known t = true) (h9 : t ≠ tCLUSTER_LIST) (h10 : t ≠ tORIGINATOR_ID) :
    t ∉ (stripped peer p).leaf.dels := by
  rw [stripped_dels]; exact not_mem_stripDels_of_known hk h9 h10

/-- ORIGINATOR_ID / CLUSTER_LIST do not survive the first loop unless the target is an iBGP RR client -/
theorem getAttr_stripped_rr_none (peer : Peer) (p : Path) {t : Nat}
    (hc : t = tCLUSTER_LIST ∨ t = tORIGINATOR_ID)
    (hp : peer.peerType ≠ 0 ∨ peer.rrClient = false) : getAttr (stripped peer p) t = none := by
  rw [getAttr_stripped]
  split
  · rfl
  · rename_i hn
    cases hg : getAttr p t with
    | none => rfl
    | some a =>
      exfalso; apply hn
      have hat := getAttr_some_typ hg
      have : a ∈ getAttrs (clone p p.withdraw) :=
        mem_getAttrs_of_getAttr (t := t) (by rw [getAttr_clone]; exact hg)
      have := stripDels_rr (peer := peer) this (by rw [hat]; exact hc) hp
      rwa [hat] at this

/-- … and survive it toward an iBGP RR client -/
theorem getAttr_stripped_rr_keep (peer : Peer) (p : Path) {t : Nat}
    (hc : t = tCLUSTER_LIST ∨ t = tORIGINATOR_ID)
    (h0 : peer.peerType = 0) (hr : peer.rrClient = true) :
    getAttr (stripped peer p) t = getAttr p t ∧ t ∉ (stripped peer p).leaf.dels := by
  have hn : t ∉ stripDels peer (getAttrs (clone p p.withdraw)) := by
    intro h
    rcases mem_stripDels h with h' | h'
    · have : known t = true := by rcases hc with e | e <;> subst e <;> decide
      rw [this] at h'; cases h'
    · rcases h'.2 with e | e
      · exact e h0
      · rw [hr] at e; cases e
  refine ⟨?_, by rw [stripped_dels]; exact hn⟩
  rw [getAttr_stripped]; simp [hn]

/-- an unknown non-transitive attribute of the stored route is deleted by the first loop -/
theorem stripped_unknown (peer : Peer) (p : Path) {a : Attr} (hg : getAttr p a.typ = some a)
    (hk : known a.typ = false) (ht : transitive a.flags = false) :
    a.typ ∈ (stripped peer p).leaf.dels := by
  rw [stripped_dels]
  exact stripDels_unknown (mem_getAttrs_of_getAttr (t := a.typ) (by rw [getAttr_clone]; exact hg)) hk ht

theorem updatePathAttrs_eq (g : Global) (peer : Peer) (p : Path) (hrs : peer.rsClient = false) :
    updatePathAttrs g peer p =
      if peer.peerType == 1 then updateExternal g peer (stripped peer p) (getNexthop (stripped peer p))
      else if peer.peerType == 0 then updateInternal g peer (stripped peer p) (getNexthop (stripped peer p))
      else stripped peer p := by
  simp [updatePathAttrs, hrs, stripped]

/-! ### the eBGP arm, step by step -/

def ext1 (peer : Peer) (q : Path) (nh : Addr) : Path :=
  if !isLocal q || nh.isUnspecified then setNexthop q peer.localAddr else q
def ext2 (peer : Peer) (q : Path) (nh : Addr) : Path :=
  removePrivateAS (ext1 peer q nh) peer.localAS peer.removePrivate
def ext3 (g : Global) (peer : Peer) (q : Path) (nh : Addr) : Path :=
  prependAsn (ext2 peer q nh) peer.localAS 1 (g.members.contains peer.as)
def ext4 (g : Global) (peer : Peer) (q : Path) (nh : Addr) : Path :=
  if !g.members.contains peer.as then removeConfedAs (ext3 g peer q nh) else ext3 g peer q nh
def ext5 (g : Global) (peer : Peer) (q : Path) (nh : Addr) : Path :=
  match getAttr (ext4 g peer q nh) tMED with
  | some _ => if !isLocal (ext4 g peer q nh) then delAttr (ext4 g peer q nh) tMED else ext4 g peer q nh
  | none => ext4 g peer q nh

theorem updateExternal_eq (g : Global) (peer : Peer) (q : Path) (nh : Addr) :
    updateExternal g peer q nh = ext5 g peer q nh := rfl

theorem ext1_spec (peer : Peer) (q : Path) (nh : Addr) : NexthopOnly q (ext1 peer q nh) := by
  unfold ext1; split
  · exact setNexthop_spec _ _
  · exact NexthopOnly.refl _

theorem ext14_only (g : Global) (peer : Peer) (q : Path) (nh : Addr) :
    AsPathOnly (ext1 peer q nh) (ext4 g peer q nh) := by
  have h2 : AsPathOnly (ext1 peer q nh) (ext2 peer q nh) := removePrivateAS_only _ _ _
  have h3 : AsPathOnly (ext2 peer q nh) (ext3 g peer q nh) := prependAsn_only _ _ _ _
  have h4 : AsPathOnly (ext3 g peer q nh) (ext4 g peer q nh) := by
    unfold ext4; split
    · exact removeConfedAs_only _
    · exact AsPathOnly.refl _
  exact (h2.trans h3).trans h4

/-- the AS_PATH value the eBGP arm computes from the stored one -/
def ebgpSegs (g : Global) (peer : Peer) (stored : Option (List Seg)) : List Seg :=
  let confed := g.members.contains peer.as
  let s := prependSegs peer.localAS 1 confed
    ((stored.map (rmPrivOpt peer.localAS peer.removePrivate)).getD [])
  if confed then s else dropConfed s

theorem getAsPath_ext4 (g : Global) (peer : Peer) (q : Path) (nh : Addr) (h : tAS_PATH ∉ q.leaf.dels) :
    getAsPath (ext4 g peer q nh) = some (ebgpSegs g peer (getAsPath q)) := by
  have e1 := ext1_spec peer q nh
  have hd1 : tAS_PATH ∉ (ext1 peer q nh).leaf.dels := by
    intro hh
    rcases (e1.dels _).1 hh with h' | h'
    · exact h h'
    · exact absurd h'.1 (by decide)
  have hg1 : getAsPath (ext1 peer q nh) = getAsPath q :=
    getAsPath_congr (e1.frame _ (by decide) (by decide))
  have hd2 : tAS_PATH ∉ (ext2 peer q nh).leaf.dels := by
    rw [show (ext2 peer q nh).leaf.dels = (ext1 peer q nh).leaf.dels from (removePrivateAS_only _ _ _).dels]
    exact hd1
  have hg2 : getAsPath (ext2 peer q nh) = (getAsPath q).map (rmPrivOpt peer.localAS peer.removePrivate) := by
    unfold ext2; rw [getAsPath_removePrivateAS _ _ _ hd1, hg1]
  have hd3 : tAS_PATH ∉ (ext3 g peer q nh).leaf.dels := by
    rw [show (ext3 g peer q nh).leaf.dels = (ext2 peer q nh).leaf.dels from (prependAsn_only _ _ _ _).dels]
    exact hd2
  have hg3 : getAsPath (ext3 g peer q nh) = some (prependSegs peer.localAS 1 (g.members.contains peer.as)
      (((getAsPath q).map (rmPrivOpt peer.localAS peer.removePrivate)).getD [])) := by
    unfold ext3; rw [getAsPath_prependAsn _ _ _ _ hd2, hg2]
  unfold ext4 ebgpSegs
  by_cases hc : g.members.contains peer.as = true
  · simp only [hc, Bool.not_true, Bool.false_eq_true, if_false, if_true]
    rw [hg3, hc]
  · have hc' : g.members.contains peer.as = false := by simpa using hc
    simp only [hc', Bool.not_false, if_true, Bool.false_eq_true, if_false]
    rw [getAsPath_removeConfedAs _ hd3, hg3, hc']; rfl

structure MedStep (p q : Path) : Prop where
  same  : SameNode p q
  frame : ∀ t, t ≠ tMED → getAttr q t = getAttr p t
  dels  : ∀ t, t ∈ q.leaf.dels ↔ (t ∈ p.leaf.dels ∨ (t = tMED ∧ tMED ∈ q.leaf.dels))
  med   : getAttr q tMED = if isLocal p then getAttr p tMED else none

theorem ext5_spec (g : Global) (peer : Peer) (q : Path) (nh : Addr) :
    MedStep (ext4 g peer q nh) (ext5 g peer q nh) := by
  unfold ext5
  split
  · rename_i a hm
    split
    · rename_i hl
      have hl' : isLocal (ext4 g peer q nh) = false := by simpa using hl
      refine ⟨sameNode_delAttr _ _, fun t ht => by rw [getAttr_delAttr]; simp [ht], ?_, ?_⟩
      · intro t
        simp only [dels_delAttr, List.mem_append, List.mem_singleton]
        constructor
        · intro h; rcases h with h | h
          · exact Or.inl h
          · exact Or.inr ⟨h, by simp⟩
        · intro h; rcases h with h | h
          · exact Or.inl h
          · exact Or.inr h.1
      · rw [getAttr_delAttr]; simp [hl']
    · rename_i hl
      have hl' : isLocal (ext4 g peer q nh) = true := by simpa using hl
      refine ⟨SameNode.refl _, fun _ _ => rfl, fun t => ⟨Or.inl, fun h => h.elim id (fun h => h.1 ▸ h.2)⟩, ?_⟩
      simp [hl']
  · rename_i hm
    refine ⟨SameNode.refl _, fun _ _ => rfl, fun t => ⟨Or.inl, fun h => h.elim id (fun h => h.1 ▸ h.2)⟩, ?_⟩
    simp [hm]

/-- Everything the eBGP arm does, per attribute type. -/
theorem updateExternal_spec (g : Global) (peer : Peer) (q : Path) (nh : Addr) (h2 : tAS_PATH ∉ q.leaf.dels) :
    SameNode q (updateExternal g peer q nh) ∧
    getAsPath (updateExternal g peer q nh) = some (ebgpSegs g peer (getAsPath q)) ∧
    (∀ t, t ≠ tAS_PATH → t ≠ tNEXT_HOP → t ≠ tMP_REACH → t ≠ tMED →
        getAttr (updateExternal g peer q nh) t = getAttr q t) ∧
    (∀ t, t ∈ q.leaf.dels → t ∈ (updateExternal g peer q nh).leaf.dels) ∧
    getAttr (updateExternal g peer q nh) tMED = (if isLocal q then getAttr q tMED else none) ∧
    (∀ t, t = tNEXT_HOP ∨ t = tMP_REACH →
        getAttr (updateExternal g peer q nh) t = getAttr (ext1 peer q nh) t) := by
  rw [updateExternal_eq]
  have e1 := ext1_spec peer q nh
  have e4 := ext14_only g peer q nh
  have e5 := ext5_spec g peer q nh
  have hl4 : isLocal (ext4 g peer q nh) = isLocal q := isLocal_congr (e1.same.trans e4.same)
  refine ⟨(e1.same.trans e4.same).trans e5.same, ?_, ?_, ?_, ?_, ?_⟩
  · rw [getAsPath_congr (e5.frame _ (by decide)), getAsPath_ext4 g peer q nh h2]
  · intro t t2 t3 t14 t4
    rw [e5.frame t t4, e4.frame t t2, e1.frame t t3 t14]
  · intro t ht
    apply (e5.dels t).2; left
    rw [e4.dels]
    exact (e1.dels t).2 (Or.inl ht)
  · rw [e5.med, hl4, e4.frame _ (by decide), e1.frame _ (by decide) (by decide)]
  · intro t ht
    have hne2 : t ≠ tAS_PATH := by rcases ht with e | e <;> subst e <;> decide
    have hne4 : t ≠ tMED := by rcases ht with e | e <;> subst e <;> decide
    rw [e5.frame t hne4, e4.frame t hne2]

/-! ### the iBGP arm, step by step -/

def int1 (peer : Peer) (q : Path) (nh : Addr) : Path :=
  if isLocal q && nh.isUnspecified then setNexthop q peer.localAddr else q
def int2 (peer : Peer) (q : Path) (nh : Addr) : Path :=
  match getAttr (int1 peer q nh) tAS_PATH with
  | none => prependAsn (int1 peer q nh) 0 0 false
  | some _ => int1 peer q nh
def int3 (peer : Peer) (q : Path) (nh : Addr) : Path :=
  match getAttr (int2 peer q nh) tLOCAL_PREF with
  | none => setAttr (int2 peer q nh) (mkLocalPref 100)
  | some _ => int2 peer q nh

/-- the `if info.RouteReflectorClient` block -/
def rrBlock (g : Global) (peer : Peer) (p : Path) : Path :=
  let r : Path × Option Attr :=
    if p.family == RF_RTC_UC then
      let p := setNexthop p peer.localAddr
      (p, if isLocal p then mkOriginator? g.routerId else mkOriginator? p.src.localId)
    else match getAttr p tORIGINATOR_ID with
      | none => (p, if isLocal p then mkOriginator? g.routerId else mkOriginator? p.src.id)
      | some _ => (p, none)
  let p := setOpt r.1 r.2
  match getAttr p tCLUSTER_LIST with
  | some ⟨_, _, .addrs l⟩ => setAttr p (mkClusterList (peer.clusterId :: l))
  | _ => setAttr p (mkClusterList [peer.clusterId])

theorem updateInternal_eq (g : Global) (peer : Peer) (q : Path) (nh : Addr) :
    updateInternal g peer q nh =
      if peer.rrClient then rrBlock g peer (int3 peer q nh) else int3 peer q nh := by
  unfold updateInternal rrBlock int3 int2 int1
  rfl

/-- a step that writes only attribute types from `fp` and deletes at most NEXT_HOP -/
structure Touches (fp : List Nat) (p q : Path) : Prop where
  same  : SameNode p q
  frame : ∀ t, t ∉ fp → getAttr q t = getAttr p t
  dels  : ∀ t, t ∈ q.leaf.dels ↔ (t ∈ p.leaf.dels ∨ (t = tNEXT_HOP ∧ tNEXT_HOP ∈ q.leaf.dels))

theorem Touches.refl (fp : List Nat) (p : Path) : Touches fp p p :=
  ⟨SameNode.refl p, fun _ _ => rfl, fun t => ⟨Or.inl, fun h => h.elim id (fun h => h.1 ▸ h.2)⟩⟩

theorem Touches.mono {fp fp' : List Nat} {p q : Path} (h : Touches fp p q) (hs : ∀ t, t ∈ fp → t ∈ fp') :
    Touches fp' p q := ⟨h.same, fun t ht => h.frame t (fun hh => ht (hs t hh)), h.dels⟩

theorem Touches.trans {fp : List Nat} {p q r : Path} (h1 : Touches fp p q) (h2 : Touches fp q r) :
    Touches fp p r := by
  refine ⟨h1.same.trans h2.same, fun t ht => (h2.frame t ht).trans (h1.frame t ht), ?_⟩
  intro t
  constructor
  · intro h
    rcases (h2.dels t).1 h with h' | h'
    · rcases (h1.dels t).1 h' with h'' | h''
      · exact Or.inl h''
      · exact Or.inr ⟨h''.1, (h2.dels _).2 (Or.inl h''.2)⟩
    · exact Or.inr h'
  · intro h
    rcases h with h | h
    · exact (h2.dels t).2 (Or.inl ((h1.dels t).2 (Or.inl h)))
    · exact h.1 ▸ h.2

theorem touches_setAttr (p : Path) (a : Attr) : Touches [a.typ] p (setAttr p a) :=
  ⟨sameNode_setAttr _ _, fun t ht => by rw [getAttr_setAttr]; simp at ht; simp [ht],
   fun t => ⟨Or.inl, fun h => h.elim id (fun h => h.1 ▸ h.2)⟩⟩

theorem touches_of_nexthopOnly {p q : Path} (h : NexthopOnly p q) : Touches [tNEXT_HOP, tMP_REACH] p q :=
  ⟨h.same, fun t ht => h.frame t (by intro e; apply ht; simp [e]) (by intro e; apply ht; simp [e]), h.dels⟩

theorem touches_of_asPathOnly {p q : Path} (h : AsPathOnly p q) : Touches [tAS_PATH] p q :=
  ⟨h.same, fun t ht => h.frame t (by intro e; apply ht; simp [e]),
   fun t => by rw [h.dels]; exact ⟨Or.inl, fun hh => hh.elim id (fun hh => hh.1 ▸ (h.dels ▸ hh.2))⟩⟩

def ibgpFp : List Nat := [tAS_PATH, tNEXT_HOP, tLOCAL_PREF, tORIGINATOR_ID, tCLUSTER_LIST, tMP_REACH]

theorem int3_touches (peer : Peer) (q : Path) (nh : Addr) : Touches ibgpFp q (int3 peer q nh) := by
  have h1 : Touches ibgpFp q (int1 peer q nh) := by
    unfold int1; split
    · exact (touches_of_nexthopOnly (setNexthop_spec _ _)).mono (by intro t; simp [ibgpFp]; omega)
    · exact Touches.refl _ _
  have h2 : Touches ibgpFp (int1 peer q nh) (int2 peer q nh) := by
    unfold int2; split
    · exact (touches_of_asPathOnly (prependAsn_only _ _ _ _)).mono (by intro t; simp [ibgpFp]; omega)
    · exact Touches.refl _ _
  have h3 : Touches ibgpFp (int2 peer q nh) (int3 peer q nh) := by
    unfold int3; split
    · exact (touches_setAttr _ _).mono (by intro t; simp [ibgpFp, mkLocalPref]; omega)
    · exact Touches.refl _ _
  exact (h1.trans h2).trans h3

theorem setOpt_touches (p : Path) (o : Option Attr) (h : ∀ a, o = some a → a.typ = tORIGINATOR_ID) :
    Touches ibgpFp p (setOpt p o) := by
  cases o with
  | none => exact Touches.refl _ _
  | some a =>
    exact (touches_setAttr p a).mono (by intro t; simp [ibgpFp, h a rfl]; omega)

theorem mkOriginator?_typ {x : Addr} {a : Attr} (h : mkOriginator? x = some a) : a.typ = tORIGINATOR_ID := by
  unfold mkOriginator? at h; split at h
  · simp at h; subst h; rfl
  · simp at h

theorem rrBlock_touches (g : Global) (peer : Peer) (p : Path) : Touches ibgpFp p (rrBlock g peer p) := by
  unfold rrBlock
  have hcl : ∀ (x : Path) (l : List Nat), Touches ibgpFp x (setAttr x (mkClusterList l)) := fun x l =>
    (touches_setAttr x _).mono (by intro t; simp [ibgpFp, mkClusterList]; omega)
  have hmid : Touches ibgpFp p
      (setOpt (if p.family == RF_RTC_UC then
          ((setNexthop p peer.localAddr),
            if isLocal (setNexthop p peer.localAddr) then mkOriginator? g.routerId
            else mkOriginator? (setNexthop p peer.localAddr).src.localId)
        else match getAttr p tORIGINATOR_ID with
          | none => (p, if isLocal p then mkOriginator? g.routerId else mkOriginator? p.src.id)
          | some _ => (p, none)).1
        (if p.family == RF_RTC_UC then
          ((setNexthop p peer.localAddr),
            if isLocal (setNexthop p peer.localAddr) then mkOriginator? g.routerId
            else mkOriginator? (setNexthop p peer.localAddr).src.localId)
        else match getAttr p tORIGINATOR_ID with
          | none => (p, if isLocal p then mkOriginator? g.routerId else mkOriginator? p.src.id)
          | some _ => (p, none)).2) := by
    split
    · refine ((touches_of_nexthopOnly (setNexthop_spec p peer.localAddr)).mono
        (by intro t; simp [ibgpFp]; omega)).trans (setOpt_touches _ _ ?_)
      intro a ha; split at ha <;> exact mkOriginator?_typ ha
    · split
      · refine setOpt_touches _ _ ?_
        intro a ha; split at ha <;> exact mkOriginator?_typ ha
      · exact setOpt_touches _ _ (by intro a ha; cases ha)
  simp only []
  split
  · exact hmid.trans (hcl _ _)
  · exact hmid.trans (hcl _ _)

theorem updateInternal_touches (g : Global) (peer : Peer) (q : Path) (nh : Addr) :
    Touches ibgpFp q (updateInternal g peer q nh) := by
  rw [updateInternal_eq]; split
  · exact (int3_touches peer q nh).trans (rrBlock_touches g peer _)
  · exact int3_touches peer q nh

/-! ### effects of the iBGP arm -/

theorem prependSegs_zero : prependSegs 0 0 false [] = [] := by decide

theorem int3_spec (peer : Peer) (q : Path) (nh : Addr)
    (h2 : tAS_PATH ∉ q.leaf.dels) (h5 : tLOCAL_PREF ∉ q.leaf.dels) :
    getAttr (int3 peer q nh) tAS_PATH =
      (match getAttr q tAS_PATH with | some a => some a | none => some (mkAsPath [])) ∧
    getAttr (int3 peer q nh) tLOCAL_PREF =
      (match getAttr q tLOCAL_PREF with | some a => some a | none => some (mkLocalPref 100)) ∧
    (∀ t, t ≠ tAS_PATH → t ≠ tLOCAL_PREF → getAttr (int3 peer q nh) t = getAttr (int1 peer q nh) t) ∧
    ((isLocal q && nh.isUnspecified) = false → int1 peer q nh = q) := by
  have e1 : NexthopOnly q (int1 peer q nh) := by
    unfold int1; split
    · exact setNexthop_spec _ _
    · exact NexthopOnly.refl _
  have hd1 : ∀ t, t ≠ tNEXT_HOP → t ∉ q.leaf.dels → t ∉ (int1 peer q nh).leaf.dels := by
    intro t ht hq hh
    rcases (e1.dels t).1 hh with h' | h'
    · exact hq h'
    · exact ht h'.1
  have e2 : AsPathOnly (int1 peer q nh) (int2 peer q nh) := by
    unfold int2; split
    · exact prependAsn_only _ _ _ _
    · exact AsPathOnly.refl _
  have e3 : Touches [tLOCAL_PREF] (int2 peer q nh) (int3 peer q nh) := by
    unfold int3; split
    · exact touches_setAttr (int2 peer q nh) (mkLocalPref 100)
    · exact Touches.refl _ _
  have g2 : getAttr (int2 peer q nh) tAS_PATH =
      (match getAttr q tAS_PATH with | some a => some a | none => some (mkAsPath [])) := by
    have hq : getAttr (int1 peer q nh) tAS_PATH = getAttr q tAS_PATH := e1.frame _ (by decide) (by decide)
    unfold int2
    split
    · rename_i hn
      rw [prependAsn_eq, getAttr_setAttr]
      have : getAsPath (int1 peer q nh) = none := by simp [getAsPath, hn]
      rw [← hq, hn, this]
      simp [mkAsPath, hd1 _ (by decide) h2, prependSegs_zero]
    · rename_i a hs
      rw [← hq, hs]
  have hd2 : tLOCAL_PREF ∉ (int2 peer q nh).leaf.dels := by
    rw [e2.dels]; exact hd1 _ (by decide) h5
  refine ⟨?_, ?_, ?_, ?_⟩
  · rw [e3.frame _ (by decide)]; exact g2
  · have hq : getAttr (int2 peer q nh) tLOCAL_PREF = getAttr q tLOCAL_PREF := by
      rw [e2.frame _ (by decide), e1.frame _ (by decide) (by decide)]
    unfold int3
    split
    · rename_i hn
      rw [getAttr_setAttr, ← hq, hn]
      simp [mkLocalPref, hd2]
    · rename_i a hs
      rw [← hq, hs]
  · intro t t2 t5
    rw [e3.frame t (by simpa using t5), e2.frame t t2]
  · intro hc
    unfold int1; simp [hc]

theorem int3_frame (peer : Peer) (q : Path) (nh : Addr) (t : Nat)
    (t2 : t ≠ tAS_PATH) (t5 : t ≠ tLOCAL_PREF) (t3 : t ≠ tNEXT_HOP) (t14 : t ≠ tMP_REACH) :
    getAttr (int3 peer q nh) t = getAttr q t := by
  have e1 : NexthopOnly q (int1 peer q nh) := by
    unfold int1; split
    · exact setNexthop_spec _ _
    · exact NexthopOnly.refl _
  have e2 : AsPathOnly (int1 peer q nh) (int2 peer q nh) := by
    unfold int2; split
    · exact prependAsn_only _ _ _ _
    · exact AsPathOnly.refl _
  have e3 : Touches [tLOCAL_PREF] (int2 peer q nh) (int3 peer q nh) := by
    unfold int3; split
    · exact touches_setAttr (int2 peer q nh) (mkLocalPref 100)
    · exact Touches.refl _ _
  rw [e3.frame t (by simpa using t5), e2.frame t t2, e1.frame t t3 t14]

theorem rrBlock_spec (g : Global) (peer : Peer) (p : Path) (hf : p.family ≠ RF_RTC_UC)
    (h9 : tORIGINATOR_ID ∉ p.leaf.dels) (h10 : tCLUSTER_LIST ∉ p.leaf.dels) :
    getAttr (rrBlock g peer p) tORIGINATOR_ID =
      (match getAttr p tORIGINATOR_ID with
       | some a => some a
       | none => mkOriginator? (if isLocal p then g.routerId else p.src.id)) ∧
    getAttr (rrBlock g peer p) tCLUSTER_LIST = some (mkClusterList (peer.clusterId :: clusterList p)) ∧
    (∀ t, t ≠ tORIGINATOR_ID → t ≠ tCLUSTER_LIST → getAttr (rrBlock g peer p) t = getAttr p t) := by
  have hf' : (p.family == RF_RTC_UC) = false := by simpa using hf
  -- the path after the ORIGINATOR_ID step
  have key : ∃ p1 : Path, rrBlock g peer p =
        (match getAttr p1 tCLUSTER_LIST with
         | some ⟨_, _, .addrs l⟩ => setAttr p1 (mkClusterList (peer.clusterId :: l))
         | _ => setAttr p1 (mkClusterList [peer.clusterId])) ∧
      Touches [tORIGINATOR_ID] p p1 ∧ p1.leaf.dels = p.leaf.dels ∧
      getAttr p1 tORIGINATOR_ID =
        (match getAttr p tORIGINATOR_ID with
         | some a => some a
         | none => mkOriginator? (if isLocal p then g.routerId else p.src.id)) := by
    unfold rrBlock
    simp only [hf', Bool.false_eq_true, if_false]
    cases h : getAttr p tORIGINATOR_ID with
    | some a =>
      exact ⟨p, by simp [setOpt], Touches.refl _ _, rfl, by simp [h]⟩
    | none =>
      cases ho : mkOriginator? (if isLocal p then g.routerId else p.src.id) with
      | none =>
        refine ⟨p, ?_, Touches.refl _ _, rfl, by simp [h]⟩
        by_cases hl : isLocal p = true <;> simp [hl] at ho <;> simp [setOpt, hl, ho]
      | some a =>
        have hat := mkOriginator?_typ ho
        refine ⟨setAttr p a, ?_, ?_, rfl, ?_⟩
        · by_cases hl : isLocal p = true <;> simp [hl] at ho <;> simp [setOpt, hl, ho]
        · have := touches_setAttr p a; rwa [hat] at this
        · rw [← hat, getAttr_setAttr_same]; simp [hat, h9]
  rcases key with ⟨p1, hrr, ht, hd, ho⟩
  have hcl : clusterList p1 = clusterList p := by
    simp [clusterList, ht.frame tCLUSTER_LIST (by decide)]
  have h10' : tCLUSTER_LIST ∉ p1.leaf.dels := by rw [hd]; exact h10
  have hout : rrBlock g peer p = setAttr p1 (mkClusterList (peer.clusterId :: clusterList p1)) := by
    rw [hrr]; unfold clusterList
    split <;> simp_all
  rw [hout]
  refine ⟨?_, ?_, ?_⟩
  · rw [getAttr_setAttr_other _ _ _ (by simp [mkClusterList, tORIGINATOR_ID, tCLUSTER_LIST])]; exact ho
  · have := getAttr_setAttr_same p1 (mkClusterList (peer.clusterId :: clusterList p1))
    rw [hcl] at this ⊢
    simpa [mkClusterList, h10'] using this
  · intro t t9 t10
    rw [getAttr_setAttr_other _ _ _ (by simpa [mkClusterList] using t10)]
    exact ht.frame t (by simpa using t9)

end Export
